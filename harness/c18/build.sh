#!/bin/bash
here="$(cd "$(dirname "$0")/../.." && pwd)"
exec "$here/bin/e1check" C18 c18 TestC18 . ./muxer ./protocol/... -- "$@"
