// C39: KES signatures are forward-secure and period-bound.
//
// Bounded-exhaustive: depths 1..6, S key seeds, and for every key the COMPLETE Update
// chain 0..2^depth-1. At every step t of the chain:
//   - the public key is unchanged (cached value and the value recomputed from the key data),
//   - no seed from which a leaf of an earlier period could be derived is left in the key data
//     (own derivation of the whole seed tree, written from the sum-composition definition),
//   - Sign at the key's own period works and the signature verifies at period t' for EVERY
//     t' < 2^depth plus out-of-range periods iff t' == t,
//   - it fails for every single-bit flip of the message, other messages, every single-bit
//     flip of the public key, an unrelated public key, the two top sub-keys,
//   - every single-bit flip of the signature fails (one period per depth quick, all thorough),
//   - Sign for any other period (through the API, and with the exported Period field forced)
//     is refused or yields a signature that verifies at period t only (never at the requested one),
//   - history: the same key signs mA, mB, mA in the same period; all returned slices are kept (uncopied)
//     and re-checked for their own / the other message right away and after every later Update,
//   - at depth 6 the same table through VerifySignedKES and ledger.VerifyKesComponents
//     (slot -> period arithmetic).
//
// Oracle: the truth table of the property statement (accept iff nothing differs), plus an own
// seed-tree derivation for the forward-security scan. kes.Sign / kes.KeyGen / kes.Update are the
// trusted prover (DESIGN section 3); ed25519 and blake2b are trusted.
package main

import (
	"bytes"
	"crypto/ed25519"
	"encoding/binary"
	"encoding/hex"
	"encoding/json"
	"fmt"
	"math"
	"os"

	"golang.org/x/crypto/blake2b"

	"github.com/blinklabs-io/gouroboros/kes"
	"github.com/blinklabs-io/gouroboros/ledger"
	"verif/vlib"
)

// ---------- independent model of the sum-composition seed tree ----------

func expand(seed []byte, sep byte) []byte {
	h, _ := blake2b.New256(nil)
	h.Write([]byte{sep})
	h.Write(seed)
	return h.Sum(nil)
}

type node struct {
	lo, hi uint64 // periods [lo,hi) covered
	seed   []byte
}

// seedTree lists every node seed of the depth-d tree rooted at seed.
func seedTree(d uint64, seed []byte, lo uint64, out *[]node) {
	*out = append(*out, node{lo, lo + (uint64(1) << d), seed})
	if d == 0 {
		return
	}
	seedTree(d-1, expand(seed, 1), lo, out)
	seedTree(d-1, expand(seed, 2), lo+(uint64(1)<<(d-1)), out)
}

// refPub is the public key by the definition: leaf = ed25519 key of the leaf seed,
// inner = blake2b-256(left || right).
func refPub(d uint64, seed []byte) []byte {
	if d == 0 {
		return ed25519.NewKeyFromSeed(seed).Public().(ed25519.PublicKey)
	}
	l, r := refPub(d-1, expand(seed, 1)), refPub(d-1, expand(seed, 2))
	s := blake2b.Sum256(append(append([]byte{}, l...), r...))
	return s[:]
}

// ---------- code under test ----------

func verify(d uint64, sig []byte, period uint64, pk, msg []byte) bool {
	p, err := kes.NewSumKesFromBytes(d, sig)
	if err != nil {
		return false
	}
	return p.Verify(period, pk, msg)
}

type replay struct {
	Depth   uint64 `json:"depth"`
	Seed    string `json:"seed"`
	T       uint64 `json:"t"`        // number of updates applied / signing period
	TVerify uint64 `json:"t_verify"` // verifying period
	Msg     string `json:"msg"`
	VMsg    string `json:"verify_msg"`
	PK      string `json:"verify_pk"`
	Sig     string `json:"sig"`
	Via     string `json:"via"`
	Want    bool   `json:"want"`
}

func flip(b []byte, bit int) []byte {
	o := append([]byte{}, b...)
	o[bit/8] ^= 1 << (bit % 8)
	return o
}

func derive(tag string, seed int64, i int, n int) []byte {
	var out []byte
	for ctr := 0; len(out) < n; ctr++ {
		s := blake2b.Sum256([]byte(fmt.Sprintf("verif-C39|%s|%d|%d|%d", tag, seed, i, ctr)))
		out = append(out, s[:]...)
	}
	return out[:n]
}

type runner struct {
	c *vlib.Check
}

// expect runs one verification case and reports a violation if the verdict differs.
func (r *runner) expect(class, key string, d uint64, seed, sig []byte, t, tv uint64, pk, msg, vmsg []byte, want bool, via string) {
	var got bool
	switch via {
	case "VerifySignedKES":
		got = kes.VerifySignedKES(pk, tv, vmsg, sig)
	default:
		got = verify(d, sig, tv, pk, vmsg)
	}
	out := "reject"
	if got {
		out = "accept"
	}
	r.c.Eval(class, out)
	if got != want {
		r.c.Violation(key, fmt.Sprintf("depth %d signing period %d verifying period %d via %s: got %v want %v", d, t, tv, via, got, want),
			replay{d, hex.EncodeToString(seed), t, tv, hex.EncodeToString(msg), hex.EncodeToString(vmsg), hex.EncodeToString(pk), hex.EncodeToString(sig), via, want})
	}
}

func (r *runner) job(d uint64, si int, seed []byte, msgs [][]byte, allFlips bool) {
	c := r.c
	n := uint64(1) << d
	sk, pk0, err := kes.KeyGen(d, seed)
	if err != nil {
		c.Violation("KeyGen|error", fmt.Sprintf("depth %d: %v", d, err), map[string]any{"depth": d, "seed": hex.EncodeToString(seed)})
		return
	}
	pk0 = append([]byte{}, pk0...)
	if bytes.Equal(pk0, refPub(d, seed)) {
		c.Add("pubkey_matches_reference_derivation", 1)
	} else {
		c.Note(fmt.Sprintf("depth %d seed %d: public key differs from the reference derivation (forward-security scan would be vacuous)", d, si))
	}
	var tree []node
	seedTree(d, seed, 0, &tree)
	_, otherPk, _ := kes.KeyGen(d, derive("otherkey", c.Seed, si, 32))
	tag := fmt.Sprintf("d=%d", d)
	rd := func(t uint64) map[string]any {
		return map[string]any{"depth": d, "seed": hex.EncodeToString(seed), "t": t}
	}
	flipPeriod := (n / 2) + uint64(si)%(n/2) // a right-subtree period (uses an evolved key); all periods in thorough
	if n == 2 {
		flipPeriod = 1
	}

	// signatures that the caller keeps: every one must stay valid for its own (period, message) and for
	// nothing else, whatever the key does afterwards (further Sign calls, Update, erasure)
	type keptSig struct {
		t   uint64
		sig []byte // the slice exactly as returned by kes.Sign (never copied)
		msg []byte
		bad bool // already reported: not re-checked at later stages (one root cause, one report)
	}
	var kept []keptSig
	mA, mB := derive("keptA", c.Seed, si, 32), derive("keptB", c.Seed, si, 32)
	recheck := func(stage string, now uint64, from int) {
		for i := from; i < len(kept); i++ {
			ks := &kept[i]
			if ks.bad {
				continue
			}
			ks.bad = !verify(d, ks.sig, ks.t, pk0, ks.msg) || verify(d, ks.sig, ks.t, pk0, map[bool][]byte{true: mB, false: mA}[bytes.Equal(ks.msg, mA)])
			other := mA
			if bytes.Equal(ks.msg, mA) {
				other = mB
			}
			cl := fmt.Sprintf("kept:%s:%s:t=%d:now=%d", tag, stage, ks.t, now)
			r.expect(cl+":own", "Sign|kept-signature-no-longer-verifies|"+stage, d, seed, ks.sig, ks.t, ks.t, pk0, ks.msg, ks.msg, true, "Verify")
			r.expect(cl+":other-msg", "Sign|kept-signature-verifies-for-other-message|"+stage, d, seed, ks.sig, ks.t, ks.t, pk0, ks.msg, other, false, "Verify")
			if now != ks.t && now < n {
				r.expect(cl+":at-current-period", "Sign|kept-signature-verifies-at-later-period|"+stage, d, seed, ks.sig, ks.t, now, pk0, ks.msg, ks.msg, false, "Verify")
			}
		}
	}

	for t := uint64(0); t < n; t++ {
		// --- public key constant along the chain
		c.Eval(fmt.Sprintf("pk-const:%s:t=%d", tag, t), "")
		if !bytes.Equal(kes.PublicKey(sk), pk0) {
			c.Violation("PublicKey|changes-after-Update", fmt.Sprintf("depth %d after %d updates: %x != %x", d, t, kes.PublicKey(sk), pk0), rd(t))
		}
		uncached := &kes.SecretKey{Depth: sk.Depth, Period: sk.Period, Data: sk.Data}
		if !bytes.Equal(kes.PublicKey(uncached), pk0) {
			c.Violation("PublicKey|recomputed-from-data-changes-after-Update", fmt.Sprintf("depth %d after %d updates: %x != %x", d, t, kes.PublicKey(uncached), pk0), rd(t))
		}
		if sk.Period != t {
			c.Violation("Update|period-counter", fmt.Sprintf("depth %d after %d updates key says period %d", d, t, sk.Period), rd(t))
		}
		// --- forward security of the key material
		curLeaf := false
		for _, nd := range tree {
			has := bytes.Contains(sk.Data, nd.seed)
			if nd.lo < t { // this seed derives (or is) the leaf of an earlier period
				c.Eval("", "")
				if has {
					c.Violation("Update|evolved-key-retains-earlier-secret",
						fmt.Sprintf("depth %d after %d updates the key data still holds the seed of subtree [%d,%d)", d, t, nd.lo, nd.hi), rd(t))
				}
			} else if nd.lo == t && nd.hi == t+1 && has {
				curLeaf = true
			}
		}
		if curLeaf {
			c.Add("fs_scan_steps_with_current_leaf_located", 1)
		} else {
			c.Add("fs_scan_steps_vacuous", 1)
		}

		for mi, msg := range msgs {
			sig, err := kes.Sign(sk, t, msg)
			if err != nil {
				c.Eval(fmt.Sprintf("sign-own:%s:t=%d:m=%d", tag, t, mi), "sign-refused")
				c.Violation("Sign|refuses-own-period", fmt.Sprintf("depth %d period %d: %v", d, t, err), rd(t))
				continue
			}
			if t == flipPeriod && mi == 0 {
				c.Sample(map[string]any{"depth": d, "period": t, "msg": vlib.Hex(msg), "sig": vlib.Hex(sig), "pk": hex.EncodeToString(pk0)})
			}
			// --- every verifying period
			periods := make([]uint64, 0, n+8)
			for tv := uint64(0); tv < n; tv++ {
				periods = append(periods, tv)
			}
			periods = append(periods, n, n+t, 2*n+t, (uint64(1)<<32)+t, (uint64(1)<<63)+t, math.MaxUint64, math.MaxUint64-n+1+t)
			for _, tv := range periods {
				key := "Verify|genuine-signature-rejected"
				if tv != t {
					key = "Verify|accepts-at-other-period"
					if tv >= n {
						key = "Verify|accepts-out-of-range-period"
					}
				}
				r.expect(fmt.Sprintf("period:%s:t=%d:tv=%d:m=%d", tag, t, tv, mi), key, d, seed, sig, t, tv, pk0, msg, msg, tv == t, "Verify")
				if d == kes.CardanoKesDepth {
					r.expect(fmt.Sprintf("period6:t=%d:tv=%d:m=%d", t, tv, mi), "VerifySignedKES|"+key, d, seed, sig, t, tv, pk0, msg, msg, tv == t, "VerifySignedKES")
				}
			}
			// --- other messages
			for oi, om := range msgs {
				if oi != mi {
					r.expect(fmt.Sprintf("othermsg:%s:t=%d:%d/%d", tag, t, mi, oi), "Verify|accepts-other-message", d, seed, sig, t, t, pk0, msg, om, false, "Verify")
				}
			}
			if mi == 0 {
				for b := 0; b < len(msg)*8; b++ {
					r.expect(fmt.Sprintf("msgbit:%s:t=%d:b=%d", tag, t, b), "Verify|accepts-other-message", d, seed, sig, t, t, pk0, msg, flip(msg, b), false, "Verify")
				}
				r.expect(fmt.Sprintf("msgext:%s:t=%d", tag, t), "Verify|accepts-other-message", d, seed, sig, t, t, pk0, msg, append(append([]byte{}, msg...), 0), false, "Verify")
				r.expect(fmt.Sprintf("msgtrunc:%s:t=%d", tag, t), "Verify|accepts-other-message", d, seed, sig, t, t, pk0, msg, msg[:len(msg)-1], false, "Verify")
				// --- other public keys
				for b := 0; b < 256; b++ {
					r.expect(fmt.Sprintf("pkbit:%s:t=%d:b=%d", tag, t, b), "Verify|accepts-other-public-key", d, seed, sig, t, t, flip(pk0, b), msg, msg, false, "Verify")
				}
				r.expect(fmt.Sprintf("pkother:%s:t=%d", tag, t), "Verify|accepts-other-public-key", d, seed, sig, t, t, otherPk, msg, msg, false, "Verify")
				// the two sub-keys carried in the signature itself
				r.expect(fmt.Sprintf("pksubL:%s:t=%d", tag, t), "Verify|accepts-other-public-key", d, seed, sig, t, t, sig[len(sig)-64:len(sig)-32], msg, msg, false, "Verify")
				r.expect(fmt.Sprintf("pksubR:%s:t=%d", tag, t), "Verify|accepts-other-public-key", d, seed, sig, t, t, sig[len(sig)-32:], msg, msg, false, "Verify")
				// --- malformed lengths
				r.expect(fmt.Sprintf("siglen-1:%s:t=%d", tag, t), "Verify|accepts-malformed-signature", d, seed, sig[:len(sig)-1], t, t, pk0, msg, msg, false, "Verify")
				r.expect(fmt.Sprintf("siglen+1:%s:t=%d", tag, t), "Verify|accepts-malformed-signature", d, seed, append(append([]byte{}, sig...), 0), t, t, pk0, msg, msg, false, "Verify")
				// --- single-bit flips of the signature
				if allFlips || t == flipPeriod {
					for b := 0; b < len(sig)*8; b++ {
						region := "ed25519-sigma"
						if b/8 >= 64 {
							region = fmt.Sprintf("level-%d-keys", (b/8-64)/64+1)
						}
						r.expect(fmt.Sprintf("sigbit:%s:t=%d:b=%d", tag, t, b), "Verify|accepts-bit-flipped-signature|"+region, d, seed, flip(sig, b), t, t, pk0, msg, msg, false, "Verify")
					}
				}
				// --- ledger wrapper: slot -> KES period arithmetic (depth 6 only)
				if d == kes.CardanoKesDepth {
					r.ledgerCases(seed, sig, t, pk0, msg)
				}
			}
		}

		// --- history: several signatures from the same key in the same period, all of them kept
		{
			from := len(kept)
			for _, m := range [][]byte{mA, mB, mA} {
				sg, err := kes.Sign(sk, t, m)
				if err != nil {
					c.Violation("Sign|refuses-own-period", fmt.Sprintf("depth %d period %d (repeated Sign): %v", d, t, err), rd(t))
					continue
				}
				kept = append(kept, keptSig{t: t, sig: sg, msg: m})
			}
			recheck("after-later-Sign-in-same-period", t, from)
		}

		// --- Sign for any other period: refused, or the result verifies at t only
		for tq := uint64(0); tq < n+1; tq++ {
			if tq == t {
				continue
			}
			for _, forced := range []bool{false, true} {
				use := sk
				how := "api"
				if forced {
					// the caller rewinds the exported Period field on a copy of the evolved key
					use = &kes.SecretKey{Depth: sk.Depth, Period: tq, Data: append([]byte{}, sk.Data...)}
					how = "period-field-forced"
				}
				sig, err := kes.Sign(use, tq, msgs[0])
				class := fmt.Sprintf("sign-other:%s:t=%d:tq=%d:%s", tag, t, tq, how)
				if err != nil {
					c.Eval(class, "sign-refused")
					continue
				}
				c.Eval(class, "sign-produced")
				for tv := uint64(0); tv < n; tv++ {
					got := verify(d, sig, tv, pk0, msgs[0])
					if got && tv != t {
						key := "Sign|key-at-later-period-signs-for-earlier-period|" + how
						if tq > t || tv != tq {
							key = "Sign|wrong-period-signature-verifies-elsewhere|" + how
						}
						c.Violation(key, fmt.Sprintf("depth %d key evolved %d times, Sign(period %d) gave a signature valid at period %d", d, t, tq, tv),
							replay{d, hex.EncodeToString(seed), t, tv, hex.EncodeToString(msgs[0]), hex.EncodeToString(msgs[0]), hex.EncodeToString(pk0), hex.EncodeToString(sig), how + fmt.Sprintf(":tq=%d", tq), false})
					}
				}
			}
		}

		// --- evolve
		old := sk
		nsk, err := kes.Update(sk)
		if t+1 < n {
			if err != nil || nsk == nil {
				c.Eval(fmt.Sprintf("update:%s:t=%d", tag, t), "update-refused")
				c.Violation("Update|refuses-before-last-period", fmt.Sprintf("depth %d period %d: %v", d, t, err), rd(t))
				return
			}
			c.Eval(fmt.Sprintf("update:%s:t=%d", tag, t), "update-ok")
			// informational: is the predecessor handle still able to sign?
			if s, e := kes.Sign(old, t, msgs[0]); e == nil && verify(d, s, t, pk0, msgs[0]) {
				c.Add("predecessor_handle_still_signs", 1)
			} else {
				c.Add("predecessor_handle_erased", 1)
			}
			sk = nsk
			// everything signed so far must survive the evolution (and the erasure of the predecessor)
			recheck("after-Update", t+1, 0)
		} else {
			if err == nil && nsk != nil {
				c.Eval(fmt.Sprintf("update:%s:t=%d", tag, t), "update-past-last-period-ok")
				// a key "evolved 2^depth times" must not be able to sign anything that verifies
				for tq := uint64(0); tq <= n; tq++ {
					if s, e := kes.Sign(nsk, tq, msgs[0]); e == nil {
						for tv := uint64(0); tv < n; tv++ {
							if verify(d, s, tv, pk0, msgs[0]) {
								c.Violation("Update|exhausted-key-still-signs", fmt.Sprintf("depth %d: key updated past the last period signs for period %d", d, tv), rd(t))
							}
						}
					}
				}
			} else {
				c.Eval(fmt.Sprintf("update:%s:t=%d", tag, t), "update-exhausted-refused")
			}
			recheck("after-last-Update-attempt", n, 0)
		}
	}
}

// ledgerCases drives ledger.VerifyKesComponents: the KES period used for verification is
// slot/slotsPerKesPeriod - opcertStartPeriod. For every evolution tv (0..63 and 64) the first
// and last slot of that period must verify iff tv == t; slots before the certificate's start
// period never verify.
func (r *runner) ledgerCases(seed, sig []byte, t uint64, pk, msg []byte) {
	c := r.c
	for _, spk := range []uint64{1, 129600} {
		for _, start := range []uint64{0, 5, 400} {
			for tv := uint64(0); tv <= 64; tv++ {
				for _, slot := range []uint64{(start + tv) * spk, (start+tv)*spk + spk - 1} {
					got, err := ledger.VerifyKesComponents(msg, sig, pk, start, slot, spk)
					want := tv == t
					out := "reject"
					if got {
						out = "accept"
					}
					c.Eval(fmt.Sprintf("ledger:t=%d:tv=%d:spk=%d:start=%d:slot=%d", t, tv, spk, start, slot), out)
					if got != want || (want && err != nil) {
						key := "VerifyKesComponents|genuine-signature-rejected"
						if !want {
							key = "VerifyKesComponents|accepts-at-other-period"
						}
						c.Violation(key, fmt.Sprintf("signing evolution %d, opcert start %d, slotsPerKesPeriod %d, slot %d: got %v (%v) want %v", t, start, spk, slot, got, err, want),
							map[string]any{"seed": hex.EncodeToString(seed), "t": t, "start": start, "spk": spk, "slot": slot, "sig": hex.EncodeToString(sig)})
					}
				}
			}
			if start > 0 {
				slot := start*spk - 1 // last slot before the certificate becomes valid
				got, _ := ledger.VerifyKesComponents(msg, sig, pk, start, slot, spk)
				c.Eval(fmt.Sprintf("ledger-before-start:t=%d:spk=%d:start=%d", t, spk, start), map[bool]string{true: "accept", false: "reject"}[got])
				if got {
					c.Violation("VerifyKesComponents|accepts-before-opcert-start", fmt.Sprintf("t %d start %d spk %d slot %d accepted", t, start, spk, slot),
						map[string]any{"seed": hex.EncodeToString(seed), "t": t, "start": start, "spk": spk, "slot": slot})
				}
			}
		}
	}
}

func (r *runner) replayFile(path string) {
	b, err := os.ReadFile(path)
	if err != nil {
		r.c.Internal("replay: %v", err)
	}
	var f struct {
		Key    string `json:"key"`
		Replay replay `json:"replay"`
	}
	if err := json.Unmarshal(b, &f); err != nil || f.Replay.Sig == "" {
		r.c.Internal("replay file is not a single verification case (re-run the tier instead)")
	}
	x := func(s string) []byte { v, _ := hex.DecodeString(s); return v }
	rp := f.Replay
	via := rp.Via
	if via != "VerifySignedKES" {
		via = "Verify"
	}
	r.expect("replay", f.Key, rp.Depth, x(rp.Seed), x(rp.Sig), rp.T, rp.TVerify, x(rp.PK), x(rp.Msg), x(rp.VMsg), rp.Want, via)
	r.c.Finish()
}

func main() {
	c := vlib.New("C39", "exploration")
	r := &runner{c}
	if c.Replay != "" {
		r.replayFile(c.Replay)
	}
	seeds := 2
	if c.Thorough() {
		seeds = 16
	}
	type job struct {
		d  uint64
		si int
	}
	var jobs []job
	for si := 0; si < seeds; si++ {
		for d := uint64(6); d >= 1; d-- { // big jobs first for load balance
			jobs = append(jobs, job{d, si})
		}
	}
	vlib.Parallel(len(jobs), func(i int) {
		j := jobs[i]
		seed := derive("seed", c.Seed, j.si*16+int(j.d), 32)
		if j.si == 1 {
			// a structured seed as second representative
			seed = make([]byte, 32)
			binary.BigEndian.PutUint64(seed[24:], uint64(c.Seed)+j.d)
		}
		msgs := [][]byte{derive("msg", c.Seed, j.si, 32), {}, {0x00}, derive("msg2", c.Seed, j.si, 200)}
		if !c.Thorough() {
			msgs = msgs[:3]
		}
		r.job(j.d, j.si, seed, msgs, c.Thorough())
	})
	c.Set("rule", "depths 1..6 x key seeds x the complete Update chain; at every evolution t: every verifying period 0..2^d-1 plus 7 out-of-range periods, every single-bit flip of a 32-byte message and of the public key, other messages/keys/lengths, every single-bit flip of the signature (one right-subtree period per depth and seed in quick, every period in thorough), Sign for every other period through the API and with the Period field forced, seed-tree scan of the key data; depth 6 additionally through VerifySignedKES and ledger.VerifyKesComponents (first and last slot of every period, 3 start periods, 2 period lengths). distinct = distinct (depth, evolution, verifying period | mutated bit | requested period) tuple; seeds and message contents are representatives")
	c.Set("depths", "1..6")
	c.Set("seeds", seeds)
	c.Assume("kes.KeyGen/Sign/Update are the trusted prover when judging the verifier (DESIGN 3); crypto/ed25519 and blake2b are trusted")
	c.Assume("key seeds and message contents are fixed representatives (VERIF_SEED rotates them); periods, bit positions and the Update history are enumerated completely")
	// free-running -race pass: concurrent callers on their own inputs (state the library shares between calls)
	c.RaceAudit("c39")
	c.Finish()
}
