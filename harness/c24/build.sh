#!/bin/bash
here="$(cd "$(dirname "$0")/../.." && pwd)"
exec "$here/bin/e1check" C24 c24 TestC24 ./muxer ./protocol ./protocol/txsubmission -- "$@"
