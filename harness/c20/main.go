// C20: the supported-version tables are internally consistent.
//
// Complete enumeration of every entry of the four tables (Cardano NtC, Cardano NtN,
// DMQ NtC, DMQ NtN) x every magic of a boundary alphabet x all 8 combinations of
// (diffusion mode, peer sharing, query). The oracle is written from the property
// statement and the handshake CDDL of the network specification:
//
//	NtC  v<=14 : versionData = networkMagic
//	NtC  v>=15 : versionData = [networkMagic, query]
//	NtN  v<=10 : versionData = [networkMagic, initiatorOnlyDiffusionMode]
//	NtN  v11,12: versionData = [networkMagic, initiatorOnly, peerSharing 0..2, query]
//	NtN  v>=13 : versionData = [networkMagic, initiatorOnly, peerSharing 0..1, query]
//	DMQ  NtC   : [networkMagic, query]              (version numbers carry bit 12)
//	DMQ  NtN   : [networkMagic, initiatorOnly, peerSharing 0..1, query]
//
// The wire bytes are read with the harness's own CBOR reader (verif/space), never with
// the repository's decoder, and an encoding built by the harness's own writer is pushed
// through the version's own decoder as the second, independent direction.
package main

import (
	"fmt"
	"reflect"
	"sort"

	"github.com/blinklabs-io/gouroboros/cbor"
	"github.com/blinklabs-io/gouroboros/protocol"
	"verif/space"
	"verif/vlib"
)

type table struct {
	name    string
	list    func() []uint16
	gen     func(magic uint32, diff, ps, q bool) protocol.ProtocolVersionMap
	family  func(v uint16) bool // version number belongs to this table's family
	ordinal func(v uint16) int  // version number without the family bit
	shape   func(ord int) string
}

// shapes (from the handshake CDDL)
const (
	shMagic = "magic"        // bare uint
	shMQ    = "magic,query"  // [magic, query]
	shMD    = "magic,diff"   // [magic, diff]
	shV11   = "m,d,ps3,q"    // [magic, diff, 0..2, query]
	shV13   = "m,d,ps2,q"    // [magic, diff, 0..1, query]
)

var eraNames = []string{"Shelley", "Allegra", "Mary", "Alonzo", "Babbage", "Conway", "Dijkstra"}

func eras(pv protocol.ProtocolVersion) []bool {
	return []bool{pv.EnableShelleyEra, pv.EnableAllegraEra, pv.EnableMaryEra, pv.EnableAlonzoEra,
		pv.EnableBabbageEra, pv.EnableConwayEra, pv.EnableDijkstraEra}
}

// prefixLen returns the number of enabled eras if they form a prefix, else -1.
func prefixLen(e []bool) int {
	n := 0
	for n < len(e) && e[n] {
		n++
	}
	for i := n; i < len(e); i++ {
		if e[i] {
			return -1
		}
	}
	return n
}

type fields struct {
	magic       uint32
	diff, ps, q bool
}

func (f fields) String() string {
	return fmt.Sprintf("magic=%d diff=%v ps=%v query=%v", f.magic, f.diff, f.ps, f.q)
}

func accessors(vd protocol.VersionData) fields {
	return fields{vd.NetworkMagic(), vd.DiffusionMode(), vd.PeerSharing(), vd.Query()}
}

// carried says which of the four inputs the shape transports.
func carried(shape string) (diff, ps, q bool) {
	switch shape {
	case shMagic:
		return false, false, false
	case shMQ:
		return false, false, true
	case shMD:
		return true, false, false
	}
	return true, true, true
}

// readWire extracts the fields from wire bytes with the harness's own reader.
func readWire(shape string, b []byte) (f fields, psRaw uint64, err error) {
	n, e := space.Parse(b)
	if e != nil {
		return f, 0, e
	}
	u32 := func(x *space.Node) (uint32, error) {
		if x.Major != 0 || x.Arg > 0xffffffff {
			return 0, fmt.Errorf("magic is not a uint32 (major %d arg %d)", x.Major, x.Arg)
		}
		return uint32(x.Arg), nil
	}
	bl := func(x *space.Node) (bool, error) {
		if x.Major != 7 || x.Float || (x.Arg != 20 && x.Arg != 21) {
			return false, fmt.Errorf("not a bool (major %d arg %d)", x.Major, x.Arg)
		}
		return x.Arg == 21, nil
	}
	if shape == shMagic {
		f.magic, err = u32(n)
		return
	}
	want := map[string]int{shMQ: 2, shMD: 2, shV11: 4, shV13: 4}[shape]
	if n.Major != 4 || len(n.Items) != want {
		return f, 0, fmt.Errorf("want array(%d), got major %d len %d", want, n.Major, len(n.Items))
	}
	if f.magic, err = u32(n.Items[0]); err != nil {
		return
	}
	switch shape {
	case shMQ:
		f.q, err = bl(n.Items[1])
	case shMD:
		f.diff, err = bl(n.Items[1])
	default:
		if f.diff, err = bl(n.Items[1]); err != nil {
			return
		}
		if n.Items[2].Major != 0 {
			return f, 0, fmt.Errorf("peerSharing is not a uint")
		}
		psRaw = n.Items[2].Arg
		max := uint64(1)
		if shape == shV11 {
			max = 2
		}
		if psRaw > max {
			return f, psRaw, fmt.Errorf("peerSharing %d outside 0..%d", psRaw, max)
		}
		f.ps = psRaw != 0
		f.q, err = bl(n.Items[3])
	}
	return
}

// ownWire builds the version data with the harness's own writer.
func ownWire(shape string, f fields) []byte {
	m := space.U(uint64(f.magic))
	ps := uint64(0)
	if f.ps {
		ps = 1
		if shape == shV11 {
			ps = 2 // v11/v12: 2 = public (what the generator is specified to emit for peerSharing=true)
		}
	}
	switch shape {
	case shMagic:
		return m.Encode()
	case shMQ:
		return space.A(m, space.Bool(f.q)).Encode()
	case shMD:
		return space.A(m, space.Bool(f.diff)).Encode()
	}
	return space.A(m, space.Bool(f.diff), space.U(ps), space.Bool(f.q)).Encode()
}

func main() {
	c := vlib.New("C20", "exploration")

	cardanoNtC := func(ord int) string {
		if ord >= 15 {
			return shMQ
		}
		return shMagic
	}
	cardanoNtN := func(ord int) string {
		switch {
		case ord >= 13:
			return shV13
		case ord >= 11:
			return shV11
		}
		return shMD
	}
	tables := []table{
		{"NtC", protocol.GetProtocolVersionsNtC,
			func(m uint32, d, p, q bool) protocol.ProtocolVersionMap {
				return protocol.GetProtocolVersionMap(protocol.ProtocolModeNodeToClient, m, d, p, q)
			},
			func(v uint16) bool { return v&0x8000 != 0 }, func(v uint16) int { return int(v &^ 0x8000) }, cardanoNtC},
		{"NtN", protocol.GetProtocolVersionsNtN,
			func(m uint32, d, p, q bool) protocol.ProtocolVersionMap {
				return protocol.GetProtocolVersionMap(protocol.ProtocolModeNodeToNode, m, d, p, q)
			},
			func(v uint16) bool { return v&0x8000 == 0 }, func(v uint16) int { return int(v) }, cardanoNtN},
		{"DMQ-NtC", protocol.GetProtocolVersionsDMQNtC,
			func(m uint32, d, p, q bool) protocol.ProtocolVersionMap {
				return protocol.GetProtocolVersionMapDMQNtC(m, q)
			},
			func(v uint16) bool { return v&0x1000 != 0 && v&0x8000 == 0 }, func(v uint16) int { return int(v &^ 0x1000) },
			func(int) string { return shMQ }},
		{"DMQ-NtN", protocol.GetProtocolVersionsDMQNtN,
			func(m uint32, d, p, q bool) protocol.ProtocolVersionMap {
				return protocol.GetProtocolVersionMapDMQNtN(m, d, p, q)
			},
			func(v uint16) bool { return v&0x1000 == 0 && v&0x8000 == 0 }, func(v uint16) int { return int(v) },
			func(int) string { return shV13 }},
	}

	magics := []uint32{1, 764824073, 0xffffffff}
	if c.Thorough() {
		// every CBOR width boundary of the magic plus the well-known magics
		magics = []uint32{0, 1, 2, 23, 24, 255, 256, 65535, 65536, 764824073, 2912307721, 3141592, 0x7fffffff, 0x80000000, 0xfffffffe, 0xffffffff}
	}
	// VERIF_SEED only rotates one extra representative magic
	if c.Seed != 0 {
		magics = append(magics, uint32(uint64(c.Seed)*2654435761))
	}

	listed := map[uint16]string{}
	for _, t := range tables {
		vs := t.list()
		// (1) membership + strictly ascending
		for i, v := range vs {
			listed[v] = t.name
			ok := t.family(v)
			c.Eval(fmt.Sprintf("list:%s:%d", t.name, v), "list-member-ok")
			if !ok {
				c.Violation(fmt.Sprintf("list|%s|foreign-version", t.name),
					fmt.Sprintf("%s list contains version %#x which does not belong to that family", t.name, v),
					map[string]any{"table": t.name, "version": v})
			}
			if i > 0 && vs[i-1] >= v {
				c.Violation(fmt.Sprintf("list|%s|not-ascending", t.name),
					fmt.Sprintf("%s list not strictly ascending at index %d: %d then %d", t.name, i, vs[i-1], v),
					map[string]any{"table": t.name, "list": vs})
			}
		}
		if len(vs) == 0 {
			c.Violation(fmt.Sprintf("list|%s|empty", t.name), "empty version list", nil)
		}
		// twice the same answer (map iteration order must not leak)
		for k := 0; k < 20; k++ {
			if !reflect.DeepEqual(vs, t.list()) {
				c.Violation(fmt.Sprintf("list|%s|unstable", t.name), "two calls returned different lists", nil)
			}
		}

		// (3) eras: prefix, monotone in version order
		prev, prevV := -1, uint16(0)
		for _, v := range vs {
			pv := protocol.GetProtocolVersion(v)
			e := eras(pv)
			n := prefixLen(e)
			c.Eval(fmt.Sprintf("eras:%s:%d", t.name, v), fmt.Sprintf("era-prefix-%d", n))
			if n < 0 {
				c.Violation(fmt.Sprintf("eras|%s|not-a-prefix", t.name),
					fmt.Sprintf("version %d of %s enables %v (order %v): not a prefix of the era sequence", v, t.name, e, eraNames),
					map[string]any{"table": t.name, "version": v, "eras": e})
			} else {
				if prev >= 0 && n < prev {
					c.Violation(fmt.Sprintf("eras|%s|shrinks", t.name),
						fmt.Sprintf("%s: version %d enables %d eras but the lower version %d enables %d", t.name, v, n, prevV, prev),
						map[string]any{"table": t.name, "version": v, "lower": prevV})
				}
				prev, prevV = n, v
			}
			if pv.NewVersionDataFromCborFunc == nil {
				c.Violation(fmt.Sprintf("decoder|%s|missing", t.name),
					fmt.Sprintf("supported version %d of %s has no version-data decoder", v, t.name),
					map[string]any{"table": t.name, "version": v})
			}
		}

		// (2) generated version data: encode -> decode with the version's own decoder
		for _, magic := range magics {
			for combo := 0; combo < 8; combo++ {
				in := fields{magic, combo&1 != 0, combo&2 != 0, combo&4 != 0}
				m := t.gen(in.magic, in.diff, in.ps, in.q)
				// the generated map covers exactly the listed versions
				keys := make([]int, 0, len(m))
				for k := range m {
					keys = append(keys, int(k))
				}
				sort.Ints(keys)
				for _, k := range keys {
					if !t.family(uint16(k)) {
						c.Violation(fmt.Sprintf("map|%s|foreign-version", t.name),
							fmt.Sprintf("version map for %s contains version %#x of another family", t.name, k),
							map[string]any{"table": t.name, "version": k})
					}
				}
				for _, v := range vs {
					vd, ok := m[v]
					shape := t.shape(t.ordinal(v))
					cls := fmt.Sprintf("vd:%s:%d:%s", t.name, v, in)
					if !ok || vd == nil {
						c.Eval(cls, "no-entry")
						c.Violation(fmt.Sprintf("map|%s|listed-version-without-data", t.name),
							fmt.Sprintf("no version data generated for supported version %d of %s", v, t.name),
							map[string]any{"table": t.name, "version": v})
						continue
					}
					dec := protocol.GetProtocolVersion(v).NewVersionDataFromCborFunc
					if dec == nil {
						c.Eval(cls, "no-decoder")
						continue // reported above
					}
					rep := map[string]any{"table": t.name, "version": v, "magic": in.magic, "diff": in.diff, "peerSharing": in.ps, "query": in.q}
					gen := accessors(vd)
					wire, err := cbor.Encode(vd)
					if err != nil {
						c.Eval(cls, "encode-error")
						c.Violation(fmt.Sprintf("roundtrip|%s|encode-error", shape), fmt.Sprintf("%s v%d %s: encode: %v", t.name, v, in, err), rep)
						continue
					}
					rep["wire"] = fmt.Sprintf("%x", wire)
					back, err := dec(wire)
					if err != nil || back == nil {
						c.Eval(cls, "decode-error")
						c.Violation(fmt.Sprintf("roundtrip|%s|own-decoder-rejects", shape),
							fmt.Sprintf("%s v%d %s: own decoder rejects generated data %x: %v", t.name, v, in, wire, err), rep)
						continue
					}
					got := accessors(back)
					// (2a) the stated property: decoded == generated, all four fields
					if got != gen {
						c.Eval(cls, "roundtrip-differs")
						c.Violation(fmt.Sprintf("roundtrip|%s|decoded≠generated", shape),
							fmt.Sprintf("%s v%d: generated {%s} decodes to {%s} (wire %x)", t.name, v, gen, got, wire), rep)
						continue
					}
					// (2b) the generated entry carries the requested values in every field that
					// this version's version data transports (CDDL table above)
					cd, cp, cq := carried(shape)
					if gen.magic != in.magic || (cd && gen.diff != in.diff) || (cp && gen.ps != in.ps) || (cq && gen.q != in.q) {
						c.Eval(cls, "generated-differs")
						c.Violation(fmt.Sprintf("generate|%s|entry≠requested", shape),
							fmt.Sprintf("%s v%d: requested {%s} but generated entry reports {%s}", t.name, v, in, gen), rep)
						continue
					}
					// (2c) independent reading of the wire bytes
					wf, psRaw, werr := readWire(shape, wire)
					if werr != nil {
						c.Eval(cls, "wire-shape")
						c.Violation(fmt.Sprintf("wire|%s|shape", shape),
							fmt.Sprintf("%s v%d {%s}: wire %x does not have the version's shape: %v", t.name, v, in, wire, werr), rep)
						continue
					}
					if wf.magic != in.magic || (cd && wf.diff != in.diff) || (cp && wf.ps != in.ps) || (cq && wf.q != in.q) {
						c.Eval(cls, "wire-differs")
						c.Violation(fmt.Sprintf("wire|%s|fields≠requested", shape),
							fmt.Sprintf("%s v%d: requested {%s}, own reader finds {%s} (peerSharing raw %d) in %x", t.name, v, in, wf, psRaw, wire), rep)
						continue
					}
					// (2d) other direction: own writer -> the version's own decoder
					own := ownWire(shape, in)
					back2, err := dec(own)
					if err != nil || back2 == nil {
						c.Eval(cls, "own-wire-rejected")
						c.Violation(fmt.Sprintf("decode|%s|rejects-spec-encoding", shape),
							fmt.Sprintf("%s v%d: own decoder rejects spec-shaped version data %x: %v", t.name, v, own, err), rep)
						continue
					}
					g2 := accessors(back2)
					if g2.magic != in.magic || (cd && g2.diff != in.diff) || (cp && g2.ps != in.ps) || (cq && g2.q != in.q) {
						c.Eval(cls, "own-wire-differs")
						c.Violation(fmt.Sprintf("decode|%s|fields≠wire", shape),
							fmt.Sprintf("%s v%d: spec-shaped data %x {%s} decodes to {%s}", t.name, v, own, in, g2), rep)
						continue
					}
					c.Eval(cls, "roundtrip-equal:"+shape)
					if combo == 5 && magic == magics[1] && (v == vs[0] || v == vs[len(vs)-1]) {
						c.Sample(map[string]any{"table": t.name, "version": v, "requested": in.String(), "wire": fmt.Sprintf("%x", wire), "decoded": got.String()})
					}
				}
			}
		}
	}

	// every 16-bit version number: a decoder exists exactly for the listed ones, so the
	// four lists together are the whole table (no hidden, unlisted version can be negotiated)
	unlisted := 0
	for v := 0; v < 65536; v++ {
		pv := protocol.GetProtocolVersion(uint16(v))
		_, isListed := listed[uint16(v)]
		if isListed {
			continue // evaluated above
		}
		unlisted++
		if pv.NewVersionDataFromCborFunc != nil || prefixLen(eras(pv)) != 0 {
			c.Eval(fmt.Sprintf("unlisted:%d", v), "unlisted-but-configured")
			c.Violation("table|configured-version-in-no-list",
				fmt.Sprintf("version %#x has a table entry but is in none of the four version lists", v),
				map[string]any{"version": v})
		}
	}
	c.EvalN(int64(unlisted))
	c.Outcome("unlisted-unconfigured")
	c.Set("unlisted_version_numbers_checked", unlisted)
	c.Set("magics", magics)
	c.Set("tables", map[string]any{"NtC": protocol.GetProtocolVersionsNtC(), "NtN": protocol.GetProtocolVersionsNtN(),
		"DMQ-NtC": protocol.GetProtocolVersionsDMQNtC(), "DMQ-NtN": protocol.GetProtocolVersionsDMQNtN()})
	c.Set("rule", "every entry of the 4 version lists x every magic of the alphabet x all 8 (diffusion,peerSharing,query) combinations; per case: encode (repo) -> own decoder of that version == generated entry; generated entry == requested values on the fields the version's CDDL shape carries; own CBOR reader finds the same values in the wire bytes; own CBOR writer -> that version's decoder yields the same values. Lists: family bit + strictly ascending + stable; eras: prefix of Shelley..Dijkstra and non-shrinking along each list; all 65536 version numbers: configured iff listed. distinct = (table,version,magic,flags)")
	c.Assume("the handshake CDDL version-data shapes in the header comment are transcribed from the network specification")
	// free-running -race pass: concurrent callers on their own inputs (state the library shares between calls)
	c.RaceAudit("c20")
	c.Finish()
}
