#!/bin/bash
# E3 check: builds the test package e1/c16 (and the catalogue e1/protos) with -tags verif and the
# probe overlay against the current tree and runs the product search. Nothing is instrumented.
here="$(cd "$(dirname "$0")/../.." && pwd)"
exec "$here/bin/e1check" C16 c16 TestC16 -- "$@"
