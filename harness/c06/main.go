// C06: multi-asset values behave as a commutative group up to zeros.
//
// Small-scope exhaustive enumeration. Slots = 2 policies x 2 asset names (names of
// different length so that key order is not trivial); a value = partial map slot ->
// quantity with <= 3 entries; quantities from a 7-value boundary alphabet per
// instantiation:
//
//	*big.Int : -2^64, -1, 0, 1, 2^63, 2^64-1, 2^64          (reference: exact integers)
//	int64    : -2^63, -2, -1, 0, 1, 2, 2^63-1               (reference: two's complement wrap-around)
//	uint64   : 0, 1, 2, 2^63-1, 2^63, 2^64-2, 2^64-1        (reference: arithmetic modulo 2^64)
//
// 1 695 values per instantiation. Every value: reflexivity, encode (own CBOR reader:
// canonical key order, content), encode determinism over every insertion order,
// decode -> Compare both ways, no zero left. Every ordered pair: Compare(a,b) =
// Compare(b,a) = per-asset equality of non-zero quantities; a+b and b+a agree per asset
// with integer addition and are Compare-equal; self-addition. Every triple over a
// sub-universe: transitivity, associativity.
//
// The reference model is a plain map slot -> *big.Int with zeros dropped.
package main

import (
	"bytes"
	"encoding/json"
	"fmt"
	"math/big"
	"os"
	"sort"
	"sync"

	"github.com/blinklabs-io/gouroboros/cbor"
	"github.com/blinklabs-io/gouroboros/ledger/common"
	"verif/space"
	"verif/vlib"
)

var c *vlib.Check

// ---- deterministic violation reporting (first example per key in enumeration order)

type pend struct {
	ord       int64
	key, what string
	replay    any
}

var (
	pendMu  sync.Mutex
	pending = map[string]pend{}
)

func violation(ord int64, key, what string, replay any) {
	pendMu.Lock()
	if p, ok := pending[key]; !ok || ord < p.ord {
		pending[key] = pend{ord, key, what, replay}
	}
	pendMu.Unlock()
}

func flush() {
	var l []pend
	for _, p := range pending {
		l = append(l, p)
	}
	sort.Slice(l, func(i, j int) bool {
		if l[i].ord != l[j].ord {
			return l[i].ord < l[j].ord
		}
		return l[i].key < l[j].key
	})
	for _, p := range l {
		c.Violation(p.key, p.what, p.replay)
	}
}

// ---- universe

const nSlots = 4

var (
	policies [2]common.Blake2b224
	names    = [2][]byte{[]byte("b"), []byte("aa")} // "b" < "aa" in CBOR key order, "aa" < "b" as raw strings
)

func slotKey(s int) (common.Blake2b224, []byte) { return policies[s/2], names[s%2] }

// spec: per slot -1 (absent) or an index into the instantiation's alphabet.
type spec [nSlots]int8

func (s spec) String() string {
	out := ""
	for i, v := range s {
		if v >= 0 {
			out += fmt.Sprintf("P%d.%s=q%d ", i/2+1, names[i%2], v)
		}
	}
	if out == "" {
		return "{}"
	}
	return "{" + out[:len(out)-1] + "}"
}

func allSpecs(nq, maxEntries int) []spec {
	var out []spec
	var rec func(i int, cur spec, n int)
	rec = func(i int, cur spec, n int) {
		if i == nSlots {
			out = append(out, cur)
			return
		}
		cur[i] = -1
		rec(i+1, cur, n)
		if n < maxEntries {
			for q := 0; q < nq; q++ {
				cur[i] = int8(q)
				rec(i+1, cur, n+1)
			}
		}
	}
	rec(0, spec{}, 0)
	// simplest first
	sort.SliceStable(out, func(i, j int) bool { return entries(out[i]) < entries(out[j]) })
	return out
}

func entries(s spec) int {
	n := 0
	for _, v := range s {
		if v >= 0 {
			n++
		}
	}
	return n
}

// ---- instantiation

type num interface{ int64 | uint64 | *big.Int }

type inst[T num] struct {
	name  string
	alpha []T
	big   func(T) *big.Int        // exact value
	wrap  func(*big.Int) *big.Int // reference addition result -> domain of T
	from  func(*big.Int) T
}

func pow2(n uint) *big.Int { return new(big.Int).Lsh(big.NewInt(1), n) }

// refVal is the reference value: slot -> non-zero integer.
type refVal [nSlots]*big.Int // nil = absent or zero

func (in inst[T]) ref(s spec) refVal {
	var r refVal
	for i, v := range s {
		if v >= 0 {
			if b := in.big(in.alpha[v]); b.Sign() != 0 {
				r[i] = b
			}
		}
	}
	return r
}

func refEq(a, b refVal) bool {
	for i := range a {
		switch {
		case a[i] == nil && b[i] == nil:
		case a[i] == nil || b[i] == nil:
			return false
		case a[i].Cmp(b[i]) != 0:
			return false
		}
	}
	return true
}

func (in inst[T]) refAdd(a, b refVal) refVal {
	var r refVal
	for i := range a {
		s := new(big.Int)
		if a[i] != nil {
			s.Add(s, a[i])
		}
		if b[i] != nil {
			s.Add(s, b[i])
		}
		s = in.wrap(s)
		if s.Sign() != 0 {
			r[i] = s
		}
	}
	return r
}

func (r refVal) String() string {
	out := ""
	for i, v := range r {
		if v != nil {
			out += fmt.Sprintf("P%d.%s=%s ", i/2+1, names[i%2], v)
		}
	}
	if out == "" {
		return "{}"
	}
	return "{" + out[:len(out)-1] + "}"
}

// build makes a fresh real value; order = insertion order of the slots.
func (in inst[T]) build(s spec, order []int) *common.MultiAsset[T] {
	data := map[common.Blake2b224]map[cbor.ByteString]T{}
	if order == nil {
		order = []int{0, 1, 2, 3}
	}
	for _, i := range order {
		if s[i] < 0 {
			continue
		}
		p, n := slotKey(i)
		if data[p] == nil {
			data[p] = map[cbor.ByteString]T{}
		}
		v := in.alpha[s[i]]
		if bv, ok := any(v).(*big.Int); ok {
			v = any(new(big.Int).Set(bv)).(T) // never share quantities between values
		}
		data[p][cbor.NewByteString(n)] = v
	}
	m := common.NewMultiAsset[T](data)
	return &m
}

// fromRef builds the real value of a reference value (non-zero entries only).
func (in inst[T]) fromRef(r refVal) *common.MultiAsset[T] {
	data := map[common.Blake2b224]map[cbor.ByteString]T{}
	for i, v := range r {
		if v == nil {
			continue
		}
		p, n := slotKey(i)
		if data[p] == nil {
			data[p] = map[cbor.ByteString]T{}
		}
		data[p][cbor.NewByteString(n)] = in.from(v)
	}
	m := common.NewMultiAsset[T](data)
	return &m
}

// read returns the per-slot quantities of a real value as the reference sees them.
func (in inst[T]) read(m *common.MultiAsset[T]) refVal {
	var r refVal
	for i := 0; i < nSlots; i++ {
		p, n := slotKey(i)
		q := m.Asset(p, n)
		if bv, ok := any(q).(*big.Int); ok && bv == nil {
			continue
		}
		if b := in.big(q); b.Sign() != 0 {
			r[i] = b
		}
	}
	return r
}

// snap is a complete dump of a real value (listed policies, listed assets incl. zero
// quantities, every slot's quantity); used by the operand-purity oracle.
type snap struct {
	policies, listed int
	q                [nSlots]string // big-endian magnitude with a sign byte; "-" = nil
}

func (s snap) String() string {
	out := fmt.Sprintf("{policies:%d listed:%d q:[", s.policies, s.listed)
	for i, q := range s.q {
		if i > 0 {
			out += " "
		}
		if q == "-" {
			out += "-"
			continue
		}
		v := new(big.Int).SetBytes([]byte(q[1:]))
		if q[0] == 0 {
			v.Neg(v)
		}
		out += v.String()
	}
	return out + "]}"
}

func (in inst[T]) snapshot(m *common.MultiAsset[T]) snap {
	var s snap
	ps := m.Policies()
	s.policies = len(ps)
	for _, p := range ps {
		s.listed += len(m.Assets(p))
	}
	for i := 0; i < nSlots; i++ {
		p, n := slotKey(i)
		q := m.Asset(p, n)
		if bv, ok := any(q).(*big.Int); ok && bv == nil {
			s.q[i] = "-"
			continue
		}
		b := in.big(q)
		s.q[i] = string(append([]byte{byte(b.Sign() + 1)}, b.Bytes()...))
	}
	return s
}

// operand is a real object that is reused across operations together with the dump taken
// right after it was built; pure() reports a violation if an operation changed it.
type operand[T num] struct {
	name string
	m    *common.MultiAsset[T]
	was  snap
}

func (in inst[T]) operand(name string, s spec) operand[T] {
	m := in.build(s, nil)
	return operand[T]{name, m, in.snapshot(m)}
}

func (in inst[T]) pure(ord int64, after string, rep map[string]any, ops ...operand[T]) bool {
	ok := true
	for _, o := range ops {
		if now := in.snapshot(o.m); now != o.was {
			ok = false
			violation(ord, in.name+"|operand-modified|"+after, fmt.Sprintf("operand %s was %s before and is %s after %s", o.name, o.was, now, after), rep)
		}
	}
	return ok
}

// ---- checks

func (in inst[T]) rep(kind string, specs ...spec) map[string]any {
	l := make([][]int8, len(specs))
	for i, s := range specs {
		l[i] = s[:]
	}
	return map[string]any{"inst": in.name, "kind": kind, "specs": l}
}

func (in inst[T]) unary(ord int64, s spec) {
	ra := in.ref(s)
	a := in.build(s, nil)
	k := in.name + "|"
	if !a.Compare(a) || !a.Compare(in.build(s, nil)) {
		violation(ord, k+"Compare|not-reflexive", fmt.Sprintf("%s: a value does not compare equal to itself / a fresh copy", s), in.rep("unary", s))
	}
	// encode: deterministic over insertion orders and repeated calls
	enc0, err := cbor.Encode(a)
	if err != nil {
		violation(ord, k+"Encode|error", fmt.Sprintf("%s: %v", s, err), in.rep("unary", s))
		c.Eval("unary|"+in.name+"|"+s.String(), "encode-error")
		return
	}
	perm([]int{0, 1, 2, 3}, func(order []int) {
		for rpt := 0; rpt < 2; rpt++ {
			e, err := cbor.Encode(in.build(s, order))
			if err != nil || !bytes.Equal(e, enc0) {
				violation(ord, k+"Encode|nondeterministic", fmt.Sprintf("%s: insertion order %v encodes to %x, order 0123 to %x (err %v)", s, order, e, enc0, err), in.rep("unary", s))
			}
		}
	})
	// own reader: canonical key order + content
	tree, perr := space.Parse(enc0)
	if perr != nil || tree.Major != 5 {
		violation(ord, k+"Encode|not-a-map", fmt.Sprintf("%s: encoding %x is not a CBOR map (%v)", s, enc0, perr), in.rep("unary", s))
	} else {
		var got refVal
		okOrder := sortedKeys(tree, enc0)
		bad := ""
		for i := 0; i+1 < len(tree.Items); i += 2 {
			pk, pv := tree.Items[i], tree.Items[i+1]
			if pk.Major != 2 || pv.Major != 5 {
				bad = "policy entry is not bytes => map"
				break
			}
			okOrder = okOrder && sortedKeys(pv, enc0)
			for j := 0; j+1 < len(pv.Items); j += 2 {
				nk, q := pv.Items[j], pv.Items[j+1]
				qv, ok := readInt(q)
				if nk.Major != 2 || !ok {
					bad = "asset entry is not bytes => integer"
					break
				}
				slot := -1
				for sl := 0; sl < nSlots; sl++ {
					p, n := slotKey(sl)
					if bytes.Equal(p[:], pk.Bytes) && bytes.Equal(n, nk.Bytes) {
						slot = sl
					}
				}
				if slot < 0 {
					bad = "unknown key in encoding"
					break
				}
				if got[slot] != nil {
					bad = "duplicate key in encoding"
					break
				}
				if qv.Sign() != 0 {
					got[slot] = qv
				}
			}
		}
		switch {
		case bad != "":
			violation(ord, k+"Encode|content", fmt.Sprintf("%s: %x: %s", s, enc0, bad), in.rep("unary", s))
		case !refEq(got, ra):
			violation(ord, k+"Encode|content", fmt.Sprintf("%s: encoding %x carries %s, value is %s", s, enc0, got, ra), in.rep("unary", s))
		case !okOrder:
			violation(ord, k+"Encode|key-order", fmt.Sprintf("%s: map keys of %x are not in ascending bytewise order of their encodings", s, enc0), in.rep("unary", s))
		}
	}
	if now, was := in.snapshot(a), in.snapshot(in.build(s, nil)); now != was {
		violation(ord, k+"operand-modified|Encode/Compare", fmt.Sprintf("%s: value is %s after Compare and Encode, a fresh copy is %s", s, now, was), in.rep("unary", s))
	}
	// decode
	var d common.MultiAsset[T]
	if _, err := cbor.Decode(enc0, &d); err != nil {
		violation(ord, k+"Decode|error", fmt.Sprintf("%s: own encoding %x does not decode: %v", s, enc0, err), in.rep("unary", s))
		c.Eval("unary|"+in.name+"|"+s.String(), "decode-error")
		return
	}
	if !d.Compare(a) || !a.Compare(&d) {
		violation(ord, k+"Decode|≠original", fmt.Sprintf("%s: decode(encode(a)) = %s does not compare equal to a", s, d.String()), in.rep("unary", s))
	}
	if !refEq(in.read(&d), ra) {
		violation(ord, k+"Decode|≠original", fmt.Sprintf("%s: decode(encode(a)) holds %s, reference %s", s, in.read(&d), ra), in.rep("unary", s))
	}
	// zero quantities removed: nothing listed is zero, no empty policy
	for _, p := range d.Policies() {
		as := d.Assets(p)
		if len(as) == 0 {
			violation(ord, k+"Decode|zero-kept", fmt.Sprintf("%s: decoded value lists policy %x with no assets", s, p[:4]), in.rep("unary", s))
		}
		for _, n := range as {
			q := d.Asset(p, n)
			if bv, ok := any(q).(*big.Int); (ok && bv == nil) || in.big(q).Sign() == 0 {
				violation(ord, k+"Decode|zero-kept", fmt.Sprintf("%s: decoded value still lists %x.%s with quantity 0", s, p[:4], n), in.rep("unary", s))
			}
		}
	}
	// self addition
	x := in.build(s, nil)
	x.Add(x)
	if want := in.refAdd(ra, ra); !refEq(in.read(x), want) {
		violation(ord, k+"Add|self≠per-asset-sum", fmt.Sprintf("a=%s: a.Add(a) holds %s, per-asset sum is %s", s, in.read(x), want), in.rep("unary", s))
	}
	zeros := 0
	for i, v := range s {
		if v >= 0 && ra[i] == nil {
			zeros++
		}
	}
	c.Eval("unary|"+in.name+"|"+s.String(), fmt.Sprintf("roundtrip-ok:zeros-pruned=%d", zeros))
}

func (in inst[T]) pair(ord int64, sa, sb spec) {
	ra, rb := in.ref(sa), in.ref(sb)
	want := refEq(ra, rb)
	a, b := in.build(sa, nil), in.build(sb, nil)
	k := in.name + "|"
	ab, ba := a.Compare(b), b.Compare(a)
	switch {
	case ab != ba:
		violation(ord, k+"Compare|asymmetric", fmt.Sprintf("a=%s b=%s: a.Compare(b)=%v but b.Compare(a)=%v (reference %v)", ra0(in, sa), ra0(in, sb), ab, ba, want), in.rep("pair", sa, sb))
	case ab != want:
		violation(ord, fmt.Sprintf("%sCompare|≠per-asset-equality|expected=%v", k, want), fmt.Sprintf("a=%s b=%s: Compare=%v, non-zero quantities per asset equal: %v", ra0(in, sa), ra0(in, sb), ab, want), in.rep("pair", sa, sb))
	}
	rp := in.rep("pair", sa, sb)
	oa, ob := operand[T]{"a", a, in.snapshot(a)}, operand[T]{"b", b, in.snapshot(b)}
	// a+b, b+a on fresh receivers, the operands are the same objects a and b
	s1, s2 := in.build(sa, nil), in.build(sb, nil)
	s1.Add(b)
	s2.Add(a)
	in.pure(ord, "Compare+Add(operand)", rp, oa, ob)
	sum := in.refAdd(ra, rb)
	// the same objects accumulated into an empty value, in both orders, one after the other
	for _, order := range [2][2]operand[T]{{oa, ob}, {ob, oa}} {
		acc := in.build(spec{-1, -1, -1, -1}, nil)
		for step, o := range order {
			acc.Add(o.m)
			if step == 1 {
				if g := in.read(acc); !refEq(g, sum) {
					violation(ord, k+"Add|reused-operands≠per-asset-sum", fmt.Sprintf("a=%s b=%s: {}+%s+%s computed from reused operand objects holds %s, per-asset sum is %s", ra0(in, sa), ra0(in, sb), order[0].name, order[1].name, g, sum), rp)
				}
			}
		}
	}
	in.pure(ord, "accumulate-from-empty", rp, oa, ob)
	if g := in.read(s1); !refEq(g, sum) {
		violation(ord, k+"Add|≠per-asset-sum", fmt.Sprintf("a=%s b=%s: a.Add(b) holds %s, per-asset sum is %s", ra0(in, sa), ra0(in, sb), g, sum), in.rep("pair", sa, sb))
	}
	if !s1.Compare(s2) || !s2.Compare(s1) {
		violation(ord, k+"Add|not-commutative", fmt.Sprintf("a=%s b=%s: a+b=%s and b+a=%s do not compare equal", ra0(in, sa), ra0(in, sb), s1.String(), s2.String()), in.rep("pair", sa, sb))
	}
	if r := in.fromRef(sum); !s1.Compare(r) || !r.Compare(s1) {
		violation(ord, k+"Add|sum≠reference-value", fmt.Sprintf("a=%s b=%s: a+b=%s does not compare equal to the value built from the per-asset sums %s", ra0(in, sa), ra0(in, sb), s1.String(), sum), in.rep("pair", sa, sb))
	}
	o := "pair-unequal"
	if want {
		o = "pair-equal"
	}
	c.Eval("pair|"+in.name+"|"+in.shape(sa)+"|"+in.shape(sb), o)
}

func ra0[T num](in inst[T], s spec) string {
	out := ""
	for i, v := range s {
		if v >= 0 {
			out += fmt.Sprintf("P%d.%s=%s ", i/2+1, names[i%2], in.big(in.alpha[v]))
		}
	}
	if out == "" {
		return "{}"
	}
	return "{" + out[:len(out)-1] + "}"
}

func (in inst[T]) triple(ord int64, sa, sb, sc spec) {
	ra, rb, rc := in.ref(sa), in.ref(sb), in.ref(sc)
	k := in.name + "|"
	a, b, cc := in.build(sa, nil), in.build(sb, nil), in.build(sc, nil)
	premise := a.Compare(b) && b.Compare(cc)
	if premise && !a.Compare(cc) {
		violation(ord, k+"Compare|not-transitive", fmt.Sprintf("a=%s b=%s c=%s: a=b and b=c but not a=c", ra0(in, sa), ra0(in, sb), ra0(in, sc)), in.rep("triple", sa, sb, sc))
	}
	// (a+b)+c vs a+(b+c)
	l := in.build(sa, nil)
	l.Add(in.build(sb, nil))
	l.Add(in.build(sc, nil))
	bc := in.build(sb, nil)
	bc.Add(in.build(sc, nil))
	r := in.build(sa, nil)
	r.Add(bc)
	if !l.Compare(r) || !r.Compare(l) {
		violation(ord, k+"Add|not-associative", fmt.Sprintf("a=%s b=%s c=%s: (a+b)+c=%s, a+(b+c)=%s", ra0(in, sa), ra0(in, sb), ra0(in, sc), l.String(), r.String()), in.rep("triple", sa, sb, sc))
	}
	if want := in.refAdd(in.refAdd(ra, rb), rc); !refEq(in.read(l), want) {
		violation(ord, k+"Add|≠per-asset-sum", fmt.Sprintf("a=%s b=%s c=%s: (a+b)+c holds %s, per-asset sum is %s", ra0(in, sa), ra0(in, sb), ra0(in, sc), in.read(l), want), in.rep("triple", sa, sb, sc))
	}
	if histOK(sa) && histOK(sb) && histOK(sc) {
		in.histories(ord, sa, sb, sc)
		c.Outcome("histories-run")
	}
	o := "triple:premise-false"
	if premise {
		o = "triple:premise-true"
	}
	c.Eval("", o)
}

// histories: sums that reuse the very same operand objects a, b, c. From an empty
// accumulator and from a non-empty one (a fresh copy of a, and a value holding every slot):
// all 6 orders of adding a, b, c one after the other; then ab = {}+a+b, (ab)+c, bc = {}+b+c,
// a+(bc), and again c+b+a. After every single Add every operand object (and every
// intermediate sum that is used again) must be unchanged and every result must hold the
// per-asset sums.
func (in inst[T]) histories(ord int64, sa, sb, sc spec) {
	rp := in.rep("triple", sa, sb, sc)
	k := in.name + "|"
	empty := spec{-1, -1, -1, -1}
	ops := [3]operand[T]{in.operand("a", sa), in.operand("b", sb), in.operand("c", sc)}
	refs := [3]refVal{in.ref(sa), in.ref(sb), in.ref(sc)}
	one := int8(-1)
	for qi, q := range in.alpha { // index of quantity 1 in this alphabet
		if in.big(q).Cmp(big.NewInt(1)) == 0 {
			one = int8(qi)
		}
	}
	starts := []spec{empty, sa, {one, one, one, -1}}
	check := func(what string, acc *common.MultiAsset[T], want refVal) {
		if g := in.read(acc); !refEq(g, want) {
			violation(ord, k+"Add|reused-operands≠per-asset-sum", fmt.Sprintf("a=%s b=%s c=%s: %s computed from reused operand objects holds %s, per-asset sum is %s", ra0(in, sa), ra0(in, sb), ra0(in, sc), what, g, want), rp)
		}
	}
	for _, st := range starts {
		perm([]int{0, 1, 2}, func(order []int) {
			acc := in.build(st, nil)
			want := in.ref(st)
			for _, i := range order {
				acc.Add(ops[i].m)
				want = in.refAdd(want, refs[i])
				in.pure(ord, "accumulate", rp, ops[:]...)
				check(fmt.Sprintf("%s + operands in order %v (prefix ending at %s)", ra0(in, st), order, ops[i].name), acc, want)
			}
		})
	}
	// (a+b)+c and a+(b+c) from the same objects, intermediates reused
	ab := in.build(empty, nil)
	ab.Add(ops[0].m)
	ab.Add(ops[1].m)
	oab := operand[T]{"(a+b)", ab, in.snapshot(ab)}
	l := in.build(empty, nil)
	l.Add(ab)
	l.Add(ops[2].m)
	in.pure(ord, "(a+b)+c", rp, ops[0], ops[1], ops[2], oab)
	bc := in.build(empty, nil)
	bc.Add(ops[1].m)
	bc.Add(ops[2].m)
	obc := operand[T]{"(b+c)", bc, in.snapshot(bc)}
	r := in.build(empty, nil)
	r.Add(ops[0].m)
	r.Add(bc)
	in.pure(ord, "a+(b+c)", rp, ops[0], ops[1], ops[2], oab, obc)
	all := in.refAdd(in.refAdd(refs[0], refs[1]), refs[2])
	check("(a+b)+c", l, all)
	check("a+(b+c)", r, all)
	check("a+b", ab, in.refAdd(refs[0], refs[1]))
	check("b+c", bc, in.refAdd(refs[1], refs[2]))
	if !l.Compare(r) || !r.Compare(l) {
		violation(ord, k+"Add|not-associative", fmt.Sprintf("a=%s b=%s c=%s (reused objects): (a+b)+c=%s, a+(b+c)=%s", ra0(in, sa), ra0(in, sb), ra0(in, sc), l.String(), r.String()), rp)
	}
	in.pure(ord, "Compare", rp, ops[0], ops[1], ops[2], oab, obc)
	z := in.build(empty, nil)
	z.Add(ops[2].m)
	z.Add(ops[1].m)
	z.Add(ops[0].m)
	check("c+b+a after a+b+c", z, all)
}

// shape: per slot a = absent, z = zero quantity, n = negative, p = positive (evidence class)
func (in inst[T]) shape(s spec) string {
	var b [nSlots]byte
	for i, v := range s {
		switch {
		case v < 0:
			b[i] = 'a'
		default:
			b[i] = "nzp"[in.big(in.alpha[v]).Sign()+1]
		}
	}
	return string(b[:])
}

func perm(a []int, f func([]int)) {
	var rec func(k int)
	rec = func(k int) {
		if k == len(a) {
			f(a)
			return
		}
		for i := k; i < len(a); i++ {
			a[k], a[i] = a[i], a[k]
			rec(k + 1)
			a[k], a[i] = a[i], a[k]
		}
	}
	rec(0)
}

// sortedKeys: keys of a definite map strictly ascending in bytewise order of their encodings.
func sortedKeys(m *space.Node, raw []byte) bool {
	if m.Form == space.FormIndef {
		return false
	}
	for i := 2; i+1 < len(m.Items); i += 2 {
		prev, cur := m.Items[i-2], m.Items[i]
		if bytes.Compare(raw[prev.Start:prev.End], raw[cur.Start:cur.End]) >= 0 {
			return false
		}
	}
	return true
}

func readInt(n *space.Node) (*big.Int, bool) {
	switch {
	case n.Major == 0:
		return new(big.Int).SetUint64(n.Arg), true
	case n.Major == 1:
		v := new(big.Int).SetUint64(n.Arg)
		return v.Neg(v.Add(v, big.NewInt(1))), true
	case n.Major == 6 && (n.Arg == 2 || n.Arg == 3) && n.Items[0].Major == 2:
		v := new(big.Int).SetBytes(n.Items[0].Bytes)
		if n.Arg == 3 {
			v.Neg(v.Add(v, big.NewInt(1)))
		}
		return v, true
	}
	return nil, false
}

// ---- driver

// run: values with <= maxEntries entries; pairs (a, b) with a any value and b any value
// with <= pairEntries entries (specs are sorted by entry count, so that is a prefix).
// histOK selects the triples on which the (expensive) reuse histories run: always in quick
// (12-value sub-universe); in thorough the 41 values with <=2 entries over {0,1} or exactly
// one entry (any of the 4 kept quantities).
var histOK = func(spec) bool { return true }

func run[T num](in inst[T], maxEntries, pairEntries int, zero, one int8, tripleSpecs func(all []spec) []spec) {
	if c.Thorough() {
		histOK = func(s spec) bool {
			if entries(s) <= 1 {
				return true
			}
			for _, v := range s {
				if v >= 0 && v != zero && v != one {
					return false
				}
			}
			return true
		}
	}
	specs := allSpecs(len(in.alpha), maxEntries)
	n := len(specs)
	nb := 0
	for nb < n && entries(specs[nb]) <= pairEntries {
		nb++
	}
	base := int64(0)
	vlib.Parallel(n, func(i int) { in.unary(int64(i), specs[i]) })
	base += int64(n)
	vlib.Parallel(n, func(i int) {
		for j := 0; j < nb; j++ {
			in.pair(base+int64(i)*int64(n)+int64(j), specs[i], specs[j])
		}
	})
	base += int64(n) * int64(n)
	ts := tripleSpecs(specs)
	m := len(ts)
	vlib.Parallel(m*m, func(ij int) {
		i, j := ij/m, ij%m
		for k := 0; k < m; k++ {
			in.triple(base+int64(ij)*int64(m)+int64(k), ts[i], ts[j], ts[k])
		}
	})
	c.Set("values_"+in.name, n)
	c.Set("pairs_"+in.name, int64(n)*int64(nb))
	c.Set("triples_"+in.name, int64(m)*int64(m)*int64(m))
	if in.name == "big" {
		ex := specs[n-1]
		e, _ := cbor.Encode(in.build(ex, nil))
		c.Sample(map[string]any{"inst": in.name, "value": ra0(in, ex), "encoding": fmt.Sprintf("%x", e)})
	}
}

func replayOne[T num](in inst[T], kind string, sp []spec) {
	switch kind {
	case "unary":
		in.unary(0, sp[0])
	case "pair":
		in.pair(0, sp[0], sp[1])
	case "triple":
		in.triple(0, sp[0], sp[1], sp[2])
	}
}

func main() {
	c = vlib.New("C06", "exploration")
	fill := byte(0x5a + c.Seed%31)
	for i := range policies {
		for j := range policies[i] {
			policies[i][j] = fill
		}
		policies[i][27] = byte(i + 1) // differ in the last byte only
	}
	two64, two63 := pow2(64), pow2(63)
	bi := func(v *big.Int, d int64) *big.Int { return new(big.Int).Add(v, big.NewInt(d)) }

	bigI := inst[*big.Int]{
		name:  "big",
		alpha: []*big.Int{new(big.Int).Neg(two64), big.NewInt(-1), big.NewInt(0), big.NewInt(1), two63, bi(two64, -1), two64},
		big:   func(v *big.Int) *big.Int { return new(big.Int).Set(v) },
		wrap:  func(v *big.Int) *big.Int { return v },
		from:  func(v *big.Int) *big.Int { return new(big.Int).Set(v) },
	}
	i64 := inst[int64]{
		name:  "int64",
		alpha: []int64{-1 << 63, -2, -1, 0, 1, 2, 1<<63 - 1},
		big:   func(v int64) *big.Int { return big.NewInt(v) },
		wrap: func(v *big.Int) *big.Int { // two's complement wrap into [-2^63, 2^63)
			r := new(big.Int).Mod(v, two64)
			if r.Cmp(two63) >= 0 {
				r.Sub(r, two64)
			}
			return r
		},
		from: func(v *big.Int) int64 { return v.Int64() },
	}
	u64 := inst[uint64]{
		name:  "uint64",
		alpha: []uint64{0, 1, 2, 1<<63 - 1, 1 << 63, 1<<64 - 2, 1<<64 - 1},
		big:   func(v uint64) *big.Int { return new(big.Int).SetUint64(v) },
		wrap:  func(v *big.Int) *big.Int { return new(big.Int).Mod(v, two64) },
		from:  func(v *big.Int) uint64 { return v.Uint64() },
	}

	if c.Replay != "" {
		b, err := os.ReadFile(c.Replay)
		if err != nil {
			c.Internal("replay: %v", err)
		}
		var f struct {
			Replay struct {
				Inst, Kind string
				Specs      [][]int8
			} `json:"replay"`
		}
		if err := json.Unmarshal(b, &f); err != nil {
			c.Internal("replay: %v", err)
		}
		var sp []spec
		for _, s := range f.Replay.Specs {
			var x spec
			copy(x[:], s)
			sp = append(sp, x)
		}
		switch f.Replay.Inst {
		case "big":
			replayOne(bigI, f.Replay.Kind, sp)
		case "int64":
			replayOne(i64, f.Replay.Kind, sp)
		case "uint64":
			replayOne(u64, f.Replay.Kind, sp)
		}
		flush()
		c.NotExhaustive("replay of a single case")
		c.Finish()
	}

	// triple sub-universe. quick: 12 colliding values (indices into the 7-value alphabet:
	// quantity index 2 or 3 is the zero of each alphabet; see zeroIdx). thorough: every value with <= 2
	// entries over 4 quantities.
	sub := func(zero, one, neg, bigq int8) func([]spec) []spec {
		return func(all []spec) []spec {
			if c.Thorough() {
				keep := map[int8]bool{zero: true, one: true, neg: true, bigq: true}
				var out []spec
				for _, s := range all {
					ok := entries(s) <= 2
					for _, v := range s {
						if v >= 0 && !keep[v] {
							ok = false
						}
					}
					if ok {
						out = append(out, s)
					}
				}
				return out
			}
			a := int8(-1)
			return []spec{
				{a, a, a, a}, {zero, a, a, a}, {one, a, a, a}, {neg, a, a, a}, {bigq, a, a, a}, {one, zero, a, a},
				{a, a, one, a}, {one, a, neg, a}, {bigq, neg, a, a}, {a, one, a, a}, {zero, a, a, zero}, {neg, a, a, bigq},
			}
		}
	}
	// big: zero=2 one=3 neg=1(-1) bigq=6(2^64); int64: zero=3 one=4 neg=2(-1) bigq=0(-2^63);
	// uint64: zero=0 one=1 neg=6(2^64-1 = -1 mod 2^64) bigq=4(2^63)
	// quick: *big.Int all 1 695 values, pairs a x (b with <=2 entries); int64/uint64 values and pairs with <=2 entries.
	// thorough: all 1 695 values for each instantiation; all 1 695^2 ordered pairs for *big.Int, 1 695 x 323 for int64/uint64.
	if c.Thorough() {
		run(bigI, 3, 3, 2, 3, sub(2, 3, 1, 6))
		run(i64, 3, 2, 3, 4, sub(3, 4, 2, 0))
		run(u64, 3, 2, 0, 1, sub(0, 1, 6, 4))
	} else {
		run(bigI, 3, 2, 2, 3, sub(2, 3, 1, 6))
		run(i64, 2, 2, 3, 4, sub(3, 4, 2, 0))
		run(u64, 2, 2, 0, 1, sub(0, 1, 6, 4))
	}
	flush()

	c.Set("rule", "per instantiation (*big.Int, int64, uint64): every partial map over 2 policies x 2 names with <=3 entries (quick: <=2 for int64/uint64, and the second operand of a pair has <=2 entries) and quantities from the 7-value alphabet; every value (reflexivity, encode key order/content by own CBOR reader, identical bytes for all 24 insertion orders x2, decode->Compare both ways, no zero left, self-add); every ordered pair (Compare symmetric and = per-asset equality of non-zero quantities; a+b, b+a = per-asset sums, Compare-equal, equal to the value built from the sums); every ordered triple of the sub-universe (transitivity, associativity, per-asset sum; histories that reuse the same operand objects: all 6 accumulation orders from an empty, an equal-to-a and a full accumulator, (a+b)+c, a+(b+c), c+b+a). Operand purity: after every Compare/Encode/Add every operand object must equal the dump taken when it was built. distinct = (instantiation, value) for the unary checks and (instantiation, sign pattern of a, sign pattern of b) with pattern = absent/zero/negative/positive per slot for pairs; triples are not counted as distinct classes")
	c.Assume("math/big is trusted for the reference arithmetic; int64/uint64 reference = arithmetic modulo 2^64 (Go's native semantics)")
	// free-running -race pass: concurrent callers on their own inputs (state the library shares between calls)
	c.RaceAudit("c06")
	c.Finish()
}
