// C31: the script data hash binds redeemers, datums and cost models.
//
// Bounded-exhaustive over: era (Alonzo, Babbage, Conway, Dijkstra) x subset of Plutus
// languages used (V1..V3 as far as the era has them) x how the scripts are provided
// (witness set / reference inputs) x redeemer container form (list, map, absent, present
// but empty) x witness datums (absent, one, two, present but empty; list or tag-258 set) x
// two cost-model tables per language x declared hash (correct, one bit off, absent, and for
// re-encoded containers the hash of the CANONICAL bytes). Every transaction is written with
// verif/space and decoded by the real era decoder; EVERY rule of the era list is called
// and only the script-data-hash outcome is looked at: accepted = the rule whose function
// name ends in UtxoValidateScriptDataHash returned nil AND no rule returned one of
// ScriptDataHashMismatchError / MissingScriptDataHashError / ExtraneousScriptDataHashError /
// MissingRedeemersForScriptDataHashError.
//
// Oracle, written from the Alonzo/Babbage/Conway ledger specification (hashScriptIntegrity,
// getLanguageView, encodeLangViews), independent of the repository's encoder:
//
//	required  = redeemers non-empty OR witness datums non-empty
//	expected  = blake2b-256( original bytes of the redeemers item  (absent: 0x80, Conway+: 0xa0)
//	                       ‖ original bytes of the datums item     (nothing when absent or empty)
//	                       ‖ language views )
//	lang views = CBOR map, one entry per language used, keys sorted shorter-first then bytewise:
//	             V1: key 41 00 (bytes of the serialised 0), value = byte string holding the INDEFINITE list of the cost model
//	             V2: key 01,  V3: key 02, value = definite list of the cost model integers
//	accepted  =>  (required AND declared present AND declared = expected) OR (NOT required AND declared absent)
//
// When the spec-correct hash is rejected with a mismatch, the hash the rule says it
// computed is fed back as the declared one: if that is accepted the rule accepts a hash
// that is not the specified one (violation of "passes only if").
package main

import (
	"bytes"
	"encoding/hex"
	"encoding/json"
	"errors"
	"fmt"
	"os"
	"reflect"
	"runtime"
	"sort"
	"strings"
	"sync"
	"sync/atomic"
	"time"

	"github.com/blinklabs-io/gouroboros/ledger/alonzo"
	"github.com/blinklabs-io/gouroboros/ledger/babbage"
	"github.com/blinklabs-io/gouroboros/ledger/common"
	"github.com/blinklabs-io/gouroboros/ledger/conway"
	"github.com/blinklabs-io/gouroboros/ledger/dijkstra"
	"verif/space"
	"verif/vlib"
)

var chk *vlib.Check

// ---------- own language-views encoder ----------

// langViews returns the encoding for the language set (bit0 V1, bit1 V2, bit2 V3).
func langViews(langs int, tables map[int][]int64) []byte {
	type ent struct{ k, v []byte }
	var es []ent
	for l := 0; l < 3; l++ {
		if langs&(1<<l) == 0 {
			continue
		}
		ints := make([]*space.Node, len(tables[l]))
		for i, x := range tables[l] {
			ints[i] = space.NInt(x)
		}
		if l == 0 {
			// key = serialise(serialise(0)) ; value = serialise(bytes(indefinite list))
			es = append(es, ent{space.B(space.U(0).Encode()).Encode(), space.B(space.AIndef(ints...).Encode()).Encode()})
		} else {
			es = append(es, ent{space.U(uint64(l)).Encode(), space.A(ints...).Encode()})
		}
	}
	sort.Slice(es, func(i, j int) bool {
		if len(es[i].k) != len(es[j].k) {
			return len(es[i].k) < len(es[j].k)
		}
		return bytes.Compare(es[i].k, es[j].k) < 0
	})
	out := []byte{0xa0 | byte(len(es))}
	for _, e := range es {
		out = append(out, e.k...)
		out = append(out, e.v...)
	}
	return out
}

// cost model tables: 0 = realistic lengths with index-derived values, 1 = short with boundary integers
func costTables(t int) map[int][]int64 {
	m := map[int][]int64{}
	if t == 1 {
		b := []int64{0, -1, 23, 24, 255, 256, 65535, 65536, 1 << 32, -(1 << 31) - 1, 1<<63 - 1, -1 << 63}
		m[0], m[1], m[2] = b, b[:7], append([]int64{7}, b...)
		return m
	}
	for l, n := range []int{166, 175, 251} {
		v := make([]int64, n)
		for i := range v {
			x := int64(i)*7919*int64(l+1) + 13
			switch i % 5 {
			case 1:
				x = -x
			case 2:
				x = x * 1_000_003
			case 3:
				x = int64(i % 24)
			}
			v[i] = x
		}
		m[l] = v
	}
	return m
}

// ---------- cases ----------

const (
	rfList = iota
	rfMap
	rfAbsent
	rfEmptyList
	rfEmptyMap
	rfMapDupSame // map form whose first (tag, index) key occurs twice with EQUAL values (cardano-node accepts, last wins; gouroboros #1860)
	rfMapDupDiff // ... twice with DIFFERENT values
)

var rfNames = []string{"list", "map", "absent", "empty-list", "empty-map", "map-duplicate-key-equal-values", "map-duplicate-key-different-values"}

const (
	dAbsent = iota
	dOne
	dTwo
	dEmpty
)

var dNames = []string{"absent", "one", "two", "present-empty"}

const (
	declCorrect = iota
	declBitflip
	declAbsent
	declCanonical // hash over the canonical bytes of a re-encoded container
	declFedBack
)

var declNames = []string{"correct", "one-bit-off", "absent", "hash-of-canonical-bytes", "fed-back-computed"}

type caseT struct {
	era     int
	langs   int
	prov    int // 0 witness set, 1 reference inputs
	rform   int
	datums  int
	dtagged bool // datums as tag-258 set (Conway+)
	table   int
	extra   int // 0 none; 1+l = an additional reference input whose UTxO carries an UNRELATED reference script of language l (not needed by the transaction)
}

func langStr(l int) string {
	var p []string
	for i, n := range []string{"V1", "V2", "V3"} {
		if l&(1<<i) != 0 {
			p = append(p, n)
		}
	}
	if len(p) == 0 {
		return "{}"
	}
	return "{" + strings.Join(p, ",") + "}"
}

func (k caseT) String() string {
	pv := "witness"
	if k.prov == 1 {
		pv = "reference"
	}
	d := dNames[k.datums]
	if k.dtagged {
		d += "(tag258)"
	}
	ex := ""
	if k.extra > 0 {
		ex = fmt.Sprintf("/unneeded-ref-script=V%d", k.extra)
	}
	return fmt.Sprintf("%s/langs=%s/%s/redeemers=%s/datums=%s/table%d%s", EraNames[k.era], langStr(k.langs), pv, rfNames[k.rform], d, k.table, ex)
}

type world struct {
	keyA    *Key
	seed    int64
	scripts [3][]byte // flat script bytes per language (representatives)
}

func scriptHash(lang int, sc []byte) []byte { return b224(append([]byte{byte(lang + 1)}, sc...)) }

// built is everything needed to emit a transaction for a case with a chosen declared hash.
type built struct {
	spec      *TxSpec
	stub      *Stub
	redeemers *space.Node // nil = absent
	datums    *space.Node // nil = absent
	nRed      int
	nDat      int
}

func (w *world) build(k caseT) *built {
	b := &built{stub: NewStub()}
	s := &TxSpec{Era: k.era, Fee: 2_000_000}
	if k.era == EraDijkstra {
		s.ThreeElem = true
	}
	form := func(addr []byte, v *space.Node) *space.Node { return Out(k.era, addr, v) }
	// inputs: one key-locked, then one script-locked per language; sort by (txid, index)
	type inp struct {
		in   TxIn
		lang int // -1 = key
	}
	ins := []inp{{TxIn{FakeTxId("c31-fee", w.seed), 0}, -1}}
	for l := 0; l < 3; l++ {
		if k.langs&(1<<l) != 0 {
			ins = append(ins, inp{TxIn{FakeTxId(fmt.Sprintf("c31-script-%d", l), w.seed), uint64(l)}, l})
		}
	}
	sort.Slice(ins, func(i, j int) bool {
		if c := bytes.Compare(ins[i].in.Id, ins[j].in.Id); c != 0 {
			return c < 0
		}
		return ins[i].in.Idx < ins[j].in.Idx
	})
	var refs []*space.Node
	for _, x := range ins {
		s.Inputs = append(s.Inputs, x.in)
		if x.lang < 0 {
			if err := b.stub.AddUtxo(k.era, x.in, form(EnterpriseKeyAddr(0, w.keyA.Hash), ValueCoin(10_000_000))); err != nil {
				chk.Internal("stub: %v", err)
			}
			continue
		}
		sc := w.scripts[x.lang]
		if err := b.stub.AddUtxo(k.era, x.in, form(EnterpriseScriptAddr(0, scriptHash(x.lang, sc)), ValueCoin(5_000_000))); err != nil {
			chk.Internal("stub: %v", err)
		}
		if k.prov == 0 {
			switch x.lang {
			case 0:
				s.PlutusV1 = append(s.PlutusV1, sc)
			case 1:
				s.PlutusV2 = append(s.PlutusV2, sc)
			case 2:
				s.PlutusV3 = append(s.PlutusV3, sc)
			}
		} else {
			ri := TxIn{FakeTxId(fmt.Sprintf("c31-ref-%d", x.lang), w.seed), 0}
			inner := space.A(space.U(uint64(x.lang+1)), space.B(sc)).Encode()
			out := space.M(space.U(0), space.B(EnterpriseKeyAddr(0, w.keyA.Hash)), space.U(1), space.U(3_000_000), space.U(3), space.Tag(24, space.B(inner)))
			if err := b.stub.AddUtxo(k.era, ri, out); err != nil {
				chk.Internal("stub ref utxo: %v", err)
			}
			refs = append(refs, ri.Node())
		}
	}
	if k.extra > 0 {
		l := k.extra - 1
		other := append(append([]byte{}, w.scripts[l]...), 0xee) // a different script: its hash locks nothing in this transaction
		ri := TxIn{FakeTxId("c31-unrelated-ref", w.seed), 7}
		inner := space.A(space.U(uint64(l+1)), space.B(other)).Encode()
		out := space.M(space.U(0), space.B(EnterpriseKeyAddr(0, w.keyA.Hash)), space.U(1), space.U(3_000_000), space.U(3), space.Tag(24, space.B(inner)))
		if err := b.stub.AddUtxo(k.era, ri, out); err != nil {
			chk.Internal("stub ref utxo: %v", err)
		}
		refs = append(refs, ri.Node())
	}
	if len(refs) > 0 {
		s.ExtraBody = append(s.ExtraBody, space.U(18), space.A(refs...))
	}
	nOut := uint64(len(ins)-1)*5_000_000 + 10_000_000 - s.Fee
	s.Outputs = []*space.Node{form(EnterpriseKeyAddr(0, w.keyA.Hash), ValueCoin(nOut))}
	// redeemers: one spend redeemer per script input; data differs per entry
	datas := []*space.Node{space.U(42), space.Tag(121, space.A()), space.B([]byte{1})}
	ex := func(i int) *space.Node { return space.A(space.U(uint64(1000+i)), space.U(uint64(2000000+i))) }
	var lst, mp []*space.Node
	ri := 0
	for idx, x := range ins {
		if x.lang < 0 {
			continue
		}
		lst = append(lst, space.A(space.U(0), space.U(uint64(idx)), datas[ri%3], ex(ri)))
		mp = append(mp, space.A(space.U(0), space.U(uint64(idx))), space.A(datas[ri%3], ex(ri)))
		ri++
	}
	switch k.rform {
	case rfList:
		b.redeemers, b.nRed = space.A(lst...), len(lst)
	case rfMap:
		b.redeemers, b.nRed = space.M(mp...), len(lst)
	case rfMapDupSame:
		// the original bytes carry the first pair twice; any re-encoding of the decoded map drops one
		dup := append(append([]*space.Node{}, mp...), mp[0].Clone(), mp[1].Clone())
		b.redeemers, b.nRed = space.M(dup...), len(lst)
	case rfMapDupDiff:
		other := space.A(space.B([]byte("other redeemer data")), space.A(space.U(7), space.U(9)))
		dup := append(append([]*space.Node{}, mp...), mp[0].Clone(), other)
		b.redeemers, b.nRed = space.M(dup...), len(lst)
	case rfEmptyList:
		b.redeemers = space.A()
	case rfEmptyMap:
		b.redeemers = space.M()
	}
	// datums: original bytes deliberately not what a re-encoder would produce (indefinite list inside)
	d1 := space.Tag(121, space.AIndef(space.U(1), space.U(2)))
	d2 := space.B([]byte("datum-two"))
	var ds []*space.Node
	switch k.datums {
	case dOne:
		ds, b.nDat = []*space.Node{d1}, 1
	case dTwo:
		ds, b.nDat = []*space.Node{d1, d2}, 2
	case dEmpty:
		ds = []*space.Node{}
	}
	if k.datums != dAbsent {
		b.datums = space.A(ds...)
		if k.dtagged {
			b.datums = space.Tag(258, b.datums)
		}
	}
	s.Redeemers, s.Datums = b.redeemers, b.datums
	b.spec = s
	return b
}

// expected hash per the specification for the containers as they currently are in b.
func (w *world) expected(k caseT, b *built, tables map[int][]int64) (required bool, h []byte) {
	var red []byte
	if b.redeemers != nil {
		red = b.redeemers.Encode()
	} else if k.era >= EraConway {
		red = []byte{0xa0}
	} else {
		red = []byte{0x80}
	}
	var dat []byte
	if b.datums != nil && b.nDat > 0 {
		dat = b.datums.Encode()
	}
	in := append(append(append([]byte{}, red...), dat...), langViews(k.langs, tables)...)
	return b.nRed > 0 || b.nDat > 0, b256(in)
}

type verdict struct {
	decoded  bool
	decErr   string
	accepted bool
	sdhErrs  []string
	computed []byte // from a ScriptDataHashMismatchError
	ruleSeen bool
}

func ruleName(r common.UtxoValidationRuleFunc) string {
	return runtime.FuncForPC(reflect.ValueOf(r).Pointer()).Name()
}

func (w *world) observe(env *EraEnv, sdhIdx map[int]bool, b *built, declared []byte) (v verdict, txb []byte) {
	s := *b.spec
	s.ScriptDataHash = declared
	s.VKeys = nil
	s.SignWith(w.keyA)
	txb = s.Bytes()
	tx, err := DecodeTx(s.Era, txb)
	if err != nil {
		v.decErr = err.Error()
		return v, txb
	}
	v.decoded = true
	v.accepted = true
	for _, r := range env.RunAll(tx, 100, b.stub) {
		if sdhIdx[r.Index] {
			v.accepted = false
			if r.Panic != nil {
				v.sdhErrs = append(v.sdhErrs, fmt.Sprintf("panic: %v", r.Panic))
			} else {
				v.sdhErrs = append(v.sdhErrs, fmt.Sprintf("%T", r.Err))
			}
		}
		if r.Err == nil {
			continue
		}
		var e1 common.ScriptDataHashMismatchError
		var e2 common.MissingScriptDataHashError
		var e3 common.ExtraneousScriptDataHashError
		var e4 common.MissingRedeemersForScriptDataHashError
		switch {
		case errors.As(r.Err, &e1):
			v.accepted = false
			v.computed = append([]byte{}, e1.Computed[:]...)
			v.sdhErrs = append(v.sdhErrs, "ScriptDataHashMismatchError")
		case errors.As(r.Err, &e2), errors.As(r.Err, &e3), errors.As(r.Err, &e4):
			v.accepted = false
			v.sdhErrs = append(v.sdhErrs, fmt.Sprintf("%T", r.Err))
		}
	}
	return v, txb
}

func setCostModels(env *EraEnv, t map[int][]int64) {
	cm := map[uint][]int64{0: t[0], 1: t[1], 2: t[2]}
	switch p := env.PP.(type) {
	case *alonzo.AlonzoProtocolParameters:
		p.CostModels = map[uint][]int64{0: t[0]}
	case *babbage.BabbageProtocolParameters:
		p.CostModels = map[uint][]int64{0: t[0], 1: t[1]}
	case *conway.ConwayProtocolParameters:
		p.CostModels = cm
	case *dijkstra.DijkstraProtocolParameters:
		p.CostModels = cm
	}
}

type tally struct {
	mu       sync.Mutex
	outcomes map[string]int64
	keyCases map[string]map[string]bool
}

func main() {
	c := vlib.New("C31", "exploration")
	chk = c
	w := &world{keyA: NewKey("a", c.Seed), seed: c.Seed}
	base, _ := hex.DecodeString("4d01000033222220051200120011")
	for l := 0; l < 3; l++ {
		w.scripts[l] = append(append([]byte{}, base...), byte(l), byte(c.Seed)) // representatives; never executed for this property
	}
	if c.Replay != "" {
		replayOne(c, w)
		return
	}
	tl := &tally{outcomes: map[string]int64{}, keyCases: map[string]map[string]bool{}}
	var jobs []caseT
	eras := []int{EraAlonzo, EraBabbage, EraConway, EraDijkstra}
	for _, era := range eras {
		nl := map[int]int{EraAlonzo: 1, EraBabbage: 2, EraConway: 3, EraDijkstra: 3}[era]
		for langs := 0; langs < 1<<nl; langs++ {
			provs := []int{0}
			if era >= EraBabbage && langs != 0 {
				provs = []int{0, 1}
			}
			var rfs []int
			if langs != 0 {
				rfs = []int{rfList}
				if era >= EraConway {
					rfs = []int{rfList, rfMap, rfMapDupSame, rfMapDupDiff}
				}
			} else {
				rfs = []int{rfAbsent, rfEmptyList}
				if era >= EraConway {
					rfs = []int{rfAbsent, rfEmptyList, rfEmptyMap}
				}
			}
			for _, pv := range provs {
				for _, rf := range rfs {
					for d := dAbsent; d <= dEmpty; d++ {
						for _, tg := range []bool{false, true} {
							if tg && (era < EraConway || d == dAbsent) {
								continue
							}
							for t := 0; t < 2; t++ {
								jobs = append(jobs, caseT{era, langs, pv, rf, d, tg, t, 0})
								// unrelated reference script of a language the transaction does not use (Babbage+)
								if era >= EraBabbage {
									for l := 0; l < nl; l++ {
										if langs&(1<<l) == 0 {
											jobs = append(jobs, caseT{era, langs, pv, rf, d, tg, t, 1 + l})
										}
									}
								}
							}
						}
					}
				}
			}
		}
	}
	// interleave the eras (a soft deadline then never starves a whole era)
	{
		per := map[int][]caseT{}
		for _, j := range jobs {
			per[j.era] = append(per[j.era], j)
		}
		jobs = jobs[:0]
		for i := 0; ; i++ {
			any := false
			for _, era := range eras {
				if i < len(per[era]) {
					jobs = append(jobs, per[era][i])
					any = true
				}
			}
			if !any {
				break
			}
		}
	}
	envs := map[[2]int]*EraEnv{}
	sdhIdx := map[int]map[int]bool{}
	tabs := [2]map[int][]int64{costTables(0), costTables(1)}
	for _, era := range eras {
		for t := 0; t < 2; t++ {
			e := NewEraEnv(era)
			setCostModels(e, tabs[t])
			envs[[2]int{era, t}] = e
		}
		m := map[int]bool{}
		for i, r := range envs[[2]int{era, 0}].Rules {
			if strings.HasSuffix(ruleName(r), "UtxoValidateScriptDataHash") {
				m[i] = true
			}
		}
		sdhIdx[era] = m
		c.Set("sdh_rule_positions_"+EraNames[era], len(m))
	}
	// own-encoder self check against two hand-computed views (guards the oracle, not the repo)
	if got := hex.EncodeToString(langViews(1, map[int][]int64{0: {1, -1}})); got != "a14100449f0120ff" {
		c.Internal("own langViews encoder broken: %s", got)
	}
	if got := hex.EncodeToString(langViews(7, map[int][]int64{0: {}, 1: {24}, 2: {}})); got != "a30181181802804100429fff" {
		c.Internal("own langViews encoder broken: %s", got)
	}

	type pendingV struct {
		key, what string
		replay    map[string]any
	}
	var pending []pendingV // reported in sorted order after the parallel phase, so the run is reproducible
	judge := func(k caseT, variant string, b *built, decl int, declared []byte, v verdict, txb []byte, required bool, exp []byte) {
		out := "decoder-rejected"
		if v.decoded {
			out = "sdh-rejected"
			if v.accepted {
				out = "sdh-accepted"
			}
		}
		cls := ""
		if variant == "" {
			cls = k.String() + "/declared=" + declNames[decl]
		}
		c.Eval(cls, declNames[decl]+":"+out)
		if variant == "" {
			tl.mu.Lock()
			tl.outcomes[EraNames[k.era]+"/redeemers="+rfNames[k.rform]+"/"+declNames[decl]+":"+out]++
			tl.mu.Unlock()
		}
		if v.decoded && !v.accepted && required && decl == declCorrect {
			c.Add("specified_hash_refused", 1)
		}
		if !v.decoded || !v.accepted {
			return
		}
		ok := (required && declared != nil && bytes.Equal(declared, exp)) || (!required && declared == nil)
		if ok {
			return
		}
		// classify
		var key string
		switch {
		case !required && declared != nil:
			key = "UtxoValidateScriptDataHash|accepted|hash-declared-without-redeemers-or-datums"
		case required && declared == nil:
			key = "UtxoValidateScriptDataHash|accepted|hash-missing-with-" + map[bool]string{true: "redeemers", false: "datums-only"}[b.nRed > 0]
		default:
			what := declNames[decl]
			comp := "langs=" + langStr(k.langs)
			if k.extra > 0 {
				comp = "unneeded-reference-script"
			} else if k.rform == rfMapDupSame || k.rform == rfMapDupDiff {
				comp = "redeemers=" + rfNames[k.rform]
			} else if variant != "" {
				comp = "re-encoded-container"
			} else if b.nRed == 0 {
				comp = "redeemers=" + rfNames[k.rform]
			}
			key = fmt.Sprintf("UtxoValidateScriptDataHash|accepted|wrong-hash(%s)|%s", what, comp)
		}
		tl.mu.Lock()
		if tl.keyCases[key] == nil {
			tl.keyCases[key] = map[string]bool{}
		}
		tl.keyCases[key][k.String()] = true
		tl.mu.Unlock()
		tl.mu.Lock()
		pending = append(pending, pendingV{key, fmt.Sprintf("%s %s declared=%s (%x): script-data-hash rule passes; required=%v, specified hash=%x", k, variant, declNames[decl], declared, required, exp),
			map[string]any{"era": k.era, "langs": k.langs, "prov": k.prov, "rform": k.rform, "datums": k.datums, "dtagged": k.dtagged, "table": k.table,
				"extra": k.extra, "variant": variant, "declared_kind": decl, "declared": hex.EncodeToString(declared), "tx_cbor": hex.EncodeToString(txb)}})
		tl.mu.Unlock()
	}

	runCase := func(k caseT, b *built, variant string, canonicalHash []byte) {
		env := envs[[2]int{k.era, k.table}]
		idx := sdhIdx[k.era]
		required, exp := w.expected(k, b, tabs[k.table])
		flip := append([]byte{}, exp...)
		flip[31] ^= 0x01
		decls := []struct {
			kind int
			h    []byte
		}{{declCorrect, exp}, {declBitflip, flip}, {declAbsent, nil}}
		if canonicalHash != nil && !bytes.Equal(canonicalHash, exp) {
			decls = append(decls, struct {
				kind int
				h    []byte
			}{declCanonical, canonicalHash})
		}
		for _, d := range decls {
			v, txb := w.observe(env, idx, b, d.h)
			judge(k, variant, b, d.kind, d.h, v, txb, required, exp)
			if d.kind == declCorrect && variant == "" && k.datums == dOne && k.prov == 0 && !k.dtagged &&
				((k.langs == 7 && k.table == 1 && k.era == EraConway) || (k.langs == 0 && k.era == EraAlonzo && k.table == 0) || (k.langs == 3 && k.era == EraBabbage && k.table == 1)) {
				c.Sample(map[string]any{"case": k.String(), "declared": hex.EncodeToString(d.h), "accepted": v.accepted, "errors": v.sdhErrs, "lang_views": vlib.Hex(langViews(k.langs, tabs[k.table])), "tx_cbor": vlib.Hex(txb)})
			}
			// the specified hash was refused with a mismatch: does the rule accept its own, different, hash?
			if d.kind == declCorrect && required && v.decoded && !v.accepted && v.computed != nil && !bytes.Equal(v.computed, exp) {
				v2, txb2 := w.observe(env, idx, b, v.computed)
				judge(k, variant, b, declFedBack, v.computed, v2, txb2, required, exp)
			}
		}
	}

	// soft deadline (safety net for an oversubscribed machine): jobs that would start after it are skipped and counted
	deadline := c.Deadline(170*time.Second, 560*time.Second)
	var skipped int64
	vlib.Parallel(len(jobs), func(i int) {
		if time.Now().After(deadline) {
			atomic.AddInt64(&skipped, 1)
			return
		}
		k := jobs[i]
		b := w.build(k)
		runCase(k, b, "", nil)
		// re-encodings (d=1) of the redeemers and datums containers: the hash must follow the ORIGINAL bytes
		if (b.redeemers == nil && b.datums == nil) || k.extra > 0 {
			return // (the unrelated-reference-script dimension does not touch the containers: no re-encodings there)
		}
		if !c.Thorough() && k.table == 1 {
			return // quick: re-encodings with cost-model table 0 only (the table does not interact with container bytes)
		}
		_, canon := w.expected(k, b, tabs[k.table])
		for ci, cont := range []*space.Node{b.redeemers, b.datums} {
			if cont == nil {
				continue
			}
			name := []string{"redeemers", "datums"}[ci]
			space.EnumD1(cont, space.Sites(cont, nil), func(v space.Variant) bool {
				runCase(k, b, name+v.Desc, canon)
				return true
			})
		}
	})

	sort.Slice(pending, func(i, j int) bool {
		if pending[i].key != pending[j].key {
			return pending[i].key < pending[j].key
		}
		return pending[i].what < pending[j].what
	})
	for _, p := range pending {
		c.Violation(p.key, p.what, p.replay)
	}
	c.Add("specified_hash_refused", 0)
	c.Set("base_case_outcomes_by_era_and_redeemer_form", tl.outcomes)
	c.Set("cases", len(jobs))
	if len(tl.keyCases) > 0 {
		m := map[string][]string{}
		for k, set := range tl.keyCases {
			for e := range set {
				m[k] = append(m[k], e)
			}
			sort.Strings(m[k])
			if len(m[k]) > 12 {
				m[k] = append(m[k][:12], fmt.Sprintf("… %d more", len(m[k])-12))
			}
		}
		c.Set("violating_cases_by_key", m)
	}
	if skipped > 0 {
		c.NotExhaustive(fmt.Sprintf("soft deadline reached: %d of %d cases were not run", skipped, len(jobs)))
	}
	c.Set("rule", "eras Alonzo..Dijkstra x language subset (era's V1..V3) x scripts in witness set / behind reference inputs (Babbage+) x redeemers {list, map (Conway+)} for non-empty language sets and {absent, empty list, empty map (Conway+)} for the empty set x datums {absent, one, two, present-empty} x {plain list, tag-258 set (Conway+)} x 2 cost-model tables x declared {correct, one bit off, absent}; plus every d=1 header re-encoding of the redeemers and of the datums container with declared {correct for the new bytes, bit off, absent, hash of the canonical bytes}; all rules of the era list are run, only script-data-hash results are read; distinct = case tuple + declared kind; oracle = own hashScriptIntegrity + own language-views encoder")
	c.Assume("blake2b-256 / ed25519 trusted; script bytes, key and txids are representatives (scripts are never executed for this property)")
	c.Assume("'languages used' = languages of the Plutus scripts that lock an input of the transaction; every such script is supplied (witness or reference) and has a spend redeemer, so 'used', 'needed' and 'present' coincide in the generated transactions")
	// free-running -race pass: concurrent callers on their own inputs (state the library shares between calls)
	c.RaceAudit("c31")
	c.Finish()
}

func replayOne(c *vlib.Check, w *world) {
	raw, err := os.ReadFile(c.Replay)
	if err != nil {
		c.Internal("replay: %v", err)
	}
	var f struct {
		Key    string `json:"key"`
		Replay struct {
			Era, Langs, Prov, Rform, Datums, Table, Extra int
			Dtagged                                bool
			Variant                                string
			Declared                               string
			TxCbor                                 string `json:"tx_cbor"`
		} `json:"replay"`
	}
	if err := json.Unmarshal(raw, &f); err != nil {
		c.Internal("replay: %v", err)
	}
	r := f.Replay
	k := caseT{r.Era, r.Langs, r.Prov, r.Rform, r.Datums, r.Dtagged, r.Table, r.Extra}
	b := w.build(k)
	env := NewEraEnv(k.era)
	tab := costTables(k.table)
	setCostModels(env, tab)
	idx := map[int]bool{}
	for i, rl := range env.Rules {
		if strings.HasSuffix(ruleName(rl), "UtxoValidateScriptDataHash") {
			idx[i] = true
		}
	}
	// the stored transaction bytes are replayed as they are (covers re-encoded variants too)
	txb, _ := hex.DecodeString(r.TxCbor)
	tx, err := DecodeTx(k.era, txb)
	if err != nil {
		fmt.Println("decoder rejects:", err)
		c.Finish()
	}
	accepted := true
	var errs []string
	for _, rr := range env.RunAll(tx, 100, b.stub) {
		if idx[rr.Index] || (rr.Err != nil && strings.Contains(fmt.Sprintf("%T", rr.Err), "ScriptDataHash")) {
			accepted = false
			errs = append(errs, fmt.Sprint(rr.Err))
		}
	}
	c.Eval(k.String(), "")
	fmt.Printf("%s %s declared=%s: script-data-hash accepted=%v %v\n", k, r.Variant, r.Declared, accepted, errs)
	if accepted {
		rp := map[string]any{}
		var whole map[string]any
		if json.Unmarshal(raw, &whole) == nil {
			rp, _ = whole["replay"].(map[string]any)
		}
		c.Violation(f.Key, k.String()+": stored transaction still passes the script-data-hash rule with the stored declared hash", rp)
	}
	c.Set("rule", "replay of one stored transaction")
	c.Finish()
}
