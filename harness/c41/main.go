// C41: chain selection is a consistent preference order.
//
// Bounded-exhaustive: a finite universe of candidate tips (block numbers x VRF outputs x
// window slot lists, built with the repository's own WindowedChainTip / SimpleChainTip
// constructors) is pushed through the real PraosChainSelector:
//   - every ordered pair   -> antisymmetry, and the outcome the statement fixes
//   - every ordered triple -> transitivity
//   - every permutation of every 3-subset and 4-subset -> Preferred*/PreferredWithDensity
//     return a member of the candidate set that no other member beats
//
// for every (selector configuration, fork point, current tip) of a small grid that
// contains "shallow", "exactly k" and "k+1" rollback depths.
//
// The reference is written from the property statement only:
//
//	deep  <=> tipBlock > forkBlock  and  tipBlock-forkBlock > k              (big.Int)
//	density(tip) = #{s in slots : forkSlot < s <= forkSlot+window}           (big.Int)
//	order = (density if deep) then block number then lower VRF output.
//
// Where the statement does not fix an outcome (empty VRF, VRF outputs of different length,
// deep forks without a configured window, tips without slot lists) only the order laws and
// maximality are demanded.
package main

import (
	"bytes"
	"encoding/hex"
	"encoding/json"
	"fmt"
	"io"
	"log/slog"
	"math/big"
	"os"
	"sort"
	"strings"
	"sync/atomic"

	"github.com/blinklabs-io/gouroboros/consensus"
	"github.com/blinklabs-io/gouroboros/consensus/genesis"
	"verif/vlib"
)

const maxU64 = ^uint64(0)

// ---------------------------------------------------------------- universe

type tipDesc struct {
	Nil    bool     `json:"nil,omitempty"`
	Kind   string   `json:"kind"` // "windowed" | "simple"
	BN     uint64   `json:"bn"`
	VRF    string   `json:"vrf"` // hex, "" = empty
	Slots  []uint64 `json:"slots,omitempty"`
	Blocks uint64   `json:"blocks_after_fork,omitempty"`
	Span   uint64   `json:"slots_after_fork,omitempty"`
}

func (d tipDesc) String() string {
	if d.Nil {
		return "nil"
	}
	if d.Kind == "simple" {
		return fmt.Sprintf("S(bn=%d vrf=%q ratio=%d/%d)", d.BN, d.VRF, d.Blocks, d.Span)
	}
	return fmt.Sprintf("W(bn=%d vrf=%q slots=%v)", d.BN, d.VRF, d.Slots)
}

type tip struct {
	d   tipDesc
	vrf []byte
	t   consensus.ChainTip // real object handed to the selector (nil interface for the nil tip)
}

func mkTip(d tipDesc) *tip {
	t := &tip{d: d}
	if d.Nil {
		return t
	}
	if d.VRF != "" {
		t.vrf, _ = hex.DecodeString(d.VRF)
	}
	var tipSlot uint64
	for _, s := range d.Slots {
		if s > tipSlot {
			tipSlot = s
		}
	}
	switch d.Kind {
	case "windowed":
		t.t = consensus.NewWindowedChainTip(tipSlot, d.BN, t.vrf, append([]uint64(nil), d.Slots...))
	case "simple":
		t.t = consensus.NewSimpleChainTipWithDensity(200, d.BN, t.vrf, d.Blocks, d.Span)
	}
	return t
}

type config struct {
	K      uint64 `json:"k"`
	Window uint64 `json:"window"`
	ForkBN uint64 `json:"fork_block"`
	ForkSl uint64 `json:"fork_slot"`
	TipBN  uint64 `json:"tip_block"`
	Depth  string `json:"depth_class"`
}

func (c config) String() string {
	return fmt.Sprintf("k=%d window=%d fork=(slot %d, block %d) tip=%d [%s]", c.K, c.Window, c.ForkSl, c.ForkBN, c.TipBN, c.Depth)
}

// ---------------------------------------------------------------- reference

func refDeep(c config) bool {
	tipB := new(big.Int).SetUint64(c.TipBN)
	forkB := new(big.Int).SetUint64(c.ForkBN)
	d := new(big.Int).Sub(tipB, forkB) // may be negative: fork ahead of the tip = no rollback
	return d.Cmp(new(big.Int).SetUint64(c.K)) > 0
}

func refDensity(slots []uint64, forkSlot, window uint64) int {
	lo := new(big.Int).SetUint64(forkSlot)
	hi := new(big.Int).Add(lo, new(big.Int).SetUint64(window))
	n := 0
	for _, s := range slots {
		b := new(big.Int).SetUint64(s)
		if b.Cmp(lo) > 0 && b.Cmp(hi) <= 0 {
			n++
		}
	}
	return n
}

// refCmp returns (sign, true) where the statement fixes the outcome and (0,false) otherwise.
// regime: "ordinary" (Compare / shallow fork) or "deep".
func refCmp(a, b *tip, c config, deep bool) (int, bool) {
	if a.d.Nil || b.d.Nil {
		return 0, false
	}
	if deep {
		if c.Window == 0 || a.d.Kind != "windowed" || b.d.Kind != "windowed" {
			return 0, false // no window density is defined: statement silent
		}
		da, db := refDensity(a.d.Slots, c.ForkSl, c.Window), refDensity(b.d.Slots, c.ForkSl, c.Window)
		if da != db {
			if da > db {
				return 1, true
			}
			return -1, true
		}
	}
	if a.d.BN != b.d.BN {
		if a.d.BN > b.d.BN {
			return 1, true
		}
		return -1, true
	}
	if len(a.vrf) == 0 || len(b.vrf) == 0 || len(a.vrf) != len(b.vrf) {
		return 0, false // "lower VRF output" is only unambiguous for two outputs of one length
	}
	return -bytes.Compare(a.vrf, b.vrf), true
}

func sgn(x int) int {
	if x > 0 {
		return 1
	}
	if x < 0 {
		return -1
	}
	return 0
}

// ---------------------------------------------------------------- classes for keys

func vrfClass(a, b *tip) string {
	cl := func(t *tip) string {
		if t.d.Nil {
			return "niltip"
		}
		if len(t.vrf) == 0 {
			return "empty"
		}
		return fmt.Sprintf("len%d", len(t.vrf))
	}
	x, y := cl(a), cl(b)
	if x > y {
		x, y = y, x
	}
	return x + "/" + y
}

func kindClass(ts ...*tip) string {
	w, s := false, false
	for _, t := range ts {
		if t.d.Nil {
			continue
		}
		if t.d.Kind == "simple" {
			s = true
		} else {
			w = true
		}
	}
	switch {
	case w && s:
		return "mixed-capability-tips"
	case s:
		return "simple-tips"
	}
	return "windowed-tips"
}

func regimeName(c config, deep bool) string {
	if !deep {
		return "shallow"
	}
	if c.Window == 0 {
		return "deep/legacy-ratio"
	}
	return "deep/window"
}

// ---------------------------------------------------------------- permutations

func permute(n int, f func(p []int)) {
	p := make([]int, n)
	used := make([]bool, n)
	var rec func(i int)
	rec = func(i int) {
		if i == n {
			f(p)
			return
		}
		for v := 0; v < n; v++ {
			if !used[v] {
				used[v] = true
				p[i] = v
				rec(i + 1)
				used[v] = false
			}
		}
	}
	rec(0)
}

// ---------------------------------------------------------------- the check

type cmpFn func(a, b *tip) int

type runner struct {
	c        *vlib.Check
	evals    atomic.Int64
	nontriv  atomic.Int64
	fixed    atomic.Int64 // comparisons whose outcome the statement fixes
	outcomes [3]atomic.Int64
}

func (r *runner) violation(key, what string, c config, fn string, ts []*tip) {
	ds := make([]tipDesc, len(ts))
	for i, t := range ts {
		ds[i] = t.d
	}
	r.c.Violation(key, what, map[string]any{"function": fn, "config": c, "tips": ds})
}

// pending collects violations found by parallel workers so that they are reported in
// index order afterwards (same run twice => same replay files).
type pendingV struct {
	key, what string
	ts        []*tip
}
type pending struct {
	per [][]pendingV
}

func newPending(n int) *pending { return &pending{per: make([][]pendingV, n)} }
func (p *pending) add(i int, key, what string, ts []*tip) {
	for _, v := range p.per[i] {
		if v.key == key {
			return
		}
	}
	p.per[i] = append(p.per[i], pendingV{key, what, append([]*tip(nil), ts...)})
}
func (p *pending) flush(r *runner, c config, fn string) {
	for _, l := range p.per {
		for _, v := range l {
			r.violation(v.key, v.what, c, fn, v.ts)
		}
	}
}

// lawsAndReference runs pairs + triples for one comparison function over one universe.
func (r *runner) lawsAndReference(fn string, u []*tip, c config, deep bool, cmp cmpFn) {
	n := len(u)
	reg := regimeName(c, deep)
	// table of real outcomes: every ordered pair is one real call
	tab := make([]int8, n*n)
	vlib.Parallel(n, func(i int) {
		for j := 0; j < n; j++ {
			tab[i*n+j] = int8(sgn(cmp(u[i], u[j])))
		}
	})
	var ev, nt, fx int64
	var oc [3]int64
	for i := 0; i < n; i++ {
		for j := 0; j < n; j++ {
			ev++
			if i != j {
				nt++
			}
			got := int(tab[i*n+j])
			oc[got+1]++
			if i == j && got != 0 {
				r.violation(fmt.Sprintf("%s|reflexivity|%s", fn, reg), fmt.Sprintf("%s(x,x)=%d for x=%s; %s", fn, got, u[i].d, c), c, fn, []*tip{u[i]})
			}
			if got != -int(tab[j*n+i]) {
				acl := "vrf=" + vrfClass(u[i], u[j])
				if !u[i].d.Nil && !u[j].d.Nil && u[i].d.BN != u[j].d.BN {
					acl = "block-numbers-differ"
				}
				r.violation(fmt.Sprintf("%s|antisymmetry|%s|%s|%s", fn, reg, kindClass(u[i], u[j]), acl),
					fmt.Sprintf("%s(a,b)=%d but %s(b,a)=%d; a=%s b=%s; %s", fn, got, fn, tab[j*n+i], u[i].d, u[j].d, c), c, fn, []*tip{u[i], u[j]})
			}
			if want, ok := refCmp(u[i], u[j], c, deep); ok {
				fx++
				if want != got {
					rule := "vrf-tiebreak"
					if u[i].d.BN != u[j].d.BN {
						rule = "longer-chain"
					}
					if deep && refDensity(u[i].d.Slots, c.ForkSl, c.Window) != refDensity(u[j].d.Slots, c.ForkSl, c.Window) {
						rule = "window-density-first"
					}
					r.violation(fmt.Sprintf("%s|outcome|%s|%s", fn, reg, rule),
						fmt.Sprintf("%s(a,b)=%d, statement requires %d; a=%s b=%s; %s", fn, got, want, u[i].d, u[j].d, c), c, fn, []*tip{u[i], u[j]})
				}
			}
		}
	}
	// transitivity over every ordered triple (table lookups of real outcomes)
	var tev, tnt atomic.Int64
	pt := newPending(n)
	vlib.Parallel(n, func(i int) {
		var e, t int64
		for j := 0; j < n; j++ {
			ab := tab[i*n+j]
			for k := 0; k < n; k++ {
				e++
				if i != j && j != k && i != k {
					t++
				}
				if ab < 0 {
					continue
				}
				bc := tab[j*n+k]
				if bc < 0 {
					continue
				}
				ac := tab[i*n+k]
				bad := ""
				if ac < 0 {
					bad = "a>=b and b>=c but a<c"
				} else if (ab > 0 || bc > 0) && ac == 0 {
					bad = "a>=b and b>=c with one strict, but a=c"
				}
				if bad != "" {
					pt.add(i, fmt.Sprintf("%s|transitivity|%s|%s", fn, reg, kindClass(u[i], u[j], u[k])),
						fmt.Sprintf("%s; a=%s b=%s c=%s (ab=%d bc=%d ac=%d); %s", bad, u[i].d, u[j].d, u[k].d, ab, bc, ac, c), []*tip{u[i], u[j], u[k]})
				}
			}
		}
		tev.Add(e)
		tnt.Add(t)
	})
	pt.flush(r, c, fn)
	r.evals.Add(ev + tev.Load())
	r.nontriv.Add(nt + tnt.Load())
	r.fixed.Add(fx)
	for i := range oc {
		r.outcomes[i].Add(oc[i])
	}
	r.c.Distinct(fn + "|" + reg + "|" + kindClass(u...))
}

// maximality: every permutation of every size-m subset of u.
func (r *runner) maximality(fn string, u []*tip, m int, c config, deep bool, cmp cmpFn, preferred func(cands []consensus.ChainTip) consensus.ChainTip) {
	n := len(u)
	reg := regimeName(c, deep)
	// first-level split for the worker pool: smallest index of the subset
	pm := newPending(n)
	vlib.Parallel(n, func(first int) {
		var ev, nt int64
		idx := make([]int, m)
		var rec func(pos, from int)
		rec = func(pos, from int) {
			if pos == m {
				sub := make([]*tip, m)
				for i, x := range idx {
					sub[i] = u[x]
				}
				cands := make([]consensus.ChainTip, m)
				permute(m, func(p []int) {
					for i, x := range p {
						cands[i] = sub[x].t
					}
					got := preferred(cands)
					ev++
					nt++
					// locate the result among the candidates (identity)
					var gt *tip
					for _, t := range sub {
						if t.t == got {
							gt = t
							break
						}
					}
					orderOf := func() []string {
						o := make([]string, m)
						for i, x := range p {
							o[i] = sub[x].d.String()
						}
						return o
					}
					if gt == nil {
						pm.add(first, fmt.Sprintf("%s|not-a-candidate|%s", fn, reg), fmt.Sprintf("result is not one of the candidates %v; %s", orderOf(), c), sub)
						return
					}
					for _, t := range sub {
						if t == gt {
							continue
						}
						if cmp(t, gt) > 0 {
							// one root cause, one key: the statement-level test below is only consulted
							// when the implementation's own comparison is satisfied
							pm.add(first, fmt.Sprintf("%s|not-maximal|%s|%s", fn, reg, kindClass(sub...)),
								fmt.Sprintf("candidates in order %v: returned %s although %s is preferred over it by the same comparison; %s", orderOf(), gt.d, t.d, c), sub)
						} else if want, ok := refCmp(t, gt, c, deep); ok && want > 0 {
							pm.add(first, fmt.Sprintf("%s|not-maximal-by-statement|%s|%s", fn, reg, kindClass(sub...)),
								fmt.Sprintf("candidates in order %v: returned %s although the statement prefers %s; %s", orderOf(), gt.d, t.d, c), sub)
						}
					}
				})
				return
			}
			for x := from; x < n; x++ {
				idx[pos] = x
				rec(pos+1, x+1)
			}
		}
		idx[0] = first
		rec(1, first+1)
		r.evals.Add(ev)
		r.nontriv.Add(nt)
	})
	pm.flush(r, c, fn)
	r.c.Distinct(fmt.Sprintf("%s|%s|subsets-of-%d|%s", fn, reg, m, kindClass(u...)))
}

func windowedUniverse(bns []uint64, vrfs []string, pats [][]uint64, withNil bool) []*tip {
	var u []*tip
	for _, bn := range bns {
		for _, v := range vrfs {
			for _, p := range pats {
				u = append(u, mkTip(tipDesc{Kind: "windowed", BN: bn, VRF: v, Slots: p}))
			}
		}
	}
	if withNil {
		u = append(u, mkTip(tipDesc{Nil: true}))
	}
	return u
}

func selector(c config) *consensus.PraosChainSelector {
	if c.Window == 0 {
		return consensus.NewPraosChainSelector(c.K)
	}
	return consensus.NewPraosChainSelectorWithWindow(c.K, c.Window)
}

func (r *runner) runUniverse(u, uSmall []*tip, cfgs []config, with4 bool) {
	// Compare / Preferred do not depend on fork data: once per selector flavour
	for _, w := range []uint64{0, 10} {
		c := config{K: 5, Window: w, Depth: "n/a (Compare)"}
		sel := selector(c)
		var viaIface consensus.ChainSelector = sel
		cmp := func(a, b *tip) int { return viaIface.Compare(a.t, b.t) }
		r.lawsAndReference("Compare", u, c, false, cmp)
		r.maximality("Preferred", u, 3, c, false, cmp, viaIface.Preferred)
		if with4 {
			r.maximality("Preferred", uSmall, 4, c, false, cmp, viaIface.Preferred)
		}
	}
	for ci, c := range cfgs {
		c := c
		sel := selector(c)
		deep := refDeep(c)
		if got := sel.IsDeepFork(consensus.ForkPoint{Slot: c.ForkSl, BlockNumber: c.ForkBN}, c.TipBN); got != deep {
			r.violation("IsDeepFork|"+c.Depth, fmt.Sprintf("IsDeepFork=%v, statement (rollback of more than k blocks) says %v; %s", got, deep, c), c, "IsDeepFork", nil)
		}
		r.evals.Add(1)
		fp := consensus.ForkPoint{Slot: c.ForkSl, BlockNumber: c.ForkBN}
		cmp := func(a, b *tip) int { return sel.CompareWithDensity(a.t, b.t, fp, c.TipBN) }
		pref := func(cands []consensus.ChainTip) consensus.ChainTip {
			return sel.PreferredWithDensity(cands, fp, c.TipBN)
		}
		r.lawsAndReference("CompareWithDensity", u, c, deep, cmp)
		// the six core configurations get the full universe; the additional (thorough) ones
		// permute 3-subsets of the sub-universe and no 4-subsets (pairs and triples stay complete)
		if ci >= 6 {
			r.maximality("PreferredWithDensity", uSmall, 3, c, deep, cmp, pref)
			continue
		}
		r.maximality("PreferredWithDensity", u, 3, c, deep, cmp, pref)
		if with4 {
			r.maximality("PreferredWithDensity", uSmall, 4, c, deep, cmp, pref)
		}
	}
}

// ---- genesis.GenesisSelector (fragment-level ordering named in the anchors)

type frag struct {
	inter  uint64
	slots  []uint64
	blocks uint64
}

func (f *frag) IntersectionSlot() uint64 { return f.inter }
func (f *frag) TipSlot() uint64 {
	var m uint64
	for _, s := range f.slots {
		if s > m {
			m = s
		}
	}
	return m
}
func (f *frag) BlockCount() uint64 { return f.blocks }
func (f *frag) BlockCountInWindow(w uint64) uint64 {
	return uint64(refDensity(f.slots, f.inter, w))
}

func (r *runner) genesisSelector(pats [][]uint64) {
	g := genesis.NewGenesisSelector(genesis.GenesisConfig{SecurityParam: 5, GenesisWindow: 10})
	var fs []*frag
	for _, p := range pats {
		for _, extra := range []uint64{0, 1, 7} {
			fs = append(fs, &frag{inter: 100, slots: p, blocks: uint64(len(p)) + extra})
		}
	}
	n := len(fs)
	desc := func(f *frag) string { return fmt.Sprintf("F(slots=%v blocks=%d)", f.slots, f.blocks) }
	ref := func(a, b *frag) int {
		da, db := refDensity(a.slots, 100, 10), refDensity(b.slots, 100, 10)
		if da != db {
			return sgn(da - db)
		}
		if a.blocks != b.blocks {
			if a.blocks > b.blocks {
				return 1
			}
			return -1
		}
		return 0
	}
	for i := 0; i < n; i++ {
		for j := 0; j < n; j++ {
			got := sgn(g.Compare(fs[i], fs[j]))
			r.evals.Add(1)
			if i != j {
				r.nontriv.Add(1)
			}
			r.outcomes[got+1].Add(1)
			if got != -sgn(g.Compare(fs[j], fs[i])) {
				r.c.Violation("genesis.Compare|antisymmetry", fmt.Sprintf("a=%s b=%s", desc(fs[i]), desc(fs[j])), map[string]any{"a": desc(fs[i]), "b": desc(fs[j])})
			}
			if want := ref(fs[i], fs[j]); want != got {
				r.c.Violation("genesis.Compare|outcome", fmt.Sprintf("got %d want %d (window density first, then length); a=%s b=%s", got, want, desc(fs[i]), desc(fs[j])), map[string]any{"a": desc(fs[i]), "b": desc(fs[j])})
			}
		}
	}
	for i := 0; i < n; i++ {
		for j := i + 1; j < n; j++ {
			for k := j + 1; k < n; k++ {
				sub := []*frag{fs[i], fs[j], fs[k]}
				permute(3, func(p []int) {
					cands := []genesis.ChainFragment{sub[p[0]], sub[p[1]], sub[p[2]]}
					got := g.Preferred(cands)
					r.evals.Add(1)
					r.nontriv.Add(1)
					for _, f := range sub {
						if genesis.ChainFragment(f) != got && g.Compare(f, got) > 0 {
							r.c.Violation("genesis.Preferred|not-maximal", fmt.Sprintf("returned a fragment that %s beats", desc(f)), map[string]any{"frags": []string{desc(sub[0]), desc(sub[1]), desc(sub[2])}})
						}
					}
				})
			}
		}
	}
	r.c.Distinct("genesis.GenesisSelector|pairs+3-subset-permutations")
}

func main() {
	c := vlib.New("C41", "exploration")
	// the selector logs a once-per-selector warning when it falls back to the legacy ratio
	slog.SetDefault(slog.New(slog.NewTextHandler(io.Discard, nil)))
	r := &runner{c: c}

	// two 32-byte representatives (realistic VRF output length), rotated by the seed
	rep := func(b byte) string {
		x := bytes.Repeat([]byte{b + byte(c.Seed)}, 32)
		return hex.EncodeToString(x)
	}
	vrfs := []string{"", "00", "01", "0001", "ff"}
	bns := []uint64{9, 10, 11}
	// window slot lists, to be read against fork slot 100 / window 10 (counted interval (100,110])
	pats := [][]uint64{
		{},                             // no blocks after the fork
		{101, 102, 103, 110},           // dense, last block exactly on the window boundary (counts)
		{101, 111, 112, 113, 114, 115}, // longer but sparse inside the window (111 = first slot outside)
		{50, 100, 105, 110},            // blocks before / exactly at the fork slot do not count
		// nothing enforces an order on the slot list: the documented count is order-independent
		{110, 103, 102, 101},      // descending: 4 in the window
		{115, 111, 101, 102, 103}, // out-of-window slots listed before in-window ones: 3
		{105, 50, 112, 110, 100},  // unsorted mix of before / at / inside / after: 2
	}
	patsT := append(append([][]uint64{}, pats...),
		[]uint64{110},
		[]uint64{111},
		[]uint64{maxU64 - 5, maxU64 - 1, maxU64}, // only relevant for the fork slot near 2^64
	)
	cfg := func(k, w, forkBN, forkSl, tipBN uint64, depth string) config {
		return config{K: k, Window: w, ForkBN: forkBN, ForkSl: forkSl, TipBN: tipBN, Depth: depth}
	}
	var cfgs []config
	for _, w := range []uint64{10, 0} {
		cfgs = append(cfgs,
			cfg(5, w, 19, 100, 20, "shallow"),
			cfg(5, w, 15, 100, 20, "exactly-k"),
			cfg(5, w, 14, 100, 20, "k+1"),
		)
	}
	if c.Thorough() {
		vrfs = append(vrfs, rep(0x10), rep(0x11))
		for _, w := range []uint64{10, 0} {
			cfgs = append(cfgs,
				cfg(5, w, 20, 100, 20, "fork-at-tip"),
				cfg(5, w, 25, 100, 20, "fork-ahead-of-tip"),
				cfg(5, w, 0, 100, 20, "very-deep"),
				cfg(0, w, 20, 100, 20, "k=0,fork-at-tip"),
				cfg(0, w, 19, 100, 20, "k=0,one-block"),
				cfg(5, w, maxU64-6, 100, maxU64, "k+1 near 2^64"),
				cfg(5, w, 14, 104, 20, "k+1,fork-slot-104"),
				cfg(5, w, 14, maxU64-6, 20, "k+1,fork-slot near 2^64 (window end wraps)"),
			)
		}
		cfgs = append(cfgs, cfg(5, maxU64, 14, 100, 20, "k+1,window=2^64-1"))
	}

	var u, uSmall []*tip
	if c.Thorough() {
		u = windowedUniverse(bns, vrfs, patsT, true)
		uSmall = windowedUniverse(bns, vrfs[:5], [][]uint64{pats[0], pats[1], pats[2], pats[5]}, true)
	} else {
		u = windowedUniverse(bns, vrfs, pats, true)
		uSmall = windowedUniverse(bns, vrfs, [][]uint64{pats[0], pats[1], pats[5]}, true)
	}
	if c.Replay != "" {
		replay(c, r)
		return
	}
	r.runUniverse(u, uSmall, cfgs, true)

	// block numbers over the whole uint64 range (differences >= 2^63 included)
	var extreme []*tip
	for _, bn := range []uint64{0, 1, 9, 1<<63 - 1, 1 << 63, maxU64} {
		for _, v := range []string{"", "00", "01"} {
			for _, p := range [][]uint64{pats[0], pats[1]} {
				extreme = append(extreme, mkTip(tipDesc{Kind: "windowed", BN: bn, VRF: v, Slots: p}))
			}
		}
	}
	extreme = append(extreme, mkTip(tipDesc{Nil: true}))
	r.runUniverse(extreme, extreme, cfgs[:6], true)
	c.Set("extreme_block_number_universe_tips", len(extreme))

	// Tips of both repository implementations in one candidate set: SimpleChainTip carries a
	// precomputed blocks/slots ratio and no slot list, WindowedChainTip a slot list.
	var mixed []*tip
	for _, bn := range []uint64{9, 10} {
		for _, v := range []string{"", "01"} {
			for _, p := range pats[:4] {
				mixed = append(mixed, mkTip(tipDesc{Kind: "windowed", BN: bn, VRF: v, Slots: p}))
			}
			for _, rt := range [][2]uint64{{0, 0}, {3, 10}, {1, 2}, {1, 1}, {3, 1000}} {
				mixed = append(mixed, mkTip(tipDesc{Kind: "simple", BN: bn, VRF: v, Blocks: rt[0], Span: rt[1]}))
			}
		}
	}
	r.runUniverse(mixed, mixed, cfgs[:6], c.Thorough())

	r.genesisSelector(patsT)

	c.Sample(map[string]any{"kind": "pair", "config": cfgs[2].String(), "a": u[1].d.String(), "b": u[2].d.String(),
		"CompareWithDensity": selector(cfgs[2]).CompareWithDensity(u[1].t, u[2].t, consensus.ForkPoint{Slot: 100, BlockNumber: 14}, 20),
		"reference":          func() int { s, _ := refCmp(u[1], u[2], cfgs[2], true); return s }()})
	c.Sample(map[string]any{"kind": "pair", "config": cfgs[1].String(), "a": u[1].d.String(), "b": u[2].d.String(),
		"CompareWithDensity": selector(cfgs[1]).CompareWithDensity(u[1].t, u[2].t, consensus.ForkPoint{Slot: 100, BlockNumber: 15}, 20)})
	c.Sample(map[string]any{"kind": "permutation", "config": cfgs[2].String(), "candidates": []string{u[0].d.String(), u[5].d.String(), u[len(u)-1].d.String()},
		"PreferredWithDensity": func() string {
			g := selector(cfgs[2]).PreferredWithDensity([]consensus.ChainTip{u[0].t, u[5].t, u[len(u)-1].t}, consensus.ForkPoint{Slot: 100, BlockNumber: 14}, 20)
			for _, t := range u {
				if t.t == g {
					return t.d.String()
				}
			}
			return "?"
		}()})

	c.Set("evaluations", r.evals.Load())
	c.Set("distinct_nontrivial", r.nontriv.Load())
	c.Set("outcome_fixed_by_statement", r.fixed.Load())
	c.Set("outcomes", map[string]int64{"a<b": r.outcomes[0].Load(), "a=b": r.outcomes[1].Load(), "a>b": r.outcomes[2].Load()})
	c.Set("universe_tips", len(u))
	c.Set("mixed_universe_tips", len(mixed))
	c.Set("configs", len(cfgs))
	c.Set("rule", "tips = block numbers x VRF outputs x slot lists (+ the nil tip) built with the repository's constructors; for every selector config x fork point: every ordered pair (antisymmetry + outcome where the statement fixes it), every ordered triple (transitivity), every permutation of every 3-subset (and of every 4-subset of a sub-universe) for Preferred/PreferredWithDensity maximality; a case is non-trivial when its tips are pairwise different objects; distinct = distinct (function, config, ordered tuple)")
	c.Assume("the statement fixes the VRF tie-break only for two non-empty outputs of equal length; empty / different-length outputs, deep forks without a configured window and tips without slot lists are checked for the order laws and maximality only")
	c.Assume("math/big is trusted (reference arithmetic)")
	// free-running -race pass: concurrent callers on their own inputs (state the library shares between calls)
	c.RaceAudit("c41")
	c.Finish()
}

// replay re-runs the single failing case of a replay file.
func replay(c *vlib.Check, r *runner) {
	b, err := os.ReadFile(c.Replay)
	if err != nil {
		c.Internal("replay: %v", err)
	}
	var f struct {
		Replay struct {
			Function string    `json:"function"`
			Config   config    `json:"config"`
			Tips     []tipDesc `json:"tips"`
		} `json:"replay"`
	}
	if err := json.Unmarshal(b, &f); err != nil {
		c.Internal("replay: %v", err)
	}
	var ts []*tip
	for _, d := range f.Replay.Tips {
		ts = append(ts, mkTip(d))
	}
	cf := f.Replay.Config
	sort.SliceStable(ts, func(i, j int) bool { return false })
	fn := f.Replay.Function
	if strings.Contains(fn, "WithDensity") {
		r.runUniverse(ts, ts, []config{cf}, len(ts) >= 4)
	} else {
		r.runUniverse(ts, ts, nil, len(ts) >= 4)
	}
	c.Set("evaluations", r.evals.Load())
	c.Set("distinct_nontrivial", r.nontriv.Load())
	c.Set("rule", "replay of one recorded case")
	c.Sample(f.Replay)
	c.Finish()
}
