// C37: the leadership threshold is the exact floor of the Praos formula.
//
// T = floor(2^k (1 - (1-f)^sigma)), sigma = min(pool/total, 1), k = 256 (Praos) / 512 (TPraos).
//
// Oracle 1 (exact rational certificate, no approximation): with 1-f = c/d and sigma = p/q reduced,
//   T is the floor  <=>  c^p 2^(kq) <= (2^k - T)^q d^p   and   c^p 2^(kq) > (2^k - T - 1)^q d^p
// evaluated with math/big integers. Used whenever q <= 2048.
// Oracle 2 (rigorous interval, integers only, directed rounding): for stakes whose reduced denominator
// is huge, (1-f)^sigma is enclosed by writing 1-f = y 2^-e (y in [1/2,1)), bracketing sigma between two
// dyadic rationals j/2^m and multiplying the square-root chain y^(1/2^i) in fixed point with floor /
// ceiling rounding; if both ends give the same floor the threshold is certified, otherwise precision is
// doubled; a case that never separates is counted as undecided (never a violation).
// Both are written from the formula in the property, not from the repository code.
//
// Enumerated completely: the grid sigma = p/q (1 <= p <= q <= Q) x f = a/b (1 <= a < b <= B) x both modes,
// each ratio also scaled to stakes near 2^64; families f = 2^-j, 1-2^-j; near-exact cutoffs
// f = 3/4 +- 2^-j, 7/8 +- 2^-j; sigma > 1 (capped); pool = 0; f = 0; f = 1; f < 0, f > 1 and unknown
// modes (error required); coprime stakes near 2^64 and realistic lovelace amounts (oracle 2);
// monotonicity in sigma and in f over everything evaluated; eligibility at T-1, T, T+1.
package main

import (
	"encoding/hex"
	"encoding/json"
	"fmt"
	"math"
	"math/big"
	"os"
	"runtime/debug"
	"sort"
	"sync"

	"golang.org/x/crypto/blake2b"

	"github.com/blinklabs-io/gouroboros/consensus"
	"verif/vlib"
)

var (
	one  = big.NewInt(1)
	zero = big.NewInt(0)
)

func pow2(k uint) *big.Int { return new(big.Int).Lsh(one, k) }

func modeBits(m consensus.ConsensusMode) uint {
	if m == consensus.ConsensusModeTPraos {
		return 512
	}
	return 256
}

func modeName(m consensus.ConsensusMode) string {
	switch m {
	case consensus.ConsensusModeCPraos:
		return "praos"
	case consensus.ConsensusModeTPraos:
		return "tpraos"
	}
	return fmt.Sprintf("mode(%d)", int(m))
}

// ---------- oracle 1: exact certificate ----------

// certificate decides whether T == floor(2^k (1-(c/d)^(p/q))) for 0 < c < d, 1 <= p <= q.
// Returns "" when T is the floor, else "T-too-large" / "T-too-small" / "T>=2^k".
func certificate(T, c, d *big.Int, p, q uint64, k uint) string {
	twoK := pow2(k)
	if T == nil || T.Sign() < 0 || T.Cmp(twoK) >= 0 {
		return "T>=2^k"
	}
	pb, qb := new(big.Int).SetUint64(p), new(big.Int).SetUint64(q)
	lhs := new(big.Int).Exp(c, pb, nil)
	lhs.Lsh(lhs, k*uint(q))
	dp := new(big.Int).Exp(d, pb, nil)
	a := new(big.Int).Sub(twoK, T) // 2^k - T  >= 1
	A := new(big.Int).Exp(a, qb, nil)
	A.Mul(A, dp)
	if lhs.Cmp(A) > 0 { // (1-f)^sigma > (2^k-T)/2^k  <=>  2^k(1-(1-f)^sigma) < T
		return "T-too-large"
	}
	b := new(big.Int).Sub(a, one) // 2^k - T - 1 >= 0
	B := new(big.Int).Exp(b, qb, nil)
	B.Mul(B, dp)
	if lhs.Cmp(B) <= 0 { // 2^k(1-(1-f)^sigma) >= T+1
		return "T-too-small"
	}
	return ""
}

// ---------- oracle 2: rigorous interval with integers ----------

func ceilDiv2N(x *big.Int, n uint) *big.Int {
	r := new(big.Int).Rsh(x, n)
	if new(big.Int).Lsh(r, n).Cmp(x) != 0 {
		r.Add(r, one)
	}
	return r
}

// rootChain returns directed enclosures of (num/den)^(1/2^i) * 2^N for i = 0..m, 1/2 <= num/den <= 1.
// It depends only on the base and the precision, so it is computed once per (base, N) and shared.
type chain struct{ lo, hi []*big.Int }

var (
	chainMu    sync.Mutex
	chainCache = map[string]*chain{}
)

func rootChain(num, den *big.Int, N, m uint) *chain {
	key := fmt.Sprintf("%x/%x/%d/%d", num, den, N, m)
	chainMu.Lock()
	ch, ok := chainCache[key]
	chainMu.Unlock()
	if ok {
		return ch
	}
	oneN := pow2(N)
	t := new(big.Int).Lsh(num, N)
	rlo, rem := new(big.Int).QuoRem(t, den, new(big.Int))
	rhi := new(big.Int).Set(rlo)
	if rem.Sign() != 0 {
		rhi.Add(rhi, one)
	}
	ch = &chain{}
	for i := uint(0); i <= m; i++ {
		ch.lo = append(ch.lo, rlo)
		ch.hi = append(ch.hi, rhi)
		// next square root, directed: floor for the lower end, ceiling for the upper end
		rlo = new(big.Int).Sqrt(new(big.Int).Lsh(rlo, N))
		sq := new(big.Int).Lsh(rhi, N)
		r := new(big.Int).Sqrt(sq)
		if new(big.Int).Mul(r, r).Cmp(sq) != 0 {
			r.Add(r, one)
		}
		if r.Cmp(oneN) > 0 {
			r.Set(oneN)
		}
		rhi = r
	}
	chainMu.Lock()
	if len(chainCache) > 64 {
		chainCache = map[string]*chain{}
	}
	chainCache[key] = ch
	chainMu.Unlock()
	return ch
}

// powUnit encloses (num/den)^(P/Q) * 2^N for 1/2 <= num/den <= 1 and 0 <= P <= Q: P/Q is bracketed by
// jlo/2^m <= P/Q <= jhi/2^m and the product of the selected roots is rounded down / up.
func powUnit(num, den, P, Q *big.Int, N, m uint) (lo, hi *big.Int) {
	oneN := pow2(N)
	t := new(big.Int).Lsh(P, m)
	jlo, rem := new(big.Int).QuoRem(t, Q, new(big.Int))
	jhi := new(big.Int).Set(jlo)
	if rem.Sign() != 0 {
		jhi.Add(jhi, one)
	}
	if jhi.Sign() == 0 {
		return oneN, new(big.Int).Set(oneN)
	}
	ch := rootChain(num, den, N, m)
	accLo, accHi := new(big.Int).Set(oneN), new(big.Int).Set(oneN)
	for i := uint(0); i <= m; i++ {
		bit := int(m - i)
		if jlo.Bit(bit) == 1 { // smaller exponent -> upper bound (base <= 1)
			accHi = ceilDiv2N(accHi.Mul(accHi, ch.hi[i]), N)
		}
		if jhi.Bit(bit) == 1 {
			accLo.Mul(accLo, ch.lo[i])
			accLo.Rsh(accLo, N)
		}
	}
	return accLo, accHi
}

// intervalFloor returns (T, true) when floor(2^k (1-(c/d)^(P/Q))) is certified, for 0<c<d, 0<P<=Q.
func intervalFloor(c, d, P, Q *big.Int, k uint, maxRounds int) (*big.Int, bool, uint) {
	// 1-f = y 2^-e with y = c 2^e / d in [1/2, 1)
	e := uint(d.BitLen() - c.BitLen())
	if new(big.Int).Lsh(c, e).Cmp(d) >= 0 {
		e--
	}
	ynum := new(big.Int).Lsh(c, e)
	// 2^(-e P/Q) = 2^-w (1/2)^(r/Q)
	eP := new(big.Int).Mul(new(big.Int).SetUint64(uint64(e)), P)
	w, r := new(big.Int).QuoRem(eP, Q, new(big.Int))
	N := k + 192
	for round := 0; round < maxRounds; round++ {
		m := N + 16
		loY, hiY := powUnit(ynum, d, P, Q, N, m)
		loH, hiH := powUnit(one, big.NewInt(2), r, Q, N, m)
		lo := new(big.Int).Rsh(new(big.Int).Mul(loY, loH), N)
		hi := ceilDiv2N(new(big.Int).Mul(hiY, hiH), N)
		if w.IsUint64() && w.Uint64() < uint64(2*N) {
			lo.Rsh(lo, uint(w.Uint64()))
			hi = ceilDiv2N(hi, uint(w.Uint64()))
		} else {
			lo.SetInt64(0)
			hi.SetInt64(1)
		}
		oneN := pow2(N)
		if hi.Cmp(oneN) > 0 {
			hi.Set(oneN)
		}
		tLo := new(big.Int).Rsh(new(big.Int).Sub(oneN, hi), N-k)
		tHi := new(big.Int).Rsh(new(big.Int).Sub(oneN, lo), N-k)
		// (c/d)^sigma > 0 strictly, hence T <= 2^k - 1
		if max := new(big.Int).Sub(pow2(k), one); tHi.Cmp(max) > 0 {
			tHi = max
		}
		if tLo.Cmp(tHi) == 0 {
			return tLo, true, N
		}
		N *= 2
	}
	return nil, false, N
}

// ---------- one threshold case ----------

type tcase struct {
	Mode  int    `json:"mode"`
	Pool  uint64 `json:"pool_stake"`
	Total uint64 `json:"total_stake"`
	FNum  string `json:"f_num"`
	FDen  string `json:"f_den"`
	Class string `json:"class"`
}

type result struct {
	T      *big.Int // nil when the call errored / no oracle
	oracle string
}

type harness struct {
	c *vlib.Check
}

func fDenClass(f *big.Rat) string {
	switch b := f.Denom().BitLen(); {
	case b <= 64:
		return "f-denominator<=64bit"
	case b <= 4096:
		return "f-denominator<=4096bit"
	default:
		return "f-denominator>4096bit"
	}
}

// isPerfectPower reports whether n = r^q for an integer r (own binary search; used only to label a violation).
func isPerfectPower(n *big.Int, q uint64) bool {
	if n.Sign() == 0 || n.Cmp(one) == 0 || q == 1 {
		return true
	}
	lo, hi := big.NewInt(1), pow2(uint(n.BitLen())/uint(q)+1)
	qb := new(big.Int).SetUint64(q)
	for lo.Cmp(hi) <= 0 {
		mid := new(big.Int).Rsh(new(big.Int).Add(lo, hi), 1)
		switch new(big.Int).Exp(mid, qb, nil).Cmp(n) {
		case 0:
			return true
		case -1:
			lo = mid.Add(mid, one)
		default:
			hi = mid.Sub(mid, one)
		}
	}
	return false
}

// eval runs the real function on one input and judges it. It returns the threshold for
// the monotonicity bookkeeping (nil if none).
func (h *harness) eval(mode consensus.ConsensusMode, pool, total uint64, f *big.Rat, class string) result {
	c := h.c
	fn := "CertifiedNatThresholdWithMode"
	mn := modeName(mode)
	rp := tcase{int(mode), pool, total, f.Num().String(), f.Denom().String(), class}
	T, err := consensus.CertifiedNatThresholdWithMode(pool, total, new(big.Rat).Set(f), mode)
	known := mode == consensus.ConsensusModeCPraos || mode == consensus.ConsensusModeTPraos
	k := modeBits(mode)
	desc := func() string {
		fs := f.RatString()
		if len(fs) > 60 {
			fs = fmt.Sprintf("%s…(%d-bit num / %d-bit den)", fs[:24], f.Num().BitLen(), f.Denom().BitLen())
		}
		ts := "<nil>"
		if T != nil {
			ts = T.String()
			if len(ts) > 40 {
				ts = fmt.Sprintf("0x%x", T)
			}
		}
		es := fmt.Sprintf("%v", err)
		if len(es) > 160 {
			es = es[:160] + "…"
		}
		return fmt.Sprintf("%s pool=%d total=%d f=%s -> T=%s err=%s", mn, pool, total, fs, ts, es)
	}
	// --- inputs outside the domain: an error is required
	if !known || f.Sign() < 0 || f.Cmp(big.NewRat(1, 1)) > 0 {
		what := "unknown-mode"
		if known {
			what = "f>1"
			if f.Sign() < 0 {
				what = "f<0"
			}
		}
		if err != nil {
			c.Eval(class, "error:"+what)
			return result{}
		}
		c.Eval(class, "no-error:"+what)
		c.Violation(fn+"|"+what+"|no-error", desc()+" (an error is required outside the domain)", rp)
		return result{}
	}
	if total == 0 {
		// sigma is undefined; the property says nothing. Recorded only.
		c.Eval("", "total-stake-0:unjudged")
		return result{}
	}
	if pool == 0 && f.Cmp(big.NewRat(1, 1)) == 0 {
		c.Eval("", "0^0:unjudged")
		return result{}
	}
	if err != nil {
		c.Eval(class, "error-on-valid-input")
		c.Violation(fn+"|error-on-valid-input|"+fDenClass(f), desc(), rp)
		return result{}
	}
	if T == nil {
		c.Eval(class, "nil-threshold")
		c.Violation(fn+"|nil-threshold-without-error|"+mn, desc(), rp)
		return result{}
	}
	// --- closed-form corners
	P, Q := pool, total
	if P > Q {
		P = Q
	}
	var want *big.Int
	switch {
	case f.Sign() == 0 || P == 0:
		want = zero
	case f.Cmp(big.NewRat(1, 1)) == 0:
		want = pow2(k)
	case P == Q: // sigma = 1 (also the cap): floor(2^k a / b)
		want = new(big.Int).Quo(new(big.Int).Mul(pow2(k), f.Num()), f.Denom())
	}
	if want != nil {
		if T.Cmp(want) != 0 {
			kind := "closed-form"
			switch {
			case pool > total:
				kind = "sigma>1-not-capped"
			case f.Sign() == 0:
				kind = "f=0"
			case P == 0:
				kind = "pool=0"
			case f.Cmp(big.NewRat(1, 1)) == 0:
				kind = "f=1"
			case P == Q:
				kind = "sigma=1"
			}
			c.Eval(class, "wrong")
			key := fn + "|not-floor|" + mn + "|" + kind
			if f.Cmp(big.NewRat(1, 1)) < 0 && T.Cmp(pow2(k)) >= 0 {
				key = fn + "|not-floor|T>=2^k-although-f<1"
			}
			c.Violation(key, desc()+fmt.Sprintf(" want %s", want), rp)
			return result{T, "wrong"}
		}
		c.Eval(class, "floor-confirmed:closed-form")
		return result{T, "closed"}
	}
	// --- 0 < f < 1, 0 < sigma < 1
	cN := new(big.Int).Sub(f.Denom(), f.Num())
	dN := f.Denom()
	g := new(big.Int).GCD(nil, nil, new(big.Int).SetUint64(P), new(big.Int).SetUint64(Q)).Uint64()
	p, q := P/g, Q/g
	if q <= 2048 && uint64(dN.BitLen())*p <= 4<<20 {
		verdict := certificate(T, cN, dN, p, q, k)
		if verdict == "" {
			c.Eval(class, "floor-confirmed:exact-certificate")
			if q <= 6 && total <= 6 {
				// self-check of the harness: oracle 2 must agree with oracle 1 wherever both apply
				ref, ok, _ := intervalFloor(cN, dN, new(big.Int).SetUint64(p), new(big.Int).SetUint64(q), k, 2)
				switch {
				case !ok:
					c.Add("selfcheck_interval_undecided_where_certificate_decides", 1)
				case ref.Cmp(T) == 0:
					c.Add("selfcheck_interval_agrees_with_certificate", 1)
				default:
					c.Internal("oracle 2 (interval) = %s but oracle 1 (certificate) confirms %s for %s", ref, T, desc())
				}
			}
			return result{T, "exact"}
		}
		kind := "generic"
		if isPerfectPower(cN, q) && isPerfectPower(dN, q) {
			kind = "exact-rational-cutoff"
		}
		c.Eval(class, "wrong")
		key := fn + "|not-floor|" + mn + "|" + verdict + "|" + kind
		if verdict == "T>=2^k" {
			// one root cause for both modes and both oracles: probability 1 although f < 1
			key = fn + "|not-floor|T>=2^k-although-f<1"
		}
		c.Violation(key, desc()+fmt.Sprintf(" (sigma=%d/%d; exact certificate)", p, q), rp)
		return result{T, "wrong"}
	}
	ref, ok, bits := intervalFloor(cN, dN, new(big.Int).SetUint64(p), new(big.Int).SetUint64(q), k, 4)
	if !ok {
		c.Eval(class, "undecided-by-interval-reference")
		c.Add("interval_undecided", 1)
		c.Note("interval reference undecided (no verdict): " + desc())
		return result{T, "undecided"}
	}
	if bits > k+192 {
		c.Add("interval_needed_escalation", 1)
	}
	if ref.Cmp(T) != 0 {
		verdict := "T-too-small"
		if T.Cmp(ref) > 0 {
			verdict = "T-too-large"
		}
		c.Eval(class, "wrong")
		key := fn + "|not-floor|" + mn + "|" + verdict + "|huge-sigma-denominator"
		if T.Cmp(pow2(k)) >= 0 {
			key = fn + "|not-floor|T>=2^k-although-f<1"
		}
		c.Violation(key, desc()+fmt.Sprintf(" want %s (interval reference, %d fractional bits)", ref, bits), rp)
		return result{T, "wrong"}
	}
	c.Eval(class, "floor-confirmed:interval")
	return result{T, "interval"}
}

// ---------- eligibility ----------

func be(v *big.Int, n int) []byte {
	if v.BitLen() > 8*n {
		return v.Bytes()
	}
	return v.FillBytes(make([]byte, n))
}

// compOK limits the (expensive, threshold-recomputing) components call to the first Praos output.
func compOK(o []byte, outs [][]byte) bool {
	return len(outs) >= 1 && &o[0] == &outs[0][0]
}

func (h *harness) eligibility(mode consensus.ConsensusMode, pool, total uint64, f *big.Rat, T *big.Int, class string, withComponents bool, praosOutputs [][]byte, praosValues []*big.Int) {
	c := h.c
	mn := modeName(mode)
	rp := func(o []byte) any {
		return map[string]any{"mode": int(mode), "pool_stake": pool, "total_stake": total, "f_num": f.Num().String(), "f_den": f.Denom().String(), "vrf_output": hex.EncodeToString(o), "threshold": T.String()}
	}
	judge := func(o []byte, v *big.Int, where string) {
		want := v.Cmp(T) < 0
		got, err := consensus.IsVRFOutputBelowThresholdWithMode(o, new(big.Int).Set(T), mode)
		c.Eval(class+":elig:"+where, map[bool]string{true: "eligible", false: "not-eligible"}[got])
		if err != nil || got != want {
			c.Violation("IsVRFOutputBelowThresholdWithMode|"+mn+"|"+where, fmt.Sprintf("leader value %s threshold (pool=%d total=%d f=%s): got %v (%v) want %v", where, pool, total, f.RatString(), got, err, want), rp(o))
		}
		if withComponents && len(o) == 64 && (mode == consensus.ConsensusModeTPraos || compOK(o, praosOutputs)) {
			got, err := consensus.IsSlotLeaderFromComponentsWithMode(o, pool, total, new(big.Rat).Set(f), mode)
			c.Eval(class+":comp:"+where, map[bool]string{true: "eligible", false: "not-eligible"}[got])
			if err != nil || got != want {
				c.Violation("IsSlotLeaderFromComponentsWithMode|"+mn+"|"+where, fmt.Sprintf("leader value %s threshold (pool=%d total=%d f=%s): got %v (%v) want %v", where, pool, total, f.RatString(), got, err, want), rp(o))
			}
		}
	}
	if mode == consensus.ConsensusModeTPraos {
		// the raw 64-byte output is the leader value
		if T.Sign() > 0 {
			v := new(big.Int).Sub(T, one)
			judge(be(v, 64), v, "T-1")
		}
		judge(be(T, 64), T, "T")
		v := new(big.Int).Add(T, one)
		judge(be(v, 64), v, "T+1")
		return
	}
	// Praos: leader value = blake2b-256("L" || output); preimages of T-1, T, T+1 are not available,
	// fixed outputs are classified by an own computation of the leader value
	for i, o := range praosOutputs {
		where := "above"
		if praosValues[i].Cmp(T) < 0 {
			where = "below"
		}
		judge(o, praosValues[i], where)
	}
}

// ---------- enumeration ----------

type fval struct {
	r    *big.Rat
	name string
	grid bool // part of the dense a/b grid (all sigma) or a special value
	adv  bool // near-exact cutoff: only a few sigma
	slow bool // needs many precision escalations in the code under test
}

func ratPow2(j uint) *big.Rat { return new(big.Rat).SetFrac(one, pow2(j)) }

type stakes struct {
	pool, total uint64
	tag         string
}

type rec struct {
	sigma *big.Rat
	f     *big.Rat
	T     *big.Int
	in    tcase
}

func derive(tag string, seed int64, i, n int) []byte {
	var out []byte
	for ctr := 0; len(out) < n; ctr++ {
		s := blake2b.Sum256([]byte(fmt.Sprintf("verif-C37|%s|%d|%d|%d", tag, seed, i, ctr)))
		out = append(out, s[:]...)
	}
	return out[:n]
}

func main() {
	debug.SetGCPercent(400)
	c := vlib.New("C37", "exploration")
	h := &harness{c}
	if c.Replay != "" {
		b, err := os.ReadFile(c.Replay)
		if err != nil {
			c.Internal("replay: %v", err)
		}
		var f struct {
			Replay tcase `json:"replay"`
		}
		if err := json.Unmarshal(b, &f); err != nil || f.Replay.FDen == "" {
			c.Internal("replay file does not hold a threshold case")
		}
		n, _ := new(big.Int).SetString(f.Replay.FNum, 10)
		d, _ := new(big.Int).SetString(f.Replay.FDen, 10)
		h.eval(consensus.ConsensusMode(f.Replay.Mode), f.Replay.Pool, f.Replay.Total, new(big.Rat).SetFrac(n, d), "replay")
		c.Finish()
	}
	Qmax, Bmax, famQ := uint64(12), int64(10), uint64(8)
	if c.Thorough() {
		Qmax, Bmax, famQ = 24, 20, 12
	}
	modes := []consensus.ConsensusMode{consensus.ConsensusModeCPraos, consensus.ConsensusModeTPraos}

	// ----- f values
	var fs []fval
	for b := int64(2); b <= Bmax; b++ {
		for a := int64(1); a < b; a++ {
			if new(big.Int).GCD(nil, nil, big.NewInt(a), big.NewInt(b)).Int64() != 1 {
				continue // same rational as an earlier a/b
			}
			fs = append(fs, fval{big.NewRat(a, b), fmt.Sprintf("%d/%d", a, b), true, false, false})
		}
	}
	if Bmax < 20 {
		fs = append(fs, fval{big.NewRat(1, 20), "1/20", true, false, false}, fval{big.NewRat(19, 20), "19/20", true, false, false})
	}
	js := []uint{8, 64, 256, 500, 512, 600, 2000}
	if c.Thorough() {
		js = []uint{2, 3, 8, 16, 32, 64, 128, 255, 256, 257, 300, 400, 500, 511, 512, 513, 600, 1000, 2000, 5000}
	}
	for _, j := range js {
		fs = append(fs, fval{ratPow2(j), fmt.Sprintf("2^-%d", j), false, false, false})
		fs = append(fs, fval{new(big.Rat).Sub(big.NewRat(1, 1), ratPow2(j)), fmt.Sprintf("1-2^-%d", j), false, false, false})
	}
	for _, j := range []uint{600, 3000, 20000} {
		bases := []*big.Rat{big.NewRat(3, 4), big.NewRat(7, 8), big.NewRat(5, 9)}
		for bi, base := range bases {
			if !c.Thorough() && (bi > 0 || j == 3000) {
				continue // quick: only 3/4 +- 2^-600 and 3/4 +- 2^-20000 (each call takes seconds in the code under test)
			}
			fs = append(fs, fval{new(big.Rat).Add(base, ratPow2(j)), fmt.Sprintf("%s+2^-%d", base.RatString(), j), false, true, j > 600})
			fs = append(fs, fval{new(big.Rat).Sub(base, ratPow2(j)), fmt.Sprintf("%s-2^-%d", base.RatString(), j), false, true, j > 600})
		}
	}
	// ----- stakes of the grid: every p/q, raw and scaled towards 2^64 (same sigma, larger numbers)
	var grid []stakes
	for q := uint64(1); q <= Qmax; q++ {
		for p := uint64(1); p <= q; p++ {
			grid = append(grid, stakes{p, q, "raw"})
			m := uint64(math.MaxUint64) / q
			grid = append(grid, stakes{p * m, q * m, "scaled-2^64"})
			if c.Thorough() {
				m2 := uint64(45_000_000_000_000_000) / q
				grid = append(grid, stakes{p * m2, q * m2, "scaled-45e15"})
			}
		}
	}
	advSigma := []stakes{{1, 2, "raw"}, {1, 3, "raw"}, {2, 3, "raw"}, {1, 1, "raw"}}
	if c.Thorough() {
		advSigma = append(advSigma, stakes{1, 4, "raw"}, stakes{3, 4, "raw"}, stakes{6148914691236517205, 18446744073709551615, "scaled-2^64"})
	}
	// ----- coprime / realistic stakes with a huge reduced denominator (oracle 2)
	var huge []stakes
	totals := []uint64{math.MaxUint64, math.MaxUint64 - 58 /* 2^64-59, prime */, 1<<63 + 1, 45_000_000_000_000_000, 31_112_484_745_000_000, 22_000_000_000_000_001}
	for _, t := range totals {
		pools := []uint64{1, 2, 3, 1_000_000, 70_000_000_000_001, t / 1000, t/3 + 1, t/2 - 1, t/2 + 1, t - t/3, t - 2, t - 1}
		if c.Thorough() {
			for q := uint64(2); q <= 7; q++ {
				for p := uint64(1); p < q; p++ {
					x := new(big.Int).Mul(new(big.Int).SetUint64(t), new(big.Int).SetUint64(p))
					x.Quo(x, new(big.Int).SetUint64(q))
					pools = append(pools, x.Uint64()-1, x.Uint64()+1) // grid neighbours
				}
			}
		}
		for _, p := range pools {
			if p >= 1 && p < t {
				huge = append(huge, stakes{p, t, "huge-denominator"})
			}
		}
	}
	hugeF := map[string]bool{"1/20": true, "1/2": true, "1/10": true, "19/20": true, "3/4": true, "1/3": true, "2^-64": true, "1-2^-64": true, "2^-600": true, "1-2^-600": true, "1-2^-2000": true, "2^-500": true}

	// Praos eligibility outputs
	var praosOutputs [][]byte
	var praosValues []*big.Int
	for i := 0; i < 8; i++ {
		o := derive("vrf-output", c.Seed, i, 64)
		hsh, _ := blake2b.New256(nil)
		hsh.Write([]byte{'L'})
		hsh.Write(o)
		praosOutputs = append(praosOutputs, o)
		praosValues = append(praosValues, new(big.Int).SetBytes(hsh.Sum(nil)))
	}

	// ----- run: one job per (mode, f)
	type job struct {
		mode consensus.ConsensusMode
		fi   int
		adv  int // index into advSigma for the near-exact-cutoff values (one call per job: they are slow)
	}
	var jobs []job
	for _, m := range modes { // slow single calls first
		for fi := range fs {
			if fs[fi].adv {
				for ai := range advSigma {
					if !c.Thorough() && fs[fi].slow && (advSigma[ai].total != 2 || m != consensus.ConsensusModeCPraos) {
						continue // quick: the very slow values only at sigma = 1/2 in Praos mode
					}
					jobs = append(jobs, job{m, fi, ai})
				}
			}
		}
	}
	for _, m := range modes {
		for fi := range fs {
			if !fs[fi].adv {
				jobs = append(jobs, job{m, fi, -1})
			}
		}
	}
	var mu sync.Mutex
	recs := map[consensus.ConsensusMode][]rec{}
	vlib.Parallel(len(jobs), func(i int) {
		j := jobs[i]
		fv := fs[j.fi]
		var local []rec
		run := func(s stakes, elig bool) {
			class := fmt.Sprintf("%s|f=%s|sigma=%d/%d|%s", modeName(j.mode), fv.name, s.pool, s.total, s.tag)
			r := h.eval(j.mode, s.pool, s.total, fv.r, class)
			if r.T == nil || r.oracle == "wrong" {
				// nothing to compare, or already reported under its own key (kept out of the
				// monotonicity lists so that one root cause is reported once)
				return
			}
			P := s.pool
			if P > s.total {
				P = s.total
			}
			local = append(local, rec{new(big.Rat).SetFrac(new(big.Int).SetUint64(P), new(big.Int).SetUint64(s.total)), fv.r, r.T,
				tcase{int(j.mode), s.pool, s.total, fv.r.Num().String(), fv.r.Denom().String(), class}})
			if elig {
				h.eligibility(j.mode, s.pool, s.total, fv.r, r.T, modeName(j.mode)+"|f="+fv.name+fmt.Sprintf("|sigma=%d/%d", s.pool, s.total), s.tag == "raw" && s.total <= 4, praosOutputs, praosValues)
			}
		}
		switch {
		case fv.adv:
			run(advSigma[j.adv], false)
			mu.Lock()
			recs[j.mode] = append(recs[j.mode], local...)
			mu.Unlock()
			return
		default:
			for _, s := range grid {
				if !fv.grid && (s.tag != "raw" || s.total > famQ) {
					continue // the 2^-j families (slow in the code under test) only on the raw grid up to q = famQ
				}
				run(s, s.tag == "raw")
			}
			if hugeF[fv.name] {
				for _, s := range huge {
					run(s, false)
				}
			}
		}
		// sigma > 1 is capped, pool = 0
		for _, t := range []uint64{1, 7, 24, 1_000_000_000_000_000} {
			for _, p := range []uint64{t + 1, 2 * t, math.MaxUint64} {
				run(stakes{p, t, "sigma>1"}, false)
			}
			run(stakes{0, t, "pool=0"}, false)
		}
		run(stakes{3, 0, "total=0"}, false)
		mu.Lock()
		recs[j.mode] = append(recs[j.mode], local...)
		mu.Unlock()
	})

	// ----- corners: f = 0, f = 1, out-of-range f, unknown mode
	cornerStakes := []stakes{{1, 2, "raw"}, {1, 1, "raw"}, {5, 3, "sigma>1"}, {0, 5, "pool=0"}, {math.MaxUint64 - 1, math.MaxUint64, "huge-denominator"}, {500_000_000, 1_000_000_000, "raw"}}
	bigNum, _ := new(big.Int).SetString("1000000000000000000000000000000", 10)
	outOfRange := []fval{
		{big.NewRat(-1, 20), "-1/20", false, false, false}, {big.NewRat(-1, 1), "-1", false, false, false},
		{new(big.Rat).Neg(ratPow2(600)), "-2^-600", false, false, false}, {new(big.Rat).SetFrac(new(big.Int).Neg(bigNum), one), "-10^30", false, false, false},
		{big.NewRat(21, 20), "21/20", false, false, false}, {big.NewRat(2, 1), "2", false, false, false},
		{new(big.Rat).Add(big.NewRat(1, 1), ratPow2(600)), "1+2^-600", false, false, false}, {new(big.Rat).SetFrac(bigNum, one), "10^30", false, false, false},
	}
	for _, m := range modes {
		for _, s := range cornerStakes {
			for _, fv := range []fval{{big.NewRat(0, 1), "0", false, false, false}, {big.NewRat(1, 1), "1", false, false, false}} {
				class := fmt.Sprintf("%s|f=%s|sigma=%d/%d|%s", modeName(m), fv.name, s.pool, s.total, s.tag)
				r := h.eval(m, s.pool, s.total, fv.r, class)
				if r.T != nil && r.oracle != "wrong" {
					P := s.pool
					if P > s.total {
						P = s.total
					}
					recs[m] = append(recs[m], rec{new(big.Rat).SetFrac(new(big.Int).SetUint64(P), new(big.Int).SetUint64(s.total)), fv.r, r.T, tcase{int(m), s.pool, s.total, fv.r.Num().String(), fv.r.Denom().String(), class}})
					if m == consensus.ConsensusModeTPraos && s.pool > 0 {
						h.eligibility(m, s.pool, s.total, fv.r, r.T, modeName(m)+"|f="+fv.name+fmt.Sprintf("|sigma=%d/%d", s.pool, s.total), true, nil, nil)
					}
				}
			}
			for _, fv := range outOfRange {
				h.eval(m, s.pool, s.total, fv.r, fmt.Sprintf("%s|f=%s|sigma=%d/%d|out-of-range", modeName(m), fv.name, s.pool, s.total))
			}
		}
	}
	for _, m := range []consensus.ConsensusMode{2, 3, -1, 255} {
		h.eval(m, 1, 2, big.NewRat(1, 20), fmt.Sprintf("unknown-mode=%d", int(m)))
	}
	// Praos comparison exactly at a leader value: thresholds v-1, v, v+1
	for i, o := range praosOutputs {
		v := praosValues[i]
		for d := int64(-1); d <= 1; d++ {
			thr := new(big.Int).Add(v, big.NewInt(d))
			want := v.Cmp(thr) < 0
			got, err := consensus.IsVRFOutputBelowThresholdWithMode(o, thr, consensus.ConsensusModeCPraos)
			c.Eval(fmt.Sprintf("praos-leader-value|output=%d|threshold=v%+d", i, d), map[bool]string{true: "eligible", false: "not-eligible"}[got])
			if err != nil || got != want {
				c.Violation("IsVRFOutputBelowThresholdWithMode|praos|threshold-at-leader-value", fmt.Sprintf("output %d threshold v%+d: got %v (%v) want %v", i, d, got, err, want), map[string]any{"vrf_output": hex.EncodeToString(o), "threshold": thr.String()})
			}
		}
	}

	// ----- monotonicity over everything evaluated
	for _, m := range modes {
		rs := recs[m]
		// in sigma, f fixed
		byF := map[string][]rec{}
		for _, r := range rs {
			byF[r.f.RatString()] = append(byF[r.f.RatString()], r)
		}
		var pairs int64
		for _, l := range byF {
			sort.SliceStable(l, func(a, b int) bool { return l[a].sigma.Cmp(l[b].sigma) < 0 })
			for i := 1; i < len(l); i++ {
				pairs++
				cmp := l[i-1].sigma.Cmp(l[i].sigma)
				if (cmp < 0 && l[i-1].T.Cmp(l[i].T) > 0) || (cmp == 0 && l[i-1].T.Cmp(l[i].T) != 0) {
					key := "CertifiedNatThresholdWithMode|not-monotone-in-sigma|" + modeName(m)
					if cmp == 0 {
						key = "CertifiedNatThresholdWithMode|same-sigma-different-threshold|" + modeName(m)
					}
					c.Violation(key, fmt.Sprintf("f=%s: sigma %s -> %s but sigma %s -> %s", l[i].f.RatString(), l[i-1].sigma.RatString(), l[i-1].T, l[i].sigma.RatString(), l[i].T), []tcase{l[i-1].in, l[i].in})
				}
			}
		}
		c.Add("monotone_sigma_neighbour_pairs", pairs)
		// in f, sigma fixed
		byS := map[string][]rec{}
		for _, r := range rs {
			byS[r.sigma.RatString()] = append(byS[r.sigma.RatString()], r)
		}
		pairs = 0
		for _, l := range byS {
			sort.SliceStable(l, func(a, b int) bool { return l[a].f.Cmp(l[b].f) < 0 })
			for i := 1; i < len(l); i++ {
				pairs++
				if l[i-1].T.Cmp(l[i].T) > 0 {
					c.Violation("CertifiedNatThresholdWithMode|not-monotone-in-f|"+modeName(m), fmt.Sprintf("sigma=%s: f %s -> %s but f %s -> %s", l[i].sigma.RatString(), l[i-1].f.RatString(), l[i-1].T, l[i].f.RatString(), l[i].T), []tcase{l[i-1].in, l[i].in})
				}
			}
		}
		c.Add("monotone_f_neighbour_pairs", pairs)
	}

	// a few written-out cases
	for _, m := range modes {
		for _, s := range []stakes{{1, 3, "raw"}, {70_000_000_000_001, 31_112_484_745_000_000, "huge-denominator"}} {
			T, err := consensus.CertifiedNatThresholdWithMode(s.pool, s.total, big.NewRat(1, 20), m)
			c.Sample(map[string]any{"mode": modeName(m), "pool": s.pool, "total": s.total, "f": "1/20", "threshold": fmt.Sprintf("%v", T), "err": fmt.Sprintf("%v", err)})
		}
	}
	c.Set("rule", "every sigma=p/q (1<=p<=q<=Q, incl. unreduced pairs) as raw stakes and scaled to totals near 2^64 (thorough: and 45e15) x every reduced f=a/b (b<=B) x families 2^-j, 1-2^-j x both modes; near-exact cutoffs 3/4,7/8,5/9 +- 2^-{600,3000,20000} at sigma in {1/2,1/3,2/3,1/4,3/4,1,(2^64-1)/3 : 2^64-1}; coprime and realistic stakes with 64-bit reduced denominators for 12 f values; sigma>1, pool=0, f=0, f=1, f<0, f>1, unknown modes. distinct = (mode, f, stake pair). Oracle: exact integer certificate when the reduced sigma denominator <= 64, integer interval arithmetic with directed rounding otherwise (undecided is counted, never reported); closed forms for the corners; monotonicity over all evaluated points; eligibility at T-1, T, T+1 (TPraos raw value; Praos through an own blake2b leader value)")
	c.Set("Q_max", Qmax)
	c.Set("B_max", Bmax)
	c.Set("f_values", len(fs))
	c.Set("grid_stake_pairs", len(grid))
	c.Set("huge_denominator_stake_pairs", len(huge))
	c.Assume("math/big integer arithmetic and blake2b are trusted; total stake 0 and (pool 0, f = 1) have no defined value in the property and are not judged")
	// free-running -race pass: concurrent callers on their own inputs (state the library shares between calls)
	c.RaceAudit("c37")
	c.Finish()
}
