#!/bin/bash
here="$(cd "$(dirname "$0")/../.." && pwd)"
exec "$here/bin/e1check" C42 pipe TestC42 "./pipeline" -- "$@"
