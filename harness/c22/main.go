// C22: chain-sync wrapping preserves block and header identity.
//
// Space (bounded, exhaustive): every real block fixture of every era (Byron EBB + main,
// Shelley .. Dijkstra) plus one generated Dijkstra block carrying real Dijkstra
// transactions, each in its original encoding and in every single-header re-encoding
// (every alternative CBOR header form, as space.EnumD1) of its outer items down to a depth
// bound (quick: depth <= 2 = block array, header array, header body/signature, each body
// segment; thorough: depth <= 4, plus every pair of re-encodings among the depth <= 1
// headers), x three tips (origin, a real point, a maximal point).
//
// Path under test, exactly the calls the server and the client make:
//
//	NtC: server  NewMsgRollForwardNtC(type, block, tip) -> cbor.Encode(msg) (what SendMessage does)
//	     client  NewMsgFromCbor(NtC, RollForward, wire) -> msg.BlockType(), msg.BlockCbor()
//	             -> ledger.NewBlockFromCbor(type, bytes, cfg) as handleRollForward does
//	NtN: server  era := BlockToBlockHeaderTypeMap[type]; NewMsgRollForwardNtN(era, 0, block, tip) -> cbor.Encode
//	     client  NewMsgFromCbor(NtN, RollForward, wire) -> WrappedHeader.Era, .HeaderCbor()
//	             -> BlockHeaderToBlockTypeMap[era] -> ledger.NewBlockHeaderFromCbor(type, headerCbor)
//
// Oracle (independent of the wrappers):
//
//	NtC  the type that arrives equals the type served; the bytes that arrive equal the bytes
//	     served; when the served bytes decode as a block directly, the arrived bytes decode
//	     as the arrived type to a block of the same Type() whose Cbor() is the served bytes
//	     and whose hash is H(header bytes) as located by my own CBOR reader.
//	NtN  (Shelley or later, as the property says) the era that arrives maps back to the
//	     served block type; the header bytes that arrive are exactly the header item my own
//	     reader locates in the served block; the decoded header's Hash() equals the block's
//	     hash = blake2b-256 of those header bytes (own call), and equals the Hash() of the
//	     directly decoded block when that decodes.
//
// A variant the repository's block decoder rejects outright is still pushed through the
// wrappers (byte/type identity does not need a decodable block) but the "decodes to the
// same block" clauses are then not applicable. Byron over NtN is outside the property
// (recorded as an observation only).
//
// Result on the unchanged tree: no violation (quick 6 364 evaluations, thorough 57 550).
// Observed outside the property: Byron EBB/main over NtN also keep header bytes and hash.
//
// Detection (scratch copy /tmp/c22agent-repo, VERIF_REPO_OVERRIDE, quick tier, deleted afterwards), each alone:
//  1. ledger/era.go  BlockTypeDijkstra: BlockHeaderTypeConway (copy-paste when adding the era)
//       -> NtN|era-does-not-map-back|dijkstra|original
//  2. chainsync/wrappers.go NewWrappedHeader "normalises" the header (decode into any + re-encode)
//       -> NtN|header-bytes-changed|<era>|reenc|header|{arr,bstr}->{non-minimal,indef} for all seven
//          eras (28 keys); the original encodings survive, so only the re-encoded variants catch it.
package main

import (
	"bytes"
	"encoding/hex"
	"encoding/json"
	"fmt"
	"os"
	"sync"

	"golang.org/x/crypto/blake2b"

	"github.com/blinklabs-io/gouroboros/cbor"
	"github.com/blinklabs-io/gouroboros/ledger"
	lcommon "github.com/blinklabs-io/gouroboros/ledger/common"
	"github.com/blinklabs-io/gouroboros/protocol"
	"github.com/blinklabs-io/gouroboros/protocol/chainsync"
	pcommon "github.com/blinklabs-io/gouroboros/protocol/common"
	"verif/space"
	"verif/vlib"
)

var c *vlib.Check

func h256(b []byte) []byte { x := blake2b.Sum256(b); return x[:] }

func eraName(t uint) string {
	n := []string{"byron-ebb", "byron-main", "shelley", "allegra", "mary", "alonzo", "babbage", "conway", "dijkstra"}
	if int(t) < len(n) {
		return n[t]
	}
	return fmt.Sprintf("type%d", t)
}

// genDijkstra: the real Dijkstra header with body hash := H(new block_body), body carrying
// two copies of the real Dijkstra transaction fixture.
func genDijkstra(real space.Fixture) (space.Fixture, bool) {
	txb, err := space.ReadHexFixture("ledger/dijkstra/testdata/cardano_ledger_dijkstra_w30_tx.hex")
	if err != nil {
		return space.Fixture{}, false
	}
	tx, err := space.Parse(txb)
	if err != nil {
		return space.Fixture{}, false
	}
	root, err := space.Parse(real.Cbor)
	if err != nil || len(root.Items) != 2 {
		return space.Fixture{}, false
	}
	body := space.A(space.Null(), space.A(tx, tx.Clone()), space.Null(), space.Null())
	bodyBytes := body.Encode()
	hb := root.Items[0].Items[0]
	if len(hb.Items) < 10 || hb.Items[7].Major != 2 {
		return space.Fixture{}, false
	}
	hb.Items[7] = space.B(h256(bodyBytes))
	hb.Items[6] = space.U(uint64(len(bodyBytes)))
	out := append([]byte{0x82}, root.Items[0].Encode()...)
	out = append(out, bodyBytes...)
	return space.Fixture{Name: "dijkstra-generated", Type: 8, Cbor: out}, true
}

type tipCase struct {
	name string
	tip  chainsync.Tip
}

func tips() []tipCase {
	hash := make([]byte, 32)
	for i := range hash {
		hash[i] = byte(int64(i)*13 + c.Seed)
	}
	ff := bytes.Repeat([]byte{0xff}, 32)
	return []tipCase{
		{"origin", chainsync.Tip{Point: pcommon.NewPointOrigin(), BlockNumber: 0}},
		{"real", chainsync.Tip{Point: pcommon.NewPoint(72316896, hash), BlockNumber: 7791698}},
		{"max", chainsync.Tip{Point: pcommon.NewPoint(1<<64-1, ff), BlockNumber: 1<<64 - 1}},
	}
}

type blockCase struct {
	fixture string
	typ     uint
	variant string // "original" or the re-encoding description
	class   string // canonical class of the variant for keys
	bytes   []byte
	hdr     []byte // header item as located by my reader in bytes
}

func recoverTo(what *string) {
	if r := recover(); r != nil {
		*what = fmt.Sprint("panic: ", r)
	}
}

// direct decode of the served bytes (reference point for the "same block" clauses)
func directDecode(typ uint, b []byte) (blk ledger.Block, errText string) {
	defer recoverTo(&errText)
	x, err := ledger.NewBlockFromCbor(typ, b, lcommon.VerifyConfig{SkipBodyHashValidation: true})
	if err != nil {
		return nil, err.Error()
	}
	return x, ""
}

func replayData(bc blockCase, mode, tip string) map[string]any {
	r := map[string]any{"fixture": bc.fixture, "type": bc.typ, "variant": bc.variant, "mode": mode, "tip": tip}
	if len(bc.bytes) <= 40000 {
		r["block_hex"] = hex.EncodeToString(bc.bytes)
	}
	return r
}

// violationKey: <mode>|<what>|<era>|<variant class>. One root cause = one key: when the same
// clause already fails for the ORIGINAL encoding of a block of that era, its re-encodings
// report under the original's key instead of one key per re-encoding class.
var (
	failedMu         sync.Mutex
	failedOnOriginal = map[string]bool{}
)

func violationKey(mode, what string, bc blockCase) string {
	base := fmt.Sprintf("%s|%s|%s", mode, what, eraName(bc.typ))
	failedMu.Lock()
	defer failedMu.Unlock()
	if bc.class == "original" {
		failedOnOriginal[base] = true
	}
	if failedOnOriginal[base] {
		return base + "|original"
	}
	return base + "|" + bc.class
}

// ---------- NtC ----------

func checkNtC(bc blockCase, tc tipCase, direct ledger.Block) {
	key := func(what string) string { return violationKey("NtC", what, bc) }
	rp := replayData(bc, "NtC", tc.name)
	var pn string
	var wire []byte
	var msg *chainsync.MsgRollForwardNtC
	func() {
		defer recoverTo(&pn)
		var err error
		msg, err = chainsync.NewMsgRollForwardNtC(bc.typ, bc.bytes, tc.tip)
		if err != nil {
			pn = "constructor: " + err.Error()
			return
		}
		wire, err = cbor.Encode(msg)
		if err != nil {
			pn = "encode: " + err.Error()
		}
	}()
	cls := fmt.Sprintf("NtC|%s|%s|tip=%s", bc.fixture, bc.variant, tc.name)
	if pn != "" {
		c.Eval(cls, "NtC:server-cannot-serve")
		if direct != nil {
			c.Violation(key("server-cannot-wrap"), fmt.Sprintf("%s (%s): a block the decoder accepts cannot be served over NtC: %s", bc.fixture, bc.variant, pn), rp)
		}
		return
	}
	// evidence only: the wire carries the served bytes verbatim inside tag 24 / [type, block]
	if w, err := space.Parse(wire); err == nil && w.IsArray() && len(w.Items) == 3 && w.Items[1].Major == 6 && w.Items[1].Arg == 24 {
		if inner, err := space.Parse(w.Items[1].Items[0].Bytes); err == nil && inner.IsArray() && len(inner.Items) == 2 {
			if bytes.Equal(w.Items[1].Items[0].Bytes[inner.Items[1].Start:inner.Items[1].End], bc.bytes) && inner.Items[0].Arg == uint64(bc.typ) {
				c.Add("ntc_wire_shape_is_[2,24(bytes([type,block])),tip]", 1)
			}
		}
	}
	var got *chainsync.MsgRollForwardNtC
	func() {
		defer recoverTo(&pn)
		m, err := chainsync.NewMsgFromCbor(protocol.ProtocolModeNodeToClient, chainsync.MessageTypeRollForward, wire)
		if err != nil {
			pn = err.Error()
			return
		}
		var ok bool
		if got, ok = m.(*chainsync.MsgRollForwardNtC); !ok {
			pn = fmt.Sprintf("decoded message has type %T", m)
		}
	}()
	if pn != "" {
		c.Eval(cls, "NtC:client-rejects")
		c.Violation(key("client-cannot-decode-served-message"), fmt.Sprintf("%s (%s): the message the server builds is not decodable by the client: %s", bc.fixture, bc.variant, pn), rp)
		return
	}
	okAll := true
	if got.BlockType() != bc.typ {
		okAll = false
		c.Violation(key("block-type-changed"), fmt.Sprintf("%s (%s): served type %d, arrived type %d", bc.fixture, bc.variant, bc.typ, got.BlockType()), rp)
	}
	if !bytes.Equal(got.BlockCbor(), bc.bytes) {
		okAll = false
		c.Violation(key("block-bytes-changed"), fmt.Sprintf("%s (%s): served %d bytes (%s), arrived %d bytes (%s)", bc.fixture, bc.variant, len(bc.bytes), vlib.Hex(bc.bytes), len(got.BlockCbor()), vlib.Hex(got.BlockCbor())), rp)
	}
	if !okAll {
		c.Eval(cls, "NtC:identity-broken")
		return
	}
	if direct == nil {
		c.Eval(cls, "NtC:identity-checked(block-not-decodable)")
		return
	}
	// the client's decode
	var blk ledger.Block
	func() {
		defer recoverTo(&pn)
		b, err := ledger.NewBlockFromCbor(got.BlockType(), got.BlockCbor(), lcommon.VerifyConfig{SkipBodyHashValidation: true})
		if err != nil {
			pn = err.Error()
			return
		}
		blk = b
	}()
	if pn != "" || blk == nil {
		c.Eval(cls, "NtC:client-block-decode-fails")
		if okAll {
			c.Violation(key("arrived-block-undecodable"), fmt.Sprintf("%s (%s): decodes directly but not after the round trip: %s", bc.fixture, bc.variant, pn), rp)
		}
		return
	}
	if blk.Type() != int(bc.typ) {
		c.Violation(key("decoded-block-type-changed"), fmt.Sprintf("%s (%s): arrived block reports Type()=%d, served %d", bc.fixture, bc.variant, blk.Type(), bc.typ), rp)
	}
	if !bytes.Equal(blk.Cbor(), bc.bytes) {
		c.Violation(key("decoded-block-cbor-changed"), fmt.Sprintf("%s (%s): arrived block's Cbor() differs from the served bytes", bc.fixture, bc.variant), rp)
	}
	if blk.Hash() != direct.Hash() {
		c.Violation(key("decoded-block-hash-changed"), fmt.Sprintf("%s (%s): arrived block hash %s, directly decoded %s", bc.fixture, bc.variant, blk.Hash(), direct.Hash()), rp)
	}
	if bc.typ >= 2 {
		if want := h256(bc.hdr); !bytes.Equal(blk.Hash().Bytes(), want) {
			c.Violation(key("decoded-block-hash-is-not-header-hash"), fmt.Sprintf("%s (%s): arrived block hash %s, blake2b-256 of the served header bytes %x", bc.fixture, bc.variant, blk.Hash(), want), rp)
		}
	}
	c.Eval(cls, "NtC:identity-and-block-checked")
}

// ---------- NtN ----------

func checkNtN(bc blockCase, tc tipCase, direct ledger.Block) {
	key := func(what string) string { return violationKey("NtN", what, bc) }
	rp := replayData(bc, "NtN", tc.name)
	cls := fmt.Sprintf("NtN|%s|%s|tip=%s", bc.fixture, bc.variant, tc.name)
	// server side, as Server.RollForward does
	era, ok := ledger.BlockToBlockHeaderTypeMap[bc.typ]
	if !ok {
		c.Eval(cls, "NtN:server-cannot-serve")
		c.Violation(fmt.Sprintf("NtN|server-has-no-era-for-block-type|%s", eraName(bc.typ)), fmt.Sprintf("block type %d has no entry in BlockToBlockHeaderTypeMap: the server refuses to serve it", bc.typ), rp)
		return
	}
	var pn string
	var wire []byte
	func() {
		defer recoverTo(&pn)
		msg, err := chainsync.NewMsgRollForwardNtN(era, 0, bc.bytes, tc.tip)
		if err != nil {
			pn = "constructor: " + err.Error()
			return
		}
		wire, err = cbor.Encode(msg)
		if err != nil {
			pn = "encode: " + err.Error()
		}
	}()
	if pn != "" {
		c.Eval(cls, "NtN:server-cannot-serve")
		if direct != nil {
			c.Violation(key("server-cannot-wrap"), fmt.Sprintf("%s (%s): a block the decoder accepts cannot be served over NtN: %s", bc.fixture, bc.variant, pn), rp)
		}
		return
	}
	if w, err := space.Parse(wire); err == nil && w.IsArray() && len(w.Items) == 3 && w.Items[1].IsArray() && len(w.Items[1].Items) == 2 {
		inner := w.Items[1].Items[1]
		if inner.Major == 6 && inner.Arg == 24 && bytes.Equal(inner.Items[0].Bytes, bc.hdr) {
			c.Add("ntn_wire_shape_is_[2,[era,24(bytes(header))],tip]", 1)
		}
	}
	var got *chainsync.MsgRollForwardNtN
	func() {
		defer recoverTo(&pn)
		m, err := chainsync.NewMsgFromCbor(protocol.ProtocolModeNodeToNode, chainsync.MessageTypeRollForward, wire)
		if err != nil {
			pn = err.Error()
			return
		}
		var ok bool
		if got, ok = m.(*chainsync.MsgRollForwardNtN); !ok {
			pn = fmt.Sprintf("decoded message has type %T", m)
		}
	}()
	if pn != "" {
		c.Eval(cls, "NtN:client-rejects")
		c.Violation(key("client-cannot-decode-served-message"), fmt.Sprintf("%s (%s): the message the server builds is not decodable by the client: %s", bc.fixture, bc.variant, pn), rp)
		return
	}
	// client side, as handleRollForward does
	gotEra := got.WrappedHeader.Era
	backType, ok := ledger.BlockHeaderToBlockTypeMap[gotEra]
	if !ok || backType != bc.typ {
		c.Violation(key("era-does-not-map-back"), fmt.Sprintf("%s (%s): served block type %d as era %d; arrived era %d maps to block type %d (known=%v)", bc.fixture, bc.variant, bc.typ, era, gotEra, backType, ok), rp)
		c.Eval(cls, "NtN:era-mismatch")
		return
	}
	gotHdr := got.WrappedHeader.HeaderCbor()
	if !bytes.Equal(gotHdr, bc.hdr) {
		// the hash clauses below would only restate this
		c.Violation(key("header-bytes-changed"), fmt.Sprintf("%s (%s): arrived header (%d bytes, %s) is not the header item of the served block (%d bytes, %s); its hash is therefore not the block's hash %x", bc.fixture, bc.variant, len(gotHdr), vlib.Hex(gotHdr), len(bc.hdr), vlib.Hex(bc.hdr), h256(bc.hdr)), rp)
		c.Eval(cls, "NtN:header-bytes-changed")
		return
	}
	var hdr ledger.BlockHeader
	func() {
		defer recoverTo(&pn)
		h, err := ledger.NewBlockHeaderFromCbor(backType, gotHdr)
		if err != nil {
			pn = err.Error()
			return
		}
		hdr = h
	}()
	if pn != "" || hdr == nil {
		c.Eval(cls, "NtN:client-header-decode-fails")
		if direct != nil {
			c.Violation(key("arrived-header-undecodable"), fmt.Sprintf("%s (%s): the block decodes directly but its header does not after the round trip: %s", bc.fixture, bc.variant, pn), rp)
		}
		return
	}
	want := h256(bc.hdr)
	if !bytes.Equal(hdr.Hash().Bytes(), want) {
		c.Violation(key("header-hash-is-not-block-hash"), fmt.Sprintf("%s (%s): arrived header hash %s, block hash (blake2b-256 of the served header bytes) %x", bc.fixture, bc.variant, hdr.Hash(), want), rp)
	}
	if direct != nil && hdr.Hash() != direct.Hash() {
		c.Violation(key("header-hash-differs-from-decoded-block-hash"), fmt.Sprintf("%s (%s): arrived header hash %s, directly decoded block hash %s", bc.fixture, bc.variant, hdr.Hash(), direct.Hash()), rp)
	}
	if direct != nil && (hdr.SlotNumber() != direct.SlotNumber() || hdr.BlockNumber() != direct.BlockNumber()) {
		c.Violation(key("header-point-differs"), fmt.Sprintf("%s (%s): arrived header slot/number %d/%d, block %d/%d", bc.fixture, bc.variant, hdr.SlotNumber(), hdr.BlockNumber(), direct.SlotNumber(), direct.BlockNumber()), rp)
	}
	if direct == nil {
		c.Eval(cls, "NtN:identity-checked(block-not-decodable)")
	} else {
		c.Eval(cls, "NtN:identity-and-hash-checked")
	}
}

// Byron over NtN: outside the property; observation only.
func observeByronNtN(bc blockCase, tc tipCase, direct ledger.Block) {
	var pn, res string
	func() {
		defer recoverTo(&pn)
		msg, err := chainsync.NewMsgRollForwardNtN(ledger.BlockHeaderTypeByron, bc.typ, bc.bytes, tc.tip)
		if err != nil {
			res = "constructor: " + err.Error()
			return
		}
		wire, err := cbor.Encode(msg)
		if err != nil {
			res = "encode: " + err.Error()
			return
		}
		m, err := chainsync.NewMsgFromCbor(protocol.ProtocolModeNodeToNode, chainsync.MessageTypeRollForward, wire)
		if err != nil {
			res = "client decode: " + err.Error()
			return
		}
		got := m.(*chainsync.MsgRollForwardNtN)
		h, err := ledger.NewBlockHeaderFromCbor(got.WrappedHeader.ByronType(), got.WrappedHeader.HeaderCbor())
		if err != nil {
			res = "header decode: " + err.Error()
			return
		}
		same := direct != nil && h.Hash() == direct.Hash()
		res = fmt.Sprintf("era=%d byronType=%d headerBytesIdentical=%v hashEqualsBlockHash=%v", got.WrappedHeader.Era, got.WrappedHeader.ByronType(), bytes.Equal(got.WrappedHeader.HeaderCbor(), bc.hdr), same)
	}()
	if pn != "" {
		res = pn
	}
	c.Eval("", "NtN-byron:observed")
	if bc.variant == "original" && tc.name == "real" {
		c.Note(fmt.Sprintf("observation (outside the property): Byron %s over NtN: %s", bc.fixture, res))
	}
}

// ---------- variants ----------

func variants(f space.Fixture, depth int, pairs bool, emit func(blockCase)) {
	tree, err := space.Parse(f.Cbor)
	if err != nil || !tree.IsArray() || len(tree.Items) < 2 {
		c.Internal("fixture %s does not parse: %v", f.Name, err)
	}
	if !bytes.Equal(tree.Encode(), f.Cbor) {
		c.Internal("fixture %s does not re-encode byte-identically through verif/space", f.Name)
	}
	mk := func(variant, class string, b []byte) {
		t, err := space.Parse(b)
		if err != nil || len(t.Items) < 1 {
			c.Internal("variant %s of %s does not parse with my own reader: %v", variant, f.Name, err)
		}
		h := t.Items[0]
		emit(blockCase{fixture: f.Name, typ: f.Type, variant: variant, class: class, bytes: b, hdr: b[h.Start:h.End]})
	}
	mk("original", "original", f.Cbor)
	where := func(path []int) string {
		switch {
		case len(path) == 0:
			return "block-array"
		case path[0] == 0:
			return "header"
		}
		return "body"
	}
	formClass := func(form int) string {
		if form == space.FormIndef {
			return "indef"
		}
		return "non-minimal"
	}
	filter := func(maxDepth int) func(n *space.Node, path []int) bool {
		return func(n *space.Node, path []int) bool {
			if len(path) > maxDepth {
				return false
			}
			// the EBB body is one list of 21 600 ids: only its first and last children
			if f.Type == 0 && len(path) >= 2 && path[0] == 1 {
				last := len(tree.Items[1].Items) - 1
				return path[1] == 0 || path[1] == last
			}
			return true
		}
	}
	kinds := []string{"uint", "nint", "bstr", "tstr", "arr", "map", "tag", "simple"}
	sites := space.Sites(tree, filter(depth))
	for _, s := range sites {
		old := s.Node.Form
		for _, form := range s.Alts {
			s.Node.Form = form
			mk(fmt.Sprintf("%s:%s->%s", pathS(s.Path), kinds[s.Node.Major], space.FormNames[form]),
				fmt.Sprintf("reenc|%s|%s->%s", where(s.Path), kinds[s.Node.Major], formClass(form)), tree.Encode())
		}
		s.Node.Form = old
	}
	if pairs && len(f.Cbor) < 100000 {
		outer := space.Sites(tree, filter(1))
		for i, a := range outer {
			oa := a.Node.Form
			for _, fa := range a.Alts {
				a.Node.Form = fa
				for _, b := range outer[i+1:] {
					ob := b.Node.Form
					for _, fb := range b.Alts {
						b.Node.Form = fb
						mk(fmt.Sprintf("%s:%s->%s + %s:%s->%s", pathS(a.Path), kinds[a.Node.Major], space.FormNames[fa], pathS(b.Path), kinds[b.Node.Major], space.FormNames[fb]),
							fmt.Sprintf("reenc2|%s|%s->%s|%s|%s->%s", where(a.Path), kinds[a.Node.Major], formClass(fa), where(b.Path), kinds[b.Node.Major], formClass(fb)), tree.Encode())
					}
					b.Node.Form = ob
				}
			}
			a.Node.Form = oa
		}
	}
}

func pathS(p []int) string {
	if len(p) == 0 {
		return "/"
	}
	s := ""
	for _, i := range p {
		s += fmt.Sprintf("/%d", i)
	}
	return s
}

func runCase(bc blockCase, tc tipCase) {
	direct, _ := directDecode(bc.typ, bc.bytes)
	checkNtC(bc, tc, direct)
	if bc.typ >= 2 {
		checkNtN(bc, tc, direct)
	} else {
		observeByronNtN(bc, tc, direct)
	}
}

func fixtures() []space.Fixture {
	fx := space.Blocks(true)
	for _, r := range fx {
		if r.Name == "dijkstra" {
			if g, ok := genDijkstra(r); ok {
				fx = append(fx, g)
			}
		}
	}
	return fx
}

func main() {
	c = vlib.New("C22", "exploration")
	if c.Replay != "" {
		replay(c.Replay)
		return
	}
	depth, pairs := 2, false
	if c.Thorough() {
		depth, pairs = 4, true
	}
	fx := fixtures()
	if len(fx) < 9 {
		c.Internal("only %d fixtures found under %s", len(fx), vlib.Repo())
	}
	seen := map[uint]bool{}
	perFixture := map[string]int{}
	for _, f := range fx {
		seen[f.Type] = true
		var cases []blockCase
		variants(f, depth, pairs, func(bc blockCase) { cases = append(cases, bc) })
		perFixture[f.Name] = len(cases)
		if d, e := directDecode(f.Type, f.Cbor); d == nil {
			c.Internal("fixture %s does not decode as its own type (%s): nothing to compare against", f.Name, e)
		}
		tcs := tips()
		// the original encoding first (see violationKey), then every variant in parallel
		for _, tc := range tcs {
			runCase(cases[0], tc)
		}
		vlib.Parallel(len(cases)-1, func(i int) {
			bc := cases[i+1]
			for ti, tc := range tcs {
				// the three tips matter for the message framing only; large variants get one
				if ti > 0 && (bc.variant != "original" && len(bc.bytes) > 100000) {
					continue
				}
				runCase(bc, tc)
			}
		})
		// one written-out sample per fixture
		if len(cases) > 0 {
			bc := cases[0]
			msg, err := chainsync.NewMsgRollForwardNtC(bc.typ, bc.bytes, tcs[1].tip)
			if err == nil {
				w, _ := cbor.Encode(msg)
				smp := map[string]any{"fixture": f.Name, "type": f.Type, "block_bytes": len(bc.bytes), "ntc_wire": vlib.Hex(w)}
				if f.Type >= 2 {
					smp["block_hash_own_blake2b_of_header_item"] = hex.EncodeToString(h256(bc.hdr))
				}
				c.Sample(smp)
			}
		}
	}
	for t := uint(0); t <= 8; t++ {
		if !seen[t] {
			c.Note("no fixture of block type " + eraName(t))
		}
	}
	c.Set("cases_per_fixture", perFixture)
	c.Set("rule", fmt.Sprintf("every fixture block (all eras + generated Dijkstra) x {original, every single-header re-encoding of items at depth <= %d (EBB id list: first and last id only)%s} x 3 tips, through the server constructor + cbor.Encode and the client NewMsgFromCbor + ledger decode, NtC for all eras and NtN for Shelley..Dijkstra; distinct = (mode, fixture, variant class, tip)", depth, map[bool]string{true: ", every pair of re-encodings among depth <= 1 headers", false: ""}[pairs]))
	c.Assume("blake2b-256 trusted; block hash of a Shelley-or-later block = blake2b-256 of its header item (located by the harness's own CBOR reader)")
	c.Assume("the wrappers are driven through the same calls Server.RollForward and Client.handleRollForward make (constructor, cbor.Encode, NewMsgFromCbor, map lookup, ledger decode); the muxer/connection in between is covered by the E1 checks")
	// free-running -race pass: concurrent callers on their own inputs (state the library shares between calls)
	c.RaceAudit("c22")
	c.Finish()
}

func replay(path string) {
	b, err := os.ReadFile(path)
	if err != nil {
		c.Internal("replay: %v", err)
	}
	var doc struct {
		Replay struct {
			Fixture  string `json:"fixture"`
			Type     uint   `json:"type"`
			Variant  string `json:"variant"`
			Mode     string `json:"mode"`
			Tip      string `json:"tip"`
			BlockHex string `json:"block_hex"`
		} `json:"replay"`
	}
	if err := json.Unmarshal(b, &doc); err != nil {
		c.Internal("replay: %v", err)
	}
	r := doc.Replay
	var data []byte
	if r.BlockHex != "" {
		data, _ = hex.DecodeString(r.BlockHex)
	} else {
		for _, f := range fixtures() {
			if f.Name == r.Fixture {
				variants(f, 4, true, func(bc blockCase) {
					if bc.variant == r.Variant {
						data = bc.bytes
					}
				})
			}
		}
	}
	if data == nil {
		c.Internal("replay: cannot rebuild the block variant")
	}
	t, err := space.Parse(data)
	if err != nil {
		c.Internal("replay: %v", err)
	}
	h := t.Items[0]
	bc := blockCase{fixture: r.Fixture, typ: r.Type, variant: r.Variant, class: "replay", bytes: data, hdr: data[h.Start:h.End]}
	for _, tc := range tips() {
		if tc.name == r.Tip || r.Tip == "" {
			runCase(bc, tc)
		}
	}
	fmt.Printf("replayed %s / %s / %s: violations=%d\n", r.Fixture, r.Variant, r.Mode, c.Violations())
	if c.Violations() > 0 {
		os.Exit(1)
	}
	os.Exit(0)
}
