#!/bin/bash
# E1 check: re-instrument from the current tree, build the test binary with the overlay, run it.
here="$(cd "$(dirname "$0")/../.." && pwd)"
exec "$here/bin/e1check" C09 c09 TestC09 "./muxer" -- "$@"
