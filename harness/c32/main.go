// C32: collateral covers the fee share the protocol demands.
//
// Space (complete product): era in {Alonzo,Babbage,Conway,Dijkstra} x is_valid flag x redeemer
// encoding (list / map where the era has both) x fee x collateral percentage x collateral
// balance in {floor(f*p/100)-1, floor, ceil, ceil+1} (and -1 when a collateral return exists) x
// number of collateral inputs in {0,1,max,max+1} x token/return variant.
// Every transaction carries a redeemer ("runs scripts"), is written with verif/space, decoded by
// the real era decoder and run through every rule of the era's list separately.
// Oracle (own restatement): a script-running transaction may be accepted only if
//
//	R1 #collateral inputs >= 1
//	R2 balance*100 >= fee*pct, balance = sum(collateral input coin) - collateral return coin (big ints)
//	R3 every non-ada asset of the collateral inputs is returned exactly by the collateral return
//	R4 #collateral inputs <= maxCollateralInputs
//
// A case accepted by the list although Ri fails is a violation keyed by era and Ri (+ input class).
package main

import (
	"encoding/json"
	"fmt"
	"math/big"
	"os"

	"github.com/blinklabs-io/gouroboros/ledger/alonzo"
	"github.com/blinklabs-io/gouroboros/ledger/babbage"
	"github.com/blinklabs-io/gouroboros/ledger/common"
	"github.com/blinklabs-io/gouroboros/ledger/conway"
	"github.com/blinklabs-io/gouroboros/ledger/dijkstra"
	"verif/vlib"
)

const maxColl = 3

type variant struct {
	name     string
	ret      bool  // has a collateral return (Babbage+)
	r3       *bool // nil: outside the statement
	twoToken bool
}

func bp(b bool) *bool { return &b }

var variants = []variant{
	{"ada-only,no-return", false, bp(true), false},
	{"ada-only,ada-return", true, bp(true), false},
	{"tokens,no-return", false, bp(false), false},
	{"tokens,ada-only-return", true, bp(false), false},
	{"tokens,fully-returned", true, bp(true), false},
	{"tokens,partly-returned", true, bp(false), false},
	{"tokens,other-asset-returned", true, bp(false), false},
	{"tokens-in-two-inputs,sum-returned", true, bp(true), true},
	{"ada-only,return-adds-tokens", true, nil, false},
	{"tokens-in-two-inputs,no-return", false, bp(false), true},
}

type ccase struct {
	Era   int    `json:"era"`
	Valid bool   `json:"is_valid"`
	RMap  bool   `json:"redeemer_map"`
	Fee   uint64 `json:"fee"`
	Pct   uint64 `json:"pct"`
	Bal   int64  `json:"balance"`
	N     int    `json:"n_inputs"`
	Var   int    `json:"variant"`
}

// directRules returns the era's exported rule function per requirement (nil: the era has none).
func directRules(era int) map[string]common.UtxoValidationRuleFunc {
	switch era {
	case EraAlonzo:
		return map[string]common.UtxoValidationRuleFunc{"R2": alonzo.UtxoValidateInsufficientCollateral, "R3": alonzo.UtxoValidateCollateralContainsNonAda, "R1": alonzo.UtxoValidateNoCollateralInputs}
	case EraBabbage:
		return map[string]common.UtxoValidationRuleFunc{"R2": babbage.UtxoValidateInsufficientCollateral, "R3": babbage.UtxoValidateCollateralContainsNonAda, "R1": babbage.UtxoValidateNoCollateralInputs, "R4": babbage.UtxoValidateTooManyCollateralInputs}
	case EraConway:
		return map[string]common.UtxoValidationRuleFunc{"R2": conway.UtxoValidateInsufficientCollateral, "R3": conway.UtxoValidateCollateralContainsNonAda, "R1": conway.UtxoValidateNoCollateralInputs, "R4": conway.UtxoValidateTooManyCollateralInputs}
	default:
		return map[string]common.UtxoValidationRuleFunc{"R2": dijkstra.UtxoValidateInsufficientCollateral, "R3": dijkstra.UtxoValidateCollateralContainsNonAda, "R1": dijkstra.UtxoValidateNoCollateralInputs, "R4": dijkstra.UtxoValidateTooManyCollateralInputs}
	}
}

var (
	polX  = [28]byte{0xaa, 1}
	nameX = []byte("X")
	nameY = []byte("Y")
)

const retCoin = 5

// build makes the transaction record and ledger state of a case.
func build(tc ccase, key Key, seed int64) (*TxRec, *StubState, error) {
	v := variants[tc.Var]
	ls := NewStub()
	in := MkIn(int(seed)+1, 0)
	if err := ls.AddUtxo(tc.Era, in, Out{Addr: EnterpriseAddr(key), Coin: 1_000_000 + tc.Fee%1000}); err != nil {
		return nil, nil, err
	}
	valid := tc.Valid
	r := &TxRec{Era: tc.Era, Inputs: []In{in}, Outputs: []Out{{Addr: EnterpriseAddr(key), Coin: 1_000_000}}, Fee: tc.Fee,
		Signers: []Key{key}, Redeemers: 1, RedeemerMap: tc.RMap, IsValid: &valid}
	// sum of collateral input coin
	s := tc.Bal
	if v.ret {
		s += retCoin
	}
	if s < 0 {
		return nil, nil, fmt.Errorf("negative input sum")
	}
	for i := 0; i < tc.N; i++ {
		coin := uint64(s) / uint64(tc.N)
		if i == 0 {
			coin += uint64(s) % uint64(tc.N)
		}
		o := Out{Addr: EnterpriseAddr(key), Coin: coin}
		hasTok := tc.Var >= 2 && tc.Var <= 7 || tc.Var == 9
		if hasTok {
			switch {
			case v.twoToken && tc.N >= 2 && i == 0:
				o.Assets = []Asset{{polX, nameX, 2}}
			case v.twoToken && tc.N >= 2 && i == 1:
				o.Assets = []Asset{{polX, nameX, 3}}
			case !(v.twoToken && tc.N >= 2) && i == 0:
				o.Assets = []Asset{{polX, nameX, 5}}
			}
		}
		ci := MkIn(int(seed)+100+i, uint64(i))
		if err := ls.AddUtxo(tc.Era, ci, o); err != nil {
			return nil, nil, err
		}
		r.Collateral = append(r.Collateral, ci)
	}
	if v.ret {
		ro := Out{Addr: EnterpriseAddr(key), Coin: retCoin}
		switch tc.Var {
		case 4, 7:
			ro.Assets = []Asset{{polX, nameX, 5}}
		case 5:
			ro.Assets = []Asset{{polX, nameX, 4}}
		case 6:
			ro.Assets = []Asset{{polX, nameY, 5}}
		case 8:
			ro.Assets = []Asset{{polX, nameX, 1}}
		}
		r.CollReturn = &ro
	}
	return r, ls, nil
}

// baseline: the same transaction with one generous ada-only collateral input and no return.
func baseline(tc ccase, key Key, seed int64) (*TxRec, *StubState, error) {
	b := tc
	b.N, b.Var, b.Bal = 1, 0, 1<<62
	return build(b, key, seed)
}

type oracle struct {
	r1, r2, r4 bool
	r3         *bool
	floorReq   *big.Int
	sum        *big.Int
}

func judge(tc ccase) oracle {
	v := variants[tc.Var]
	var o oracle
	o.r1 = tc.N >= 1
	prod := new(big.Int).Mul(new(big.Int).SetUint64(tc.Fee), new(big.Int).SetUint64(tc.Pct))
	lhs := new(big.Int).Mul(big.NewInt(tc.Bal), big.NewInt(100))
	o.r2 = lhs.Cmp(prod) >= 0
	o.r3 = v.r3
	o.r4 = tc.N <= maxColl
	o.floorReq = new(big.Int).Div(prod, big.NewInt(100))
	o.sum = big.NewInt(tc.Bal)
	if v.ret {
		o.sum.Add(o.sum, big.NewInt(retCoin))
	}
	return o
}

func cfgName(tc ccase) string {
	f := "list"
	if tc.RMap || tc.Era == EraDijkstra {
		f = "map"
	}
	return fmt.Sprintf("era=%s,is_valid=%v,redeemers=%s", EraNames[tc.Era], tc.Valid, f)
}

func main() {
	c := vlib.New("C32", "exploration")
	fees := []uint64{1, 3, 99, 100, 101}
	pcts := []uint64{1, 99, 100, 101, 150}
	if c.Thorough() {
		fees = []uint64{0, 1, 2, 3, 99, 100, 101, 1000, 1<<32 + 1, 1<<57 + 1}
		pcts = []uint64{0, 1, 2, 50, 99, 100, 101, 150, 1000}
	}
	type cfg struct {
		era        int
		valid, rmp bool
	}
	cfgs := []cfg{{EraAlonzo, true, false}, {EraAlonzo, false, false}, {EraBabbage, true, false}, {EraBabbage, false, false},
		{EraConway, true, false}, {EraConway, false, false}, {EraConway, true, true}, {EraConway, false, true}, {EraDijkstra, true, true}}
	var cases []ccase
	for _, g := range cfgs {
		for _, fee := range fees {
			for _, pct := range pcts {
				prod := new(big.Int).Mul(new(big.Int).SetUint64(fee), new(big.Int).SetUint64(pct))
				fl := new(big.Int).Div(prod, big.NewInt(100))
				ce := new(big.Int).Div(new(big.Int).Add(prod, big.NewInt(99)), big.NewInt(100))
				if !ce.IsInt64() || ce.Int64() > 1<<61 {
					continue
				}
				var bals []int64
				seen := map[int64]bool{}
				for _, b := range []int64{fl.Int64() - 1, fl.Int64(), ce.Int64(), ce.Int64() + 1} {
					if b >= 0 && !seen[b] {
						seen[b] = true
						bals = append(bals, b)
					}
				}
				// no collateral inputs at all (balance 0, no return)
				cases = append(cases, ccase{g.era, g.valid, g.rmp, fee, pct, 0, 0, 0})
				for _, n := range []int{1, maxColl, maxColl + 1} {
					for vi, v := range variants {
						if v.ret && g.era < EraBabbage {
							continue
						}
						bs := bals
						if v.ret {
							bs = append(append([]int64{}, bals...), -1) // return exceeds the inputs by one
						}
						for _, b := range bs {
							cases = append(cases, ccase{g.era, g.valid, g.rmp, fee, pct, b, n, vi})
						}
					}
				}
			}
		}
	}
	if c.Replay != "" {
		var f struct{ Replay struct{ Case ccase } }
		b, err := os.ReadFile(c.Replay)
		if err == nil {
			err = json.Unmarshal(b, &f)
		}
		if err != nil {
			c.Internal("replay: %v", err)
		}
		cases = []ccase{f.Replay.Case}
	}
	key := NewKey(c.Seed, 1)

	// baselines per (config, fee, pct): which rules reject the script-running transaction for
	// reasons unrelated to collateral (missing script witnesses, script data hash, phase-2).
	type bkey struct {
		g        cfg
		fee, pct uint64
	}
	base := map[bkey][]RuleResult{}
	ignored := map[string]map[string]bool{}
	for _, tc := range cases {
		k := bkey{cfg{tc.Era, tc.Valid, tc.RMap}, tc.Fee, tc.Pct}
		if _, ok := base[k]; ok {
			continue
		}
		rec, ls, err := baseline(tc, key, c.Seed)
		if err != nil {
			c.Internal("baseline: %v", err)
		}
		tx, _, err := rec.Build()
		if err != nil {
			c.Internal("baseline %s does not decode: %v", cfgName(tc), err)
		}
		pp := PPFor(tc)
		rr := RunList(Rules(tc.Era), tx, 100, ls, pp)
		for _, r := range rr {
			if containsFold(r.Name, "collateral") {
				c.Internal("baseline with generous collateral is rejected by a collateral rule: %s: %v", r.Name, r.Err)
			}
			if ignored[cfgName(tc)] == nil {
				ignored[cfgName(tc)] = map[string]bool{}
			}
			ignored[cfgName(tc)][r.Name] = true
		}
		for _, f := range directRules(tc.Era) {
			if err := f(tx, 100, ls, pp); err != nil {
				c.Internal("baseline rejected by direct collateral rule: %v", err)
			}
		}
		base[k] = rr
	}
	ign := map[string][]string{}
	for k, m := range ignored {
		for n := range m {
			ign[k] = append(ign[k], n)
		}
		sortStrings(ign[k])
	}
	c.Set("rules_rejecting_the_generous_collateral_baseline(ignored)", ign)

	type result struct {
		err      error
		raw      []byte
		attr     []RuleResult
		dirRej   map[string]bool // requirement -> the era's exported rule for it rejects
		panicked bool
		mutated  bool   // the state dump differs after validation
		reeval   string // non-empty: two evaluations of the era list on the same state differ
		dumps    [2]string
	}
	res := make([]result, len(cases))
	vlib.Parallel(len(cases), func(i int) {
		tc := cases[i]
		r := &res[i]
		rec, ls, err := build(tc, key, c.Seed)
		if err != nil {
			r.err = err
			return
		}
		tx, raw, err := rec.Build()
		r.raw, r.err = raw, err
		if err != nil {
			return
		}
		pp := PPFor(tc)
		// validation must be a pure function of (tx, state): the era list is evaluated twice on the
		// SAME state object (the exported collateral rules run in between) and the state is dumped
		// before and after
		dump0 := ls.Dump()
		all := RunList(Rules(tc.Era), tx, 100, ls, pp)
		r.attr = Attributable(all, base[bkey{cfg{tc.Era, tc.Valid, tc.RMap}, tc.Fee, tc.Pct}])
		defer func() {
			again := RunList(Rules(tc.Era), tx, 100, ls, pp)
			if a, b := Signature(all), Signature(again); a != b {
				r.reeval = fmt.Sprintf("1st evaluation rejects [%s]; 2nd evaluation rejects [%s]", a, b)
			}
			if d := ls.Dump(); d != dump0 {
				r.mutated, r.dumps = true, [2]string{dump0, d}
			}
		}()
		for _, x := range r.attr {
			if x.Panic != nil {
				r.panicked = true
			}
		}
		r.dirRej = map[string]bool{}
		for req, f := range directRules(tc.Era) {
			func() {
				defer func() {
					if recover() != nil {
						r.dirRej[req] = true
					}
				}()
				if f(tx, 100, ls, pp) != nil {
					r.dirRej[req] = true
				}
			}()
		}
	})
	for i, tc := range cases {
		r := res[i]
		v := variants[tc.Var]
		replay := map[string]any{"case": tc, "config": cfgName(tc), "variant": v.name, "tx_cbor": fmt.Sprintf("%x", r.raw),
			"rejecting_rules": names(r.attr), "direct_rules_rejecting": r.dirRej, "max_collateral_inputs": maxColl}
		if r.err != nil {
			c.Violation("decode|"+cfgName(tc), fmt.Sprintf("well-formed transaction rejected by the decoder: %v", r.err), replay)
			continue
		}
		if r.mutated || r.reeval != "" {
			replay["state_before"], replay["state_after"], replay["verdicts"] = r.dumps[0], r.dumps[1], r.reeval
			c.Eval(fmt.Sprintf("purity|%s|%s", cfgName(tc), v.name), fmt.Sprintf("state-mutated=%v/verdict-changes=%v", r.mutated, r.reeval != ""))
			if r.mutated {
				c.Violation(fmt.Sprintf("collateral|era=%s|state-mutated-by-validation", EraNames[tc.Era]),
					fmt.Sprintf("%s, %s, n=%d: validating the transaction changed the ledger state: before %q after %q", cfgName(tc), v.name, tc.N, r.dumps[0], r.dumps[1]), replay)
			}
			if r.reeval != "" {
				c.Violation(fmt.Sprintf("collateral|era=%s|verdict-changes-on-re-evaluation", EraNames[tc.Era]),
					fmt.Sprintf("%s, %s, n=%d: the same transaction on the same state object gets different verdicts: %s", cfgName(tc), v.name, tc.N, r.reeval), replay)
			}
			continue
		}
		o := judge(tc)
		acc := len(r.attr) == 0
		var failed []string
		if !o.r1 {
			failed = append(failed, "R1")
		}
		if !o.r2 {
			failed = append(failed, "R2")
		}
		if o.r3 != nil && !*o.r3 {
			failed = append(failed, "R3")
		}
		if !o.r4 {
			failed = append(failed, "R4")
		}
		balClass := "bal>=exact"
		switch {
		case o.r2:
		case big.NewInt(tc.Bal).Cmp(o.floorReq) >= 0:
			balClass = "floor<=bal<exact"
		case v.ret && o.sum.Cmp(o.floorReq) >= 0:
			balClass = "inputs>=floor>bal-after-return"
		default:
			balClass = "bal<floor"
		}
		nClass := map[int]string{0: "n=0", 1: "n=1", maxColl: "n=max", maxColl + 1: "n=max+1"}[tc.N]
		outcome := "reject"
		if acc {
			outcome = "accept"
		}
		if r.panicked {
			outcome = "reject(panic)"
			c.Add("rule_panics_counted_as_rejection", 1)
		}
		c.Eval(fmt.Sprintf("%s|%s|%s|%s", cfgName(tc), balClass, nClass, v.name), fmt.Sprintf("%s/oracle-failed=%v", outcome, failed))
		if o.r3 == nil && len(failed) == 0 {
			c.Add("no_expectation(return-adds-tokens)_"+outcome, 1)
		}
		replay["oracle_failed_requirements"] = failed
		replay["list_accepts"] = acc
		if tc.Fee == 1 && tc.Pct == 150 && tc.N == 1 && tc.Bal == 1 && tc.Var == 0 && tc.Valid && !tc.RMap ||
			tc.Fee == 100 && tc.Pct == 150 && tc.N == 1 && tc.Valid && tc.Era == EraBabbage && (tc.Var == 1 && tc.Bal == 149 || tc.Var == 4 && tc.Bal == 150 || tc.Var == 5 && tc.Bal == 150) ||
			tc.Fee == 100 && tc.Pct == 100 && tc.N == maxColl+1 && tc.Var == 0 && tc.Bal == 101 && tc.Valid && !tc.RMap && tc.Era <= EraBabbage {
			c.Sample(replay)
		}
		if !acc {
			if len(failed) == 0 {
				if o.r3 != nil {
					c.Add("oracle_ok_but_rejected(converse,not_a_violation)", 1)
				}
			}
			continue
		}
		en := EraNames[tc.Era]
		for _, f := range failed {
			var k string
			switch f {
			case "R1":
				k = "no-collateral-inputs"
			case "R2":
				k = "insufficient|" + balClass
			case "R3":
				k = "non-ada|" + v.name
			case "R4":
				k = "too-many-inputs"
			}
			suffix := ""
			if r.dirRej[f] {
				suffix = "|rule-rejects-but-list-accepts"
			}
			c.Violation(fmt.Sprintf("collateral|era=%s|%s%s", en, k, suffix),
				fmt.Sprintf("%s: fee %d pct %d balance %d (inputs %s, n=%d, %s) accepted although requirement %s fails (balance*100=%d < fee*pct=%s; max inputs %d)",
					cfgName(tc), tc.Fee, tc.Pct, tc.Bal, o.sum, tc.N, v.name, f, tc.Bal*100, new(big.Int).Mul(new(big.Int).SetUint64(tc.Fee), new(big.Int).SetUint64(tc.Pct)), maxColl), replay)
		}
	}
	c.Set("rule", "complete product config x fee x pct x balance x #inputs x token/return variant; distinct = config x balance class x #inputs class x variant; a rule's rejection counts iff the same rule accepts the same transaction with one generous ada-only collateral input (each rule of the era list is called separately; the rules that reject that baseline are listed and are not collateral rules)")
	c.Set("fees", fmt.Sprint(fees))
	c.Set("pcts", fmt.Sprint(pcts))
	c.Set("max_collateral_inputs", maxColl)
	c.Assume("ed25519/blake2b trusted; a panic of a rule is counted as a rejection (the property does not speak about panics)")
	c.Assume("variant 'ada-only,return-adds-tokens' has no expectation: the statement only speaks about non-ada in the collateral inputs")
	// free-running -race pass: concurrent callers on their own inputs (state the library shares between calls)
	c.RaceAudit("c32")
	c.Finish()
}

func PPFor(tc ccase) common.ProtocolParameters {
	p := NeutralPP()
	p.CollateralPercentage = tc.Pct
	p.MaxCollateralInputs = maxColl
	return MakePP(tc.Era, p)
}

func containsFold(s, sub string) bool {
	ls, lsub := []byte(s), []byte(sub)
	for i := range ls {
		if ls[i] >= 'A' && ls[i] <= 'Z' {
			ls[i] += 32
		}
	}
	for i := 0; i+len(lsub) <= len(ls); i++ {
		if string(ls[i:i+len(lsub)]) == string(lsub) {
			return true
		}
	}
	return false
}

func sortStrings(s []string) {
	for i := 1; i < len(s); i++ {
		for j := i; j > 0 && s[j] < s[j-1]; j-- {
			s[j], s[j-1] = s[j-1], s[j]
		}
	}
}
