#!/bin/bash
here="$(cd "$(dirname "$0")/../.." && pwd)"
exec "$here/bin/e1check" C21 c21 TestC21 ./muxer ./protocol ./protocol/chainsync ./pipeline -- "$@"
