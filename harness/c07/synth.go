package main

import "verif/space"

func synthetic(fx []space.Fixture) []space.Fixture { return nil }
