// C07: transaction byte offsets point at the decoded components.
//
// Alphabet: the real block fixtures of every era (space.Blocks: Byron EBB/main, Shelley …
// Conway, Dijkstra) plus two blocks assembled by the harness' own CBOR writer (a Dijkstra
// block carrying the Conway fixture's transactions, and a Conway block whose witness sets
// use the #6.258 set encoding); every re-encoding that differs from the original in one
// header form (d=1, all headers) or in two header forms on the block / tx-bodies /
// witness-sets / outputs / metadata / datum / redeemer / script spine (d=2).
// Oracle: verif/space's own CBOR reader re-parses each variant and an own CDDL-derived
// locator (layout.go) names the byte range of every component; for every variant the era
// decoder accepts, every range the two offset extractors report must be inside the block
// and equal to the located range of the corresponding component, and every located
// component must have a reported range (see meta.json for the two documented exemptions).
package main

import (
	"bytes"
	"encoding/hex"
	"fmt"
	"os"
	"runtime/debug"
	"runtime/pprof"
	"sort"
	"strconv"
	"strings"
	"sync"
	"time"

	"golang.org/x/crypto/blake2b"

	"github.com/blinklabs-io/gouroboros/ledger"
	"github.com/blinklabs-io/gouroboros/ledger/common"
	"verif/space"
	"verif/vlib"
)

var (
	c *vlib.Check

	mu        sync.Mutex
	d1Failing = map[string]bool{} // fn|component|family|siteClass — single-header failures (explain d=2 failures)
	origFail  = map[string]bool{} // fn|component|fixture|tx — failures on an unchanged block (explain the same failure in its variants)
	counters  = map[string]int64{}
	pending   = map[string]*pendingViolation{} // smallest failing variant per (extractor, component, family, class); emitted at the end
)

type pendingViolation struct {
	fn, comp string
	v        *Variant
	what     string
	extra    map[string]any
	n        int64
	class    string
}

// less orders candidates: fewer changed headers, earlier fixture, shorter description.
func (p *pendingViolation) less(q *pendingViolation) bool {
	if len(p.v.Sites) != len(q.v.Sites) {
		return len(p.v.Sites) < len(q.v.Sites)
	}
	if p.v.Fx.Name != q.v.Fx.Name {
		return fxOrder[p.v.Fx.Name] < fxOrder[q.v.Fx.Name]
	}
	a, b := p.v.Desc(), q.v.Desc()
	if len(a) != len(b) {
		return len(a) < len(b)
	}
	return a < b
}

var fxOrder = map[string]int{}
var stopProf = func() {}

func count(k string, n int64) {
	mu.Lock()
	counters[k] += n
	mu.Unlock()
}

func b256(b []byte) [32]byte { return blake2b.Sum256(b) }
func b224(b []byte) [28]byte {
	h, _ := blake2b.New(28, nil)
	h.Write(b)
	var o [28]byte
	copy(o[:], h.Sum(nil))
	return o
}

// mismatch is one component whose reported range is not the located one.
type mismatch struct {
	comp string // component kind
	what string
	feat string // for failures of an unchanged block: the structural feature of the component's container ("" = none)
	tx   int    // transaction index (-1 = block level)
}

// rep is a reported range in int form.
func rr(b common.ByteRange) Rng { return Rng{int(b.Offset), int(b.Offset) + int(b.Length)} }

func shift(r Rng, d int) Rng { return Rng{r.S + d, r.E + d} }

// compare evaluates one extractor result against the located layout. It returns the
// root mismatches (a component that is only displaced because its enclosing body /
// witness set is displaced by the same amount is attributed to the enclosing component),
// the number of ranges compared, and observation counters.
func compare(fnName string, block []byte, lay *Layout, off *common.BlockTransactionOffsets) (mm []mismatch, ranges int, obs map[string]int) {
	obs = map[string]int{}
	curTx := -1
	add := func(comp, format string, a ...any) {
		mm = append(mm, mismatch{comp: comp, what: fmt.Sprintf(format, a...), tx: curTx})
	}
	oob := func(r Rng) string {
		if r.S < 0 || r.E > len(block) || r.S > r.E {
			obs["out_of_block_ranges"]++
			return " (outside the block)"
		}
		return ""
	}
	if off == nil {
		obs["nil_offsets"]++
		return
	}
	nRep, nExp := len(off.Transactions), len(lay.Txs)
	if nRep > nExp {
		add("txcount", "%d transaction locations reported, block has %d transactions", nRep, nExp)
	}
	if nRep < nExp {
		if fnName == "NewBlockFromCborWithOffsets" && lay.Family == "dijkstra" && nRep == 0 {
			// documented: the streaming extractor returns an empty list for blocks with fewer
			// than 3 top-level elements (observation, FINDINGS.md)
			obs["unreported:transactions(dijkstra, streaming extractor)"] += nExp - nRep
		} else {
			add("txcount!missing", "%d transaction locations reported, block has %d transactions", nRep, nExp)
		}
	}
	for i := 0; i < nRep && i < nExp; i++ {
		rep, exp := off.Transactions[i], lay.Txs[i]
		curTx = i
		// body
		ranges++
		body := rr(rep.Body)
		dBody := 0
		if body != exp.Body {
			dBody = body.S - exp.Body.S
			add("txbody", "tx %d body reported %v%s, located %v", i, body, oob(body), exp.Body)
		}
		ranges++
		wit := rr(rep.Witness)
		dWit := 0
		if wit != exp.Witness {
			dWit = wit.S - exp.Witness.S
			add("witness", "tx %d witness set reported %v%s, located %v", i, wit, oob(wit), exp.Witness)
		}
		// metadata: a zero range is documented as "no metadata"
		if rep.Metadata == (common.ByteRange{}) {
			if exp.Meta != nil {
				add("metadata!missing", "tx %d has auxiliary data at %v (key %d of the auxiliary-data map / aux item of the transaction) but the reported metadata range is {0,0} (= no metadata)", i, *exp.Meta, i)
			}
		} else {
			ranges++
			m := rr(rep.Metadata)
			if exp.Meta == nil {
				add("metadata", "tx %d metadata reported %v%s but the transaction has none", i, m, oob(m))
			} else if m != *exp.Meta {
				add("metadata", "tx %d metadata reported %v%s, located %v", i, m, oob(m), *exp.Meta)
			}
		}
		// outputs
		if len(rep.Outputs) > len(exp.Outputs) {
			add("output", "tx %d: %d output locations reported, body has %d outputs", i, len(rep.Outputs), len(exp.Outputs))
		}
		if len(rep.Outputs) < len(exp.Outputs) {
			add("output!missing", "tx %d: %d output locations reported, body has %d outputs", i, len(rep.Outputs), len(exp.Outputs))
		}
		for j := 0; j < len(rep.Outputs) && j < len(exp.Outputs); j++ {
			ranges++
			o := rr(rep.Outputs[j])
			if o == exp.Outputs[j] {
				continue
			}
			if dBody != 0 && o == shift(exp.Outputs[j], dBody) && body.Len() == exp.Body.Len() {
				oob(o)
				continue // displaced with its body: attributed to txbody
			}
			add("output", "tx %d output %d reported %v%s, located %v", i, j, o, oob(o), exp.Outputs[j])
		}
		inWit := func(r, want Rng) bool {
			return r == want || (dWit != 0 && wit.Len() == exp.Witness.Len() && r == shift(want, dWit))
		}
		// datums: hash of the datum's wire bytes -> range
		for _, h := range sortedKeys(rep.Datums) {
			br := rep.Datums[h]
			ranges++
			r := rr(br)
			found := false
			for _, d := range exp.Datums {
				if inWit(r, d) {
					found = true
					if b256(block[d.S:d.E]) != [32]byte(h) {
						add("datum-key", "tx %d datum at %v reported under key %x, blake2b-256 of its bytes is %x", i, d, h[:], b256(block[d.S:d.E]))
					}
					break
				}
			}
			if !found {
				add("datum", "tx %d datum %x reported %v%s, no plutus-data item of the witness set is there (located %v)", i, h[:8], r, oob(r), exp.Datums)
				if exp.DatumsTagged {
					mm[len(mm)-1].feat = "set-tag"
				}
			} else {
				oob(r)
			}
		}
		if nd := distinctHashes(block, exp.Datums); len(rep.Datums) < nd {
			if exp.DatumsTagged {
				// documented: datum lists in the #6.258 set encoding are not reported (observation)
				obs["unreported:datums(#6.258 set)"] += nd - len(rep.Datums)
			} else {
				add("datum!missing", "tx %d: %d datum locations reported, witness set has %d distinct datums at %v", i, len(rep.Datums), nd, exp.Datums)
			}
		}
		// redeemers: (tag,index) -> range of the data element
		for _, k := range sortedKeys(rep.Redeemers) {
			br := rep.Redeemers[k]
			ranges++
			r := rr(br)
			keyFound, found := false, false
			var cands []Rng
			for _, e := range exp.Redeemers {
				if uint64(k.Tag) == e.Tag&0xff && uint64(k.Index) == e.Index&0xffffffff {
					keyFound = true
					cands = append(cands, e.Data)
					if inWit(r, e.Data) {
						found = true
					}
				}
			}
			switch {
			case !keyFound:
				add("redeemer-key", "tx %d redeemer (%d,%d) reported %v%s, the witness set has no such redeemer", i, k.Tag, k.Index, r, oob(r))
			case !found:
				add("redeemer", "tx %d redeemer (%d,%d) data reported %v%s, located %v", i, k.Tag, k.Index, r, oob(r), cands)
			default:
				oob(r)
			}
		}
		rk := map[[2]uint64]bool{}
		for _, e := range exp.Redeemers {
			rk[[2]uint64{e.Tag & 0xff, e.Index & 0xffffffff}] = true
		}
		if len(rep.Redeemers) < len(rk) {
			add("redeemer!missing", "tx %d: %d redeemer locations reported, witness set has %d distinct redeemer keys", i, len(rep.Redeemers), len(rk))
		}
		// scripts: hash -> range of the script element
		for _, h := range sortedKeys(rep.Scripts) {
			br := rep.Scripts[h]
			ranges++
			r := rr(br)
			found := false
			for _, s := range exp.Scripts {
				if !inWit(r, s.R) {
					continue
				}
				found = true
				// ledger script hash: blake2b-224(language tag ++ script bytes), where the script
				// bytes of a native script are its CBOR and of a Plutus script the byte string's content
				elem := block[s.R.S:s.R.E]
				ledgerHash := b224(append([]byte{s.Lang}, elem...))
				if s.Lang != 0 {
					ledgerHash = b224(append([]byte{s.Lang}, s.N.Bytes...))
				}
				elemHash := b224(append([]byte{s.Lang}, elem...))
				switch {
				case [28]byte(h) == ledgerHash:
				case [28]byte(h) == elemHash:
					obs["script_key_is_hash_of_encoded_element_not_ledger_script_hash"]++
				default:
					add("script-key", "tx %d script at %v (language %d) reported under key %x: neither the ledger script hash %x nor the hash of the encoded element", i, s.R, s.Lang, h[:], ledgerHash)
				}
				break
			}
			if !found {
				var l []Rng
				for _, s := range exp.Scripts {
					l = append(l, s.R)
				}
				add("script", "tx %d script %x reported %v%s, no script element of the witness set is there (located %v)", i, h[:8], r, oob(r), l)
				if exp.ScriptsTagged {
					mm[len(mm)-1].feat = "set-tag"
				}
			} else {
				oob(r)
			}
		}
		if ns := distinctScripts(block, exp.Scripts); len(rep.Scripts) < ns {
			add("script!missing", "tx %d: %d script locations reported, witness set has %d distinct scripts", i, len(rep.Scripts), ns)
		}
	}
	return
}

// sortedKeys returns the keys of a reported map ordered by reported offset (deterministic reports).
func sortedKeys[K comparable](m map[K]common.ByteRange) []K {
	ks := make([]K, 0, len(m))
	for k := range m {
		ks = append(ks, k)
	}
	sort.Slice(ks, func(i, j int) bool {
		a, b := m[ks[i]], m[ks[j]]
		if a.Offset != b.Offset {
			return a.Offset < b.Offset
		}
		return a.Length < b.Length
	})
	return ks
}

func distinctHashes(block []byte, rs []Rng) int {
	m := map[[32]byte]bool{}
	for _, r := range rs {
		m[b256(block[r.S:r.E])] = true
	}
	return len(m)
}

func distinctScripts(block []byte, ss []Scr) int {
	m := map[[32]byte]bool{}
	for _, s := range ss {
		m[b256(append([]byte{s.Lang}, block[s.R.S:s.R.E]...))] = true
	}
	return len(m)
}

type extractor struct {
	name string
	run  func(typ uint, b []byte) (ledger.Block, *common.BlockTransactionOffsets, error)
}

var skipCfg = common.VerifyConfig{SkipBodyHashValidation: true}

// decoderAccepts asks the era decoder alone.
func decoderAccepts(typ uint, b []byte, cfg ...common.VerifyConfig) (ok bool, blk ledger.Block) {
	defer func() {
		if r := recover(); r != nil {
			ok = false
		}
	}()
	blk, err := ledger.NewBlockFromCbor(typ, b, cfg...)
	return err == nil, blk
}

var extractors = []extractor{
	{"NewBlockFromCborWithOffsets", func(typ uint, b []byte) (ledger.Block, *common.BlockTransactionOffsets, error) {
		bo, err := ledger.NewBlockFromCborWithOffsets(typ, b, skipCfg)
		if err != nil {
			return nil, nil, err
		}
		return bo.Block, bo.Offsets, nil
	}},
	{"ExtractTransactionOffsets", func(typ uint, b []byte) (ledger.Block, *common.BlockTransactionOffsets, error) {
		off, err := ledger.ExtractTransactionOffsets(b)
		return nil, off, err
	}},
}

type extResult struct {
	blk      ledger.Block
	off      *common.BlockTransactionOffsets
	err      error
	panicked any
}

func safeRun(e extractor, typ uint, b []byte) (r extResult) {
	defer func() {
		if p := recover(); p != nil {
			r.panicked = p
		}
	}()
	r.blk, r.off, r.err = e.run(typ, b)
	return
}

var sampleOnce sync.Map

func handle(v *Variant) {
	typ := v.Fx.Type
	evalClass := v.Fx.Name + "|" + v.ClassKey()
	// NewBlockFromCborWithOffsets = extractor + era decoder in one call; when it fails the
	// era decoder is asked alone, to tell "decoder rejects" from "extractor gives up".
	res := make([]extResult, len(extractors))
	res[0] = safeRun(extractors[0], typ, v.Bytes)
	blk := res[0].blk
	if blk == nil {
		ok, b := decoderAccepts(typ, v.Bytes, skipCfg)
		if !ok {
			c.Eval(evalClass, "rejected")
			return
		}
		blk = b
	}
	how := "accepted(skip-body-hash)"
	if len(v.Sites) <= 1 {
		// for the single-header variants also record whether the default configuration
		// (body hash validated) accepts
		if ok, _ := decoderAccepts(typ, v.Bytes); ok {
			how = "accepted(default)"
		}
	}
	res[1] = safeRun(extractors[1], typ, v.Bytes)
	root, err := space.Parse(v.Bytes)
	if err != nil {
		c.Internal("own reader rejects variant %s of %s: %v", v.Desc(), v.Fx.Name, err)
	}
	lay, err := Locate(root, typ)
	if err != nil {
		c.Internal("own locator rejects variant %s of %s: %v", v.Desc(), v.Fx.Name, err)
	}
	// the located transactions are the decoded ones
	if n := len(blk.Transactions()); n != len(lay.Txs) {
		c.Internal("locator finds %d transactions, decoder %d (%s of %s)", len(lay.Txs), n, v.Desc(), v.Fx.Name)
	}
	outcome := how
	bad, gaveUp := false, 0
	for i, e := range extractors {
		r := res[i]
		if r.panicked != nil {
			// an extractor that panics on a block the decoder accepts reports nothing valid
			report(e.name, "panic", v, fmt.Sprintf("extractor panicked: %v", r.panicked), "", nil)
			bad = true
			continue
		}
		if r.err != nil {
			count("extractor_error:"+e.name+":"+v.Fx.Name, 1)
			gaveUp++
			continue
		}
		mm, ranges, obs := compare(e.name, v.Bytes, lay, r.off)
		count("ranges_compared", int64(ranges))
		for k, n := range obs {
			count(e.name+":"+k, int64(n))
		}
		seen := map[string]bool{}
		for _, m := range mm {
			bad = true
			inst := fmt.Sprintf("%s|%s|%s|tx%d", e.name, m.comp, v.Fx.Name, m.tx)
			mu.Lock()
			if len(v.Sites) == 0 {
				origFail[inst] = true
			}
			asOrig := len(v.Sites) > 0 && origFail[inst]
			if asOrig {
				counters["variant_failures_explained_by_the_failing_original"]++
			}
			mu.Unlock()
			if asOrig || seen[m.comp] {
				continue // this transaction's component already fails on the unchanged block / one report per component kind
			}
			seen[m.comp] = true
			report(e.name, m.comp, v, m.what, m.feat, map[string]any{"mismatches": len(mm)})
		}
	}
	switch {
	case bad:
		outcome += "/mismatch"
	case gaveUp == len(extractors):
		outcome += "/extractors-return-error"
	default:
		outcome += "/ranges-exact"
	}
	c.Eval(evalClass, outcome)
	if len(v.Sites) > 0 {
		if _, loaded := sampleOnce.LoadOrStore(v.Fx.Name, true); !loaded {
			c.Sample(map[string]any{"fixture": v.Fx.Name, "variant": v.Desc(), "outcome": outcome, "transactions": len(lay.Txs), "bytes": vlib.Hex(v.Bytes)})
		}
	}
}

func fnShort(fn string) string {
	if fn == "NewBlockFromCborWithOffsets" {
		return "WithOffsets"
	}
	return "ExtractOffsets"
}

// report turns a mismatch into a violation. Key = <extractor>.<component>|<family>|<class of
// the changed header(s)>. A d=2 failure that a d=1 failure of one of its two headers
// already explains is not reported again.
func report(fn, comp string, v *Variant, what, feat string, extra map[string]any) {
	fam := familyOf(v.Fx.Type)
	class := v.ClassKey()
	if len(v.Sites) == 0 && feat != "" {
		class += "+" + feat
	}
	k := fn + "|" + comp + "|" + fam + "|" + class
	cand := &pendingViolation{fn: fn, comp: comp, v: v, what: what, extra: extra, n: 1, class: class}
	mu.Lock()
	if len(v.Sites) == 1 {
		d1Failing[k] = true
	}
	if old, ok := pending[k]; ok {
		cand.n = old.n + 1
		if old.less(cand) {
			old.n = cand.n
			cand = old
		}
	}
	pending[k] = cand
	mu.Unlock()
}

func emit(fn, comp, fam, class string, v *Variant, what string, extra map[string]any) {
	key := fmt.Sprintf("%s.%s|%s|%s", fnShort(fn), comp, fam, class)
	if base, ok := strings.CutSuffix(comp, "!missing"); ok {
		// the component exists in the decoded block but no range is reported for it
		key = fmt.Sprintf("%s.%s|%s|%s|missing", fnShort(fn), base, fam, class)
	}
	if extra == nil {
		extra = map[string]any{}
	}
	extra["extractor"] = fn
	extra["component"] = comp
	c.Violation(key, fmt.Sprintf("%s on %s re-encoded at %s: %s", fn, v.Fx.Name, v.Desc(), what), v.Replay(extra))
}

func resolvePending(all bool) {
	var keys []string
	for k := range pending {
		keys = append(keys, k)
	}
	sort.Slice(keys, func(i, j int) bool {
		a, b := pending[keys[i]], pending[keys[j]]
		if a.less(b) != b.less(a) {
			return a.less(b)
		}
		return keys[i] < keys[j]
	})
	for _, k := range keys {
		p := pending[k]
		fam := familyOf(p.v.Fx.Type)
		if len(p.v.Sites) == 2 && !all {
			explained := false
			for _, s := range p.v.Sites {
				if d1Failing[p.fn+"|"+p.comp+"|"+fam+"|"+s.Class()] {
					explained = true
				}
			}
			if explained {
				counters["d2_failing_classes_explained_by_a_d1_failure"]++
				continue
			}
		}
		if p.extra == nil {
			p.extra = map[string]any{}
		}
		p.extra["failing_variants_in_class"] = p.n
		emit(p.fn, p.comp, fam, p.class, p.v, p.what, p.extra)
	}
}

func main() {
	c = vlib.New("C07", "exploration")
	if g := os.Getenv("VERIF_GOGC"); g != "" {
		n, _ := strconv.Atoi(g)
		debug.SetGCPercent(n)
	} else {
		debug.SetGCPercent(200)
	}
	if pf := os.Getenv("VERIF_PPROF"); pf != "" {
		f, _ := os.Create(pf)
		pprof.StartCPUProfile(f)
		defer pprof.StopCPUProfile()
		stopProf = pprof.StopCPUProfile
	}
	fixtures := space.Blocks(true)
	fixtures = append(fixtures, synthetic(fixtures)...)
	if c.Replay != "" {
		replay(fixtures)
		return
	}
	spineTx, repeatMax := 1, 1
	if c.Thorough() {
		spineTx, repeatMax = 2, 2
	}
	if !c.Thorough() {
		d1Shallow = map[string]bool{"allegra": true, "mary": true, "babbage": true, "conway": true}
	}
	var plans []*fxPlan
	for i := range fixtures {
		fxOrder[fixtures[i].Name] = i
		if only := os.Getenv("VERIF_ONLY"); only != "" && only != fixtures[i].Name { // debugging aid
			continue
		}
		if strings.HasPrefix(fixtures[i].Name, "synth-") {
			if ok, _ := decoderAccepts(fixtures[i].Type, fixtures[i].Cbor, skipCfg); !ok {
				_, err := ledger.NewBlockFromCbor(fixtures[i].Type, fixtures[i].Cbor, skipCfg)
				c.Note(fmt.Sprintf("harness-built block %s is not accepted by the era decoder and was left out: %v", fixtures[i].Name, err))
				continue
			}
		}
		p, err := newPlan(&fixtures[i], spineTx, repeatMax, !c.Thorough() && strings.HasPrefix(fixtures[i].Name, "synth-"))
		if err != nil {
			c.Internal("%v", err)
		}
		if n := fixtures[i].Name; !c.Thorough() && (strings.HasPrefix(n, "synth-") || n == "allegra" || n == "mary" || n == "babbage") {
			p.nSpine = 0 // quick tier: pairs only on the smaller real blocks
		}
		plans = append(plans, p)
	}
	if len(plans) < 15 {
		c.Note(fmt.Sprintf("only %d fixtures could be read from the repository", len(plans)))
	}
	deadline := c.Deadline(25*time.Second, 8*time.Minute)
	if d, err := time.ParseDuration(os.Getenv("VERIF_DEADLINE")); err == nil && d > 0 { // debugging aid (overloaded machine)
		deadline = time.Now().Add(d)
	}
	d2mode := 1
	if c.Thorough() {
		d2mode = 2
	}
	h := handle
	if os.Getenv("VERIF_DRY") != "" { // planning aid: count the space without evaluating it
		h = func(v *Variant) {}
	}
	st := enumerate(c, plans, d2mode, deadline, h)
	resolvePending(false)
	if st.DeadlineHit {
		c.NotExhaustive(fmt.Sprintf("deadline: %d of %d site shards not explored", st.SkippedShards, st.ShardsTotal))
	}
	c.Set("rule", "every fixture block (all eras, EBB filtered to depth<=3 and first/last 8 keys, plus 2 harness-built blocks) re-encoded with every alternative header form at one header (d=1, all headers) and at two spine headers (d=2); a case is one (fixture, changed-header role(s), form class) and is non-trivial when the decoder accepts it; distinct = distinct (fixture, role=formclass[+role=formclass]); oracle = own CBOR reader + CDDL-derived locator")
	c.Set("d1_variants", st.D1)
	c.Set("d2_variants", st.D2)
	c.Set("fixtures", len(plans))
	c.Set("sites_per_fixture_[d1,d2spine]", st.PerFixtureSite)
	c.Set("d1_per_fixture", st.PerFixtureD1)
	c.Set("d2_per_fixture", st.PerFixtureD2)
	c.Set("d2_spine_transactions", spineTx)
	c.Set("d2_spine_repeated_items_per_tx", repeatMax)
	c.Set("d2_pairs", map[int]string{1: "pairs with at least one top-level container", 2: "all spine pairs"}[d2mode])
	mu.Lock()
	c.Set("counters", counters)
	mu.Unlock()
	stopProf()
	c.Assume("blake2b (golang.org/x/crypto) is trusted")
	c.Assume("a variant counts as accepted when ledger.NewBlockFromCbor accepts it with the default configuration or with the documented SkipBodyHashValidation option (re-encoding a body segment necessarily changes the body hash the header commits to)")
	c.Assume("completeness: a located component without a reported range (zero metadata range, shorter output list, absent datum/redeemer/script entry, missing transaction location) is a violation ('|missing'), except the documented non-reporting counted as observations: the streaming extractor's empty list for Dijkstra blocks, datum lists in the #6.258 set encoding, and an extractor that returns an error")
	// free-running -race pass: concurrent callers on their own inputs (state the library shares between calls)
	c.RaceAudit("c07")
	c.Finish()
}

func replay(fixtures []space.Fixture) {
	r, err := loadReplay(c.Replay)
	if err != nil {
		c.Internal("replay: %v", err)
	}
	for i := range fixtures {
		if fixtures[i].Name != r.Fixture {
			continue
		}
		b, err := rebuild(&fixtures[i], r.Sites)
		if err != nil {
			c.Internal("replay: %v", err)
		}
		if r.Hex != "" {
			if h, _ := hex.DecodeString(r.Hex); !bytes.Equal(h, b) {
				fmt.Println("note: rebuilt variant differs from the recorded bytes (fixture changed?)")
			}
		}
		if len(r.Sites) > 0 {
			// the unchanged artefact first: its failures are not attributed to the variant
			handle(&Variant{Fx: &fixtures[i], Bytes: fixtures[i].Cbor})
			mu.Lock()
			pending = map[string]*pendingViolation{}
			mu.Unlock()
		}
		v := &Variant{Fx: &fixtures[i], Sites: r.Sites, Bytes: b}
		fmt.Printf("replaying %s of %s (%d bytes)\n", v.Desc(), v.Fx.Name, len(b))
		handle(v)
		// in replay mode d=2 failures are reported unconditionally
		resolvePending(true)
		c.Set("rule", "replay of one recorded variant")
		c.Finish()
	}
	fmt.Fprintln(os.Stderr, "replay: unknown fixture", r.Fixture, strings.Repeat(" ", 0))
	os.Exit(2)
}
