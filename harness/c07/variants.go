// variants.go — re-encoding enumeration plumbing (shared verbatim by c07 and c01).
//
// d=1: every header of the fixture (filtered for the 648 kB EBB) in every alternative
// form, through space.EnumD1. d=2: every pair of alternative forms at two different
// "spine" headers, as (first site fixed by hand) × space.EnumD1 over the later spine
// sites, which is exactly the set space.EnumD2 enumerates, sharded by first site.
// Work is sharded over sites; every shard owns a private clone of the tree.
package main

import (
	"encoding/json"
	"fmt"
	"os"
	"sort"
	"strings"
	"sync"
	"sync/atomic"
	"time"

	"verif/space"
	"verif/vlib"
)

// SiteRef names one changed header: index path + the form it was given.
type SiteRef struct {
	Path  []int  `json:"path"`
	Form  int    `json:"form"`
	Role  string `json:"role"`
	Major byte   `json:"major"`
	Tx    int    `json:"tx"`
}

// FormClass collapses the wider-argument forms: what matters to header-size arithmetic is
// "not the shortest form" versus "indefinite".
func (s SiteRef) FormClass() string {
	if s.Form == space.FormIndef {
		return "indef"
	}
	return "nonmin"
}

// Class is "<role>=<form class>", the canonical class of one changed header.
func (s SiteRef) Class() string { return s.Role + "=" + s.FormClass() }

func (s SiteRef) String() string {
	var sb strings.Builder
	for _, i := range s.Path {
		fmt.Fprintf(&sb, "/%d", i)
	}
	if len(s.Path) == 0 {
		sb.WriteString("/")
	}
	return fmt.Sprintf("%s(%s)->%s", sb.String(), s.Role, space.FormNames[s.Form])
}

// Variant is one re-encoding of a fixture.
type Variant struct {
	Fx    *space.Fixture
	Sites []SiteRef // 0 (the original), 1 or 2 changed headers
	Bytes []byte
}

func (v *Variant) Desc() string {
	if len(v.Sites) == 0 {
		return "original"
	}
	p := make([]string, len(v.Sites))
	for i, s := range v.Sites {
		p[i] = s.String()
	}
	return strings.Join(p, " + ")
}

// ClassKey is the canonical class of the variant: the classes of its changed headers.
func (v *Variant) ClassKey() string {
	if len(v.Sites) == 0 {
		return "original"
	}
	p := make([]string, len(v.Sites))
	for i, s := range v.Sites {
		p[i] = s.Class()
	}
	sort.Strings(p)
	return strings.Join(p, "+")
}

// Replay is what a replay file carries.
type Replay struct {
	Fixture string    `json:"fixture"`
	Type    uint      `json:"type"`
	Sites   []SiteRef `json:"sites"`
	Hex     string    `json:"variant_hex,omitempty"`
	Extra   any       `json:"extra,omitempty"`
}

func (v *Variant) Replay(extra any) Replay {
	r := Replay{Fixture: v.Fx.Name, Type: v.Fx.Type, Sites: v.Sites, Extra: extra}
	if len(v.Bytes) <= 20000 {
		r.Hex = fmt.Sprintf("%x", v.Bytes)
	}
	return r
}

// fxCtx is a private working copy of a fixture's tree.
type fxCtx struct {
	root  *space.Node
	lay   *Layout
	sites []space.Site // d1 sites
	spine []space.Site // d2 sites
}

// ctxPool is a free list of working copies (never dropped by the garbage collector).
type ctxPool struct {
	mu   sync.Mutex
	free []*fxCtx
	New  func() any
}

func (p *ctxPool) Get() any {
	p.mu.Lock()
	if n := len(p.free); n > 0 {
		c := p.free[n-1]
		p.free = p.free[:n-1]
		p.mu.Unlock()
		return c
	}
	p.mu.Unlock()
	return p.New()
}

func (p *ctxPool) Put(c any) {
	p.mu.Lock()
	p.free = append(p.free, c.(*fxCtx))
	p.mu.Unlock()
}

type fxPlan struct {
	fx       *space.Fixture
	orig     *space.Node
	pool     ctxPool
	nSites   int
	nSpine   int
	labelled []bool // per d=1 site: the header is a labelled component/container (explored first)
	filter   func(l *Layout, root *space.Node) func(n *space.Node, path []int) bool
	spineF   func(l *Layout, root *space.Node) func(n *space.Node, path []int) bool
}

// newPlan: spineTx = number of leading transactions whose spine takes part in d=2;
// d1Spine = restrict the d=1 sites of this fixture to its spine (used in the quick tier for
// the large harness-built blocks, whose inner content repeats that of the real fixtures).
// d1Shallow = leave out of d=1 the headers strictly inside a header / output / auxiliary
// data / datum / redeemer data / script item (quick tier, for the three mid-era fixtures;
// the same content classes stay fully enumerated in the other fixtures).
var d1Shallow = map[string]bool{}

var deepRoles = map[string]bool{
	"in-header": true, "in-output": true, "in-aux-value": true, "in-datum": true, "in-redeemer-data": true, "in-script": true,
}

func newPlan(fx *space.Fixture, spineTx, repeatMax int, d1Spine bool) (*fxPlan, error) {
	orig, err := space.Parse(fx.Cbor)
	if err != nil {
		return nil, fmt.Errorf("fixture %s: own reader: %w", fx.Name, err)
	}
	p := &fxPlan{fx: fx, orig: orig}
	p.filter = func(l *Layout, root *space.Node) func(n *space.Node, path []int) bool {
		if l.Family != "ebb" {
			if d1Shallow[fx.Name] {
				return func(n *space.Node, path []int) bool { return !deepRoles[l.RoleAt(root, path)] }
			}
			return nil
		}
		// 648 kB EBB: headers at nesting depth <= 3, and of its stakeholder key list only
		// the first and last 8 entries.
		body := root.Items[1]
		return func(n *space.Node, path []int) bool {
			if len(path) > 3 {
				return false
			}
			if len(path) >= 2 && path[0] == 1 {
				k := len(body.Items)
				return path[1] < 8 || path[1] >= k-8
			}
			return true
		}
	}
	p.spineF = func(l *Layout, root *space.Node) func(n *space.Node, path []int) bool {
		spineRoles := map[string]bool{
			"block": true, "txbodies-array": true, "witnesses-array": true, "aux-map": true, "invalid-array": true,
			"byron-body": true, "txpayload-array": true, "dijkstra-body": true, "txs-array": true, "header": true,
			"ebb-body": true,
		}
		perTx := map[string]bool{
			"txbody-map": true, "outputs-array": true, "output": true, "witness-map": true, "aux-value": true,
			"datums-array": true, "datums-set-tag": true, "datum": true, "redeemers-array": true, "redeemers-map": true,
			"redeemer-entry": true, "redeemer-value": true, "redeemer-data": true, "redeemer-key": true,
			"scripts-array": true, "scripts-set-tag": true, "script": true,
			"txpair-array": true, "byron-tx": true, "byron-inputs": true, "byron-outputs-array": true, "byron-output": true,
			"byron-witnesses": true, "tx-array": true, "aux-key": true,
		}
		// the transactions whose spine is explored: the first spineTx, plus the first
		// transaction that has each optional component (metadata, datums, redeemers, scripts)
		want := map[int]bool{}
		for i := 0; i < len(l.Txs) && i < spineTx; i++ {
			want[i] = true
		}
		var fm, fd, fr, fs bool
		for i, t := range l.Txs {
			if !fm && t.Meta != nil {
				fm, want[i] = true, true
			}
			if !fd && len(t.Datums) > 0 {
				fd, want[i] = true, true
			}
			if !fr && len(t.Redeemers) > 0 {
				fr, want[i] = true, true
			}
			if !fs && len(t.Scripts) > 0 {
				fs, want[i] = true, true
			}
		}
		seenPer := map[string]int{}
		if fx.Type >= TxBase {
			return func(n *space.Node, path []int) bool { return false } // stand-alone artefacts: d=1 only
		}
		return func(n *space.Node, path []int) bool {
			r, ok := l.roles[n]
			if !ok {
				return false
			}
			if r == "header" && repeatMax < 2 {
				return false // quick tier: the header item only shifts what follows; pairs with it are left to the thorough tier
			}
			if spineRoles[r] {
				return true
			}
			if !perTx[r] {
				return false
			}
			ti := l.TxIndexAt(root, path)
			if r == "aux-key" {
				if n.Major != 0 || !want[int(n.Arg)] {
					return false
				}
				return true
			}
			if !want[ti] {
				return false
			}
			// of repeated items (outputs, datums, redeemers, scripts) only the first repeatMax per transaction
			switch r {
			case "output", "byron-output", "datum", "redeemer-entry", "redeemer-value", "redeemer-data", "redeemer-key", "script":
				k := fmt.Sprintf("%d/%s", ti, r)
				seenPer[k]++
				return seenPer[k] <= repeatMax
			}
			return true
		}
	}
	p.pool.New = func() any {
		c := &fxCtx{root: p.orig.Clone()}
		l, err := Locate(c.root, fx.Type)
		if err != nil {
			panic(fmt.Sprintf("fixture %s does not follow its era layout: %v", fx.Name, err))
		}
		c.lay = l
		c.spine = space.Sites(c.root, p.spineF(l, c.root))
		if d1Spine {
			c.sites = c.spine
		} else {
			c.sites = space.Sites(c.root, p.filter(l, c.root))
		}
		return c
	}
	if _, err := Locate(orig, fx.Type); err != nil {
		return nil, fmt.Errorf("fixture %s does not follow its era layout: %w", fx.Name, err)
	}
	c := p.pool.Get().(*fxCtx)
	p.nSites, p.nSpine = len(c.sites), len(c.spine)
	p.labelled = make([]bool, len(c.sites))
	for i, st := range c.sites {
		p.labelled[i] = !strings.HasPrefix(c.lay.RoleAt(c.root, st.Path), "in-")
	}
	p.pool.Put(c)
	return p, nil
}

func (c *fxCtx) ref(s space.Site, form int) SiteRef {
	return SiteRef{Path: s.Path, Form: form, Role: c.lay.RoleAt(c.root, s.Path), Major: s.Node.Major, Tx: c.lay.TxIndexAt(c.root, s.Path)}
}

// enumerator drives the variants of all fixtures through handle, in parallel, honouring a
// soft deadline (a shard that has not started when the deadline passes is skipped and
// reported through the returned counters).
type enumStats struct {
	D1, D2         int64
	SkippedShards  int64
	ShardsTotal    int64
	DeadlineHit    bool
	PerFixtureD1   map[string]int64
	PerFixtureD2   map[string]int64
	PerFixtureSite map[string][2]int
}

// topLevel roles: the containers directly under the block (and the block itself).
var topLevel = map[string]bool{
	"block": true, "header": true, "txbodies-array": true, "witnesses-array": true, "aux-map": true, "invalid-array": true,
	"byron-body": true, "txpayload-array": true, "dijkstra-body": true, "txs-array": true, "ebb-body": true,
}

// enumerate: d2mode 0 = no pairs, 1 = pairs with at least one top-level container, 2 = all spine pairs.
func enumerate(c *vlib.Check, plans []*fxPlan, d2mode int, deadline time.Time, handle func(v *Variant)) *enumStats {
	doD2 := d2mode > 0
	st := &enumStats{PerFixtureD1: map[string]int64{}, PerFixtureD2: map[string]int64{}, PerFixtureSite: map[string][2]int{}}
	var mu sync.Mutex
	// originals first
	for _, p := range plans {
		handle(&Variant{Fx: p.fx, Bytes: p.fx.Cbor})
		st.PerFixtureSite[p.fx.Name] = [2]int{p.nSites, p.nSpine}
	}
	type shard struct {
		p  *fxPlan
		i  int
		d2 bool
	}
	var shards []shard
	// simplest first: all d1 shards (small fixtures first as given), then d2
	// labelled headers (containers and components on the path the property reads) of every
	// artefact first, then the headers deep inside items
	for _, lab := range []bool{true, false} {
		for _, p := range plans {
			for i := 0; i < p.nSites; i++ {
				if p.labelled[i] == lab {
					shards = append(shards, shard{p, i, false})
				}
			}
		}
	}
	if doD2 {
		for _, p := range plans {
			for i := 0; i < p.nSpine; i++ {
				shards = append(shards, shard{p, i, true})
			}
		}
	}
	st.ShardsTotal = int64(len(shards))
	var skipped, d1, d2 int64
	vlib.Parallel(len(shards), func(k int) {
		sh := shards[k]
		if time.Now().After(deadline) {
			atomic.AddInt64(&skipped, 1)
			return
		}
		ctx := sh.p.pool.Get().(*fxCtx)
		defer sh.p.pool.Put(ctx)
		var n int64
		if !sh.d2 {
			s := ctx.sites[sh.i]
			ai := 0
			space.EnumD1(ctx.root, ctx.sites[sh.i:sh.i+1], func(ev space.Variant) bool {
				v := &Variant{Fx: sh.p.fx, Bytes: ev.Bytes, Sites: []SiteRef{ctx.ref(s, s.Alts[ai])}}
				ai++
				handle(v)
				n++
				return true
			})
			atomic.AddInt64(&d1, n)
			mu.Lock()
			st.PerFixtureD1[sh.p.fx.Name] += n
			mu.Unlock()
			return
		}
		a := ctx.spine[sh.i]
		rest := ctx.spine[sh.i+1:]
		if d2mode == 1 && !topLevel[ctx.lay.RoleAt(ctx.root, a.Path)] {
			var f []space.Site
			for _, b := range rest {
				if topLevel[ctx.lay.RoleAt(ctx.root, b.Path)] {
					f = append(f, b)
				}
			}
			rest = f
		}
		old := a.Node.Form
		for _, fa := range a.Alts {
			a.Node.Form = fa
			ra := ctx.ref(a, fa)
			// the order EnumD1 visits (site, alt) pairs of rest
			type sa struct {
				s space.Site
				f int
			}
			var order []sa
			for _, b := range rest {
				for _, fb := range b.Alts {
					order = append(order, sa{b, fb})
				}
			}
			j := 0
			space.EnumD1(ctx.root, rest, func(ev space.Variant) bool {
				b := order[j]
				j++
				v := &Variant{Fx: sh.p.fx, Bytes: ev.Bytes, Sites: []SiteRef{ra, ctx.ref(b.s, b.f)}}
				handle(v)
				n++
				return true
			})
		}
		a.Node.Form = old
		atomic.AddInt64(&d2, n)
		mu.Lock()
		st.PerFixtureD2[sh.p.fx.Name] += n
		mu.Unlock()
	})
	st.D1, st.D2, st.SkippedShards = d1, d2, skipped
	st.DeadlineHit = skipped > 0
	return st
}

// rebuild re-creates the bytes of a replayed variant from the fixture.
func rebuild(fx *space.Fixture, sites []SiteRef) ([]byte, error) {
	root, err := space.Parse(fx.Cbor)
	if err != nil {
		return nil, err
	}
	for _, s := range sites {
		n := root.At(s.Path)
		if n == nil {
			return nil, fmt.Errorf("no node at %v", s.Path)
		}
		n.Form = s.Form
	}
	return root.Encode(), nil
}

func loadReplay(path string) (*Replay, error) {
	b, err := os.ReadFile(path)
	if err != nil {
		return nil, err
	}
	var f struct {
		Replay Replay `json:"replay"`
	}
	if err := json.Unmarshal(b, &f); err != nil {
		return nil, err
	}
	return &f.Replay, nil
}
