#!/bin/bash
here="$(cd "$(dirname "$0")/../.." && pwd)"
exec "$here/bin/e1check" C23 c23 TestC23 ./muxer ./protocol ./protocol/blockfetch -- "$@"
