#!/bin/bash
here="$(cd "$(dirname "$0")/../.." && pwd)"
exec "$here/bin/e1check" C25 c25 TestC25 ./muxer ./protocol ./protocol/localstatequery ./protocol/localtxmonitor ./protocol/localtxsubmission ./protocol/peersharing -- "$@"
