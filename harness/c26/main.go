// C26: transactions are accepted only inside their validity interval.
//
// Space: era (Shelley..Dijkstra) x slot s x validity start x ttl, the bounds taken from
// {absent, 0, s-1, s, s+1, 2^64-1} (Shelley has no start and a mandatory ttl).
// Every transaction is a fully valid, signed, balanced single-input transaction built
// with the verif/space writer and decoded by the real era decoder, so that
// common.VerifyTransaction with the era's full rule list returns nil on the baseline.
// Oracle (restated from the property): Shelley in-interval <=> s <= ttl;
// Allegra+ in-interval <=> (start absent or s >= start) and (ttl absent or s < ttl).
// Verdict: "validation accepts" (no rule of the era's list rejects the variant that does
// not also reject the bound-free baseline) must imply in-interval.
package main

import (
	"encoding/json"
	"fmt"
	"os"
	"sort"
	"strconv"

	"github.com/blinklabs-io/gouroboros/ledger/allegra"
	"github.com/blinklabs-io/gouroboros/ledger/alonzo"
	"github.com/blinklabs-io/gouroboros/ledger/babbage"
	"github.com/blinklabs-io/gouroboros/ledger/common"
	"github.com/blinklabs-io/gouroboros/ledger/conway"
	"github.com/blinklabs-io/gouroboros/ledger/mary"
	"github.com/blinklabs-io/gouroboros/ledger/shelley"
	"verif/vlib"
)

const maxU = ^uint64(0)

// directRule is the era's exported validity-interval rule function.
func directRule(era int) common.UtxoValidationRuleFunc {
	switch era {
	case EraShelley:
		return shelley.UtxoValidateTimeToLive
	case EraAllegra:
		return allegra.UtxoValidateOutsideValidityIntervalUtxo
	case EraMary:
		return mary.UtxoValidateOutsideValidityIntervalUtxo
	case EraAlonzo:
		return alonzo.UtxoValidateOutsideValidityIntervalUtxo
	case EraBabbage:
		return babbage.UtxoValidateOutsideValidityIntervalUtxo
	default: // the Dijkstra list uses the Conway function
		return conway.UtxoValidateOutsideValidityIntervalUtxo
	}
}

type bound struct {
	present bool
	v       uint64
}

func (b bound) String() string {
	if !b.present {
		return "absent"
	}
	return fmt.Sprintf("%d", b.v)
}

// rel describes a present bound relative to the slot (class label).
func rel(b bound, s uint64) string {
	switch {
	case !b.present:
		return "absent"
	case b.v == 0 && s == 0:
		return "zero=slot"
	case b.v == 0:
		return "zero<slot"
	case b.v < s:
		return "<slot"
	case b.v == s:
		return "=slot"
	default:
		return ">slot"
	}
}

func bounds(s uint64) []bound {
	set := map[uint64]bool{0: true, s: true, maxU: true}
	if s > 0 {
		set[s-1] = true
	}
	if s < maxU {
		set[s+1] = true
	}
	var vs []uint64
	for v := range set {
		vs = append(vs, v)
	}
	sort.Slice(vs, func(i, j int) bool { return vs[i] < vs[j] })
	out := []bound{{}}
	for _, v := range vs {
		out = append(out, bound{true, v})
	}
	return out
}

// inInterval is the oracle.
func inInterval(era int, s uint64, start, ttl bound) bool {
	if era == EraShelley {
		return s <= ttl.v // ttl is mandatory in Shelley
	}
	return (!start.present || s >= start.v) && (!ttl.present || s < ttl.v)
}

type tcase struct {
	era        int
	slot       uint64
	start, ttl bound
}

func parseBound(s string) (bound, error) {
	if s == "absent" {
		return bound{}, nil
	}
	v, err := strconv.ParseUint(s, 10, 64)
	return bound{true, v}, err
}

// loadReplay reads a replay file written by c.Violation and returns its single case.
func loadReplay(path string) (tcase, error) {
	var f struct {
		Replay struct{ Era, Slot, Start, Ttl string }
	}
	b, err := os.ReadFile(path)
	if err != nil {
		return tcase{}, err
	}
	if err := json.Unmarshal(b, &f); err != nil {
		return tcase{}, err
	}
	var tc tcase
	for e, n := range EraNames {
		if n == f.Replay.Era {
			tc.era = e
		}
	}
	if tc.era == 0 {
		return tc, fmt.Errorf("unknown era %q", f.Replay.Era)
	}
	if tc.slot, err = strconv.ParseUint(f.Replay.Slot, 10, 64); err != nil {
		return tc, err
	}
	if tc.start, err = parseBound(f.Replay.Start); err != nil {
		return tc, err
	}
	tc.ttl, err = parseBound(f.Replay.Ttl)
	return tc, err
}

func main() {
	c := vlib.New("C26", "exploration")
	slots := []uint64{0, 1, 100, maxU}
	if c.Thorough() {
		slots = []uint64{0, 1, 2, 23, 24, 100, 255, 256, 65535, 65536, 1<<32 - 1, 1 << 32, 1<<63 - 1, 1 << 63, maxU - 1, maxU}
	}
	var cases []tcase
	for _, era := range AllEras {
		for _, s := range slots {
			for _, ttl := range bounds(s) {
				if era == EraShelley {
					if !ttl.present {
						continue // ttl is a mandatory field of a Shelley body
					}
					cases = append(cases, tcase{era, s, bound{}, ttl})
					continue
				}
				for _, st := range bounds(s) {
					cases = append(cases, tcase{era, s, st, ttl})
				}
			}
		}
	}

	key := NewKey(c.Seed, 1)
	in := MkIn(int(c.Seed)+1, 0)
	mk := func(era int, start, ttl bound) *TxRec {
		r := &TxRec{
			Era: era, Inputs: []In{in},
			Outputs: []Out{{Addr: EnterpriseAddr(key), Coin: 999_000}}, Fee: 1_000,
			Signers: []Key{key},
		}
		if start.present {
			r.Start = U64(start.v)
		}
		if ttl.present {
			r.TTL = U64(ttl.v)
		}
		return r
	}
	// per-era state and baseline (no bounds; Shelley: ttl = 2^64-1, which admits every slot)
	type eraCtx struct {
		ls       *StubState
		pp       common.ProtocolParameters
		baseFail []RuleResult
		fullOK   bool
	}
	ctx := map[int]*eraCtx{}
	fullBaseline := map[string]any{}
	for _, era := range AllEras {
		ls := NewStub()
		if err := ls.AddUtxo(era, in, Out{Addr: EnterpriseAddr(key), Coin: 1_000_000}); err != nil {
			c.Internal("utxo %s: %v", EraNames[era], err)
		}
		pp := MakePP(era, NeutralPP())
		b := mk(era, bound{}, bound{})
		if era == EraShelley {
			b = mk(era, bound{}, bound{true, maxU})
		}
		tx, _, err := b.Build()
		if err != nil {
			c.Internal("baseline %s does not decode: %v", EraNames[era], err)
		}
		e := &eraCtx{ls: ls, pp: pp}
		e.baseFail = RunList(Rules(era), tx, 100, ls, pp)
		e.fullOK = Verify(era, tx, 100, ls, pp) == nil
		if len(e.baseFail) > 0 {
			c.Note(fmt.Sprintf("baseline of %s is rejected by unrelated rules %v; those rules are ignored for this era", EraNames[era], names(e.baseFail)))
		}
		fullBaseline[EraNames[era]] = e.fullOK
		ctx[era] = e
	}
	c.Set("baseline_accepted_by_VerifyTransaction", fullBaseline)

	if c.Replay != "" {
		tc, err := loadReplay(c.Replay)
		if err != nil {
			c.Internal("replay: %v", err)
		}
		cases = []tcase{tc}
	}
	type result struct {
		err       error
		raw       []byte
		attr      []RuleResult
		full      error
		accDirect bool
		inconsist bool
	}
	res := make([]result, len(cases))
	vlib.Parallel(len(cases), func(i int) {
		tc := cases[i]
		e := ctx[tc.era]
		rec := mk(tc.era, tc.start, tc.ttl)
		tx, raw, err := rec.Build()
		r := &res[i]
		r.raw, r.err = raw, err
		if err != nil {
			return
		}
		all := RunList(Rules(tc.era), tx, tc.slot, e.ls, e.pp)
		r.attr = Attributable(all, e.baseFail)
		r.full = Verify(tc.era, tx, tc.slot, e.ls, e.pp)
		r.accDirect = directRule(tc.era)(tx, tc.slot, e.ls, e.pp) == nil
		r.inconsist = r.full == nil && len(all) > 0
	})
	// reporting is sequential and in enumeration order (simplest first), so the run is deterministic
	for i, tc := range cases {
		r := res[i]
		en := EraNames[tc.era]
		replay := map[string]any{"era": en, "slot": fmt.Sprint(tc.slot), "start": tc.start.String(), "ttl": tc.ttl.String(),
			"tx_cbor": fmt.Sprintf("%x", r.raw), "rejecting_rules": names(r.attr), "VerifyTransaction": errStr(r.full), "direct_rule_accepts": r.accDirect}
		if r.err != nil {
			// a validity bound is a plain uint in every era's CDDL: the decoder must take it
			c.Violation(fmt.Sprintf("decode|era=%s", en), fmt.Sprintf("well-formed transaction rejected by decoder: %v", r.err), replay)
			continue
		}
		if r.inconsist {
			c.Internal("VerifyTransaction accepted but a rule of the list rejected (%s slot %d)", en, tc.slot)
		}
		want := inInterval(tc.era, tc.slot, tc.start, tc.ttl)
		accList := len(r.attr) == 0
		if r.full == nil {
			c.Add("full_VerifyTransaction_accepts", 1)
		}
		cls := fmt.Sprintf("era=%s|start:%s|ttl:%s", en, rel(tc.start, tc.slot), rel(tc.ttl, tc.slot))
		outcome := "reject"
		if accList {
			outcome = "accept"
		}
		c.Eval(cls, outcome+fmt.Sprintf("/oracle-in-interval=%v", want))
		if tc.slot == 100 && (tc.era == EraShelley || tc.era == EraAllegra || tc.era == EraConway) &&
			(tc.ttl.present && (tc.ttl.v == 100 || tc.ttl.v == 101) && !tc.start.present || tc.start.present && tc.start.v == 101 && !tc.ttl.present) {
			replay["oracle_in_interval"] = want
			replay["list_accepts"] = accList
			c.Sample(replay)
		}
		if accList && !want {
			// which bound is violated -> class of the failing input
			var kc string
			if tc.era == EraShelley {
				if tc.ttl.v == 0 {
					kc = "ttl=0,slot>0"
				} else {
					kc = "ttl-nonzero,slot>ttl"
				}
			} else {
				lowBad := tc.start.present && tc.slot < tc.start.v
				upBad := tc.ttl.present && tc.slot >= tc.ttl.v
				switch {
				case lowBad:
					kc = "slot<start"
				case upBad && tc.ttl.v == 0:
					kc = "ttl-present=0"
				default:
					kc = "ttl-nonzero,slot>=ttl"
				}
			}
			k := fmt.Sprintf("validity-interval|era=%s|%s", en, kc)
			if !r.accDirect {
				k += "|rule-rejects-but-list-accepts"
			}
			c.Violation(k, fmt.Sprintf("era %s: slot %d start %s ttl %s is outside the validity interval but no rule of the era's list rejects it (VerifyTransaction: %q; direct rule accepts: %v)",
				en, tc.slot, tc.start, tc.ttl, errStr(r.full), r.accDirect), replay)
		}
		if !accList && want {
			// the property is one-directional ("accepts only if"); rejections of in-interval
			// transactions caused by the bounds are counted, not reported as violations.
			c.Add("in_interval_but_rejected(converse,not_a_violation)", 1)
		}
	}
	c.Set("rule", "era x slot x start x ttl, bounds from {absent,0,s-1,s,s+1,2^64-1}; distinct = era x relation of each bound to the slot; a rejection counts as caused by the validity bounds iff the rejecting rule does not reject the same transaction without bounds (every rule of the era list is called separately)")
	c.Set("slots", fmt.Sprint(slots))
	c.Assume("ed25519 and blake2b are trusted (used to sign the body hash so that the whole rule list accepts the baseline)")
	c.Assume("Shelley transactions always carry a ttl (mandatory in the Shelley CDDL); the absent case is not part of the Shelley space")
	// free-running -race pass: concurrent callers on their own inputs (state the library shares between calls)
	c.RaceAudit("c26")
	c.Finish()
}
