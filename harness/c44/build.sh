#!/bin/bash
here="$(cd "$(dirname "$0")/../.." && pwd)"
exec "$here/bin/e1check" C44 pipe TestC44 "./pipeline" -- "$@"
