#!/bin/bash
here="$(cd "$(dirname "$0")/../.." && pwd)"
exec "$here/bin/e1check" C43 pipe TestC43 "./pipeline" -- "$@"
