#!/bin/bash
# C45 has its own build: ledger/common/rewards.go is replaced (go build -overlay, nothing is
# written to the repository) by a copy generated from the repository's CURRENT file in which
# every `for … range <map>` iterates in an order the harness owns (see gen/main.go).
# Usage: build.sh [--tier quick|thorough] [--replay file]; VERIF_BUILD_ONLY=1 only builds.
set -u
here="$(cd "$(dirname "$0")/../.." && pwd)"
. "$here/bin/env.sh"
export VERIF_ROOT="$here"
cd "$here"
repo="/repo"
work="$here/.work/c45"
bin="$here/.work/bin/c45"
modflag=""
if [ -n "${VERIF_REPO_OVERRIDE:-}" ]; then
  repo="$VERIF_REPO_OVERRIDE"
  work="$here/.work/c45.override.$$"
  bin="$here/.work/bin/c45.override.$$"
  mkdir -p "$work"
  sed "s#=> /repo#=> ${repo}#" "$here/go.mod" > "$work/go.override.mod"
  cp "$here/go.sum" "$work/go.override.sum"
  modflag="-modfile=$work/go.override.mod"
  export REPO_ROOT="$repo"
  export VERIF_MODFILE="$work/go.override.mod" # the race audit (vlib.RaceAudit) must test the scratch copy too
  trap 'rm -rf "$work" "$bin"' EXIT
fi
mkdir -p "$work" "$here/.work/bin" "$here/evidence" "$here/findings/replay"
if ! out="$($VGO run $modflag ./harness/c45/gen -repo "$repo" -out "$work" 2>&1)"; then
  echo "$out" >&2
  echo "INTERNAL-ERROR check=C45: overlay generator failed" >&2
  exit 2
fi
if ! out="$($VGO build $modflag -overlay "$work/overlay.json" -ldflags "-X main.sitesFile=$work/sites.json" -o "$bin" ./harness/c45 2>&1)"; then
  echo "$out" >&2
  echo "INTERNAL-ERROR check=C45: harness does not build against the current tree" >&2
  exit 2
fi
if [ "${VERIF_BUILD_ONLY:-0}" = "1" ]; then exit 0; fi
"$bin" "$@"
exit $?
