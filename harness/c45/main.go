// C45: reward calculation distributes exactly the reward pot.
//
// Bounded-exhaustive over snapshots of 1..3 pools (multisets of per-pool configurations:
// stake x margin x cost x delegation pattern x blocks) x reward pots x EVERY iteration order
// of the pool maps. Go randomises map iteration per range statement, so the order is not left
// to chance: build.sh builds this harness with `go build -overlay`, replacing
// ledger/common/rewards.go by a copy generated from the repository's current file in which
// loop number i over a map visits the keys sorted by byte i of the key (gen/main.go). Byte i
// of a pool id is that pool's rank in loop i, so the harness dictates the order of every loop
// — jointly (one permutation for all loops) on the full value space and independently per
// loop on a reduced one.
//
// Oracle (the statement itself, evaluated with big integers so that wrap-around shows):
//
//	sum of pool totals = pot, operator + sum of delegator rewards = pool total for each pool,
//	no amount > pot.
package main

import (
	"encoding/json"
	"fmt"
	"math/big"
	"os"
	"runtime/debug"
	"sort"
	"strings"
	"sync"
	"sync/atomic"

	"github.com/blinklabs-io/gouroboros/cbor"
	"github.com/blinklabs-io/gouroboros/ledger/common"
	"verif/vlib"
)

var sitesFile string // set by build.sh (-ldflags -X)

type site struct {
	Index int    `json:"index"`
	Func  string `json:"func"`
	Expr  string `json:"expr"`
	Key   string `json:"key_type"`
	Line  int    `json:"line"`
}

// per-pool configuration
type poolCfg struct {
	Stake   uint64 `json:"stake"`
	MarginN int64  `json:"margin_num"`
	MarginD int64  `json:"margin_den"`
	Cost    uint64 `json:"cost"`
	// 0 no delegator map, 1 one registered delegator, 3 two delegators (no owner), second not registered,
	// 10+b: one owner + one delegator, b = 1*(owner holds 2/3 instead of 1/3) + 2*(owner registered) + 4*(delegator registered);
	// 2 = legacy alias of 16 (owner 1/3, both registered)
	Deleg  int    `json:"delegation"`
	Blocks uint32 `json:"blocks"`
}

func delegName(d int) string {
	switch d {
	case 0:
		return "none"
	case 1:
		return "single"
	case 3:
		return "registered+unregistered"
	case 2:
		d = 16
	}
	b := d - 10
	share, oreg, dreg := "1/3", "unregistered", "unregistered"
	if b&1 != 0 {
		share = "2/3"
	}
	if b&2 != 0 {
		oreg = "registered"
	}
	if b&4 != 0 {
		dreg = "registered"
	}
	return fmt.Sprintf("owner(%s,%s)+delegator(%s)", share, oreg, dreg)
}

func (p poolCfg) String() string {
	return fmt.Sprintf("{stake=%d margin=%d/%d cost=%d deleg=%s blocks=%d}", p.Stake, p.MarginN, p.MarginD, p.Cost, delegName(p.Deleg), p.Blocks)
}

type rcase struct {
	Pools []poolCfg `json:"pools"`
	Pot   uint64    `json:"pot"`
	// Ranks[s][p] = rank of pool p in pool loop number s (s indexes poolSites)
	Ranks [][]int `json:"ranks"`
	A0    string  `json:"pool_influence"` // "3/10" or "nil"
}

var poolSites []site // range-over-map loops inside CalculateRewards

func poolID(c *rcase, p int) common.PoolKeyHash {
	var id common.PoolKeyHash
	for s, st := range poolSites {
		id[st.Index] = byte(c.Ranks[s][p] + 1)
	}
	id[27] = byte(p + 1)
	return id
}

func addrKey(p, d int) common.AddrKeyHash {
	var k common.AddrKeyHash
	k[26], k[27] = byte(p+1), byte(d+1)
	return k
}

func buildSnapshot(c *rcase) (common.AdaPots, common.RewardSnapshot, common.RewardParameters) {
	snap := common.RewardSnapshot{
		PoolStake:          map[common.PoolKeyHash]uint64{},
		DelegatorStake:     map[common.PoolKeyHash]map[common.AddrKeyHash]uint64{},
		PoolParams:         map[common.PoolKeyHash]*common.PoolRegistrationCertificate{},
		StakeRegistrations: map[common.AddrKeyHash]bool{},
		PoolBlocks:         map[common.PoolKeyHash]uint32{},
	}
	for p, pc := range c.Pools {
		id := poolID(c, p)
		snap.PoolStake[id] = pc.Stake
		snap.TotalActiveStake += pc.Stake
		snap.PoolBlocks[id] = pc.Blocks
		snap.TotalBlocksInEpoch += pc.Blocks
		cert := &common.PoolRegistrationCertificate{Operator: id, Cost: pc.Cost, Margin: cbor.Rat{Rat: big.NewRat(pc.MarginN, pc.MarginD)}}
		switch pc.Deleg {
		case 1:
			snap.DelegatorStake[id] = map[common.AddrKeyHash]uint64{addrKey(p, 0): pc.Stake}
			snap.StakeRegistrations[addrKey(p, 0)] = true
		case 2, 10, 11, 12, 13, 14, 15, 16, 17:
			b := pc.Deleg - 10
			if pc.Deleg == 2 {
				b = 6
			}
			own := pc.Stake / 3
			if b&1 != 0 {
				own = pc.Stake - pc.Stake/3
			}
			snap.DelegatorStake[id] = map[common.AddrKeyHash]uint64{addrKey(p, 0): own, addrKey(p, 1): pc.Stake - own}
			if b&2 != 0 {
				snap.StakeRegistrations[addrKey(p, 0)] = true
			}
			if b&4 != 0 {
				snap.StakeRegistrations[addrKey(p, 1)] = true
			}
			cert.PoolOwners = []common.AddrKeyHash{addrKey(p, 0)}
		case 3:
			half := pc.Stake / 2
			snap.DelegatorStake[id] = map[common.AddrKeyHash]uint64{addrKey(p, 0): pc.Stake - half, addrKey(p, 1): half}
			snap.StakeRegistrations[addrKey(p, 0)] = true
		}
		snap.PoolParams[id] = cert
	}
	params := common.RewardParameters{}
	if c.A0 != "nil" {
		params.PoolInfluence = big.NewRat(3, 10)
	}
	return common.AdaPots{Reserves: 13_000_000_000_000_000, Treasury: 1_000_000_000_000_000, Rewards: c.Pot}, snap, params
}

type verdictT struct {
	outcome string
	viol    []string // invariant names violated
	detail  string
}

var two53 = uint64(1) << 53

func potClass(pot uint64) string {
	if pot >= two53 {
		return "pot>=2^53"
	}
	return "pot<2^53"
}

func evaluate(c *rcase) (v verdictT) {
	pots, snap, params := buildSnapshot(c)
	defer func() {
		if r := recover(); r != nil {
			v = verdictT{outcome: "panic", detail: fmt.Sprint(r)}
		}
	}()
	res, err := common.CalculateRewards(pots, snap, params)
	if err != nil {
		return verdictT{outcome: "error"}
	}
	if res == nil {
		return verdictT{outcome: "nil-result"}
	}
	pot := new(big.Int).SetUint64(c.Pot)
	// what the call says it distributed: the pot unless it explicitly kept it
	distributed := new(big.Int).Sub(pot, new(big.Int).SetUint64(res.UpdatedPots.Rewards))
	if res.UpdatedPots.Rewards == c.Pot && len(res.PoolRewards) == 0 {
		return verdictT{outcome: "nothing-distributed"}
	}
	sum := new(big.Int)
	var viol []string
	var det []string
	add := func(name, d string) {
		for _, x := range viol {
			if x == name {
				det = append(det, d)
				return
			}
		}
		viol = append(viol, name)
		det = append(det, d)
	}
	ids := make([]common.PoolKeyHash, 0, len(res.PoolRewards))
	for id := range res.PoolRewards {
		ids = append(ids, id)
	}
	sort.Slice(ids, func(i, j int) bool { return ids[i][27] < ids[j][27] })
	for _, id := range ids {
		pr := res.PoolRewards[id]
		pn := int(id[27]) - 1
		t := new(big.Int).SetUint64(pr.TotalRewards)
		sum.Add(sum, t)
		inner := new(big.Int).SetUint64(pr.OperatorRewards)
		if pr.OperatorRewards > c.Pot {
			add("amount>pot", fmt.Sprintf("pool#%d operator=%d", pn, pr.OperatorRewards))
		}
		if pr.TotalRewards > c.Pot {
			add("amount>pot", fmt.Sprintf("pool#%d total=%d", pn, pr.TotalRewards))
		}
		for _, d := range pr.DelegatorRewards {
			inner.Add(inner, new(big.Int).SetUint64(d))
			if d > c.Pot {
				add("amount>pot", fmt.Sprintf("pool#%d delegator=%d", pn, d))
			}
		}
		if inner.Cmp(t) != 0 {
			add("operator+delegators!=pool-total", fmt.Sprintf("pool#%d operator+delegators=%s total=%s", pn, inner, t))
		}
	}
	if sum.Cmp(distributed) != 0 || distributed.Cmp(pot) != 0 {
		add("sum-of-pool-totals!=pot", fmt.Sprintf("sum=%s pot=%s (UpdatedPots.Rewards=%d)", sum, pot, res.UpdatedPots.Rewards))
	}
	if res.TotalRewards != c.Pot {
		add("sum-of-pool-totals!=pot", fmt.Sprintf("result.TotalRewards=%d pot=%d", res.TotalRewards, c.Pot))
	}
	if len(viol) == 0 {
		return verdictT{outcome: "ok"}
	}
	return verdictT{outcome: "violation", viol: viol, detail: strings.Join(det, "; ")}
}

// ---------------------------------------------------------------- enumeration helpers

func perms(n int) [][]int {
	var out [][]int
	p := make([]int, n)
	used := make([]bool, n)
	var rec func(i int)
	rec = func(i int) {
		if i == n {
			out = append(out, append([]int{}, p...))
			return
		}
		for v := 0; v < n; v++ {
			if !used[v] {
				used[v] = true
				p[i] = v
				rec(i + 1)
				used[v] = false
			}
		}
	}
	rec(0)
	return out
}

// multisets of size n over [0,m): non-decreasing index tuples
func multisets(m, n int, f func(idx []int)) {
	idx := make([]int, n)
	var rec func(pos, from int)
	rec = func(pos, from int) {
		if pos == n {
			f(idx)
			return
		}
		for x := from; x < m; x++ {
			idx[pos] = x
			rec(pos+1, x)
		}
	}
	rec(0, 0)
}

type found struct {
	ord  int64
	c    rcase
	what string
}

type collector struct {
	mu         sync.Mutex
	best       map[string]*found
	evals      atomic.Int64
	nontr      atomic.Int64
	outc       sync.Map
	byPot      sync.Map // "pot|invariant" -> count
	firstByPot map[string]*found
}

func (k *collector) outcome(o string, n int64) {
	v, _ := k.outc.LoadOrStore(o, new(atomic.Int64))
	v.(*atomic.Int64).Add(n)
}

func (k *collector) violation(key string, ord int64, c *rcase, what string) {
	k.mu.Lock()
	if b, ok := k.best[key]; !ok || ord < b.ord {
		cc := *c
		cc.Pools = append([]poolCfg{}, c.Pools...)
		cc.Ranks = nil
		for _, r := range c.Ranks {
			cc.Ranks = append(cc.Ranks, append([]int{}, r...))
		}
		k.best[key] = &found{ord, cc, what}
	}
	k.mu.Unlock()
}

func describeOrder(c *rcase) string {
	var parts []string
	for s, st := range poolSites {
		o := make([]int, len(c.Pools))
		for p, r := range c.Ranks[s] {
			o[r] = p
		}
		parts = append(parts, fmt.Sprintf("loop@%d(%s):%v", st.Line, st.Expr, o))
	}
	return strings.Join(parts, " ")
}

func (k *collector) run(c *rcase, ord int64) {
	v := evaluate(c)
	k.evals.Add(1)
	if v.outcome != "nothing-distributed" && v.outcome != "error" {
		k.nontr.Add(1)
	}
	k.outcome(v.outcome, 1)
	if v.outcome == "violation" {
		for _, name := range v.viol {
			pk := fmt.Sprintf("pot=%d|%s", c.Pot, name)
			bp, _ := k.byPot.LoadOrStore(pk, new(atomic.Int64))
			bp.(*atomic.Int64).Add(1)
			key := fmt.Sprintf("CalculateRewards|%s|%s", name, potClass(c.Pot))
			// format the (long) description only when this case would replace the recorded one
			k.mu.Lock()
			b1, ok1 := k.firstByPot[pk]
			b2, ok2 := k.best[key]
			k.mu.Unlock()
			need1, need2 := !ok1 || ord < b1.ord, !ok2 || ord < b2.ord
			if !need1 && !need2 {
				continue
			}
			what := fmt.Sprintf("%s; pot=%d pools=%v order: %s", v.detail, c.Pot, c.Pools, describeOrder(c))
			if need1 {
				k.mu.Lock()
				if b, ok := k.firstByPot[pk]; !ok || ord < b.ord {
					k.firstByPot[pk] = &found{ord: ord, what: what}
				}
				k.mu.Unlock()
			}
			if need2 {
				k.violation(key, ord, c, what)
			}
		}
	}
	if v.outcome == "nil-result" {
		k.violation("CalculateRewards|nil-result-without-error", ord, c, "nil result and nil error")
	}
}

// symmetric duplicates: identical pool configurations must appear in rank-vector order
func canonical(pools []int, ranks [][]int) bool {
	for a := 0; a < len(pools); a++ {
		for b := a + 1; b < len(pools); b++ {
			if pools[a] != pools[b] {
				continue
			}
			for s := range ranks {
				if ranks[s][a] != ranks[s][b] {
					if ranks[s][a] > ranks[s][b] {
						return false
					}
					break
				}
			}
		}
	}
	return true
}

func main() {
	c := vlib.New("C45", "exploration")
	debug.SetGCPercent(800) // millions of tiny short-lived snapshots
	if sitesFile == "" {
		c.Internal("built without harness/c45/build.sh: the iteration order of the reward maps is not owned")
	}
	b, err := os.ReadFile(sitesFile)
	if err != nil {
		c.Internal("sites: %v", err)
	}
	var sites []site
	if err := json.Unmarshal(b, &sites); err != nil {
		c.Internal("sites: %v", err)
	}
	for _, s := range sites {
		if s.Func == "CalculateRewards" {
			poolSites = append(poolSites, s)
		}
	}
	if len(poolSites) == 0 {
		c.Internal("no pool loop found in CalculateRewards (sites: %s)", string(b))
	}
	col := &collector{best: map[string]*found{}, firstByPot: map[string]*found{}}

	if c.Replay != "" {
		rb, err := os.ReadFile(c.Replay)
		if err != nil {
			c.Internal("replay: %v", err)
		}
		var f struct {
			Replay rcase `json:"replay"`
		}
		if err := json.Unmarshal(rb, &f); err != nil {
			c.Internal("replay: %v", err)
		}
		if len(f.Replay.Ranks) != len(poolSites) {
			c.Internal("replay file has %d loop orders, the current rewards.go has %d pool loops", len(f.Replay.Ranks), len(poolSites))
		}
		col.run(&f.Replay, 0)
		finish(c, col, sites, true)
	}

	// ---- the order really is owned: identical input => identical output, 64 times
	probe := rcase{Pools: []poolCfg{{Stake: 1_000_000, MarginN: 0, MarginD: 1, Deleg: 1, Blocks: 1}, {Stake: 1_000_000, MarginN: 0, MarginD: 1, Deleg: 1, Blocks: 1}, {Stake: 1_000_000, MarginN: 0, MarginD: 1, Deleg: 1, Blocks: 1}}, Pot: 7, A0: "3/10"}
	sig := func(rc *rcase) string {
		pots, snap, params := buildSnapshot(rc)
		res, err := common.CalculateRewards(pots, snap, params)
		if err != nil || res == nil {
			return "err"
		}
		var s []string
		for id, pr := range res.PoolRewards {
			s = append(s, fmt.Sprintf("%d:%d", id[27], pr.TotalRewards))
		}
		sort.Strings(s)
		return strings.Join(s, ",")
	}
	seenSig := map[string]bool{}
	for _, pm := range perms(3) {
		probe.Ranks = nil
		for range poolSites {
			probe.Ranks = append(probe.Ranks, pm)
		}
		first := sig(&probe)
		for i := 0; i < 64; i++ {
			if sig(&probe) != first {
				c.Internal("map iteration order is not owned: the same snapshot gave different results (overlay not in effect?)")
			}
		}
		seenSig[first] = true
	}
	c.Set("order_sensitive_probe", fmt.Sprintf("3 equal pools, pot 7: %d different results over the 6 orders (1 = order-insensitive code)", len(seenSig)))

	// ---- alphabets
	stakes := []uint64{0, 1_000_000, 15_000_000_000_000_000}
	margins := [][2]int64{{0, 1}, {1, 2}, {1, 1}}
	costs := []uint64{0, 340_000_000}
	blocks := []uint32{0, 1}
	pots := []uint64{7, 1_000_000_000, 10_000_000_000_000, two53 + 1, two53 + 3, 45_000_000_000_000_000}
	if c.Thorough() {
		pots = []uint64{1, 7, 1_000_000_000, 10_000_000_000_000, two53 + 1, two53 + 3, 45_000_000_000_000_000}
	}
	mk := func(stakes []uint64, margins [][2]int64, costs []uint64, delegs []int) []poolCfg {
		var out []poolCfg
		for _, s := range stakes {
			for _, m := range margins {
				for _, co := range costs {
					for _, d := range delegs {
						for _, bl := range blocks {
							out = append(out, poolCfg{Stake: s, MarginN: m[0], MarginD: m[1], Cost: co, Deleg: d, Blocks: bl})
						}
					}
				}
			}
		}
		return out
	}
	// delegation / registration patterns: the full owner x delegator registration grid with the
	// owner's stake smaller / larger than the delegator's for one pool, a colliding selection for
	// two and three pools
	allOwner := []int{10, 11, 12, 13, 14, 15, 16, 17}
	delegs1 := append([]int{1, 3}, allOwner...)
	delegs2 := []int{16, 15, 3, 11}
	delegs3 := []int{16, 15}
	stakes1 := stakes
	margins3 := [][2]int64{{0, 1}, {1, 1}}
	if c.Thorough() {
		delegs1 = append([]int{0, 1, 3}, allOwner...)
		delegs2 = delegs1
		stakes1 = []uint64{0, 1, 1_000_000, 15_000_000_000_000_000}
		margins3 = margins
	}
	alphaN := map[int][]poolCfg{
		1: mk(stakes1, margins, costs, delegs1),
		2: mk(stakes, margins, costs, delegs2),
		3: mk(stakes, margins3, costs, delegs3),
	}
	// reduced alphabet for independent per-loop orders
	alphaR := mk(stakes, [][2]int64{{0, 1}, {1, 1}}, []uint64{0}, []int{1})
	alphaR3 := alphaR
	if !c.Thorough() {
		alphaR3 = mk(stakes, [][2]int64{{0, 1}}, []uint64{0}, []int{1})
	}

	type work struct {
		idx []int
		n   int
	}
	// (1) joint order: one permutation shared by all pool loops, full alphabet
	var ord atomic.Int64
	for n := 1; n <= 3; n++ {
		var ws []work
		alpha := alphaN[n]
		multisets(len(alpha), n, func(idx []int) { ws = append(ws, work{append([]int{}, idx...), n}) })
		pm := perms(n)
		base := ord.Load()
		per := int64(len(pots) * len(pm))
		vlib.Parallel(len(ws), func(wi int) {
			w := ws[wi]
			rc := rcase{A0: "3/10", Pools: make([]poolCfg, n), Ranks: make([][]int, len(poolSites))}
			for i, x := range w.idx {
				rc.Pools[i] = alpha[x]
			}
			o := base + int64(wi)*per
			for _, pot := range pots {
				rc.Pot = pot
				for _, p := range pm {
					o++
					for s := range rc.Ranks {
						rc.Ranks[s] = p
					}
					if !canonical(w.idx, rc.Ranks[:1]) {
						continue
					}
					col.run(&rc, o)
				}
			}
		})
		ord.Store(base + int64(len(ws))*per)
	}
	jointEvals := col.evals.Load()
	// (2) independent orders per loop, reduced alphabet
	for n := 2; n <= 3; n++ {
		var ws []work
		alphaR := alphaR
		if n == 3 {
			alphaR = alphaR3
		}
		multisets(len(alphaR), n, func(idx []int) { ws = append(ws, work{append([]int{}, idx...), n}) })
		pm := perms(n)
		combos := 1
		for range poolSites {
			combos *= len(pm)
		}
		base := ord.Load()
		per := int64(len(pots) * combos)
		a0s := []string{"3/10"}
		if c.Thorough() && n == 2 {
			a0s = []string{"3/10", "nil"}
		}
		vlib.Parallel(len(ws), func(wi int) {
			w := ws[wi]
			rc := rcase{Pools: make([]poolCfg, n), Ranks: make([][]int, len(poolSites))}
			for i, x := range w.idx {
				rc.Pools[i] = alphaR[x]
			}
			o := base + int64(wi)*per
			for _, pot := range pots {
				rc.Pot = pot
				for code := 0; code < combos; code++ {
					o++
					x := code
					for s := range rc.Ranks {
						rc.Ranks[s] = pm[x%len(pm)]
						x /= len(pm)
					}
					if !canonical(w.idx, rc.Ranks) {
						continue
					}
					for _, a0 := range a0s {
						rc.A0 = a0
						col.run(&rc, o)
					}
				}
			}
		})
		ord.Store(base + int64(len(ws))*per)
	}
	c.Set("joint_order_cases", jointEvals)
	c.Set("independent_order_cases", col.evals.Load()-jointEvals)
	c.Set("pool_alphabet_1_pool", len(alphaN[1]))
	c.Set("pool_alphabet_2_pools", len(alphaN[2]))
	c.Set("pool_alphabet_3_pools", len(alphaN[3]))
	c.Set("pool_alphabet_independent_orders_2_pools", len(alphaR))
	c.Set("pool_alphabet_independent_orders_3_pools", len(alphaR3))
	c.Set("pots", pots)
	finish(c, col, sites, false)
}

func finish(c *vlib.Check, col *collector, sites []site, replay bool) {
	keys := make([]string, 0, len(col.best))
	for k := range col.best {
		keys = append(keys, k)
	}
	sort.Strings(keys)
	for _, k := range keys {
		f := col.best[k]
		c.Violation(k, f.what, f.c)
	}
	oc := map[string]int64{}
	col.outc.Range(func(k, v any) bool { oc[k.(string)] = v.(*atomic.Int64).Load(); return true })
	c.Set("evaluations", col.evals.Load())
	c.Set("distinct_nontrivial", col.nontr.Load())
	c.Set("outcomes", oc)
	vbp := map[string]int64{}
	col.byPot.Range(func(k, v any) bool { vbp[k.(string)] = v.(*atomic.Int64).Load(); return true })
	if len(vbp) > 0 {
		c.Set("violating_cases_by_pot_and_invariant", vbp)
		fv := map[string]string{}
		for k, f := range col.firstByPot {
			fv[k] = f.what
		}
		c.Set("first_violating_case_by_pot_and_invariant", fv)
	}
	var sl []string
	for _, s := range sites {
		sl = append(sl, fmt.Sprintf("#%d %s line %d: range %s (key %s)", s.Index, s.Func, s.Line, s.Expr, s.Key))
	}
	c.Set("owned_map_loops", sl)
	// written-out samples
	ex := rcase{A0: "3/10", Pot: 7, Pools: []poolCfg{{Stake: 1_000_000, MarginN: 1, MarginD: 2, Cost: 0, Deleg: 2, Blocks: 1}, {Stake: 15_000_000_000_000_000, MarginN: 0, MarginD: 1, Cost: 340_000_000, Deleg: 3, Blocks: 1}}}
	for range poolSites {
		ex.Ranks = append(ex.Ranks, []int{1, 0})
	}
	_, snap, _ := buildSnapshot(&ex)
	pots, _, params := buildSnapshot(&ex)
	if res, err := common.CalculateRewards(pots, snap, params); err == nil && res != nil {
		var rs []string
		for id, pr := range res.PoolRewards {
			rs = append(rs, fmt.Sprintf("pool#%d total=%d operator=%d delegators=%v", id[27]-1, pr.TotalRewards, pr.OperatorRewards, len(pr.DelegatorRewards)))
		}
		sort.Strings(rs)
		c.Sample(map[string]any{"case": ex, "order": describeOrder(&ex), "result": rs, "verdict": evaluate(&ex).outcome})
	}
	if replay {
		c.Set("rule", "replay of one recorded case")
	} else {
		c.Set("rule", "snapshots = multisets of 1..3 pool configurations (stake x margin x cost x delegation pattern x blocks) x pots x every iteration order of the pool maps: jointly (one permutation for all range-over-map loops of CalculateRewards) on the full alphabet, independently per loop on a reduced alphabet; identical pool configurations are not permuted among themselves; a case is non-trivial when something is distributed (not the 'no active stake' early exit, not an error); all cases are distinct by construction")
	}
	c.Assume("iteration order of every `range <map>` in ledger/common/rewards.go is dictated by the harness through a build-time overlay generated from the current file (keys sorted by a per-loop rank byte); all other code is the repository's")
	c.Assume("a result that keeps the pot (UpdatedPots.Rewards = pot, no pool rewards: no active stake) is treated as 'nothing distributed', not as a violation of sum = pot")
	c.Assume("delegator-map loops (distributePoolRewards) are iterated in one fixed order per snapshot: their arithmetic is integer addition; only pool-map orders are permuted")
	if !replay {
		// free-running -race pass: concurrent callers on their own snapshots (state the library shares between calls)
		c.RaceAudit("c45")
	}
	c.Finish()
}
