// gen rewrites every `for … range <map>` of ledger/common/rewards.go (taken from the
// repository's current working tree) into iteration over the map's keys in an order the
// harness owns: keys are sorted by the byte at position <site index> of the key, then by
// the whole key. The harness therefore chooses the iteration order of every loop
// independently by *naming* the pools (byte i of a pool id = its rank in loop i).
// Nothing is written to the repository: the result is used through `go build -overlay`.
//
// Map-ness is decided by go/types on the package's own declarations (imports are stubbed
// and type errors ignored: every range expression in question has a type built from
// types declared in ledger/common itself). A range over a map whose operand is not a
// side-effect-free expression makes the generator fail (exit 2) rather than guess.
package main

import (
	"encoding/json"
	"flag"
	"fmt"
	"go/ast"
	"go/build"
	"go/parser"
	"go/token"
	"go/types"
	"os"
	"path/filepath"
	"sort"
	"strings"
)

type fakeImporter struct{ pkgs map[string]*types.Package }

func (f *fakeImporter) Import(path string) (*types.Package, error) {
	if p, ok := f.pkgs[path]; ok {
		return p, nil
	}
	name := path[strings.LastIndex(path, "/")+1:]
	p := types.NewPackage(path, name)
	p.MarkComplete()
	f.pkgs[path] = p
	return p, nil
}

type site struct {
	Index int    `json:"index"`
	Func  string `json:"func"`
	Expr  string `json:"expr"`
	Key   string `json:"key_type"`
	Line  int    `json:"line"`
}

func die(format string, a ...any) {
	fmt.Fprintf(os.Stderr, "INTERNAL-ERROR check=C45 gen: "+format+"\n", a...)
	os.Exit(2)
}

func pure(e ast.Expr) bool {
	switch x := e.(type) {
	case *ast.Ident:
		return true
	case *ast.SelectorExpr:
		return pure(x.X)
	case *ast.IndexExpr:
		return pure(x.X) && pure(x.Index)
	case *ast.ParenExpr:
		return pure(x.X)
	case *ast.BasicLit:
		return true
	}
	return false
}

func main() {
	repo := flag.String("repo", "/repo", "repository root")
	out := flag.String("out", "", "output directory")
	flag.Parse()
	if *out == "" {
		die("-out required")
	}
	dir := filepath.Join(*repo, "ledger", "common")
	target := filepath.Join(dir, "rewards.go")
	bp, err := build.Default.ImportDir(dir, 0)
	if err != nil {
		die("list %s: %v", dir, err)
	}
	fset := token.NewFileSet()
	var files []*ast.File
	var tf *ast.File
	for _, name := range bp.GoFiles {
		f, err := parser.ParseFile(fset, filepath.Join(dir, name), nil, parser.ParseComments)
		if err != nil {
			die("parse %s: %v", name, err)
		}
		files = append(files, f)
		if name == "rewards.go" {
			tf = f
		}
	}
	if tf == nil {
		die("rewards.go not among the package files")
	}
	info := &types.Info{Types: map[ast.Expr]types.TypeAndValue{}}
	conf := types.Config{Importer: &fakeImporter{pkgs: map[string]*types.Package{}}, Error: func(error) {}}
	_, _ = conf.Check(bp.ImportPath, fset, files, info)

	src, err := os.ReadFile(target)
	if err != nil {
		die("%v", err)
	}
	type edit struct {
		from, to int
		text     string
	}
	var edits []edit
	var sites []site
	unknown := 0
	for _, d := range tf.Decls {
		fd, ok := d.(*ast.FuncDecl)
		if !ok || fd.Body == nil {
			continue
		}
		ast.Inspect(fd.Body, func(n ast.Node) bool {
			rs, ok := n.(*ast.RangeStmt)
			if !ok {
				return true
			}
			tv, ok := info.Types[rs.X]
			if !ok || tv.Type == nil || tv.Type == types.Typ[types.Invalid] {
				unknown++
				fmt.Fprintf(os.Stderr, "gen: cannot type range operand at %s\n", fset.Position(rs.Pos()))
				return true
			}
			mt, ok := tv.Type.Underlying().(*types.Map)
			if !ok {
				return true
			}
			if !pure(rs.X) {
				die("range over a map with a non-trivial operand at %s", fset.Position(rs.Pos()))
			}
			idx := len(sites)
			off := func(p token.Pos) int { return fset.Position(p).Offset }
			xs := string(src[off(rs.X.Pos()):off(rs.X.End())])
			kv := fmt.Sprintf("verifK%d", idx)
			asg := ":="
			if rs.Tok == token.ASSIGN {
				asg = "="
			}
			var b strings.Builder
			fmt.Fprintf(&b, "for _, %s := range verifSortedKeys(%s, %d) {", kv, xs, idx)
			name := func(e ast.Expr) string {
				if e == nil {
					return ""
				}
				s := string(src[off(e.Pos()):off(e.End())])
				if s == "_" {
					return ""
				}
				return s
			}
			if k := name(rs.Key); k != "" {
				fmt.Fprintf(&b, " %s %s %s;", k, asg, kv)
			}
			if v := name(rs.Value); v != "" {
				fmt.Fprintf(&b, " %s %s (%s)[%s];", v, asg, xs, kv)
			}
			from, to := off(rs.For), off(rs.Body.Lbrace)+1
			b.WriteString(strings.Repeat("\n", strings.Count(string(src[from:to]), "\n"))) // keep line numbers
			edits = append(edits, edit{from, to, b.String()})
			sites = append(sites, site{idx, fd.Name.Name, xs, types.TypeString(mt.Key(), func(p *types.Package) string { return "" }), fset.Position(rs.Pos()).Line})
			return true
		})
	}
	if unknown > 0 {
		die("%d range operand(s) could not be typed; refusing to guess which loops are over maps", unknown)
	}
	if len(sites) == 0 {
		die("no range-over-map loop found in rewards.go (file reorganised?)")
	}
	if len(sites) > 24 {
		die("%d loops: more than the 24 rank bytes of a key", len(sites))
	}
	sort.Slice(edits, func(i, j int) bool { return edits[i].from > edits[j].from })
	outSrc := string(src)
	for _, e := range edits {
		outSrc = outSrc[:e.from] + e.text + outSrc[e.to:]
	}
	if err := os.MkdirAll(*out, 0o755); err != nil {
		die("%v", err)
	}
	rw := filepath.Join(*out, "rewards.go")
	hp := filepath.Join(*out, "verif_order_c45.go")
	if err := os.WriteFile(rw, []byte(outSrc), 0o644); err != nil {
		die("%v", err)
	}
	helper := `// generated by verif/harness/c45/gen — never part of the repository
package common

import (
	"bytes"
	"fmt"
	"sort"
)

func verifKeyBytes(k any) []byte {
	switch v := k.(type) {
	case Blake2b224:
		return v[:]
	case Blake2b256:
		return v[:]
	case string:
		return []byte(v)
	case []byte:
		return v
	}
	return []byte(fmt.Sprint(k))
}

// verifSortedKeys returns the keys of m ordered by the byte at position site of the key,
// then by the whole key.
func verifSortedKeys[M ~map[K]V, K comparable, V any](m M, site int) []K {
	type kb struct {
		k K
		b []byte
	}
	ks := make([]kb, 0, len(m))
	for k := range m {
		ks = append(ks, kb{k, verifKeyBytes(any(k))})
	}
	sort.Slice(ks, func(i, j int) bool {
		a, b := ks[i].b, ks[j].b
		if site < len(a) && site < len(b) && a[site] != b[site] {
			return a[site] < b[site]
		}
		return bytes.Compare(a, b) < 0
	})
	out := make([]K, len(ks))
	for i := range ks {
		out[i] = ks[i].k
	}
	return out
}
`
	if err := os.WriteFile(hp, []byte(helper), 0o644); err != nil {
		die("%v", err)
	}
	ov := map[string]any{"Replace": map[string]string{
		target:                                   rw,
		filepath.Join(dir, "verif_order_c45.go"): hp,
	}}
	b, _ := json.MarshalIndent(ov, "", " ")
	if err := os.WriteFile(filepath.Join(*out, "overlay.json"), b, 0o644); err != nil {
		die("%v", err)
	}
	sb, _ := json.MarshalIndent(sites, "", " ")
	if err := os.WriteFile(filepath.Join(*out, "sites.json"), sb, 0o644); err != nil {
		die("%v", err)
	}
	fmt.Fprintf(os.Stderr, "gen: %d range-over-map loops rewritten\n", len(sites))
}
