#!/bin/bash
here="$(cd "$(dirname "$0")/../.." && pwd)"
exec "$here/bin/e1check" C10 c10 TestC10 ./muxer ./protocol -- "$@"
