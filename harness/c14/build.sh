#!/bin/bash
here="$(cd "$(dirname "$0")/../.." && pwd)"
exec "$here/bin/e1check" C14 c14 TestC14 ./muxer ./protocol/... -- "$@"
