// C40: produced headers validate, and tampered ones do not.
//
// Real keys (ed25519 cold key, repository VRF and depth-6 KES provers, opcert signed over
// the Cardano signable) for 2 pools; headers are produced by the real
// BlockBuilder.BuildHeader for slots the pool really leads (leadership decided by the real
// threshold code under a 60/40 stake distribution), in both layouts (Praos 10-field,
// TPraos 15-field), at KES evolutions {0, last valid} (thorough: more) and at the two
// periods just outside the certificate's window.
//
// Two validation pipelines judge every header:
//
//	consensus side: HeaderValidator.ValidateHeader (input derived field by field from the
//	                header, header body bytes serialised by verif/space from the CDDL)
//	ledger side:    the header + an (empty) body assembled into block CBOR by verif/space,
//	                decoded by ledger.NewBlockFromCbor, then ledger.VerifyBlock AND
//	                ledger.ValidateOpCert (the opcert mechanism the property is anchored in)
//
// Oracle: the produced header is accepted by both pipelines; every single-field mutant
// (regime A: field changed, KES signature left alone; regime B: field changed, header body
// re-serialised and re-signed with the genuine hot key at the matching evolution — plus
// forged operational certificates signed with other keys), every changed body and every
// header at a KES period outside the window is rejected by both. Under regime B a pipeline
// is only required to refuse when something other than the KES signature binds the field
// (see mustRefuseResigned).
package main

import (
	"bytes"
	"crypto/ed25519"
	"crypto/sha256"
	"encoding/binary"
	"encoding/hex"
	"encoding/json"
	"errors"
	"fmt"
	"math/big"
	"os"
	"sort"
	"strings"
	"sync"

	"golang.org/x/crypto/blake2b"

	"github.com/blinklabs-io/gouroboros/consensus"
	"github.com/blinklabs-io/gouroboros/kes"
	"github.com/blinklabs-io/gouroboros/ledger"
	lcommon "github.com/blinklabs-io/gouroboros/ledger/common"
	"verif/space"
	"verif/vlib"
)

const (
	spkp     = 129600
	maxEvo   = 62
	startKES = 10 // opcert start period
)

var fCoeff = big.NewRat(1, 20)

// ------------------------------------------------------------------ keys

type kesSigner struct {
	sk  *kes.SecretKey
	pub []byte
	evo uint64
}

func (k *kesSigner) Sign(m []byte) ([]byte, error) { return kes.Sign(k.sk, k.evo, m) }
func (k *kesSigner) PublicKey() []byte             { return k.pub }
func (k *kesSigner) Period() uint64                { return k.evo }

func newKES(seed []byte, evo uint64) *kesSigner {
	sk, pub, err := kes.KeyGen(kes.CardanoKesDepth, seed)
	if err != nil {
		panic(err)
	}
	for i := uint64(0); i < evo; i++ {
		if sk, err = kes.Update(sk); err != nil {
			panic(err)
		}
	}
	return &kesSigner{sk, pub, evo}
}

type pool struct {
	name     string
	coldPriv ed25519.PrivateKey
	coldPub  []byte
	kesSeed  []byte
	kesPub   []byte
	vrf      *consensus.SimpleVRFSigner
	stake    uint64
}

func seedBytes(label string, seed int64) []byte {
	h := sha256.Sum256([]byte(fmt.Sprintf("verif-c40|%s|%d", label, seed)))
	return h[:]
}

func newPool(name string, stake uint64, seed int64) *pool {
	p := &pool{name: name, stake: stake}
	p.coldPriv = ed25519.NewKeyFromSeed(seedBytes("cold-"+name, seed))
	p.coldPub = []byte(p.coldPriv.Public().(ed25519.PublicKey))
	p.kesSeed = seedBytes("kes-"+name, seed)
	p.kesPub = newKES(p.kesSeed, 0).pub
	v, err := consensus.NewSimpleVRFSigner(seedBytes("vrf-"+name, seed))
	if err != nil {
		panic(err)
	}
	p.vrf = v
	return p
}

// Cardano opcert signable: hot key || counter (8 bytes BE) || start period (8 bytes BE)
func opcertSignable(hot []byte, seq, period uint64) []byte {
	out := append([]byte{}, hot...)
	out = binary.BigEndian.AppendUint64(out, seq)
	return binary.BigEndian.AppendUint64(out, period)
}

// ------------------------------------------------------------------ header as plain data

type hdr struct {
	BlockNumber uint64 `json:"block_number"`
	Slot        uint64 `json:"slot"`
	PrevHash    []byte `json:"prev_hash"`
	IssuerVkey  []byte `json:"issuer_vkey"`
	VrfKey      []byte `json:"vrf_key"`
	NonceOut    []byte `json:"nonce_vrf_output,omitempty"`
	NonceProof  []byte `json:"nonce_vrf_proof,omitempty"`
	VrfOut      []byte `json:"vrf_output"`
	VrfProof    []byte `json:"vrf_proof"`
	BodySize    uint64 `json:"body_size"`
	BodyHash    []byte `json:"body_hash"`
	HotVkey     []byte `json:"opcert_hot_vkey"`
	Seq         uint32 `json:"opcert_seq"`
	KesPeriod   uint32 `json:"opcert_kes_period"`
	ColdSig     []byte `json:"opcert_cold_sig"`
	ProtoMajor  uint64 `json:"proto_major"`
	ProtoMinor  uint64 `json:"proto_minor"`
	Sig         []byte `json:"kes_signature"`
}

func cp(b []byte) []byte {
	if b == nil {
		return nil
	}
	return append([]byte{}, b...)
}

func fromHeader(h *consensus.Header) hdr {
	b := h.Body
	return hdr{b.BlockNumber, b.Slot, cp(b.PrevHash), cp(b.IssuerVkey), cp(b.VrfKey), cp(b.NonceVrfOutput), cp(b.NonceVrfProof),
		cp(b.VrfOutput), cp(b.VrfProof), b.BlockBodySize, cp(b.BlockBodyHash), cp(b.OpCertHotVkey), b.OpCertSequenceNumber,
		b.OpCertKesPeriod, cp(b.OpCertSignature), b.ProtoMajor, b.ProtoMinor, cp(h.Signature)}
}

func (h hdr) clone() hdr {
	h.PrevHash, h.IssuerVkey, h.VrfKey, h.NonceOut, h.NonceProof = cp(h.PrevHash), cp(h.IssuerVkey), cp(h.VrfKey), cp(h.NonceOut), cp(h.NonceProof)
	h.VrfOut, h.VrfProof, h.BodyHash, h.HotVkey, h.ColdSig, h.Sig = cp(h.VrfOut), cp(h.VrfProof), cp(h.BodyHash), cp(h.HotVkey), cp(h.ColdSig), cp(h.Sig)
	return h
}

// header body per the CDDL (Babbage+: 10 fields with nested vrf_result / operational_cert /
// protocol_version; Shelley..Alonzo: 15 flat fields with two vrf certs)
func bodyNode(mode consensus.ConsensusMode, h hdr) *space.Node {
	if mode == consensus.ConsensusModeTPraos {
		return space.A(space.U(h.BlockNumber), space.U(h.Slot), space.B(h.PrevHash), space.B(h.IssuerVkey), space.B(h.VrfKey),
			space.A(space.B(h.NonceOut), space.B(h.NonceProof)), space.A(space.B(h.VrfOut), space.B(h.VrfProof)),
			space.U(h.BodySize), space.B(h.BodyHash), space.B(h.HotVkey), space.U(uint64(h.Seq)), space.U(uint64(h.KesPeriod)), space.B(h.ColdSig),
			space.U(h.ProtoMajor), space.U(h.ProtoMinor))
	}
	return space.A(space.U(h.BlockNumber), space.U(h.Slot), space.B(h.PrevHash), space.B(h.IssuerVkey), space.B(h.VrfKey),
		space.A(space.B(h.VrfOut), space.B(h.VrfProof)), space.U(h.BodySize), space.B(h.BodyHash),
		space.A(space.B(h.HotVkey), space.U(uint64(h.Seq)), space.U(uint64(h.KesPeriod)), space.B(h.ColdSig)),
		space.A(space.U(h.ProtoMajor), space.U(h.ProtoMinor)))
}

// ------------------------------------------------------------------ block bodies

type bodyParts struct {
	name  string
	parts [][]byte // encoded components after the header
}

func emptyBody(mode consensus.ConsensusMode) bodyParts {
	if mode == consensus.ConsensusModeTPraos {
		return bodyParts{"empty", [][]byte{{0x80}, {0x80}, {0xa0}}}
	}
	return bodyParts{"empty", [][]byte{{0x80}, {0x80}, {0xa0}, {0x80}}}
}

// reference body hash (Shelley spec: hash of the concatenated hashes of the body components)
func refBodyHash(bp bodyParts) []byte {
	var cat []byte
	for _, p := range bp.parts {
		x := blake2b.Sum256(p)
		cat = append(cat, x[:]...)
	}
	x := blake2b.Sum256(cat)
	return x[:]
}

func bodySize(bp bodyParts) uint64 {
	n := 0
	for _, p := range bp.parts {
		n += len(p)
	}
	return uint64(n)
}

func blockCbor(mode consensus.ConsensusMode, h hdr, bp bodyParts) []byte {
	out := []byte{byte(0x80 + 1 + len(bp.parts))}
	out = space.A(bodyNode(mode, h), space.B(h.Sig)).Append(out)
	for _, p := range bp.parts {
		out = append(out, p...)
	}
	return out
}

// ------------------------------------------------------------------ the two pipelines

type ctxT struct {
	mode       consensus.ConsensusMode
	blockType  uint
	nonce      []byte
	poolStake  uint64
	totalStake uint64
	prevSlot   uint64
	prevBlock  uint64
	prevHash   []byte
	vrfKeyHash []byte
}

func consensusSide(c *ctxT, h hdr) (valid bool, errs string) {
	v := consensus.NewHeaderValidatorWithMode(consensus.NetworkConfig{
		ActiveSlotCoeff:   lcommon.GenesisRat{Rat: fCoeff},
		SlotsPerKESPeriod: spkp,
		MaxKESEvolutions:  maxEvo,
	}, c.mode)
	in := &consensus.ValidateHeaderInput{
		Slot: h.Slot, BlockNumber: h.BlockNumber, PrevHash: h.PrevHash, IssuerVkey: h.IssuerVkey, VrfKey: h.VrfKey,
		VrfProof: h.VrfProof, VrfOutput: h.VrfOut, KesSignature: h.Sig, HeaderBodyCbor: bodyNode(c.mode, h).Encode(),
		NonceVrfProof: h.NonceProof, NonceVrfOutput: h.NonceOut,
		KesPeriod:     h.Slot / spkp,
		OpCertHotVkey: h.HotVkey, OpCertSequenceNumber: h.Seq, OpCertKesPeriod: h.KesPeriod, OpCertSignature: h.ColdSig,
		PrevSlot: c.prevSlot, PrevBlockNumber: c.prevBlock, PrevHeaderHash: c.prevHash,
		EpochNonce: c.nonce, PoolStake: c.poolStake, TotalStake: c.totalStake,
		RegisteredVrfKeyHash: c.vrfKeyHash,
	}
	res := v.ValidateHeader(in)
	return res.Valid, fmt.Sprint(res.Errors)
}

// ledgerSide returns accepted + the stage that refused.
func ledgerSide(c *ctxT, h hdr, bp bodyParts) (accepted bool, stage string, detail string) {
	defer func() {
		if r := recover(); r != nil {
			accepted, stage, detail = false, "panic", fmt.Sprint(r)
		}
	}()
	raw := blockCbor(c.mode, h, bp)
	blk, err := ledger.NewBlockFromCbor(c.blockType, raw)
	if err != nil {
		return false, "decode", err.Error()
	}
	ok, _, _, _, err := ledger.VerifyBlock(blk, hex.EncodeToString(c.nonce), spkp, lcommon.VerifyConfig{
		SkipTransactionValidation: true, SkipStakePoolValidation: true,
	})
	if err != nil || !ok {
		return false, "VerifyBlock", fmt.Sprint(err)
	}
	// opcert as the ledger decoded it
	hn, perr := space.Parse(blk.Header().Cbor())
	if perr != nil || !hn.IsArray() || hn.Len() != 2 {
		return false, "decode", "header cbor"
	}
	_, hot, kp, err := ledger.ExtractKesFields(blk.Header())
	if err != nil {
		return false, "ExtractKesFields", err.Error()
	}
	b := hn.Items[0]
	var seqN, sigN *space.Node
	if c.mode == consensus.ConsensusModeTPraos {
		seqN, sigN = b.Items[10], b.Items[12]
	} else {
		seqN, sigN = b.Items[8].Items[1], b.Items[8].Items[3]
	}
	seq, _ := seqN.Uint()
	iss := blk.Header().IssuerVkey()
	if _, err := ledger.ValidateOpCert(&ledger.OpCert{KesVkey: hot, IssueNumber: seq, KesPeriod: kp, ColdSignature: sigN.StringBytes()},
		iss[:], blk.Header().SlotNumber(), spkp, maxEvo); err != nil {
		return false, "ValidateOpCert", err.Error()
	}
	return true, "", ""
}

// ------------------------------------------------------------------ mutants

type mutant struct {
	name   string
	field  string // key class
	regime string // "A" tamper without re-signing, "B" re-signed with a hot key, "body", "window"
	h      hdr
	bp     *bodyParts
}

func flip(b []byte, i int) []byte {
	o := cp(b)
	o[i/8] ^= 1 << (uint(i) % 8)
	return o
}

func bitPositions(nbytes int, thorough bool, salt int) []int {
	var out []int
	if thorough {
		for i := 0; i < nbytes*8; i++ {
			out = append(out, i)
		}
		return out
	}
	// quick: one bit in every 4th byte, rotating bit position; first and last bit always
	out = append(out, 0, nbytes*8-1)
	for by := salt % 4; by < nbytes; by += 4 {
		out = append(out, by*8+(by/4+salt)%8)
	}
	return out
}

type base struct {
	id    string
	c     *ctxT
	p     *pool
	other *pool
	evo   int // signer evolution; slot lies in period startKES+evo
	h     hdr
	bp    bodyParts
}

var signerCache sync.Map // seed|evolution -> *kesSigner (kes.Sign only reads the key)

func cachedKES(seed []byte, evo uint64) *kesSigner {
	k := fmt.Sprintf("%x|%d", seed, evo)
	if v, ok := signerCache.Load(k); ok {
		return v.(*kesSigner)
	}
	v, _ := signerCache.LoadOrStore(k, newKES(seed, evo))
	return v.(*kesSigner)
}

func (b *base) resign(h hdr, seed []byte, evo uint64) hdr {
	s := cachedKES(seed, evo)
	sig, err := s.Sign(bodyNode(b.c.mode, h).Encode())
	if err != nil {
		panic(err)
	}
	h.Sig = sig
	return h
}

func (b *base) mutants(thorough bool, salt int) []mutant {
	var out []mutant
	add := func(name, field, regime string, f func(h *hdr)) {
		h := b.h.clone()
		f(&h)
		out = append(out, mutant{name: name, field: field, regime: regime, h: h})
	}
	bits := func(field string, get func(h *hdr) *[]byte) {
		n := len(*get(&b.h))
		for _, i := range bitPositions(n, thorough, salt) {
			i := i
			add(fmt.Sprintf("%s-bit-%d", field, i), field, "A", func(h *hdr) { p := get(h); *p = flip(*p, i) })
		}
	}
	for _, d := range []int64{-1, 1} {
		d := d
		add(fmt.Sprintf("block-number%+d", d), "block-number", "A", func(h *hdr) { h.BlockNumber = uint64(int64(h.BlockNumber) + d) })
		add(fmt.Sprintf("slot%+d", d), "slot", "A", func(h *hdr) { h.Slot = uint64(int64(h.Slot) + d) })
		add(fmt.Sprintf("body-size%+d", d), "body-size", "A", func(h *hdr) { h.BodySize = uint64(int64(h.BodySize) + d) })
		add(fmt.Sprintf("opcert-seq%+d", d), "opcert-seq", "A", func(h *hdr) { h.Seq = uint32(int64(h.Seq) + d) })
		add(fmt.Sprintf("opcert-kes-period%+d", d), "opcert-kes-period", "A", func(h *hdr) { h.KesPeriod = uint32(int64(h.KesPeriod) + d) })
		add(fmt.Sprintf("proto-major%+d", d), "proto-major", "A", func(h *hdr) { h.ProtoMajor = uint64(int64(h.ProtoMajor) + d) })
		add(fmt.Sprintf("proto-minor%+d", d), "proto-minor", "A", func(h *hdr) { h.ProtoMinor = uint64(int64(h.ProtoMinor) + d) })
	}
	add("slot+next-kes-period", "slot", "A", func(h *hdr) { h.Slot += spkp })
	bits("prev-hash", func(h *hdr) *[]byte { return &h.PrevHash })
	bits("issuer-vkey", func(h *hdr) *[]byte { return &h.IssuerVkey })
	bits("vrf-key", func(h *hdr) *[]byte { return &h.VrfKey })
	bits("vrf-output", func(h *hdr) *[]byte { return &h.VrfOut })
	bits("vrf-proof", func(h *hdr) *[]byte { return &h.VrfProof })
	if b.c.mode == consensus.ConsensusModeTPraos {
		bits("nonce-vrf-output", func(h *hdr) *[]byte { return &h.NonceOut })
		bits("nonce-vrf-proof", func(h *hdr) *[]byte { return &h.NonceProof })
		add("nonce-and-leader-vrf-swapped", "vrf-certs-swapped", "A", func(h *hdr) {
			h.NonceOut, h.VrfOut = h.VrfOut, h.NonceOut
			h.NonceProof, h.VrfProof = h.VrfProof, h.NonceProof
		})
	}
	bits("body-hash", func(h *hdr) *[]byte { return &h.BodyHash })
	bits("opcert-hot-vkey", func(h *hdr) *[]byte { return &h.HotVkey })
	bits("opcert-cold-sig", func(h *hdr) *[]byte { return &h.ColdSig })
	bits("kes-signature", func(h *hdr) *[]byte { return &h.Sig })
	add("issuer-vkey-of-other-pool", "issuer-vkey", "A", func(h *hdr) { h.IssuerVkey = cp(b.other.coldPub) })
	add("vrf-key-of-other-pool", "vrf-key", "A", func(h *hdr) { h.VrfKey = cp(b.other.vrf.PublicKey()) })
	add("kes-signature-zero", "kes-signature", "A", func(h *hdr) { h.Sig = make([]byte, len(h.Sig)) })

	// regime B: opcert group, header re-signed with a hot key at the evolution the validators will use
	evoFor := func(h hdr) (uint64, bool) {
		cur := h.Slot / spkp
		if cur < uint64(h.KesPeriod) || cur-uint64(h.KesPeriod) > 63 {
			return 0, false
		}
		return cur - uint64(h.KesPeriod), true
	}
	addB := func(name, field string, seed []byte, f func(h *hdr)) {
		h := b.h.clone()
		f(&h)
		e, ok := evoFor(h)
		if !ok {
			return
		}
		out = append(out, mutant{name: name, field: field, regime: "B", h: b.resign(h, seed, e)})
	}
	// every regime-A mutant of a header-body field again, now re-signed with the pool's genuine
	// hot key at the evolution the validators will derive from (slot, opcert start period)
	for _, a := range append([]mutant{}, out...) {
		if a.field == "kes-signature" {
			continue
		}
		e, ok := evoFor(a.h)
		if !ok {
			continue
		}
		out = append(out, mutant{name: "resigned:" + a.name, field: a.field, regime: "B", h: b.resign(a.h, b.p.kesSeed, e)})
	}
	attacker := seedBytes("attacker-kes", int64(salt))
	addB("resigned:hot-key-substituted", "opcert-hot-vkey", attacker, func(h *hdr) { h.HotVkey = newKES(attacker, 0).pub })
	addB("resigned:opcert-of-other-pool", "opcert-foreign", b.other.kesSeed, func(h *hdr) {
		h.HotVkey = cp(b.other.kesPub)
		h.ColdSig = ed25519.Sign(b.other.coldPriv, opcertSignable(b.other.kesPub, uint64(h.Seq), uint64(h.KesPeriod)))
	})
	addB("resigned:cold-sig-over-cbor-array", "opcert-cold-sig", b.p.kesSeed, func(h *hdr) {
		h.ColdSig = ed25519.Sign(b.p.coldPriv, space.A(space.B(h.HotVkey), space.U(uint64(h.Seq)), space.U(uint64(h.KesPeriod))).Encode())
	})
	addB("resigned:self-signed-by-hot-key-holder", "opcert-cold-sig", attacker, func(h *hdr) {
		// attacker certifies its own hot key with its own ed25519 key, keeps the pool's issuer key
		ak := ed25519.NewKeyFromSeed(attacker)
		h.HotVkey = newKES(attacker, 0).pub
		h.ColdSig = ed25519.Sign(ak, opcertSignable(h.HotVkey, uint64(h.Seq), uint64(h.KesPeriod)))
	})

	// changed bodies (ledger side only; the header is untouched)
	alt := func(name string, parts [][]byte) {
		bp := bodyParts{name, parts}
		out = append(out, mutant{name: "body:" + name, field: "body", regime: "body", h: b.h.clone(), bp: &bp})
	}
	e := b.bp.parts
	repl := func(i int, p []byte) [][]byte {
		o := make([][]byte, len(e))
		copy(o, e)
		o[i] = p
		return o
	}
	alt("tx-bodies-indefinite-empty-array", repl(0, []byte{0x9f, 0xff}))
	alt("witnesses-indefinite-empty-array", repl(1, []byte{0x9f, 0xff}))
	alt("aux-data-one-entry", repl(2, []byte{0xa1, 0x00, 0xa1, 0x01, 0x02}))
	alt("aux-data-indefinite-empty-map", repl(2, []byte{0xbf, 0xff}))
	alt("aux-data-nonminimal-header", repl(2, []byte{0xb8, 0x00}))
	if len(e) == 4 {
		alt("invalid-txs-one-index", repl(3, []byte{0x81, 0x00}))
		alt("invalid-txs-indefinite-empty-array", repl(3, []byte{0x9f, 0xff}))
	}
	return out
}

// mustRefuseResigned says whether a pipeline has to refuse a header whose field was changed
// and which was then re-signed with the genuine hot key, i.e. whether something other than
// the KES signature binds that field:
//   - slot: the VRF input is (slot, epoch nonce); the proof no longer verifies
//   - VRF key / output / proof (and the TPraos nonce certificate): certified VRF
//   - issuer key, hot key, counter, start period, cold signature: the operational certificate
//   - body hash: the body (ledger side, which has the body)
//   - block number, previous hash: the chain context (consensus side, which is given it)
//
// Body size and protocol version are bound by nothing but the KES signature in either
// pipeline; VerifyBlock documents that it verifies the leader VRF only and has no chain
// context. Those combinations are recorded, not judged.
func mustRefuseResigned(side, field string) bool {
	switch field {
	case "slot", "issuer-vkey", "vrf-key", "vrf-output", "vrf-proof", "vrf-certs-swapped",
		"opcert-hot-vkey", "opcert-seq", "opcert-kes-period", "opcert-cold-sig", "opcert-foreign":
		return true
	case "nonce-vrf-output", "nonce-vrf-proof", "block-number", "prev-hash":
		return side == "consensus"
	case "body-hash":
		return side == "ledger"
	}
	return false
}

// ------------------------------------------------------------------ main

type result struct {
	key, what string
	replay    any
}

func main() {
	c := vlib.New("C40", "exploration")
	only := struct {
		Base, Mutant string
	}{}
	if c.Replay != "" {
		b, err := os.ReadFile(c.Replay)
		if err != nil {
			c.Internal("replay: %v", err)
		}
		var f struct {
			Replay struct {
				Base   string `json:"base"`
				Mutant string `json:"mutant"`
			} `json:"replay"`
		}
		if err := json.Unmarshal(b, &f); err != nil {
			c.Internal("replay: %v", err)
		}
		only.Base, only.Mutant = f.Replay.Base, f.Replay.Mutant
	}
	A := newPool("A", 600_000_000_000_000, c.Seed)
	B := newPool("B", 400_000_000_000_000, c.Seed)
	total := A.stake + B.stake
	nonce := seedBytes("epoch-nonce", c.Seed)
	prevHash := seedBytes("prev-header", c.Seed)

	type layout struct {
		mode      consensus.ConsensusMode
		name      string
		blockType uint
		major     uint64
	}
	layouts := []layout{
		{consensus.ConsensusModeCPraos, "praos/conway", ledger.BlockTypeConway, 9},
		{consensus.ConsensusModeTPraos, "tpraos/shelley", ledger.BlockTypeShelley, 2},
	}
	evos := []int{0, maxEvo - 1, -1, maxEvo}
	perCell := 1
	if c.Thorough() {
		layouts = append(layouts,
			layout{consensus.ConsensusModeCPraos, "praos/babbage", ledger.BlockTypeBabbage, 7},
			layout{consensus.ConsensusModeTPraos, "tpraos/allegra", ledger.BlockTypeAllegra, 3})
		evos = []int{0, 1, maxEvo - 1, -1, maxEvo, maxEvo + 1}
	}

	// ---- produce the base headers with the real builder
	var bases []*base
	notLeader, produced := 0, 0
	for _, lay := range layouts {
		for pi, p := range []*pool{A, B} {
			other := B
			if pi == 1 {
				other = A
			}
			for _, evo := range evos {
				signerEvo := evo
				if evo < 0 {
					signerEvo = 0
				}
				if signerEvo > 63 {
					continue
				}
				seq := uint32(3 + pi)
				oc := &consensus.OperationalCert{HotVkey: p.kesPub, SequenceNumber: seq, KesPeriod: startKES,
					Signature: ed25519.Sign(p.coldPriv, opcertSignable(p.kesPub, uint64(seq), startKES))}
				bp := emptyBody(lay.mode)
				found := 0
				first := uint64((startKES+evo)*spkp) + uint64(1000+17*pi)
				for slot := first; slot < first+5000 && found < perCell; slot++ {
					bld := consensus.NewBlockBuilderWithMode(p.vrf, newKES(p.kesSeed, uint64(signerEvo)), oc, lcommon.Blake2b224Hash(p.coldPub).Bytes(), p.coldPub, fCoeff, lay.mode)
					h, lr, err := bld.BuildHeader(consensus.BuildHeaderInput{
						Slot: slot, BlockNumber: 4242, PrevHash: prevHash, EpochNonce: nonce, PoolStake: p.stake, TotalStake: total,
						BlockBodyHash: refBodyHash(bp), BlockBodySize: bodySize(bp), ProtoMajor: lay.major, ProtoMinor: 0,
					})
					if errors.Is(err, consensus.ErrNotSlotLeader) {
						notLeader++
						continue
					}
					if err != nil {
						c.Violation("BuildHeader|error|"+lay.name, fmt.Sprintf("BuildHeader failed for pool %s slot %d: %v", p.name, slot, err), map[string]any{"slot": slot, "pool": p.name})
						break
					}
					if lr == nil || !lr.Eligible {
						c.Violation("BuildHeader|header-without-eligibility|"+lay.name, "header returned although the leader result is not eligible", map[string]any{"slot": slot})
						break
					}
					found++
					produced++
					vh := blake2b.Sum256(p.vrf.PublicKey())
					bases = append(bases, &base{
						id: fmt.Sprintf("%s|pool=%s|evolution=%d|slot=%d", lay.name, p.name, evo, slot),
						c: &ctxT{mode: lay.mode, blockType: lay.blockType, nonce: nonce, poolStake: p.stake, totalStake: total,
							prevSlot: slot - 20, prevBlock: 4241, prevHash: prevHash, vrfKeyHash: vh[:]},
						p: p, other: other, evo: evo, h: fromHeader(h), bp: bp,
					})
				}
				if found < perCell {
					c.NotExhaustive(fmt.Sprintf("no leading slot found for %s pool %s evolution %d in 5000 slots", lay.name, p.name, evo))
				}
			}
		}
	}
	c.Set("base_headers", produced)
	c.Set("slots_not_led_skipped", notLeader)

	// ---- judge originals, window cases and mutants
	type job struct {
		b *base
		m *mutant // nil = the produced header itself
	}
	var jobs []job
	for bi, b := range bases {
		if only.Base != "" && b.id != only.Base {
			continue
		}
		inWindow := b.evo >= 0 && b.evo < maxEvo
		if only.Mutant == "" || only.Mutant == "original" {
			jobs = append(jobs, job{b, nil})
		}
		if !inWindow {
			continue
		}
		ms := b.mutants(c.Thorough(), bi)
		for i := range ms {
			if only.Mutant != "" && ms[i].name != only.Mutant {
				continue
			}
			jobs = append(jobs, job{b, &ms[i]})
		}
	}
	results := make([][]result, len(jobs))
	classes := make([]string, len(jobs))
	outcomes := make([][]string, len(jobs))
	var mu sync.Mutex
	stages := map[string]int64{}
	vlib.Parallel(len(jobs), func(k int) {
		b := jobs[k].b
		lay := b.id[:bytes.IndexByte([]byte(b.id), '|')]
		rp := func(m string) any { return map[string]any{"base": b.id, "mutant": m, "header": b.h} }
		if jobs[k].m == nil {
			inWindow := b.evo >= 0 && b.evo < maxEvo
			cv, cerr := consensusSide(b.c, b.h)
			la, lstage, ldet := ledgerSide(b.c, b.h, b.bp)
			// the harness's own serialisation must be the bytes the builder signed
			classes[k] = fmt.Sprintf("original|%s|evolution=%d", lay, b.evo)
			if inWindow {
				outcomes[k] = []string{"original:consensus=" + fmt.Sprint(cv), "original:ledger=" + fmt.Sprint(la)}
				if !cv {
					results[k] = append(results[k], result{"ValidateHeader|produced-header-rejected|" + lay, fmt.Sprintf("%s: %s", b.id, cerr), rp("original")})
				}
				if !la {
					results[k] = append(results[k], result{"VerifyBlock+ValidateOpCert|produced-header-rejected|" + lay + "|stage=" + lstage, fmt.Sprintf("%s: %s", b.id, ldet), rp("original")})
				}
			} else {
				side := "before-start"
				if b.evo >= maxEvo {
					side = "after-end"
				}
				outcomes[k] = []string{"window:consensus=" + fmt.Sprint(cv), "window:ledger=" + fmt.Sprint(la)}
				if cv {
					results[k] = append(results[k], result{"ValidateHeader|accepted-outside-kes-window|" + side + "|" + lay, fmt.Sprintf("%s accepted (opcert start %d, max evolutions %d)", b.id, startKES, maxEvo), rp("original")})
				}
				if la {
					results[k] = append(results[k], result{"VerifyBlock+ValidateOpCert|accepted-outside-kes-window|" + side + "|" + lay, fmt.Sprintf("%s accepted (opcert start %d, max evolutions %d)", b.id, startKES, maxEvo), rp("original")})
				}
				mu.Lock()
				stages["window:ledger-refused-at:"+lstage]++
				mu.Unlock()
			}
			return
		}
		m := jobs[k].m
		classes[k] = fmt.Sprintf("%s|regime=%s|%s|evolution=%d", m.field, m.regime, lay, b.evo)
		bp := b.bp
		if m.bp != nil {
			bp = *m.bp
		}
		kf := "field=" + m.field
		if m.regime == "B" && strings.HasPrefix(m.field, "opcert") {
			kf = "group=opcert" // one protection (the cold signature) guards the whole group
		}
		expectL, expectC := true, true
		if m.regime == "B" {
			expectL, expectC = mustRefuseResigned("ledger", m.field), mustRefuseResigned("consensus", m.field)
		}
		la, lstage, _ := ledgerSide(b.c, m.h, bp)
		if la {
			lstage = "(accepted; not judged)"
			if expectL {
				lstage = "(accepted: VIOLATION)"
			}
		}
		mu.Lock()
		stages["mutant:regime="+m.regime+":ledger-refused-at:"+lstage]++
		mu.Unlock()
		if !expectL {
			outcomes[k] = append(outcomes[k], fmt.Sprintf("resigned-mutant,no-semantic-check-stated:ledger-accepted=%v", la))
		} else {
			outcomes[k] = append(outcomes[k], "mutant:ledger-accepted="+fmt.Sprint(la))
		}
		if la && expectL {
			results[k] = append(results[k], result{fmt.Sprintf("VerifyBlock+ValidateOpCert|mutant-accepted|%s|regime=%s", kf, m.regime),
				fmt.Sprintf("%s: mutant %s accepted by NewBlockFromCbor+VerifyBlock+ValidateOpCert", b.id, m.name), rp(m.name)})
		}
		if m.regime != "body" {
			cv, _ := consensusSide(b.c, m.h)
			if !expectC {
				outcomes[k] = append(outcomes[k], fmt.Sprintf("resigned-mutant,no-semantic-check-stated:consensus-accepted=%v", cv))
			} else {
				outcomes[k] = append(outcomes[k], "mutant:consensus-accepted="+fmt.Sprint(cv))
			}
			if cv && expectC {
				results[k] = append(results[k], result{fmt.Sprintf("ValidateHeader|mutant-accepted|%s|regime=%s", kf, m.regime),
					fmt.Sprintf("%s: mutant %s accepted by ValidateHeader", b.id, m.name), rp(m.name)})
			}
		}
	})
	for k := range jobs {
		for i, o := range outcomes[k] {
			if i == 0 {
				c.Eval(classes[k], o)
			} else {
				c.Outcome(o)
			}
		}
		for _, r := range results[k] {
			c.Violation(r.key, r.what, r.replay)
		}
	}
	keys := make([]string, 0, len(stages))
	for k := range stages {
		keys = append(keys, k)
	}
	sort.Strings(keys)
	st := map[string]int64{}
	for _, k := range keys {
		st[k] = stages[k]
	}
	c.Set("ledger_side_refusal_stage", st)
	if len(bases) > 0 {
		b := bases[0]
		c.Sample(map[string]any{"base": b.id, "header_body_cbor": vlib.Hex(bodyNode(b.c.mode, b.h).Encode()), "kes_signature": vlib.Hex(b.h.Sig)})
		ms := b.mutants(false, 0)
		c.Sample(map[string]any{"base": b.id, "mutant": ms[0].name, "regime": ms[0].regime})
		c.Sample(map[string]any{"base": b.id, "mutant": ms[len(ms)-1].name, "regime": ms[len(ms)-1].regime})
	}
	c.Set("rule", "base headers = real BuildHeader output for (layout x pool x KES evolution) at the first slots the pool leads; cases = the produced header itself (must pass both pipelines; outside the KES window must fail both) + every single-field mutant (regime A: KES signature left alone; regime B: every header-body field mutated, body re-serialised and re-signed with the genuine hot key at the matching evolution, plus forged operational certificates) + every changed body; class = field x regime x layout x evolution; non-trivial = every case (each one is a full cryptographic validation)")
	c.Assume("the repository's VRF and KES provers and ed25519 are trusted (C38/C39 check the verifiers); leadership of the chosen slots is decided by the real threshold code (C37)")
	c.Assume("ledger side = NewBlockFromCbor + VerifyBlock (transaction and stake-pool validation skipped: no ledger state) AND ledger.ValidateOpCert; a mutant refused at decode counts as refused")
	c.Assume("regime B (re-signed): a pipeline must refuse when something other than the KES signature binds the field (VRF certificate, operational certificate, body, chain context it is given); body size and protocol version on both sides, and block number / previous hash / TPraos nonce certificate on the ledger side (VerifyBlock documents: leader VRF only, no chain context) are recorded but not judged")
	// free-running -race pass: concurrent callers on their own inputs (state the library shares between calls)
	c.RaceAudit("c40")
	c.Finish()
}
