// C28: spending requires a valid signature from the owner.
//
// Bounded-exhaustive over a small universe: 3 ed25519 key pairs k0,k1,k2 and one Byron
// bootstrap key kb. A transaction is (era, input set, collateral, required signers, vkey
// witness set, bootstrap witness); every combination below is written as CBOR with
// verif/space, decoded by the REAL era decoder and run through EVERY rule of the era list.
// Only the signature family is read: "signature validation accepts" = every rule of the
// list whose function name ends in UtxoValidateSignatures, UtxoValidateRequiredVKeyWitnesses
// or UtxoValidateCollateralVKeyWitnesses returned nil (these rules return generic
// ValidationErrors, so the filter is by rule identity, not by error type).
//
//	inputs            every non-empty subset of {UTxO of k0, UTxO of k1, script-locked UTxO, Byron UTxO of kb}
//	collateral        Alonzo+: none | UTxO of k0 | UTxO of k2 | a script-locked UTxO
//	required signers  Alonzo+: {} | {k0} | {k2} | {k1,k2}
//	vkey witnesses    every subset with at most W elements (W=2 quick, 3 thorough; Conway additionally the full
//	                  power set on a reduced context grid in thorough) of the 12 candidates, per key k:
//	                  V_k valid | B_k k's signature over another body | W_k k's signature presented with the NEXT key's vkey | F_k valid signature with one bit flipped
//	bootstrap witness none | valid | signature over another body | wrong chain code | bit-flipped signature
//
// Oracle (from the property statement; ed25519 itself is trusted and called directly):
//
//	accept  =>  every key-locked input's owner hash is among blake2b-224(vkey) of the supplied vkey witnesses
//	        AND every Byron input has a bootstrap witness whose (pubkey, chain code, attributes) derive its address root
//	        AND every collateral input is key-locked and its owner is among the witness key hashes
//	        AND every supplied vkey / bootstrap witness signature verifies against the transaction id
//	        AND every required signer is among the witness key hashes
//	and conversely, when all five hold the transaction must be accepted.
package main

import (
	"bytes"
	"crypto/ed25519"
	"crypto/sha3"
	"encoding/hex"
	"encoding/json"
	"fmt"
	"hash/crc32"
	"os"
	"reflect"
	"runtime"
	"sort"
	"strings"
	"sync"
	"sync/atomic"
	"time"

	"github.com/blinklabs-io/gouroboros/ledger/common"
	"verif/space"
	"verif/vlib"
)

var chk *vlib.Check

// ---------- Byron address (own encoder, from the Byron address CDDL) ----------

// byronRoot = blake2b-224(sha3-256(cbor([0, [0, xpub], attrs])))
func byronRoot(pub, cc, attrsCbor []byte) []byte {
	xpub := append(append([]byte{}, pub...), cc...)
	pre := space.A(space.U(0), space.A(space.U(0), space.B(xpub)), space.Raw(attrsCbor)).Encode()
	h := sha3.Sum256(pre)
	return b224(h[:])
}

// byronAddr = cbor([ #6.24(bytes(cbor([root, attrs, 0]))), crc32 ])
func byronAddr(root, attrsCbor []byte) []byte {
	payload := space.A(space.B(root), space.Raw(attrsCbor), space.U(0)).Encode()
	return space.A(space.Tag(24, space.B(payload)), space.U(uint64(crc32.ChecksumIEEE(payload)))).Encode()
}

// ---------- universe ----------

type world struct {
	seed   int64
	keys   [3]*Key
	kb     *Key
	kbCC   []byte
	attrs  []byte // CBOR of the (empty) Byron address attributes
	script []byte // native script hash used for the script-locked UTxOs
	ins    [4]TxIn // k0, k1, script, byron
	col    [3]TxIn // k0, k2, script
}

const (
	inK0 = iota
	inK1
	inScript
	inByron
)

// witness candidates
const (
	wValid = iota
	wOtherBody
	wWrongVkey
	wBitflip
)

var wkNames = []string{"V", "B", "W", "F"}

const (
	bwNone = iota
	bwValid
	bwOtherBody
	bwWrongCC
	bwBitflip
)

var bwNames = []string{"none", "valid", "sig-over-other-body", "wrong-chain-code", "bit-flipped-sig"}

type ctxT struct {
	era    int
	inputs int // bitmask over inK0..inByron
	coll   int // 0 none, 1 k0, 2 k2, 3 script-locked
	req    int // 0 {}, 1 {k0}, 2 {k2}, 3 {k1,k2}
	boot   int
}

func (c ctxT) String() string {
	var in []string
	for i, n := range []string{"k0", "k1", "script", "byron(kb)"} {
		if c.inputs&(1<<i) != 0 {
			in = append(in, n)
		}
	}
	return fmt.Sprintf("%s/inputs={%s}/collateral=%s/required=%s/bootstrap=%s", EraNames[c.era], strings.Join(in, ","),
		[]string{"none", "k0", "k2", "script-locked"}[c.coll], []string{"{}", "{k0}", "{k2}", "{k1,k2}"}[c.req], bwNames[c.boot])
}

func witSetStr(ws int) string {
	if ws == 0 {
		return "{}"
	}
	var p []string
	for i := 0; i < 12; i++ {
		if ws&(1<<i) != 0 {
			p = append(p, fmt.Sprintf("%s%d", wkNames[i%4], i/4))
		}
	}
	return "{" + strings.Join(p, ",") + "}"
}

// prepared per context: body-dependent material
type prepared struct {
	c      ctxT
	spec   *TxSpec
	stub   *Stub
	txid   []byte
	cands  [12]VKeyWit
	boot   *BootWit
	owners [][]byte // key hashes owning key-locked inputs
	byron  bool
	collOK func(hashes map[string]bool) bool
	reqs   [][]byte
}

func (w *world) prepare(c ctxT) *prepared {
	p := &prepared{c: c, stub: NewStub()}
	s := &TxSpec{Era: c.era, Fee: 1_000_000}
	if c.era == EraShelley {
		s.TTL = U64(1000)
	}
	if c.era == EraDijkstra {
		s.ThreeElem = true
	}
	outEra := c.era
	addUtxo := func(in TxIn, addr []byte, coin uint64) {
		// Byron-address and all other UTxOs use the era's plain [addr, coin] / {0:addr,1:coin} output
		if err := p.stub.AddUtxo(outEra, in, Out(outEra, addr, ValueCoin(coin))); err != nil {
			chk.Internal("stub utxo: %v", err)
		}
	}
	total := uint64(0)
	addrs := [4][]byte{EnterpriseKeyAddr(0, w.keys[0].Hash), EnterpriseKeyAddr(0, w.keys[1].Hash), EnterpriseScriptAddr(0, w.script), byronAddr(byronRoot(w.kb.Pub, w.kbCC, w.attrs), w.attrs)}
	type si struct {
		in TxIn
		i  int
	}
	var sel []si
	for i := 0; i < 4; i++ {
		if c.inputs&(1<<i) != 0 {
			sel = append(sel, si{w.ins[i], i})
		}
	}
	sort.Slice(sel, func(a, b int) bool { return bytes.Compare(sel[a].in.Id, sel[b].in.Id) < 0 })
	for _, x := range sel {
		s.Inputs = append(s.Inputs, x.in)
		addUtxo(x.in, addrs[x.i], 5_000_000)
		total += 5_000_000
		switch x.i {
		case inK0:
			p.owners = append(p.owners, w.keys[0].Hash)
		case inK1:
			p.owners = append(p.owners, w.keys[1].Hash)
		case inByron:
			p.byron = true
		}
	}
	s.Outputs = []*space.Node{Out(c.era, EnterpriseKeyAddr(0, w.keys[2].Hash), ValueCoin(total-s.Fee))}
	p.collOK = func(map[string]bool) bool { return true }
	switch c.coll {
	case 1:
		s.Collateral = []TxIn{w.col[0]}
		addUtxo(w.col[0], EnterpriseKeyAddr(0, w.keys[0].Hash), 5_000_000)
		p.collOK = func(h map[string]bool) bool { return h[string(w.keys[0].Hash)] }
	case 2:
		s.Collateral = []TxIn{w.col[1]}
		addUtxo(w.col[1], EnterpriseKeyAddr(0, w.keys[2].Hash), 5_000_000)
		p.collOK = func(h map[string]bool) bool { return h[string(w.keys[2].Hash)] }
	case 3:
		s.Collateral = []TxIn{w.col[2]}
		addUtxo(w.col[2], EnterpriseScriptAddr(0, w.script), 5_000_000)
		p.collOK = func(map[string]bool) bool { return false } // not owned by a key at all
	}
	switch c.req {
	case 1:
		p.reqs = [][]byte{w.keys[0].Hash}
	case 2:
		p.reqs = [][]byte{w.keys[2].Hash}
	case 3:
		p.reqs = [][]byte{w.keys[1].Hash, w.keys[2].Hash}
	}
	s.RequiredSigners = p.reqs
	p.spec = s
	p.txid = s.TxId()
	other := b256(append([]byte("another body "), p.txid...))
	for k := 0; k < 3; k++ {
		sig := ed25519.Sign(w.keys[k].Priv, p.txid)
		fl := append([]byte{}, sig...)
		fl[7] ^= 0x10
		p.cands[k*4+wValid] = VKeyWit{w.keys[k].Pub, sig}
		p.cands[k*4+wOtherBody] = VKeyWit{w.keys[k].Pub, ed25519.Sign(w.keys[k].Priv, other)}
		p.cands[k*4+wWrongVkey] = VKeyWit{w.keys[(k+1)%3].Pub, sig}
		p.cands[k*4+wBitflip] = VKeyWit{w.keys[k].Pub, fl}
	}
	if c.boot != bwNone {
		sig := ed25519.Sign(w.kb.Priv, p.txid)
		bw := &BootWit{Pub: w.kb.Pub, Sig: sig, ChainCode: w.kbCC, Attrs: w.attrs}
		switch c.boot {
		case bwOtherBody:
			bw.Sig = ed25519.Sign(w.kb.Priv, other)
		case bwWrongCC:
			cc := append([]byte{}, w.kbCC...)
			cc[0] ^= 1
			bw.ChainCode = cc
		case bwBitflip:
			fl := append([]byte{}, sig...)
			fl[40] ^= 0x02
			bw.Sig = fl
		}
		p.boot = bw
	}
	return p
}

// conditions per the property; returns the first violated one ("" = all hold)
func (p *prepared) conditions(ws int) string {
	hashes := map[string]bool{}
	allValid := true
	for i := 0; i < 12; i++ {
		if ws&(1<<i) == 0 {
			continue
		}
		wt := p.cands[i]
		hashes[string(b224(wt.VKey))] = true
		if !ed25519.Verify(ed25519.PublicKey(wt.VKey), p.txid, wt.Sig) {
			allValid = false
		}
	}
	bootDerives := false
	if p.boot != nil {
		if !ed25519.Verify(ed25519.PublicKey(p.boot.Pub), p.txid, p.boot.Sig) {
			allValid = false
		}
		bootDerives = true // compared below against the address root
	}
	for _, o := range p.owners {
		if !hashes[string(o)] {
			return "input-owner-without-witness"
		}
	}
	if p.byron {
		ok := false
		if bootDerives {
			// the UTxO's root was derived from (kb.Pub, kbCC, attrs); the witness must derive the same
			ok = bytes.Equal(byronRoot(p.boot.Pub, p.boot.ChainCode, p.boot.Attrs), p.byronRootWant())
		}
		if !ok {
			return "byron-input-without-deriving-bootstrap-witness"
		}
	}
	if !p.collOK(hashes) {
		return "collateral-owner-without-witness"
	}
	if !allValid {
		return "supplied-witness-does-not-verify"
	}
	for _, r := range p.reqs {
		if !hashes[string(r)] {
			return "required-signer-without-witness"
		}
	}
	return ""
}

var theWorld *world

func (p *prepared) byronRootWant() []byte {
	return byronRoot(theWorld.kb.Pub, theWorld.kbCC, theWorld.attrs)
}

type sigRules struct {
	idx   map[int]string
	names []string
}

func ruleName(r common.UtxoValidationRuleFunc) string {
	return runtime.FuncForPC(reflect.ValueOf(r).Pointer()).Name()
}

func findSigRules(env *EraEnv) sigRules {
	sr := sigRules{idx: map[int]string{}}
	for i, r := range env.Rules {
		n := ruleName(r)
		for _, suf := range []string{"UtxoValidateSignatures", "UtxoValidateRequiredVKeyWitnesses", "UtxoValidateCollateralVKeyWitnesses"} {
			if strings.HasSuffix(n, "."+suf) {
				sr.idx[i] = suf
				sr.names = append(sr.names, suf)
			}
		}
	}
	sort.Strings(sr.names)
	return sr
}

// observe: build tx with witness subset ws, decode, run all rules, read the signature family.
func (p *prepared) observe(env *EraEnv, sr sigRules, ws int) (decoded bool, accepted bool, errs []string, txb []byte) {
	s := *p.spec
	s.VKeys = nil
	for i := 0; i < 12; i++ {
		if ws&(1<<i) != 0 {
			s.VKeys = append(s.VKeys, p.cands[i])
		}
	}
	s.Boot = nil
	if p.boot != nil {
		s.Boot = []BootWit{*p.boot}
	}
	txb = s.Bytes()
	tx, err := DecodeTx(s.Era, txb)
	if err != nil {
		return false, false, []string{err.Error()}, txb
	}
	accepted = true
	for _, r := range env.RunAll(tx, 100, p.stub) {
		if name, ok := sr.idx[r.Index]; ok {
			accepted = false
			if r.Panic != nil {
				errs = append(errs, fmt.Sprintf("%s: panic %v", name, r.Panic))
			} else {
				errs = append(errs, fmt.Sprintf("%s: %v", name, r.Err))
			}
		}
	}
	return true, accepted, errs, txb
}

func popcount(x int) int {
	n := 0
	for ; x != 0; x &= x - 1 {
		n++
	}
	return n
}

func main() {
	c := vlib.New("C28", "exploration")
	chk = c
	w := &world{seed: c.Seed, attrs: []byte{0xa0}}
	theWorld = w
	for i := range w.keys {
		w.keys[i] = NewKey(fmt.Sprintf("k%d", i), c.Seed)
	}
	w.kb = NewKey("kb", c.Seed)
	w.kbCC = b256([]byte(fmt.Sprintf("verif-chaincode/%d", c.Seed)))
	w.script = b224(append([]byte{0}, space.A(space.U(0), space.B(w.keys[2].Hash)).Encode()...))
	for i := range w.ins {
		w.ins[i] = TxIn{FakeTxId(fmt.Sprintf("c28-in-%d", i), c.Seed), uint64(i)}
	}
	for i := range w.col {
		w.col[i] = TxIn{FakeTxId(fmt.Sprintf("c28-col-%d", i), c.Seed), uint64(i)}
	}
	if c.Replay != "" {
		replayOne(c, w)
		return
	}
	maxW := 2
	if c.Thorough() {
		maxW = 3
	}
	var subsets []int
	for ws := 0; ws < 1<<12; ws++ {
		if popcount(ws) <= maxW {
			subsets = append(subsets, ws)
		}
	}
	sort.Slice(subsets, func(i, j int) bool {
		if popcount(subsets[i]) != popcount(subsets[j]) {
			return popcount(subsets[i]) < popcount(subsets[j])
		}
		return subsets[i] < subsets[j]
	})
	type job struct {
		c    ctxT
		full bool // full power set of witnesses (Conway, reduced grid, thorough)
	}
	var jobs []job
	eras := []int{EraShelley, EraAllegra, EraMary, EraAlonzo, EraBabbage, EraConway, EraDijkstra}
	for _, era := range eras {
		colls, reqs := []int{0}, []int{0}
		if era >= EraAlonzo {
			colls, reqs = []int{0, 1, 2, 3}, []int{0, 1, 2, 3}
		}
		for in := 1; in < 16; in++ {
			for _, cl := range colls {
				for _, rq := range reqs {
					for bt := bwNone; bt <= bwBitflip; bt++ {
						jobs = append(jobs, job{ctxT{era, in, cl, rq, bt}, false})
					}
				}
			}
		}
	}
	if c.Thorough() {
		for _, in := range []int{1 << inK0, 1<<inK0 | 1<<inK1, 1<<inK0 | 1<<inByron} {
			for _, cl := range []int{0, 2} {
				for _, rq := range []int{0, 2} {
					for _, bt := range []int{bwNone, bwValid} {
						jobs = append(jobs, job{ctxT{EraConway, in, cl, rq, bt}, true})
					}
				}
			}
		}
	}
	// interleave the eras (a soft deadline then never starves a whole era)
	{
		per := map[int][]job{}
		for _, j := range jobs {
			per[j.c.era] = append(per[j.c.era], j)
		}
		jobs = jobs[:0]
		for i := 0; ; i++ {
			any := false
			for _, era := range eras {
				if i < len(per[era]) {
					jobs = append(jobs, per[era][i])
					any = true
				}
			}
			if !any {
				break
			}
		}
	}
	envs := map[int]*EraEnv{}
	srs := map[int]sigRules{}
	for _, era := range eras {
		envs[era] = NewEraEnv(era)
		srs[era] = findSigRules(envs[era])
		c.Set("signature_rules_"+EraNames[era], srs[era].names)
	}

	type pendingV struct {
		key, what string
		replay    map[string]any
	}
	var mu sync.Mutex
	var pending []pendingV
	outcomes := map[string]int64{}
	keyCases := map[string]int64{}
	// soft deadline (safety net for an oversubscribed machine): jobs that would start after it are skipped and counted
	deadline := c.Deadline(170*time.Second, 560*time.Second)
	var skipped int64
	vlib.Parallel(len(jobs), func(ji int) {
		if time.Now().After(deadline) {
			atomic.AddInt64(&skipped, 1)
			return
		}
		j := jobs[ji]
		p := w.prepare(j.c)
		env, sr := envs[j.c.era], srs[j.c.era]
		local := map[string]int64{}
		var evals int64
		run := func(ws int) {
			dec, acc, errs, txb := p.observe(env, sr, ws)
			evals++
			if !dec {
				mu.Lock()
				pending = append(pending, pendingV{"decoder|rejects-harness-transaction|" + EraNames[j.c.era], fmt.Sprintf("%s witnesses=%s: %v", j.c, witSetStr(ws), errs), map[string]any{"tx_cbor": hex.EncodeToString(txb)}})
				mu.Unlock()
				return
			}
			cond := p.conditions(ws)
			o := "accepted"
			if !acc {
				o = "rejected"
			}
			if cond == "" {
				local["all-conditions-hold:"+o]++
			} else {
				local["violates("+cond+"):"+o]++
			}
			var key string
			switch {
			case acc && cond != "":
				key = "signature-validation|accepted|" + cond
			case !acc && cond == "":
				key = "signature-validation|rejected|all-conditions-hold"
			default:
				return
			}
			mu.Lock()
			keyCases[key]++
			pending = append(pending, pendingV{key, fmt.Sprintf("%s witnesses=%s: accepted=%v but first violated condition=%q; rule errors %v", j.c, witSetStr(ws), acc, cond, errs),
				map[string]any{"era": j.c.era, "inputs": j.c.inputs, "coll": j.c.coll, "req": j.c.req, "boot": j.c.boot, "witnesses": ws, "tx_cbor": hex.EncodeToString(txb)}})
			mu.Unlock()
		}
		if j.full {
			for ws := 0; ws < 1<<12; ws++ {
				if popcount(ws) > maxW { // the small ones are covered by the main grid
					run(ws)
				}
			}
		} else {
			for _, ws := range subsets {
				run(ws)
			}
			c.Distinct(j.c.String())
		}
		c.EvalN(evals)
		mu.Lock()
		for k, v := range local {
			outcomes[k] += v
		}
		mu.Unlock()
	})
	sort.Slice(pending, func(i, j int) bool {
		if pending[i].key != pending[j].key {
			return pending[i].key < pending[j].key
		}
		if len(pending[i].what) != len(pending[j].what) {
			return len(pending[i].what) < len(pending[j].what)
		}
		return pending[i].what < pending[j].what
	})
	for _, p := range pending {
		c.Violation(p.key, p.what, p.replay)
	}
	c.Set("outcomes", outcomes)
	if len(keyCases) > 0 {
		c.Set("violating_cases_by_key", keyCases)
	}
	c.Set("contexts", len(jobs))
	c.Set("witness_subsets_per_context", len(subsets))
	// two written-out cases
	{
		p := w.prepare(ctxT{EraConway, 1<<inK0 | 1<<inByron, 1, 2, bwValid})
		for _, ws := range []int{1<<(0*4+wValid) | 1<<(2*4+wValid), 1 << (0*4 + wValid)} {
			_, acc, errs, txb := p.observe(envs[EraConway], srs[EraConway], ws)
			c.Sample(map[string]any{"context": p.c.String(), "witnesses": witSetStr(ws), "first_violated_condition": p.conditions(ws), "accepted": acc, "errors": errs, "tx_cbor": vlib.Hex(txb)})
		}
	}
	if skipped > 0 {
		c.NotExhaustive(fmt.Sprintf("soft deadline reached: %d of %d contexts were not run", skipped, len(jobs)))
	}
	c.Set("rule", fmt.Sprintf("eras Shelley..Dijkstra x every non-empty input subset of {k0-UTxO, k1-UTxO, script-locked UTxO, Byron UTxO of kb} x (Alonzo+) collateral {none,k0,k2,script-locked} x required signers {{}, {k0}, {k2}, {k1,k2}} x bootstrap witness {none, valid, other body, wrong chain code, bit flip} x every vkey-witness subset of size <= %d out of 12 candidates (V/B/W/F per key); thorough adds the full 4096-subset power set on a 24-context Conway grid; real decoder, all rules of the era run, only the signature family (by rule identity) is read; distinct = context; oracle = the five conditions of the property, both directions", maxW))
	c.Assume("ed25519 (crypto/ed25519), blake2b, sha3-256, crc32 trusted; key seeds, chain code, txids are representatives derived from VERIF_SEED")
	c.Assume("the Byron key is an ordinary ed25519 key plus a 32-byte chain code (signature verification only involves the 32-byte public key); Byron address attributes are the empty map")
	// free-running -race pass: concurrent callers on their own inputs (state the library shares between calls)
	c.RaceAudit("c28")
	c.Finish()
}

func replayOne(c *vlib.Check, w *world) {
	raw, err := os.ReadFile(c.Replay)
	if err != nil {
		c.Internal("replay: %v", err)
	}
	var f struct {
		Key    string `json:"key"`
		Replay struct {
			Era, Inputs, Coll, Req, Boot, Witnesses int
		} `json:"replay"`
	}
	if err := json.Unmarshal(raw, &f); err != nil {
		c.Internal("replay: %v", err)
	}
	r := f.Replay
	cx := ctxT{r.Era, r.Inputs, r.Coll, r.Req, r.Boot}
	p := w.prepare(cx)
	env := NewEraEnv(cx.era)
	sr := findSigRules(env)
	dec, acc, errs, txb := p.observe(env, sr, r.Witnesses)
	cond := p.conditions(r.Witnesses)
	c.Eval(cx.String(), "")
	fmt.Printf("%s witnesses=%s: decoded=%v accepted=%v first violated condition=%q errors=%v\n", cx, witSetStr(r.Witnesses), dec, acc, cond, errs)
	if dec && ((acc && cond != "") || (!acc && cond == "")) {
		c.Violation(f.Key, fmt.Sprintf("%s witnesses=%s: accepted=%v, first violated condition=%q", cx, witSetStr(r.Witnesses), acc, cond),
			map[string]any{"era": cx.era, "inputs": cx.inputs, "coll": cx.coll, "req": cx.req, "boot": cx.boot, "witnesses": r.Witnesses, "tx_cbor": hex.EncodeToString(txb)})
	}
	c.Set("rule", "replay of one stored case")
	c.Finish()
}
