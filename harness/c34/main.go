// C34: block bodies are bound to their headers at decode time.
//
// Space (bounded, exhaustive): for every real block fixture of every era (plus one
// generated Dijkstra block carrying real Dijkstra transactions) with its header left
// untouched,
//
//	SUB   every single-byte substitution of every byte after the header; values per offset:
//	      all 255 others for bodies <= 64 B (Byron main 667 B block, small Shelley, real
//	      Dijkstra), else the first k values of a fixed ordered type-confusing alphabet
//	      (b^01, b^80, b+1, b-1, b^20, b^40, 00, ff, 80, a0, 40, 60, f6, 9f, 18, 1b):
//	      quick k=2 (bodies <= 2.3 kB: every offset; <= 10 kB: every 8th; larger: every 32nd),
//	      thorough every offset with k=16 (<= 2.3 kB), 6 (<= 10 kB), 3 (<= 20 kB), 2 (larger);
//	      in the generated Dijkstra block the second (verbatim) copy of the transaction is
//	      not mutated by SUB/REENC/TREE;
//	      the 648 kB epoch boundary block: 2 values at every 16384th / 4096th offset plus 16
//	      values at its 5 framing bytes (the exact plan is written to the evidence);
//	REENC every single-header re-encoding (the space.EnumD1 alphabet: wider length/integer/tag
//	      arguments, definite <-> indefinite) of every CBOR item after the header (quick:
//	      items at depth <= 3);
//	TREE  every single tree edit {delete child i, duplicate child i, swap children i,i+1,
//	      move child i to the end} at every array/map node after the header (depth <= 3 quick,
//	      <= 6 thorough; all children), plus the block array itself (extra/missing segment);
//	TX    consistent transaction-level edits: drop tx i everywhere (body, witness set,
//	      metadata key, re-indexed), duplicate tx i, swap the witness sets / bodies of every
//	      pair i<j, metadata moved to another index, invalid-tx list set to each of
//	      {[], [0], [n-1], [0..n-1]}; Byron: drop/duplicate a [tx,witnesses] pair, swap the
//	      witnesses resp. bodies of every pair, replace dlg/upd/ssc payloads by each other.
//
// Oracle (independent; blake2b trusted): my own CBOR reader splits the mutant and extracts
// the part of the body the header commits to, exactly as the property lists it:
//
//	Shelley..Conway  raw bytes of every block-array element after the header
//	                 (commitment = H(H(seg1)||..||H(segk)), k = 3, from Alonzo on 4);
//	Dijkstra         raw bytes of the block_body element (commitment = H(block_body));
//	Byron main       transaction count, raw bytes of every transaction body (merkle root),
//	                 raw bytes of every witness list (witness hash), raw delegation payload,
//	                 raw update payload;  NOT the ssc payload, NOT the block's extra data,
//	                 NOT the framing of the [tx,witnesses] list (the property does not list them);
//	Byron EBB        raw bytes of the body element (commitment = H(body)).
//
// Verdict per mutant: decodes with SkipBodyHashValidation=true AND decodes with validation
// on AND its committed part differs from the real block's  =>  VIOLATION.
// For the unmutated blocks: must decode with validation on, and my own recomputation of the
// commitment (own merkle tree, own segment hashing) must equal the value in the header —
// this pins the reference to real chain data.
//
// Result on the unchanged tree: no violation. Everything that is accepted with validation
// on although its bytes changed lies outside the commitment the property names: Byron
// ssc_payload, Byron block extra data, the array framing of the Byron body / tx_payload /
// [tx,witnesses] pairs (incl. a third element appended to a pair), bytes after the block
// item. These are counted per class in coverage.accepted_with_committed_part_unchanged_by_class.
//
// Detection (scratch copy /tmp/c34agent-repo, VERIF_REPO_OVERRIDE, quick tier, deleted afterwards):
//  1. byron/bodyproof.go validateTxProof: witnesses hash only shape-checked
//       -> 6 keys, e.g. byron-main|SUB|tx_witnesses|bstr-content, byron-main|TREE|tx_payload-framing@d3:array|duplicate
//  2. byron/bodyproof.go ValidateBodyProof: update payload hash only shape-checked
//       -> byron-main|REENC|upd_payload|arr->indef (and the other forms), SUB/TREE keys in upd_payload
//  3. dijkstra.go DijkstraBlockBody.UnmarshalCBOR: SetCbor dropped, so Hash() covers a re-encoding
//       -> dijkstra|REENC|block_body|arr->1B/2B/4B/8B/indef
//  (2 and 3 were applied together; the unchanged tree prints no VIOLATION.)
package main

import (
	"bytes"
	"encoding/hex"
	"encoding/json"
	"fmt"
	"os"
	"runtime"
	"sort"
	"sync"
	"sync/atomic"
	"time"

	"golang.org/x/crypto/blake2b"

	"github.com/blinklabs-io/gouroboros/ledger"
	"github.com/blinklabs-io/gouroboros/ledger/common"
	"verif/space"
	"verif/vlib"
)

var c *vlib.Check

func h256(b []byte) []byte { x := blake2b.Sum256(b); return x[:] }

// ---------- reference: committed projection ----------

// projection returns the list of byte strings the header commits to, extracted from the
// block bytes m by my own reader. ok=false when m does not have the shape needed to extract
// them (such a mutant is counted as "shape-unreadable", see judge).
func projection(typ uint, m []byte) (p [][]byte, ok bool) {
	// ParsePrefix: the repository's decoder ignores bytes after the block item, so must I
	root, _, err := space.ParsePrefix(m)
	if err != nil || !root.IsArray() || len(root.Items) < 2 {
		return nil, false
	}
	raw := func(n *space.Node) []byte { return m[n.Start:n.End] }
	switch {
	case typ >= 2: // Shelley .. Dijkstra: everything after the header, element by element
		for _, it := range root.Items[1:] {
			p = append(p, raw(it))
		}
		return p, true
	case typ == 0: // EBB
		return [][]byte{raw(root.Items[1])}, true
	}
	// Byron main: [header, [tx_payload, ssc_payload, dlg_payload, upd_payload], extra]
	body := root.Items[1]
	if !body.IsArray() || len(body.Items) < 4 || !body.Items[0].IsArray() {
		return nil, false
	}
	txp := body.Items[0]
	p = append(p, []byte(fmt.Sprintf("count=%d", len(txp.Items))))
	for _, pair := range txp.Items {
		if !pair.IsArray() || len(pair.Items) < 2 {
			return nil, false
		}
		p = append(p, append([]byte("B"), raw(pair.Items[0])...))
	}
	for _, pair := range txp.Items {
		p = append(p, append([]byte("W"), raw(pair.Items[1])...))
	}
	p = append(p, append([]byte("D"), raw(body.Items[2])...))
	p = append(p, append([]byte("U"), raw(body.Items[3])...))
	return p, true
}

func sameProjection(a, b [][]byte) bool {
	if len(a) != len(b) {
		return false
	}
	for i := range a {
		if !bytes.Equal(a[i], b[i]) {
			return false
		}
	}
	return true
}

// own merkle root (Byron): leaf = H(0x00||x), node = H(0x01||l||r), left subtree takes the
// largest power of two strictly below n, empty = H("").
func merkle(items [][]byte) []byte {
	switch len(items) {
	case 0:
		return h256(nil)
	case 1:
		return h256(append([]byte{0}, items[0]...))
	}
	s := 1
	for s*2 < len(items) {
		s *= 2
	}
	return h256(append(append([]byte{1}, merkle(items[:s])...), merkle(items[s:])...))
}

// ownCommitmentMatches recomputes the header commitment from the body with my own code
// and compares it with what my own reader finds in the header. Used on the real blocks
// (must be true: pins the reference) and on accepted mutants (diagnostic only).
func ownCommitmentMatches(typ uint, m []byte) (match bool, detail string, ok bool) {
	root, _, err := space.ParsePrefix(m)
	if err != nil || !root.IsArray() || len(root.Items) < 2 || !root.Items[0].IsArray() {
		return false, "unparseable", false
	}
	raw := func(n *space.Node) []byte { return m[n.Start:n.End] }
	hdr := root.Items[0]
	switch {
	case typ >= 2:
		if len(hdr.Items) != 2 || !hdr.Items[0].IsArray() {
			return false, "header shape", false
		}
		hb := hdr.Items[0]
		idx := 8
		if len(hb.Items) != 15 {
			idx = 7
		}
		if len(hb.Items) <= idx || hb.Items[idx].Major != 2 {
			return false, "header shape", false
		}
		want := hb.Items[idx].Bytes
		var got []byte
		if typ == 8 {
			if len(root.Items) != 2 {
				return false, fmt.Sprintf("dijkstra block has %d elements", len(root.Items)), true
			}
			got = h256(raw(root.Items[1]))
		} else {
			k := 3
			if typ >= 5 {
				k = 4
			}
			if len(root.Items) != 1+k {
				return false, fmt.Sprintf("block has %d elements, era has %d segments", len(root.Items), k), true
			}
			var cat []byte
			for _, it := range root.Items[1:] {
				cat = append(cat, h256(raw(it))...)
			}
			got = h256(cat)
		}
		return bytes.Equal(got, want), fmt.Sprintf("computed %x header %x", got, want), true
	case typ == 0:
		if len(hdr.Items) < 3 || hdr.Items[2].Major != 2 {
			return false, "header shape", false
		}
		got := h256(raw(root.Items[1]))
		return bytes.Equal(got, hdr.Items[2].Bytes), fmt.Sprintf("computed %x header %x", got, hdr.Items[2].Bytes), true
	}
	// Byron main
	if len(hdr.Items) < 3 || !hdr.Items[2].IsArray() || len(hdr.Items[2].Items) != 4 {
		return false, "header shape", false
	}
	proof := hdr.Items[2]
	txProof := proof.Items[0]
	if !txProof.IsArray() || len(txProof.Items) != 3 {
		return false, "tx proof shape", false
	}
	body := root.Items[1]
	if !body.IsArray() || len(body.Items) != 4 || !body.Items[0].IsArray() {
		return false, "body shape", true
	}
	var bodies [][]byte
	wit := []byte{0x9f}
	for _, pair := range body.Items[0].Items {
		if !pair.IsArray() || len(pair.Items) != 2 {
			return false, "tx pair shape", true
		}
		bodies = append(bodies, raw(pair.Items[0]))
		wit = append(wit, raw(pair.Items[1])...)
	}
	wit = append(wit, 0xff)
	var bad []string
	if n, isU := txProof.Items[0].Uint(); !isU || n != uint64(len(bodies)) {
		bad = append(bad, "count")
	}
	if !bytes.Equal(txProof.Items[1].Bytes, merkle(bodies)) {
		bad = append(bad, "merkle")
	}
	if !bytes.Equal(txProof.Items[2].Bytes, h256(wit)) {
		bad = append(bad, "witnesses")
	}
	if !bytes.Equal(proof.Items[2].Bytes, h256(raw(body.Items[2]))) {
		bad = append(bad, "dlg")
	}
	if !bytes.Equal(proof.Items[3].Bytes, h256(raw(body.Items[3]))) {
		bad = append(bad, "upd")
	}
	return len(bad) == 0, fmt.Sprint("mismatching: ", bad), true
}

// ---------- the two decodes ----------

func decode(typ uint, m []byte, skip bool) (ok bool, errText string, panicked bool) {
	defer func() {
		if r := recover(); r != nil {
			ok, panicked, errText = false, true, fmt.Sprint("panic: ", r)
		}
	}()
	var b ledger.Block
	var err error
	if skip {
		b, err = ledger.NewBlockFromCbor(typ, m, common.VerifyConfig{SkipBodyHashValidation: true})
	} else {
		b, err = ledger.NewBlockFromCbor(typ, m) // default config = validation on
	}
	if err != nil {
		return false, err.Error(), false
	}
	return b != nil, "", false
}

// ---------- fixtures ----------

type fixture struct {
	space.Fixture
	tree    *space.Node
	bodyOff int // first byte after the header
	proj    [][]byte
	segEnds []int    // end offset of each top-level element after the header
	segName []string // names for keys

	subOnce  sync.Once
	subClass []string

	// [skipFrom, skipTo): byte range excluded from SUB/REENC/TREE because it is a verbatim
	// copy of an earlier part (the second copy of the transaction in the generated block)
	skipFrom, skipTo int
}

func (f *fixture) skipped(off int) bool { return off >= f.skipFrom && off < f.skipTo }

func segNames(typ uint, n int) []string {
	var base []string
	switch {
	case typ <= 1:
		base = []string{"body", "extra"}
	case typ == 8:
		base = []string{"block_body"}
	default:
		base = []string{"tx_bodies", "witness_sets", "aux_data", "invalid_txs"}
	}
	out := make([]string, n)
	for i := range out {
		if i < len(base) {
			out[i] = base[i]
		} else {
			out[i] = fmt.Sprintf("seg%d", i+1)
		}
	}
	return out
}

// region names the place of byte offset off (in the ORIGINAL block) for violation keys.
func (f *fixture) region(off int) string {
	if f.Type == 1 {
		// Byron main: name the payload
		body := f.tree.Items[1]
		if off >= body.Start && off < body.End {
			names := []string{"tx_payload", "ssc_payload", "dlg_payload", "upd_payload"}
			for i, it := range body.Items {
				if off >= it.Start && off < it.End && i < len(names) {
					if i == 0 && it.IsArray() {
						for _, pair := range it.Items {
							if pair.IsArray() && len(pair.Items) == 2 {
								if off >= pair.Items[0].Start && off < pair.Items[0].End {
									return "tx_body"
								}
								if off >= pair.Items[1].Start && off < pair.Items[1].End {
									return "tx_witnesses"
								}
							}
						}
						return "tx_payload-framing"
					}
					return names[i]
				}
			}
			return "body-framing"
		}
	}
	for i, e := range f.segEnds {
		if off < e {
			return f.segName[i]
		}
	}
	return "trailer"
}

func eraName(t uint) string {
	return []string{"byron-ebb", "byron-main", "shelley", "allegra", "mary", "alonzo", "babbage", "conway", "dijkstra"}[t]
}

// genDijkstra builds a Dijkstra block carrying real Dijkstra transactions: the real
// header with its body hash replaced by H(new block_body).
func genDijkstra(real space.Fixture) (space.Fixture, bool) {
	txb, err := space.ReadHexFixture("ledger/dijkstra/testdata/cardano_ledger_dijkstra_w30_tx.hex")
	if err != nil {
		return space.Fixture{}, false
	}
	tx, err := space.Parse(txb)
	if err != nil {
		return space.Fixture{}, false
	}
	root, err := space.Parse(real.Cbor)
	if err != nil || len(root.Items) != 2 {
		return space.Fixture{}, false
	}
	body := space.A(space.Null(), space.A(tx, tx.Clone()), space.Null(), space.Null())
	bodyBytes := body.Encode()
	hb := root.Items[0].Items[0]
	if len(hb.Items) < 10 || hb.Items[7].Major != 2 {
		return space.Fixture{}, false
	}
	hb.Items[7] = space.B(h256(bodyBytes))
	hb.Items[6] = space.U(uint64(len(bodyBytes)))
	out := append(root.Items[0].Encode(), bodyBytes...)
	out = append([]byte{0x82}, out...)
	return space.Fixture{Name: "dijkstra-generated", Type: 8, Cbor: out}, true
}

// ---------- judging ----------

type mutant struct {
	kind  string // SUB / REENC / TREE / TX
	desc  string // full description (replay); for SUB mutants built lazily by describe()
	class string // canonical class for the violation key
	off   int    // offset in the original (SUB) or -1
	bytes []byte
}

// describe builds the description of a mutant (lazily for substitutions: most of them are
// never reported).
func (m mutant) describe(f *fixture) string {
	if m.desc != "" || m.kind != "SUB" {
		return m.desc
	}
	f.prepSub()
	return fmt.Sprintf("byte %d (%s) %02x->%02x", m.off, f.subClass[m.off], f.Cbor[m.off], m.bytes[m.off])
}

// prepSub computes, once per fixture, the class (region|role) of every byte offset.
func (f *fixture) prepSub() {
	f.subOnce.Do(func() {
		roles := byteRoles(f.tree, len(f.Cbor))
		f.subClass = make([]string, len(f.Cbor))
		for off := f.bodyOff; off < len(f.Cbor); off++ {
			f.subClass[off] = f.region(off) + "|" + roles[off]
		}
	})
}

var (
	nDecodable   atomic.Int64
	nBoundReject atomic.Int64
	nUncommitted atomic.Int64
	nUnreadable  atomic.Int64
)

func judge(f *fixture, m mutant) {
	if bytes.Equal(m.bytes, f.Cbor) {
		// e.g. swapping two equal neighbours: not a mutant
		c.Eval("", "identical-to-original")
		return
	}
	okSkip, _, pnSkip := decode(f.Type, m.bytes, true)
	if pnSkip {
		c.Eval("", "panic(validation-off)")
		return
	}
	if !okSkip {
		c.Eval("", "undecodable")
		return
	}
	nDecodable.Add(1)
	okOn, errOn, pnOn := decode(f.Type, m.bytes, false)
	cls := f.Name + "|" + m.kind + "|" + m.class
	if pnOn {
		// a panic is not "decoding succeeded"; totality is C02's subject
		c.Eval(cls, "panic(validation-on)")
		return
	}
	if !okOn {
		nBoundReject.Add(1)
		c.Eval(cls, "decodes-unvalidated,rejected-validated")
		if m.kind != "SUB" {
			c.Sample(map[string]any{"fixture": f.Name, "mutant": m.describe(f), "validation_on": errOn})
		}
		return
	}
	// accepted with validation on: allowed only if the committed part is unchanged
	p, okP := projection(f.Type, m.bytes)
	if !okP {
		c.Eval(cls, "accepted,shape-unreadable-by-reference")
		if nUnreadable.Add(1) <= 5 {
			c.Note(fmt.Sprintf("mutant %s of %s is accepted but my reader cannot extract the committed part; not judged", m.describe(f), f.Name))
		}
		return
	}
	if sameProjection(p, f.proj) {
		nUncommitted.Add(1)
		acceptedMu.Lock()
		acceptedUnchanged[cls]++
		acceptedMu.Unlock()
		c.Eval(cls, "accepted,committed-part-unchanged")
		if m.kind != "SUB" || nUncommitted.Load() < 4 {
			c.Sample(map[string]any{"fixture": f.Name, "mutant": m.describe(f), "verdict": "accepted; bytes outside the commitment named by the property"})
		}
		return
	}
	c.Eval(cls, "ACCEPTED-WITH-CHANGED-COMMITTED-BYTES")
	match, detail, _ := ownCommitmentMatches(f.Type, m.bytes)
	replay := map[string]any{"fixture": f.Name, "type": f.Type, "kind": m.kind, "mutant": m.describe(f), "own_commitment_still_matches": match, "own_commitment_detail": detail}
	if len(m.bytes) <= 40000 {
		replay["block_hex"] = hex.EncodeToString(m.bytes)
	} else if m.kind == "SUB" {
		replay["sub_offset"] = m.off
		replay["sub_value"] = m.bytes[m.off]
	}
	c.Violation(fmt.Sprintf("%s|%s|%s", eraName(f.Type), m.kind, m.class),
		fmt.Sprintf("%s: %s still decodes with body validation ON although the bytes its header commits to changed (own recomputation of the commitment matches the header: %v; %s)", f.Name, m.describe(f), match, detail),
		replay)
}

// ---------- mutant generators ----------

var alphabet16 = func(b byte) []byte {
	cand := []byte{b ^ 0x01, b ^ 0x80, b + 1, b - 1, b ^ 0x20, b ^ 0x40, 0x00, 0xff, 0x80, 0xa0, 0x40, 0x60, 0xf6, 0x9f, 0x18, 0x1b, 0x01, 0x81, 0xa1, 0x41}
	var out []byte
	seen := map[byte]bool{b: true}
	for _, v := range cand {
		if !seen[v] && len(out) < 16 {
			seen[v] = true
			out = append(out, v)
		}
	}
	return out
}

// alphabetN: the first n values of alphabet16 without allocating.
func alphabetN(b byte, n int, out []byte) []byte {
	cand := [...]byte{b ^ 0x01, b ^ 0x80, b + 1, b - 1, b ^ 0x20, b ^ 0x40, 0x00, 0xff, 0x80, 0xa0, 0x40, 0x60, 0xf6, 0x9f, 0x18, 0x1b, 0x01, 0x81, 0xa1, 0x41}
	for _, v := range cand {
		if len(out) >= n {
			break
		}
		dup := v == b
		for _, w := range out {
			if w == v {
				dup = true
			}
		}
		if !dup {
			out = append(out, v)
		}
	}
	return out
}

func headKind(n *space.Node) string {
	return []string{"uint", "nint", "bstr", "tstr", "array", "map", "tag", "simple"}[n.Major]
}

// byteRole classifies offset off of the original block: header byte of an item (with the
// item's kind) or content byte of a string, for canonical violation classes.
func byteRoles(root *space.Node, n int) []string {
	roles := make([]string, n)
	root.Walk(func(x *space.Node, path []int) {
		for i := x.Start; i < x.HdrEnd && i < n; i++ {
			roles[i] = headKind(x) + "-head"
		}
		if (x.Major == 2 || x.Major == 3) && x.Form != space.FormIndef {
			for i := x.HdrEnd; i < x.End && i < n; i++ {
				roles[i] = headKind(x) + "-content"
			}
		}
	})
	for i := range roles {
		if roles[i] == "" {
			roles[i] = "break-or-other"
		}
	}
	return roles
}

// splice returns the original block with the bytes of node n replaced by sub.
func (f *fixture) splice(n *space.Node, sub []byte) []byte {
	out := make([]byte, 0, len(f.Cbor)+len(sub)-(n.End-n.Start))
	out = append(out, f.Cbor[:n.Start]...)
	out = append(out, sub...)
	return append(out, f.Cbor[n.End:]...)
}

// reencMutants: every single-header re-encoding (same alphabet as space.EnumD1: every
// alternative header form of every item) of the items after the header, down to maxDepth
// (0 = unlimited). The variant is produced by re-encoding only the affected item and
// splicing it into the original bytes (the fixture tree re-encodes byte-identically, which
// main() verifies, so this equals re-encoding the whole edited tree).
func (f *fixture) reencMutants(maxDepth int, emit func(mutant)) {
	sites := space.Sites(f.tree, func(n *space.Node, path []int) bool {
		return len(path) >= 1 && path[0] >= 1 && (maxDepth == 0 || len(path) <= maxDepth) && !f.skipped(n.Start)
	})
	kinds := []string{"uint", "nint", "bstr", "tstr", "arr", "map", "tag", "simple"}
	for _, st := range sites {
		for _, form := range st.Alts {
			cp := *st.Node // shallow copy: children shared, only the header form differs
			cp.Form = form
			emit(mutant{kind: "REENC", off: -1,
				desc:  fmt.Sprintf("%s:%s->%s", pathS(st.Path), kinds[cp.Major], space.FormNames[form]),
				class: fmt.Sprintf("%s|%s->%s", f.region(st.Node.Start), kinds[cp.Major], space.FormNames[form]),
				bytes: f.splice(st.Node, cp.Encode())})
		}
	}
}

func pathS(p []int) string {
	s := ""
	for _, i := range p {
		s += fmt.Sprintf("/%d", i)
	}
	if s == "" {
		return "/"
	}
	return s
}

// treeMutants: single child edits at every container after the header (and the block array).
func (f *fixture) treeMutants(maxDepth int, emit func(mutant)) {
	type site struct{ path []int }
	var sites []site
	f.tree.Walk(func(n *space.Node, path []int) {
		if n.Major != 4 && n.Major != 5 {
			return
		}
		if len(path) == 0 || (path[0] >= 1 && len(path) <= maxDepth && !f.skipped(n.Start)) {
			sites = append(sites, site{append([]int{}, path...)})
		}
	})
	for _, s := range sites {
		orig := f.tree.At(s.path)
		unit := 1
		if orig.Major == 5 {
			unit = 2
		}
		n := len(orig.Items) / unit
		lo := 0
		if len(s.path) == 0 {
			lo = 1 // never touch the header
		}
		where := "block-array"
		if len(s.path) > 0 {
			where = f.region(orig.Start) + fmt.Sprintf("@d%d:%s", len(s.path), headKind(orig))
		}
		build := func(op string, items []*space.Node) {
			cp := *orig // shallow copy with the edited child list, spliced into the original bytes
			cp.Items = items
			cp.Arg = uint64(len(items) / unit)
			emit(mutant{kind: "TREE", off: -1, desc: fmt.Sprintf("%s %s", pathS(s.path), op), class: where + "|" + opName(op), bytes: f.splice(orig, cp.Encode())})
		}
		for i := lo; i < n; i++ {
			// delete child i
			it := append([]*space.Node{}, orig.Items[:i*unit]...)
			it = append(it, orig.Items[(i+1)*unit:]...)
			build(fmt.Sprintf("delete[%d]", i), it)
			// duplicate child i (right after itself)
			it = append([]*space.Node{}, orig.Items[:(i+1)*unit]...)
			it = append(it, orig.Items[i*unit:(i+1)*unit]...)
			it = append(it, orig.Items[(i+1)*unit:]...)
			build(fmt.Sprintf("duplicate[%d]", i), it)
			if i+1 < n {
				// swap with the next
				it = append([]*space.Node{}, orig.Items...)
				for k := 0; k < unit; k++ {
					it[i*unit+k], it[(i+1)*unit+k] = it[(i+1)*unit+k], it[i*unit+k]
				}
				build(fmt.Sprintf("swap[%d,%d]", i, i+1), it)
				// move to the end
				if i+2 < n {
					it = append([]*space.Node{}, orig.Items[:i*unit]...)
					it = append(it, orig.Items[(i+1)*unit:]...)
					it = append(it, orig.Items[i*unit:(i+1)*unit]...)
					build(fmt.Sprintf("move-to-end[%d]", i), it)
				}
			}
		}
		// append an empty array / a copy of the last element (extra element)
		if len(s.path) == 0 {
			it := append(append([]*space.Node{}, orig.Items...), space.A())
			build("append-empty-array", it)
			it = append(append([]*space.Node{}, orig.Items...), orig.Items[len(orig.Items)-1])
			build("append-copy-of-last", it)
		}
	}
}

func opName(op string) string {
	for i := 0; i < len(op); i++ {
		if op[i] == '[' {
			return op[:i]
		}
	}
	return op
}

func (f *fixture) segNameOf(i int) string {
	if i >= 1 && i-1 < len(f.segName) {
		return f.segName[i-1]
	}
	return fmt.Sprintf("seg%d", i)
}

// txMutants: consistent transaction-level edits.
func (f *fixture) txMutants(emit func(mutant)) {
	mk := func(class, desc string, edit func(root *space.Node) bool) {
		root := f.tree.Clone()
		if edit(root) {
			emit(mutant{kind: "TX", off: -1, desc: desc, class: class, bytes: root.Encode()})
		}
	}
	setItems := func(n *space.Node, items []*space.Node) {
		n.Items = items
		if n.Major == 5 {
			n.Arg = uint64(len(items) / 2)
		} else {
			n.Arg = uint64(len(items))
		}
	}
	without := func(items []*space.Node, i int) []*space.Node {
		out := append([]*space.Node{}, items[:i]...)
		return append(out, items[i+1:]...)
	}
	switch {
	case f.Type >= 2 && f.Type <= 7:
		bodies, wits, aux := f.tree.Items[1], f.tree.Items[2], f.tree.Items[3]
		n := len(bodies.Items)
		if len(wits.Items) != n {
			return
		}
		// re-index a metadata map after dropping tx i
		reindexAux := func(a *space.Node, drop int) {
			var kv []*space.Node
			for k := 0; k+1 < len(a.Items); k += 2 {
				key := a.Items[k]
				if key.Major != 0 {
					kv = append(kv, key, a.Items[k+1])
					continue
				}
				switch {
				case int(key.Arg) == drop:
				case int(key.Arg) > drop:
					kv = append(kv, space.U(key.Arg-1), a.Items[k+1])
				default:
					kv = append(kv, key, a.Items[k+1])
				}
			}
			setItems(a, kv)
		}
		for i := 0; i < n; i++ {
			i := i
			mk("drop-tx", fmt.Sprintf("drop tx %d (body, witness set, metadata; re-indexed)", i), func(r *space.Node) bool {
				setItems(r.Items[1], without(r.Items[1].Items, i))
				setItems(r.Items[2], without(r.Items[2].Items, i))
				if r.Items[3].Major == 5 {
					reindexAux(r.Items[3], i)
				}
				return true
			})
			mk("duplicate-tx", fmt.Sprintf("append a copy of tx %d (body + witness set)", i), func(r *space.Node) bool {
				setItems(r.Items[1], append(r.Items[1].Items, r.Items[1].Items[i]))
				setItems(r.Items[2], append(r.Items[2].Items, r.Items[2].Items[i]))
				return true
			})
			mk("replace-witness-by-empty", fmt.Sprintf("witness set %d replaced by {}", i), func(r *space.Node) bool {
				r.Items[2].Items[i] = space.M()
				return true
			})
			for j := i + 1; j < n; j++ {
				j := j
				mk("swap-witness-sets", fmt.Sprintf("swap witness sets %d,%d", i, j), func(r *space.Node) bool {
					w := r.Items[2].Items
					if bytes.Equal(f.Cbor[wits.Items[i].Start:wits.Items[i].End], f.Cbor[wits.Items[j].Start:wits.Items[j].End]) {
						return false
					}
					w[i], w[j] = w[j], w[i]
					return true
				})
				mk("swap-tx-bodies", fmt.Sprintf("swap tx bodies %d,%d", i, j), func(r *space.Node) bool {
					b := r.Items[1].Items
					b[i], b[j] = b[j], b[i]
					return true
				})
				mk("swap-whole-txs", fmt.Sprintf("swap txs %d,%d (body and witness set)", i, j), func(r *space.Node) bool {
					b, w := r.Items[1].Items, r.Items[2].Items
					b[i], b[j] = b[j], b[i]
					w[i], w[j] = w[j], w[i]
					return true
				})
			}
		}
		// metadata: move each entry to every other tx index, drop all, add a copy for a tx without one
		if aux.Major == 5 {
			na := len(aux.Items) / 2
			for k := 0; k < na; k++ {
				k := k
				for t := 0; t < n; t++ {
					t := t
					if aux.Items[2*k].Major == 0 && int(aux.Items[2*k].Arg) == t {
						continue
					}
					dupKey := false
					for q := 0; q < na; q++ {
						if q != k && aux.Items[2*q].Major == 0 && int(aux.Items[2*q].Arg) == t {
							dupKey = true
						}
					}
					if dupKey {
						continue
					}
					mk("metadata-rekey", fmt.Sprintf("metadata entry %d moved to tx index %d", k, t), func(r *space.Node) bool {
						r.Items[3].Items[2*k] = space.U(uint64(t))
						return true
					})
				}
			}
			if na > 0 {
				mk("metadata-clear", "metadata map emptied", func(r *space.Node) bool { setItems(r.Items[3], nil); return true })
			}
		}
		// invalid-tx list
		if f.Type >= 5 && len(f.tree.Items) >= 5 && f.tree.Items[4].Major == 4 {
			cands := map[string][]uint64{"[]": {}}
			if n > 0 {
				cands["[0]"] = []uint64{0}
				cands["[n-1]"] = []uint64{uint64(n - 1)}
				var allIdx []uint64
				for i := 0; i < n; i++ {
					allIdx = append(allIdx, uint64(i))
				}
				cands["[0..n-1]"] = allIdx
			}
			cands["[n]"] = []uint64{uint64(n)}
			names := make([]string, 0, len(cands))
			for k := range cands {
				names = append(names, k)
			}
			sort.Strings(names)
			for _, name := range names {
				idx := cands[name]
				mk("invalid-txs-set", "invalid-tx list := "+name, func(r *space.Node) bool {
					var it []*space.Node
					for _, v := range idx {
						it = append(it, space.U(v))
					}
					cur := r.Items[4]
					if len(cur.Items) == len(it) {
						same := true
						for q := range it {
							if cur.Items[q].Arg != it[q].Arg {
								same = false
							}
						}
						if same {
							return false
						}
					}
					setItems(cur, it)
					return true
				})
			}
		}
	case f.Type == 8:
		body := f.tree.Items[1]
		if !body.IsArray() || len(body.Items) != 4 || !body.Items[1].IsArray() {
			return
		}
		n := len(body.Items[1].Items)
		for i := 0; i < n; i++ {
			i := i
			mk("drop-tx", fmt.Sprintf("drop tx %d", i), func(r *space.Node) bool {
				setItems(r.Items[1].Items[1], without(r.Items[1].Items[1].Items, i))
				return true
			})
			mk("duplicate-tx", fmt.Sprintf("append a copy of tx %d", i), func(r *space.Node) bool {
				t := r.Items[1].Items[1]
				setItems(t, append(t.Items, t.Items[i]))
				return true
			})
		}
		for _, name := range []string{"[0]", "[n-1]", "[n]"} {
			name := name
			mk("invalid-txs-set", "invalid_transactions := "+name, func(r *space.Node) bool {
				if n == 0 && name != "[n]" {
					return false
				}
				v := uint64(0)
				if name == "[n-1]" {
					v = uint64(n - 1)
				} else if name == "[n]" {
					v = uint64(n)
				}
				r.Items[1].Items[0] = space.A(space.U(v))
				return true
			})
		}
		mk("peras-certificate-set", "peras_certificate := h'00'", func(r *space.Node) bool {
			r.Items[1].Items[3] = space.B([]byte{0})
			return true
		})
		mk("peras-certificate-set", "peras_certificate := h''", func(r *space.Node) bool {
			r.Items[1].Items[3] = space.B([]byte{})
			return true
		})
	case f.Type == 1:
		body := f.tree.Items[1]
		if !body.IsArray() || len(body.Items) != 4 || !body.Items[0].IsArray() {
			return
		}
		n := len(body.Items[0].Items)
		for i := 0; i < n; i++ {
			i := i
			mk("drop-tx", fmt.Sprintf("drop [tx,witnesses] pair %d", i), func(r *space.Node) bool {
				t := r.Items[1].Items[0]
				setItems(t, without(t.Items, i))
				return true
			})
			mk("duplicate-tx", fmt.Sprintf("append a copy of pair %d", i), func(r *space.Node) bool {
				t := r.Items[1].Items[0]
				setItems(t, append(t.Items, t.Items[i]))
				return true
			})
			for j := i + 1; j < n; j++ {
				j := j
				mk("swap-witnesses", fmt.Sprintf("swap witnesses of pairs %d,%d", i, j), func(r *space.Node) bool {
					t := r.Items[1].Items[0].Items
					t[i].Items[1], t[j].Items[1] = t[j].Items[1], t[i].Items[1]
					return true
				})
				mk("swap-tx-bodies", fmt.Sprintf("swap tx bodies of pairs %d,%d", i, j), func(r *space.Node) bool {
					t := r.Items[1].Items[0].Items
					t[i].Items[0], t[j].Items[0] = t[j].Items[0], t[i].Items[0]
					return true
				})
				mk("swap-whole-txs", fmt.Sprintf("swap pairs %d,%d", i, j), func(r *space.Node) bool {
					t := r.Items[1].Items[0].Items
					t[i], t[j] = t[j], t[i]
					return true
				})
			}
		}
		names := []string{"tx_payload", "ssc_payload", "dlg_payload", "upd_payload"}
		for a := 1; a < 4; a++ {
			for b := 1; b < 4; b++ {
				if a == b {
					continue
				}
				a, b := a, b
				mk("payload-replaced|"+names[a], fmt.Sprintf("%s := copy of %s", names[a], names[b]), func(r *space.Node) bool {
					if bytes.Equal(f.Cbor[body.Items[a].Start:body.Items[a].End], f.Cbor[body.Items[b].Start:body.Items[b].End]) {
						return false
					}
					r.Items[1].Items[a] = r.Items[1].Items[b]
					return true
				})
			}
		}
		for a := 2; a < 4; a++ {
			a := a
			for _, alt := range []*space.Node{space.A(), space.AIndef(), space.A(space.A())} {
				alt := alt
				mk("payload-replaced|"+names[a], fmt.Sprintf("%s := %x", names[a], alt.Encode()), func(r *space.Node) bool {
					if bytes.Equal(f.Cbor[body.Items[a].Start:body.Items[a].End], alt.Encode()) {
						return false
					}
					r.Items[1].Items[a] = alt
					return true
				})
			}
		}
	}
}

// ebbStructural: the EBB body is one list of 21 600 stakeholder ids: delete/duplicate the
// first, second, middle and last id, swap the first two, make the list definite, and the
// same extra-element edits of the block array as for the other eras.
func (f *fixture) ebbStructural(emit func(mutant)) {
	body := f.tree.Items[1]
	n := len(body.Items)
	build := func(op string, items []*space.Node, form int) {
		cp := *body
		cp.Items = items
		cp.Arg = uint64(len(items))
		cp.Form = form
		emit(mutant{kind: "TREE", off: -1, desc: "/1 " + op, class: "body|" + opName(op), bytes: f.splice(body, cp.Encode())})
	}
	if body.IsArray() && n >= 4 {
		for _, i := range []int{0, 1, n / 2, n - 1} {
			it := append(append([]*space.Node{}, body.Items[:i]...), body.Items[i+1:]...)
			build(fmt.Sprintf("delete[%d]", i), it, body.Form)
			it = append(append(append([]*space.Node{}, body.Items[:i+1]...), body.Items[i]), body.Items[i+1:]...)
			build(fmt.Sprintf("duplicate[%d]", i), it, body.Form)
		}
		it := append([]*space.Node{}, body.Items...)
		it[0], it[1] = it[1], it[0]
		build("swap[0,1]", it, body.Form)
		for _, form := range space.AltForms(body) {
			build("reencode-list["+space.FormNames[form]+"]", body.Items, form)
		}
	}
	top := f.tree
	for _, extra := range []*space.Node{space.A(), top.Items[len(top.Items)-1]} {
		cp := *top
		cp.Items = append(append([]*space.Node{}, top.Items...), extra)
		cp.Arg = uint64(len(cp.Items))
		emit(mutant{kind: "TREE", off: -1, desc: "/ append element", class: "block-array|append", bytes: cp.Encode()})
	}
}

var (
	acceptedMu        sync.Mutex
	acceptedUnchanged = map[string]int64{}
)

// ---------- main ----------

func main() {
	c = vlib.New("C34", "exploration")
	if c.Replay != "" {
		replay(c.Replay)
		return
	}
	deadline := c.Deadline(45*time.Second, 8*time.Minute+30*time.Second)

	raws := space.Blocks(true)
	for _, r := range raws {
		if r.Name == "dijkstra" {
			if g, ok := genDijkstra(r); ok {
				raws = append(raws, g)
			} else {
				c.Note("could not build the generated Dijkstra block")
			}
		}
	}
	// small blocks first
	sort.SliceStable(raws, func(i, j int) bool { return len(raws[i].Cbor) < len(raws[j].Cbor) })

	var fxs []*fixture
	erasSeen := map[uint]bool{}
	fixtureTable := map[string]string{}
	defer func() {}()
	for _, r := range raws {
		tree, err := space.Parse(r.Cbor)
		if err != nil || !tree.IsArray() || len(tree.Items) < 2 {
			c.Internal("fixture %s does not parse: %v", r.Name, err)
		}
		if !bytes.Equal(tree.Encode(), r.Cbor) {
			c.Internal("fixture %s does not re-encode byte-identically through verif/space (splicing would be unsound)", r.Name)
		}
		f := &fixture{Fixture: r, tree: tree, bodyOff: tree.Items[0].End}
		for _, it := range tree.Items[1:] {
			f.segEnds = append(f.segEnds, it.End)
		}
		f.segName = segNames(r.Type, len(f.segEnds))
		if r.Name == "dijkstra-generated" {
			if txs := tree.Items[1].Items[1]; txs.IsArray() && len(txs.Items) == 2 {
				f.skipFrom, f.skipTo = txs.Items[1].Start, txs.Items[1].End
			}
		}
		p, ok := projection(r.Type, r.Cbor)
		if !ok {
			c.Internal("fixture %s: cannot extract the committed part", r.Name)
		}
		f.proj = p

		// "every real block decodes successfully" + my reference agrees with the real header
		okOn, errOn, _ := decode(r.Type, r.Cbor, false)
		okSkip, errSkip, _ := decode(r.Type, r.Cbor, true)
		match, detail, okRef := ownCommitmentMatches(r.Type, r.Cbor)
		generated := r.Name == "dijkstra-generated"
		c.Eval("real|"+r.Name, fmt.Sprintf("unmutated:on=%v,off=%v", okOn, okSkip))
		fixtureTable[r.Name] = fmt.Sprintf("type %d, %d bytes, %d after the header, decodes validated=%v, own commitment matches header=%v", r.Type, len(r.Cbor), len(r.Cbor)-f.bodyOff, okOn, match)
		if !okRef || !match {
			if generated {
				c.Note("generated Dijkstra block: own commitment does not match (" + detail + "); skipped")
				continue
			}
			c.Internal("reference model disagrees with the real block %s: %s (the oracle would be wrong)", r.Name, detail)
		}
		if !okOn || !okSkip {
			if generated {
				c.Note(fmt.Sprintf("generated Dijkstra block does not decode (on: %s / off: %s); skipped", errOn, errSkip))
				continue
			}
			c.Violation(fmt.Sprintf("%s|real-block-rejected|validation-on=%v|validation-off=%v", eraName(r.Type), okOn, okSkip),
				fmt.Sprintf("real block %s does not decode: validation on: %q, off: %q", r.Name, errOn, errSkip),
				map[string]any{"fixture": r.Name, "type": r.Type, "kind": "REAL"})
			continue
		}
		erasSeen[r.Type] = true
		fxs = append(fxs, f)
	}
	for t := uint(0); t <= 8; t++ {
		if !erasSeen[t] {
			c.Note("no usable fixture for block type " + eraName(t))
		}
	}

	perFixture := map[string]map[string]int64{}
	stopped := false
	type deadlineHit struct{}
	run := func(f *fixture, label string, gen func(emit func(mutant))) {
		if stopped {
			return
		}
		ch := make(chan mutant, 4*runtime.NumCPU())
		var wg sync.WaitGroup
		for w := 0; w < runtime.NumCPU(); w++ {
			wg.Add(1)
			go func() {
				defer wg.Done()
				for m := range ch {
					judge(f, m)
				}
			}()
		}
		var count int64
		func() {
			defer func() {
				if r := recover(); r != nil {
					if _, isDl := r.(deadlineHit); !isDl {
						panic(r)
					}
					stopped = true
				}
			}()
			gen(func(m mutant) {
				if count%64 == 0 && time.Now().After(deadline) {
					panic(deadlineHit{})
				}
				ch <- m
				count++
			})
		}()
		close(ch)
		wg.Wait()
		if perFixture[f.Name] == nil {
			perFixture[f.Name] = map[string]int64{}
		}
		perFixture[f.Name][label] += count
		if stopped {
			c.NotExhaustive(fmt.Sprintf("deadline reached in %s/%s after %d mutants of that group; the rest of the group and all later groups were not run", f.Name, label, count))
		}
	}

	// Order: the cheap, most informative kinds first on every fixture, so that a run cut by
	// the deadline has covered them completely.
	thorough := c.Thorough()
	treeDepth, reencDepth := 3, 3
	if thorough {
		treeDepth, reencDepth = 6, 0
	}
	subGen := func(f *fixture, stride, nvals int, all bool) func(e func(mutant)) {
		return func(e func(mutant)) {
			f.prepSub()
			var buf [16]byte
			for off := f.bodyOff; off < len(f.Cbor); off += stride {
				if f.skipped(off) {
					continue
				}
				orig := f.Cbor[off]
				var vals []byte
				if all {
					vals = make([]byte, 0, 255)
					for v := 0; v < 256; v++ {
						if byte(v) != orig {
							vals = append(vals, byte(v))
						}
					}
				} else {
					vals = alphabetN(orig, nvals, buf[:0])
				}
				for _, v := range vals {
					mb := make([]byte, len(f.Cbor))
					copy(mb, f.Cbor)
					mb[off] = v
					e(mutant{kind: "SUB", off: off, class: f.subClass[off], bytes: mb})
				}
			}
		}
	}
	subPlan := map[string]string{}
	for _, f := range fxs {
		f := f
		if f.Type == 0 {
			continue // the EBB body is one 21 600-element list; handled at the end
		}
		run(f, "TX", func(e func(mutant)) { f.txMutants(e) })
		run(f, "TREE", func(e func(mutant)) { f.treeMutants(treeDepth, e) })
	}
	// substitutions, small bodies (complete byte alphabet where affordable)
	small := func(f *fixture) bool { return len(f.Cbor)-f.bodyOff <= 2300 }
	for _, f := range fxs {
		if f.Type == 0 || !small(f) {
			continue
		}
		body := len(f.Cbor) - f.bodyOff
		switch {
		case body <= 64:
			subPlan[f.Name] = "every offset x all 255 other values"
			run(f, "SUB", subGen(f, 1, 0, true))
		case thorough:
			subPlan[f.Name] = "every offset x 16 values"
			run(f, "SUB", subGen(f, 1, 16, false))
		default:
			subPlan[f.Name] = "every offset x 2 values"
			run(f, "SUB", subGen(f, 1, 2, false))
		}
	}
	for _, f := range fxs {
		f := f
		if f.Type == 0 {
			continue
		}
		run(f, "REENC", func(e func(mutant)) { f.reencMutants(reencDepth, e) })
	}
	// substitutions, large bodies
	for _, f := range fxs {
		if f.Type == 0 || small(f) {
			continue
		}
		body := len(f.Cbor) - f.bodyOff
		switch {
		case thorough && body <= 10000:
			subPlan[f.Name] = "every offset x 6 values"
			run(f, "SUB", subGen(f, 1, 6, false))
		case thorough && body <= 20000:
			subPlan[f.Name] = "every offset x 3 values"
			run(f, "SUB", subGen(f, 1, 3, false))
		case thorough:
			subPlan[f.Name] = "every offset x 2 values"
			run(f, "SUB", subGen(f, 1, 2, false))
		case body <= 10000:
			subPlan[f.Name] = "every 8th offset x 2 values"
			run(f, "SUB", subGen(f, 8, 2, false))
		default:
			subPlan[f.Name] = "every 32nd offset x 2 values"
			run(f, "SUB", subGen(f, 32, 2, false))
		}
	}
	// epoch boundary block (648 kB, ~0.1 s per decode)
	for _, f := range fxs {
		f := f
		if f.Type != 0 {
			continue
		}
		stride := 16384
		if thorough {
			stride = 4096
		}
		subPlan[f.Name] = fmt.Sprintf("every %dth offset x 2 values + 16 values at the 5 framing bytes; TREE/REENC on the body and extra-data containers only", stride)
		run(f, "TREE", func(e func(mutant)) { f.ebbStructural(e) })
		run(f, "SUB", func(e func(mutant)) {
			roles := byteRoles(f.tree, len(f.Cbor))
			one := func(off int, vals []byte) {
				for _, v := range vals {
					mb := append([]byte{}, f.Cbor...)
					mb[off] = v
					e(mutant{kind: "SUB", off: off, desc: fmt.Sprintf("byte %d (%s, %s) %02x->%02x", off, f.region(off), roles[off], f.Cbor[off], v), class: f.region(off) + "|" + roles[off], bytes: mb})
				}
			}
			for _, off := range []int{f.bodyOff, f.bodyOff + 1, f.tree.Items[1].End - 1, f.tree.Items[1].End, len(f.Cbor) - 1} {
				one(off, alphabet16(f.Cbor[off]))
			}
			for off := f.bodyOff + 2; off < len(f.Cbor); off += stride {
				one(off, alphabet16(f.Cbor[off])[:2])
			}
		})
	}
	c.Set("substitution_plan", subPlan)
	c.Set("fixtures", fixtureTable)
	acceptedMu.Lock()
	c.Set("accepted_with_committed_part_unchanged_by_class", acceptedUnchanged)
	acceptedMu.Unlock()

	c.Set("mutants_per_fixture", perFixture)
	c.Set("mutants_decodable_without_validation", nDecodable.Load())
	c.Set("of_those_rejected_with_validation", nBoundReject.Load())
	c.Set("of_those_accepted_committed_part_unchanged", nUncommitted.Load())
	c.Set("rule", fmt.Sprintf("per fixture (header untouched): SUB single-byte substitutions after the header per coverage.substitution_plan (ordered fixed value alphabet, or all 255 other values); REENC every single-header re-encoding of every item after the header (depth bound %d, 0 = none); TREE delete/duplicate/swap-next/move-to-end of every child of every array/map after the header down to depth %d + extra block-array elements (EBB: first/second/middle/last id only); TX consistent transaction-level edits (drop/duplicate tx, swap witness sets/bodies/whole txs for every pair, witness set := {}, metadata re-keyed to every other index / cleared, invalid-tx list := [], [0], [n-1], [0..n-1], [n]; Byron: drop/duplicate pair, swap witnesses/bodies/pairs, payloads replaced by each other and by 80, 9fff, 8180; Dijkstra: drop/duplicate tx, invalid_transactions, peras certificate). distinct = (fixture, kind, region, role/op class) among mutants that decode with validation off", reencDepth, treeDepth))
	c.Assume("blake2b-256 (golang.org/x/crypto) trusted; the reference commitment (own CBOR reader, own merkle tree, own segment hashing) is pinned to the real headers: it must reproduce the committed value of every real fixture, else the run aborts as INTERNAL-ERROR")
	c.Assume("header bytes are never mutated (out of scope); ssc payload, Byron extra data and list framing are not in the commitment the property names: mutants confined to them are counted as 'accepted,committed-part-unchanged', not judged")
	// free-running -race pass: concurrent callers on their own inputs (state the library shares between calls)
	c.RaceAudit("c34")
	c.Finish()
}

func replay(path string) {
	b, err := os.ReadFile(path)
	if err != nil {
		c.Internal("replay: %v", err)
	}
	var doc struct {
		Replay struct {
			Fixture  string `json:"fixture"`
			Type     uint   `json:"type"`
			Kind     string `json:"kind"`
			Mutant   string `json:"mutant"`
			BlockHex string `json:"block_hex"`
			SubOff   int    `json:"sub_offset"`
			SubVal   byte   `json:"sub_value"`
		} `json:"replay"`
	}
	if err := json.Unmarshal(b, &doc); err != nil {
		c.Internal("replay: %v", err)
	}
	r := doc.Replay
	var real *space.Fixture
	all := space.Blocks(true)
	for i := range all {
		if all[i].Name == "dijkstra" {
			if g, ok := genDijkstra(all[i]); ok {
				all = append(all, g)
			}
		}
	}
	for i := range all {
		if all[i].Name == r.Fixture {
			real = &all[i]
		}
	}
	if real == nil {
		c.Internal("replay: unknown fixture %q", r.Fixture)
	}
	tree, _ := space.Parse(real.Cbor)
	f := &fixture{Fixture: *real, tree: tree, bodyOff: tree.Items[0].End}
	for _, it := range tree.Items[1:] {
		f.segEnds = append(f.segEnds, it.End)
	}
	f.segName = segNames(real.Type, len(f.segEnds))
	f.proj, _ = projection(real.Type, real.Cbor)
	var mb []byte
	switch {
	case r.Kind == "REAL":
		okOn, e1, _ := decode(real.Type, real.Cbor, false)
		fmt.Printf("real block %s: validation on -> ok=%v %s\n", real.Name, okOn, e1)
		if !okOn {
			os.Exit(1)
		}
		os.Exit(0)
	case r.BlockHex != "":
		mb, _ = hex.DecodeString(r.BlockHex)
	default:
		mb = append([]byte{}, real.Cbor...)
		mb[r.SubOff] = r.SubVal
	}
	okOff, e0, _ := decode(real.Type, mb, true)
	okOn, e1, _ := decode(real.Type, mb, false)
	p, okP := projection(real.Type, mb)
	fmt.Printf("%s / %s\n  validation off: ok=%v %s\n  validation on : ok=%v %s\n  committed part readable=%v unchanged=%v\n", real.Name, r.Mutant, okOff, e0, okOn, e1, okP, okP && sameProjection(p, f.proj))
	judge(f, mutant{kind: r.Kind, desc: r.Mutant, class: "replay", off: r.SubOff, bytes: mb})
	if c.Violations() > 0 {
		os.Exit(1)
	}
	os.Exit(0)
}
