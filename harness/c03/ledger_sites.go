package main

import (
	"fmt"
	"strings"

	"github.com/blinklabs-io/gouroboros/cbor"
	"github.com/blinklabs-io/gouroboros/ledger/babbage"
	"github.com/blinklabs-io/gouroboros/ledger/byron"
	"github.com/blinklabs-io/gouroboros/ledger/common"
	"github.com/blinklabs-io/gouroboros/ledger/conway"
	"github.com/blinklabs-io/gouroboros/ledger/dijkstra"
	"verif/space"
	"verif/vlib"
)

// shorthands for the harness's own CBOR writer
var (
	A    = space.A
	U    = space.U
	B    = space.B
	T    = space.T
	M    = space.M
	Tag  = space.Tag
	Null = space.Null
)

func lab(name string, t any) string { return fmt.Sprintf("%s/%v", name, t) }

// typ returns the Go type name of v without the package path noise ("*common.X").
func typ(v any) string { return fmt.Sprintf("%T", v) }

var seed int64

// hN returns an n-byte representative value (VERIF_SEED rotates the contents only).
func hN(n int, k byte) []byte {
	b := make([]byte, n)
	for i := range b {
		b[i] = byte(int64(i)*7+int64(k)*31+seed*13) ^ k
	}
	return b
}
func h28(k byte) *space.Node { return B(hN(28, k)) }
func h32(k byte) *space.Node { return B(hN(32, k)) }

func cred(k byte) *space.Node   { return A(U(0), h28(k)) }
func anchor() *space.Node       { return A(T("https://example.invalid/a.json"), h32(9)) }
func unitInterval() *space.Node { return Tag(30, A(U(1), U(2))) }
func rewardAccount() *space.Node {
	return B(append([]byte{0xe1}, hN(28, 5)...))
}
func govActionID() *space.Node { return A(h32(4), U(0)) }

func buildLedgerSites(c *vlib.Check) {
	seed = c.Seed

	// ---- certificates (Conway CDDL certificate = [0..18, ...], Shelley MIR/genesis 5,6) ----
	certNames := map[uint64]string{
		0: "StakeRegistrationCertificate", 1: "StakeDeregistrationCertificate", 2: "StakeDelegationCertificate",
		3: "PoolRegistrationCertificate", 4: "PoolRetirementCertificate", 5: "GenesisKeyDelegationCertificate",
		6: "MoveInstantaneousRewardsCertificate", 7: "RegistrationCertificate", 8: "DeregistrationCertificate",
		9: "VoteDelegationCertificate", 10: "StakeVoteDelegationCertificate", 11: "StakeRegistrationDelegationCertificate",
		12: "VoteRegistrationDelegationCertificate", 13: "StakeVoteRegistrationDelegationCertificate",
		14: "AuthCommitteeHotCertificate", 15: "ResignCommitteeColdCertificate", 16: "RegistrationDrepCertificate",
		17: "DeregistrationDrepCertificate", 18: "UpdateDrepCertificate",
	}
	drepKey := A(U(0), h28(7))
	relay0 := A(U(0), U(3001), B([]byte{127, 0, 0, 1}), Null())
	poolParams := []*space.Node{h28(1), h32(2), U(1000), U(340), unitInterval(), rewardAccount(),
		A(h28(3)), A(relay0), A(T("https://example.invalid/p.json"), h32(6))}
	certBodies := map[uint64][]*space.Node{
		0:  {cred(1)},
		1:  {cred(1)},
		2:  {cred(1), h28(2)},
		3:  poolParams,
		4:  {h28(1), U(300)},
		5:  {h28(1), h28(2), h32(3)},
		6:  {A(U(0), M(cred(1), U(5)))},
		7:  {cred(1), U(2000000)},
		8:  {cred(1), U(2000000)},
		9:  {cred(1), drepKey},
		10: {cred(1), h28(2), drepKey},
		11: {cred(1), h28(2), U(2000000)},
		12: {cred(1), drepKey, U(2000000)},
		13: {cred(1), h28(2), drepKey, U(2000000)},
		14: {cred(1), cred(2)},
		15: {cred(1), anchor()},
		16: {cred(1), U(500000000), anchor()},
		17: {cred(1), U(500000000)},
		18: {cred(1), Null()},
	}
	cs := &site{
		name:    "common.CertificateWrapper",
		anchors: []string{"ledger/common/certs.go:CertificateWrapper.UnmarshalCBOR"},
		dec: func(b []byte) (string, error) {
			var w common.CertificateWrapper
			if _, err := cbor.Decode(b, &w); err != nil {
				return "", err
			}
			return lab(strings.TrimPrefix(typ(w.Certificate), "*common."), w.Type), nil
		},
	}
	for t := uint64(0); t <= 18; t++ {
		items := append([]*space.Node{U(t)}, certBodies[t]...)
		cs.insts = append(cs.insts, inst{tag: t, desc: "certificate " + certNames[t], root: A(items...), want: lab(certNames[t], t)})
	}
	cs.insts = append(cs.insts, inst{tag: 19, desc: "certificate with undefined tag 19", root: A(U(19), cred(1)), want: ""})
	addSite(cs)

	// ---- drep = [0, keyhash] / [1, scripthash] / [2] / [3] ----
	ds := &site{
		name:    "common.Drep",
		anchors: []string{"ledger/common/certs.go:Drep.UnmarshalCBOR"},
		dec: func(b []byte) (string, error) {
			var d common.Drep
			if _, err := cbor.Decode(b, &d); err != nil {
				return "", err
			}
			return fmt.Sprintf("drep/%d/cred=%d", d.Type, len(d.Credential)), nil
		},
	}
	ds.insts = []inst{
		{tag: 0, desc: "drep keyhash", root: A(U(0), h28(1)), want: "drep/0/cred=28"},
		{tag: 1, desc: "drep scripthash", root: A(U(1), h28(1)), want: "drep/1/cred=28"},
		{tag: 2, desc: "drep always-abstain", root: A(U(2)), want: "drep/2/cred=0"},
		{tag: 3, desc: "drep always-no-confidence", root: A(U(3)), want: "drep/3/cred=0"},
		{tag: 4, desc: "drep undefined tag 4", root: A(U(4)), want: ""},
	}
	addSite(ds)

	// ---- relay = [0, port/null, ipv4/null, ipv6/null] / [1, port/null, dns] / [2, dns] ----
	rs := &site{
		name:    "common.PoolRelay",
		anchors: []string{"ledger/common/certs.go:PoolRelay.UnmarshalCBOR"},
		dec: func(b []byte) (string, error) {
			var r common.PoolRelay
			if _, err := cbor.Decode(b, &r); err != nil {
				return "", err
			}
			return fmt.Sprintf("relay/%d/port=%v/ipv4=%v/ipv6=%v/host=%v", r.Type, r.Port != nil, r.Ipv4 != nil, r.Ipv6 != nil, r.Hostname != nil), nil
		},
	}
	rs.insts = []inst{
		{tag: 0, desc: "single_host_addr", root: A(U(0), U(3001), B([]byte{127, 0, 0, 1}), Null()), want: "relay/0/port=true/ipv4=true/ipv6=false/host=false"},
		{tag: 1, desc: "single_host_name", root: A(U(1), U(3001), T("relay.example.invalid")), want: "relay/1/port=true/ipv4=false/ipv6=false/host=true"},
		{tag: 2, desc: "multi_host_name", root: A(U(2), T("relay.example.invalid")), want: "relay/2/port=false/ipv4=false/ipv6=false/host=true"},
		{tag: 3, desc: "relay undefined tag 3", root: A(U(3), T("relay.example.invalid")), want: ""},
	}
	addSite(rs)

	// ---- native scripts 0..5 (Allegra CDDL) + 6 (guard, Dijkstra) ----
	nsNames := map[uint64]string{0: "NativeScriptPubkey", 1: "NativeScriptAll", 2: "NativeScriptAny", 3: "NativeScriptNofK",
		4: "NativeScriptInvalidBefore", 5: "NativeScriptInvalidHereafter", 6: "NativeScriptRequireGuard"}
	pk := func(k byte) *space.Node { return A(U(0), h28(k)) }
	nsBodies := map[uint64][]*space.Node{
		0: {h28(1)},
		1: {A(pk(1), pk(2))},
		2: {A(pk(1), pk(2))},
		3: {U(1), A(pk(1), pk(2))},
		4: {U(1000)},
		5: {U(2000)},
		6: {cred(3)},
	}
	ns := &site{
		name:    "common.NativeScript",
		anchors: []string{"ledger/common/script.go:NativeScript.UnmarshalCBOR"},
		dec: func(b []byte) (string, error) {
			var s common.NativeScript
			if _, err := cbor.Decode(b, &s); err != nil {
				return "", err
			}
			t := uint(999)
			switch x := s.Item().(type) {
			case *common.NativeScriptPubkey:
				t = x.Type
			case *common.NativeScriptAll:
				t = x.Type
			case *common.NativeScriptAny:
				t = x.Type
			case *common.NativeScriptNofK:
				t = x.Type
			case *common.NativeScriptInvalidBefore:
				t = x.Type
			case *common.NativeScriptInvalidHereafter:
				t = x.Type
			case *common.NativeScriptRequireGuard:
				t = x.Type
			}
			return lab(strings.TrimPrefix(typ(s.Item()), "*common."), t), nil
		},
	}
	for t := uint64(0); t <= 6; t++ {
		items := append([]*space.Node{U(t)}, nsBodies[t]...)
		ns.insts = append(ns.insts, inst{tag: t, desc: nsNames[t], root: A(items...), want: lab(nsNames[t], t)})
	}
	ns.insts = append(ns.insts, inst{tag: 7, desc: "native script undefined tag 7", root: A(U(7), U(1)), want: ""})
	addSite(ns)

	// ---- nonce = [0] / [1, bytes .size 32] ----
	nvalue := hN(32, 8)
	nn := &site{
		name:    "common.Nonce",
		anchors: []string{"ledger/common/nonce.go:Nonce.UnmarshalCBOR"},
		dec: func(b []byte) (string, error) {
			var n common.Nonce
			if _, err := cbor.Decode(b, &n); err != nil {
				return "", err
			}
			return fmt.Sprintf("nonce/%d/value=%v", n.Type, string(n.Value[:]) == string(nvalue)), nil
		},
	}
	nn.insts = []inst{
		{tag: 0, desc: "neutral nonce", root: A(U(0)), want: "nonce/0/value=false"},
		{tag: 1, desc: "nonce with value", root: A(U(1), B(nvalue)), want: "nonce/1/value=true"},
		{tag: 2, desc: "nonce undefined tag 2", root: A(U(2), B(nvalue)), want: ""},
	}
	addSite(nn)

	// ---- datum_option = [0, hash32] / [1, #6.24(bytes .cbor plutus_data)], observed through a
	// post-Alonzo output map {0: address, 1: coin, 2: datum_option} (fields are unexported) ----
	addr := append([]byte{0x61}, hN(28, 5)...) // enterprise key address, network 1
	dhash := hN(32, 11)
	wrapOut := func(d *space.Node) *space.Node { return M(U(0), B(addr), U(1), U(1000000), U(2), d) }
	do := &site{
		name:    "babbage.BabbageTransactionOutputDatumOption",
		anchors: []string{"ledger/babbage/babbage.go:BabbageTransactionOutputDatumOption.UnmarshalCBOR"},
		dec: func(b []byte) (string, error) {
			var o babbage.BabbageTransactionOutput
			if _, err := cbor.Decode(b, &o); err != nil {
				return "", err
			}
			switch {
			case o.DatumOption == nil:
				return "no-datum-option", nil
			case o.Datum() != nil:
				return "datum_option/1/inline-data", nil
			case o.DatumHash() != nil:
				return fmt.Sprintf("datum_option/0/hash-matches=%v", string(o.DatumHash().Bytes()) == string(dhash)), nil
			}
			return "datum_option/empty", nil
		},
	}
	do.insts = []inst{
		{tag: 0, desc: "datum hash", root: wrapOut(A(U(0), B(dhash))), path: []int{5}, want: "datum_option/0/hash-matches=true"},
		{tag: 1, desc: "inline datum (integer 1)", root: wrapOut(A(U(1), Tag(24, B([]byte{0x01})))), path: []int{5}, want: "datum_option/1/inline-data"},
		{tag: 1, desc: "inline datum (32-byte bytestring)", root: wrapOut(A(U(1), Tag(24, B(B(dhash).Encode())))), path: []int{5}, want: "datum_option/1/inline-data"},
		{tag: 2, desc: "datum option undefined tag 2", root: wrapOut(A(U(2), B(dhash))), path: []int{5}, want: ""},
	}
	addSite(do)

	// ---- gov_action 0..6 (Conway CDDL); same shapes in Dijkstra ----
	gaNames := map[uint64]string{0: "ParameterChangeGovAction", 1: "HardForkInitiationGovAction", 2: "TreasuryWithdrawalGovAction",
		3: "NoConfidenceGovAction", 4: "UpdateCommitteeGovAction", 5: "NewConstitutionGovAction", 6: "InfoGovAction"}
	gaBodies := map[uint64][]*space.Node{
		0: {govActionID(), M(U(0), U(44)), Null()},
		1: {Null(), A(U(10), U(0))},
		2: {M(rewardAccount(), U(1000)), Null()},
		3: {govActionID()},
		4: {Null(), A(cred(1)), M(cred(2), U(500)), unitInterval()},
		5: {Null(), A(anchor(), Null())},
		6: {},
	}
	gaType := func(a common.GovAction) (string, uint) {
		switch x := a.(type) {
		case *conway.ConwayParameterChangeGovAction:
			return "ParameterChangeGovAction", x.Type
		case *dijkstra.DijkstraParameterChangeGovAction:
			return "ParameterChangeGovAction", x.Type
		case *common.HardForkInitiationGovAction:
			return "HardForkInitiationGovAction", x.Type
		case *common.TreasuryWithdrawalGovAction:
			return "TreasuryWithdrawalGovAction", x.Type
		case *common.NoConfidenceGovAction:
			return "NoConfidenceGovAction", x.Type
		case *common.UpdateCommitteeGovAction:
			return "UpdateCommitteeGovAction", x.Type
		case *common.NewConstitutionGovAction:
			return "NewConstitutionGovAction", x.Type
		case *common.InfoGovAction:
			return "InfoGovAction", x.Type
		}
		return typ(a), 999
	}
	for _, era := range []string{"conway", "dijkstra"} {
		era := era
		gs := &site{name: era + ".GovAction"}
		if era == "conway" {
			gs.anchors = []string{"ledger/conway/gov.go:ConwayGovAction.UnmarshalCBOR"}
			gs.dec = func(b []byte) (string, error) {
				var g conway.ConwayGovAction
				if _, err := cbor.Decode(b, &g); err != nil {
					return "", err
				}
				n, it := gaType(g.Action)
				return fmt.Sprintf("%s/%d/%d", n, g.Type, it), nil
			}
		} else {
			gs.anchors = []string{"ledger/dijkstra/gov.go:DijkstraGovAction.UnmarshalCBOR"}
			gs.dec = func(b []byte) (string, error) {
				var g dijkstra.DijkstraGovAction
				if _, err := cbor.Decode(b, &g); err != nil {
					return "", err
				}
				n, it := gaType(g.Action)
				return fmt.Sprintf("%s/%d/%d", n, g.Type, it), nil
			}
		}
		for t := uint64(0); t <= 6; t++ {
			items := append([]*space.Node{U(t)}, gaBodies[t]...)
			gs.insts = append(gs.insts, inst{tag: t, desc: gaNames[t], root: A(items...), want: fmt.Sprintf("%s/%d/%d", gaNames[t], t, t)})
		}
		gs.insts = append(gs.insts, inst{tag: 7, desc: "gov action undefined tag 7", root: A(U(7)), want: ""})
		addSite(gs)
	}

	// ---- Byron tx input: [0, #6.24(bytes .cbor [txid, u32])] / [u8 .ne 0, encoded-cbor] (unknown kinds) ----
	txid := hN(32, 12)
	inner := A(B(txid), U(3)).Encode()
	bs := &site{
		name:    "byron.ByronTransactionInput",
		anchors: []string{"ledger/byron/byron.go:ByronTransactionInput.UnmarshalCBOR"},
		dec: func(b []byte) (string, error) {
			var i byron.ByronTransactionInput
			if _, err := cbor.Decode(b, &i); err != nil {
				return "", err
			}
			return fmt.Sprintf("txin/id-matches=%v/ix=%d", string(i.TxId.Bytes()) == string(txid), i.OutputIndex), nil
		},
	}
	bs.insts = []inst{
		{tag: 0, desc: "byron txin", root: A(U(0), Tag(24, B(inner))), want: "txin/id-matches=true/ix=3"},
		{tag: 1, desc: "byron input of unknown kind 1 (same payload shape)", root: A(U(1), Tag(24, B(inner))), want: ""},
		{tag: 2, desc: "byron input of unknown kind 2 (same payload shape)", root: A(U(2), Tag(24, B(inner))), want: ""},
	}
	addSite(bs)
}
