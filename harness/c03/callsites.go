package main

import (
	"go/ast"
	"go/parser"
	"go/token"
	"io/fs"
	"path/filepath"
	"sort"
	"strings"

	"github.com/blinklabs-io/gouroboros/cbor"
)

// findCallSites lists every function of the repository (non-test files) that calls
// cbor.DecodeIdFromList or cbor.DecodeById, as "<relative file>:<Recv.>Func".
func findCallSites(repo string) ([]string, error) {
	set := map[string]bool{}
	fset := token.NewFileSet()
	err := filepath.WalkDir(repo, func(p string, d fs.DirEntry, err error) error {
		if err != nil {
			return nil
		}
		if d.IsDir() {
			b := d.Name()
			if p != repo && (strings.HasPrefix(b, ".") || b == "vendor" || b == "testdata") {
				return filepath.SkipDir
			}
			return nil
		}
		if !strings.HasSuffix(p, ".go") || strings.HasSuffix(p, "_test.go") {
			return nil
		}
		f, perr := parser.ParseFile(fset, p, nil, parser.SkipObjectResolution)
		if perr != nil {
			return nil
		}
		rel, _ := filepath.Rel(repo, p)
		inCbor := f.Name.Name == "cbor"
		for _, decl := range f.Decls {
			fd, ok := decl.(*ast.FuncDecl)
			if !ok || fd.Body == nil {
				continue
			}
			name := fd.Name.Name
			if fd.Recv != nil && len(fd.Recv.List) > 0 {
				t := fd.Recv.List[0].Type
				if s, ok := t.(*ast.StarExpr); ok {
					t = s.X
				}
				if ix, ok := t.(*ast.IndexExpr); ok {
					t = ix.X
				}
				if id, ok := t.(*ast.Ident); ok {
					name = id.Name + "." + name
				}
			}
			ast.Inspect(fd.Body, func(n ast.Node) bool {
				ce, ok := n.(*ast.CallExpr)
				if !ok {
					return true
				}
				var fn string
				switch x := ce.Fun.(type) {
				case *ast.SelectorExpr:
					if id, ok := x.X.(*ast.Ident); ok && id.Name == "cbor" {
						fn = x.Sel.Name
					}
				case *ast.Ident:
					if inCbor {
						fn = x.Name
					}
				}
				if fn == "DecodeIdFromList" || fn == "DecodeById" {
					set[rel+":"+name] = true
				}
				return true
			})
		}
		return nil
	})
	var out []string
	for k := range set {
		out = append(out, k)
	}
	sort.Strings(out)
	return out, err
}

// ---- direct DecodeById site with the harness's own target types ----

type toyA struct {
	cbor.StructAsArray
	T uint
	V uint
}
type toyB struct {
	cbor.StructAsArray
	T uint
	V uint
}
type toyC struct {
	cbor.StructAsArray
	T uint
	V uint
}
type toyD struct {
	cbor.StructAsArray
	T uint
	V uint
}

func buildToySites() {
	s := &site{
		name:    "cbor.DecodeById",
		anchors: []string{"cbor/decode.go:DecodeById"},
		dec: func(b []byte) (string, error) {
			m := map[int]any{0: &toyA{}, 1: &toyB{}, 2: &toyC{}, 30: &toyD{}}
			v, err := cbor.DecodeById(b, m)
			if err != nil {
				return "", err
			}
			switch x := v.(type) {
			case *toyA:
				return lab("toyA", x.T), nil
			case *toyB:
				return lab("toyB", x.T), nil
			case *toyC:
				return lab("toyC", x.T), nil
			case *toyD:
				return lab("toyD", x.T), nil
			}
			return "?", nil
		},
	}
	for _, e := range []struct {
		tag  uint64
		want string
	}{{0, "toyA/0"}, {1, "toyB/1"}, {2, "toyC/2"}, {30, "toyD/30"}, {5, ""}} {
		s.insts = append(s.insts, inst{tag: e.tag, desc: "[tag, 7]", root: A(U(e.tag), U(7)), want: e.want})
	}
	addSite(s)
}
