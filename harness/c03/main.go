// C03: tagged-sum decoding follows the tag, whatever the length encoding.
//
// For every decoder of /repo that selects a variant from the first element of a CBOR
// list (every caller of cbor.DecodeIdFromList / cbor.DecodeById, cross-checked against
// go/ast of the repository at run time) the harness builds one valid instance per tag
// with its own CBOR writer (verif/space), re-encodes the tagged list's array header in
// each of the 6 forms {minimal, 1-, 2-, 4-, 8-byte length, indefinite} and the first
// element in {minimal, next wider} (thorough: every width), and checks
//
//	(a) cbor.DecodeIdFromList(list bytes) == the tag the harness's own reader finds, or an error;
//	(b) the real decoder yields the variant the harness's own table gives for that tag,
//	    or an error.  A different variant (silent reinterpretation) is the violation.
//
// The tables (tag -> variant label) are written here from the Conway/Babbage CDDL, the
// network specification and, for ledger/error.go, the documented constructor numbering;
// they never call the code under test.
package main

import (
	"encoding/hex"
	"encoding/json"
	"fmt"
	"os"
	"sort"
	"strings"
	"sync"

	"github.com/blinklabs-io/gouroboros/cbor"
	"verif/space"
	"verif/vlib"
)

// inst is one valid instance of a tagged list (possibly nested inside a wrapper).
type inst struct {
	tag  uint64
	desc string
	root *space.Node // complete input handed to the decoder
	path []int       // path of the tagged list inside root (nil = root itself)
	want string      // variant label the table gives for tag; "" = no such variant: only an error is acceptable
}

// site is one tagged-sum decoder of the repository.
type site struct {
	name    string   // e.g. common.CertificateWrapper
	anchors []string // "<file>:<func>" call sites of DecodeIdFromList/DecodeById this site exercises
	dec     func(b []byte) (string, error)
	insts   []inst
}

var sites []*site

func addSite(s *site) { sites = append(sites, s) }

// safeDec runs the decoder and turns a panic into an error-like outcome labelled as such
// (C03 does not say "never panics"; C02 does. A panic is not a silent reinterpretation.)
func safeDec(f func([]byte) (string, error), b []byte) (lab string, err error, panicked bool) {
	defer func() {
		if r := recover(); r != nil {
			err = fmt.Errorf("panic: %v", r)
			panicked = true
		}
	}()
	lab, err = f(b)
	return
}

func safeID(b []byte) (id int, err error) {
	defer func() {
		if r := recover(); r != nil {
			err = fmt.Errorf("panic: %v", r)
		}
	}()
	return cbor.DecodeIdFromList(b)
}

type caseDesc struct {
	Site      string `json:"site"`
	Inst      string `json:"instance"`
	Tag       uint64 `json:"tag"`
	Outer     string `json:"outer_header"`
	First     string `json:"first_element"`
	Inner     string `json:"inner_reencoding,omitempty"`
	Hex       string `json:"hex"`
	Path      []int  `json:"path"`
	Want      string `json:"want"`
	Got       string `json:"got,omitempty"`
	GotID     string `json:"decode_id_from_list,omitempty"`
	ListBytes string `json:"list_hex,omitempty"`
}

type stats struct {
	mu      sync.Mutex
	perSite map[string]map[string]int // site -> outcome/form -> n
	reint   []caseDesc
	reintBy map[string]caseDesc // (site, tag, outer form) -> smallest example
}

func (s *stats) add(site, k string) {
	s.mu.Lock()
	m := s.perSite[site]
	if m == nil {
		m = map[string]int{}
		s.perSite[site] = m
	}
	m[k]++
	s.mu.Unlock()
}

var st = &stats{perSite: map[string]map[string]int{}, reintBy: map[string]caseDesc{}}

func widthName(f int, v uint64) string {
	if f == space.FormMin {
		return "min"
	}
	return space.FormNames[f]
}

// evalCase evaluates one encoded case against both oracles.
func evalCase(c *vlib.Check, s *site, in *inst, outer, first int, inner string, enc []byte) {
	// the harness's own reader locates the tagged list and its tag
	n, err := space.Parse(enc)
	if err != nil {
		c.Internal("own writer produced bytes own reader rejects: %v (%x)", err, enc)
	}
	l := n.At(in.path)
	if l == nil || !l.IsArray() || len(l.Items) == 0 {
		c.Internal("no tagged list at %v in %x", in.path, enc)
	}
	tag, ok := l.Items[0].Uint()
	if !ok || tag != in.tag {
		c.Internal("instance %s/%s: reader finds tag %v, table says %d", s.name, in.desc, tag, in.tag)
	}
	list := enc[l.Start:l.End]
	of, ff := space.FormNames[outer], widthName(first, tag)
	cd := caseDesc{Site: s.name, Inst: in.desc, Tag: tag, Outer: of, First: ff, Inner: inner,
		Hex: hex.EncodeToString(enc), Path: in.path, Want: in.want, ListBytes: hex.EncodeToString(list)}
	class := fmt.Sprintf("%s|tag=%d|outer=%s|first=%s", s.name, tag, of, ff)
	if inner != "" {
		class += "|inner"
	}

	// (a) DecodeIdFromList on the list itself
	idWrong := false
	id, ierr := safeID(list)
	switch {
	case ierr != nil:
		cd.GotID = "error: " + ierr.Error()
		c.Eval("id:"+class, "id-error")
	case uint64(id) != tag || id < 0:
		idWrong = true
		cd.GotID = fmt.Sprint(id)
		c.Eval("id:"+class, "id-WRONG")
		st.add("cbor.DecodeIdFromList", "wrong@outer="+of)
		report(c, "DecodeIdFromList|outer-header="+of,
			fmt.Sprintf("DecodeIdFromList(%x) = %d, first element is %d (array header form %s, first element form %s; e.g. %s)",
				clip(list), id, tag, of, ff, s.name), cd)
	default:
		cd.GotID = fmt.Sprint(id)
		c.Eval("id:"+class, "id-ok")
		st.add("cbor.DecodeIdFromList", "ok@outer="+of)
	}

	// (b) the real decoder
	got, derr, panicked := safeDec(s.dec, enc)
	switch {
	case panicked:
		c.Eval(class, "decoder-panic")
		st.add(s.name, "panic@outer="+of)
		c.Note(fmt.Sprintf("%s panicked on %x: %v (not a C03 verdict; see C02)", s.name, clip(enc), derr))
	case derr != nil:
		c.Eval(class, "rejected")
		st.add(s.name, "rejected@outer="+of)
		if outer == space.FormMin && first == space.FormMin && inner == "" && in.want != "" {
			c.Note(fmt.Sprintf("canonical instance rejected: %s %s: %v", s.name, in.desc, derr))
			st.add(s.name, "CANONICAL-REJECTED")
		}
	case got == in.want && in.want != "":
		c.Eval(class, "variant-follows-tag")
		st.add(s.name, "ok@outer="+of)
	default:
		cd.Got = got
		c.Eval(class, "REINTERPRETED")
		st.add(s.name, "reinterpreted@outer="+of)
		if inner == "" {
			st.mu.Lock()
			k := fmt.Sprintf("%s|%d|%s", s.name, tag, of)
			if old, ok := st.reintBy[k]; !ok || cd.Hex < old.Hex {
				st.reintBy[k] = cd
			}
			st.mu.Unlock()
		}
		want := in.want
		if want == "" {
			want = "<no variant: must be rejected>"
		}
		what := fmt.Sprintf("%s: list with first element %d (header %s, first element %s) decoded without error as %q, table says %q; input %x",
			s.name, tag, of, ff, got, want, clip(enc))
		if idWrong {
			// same root cause as (a): the id the decoder switched on is the wrong one
			report(c, "DecodeIdFromList|outer-header="+of, what, cd)
		} else {
			report(c, fmt.Sprintf("%s|tag=%d", s.name, tag), what, cd)
		}
	}
}

// violations are collected during the parallel run and reported afterwards in a fixed
// order, so that the example printed for a key (and its replay file) is the same on every run.
type pending struct {
	key, what string
	cd        caseDesc
}

var (
	pendMu sync.Mutex
	pend   = map[string]pending{}
)

func report(c *vlib.Check, key, what string, cd caseDesc) {
	pendMu.Lock()
	defer pendMu.Unlock()
	old, ok := pend[key]
	// keep the smallest example: shortest input, then lexicographically first
	if !ok || len(cd.Hex) < len(old.cd.Hex) || len(cd.Hex) == len(old.cd.Hex) && (cd.Hex < old.cd.Hex || cd.Hex == old.cd.Hex && what < old.what) {
		pend[key] = pending{key, what, cd}
	}
}

func flush(c *vlib.Check) {
	var keys []string
	for k := range pend {
		keys = append(keys, k)
	}
	sort.Strings(keys)
	for _, k := range keys {
		c.Violation(k, pend[k].what, pend[k].cd)
	}
}

func mustHex(s string) []byte { b, _ := hex.DecodeString(s); return b }

func clip(b []byte) []byte {
	if len(b) > 64 {
		return b[:64]
	}
	return b
}

func minFormOf(v uint64) int {
	switch {
	case v < 24:
		return space.FormMin
	case v <= 0xff:
		return space.Form1
	case v <= 0xffff:
		return space.Form2
	case v <= 0xffffffff:
		return space.Form4
	}
	return space.Form8
}

// runInst enumerates the forms of one instance.
func runInst(c *vlib.Check, s *site, in *inst) {
	outerForms := []int{space.FormMin, space.Form1, space.Form2, space.Form4, space.Form8, space.FormIndef}
	mf := minFormOf(in.tag)
	var firstForms []int
	if c.Thorough() {
		firstForms = append(firstForms, space.FormMin)
		for f := max(mf, space.FormMin) + 1; f <= space.Form8; f++ {
			firstForms = append(firstForms, f)
		}
	} else {
		w := space.Form1
		if mf >= space.Form1 {
			w = mf + 1
		}
		firstForms = []int{space.FormMin, w}
	}
	root := in.root.Clone()
	l := root.At(in.path)
	if l == nil || !l.IsArray() || len(l.Items) == 0 || l.Items[0].Major != 0 {
		c.Internal("bad instance %s/%s", s.name, in.desc)
	}
	for _, of := range outerForms {
		for _, ff := range firstForms {
			l.Form = of
			l.Items[0].Form = ff
			evalCase(c, s, in, of, ff, "", root.Encode())
			if c.Thorough() {
				// every other header of the instance in every alternative form, one at a time,
				// on top of this outer/first form (inner lengths must not change the variant)
				// (ancestors of the list are tagged lists of other sites and keep their form)
				sitesIn := space.Sites(root, func(n *space.Node, p []int) bool {
					if n == l.Items[0] || len(p) <= len(in.path) && isPrefix(p, in.path) {
						return false
					}
					return true
				})
				space.EnumD1(root, sitesIn, func(v space.Variant) bool {
					evalCase(c, s, in, of, ff, v.Desc, v.Bytes)
					return true
				})
			}
		}
	}
}

func isPrefix(p, full []int) bool {
	if len(p) > len(full) {
		return false
	}
	for i := range p {
		if p[i] != full[i] {
			return false
		}
	}
	return true
}

type replayFile struct {
	Replay caseDesc `json:"replay"`
}

func replay(c *vlib.Check) {
	b, err := os.ReadFile(c.Replay)
	if err != nil {
		c.Internal("replay: %v", err)
	}
	var rf replayFile
	if err := json.Unmarshal(b, &rf); err != nil {
		c.Internal("replay: %v", err)
	}
	enc, err := hex.DecodeString(rf.Replay.Hex)
	if err != nil {
		c.Internal("replay hex: %v", err)
	}
	for _, s := range sites {
		if s.name != rf.Replay.Site {
			continue
		}
		in := &inst{tag: rf.Replay.Tag, desc: rf.Replay.Inst, path: rf.Replay.Path, want: rf.Replay.Want}
		n, err := space.Parse(enc)
		if err != nil {
			c.Internal("replay parse: %v", err)
		}
		l := n.At(in.path)
		evalCase(c, s, in, l.Form, l.Items[0].Form, rf.Replay.Inner, enc)
		flush(c)
		c.Set("rule", "replay of one recorded case")
		c.Finish()
	}
	c.Internal("replay: unknown site %q", rf.Replay.Site)
}

func main() {
	c := vlib.New("C03", "exploration")
	buildToySites()
	buildLedgerSites(c)
	buildNetworkSites(c)
	buildQuerySites(c)
	buildErrorSites(c)
	if c.Replay != "" {
		replay(c)
	}

	type job struct {
		s  *site
		in *inst
	}
	var jobs []job
	nInst := 0
	for _, s := range sites {
		for i := range s.insts {
			jobs = append(jobs, job{s, &s.insts[i]})
			nInst++
		}
	}
	vlib.Parallel(len(jobs), func(i int) { runInst(c, jobs[i].s, jobs[i].in) })
	flush(c)

	// deterministic list of the distinct silent reinterpretations
	{
		var ks []string
		for k := range st.reintBy {
			ks = append(ks, k)
		}
		sort.Strings(ks)
		for _, k := range ks {
			st.reint = append(st.reint, st.reintBy[k])
		}
	}
	// written-out samples: some reinterpretations, plus some plain cases
	for i, r := range st.reint {
		if i%(len(st.reint)/4+1) == 0 {
			c.Sample(r)
		}
	}
	for _, s := range sites[:min(4, len(sites))] {
		in := s.insts[0]
		c.Sample(map[string]any{"site": s.name, "instance": in.desc, "tag": in.tag, "canonical_hex": vlib.Hex(in.root.Encode()), "want": in.want})
	}

	// coverage of the repository's call sites
	found, ferr := findCallSites(vlib.Repo())
	if ferr != nil {
		c.Note("call-site scan failed: " + ferr.Error())
		c.NotExhaustive("could not scan /repo for DecodeIdFromList/DecodeById call sites")
	}
	covered := map[string]string{}
	for _, s := range sites {
		for _, a := range s.anchors {
			covered[a] = s.name
		}
	}
	cov, uncov, stale := []string{}, []string{}, []string{}
	for _, f := range found {
		if sn, ok := covered[f]; ok {
			cov = append(cov, f+" <- "+sn)
		} else {
			uncov = append(uncov, f)
		}
	}
	foundSet := map[string]bool{}
	for _, f := range found {
		foundSet[f] = true
	}
	for a := range covered {
		if !foundSet[a] {
			stale = append(stale, a)
		}
	}
	sort.Strings(stale)
	c.Set("call_sites_found", len(found))
	c.Set("call_sites_covered", cov)
	c.Set("uncovered", uncov)
	if len(stale) > 0 {
		c.Set("anchors_no_longer_in_repo", stale)
	}
	if len(uncov) > 0 {
		c.NotExhaustive("uncovered DecodeIdFromList/DecodeById call sites: " + strings.Join(uncov, ", "))
	}

	perSite := map[string]any{}
	for k, v := range st.perSite {
		perSite[k] = v
	}
	c.Set("per_site_outcomes", perSite)
	if len(st.reint) > 0 {
		type short struct {
			Site, Outer, First, Got, Want, Hex string
			Tag                               uint64
		}
		var l []short
		perSiteN := map[string]int{}
		for _, r := range st.reint {
			perSiteN[r.Site]++
			if strings.HasPrefix(r.Site, "ledger.") && perSiteN[r.Site] > 3 {
				continue // failure reasons: three examples per decoder/era, counts below
			}
			l = append(l, short{r.Site, r.Outer, r.First, r.Got, r.Want, vlib.Hex(mustHex(r.Hex)), r.Tag})
		}
		c.Set("silent_reinterpretations_distinct", len(st.reint))
		c.Set("silent_reinterpretations_per_decoder", perSiteN)
		c.Set("silent_reinterpretations", l)
	}
	c.Set("sites", len(sites))
	c.Set("instances", nInst)
	c.Set("rule", "alphabet: one valid instance per (decoder, tag) built with the harness's own CBOR writer; bound: tagged list's array header in all 6 forms x first element in {minimal, next wider} (thorough: every width, and on top of each every other header of the instance in every alternative form, one at a time); distinct = (decoder, tag, outer form, first-element form); oracle: own reader's tag -> own table's variant label, decode error acceptable, any other variant or a wrong DecodeIdFromList result is a violation")
	c.Assume("fxamacker/cbor well-formedness checking is not under test; the harness's own reader decides what the first element is")
	c.Assume("for ledger/error.go the tag->constructor table is the documented numbering of the ledger rules as transcribed in this harness (no cardano-ledger sources are available offline); payload shapes are the ones the repository's structs accept")
	// free-running -race pass: concurrent callers on their own inputs (state the library shares between calls)
	c.RaceAudit("c03")
	c.Finish()
}
