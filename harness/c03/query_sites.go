package main

import (
	"fmt"
	"strings"

	"github.com/blinklabs-io/gouroboros/cbor"
	"github.com/blinklabs-io/gouroboros/protocol/localstatequery"
	"github.com/blinklabs-io/gouroboros/protocol/peersharing"
	"verif/space"
	"verif/vlib"
)

func buildNetworkSites(c *vlib.Check) {
	// peer-sharing peerAddress = [0, word32, portNumber] / [1, word32 x4, portNumber]
	// (network spec; versions 11-12 carried [1, word32 x4, flowInfo, scopeId, port])
	ps := &site{
		name: "peersharing.PeerAddress",
		anchors: []string{"protocol/peersharing/messages.go:PeerAddress.UnmarshalCBOR"},
		dec: func(b []byte) (string, error) {
			var p peersharing.PeerAddress
			if _, err := cbor.Decode(b, &p); err != nil {
				return "", err
			}
			return fmt.Sprintf("peer/iplen=%d/port=%d", len(p.IP), p.Port), nil
		},
	}
	w := func(k uint64) *space.Node { return U(0x01020304 + k) }
	ps.insts = []inst{
		{tag: 0, desc: "ipv4 peer", root: A(U(0), w(0), U(3001)), want: "peer/iplen=4/port=3001"},
		{tag: 1, desc: "ipv6 peer (v13+)", root: A(U(1), w(1), w(2), w(3), w(4), U(3001)), want: "peer/iplen=16/port=3001"},
		{tag: 1, desc: "ipv6 peer (v11-12)", root: A(U(1), w(1), w(2), w(3), w(4), U(0), U(0), U(3001)), want: "peer/iplen=16/port=3001"},
		{tag: 2, desc: "peer address undefined tag 2", root: A(U(2), w(0), U(3001)), want: ""},
	}
	addSite(ps)
}

func qtyp(v any) string {
	return strings.TrimPrefix(fmt.Sprintf("%T", v), "*localstatequery.")
}

func buildQuerySites(c *vlib.Check) {
	// ---- WithOrigin SlotNo = [0] / [1, slot] ----
	ws := &site{
		name:    "localstatequery.WithOriginSlot",
		anchors: []string{"protocol/localstatequery/ledger_peer_snapshot.go:WithOriginSlot.UnmarshalCBOR"},
		dec: func(b []byte) (string, error) {
			var w localstatequery.WithOriginSlot
			if _, err := cbor.Decode(b, &w); err != nil {
				return "", err
			}
			return fmt.Sprintf("withorigin/has=%v/slot=%d", w.HasSlot, w.Slot), nil
		},
	}
	ws.insts = []inst{
		{tag: 0, desc: "Origin", root: A(U(0)), want: "withorigin/has=false/slot=0"},
		{tag: 1, desc: "At slot", root: A(U(1), U(777)), want: "withorigin/has=true/slot=777"},
		{tag: 2, desc: "undefined tag 2", root: A(U(2), U(777)), want: ""},
	}
	addSite(ws)

	// ---- RelayAccessPoint = [0, ipv4, port] / [1, [w,w,w,w], port] / [2, domain, port] / [3, domain] ----
	rs := &site{
		name:    "localstatequery.RelayAccessPoint",
		anchors: []string{"protocol/localstatequery/ledger_peer_snapshot.go:RelayAccessPoint.UnmarshalCBOR"},
		dec: func(b []byte) (string, error) {
			var r localstatequery.RelayAccessPoint
			if _, err := cbor.Decode(b, &r); err != nil {
				return "", err
			}
			return fmt.Sprintf("relay/%d/ipv4=%v/ipv6=%v/domain=%v/port=%v", int(r.Kind), r.IPv4 != nil, r.IPv6 != nil, r.Domain != nil, r.Port != nil), nil
		},
	}
	rs.insts = []inst{
		{tag: 0, desc: "ipv4 relay", root: A(U(0), U(0x7f000001), U(3001)), want: "relay/0/ipv4=true/ipv6=false/domain=false/port=true"},
		{tag: 1, desc: "ipv6 relay", root: A(U(1), A(U(1), U(2), U(3), U(4)), U(3001)), want: "relay/1/ipv4=false/ipv6=true/domain=false/port=true"},
		{tag: 2, desc: "domain relay", root: A(U(2), B([]byte("relay.example.invalid")), U(3001)), want: "relay/2/ipv4=false/ipv6=false/domain=true/port=true"},
		{tag: 2, desc: "domain relay, 4-byte domain", root: A(U(2), B([]byte("a.io")), U(3001)), want: "relay/2/ipv4=false/ipv6=false/domain=true/port=true"},
		{tag: 3, desc: "srv relay", root: A(U(3), B([]byte("relay.example.invalid"))), want: "relay/3/ipv4=false/ipv6=false/domain=true/port=false"},
		{tag: 4, desc: "undefined relay kind 4", root: A(U(4), B([]byte("x"))), want: ""},
	}
	addSite(rs)

	// ---- HotCredAuthStatus = [0] / [1, credential] / [2, anchor/null] ----
	hs := &site{
		name:    "localstatequery.HotCredAuthStatusValue",
		anchors: []string{"protocol/localstatequery/queries.go:HotCredAuthStatusValue.UnmarshalCBOR"},
		dec: func(b []byte) (string, error) {
			var h localstatequery.HotCredAuthStatusValue
			if _, err := cbor.Decode(b, &h); err != nil {
				return "", err
			}
			return fmt.Sprintf("hotcred/%d/cred=%v/anchor=%v", int(h.Status), h.Credential != nil, h.Anchor != nil), nil
		},
	}
	hs.insts = []inst{
		{tag: 0, desc: "not authorized", root: A(U(0)), want: "hotcred/0/cred=false/anchor=false"},
		{tag: 1, desc: "authorized", root: A(U(1), cred(1)), want: "hotcred/1/cred=true/anchor=false"},
		{tag: 2, desc: "resigned with anchor", root: A(U(2), anchor()), want: "hotcred/2/cred=false/anchor=true"},
		{tag: 2, desc: "resigned without anchor", root: A(U(2), Null()), want: "hotcred/2/cred=false/anchor=false"},
		{tag: 3, desc: "undefined tag 3", root: A(U(3), Null()), want: ""},
	}
	addSite(hs)

	// ---- local-state-query queries: four nested tagged lists, all decoded through QueryWrapper ----
	decQ := func(level int) func(b []byte) (string, error) {
		return func(b []byte) (string, error) {
			var q localstatequery.QueryWrapper
			if _, err := cbor.Decode(b, &q); err != nil {
				return "", err
			}
			cur := q.Query
			for i := 0; i < level; i++ {
				switch x := cur.(type) {
				case *localstatequery.BlockQuery:
					cur = x.Query
				case *localstatequery.ShelleyQuery:
					cur = x.Query
				case *localstatequery.HardForkQuery:
					cur = x.Query
				case *localstatequery.ShelleyCborQuery:
					cur = x.Query
				default:
					return "level-" + fmt.Sprint(i) + "-is-" + qtyp(cur), nil
				}
			}
			t := -1
			switch x := cur.(type) {
			case *localstatequery.SystemStartQuery:
				t = x.Type
			case *localstatequery.ChainBlockNoQuery:
				t = x.Type
			case *localstatequery.ChainPointQuery:
				t = x.Type
			case *localstatequery.HardForkCurrentEraQuery:
				t = x.Type
			case *localstatequery.HardForkEraHistoryQuery:
				t = x.Type
			}
			if t >= 0 {
				return fmt.Sprintf("%s/%d", qtyp(cur), t), nil
			}
			return qtyp(cur), nil
		}
	}
	const anchorQ = "protocol/localstatequery/queries.go:decodeQuery"

	top := &site{name: "localstatequery.QueryWrapper", anchors: []string{anchorQ}, dec: decQ(0)}
	top.insts = []inst{
		{tag: 0, desc: "block query", root: A(U(0), A(U(2), A(U(1)))), want: "BlockQuery"},
		{tag: 1, desc: "system start", root: A(U(1)), want: "SystemStartQuery/1"},
		{tag: 2, desc: "chain block no", root: A(U(2)), want: "ChainBlockNoQuery/2"},
		{tag: 3, desc: "chain point", root: A(U(3)), want: "ChainPointQuery/3"},
		{tag: 4, desc: "undefined top-level query 4", root: A(U(4)), want: ""},
	}
	addSite(top)

	blk := &site{name: "localstatequery.BlockQuery", anchors: []string{anchorQ}, dec: decQ(1)}
	blk.insts = []inst{
		{tag: 0, desc: "shelley-based era query", root: A(U(0), A(U(0), A(U(6), A(U(1))))), path: []int{1}, want: "ShelleyQuery"},
		{tag: 2, desc: "hard-fork query", root: A(U(0), A(U(2), A(U(1)))), path: []int{1}, want: "HardForkQuery"},
		{tag: 1, desc: "undefined block query kind 1", root: A(U(0), A(U(1), A(U(1)))), path: []int{1}, want: ""},
	}
	addSite(blk)

	hf := &site{name: "localstatequery.HardForkQuery", anchors: []string{anchorQ}, dec: decQ(2)}
	hf.insts = []inst{
		{tag: 0, desc: "era history", root: A(U(0), A(U(2), A(U(0)))), path: []int{1, 1}, want: "HardForkEraHistoryQuery/0"},
		{tag: 1, desc: "current era", root: A(U(0), A(U(2), A(U(1)))), path: []int{1, 1}, want: "HardForkCurrentEraQuery/1"},
		{tag: 2, desc: "undefined hard-fork query 2", root: A(U(0), A(U(2), A(U(2)))), path: []int{1, 1}, want: ""},
	}
	addSite(hf)

	// Shelley block queries: numbering of ouroboros-consensus-cardano's BlockQuery (ShelleyBlock) encoder
	setOf := func(items ...*space.Node) *space.Node { return Tag(258, A(items...)) }
	type sq struct {
		tag  uint64
		name string
		args []*space.Node
	}
	shelleyQ := []sq{
		{0, "ShelleyLedgerTipQuery", nil},
		{1, "ShelleyEpochNoQuery", nil},
		{2, "ShelleyNonMyopicMemberRewardsQuery", nil},
		{3, "ShelleyCurrentProtocolParamsQuery", nil},
		{4, "ShelleyProposedProtocolParamsUpdatesQuery", nil},
		{5, "ShelleyStakeDistributionQuery", nil},
		{6, "ShelleyUtxoByAddressQuery", []*space.Node{A(B(append([]byte{0x61}, hN(28, 5)...)))}},
		{7, "ShelleyUtxoWholeQuery", nil},
		{8, "ShelleyDebugEpochStateQuery", nil},
		{9, "ShelleyCborQuery", []*space.Node{A(U(1))}},
		{10, "ShelleyFilteredDelegationAndRewardAccountsQuery", []*space.Node{setOf(cred(1))}},
		{11, "ShelleyGenesisConfigQuery", nil},
		{12, "ShelleyDebugNewEpochStateQuery", nil},
		{13, "ShelleyDebugChainDepStateQuery", nil},
		{14, "ShelleyRewardProvenanceQuery", nil},
		{15, "ShelleyUtxoByTxinQuery", []*space.Node{A(A(h32(1), U(0)))}},
		{16, "ShelleyStakePoolsQuery", nil},
		{17, "ShelleyStakePoolParamsQuery", []*space.Node{setOf(h28(1))}},
		{18, "ShelleyRewardInfoPoolsQuery", nil},
		{19, "ShelleyPoolStateQuery", nil},
		{20, "ShelleyStakeSnapshotsQuery", []*space.Node{A()}},
		{21, "ShelleyPoolDistrQuery", nil},
		{22, "ShelleyStakeDelegDepositsQuery", []*space.Node{setOf(cred(1))}},
		{23, "ShelleyConstitutionQuery", nil},
		{24, "ShelleyGovStateQuery", nil},
		{25, "ShelleyDRepStateQuery", []*space.Node{setOf(cred(1))}},
		{26, "ShelleyDRepStakeDistrQuery", []*space.Node{setOf(A(U(2)))}},
		{27, "ShelleyCommitteeMembersStateQuery", []*space.Node{setOf(cred(1)), setOf(cred(2)), setOf(U(0))}},
		{28, "ShelleyFilteredVoteDelegateesQuery", []*space.Node{setOf(cred(1))}},
		{29, "ShelleyAccountStateQuery", nil},
		{30, "ShelleySPOStakeDistrQuery", []*space.Node{setOf(h28(1))}},
		{31, "ShelleyGetProposalsQuery", []*space.Node{setOf(govActionID())}},
		{32, "ShelleyGetRatifyStateQuery", nil},
		{34, "ShelleyGetLedgerPeerSnapshotQuery", []*space.Node{U(1)}},
		{36, "ShelleyPoolDistr2Query", []*space.Node{A(setOf(h28(1)))}},
	}
	sh := &site{name: "localstatequery.ShelleyQuery", anchors: []string{anchorQ}, dec: decQ(2)}
	cb := &site{name: "localstatequery.ShelleyCborQuery", anchors: []string{anchorQ}, dec: decQ(3)}
	for _, q := range shelleyQ {
		mk := func() *space.Node { return A(append([]*space.Node{U(q.tag)}, q.args...)...) }
		sh.insts = append(sh.insts, inst{tag: q.tag, desc: q.name,
			root: A(U(0), A(U(0), A(U(6), mk()))), path: []int{1, 1, 1}, want: q.name})
		// the same leaf below the GetCBOR combinator [9, query]
		cb.insts = append(cb.insts, inst{tag: q.tag, desc: "GetCBOR " + q.name,
			root: A(U(0), A(U(0), A(U(6), A(U(9), mk())))), path: []int{1, 1, 1, 1}, want: q.name})
	}
	for _, t := range []uint64{33, 35, 37} {
		sh.insts = append(sh.insts, inst{tag: t, desc: fmt.Sprintf("undefined shelley query %d", t),
			root: A(U(0), A(U(0), A(U(6), A(U(t))))), path: []int{1, 1, 1}, want: ""})
	}
	addSite(sh)
	addSite(cb)
}
