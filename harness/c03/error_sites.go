package main

import (
	"fmt"
	"strings"

	"github.com/blinklabs-io/gouroboros/cbor"
	"github.com/blinklabs-io/gouroboros/ledger"
	"verif/space"
	"verif/vlib"
)

// Tables for ledger/error.go. The tag numbers are the documented constructor numbering of
// the LEDGER / UTXOW / UTXO predicate failures per era, transcribed here as literals; the
// payload shapes are the ones the repository's structs accept (its wire convention for
// these failures is its own: [era, [tag, fields…]] for UTXO failures, [tag, [type, fields…]]
// for UTXOW failures).

const (
	eShelley  = 1
	eAllegra  = 2
	eMary     = 3
	eAlonzo   = 4
	eBabbage  = 5
	eConway   = 6
	eDijkstra = 7
)

var eraNames = map[int]string{1: "shelley", 2: "allegra", 3: "mary", 4: "alonzo", 5: "babbage", 6: "conway", 7: "dijkstra"}

type tt struct {
	tag uint64
	typ string
}

// ---- UTXO failures: [tag, fields…] decoded by cbor.DecodeById inside UtxoFailure ----

func utxoTable(era int) []tt {
	shelley := []tt{{0, "BadInputsUtxo"}, {1, "OutsideValidityIntervalUtxo"}, {2, "MaxTxSizeUtxo"}, {3, "InputSetEmptyUtxo"},
		{4, "FeeTooSmallUtxo"}, {5, "ValueNotConservedUtxo"}, {6, "OutputTooSmallUtxo"}, {7, "UtxosFailure"}, {8, "WrongNetwork"},
		{9, "WrongNetworkWithdrawal"}, {10, "OutputBootAddrAttrsTooBig"}}
	switch era {
	case eShelley:
		return shelley
	case eAllegra, eMary:
		return append(shelley, tt{12, "OutputTooBigUtxo"})
	case eAlonzo, eBabbage:
		return append(shelley, tt{11, "TriesToForgeADA"}, tt{12, "OutputTooBigUtxo"}, tt{14, "ScriptsNotPaidUtxo"}, tt{15, "ExUnitsTooBigUtxo"},
			tt{16, "CollateralContainsNonADA"}, tt{17, "WrongNetworkInTxBody"}, tt{18, "OutsideForecast"}, tt{19, "TooManyCollateralInputs"},
			tt{20, "NoCollateralInputs"})
	case eConway:
		return []tt{{0, "UtxosFailure"}, {1, "BadInputsUtxo"}, {2, "OutsideValidityIntervalUtxo"}, {3, "MaxTxSizeUtxo"}, {4, "InputSetEmptyUtxo"},
			{5, "FeeTooSmallUtxo"}, {6, "ValueNotConservedUtxo"}, {7, "WrongNetwork"}, {8, "WrongNetworkWithdrawal"}, {9, "OutputTooSmallUtxo"},
			{10, "OutputBootAddrAttrsTooBig"}, {11, "OutputTooBigUtxo"}, {12, "InsufficientCollateral"}, {13, "ScriptsNotPaidUtxo"},
			{14, "ExUnitsTooBigUtxo"}, {15, "CollateralContainsNonADA"}, {16, "WrongNetworkInTxBody"}, {17, "OutsideForecast"},
			{18, "TooManyCollateralInputs"}, {19, "NoCollateralInputs"}, {20, "IncorrectTotalCollateralField"},
			{21, "BabbageOutputTooSmallUTxO"}, {22, "BabbageNonDisjointRefInputs"}}
	case eDijkstra:
		return []tt{{0, "UtxosFailure"}, {1, "BadInputsUtxo"}, {2, "OutsideValidityIntervalUtxo"}, {3, "MaxTxSizeUtxo"}, {4, "InputSetEmptyUtxo"},
			{5, "FeeTooSmallUtxo"}, {6, "ValueNotConservedUtxo"}, {7, "WrongNetwork"}, {9, "OutputBootAddrAttrsTooBig"}, {10, "OutputTooBigUtxo"},
			{11, "InsufficientCollateral"}, {12, "ScriptsNotPaidUtxo"}, {13, "ExUnitsTooBigUtxo"}, {14, "CollateralContainsNonADA"},
			{15, "WrongNetworkInTxBody"}, {16, "OutsideForecast"}, {17, "TooManyCollateralInputs"}, {18, "NoCollateralInputs"},
			{19, "IncorrectTotalCollateralField"}, {20, "BabbageOutputTooSmallUTxO"}, {21, "BabbageNonDisjointRefInputs"},
			{22, "PtrPresentInCollateralReturn"}, {24, "WithdrawalsExceedAccountBalance"}}
	}
	return nil
}

func txIn() *space.Node { return A(h32(1), U(0)) }

// utxoFields gives the fields after the tag for a UTXO failure of the given Go type.
func utxoFields(typ string) []*space.Node {
	switch typ {
	case "BadInputsUtxo", "BabbageNonDisjointRefInputs":
		return []*space.Node{A(txIn())}
	case "OutsideValidityIntervalUtxo":
		return []*space.Node{A(U(10), U(20)), U(30)}
	case "MaxTxSizeUtxo", "ExUnitsTooBigUtxo", "WrongNetworkInTxBody", "TooManyCollateralInputs":
		return []*space.Node{U(17000), U(16384)}
	case "FeeTooSmallUtxo", "ValueNotConservedUtxo", "InsufficientCollateral":
		return []*space.Node{U(200000), U(100000)}
	case "InputSetEmptyUtxo", "TriesToForgeADA", "NoCollateralInputs":
		return nil
	case "OutputTooSmallUtxo", "OutputBootAddrAttrsTooBig":
		return []*space.Node{A(A(B(hN(29, 5)), U(1)))}
	case "UtxosFailure", "PtrPresentInCollateralReturn", "WithdrawalsExceedAccountBalance", "CollateralContainsNonADA":
		return []*space.Node{A(U(1), U(2))}
	case "WrongNetwork", "WrongNetworkWithdrawal":
		return []*space.Node{U(1), A(B(hN(29, 5)))}
	case "OutputTooBigUtxo":
		return []*space.Node{A()}
	case "ScriptsNotPaidUtxo":
		return []*space.Node{M()}
	case "OutsideForecast":
		return []*space.Node{U(12345)}
	case "IncorrectTotalCollateralField":
		return []*space.Node{U(5), U(7)}
	case "BabbageOutputTooSmallUTxO":
		return []*space.Node{A(A(A(B(hN(29, 5)), U(1)), U(1000000)))}
	}
	panic("no fields for " + typ)
}

func utxoList(tag uint64, typ string) *space.Node {
	return A(append([]*space.Node{U(tag)}, utxoFields(typ)...)...)
}

// ---- UTXOW failures: [tag, payload] ----

func utxowTable(era int) []tt {
	switch era {
	case eShelley, eAllegra, eMary:
		return []tt{{0, "InvalidWitnessesUTXOW"}, {1, "MissingVKeyWitnessesUTXOW"}, {2, "MissingScriptWitnessesUTXOW"},
			{3, "ScriptWitnessNotValidatingUTXOW"}, {4, "UtxoFailure"}, {5, "MissingTxBodyMetadataHash"}, {6, "MissingTxMetadata"},
			{7, "ConflictingMetadataHash"}, {8, "InvalidMetadata"}, {9, "ExtraneousScriptWitnessesUTXOW"}}
	case eAlonzo:
		return []tt{{0, "ShelleyUtxowFailure"}, {1, "MissingRedeemers"}, {2, "MissingRequiredDatums"}, {3, "NotAllowedSupplementalDatums"},
			{4, "PPViewHashesDontMatch"}, {6, "UnspendableUTxONoDatumHash"}, {7, "ExtraRedeemers"}}
	case eBabbage:
		return []tt{{1, "AlonzoUtxowFailure"}, {2, "BabbageUtxoFailure"}, {3, "MalformedScriptWitnesses"}, {4, "MalformedReferenceScripts"},
			{5, "GenericError"}}
	case eConway, eDijkstra:
		t := []tt{{0, "UtxoFailure"}, {1, "InvalidWitnessesUTXOW"}, {2, "MissingVKeyWitnessesUTXOW"}, {3, "MissingScriptWitnessesUTXOW"},
			{4, "ScriptWitnessNotValidatingUTXOW"}, {5, "MissingTxBodyMetadataHash"}, {6, "MissingTxMetadata"}, {7, "ConflictingMetadataHash"},
			{8, "InvalidMetadata"}, {9, "ExtraneousScriptWitnessesUTXOW"}, {10, "MissingRedeemers"}, {11, "MissingRequiredDatums"},
			{12, "NotAllowedSupplementalDatums"}, {13, "PPViewHashesDontMatch"}, {14, "UnspendableUTxONoDatumHash"}, {15, "ExtraRedeemers"},
			{16, "MalformedScriptWitnesses"}, {17, "MalformedReferenceScripts"}, {18, "GenericError"}}
		if era == eDijkstra {
			t = append(t, tt{19, "MissingRequiredGuards"}, tt{20, "MalformedGuardDatums"})
		}
		return t
	}
	return nil
}

// utxowPayload gives the elements after the tag for a UTXOW failure of the given Go type.
func utxowPayload(era int, tag uint64, typ string) []*space.Node {
	switch typ {
	case "InvalidWitnessesUTXOW":
		return []*space.Node{A(U(tag), A(B(hN(32, 3))))}
	case "MissingVKeyWitnessesUTXOW", "MissingScriptWitnessesUTXOW", "ScriptWitnessNotValidatingUTXOW",
		"ExtraneousScriptWitnessesUTXOW", "MalformedScriptWitnesses", "MalformedReferenceScripts":
		return []*space.Node{A(U(tag), A(h28(3)))}
	case "MissingTxBodyMetadataHash", "MissingTxMetadata":
		return []*space.Node{A(U(tag), h32(3))}
	case "ConflictingMetadataHash":
		return []*space.Node{A(U(tag), h32(3), h32(4))}
	case "InvalidMetadata":
		return nil
	case "UtxoFailure":
		ut := utxoTable(era)[1]
		return []*space.Node{A(U(uint64(era)), utxoList(ut.tag, ut.typ))}
	case "BabbageUtxoFailure":
		return []*space.Node{A(U(2), A(U(2), U(5), U(7)))} // IncorrectTotalCollateralField
	case "ShelleyUtxowFailure":
		return []*space.Node{A(U(1), A(U(1), A(h28(3))))} // MissingVKeyWitnessesUTXOW
	case "AlonzoUtxowFailure":
		return []*space.Node{A(U(2), A(U(2), A(h32(3)), A(h32(4))))} // MissingRequiredDatums
	case "MissingRedeemers":
		return []*space.Node{A(U(tag), A(A(A(U(0), U(0)), h28(3))))}
	case "MissingRequiredDatums", "NotAllowedSupplementalDatums":
		return []*space.Node{A(U(tag), A(h32(3)), A(h32(4)))}
	case "PPViewHashesDontMatch":
		return []*space.Node{A(U(tag), A(h32(3)), A())}
	case "UnspendableUTxONoDatumHash":
		return []*space.Node{A(U(tag), A(txIn()))}
	case "ExtraRedeemers":
		return []*space.Node{A(U(tag), A(A(U(0), U(1))))}
	case "GenericError":
		return []*space.Node{A(h32(3)), A(h32(4))}
	case "MissingRequiredGuards", "MalformedGuardDatums":
		return []*space.Node{A(cred(3))}
	}
	panic("no payload for " + typ)
}

func utxowList(era int, tag uint64, typ string) *space.Node {
	return A(append([]*space.Node{U(tag)}, utxowPayload(era, tag, typ)...)...)
}

func errLabel(e error) string {
	switch x := e.(type) {
	case *ledger.UnknownApplyTxFailureError:
		return fmt.Sprintf("UnknownApplyTxFailureError/%d", x.FailureType)
	case *ledger.UnknownUtxowFailureError:
		return fmt.Sprintf("UnknownUtxowFailureError/%d", x.FailureType)
	case *ledger.UnknownUtxoFailureError:
		return fmt.Sprintf("UnknownUtxoFailureError/%d", x.FailureType)
	case nil:
		return "nil"
	}
	return strings.TrimPrefix(fmt.Sprintf("%T", e), "*ledger.")
}

func buildErrorSites(c *vlib.Check) {
	// wrapper understood by ShelleyTxValidationError: [[era, [failure, …]]]
	wrapApply := func(era int, failure *space.Node) *space.Node {
		return A(A(U(uint64(era)), A(failure)))
	}
	failurePath := []int{0, 1, 0}
	decApply := func(b []byte) (*ledger.ShelleyTxValidationError, error) {
		e, err := ledger.NewShelleyTxValidationErrorFromCbor(b)
		if err != nil {
			return nil, err
		}
		v, ok := e.(*ledger.ShelleyTxValidationError)
		if !ok {
			return nil, fmt.Errorf("unexpected %T", e)
		}
		if len(v.Err.Failures) != 1 {
			return nil, fmt.Errorf("expected one failure, got %d", len(v.Err.Failures))
		}
		return v, nil
	}

	for era := eShelley; era <= eDijkstra; era++ {
		era := era
		en := eraNames[era]

		// ---- LEDGER-level failures inside ApplyTxError ----
		as := &site{
			name:    "ledger.ApplyTxError(" + en + ")",
			anchors: []string{"ledger/error.go:ApplyTxError.UnmarshalCBOR"},
			dec: func(b []byte) (string, error) {
				v, err := decApply(b)
				if err != nil {
					return "", err
				}
				return errLabel(v.Err.Failures[0]), nil
			},
		}
		ut := utxowTable(era)[1]
		as.insts = append(as.insts, inst{tag: 0, desc: "UTXOW failure", root: wrapApply(era, A(U(0), utxowList(era, ut.tag, ut.typ))),
			path: failurePath, want: "UtxowFailure"})
		wd := uint64(3)
		if era == eConway {
			wd = 9
		}
		if era != eDijkstra { // numbering of the Dijkstra LEDGER rule is not documented in the repository: not asserted
			as.insts = append(as.insts, inst{tag: wd, desc: "incomplete withdrawals", root: wrapApply(era, A(U(wd), M(B(hN(29, 5)), A(U(100), U(150))))),
				path: failurePath, want: "IncorrectWithdrawals"})
		}
		for _, t := range []uint64{1, 2, 23} {
			as.insts = append(as.insts, inst{tag: t, desc: fmt.Sprintf("LEDGER failure %d without a Go type", t), root: wrapApply(era, A(U(t), A(U(1)))),
				path: failurePath, want: fmt.Sprintf("UnknownApplyTxFailureError/%d", t)})
		}
		addSite(as)

		// ---- UTXOW failures (era-aware, private era field: reached through the wrapper) ----
		us := &site{
			name:    "ledger.UtxowFailure(" + en + ")",
			anchors: []string{"ledger/error.go:UtxowFailure.UnmarshalCBOR"},
			dec: func(b []byte) (string, error) {
				v, err := decApply(b)
				if err != nil {
					return "", err
				}
				u, ok := v.Err.Failures[0].(*ledger.UtxowFailure)
				if !ok {
					return "not-a-utxow-failure:" + errLabel(v.Err.Failures[0]), nil
				}
				return errLabel(u.Err), nil
			},
		}
		known := map[uint64]bool{}
		for _, e := range utxowTable(era) {
			known[e.tag] = true
			us.insts = append(us.insts, inst{tag: e.tag, desc: e.typ, root: wrapApply(era, A(U(0), utxowList(era, e.tag, e.typ))),
				path: []int{0, 1, 0, 1}, want: e.typ})
		}
		for _, t := range []uint64{21, 23} {
			if !known[t] {
				us.insts = append(us.insts, inst{tag: t, desc: fmt.Sprintf("UTXOW failure %d without a Go type", t),
					root: wrapApply(era, A(U(0), A(U(t), A(U(t), A(h28(3)))))), path: []int{0, 1, 0, 1}, want: fmt.Sprintf("UnknownUtxowFailureError/%d", t)})
			}
		}
		addSite(us)

		// ---- UTXO failures: UtxoFailure = [era, [tag, fields…]] (DecodeIdFromList + DecodeById) ----
		fs := &site{
			name:    "ledger.UtxoFailure(" + en + ")",
			anchors: []string{"ledger/error.go:UtxoFailure.UnmarshalCBOR"},
			dec: func(b []byte) (string, error) {
				var u ledger.UtxoFailure
				if _, err := cbor.Decode(b, &u); err != nil {
					return "", err
				}
				return errLabel(u.Err), nil
			},
		}
		knownU := map[uint64]bool{}
		for _, e := range utxoTable(era) {
			knownU[e.tag] = true
			fs.insts = append(fs.insts, inst{tag: e.tag, desc: e.typ, root: A(U(uint64(era)), utxoList(e.tag, e.typ)), path: []int{1}, want: e.typ})
		}
		for _, t := range []uint64{8, 13, 23} {
			if !knownU[t] {
				fs.insts = append(fs.insts, inst{tag: t, desc: fmt.Sprintf("UTXO failure %d without a Go type", t),
					root: A(U(uint64(era)), A(U(t), U(1), U(2))), path: []int{1}, want: fmt.Sprintf("UnknownUtxoFailureError/%d", t)})
			}
		}
		addSite(fs)
	}

	// ---- the exported per-era wrappers, decoded directly ----
	direct := func(name, anchor string, era int, table []tt, dec func(b []byte) (error, error), unknownLabel string, unknown []uint64) {
		s := &site{name: name, anchors: []string{anchor}, dec: func(b []byte) (string, error) {
			inner, err := dec(b)
			if err != nil {
				return "", err
			}
			return errLabel(inner), nil
		}}
		for _, e := range table {
			s.insts = append(s.insts, inst{tag: e.tag, desc: e.typ, root: utxowList(era, e.tag, e.typ), want: e.typ})
		}
		for _, t := range unknown {
			s.insts = append(s.insts, inst{tag: t, desc: fmt.Sprintf("failure %d without a Go type", t),
				root: A(U(t), A(U(t), A(h28(3)))), want: fmt.Sprintf("%s/%d", unknownLabel, t)})
		}
		addSite(s)
	}
	direct("ledger.ShelleyUtxowFailure", "ledger/error.go:ShelleyUtxowFailure.UnmarshalCBOR", eShelley, utxowTable(eShelley),
		func(b []byte) (error, error) {
			var e ledger.ShelleyUtxowFailure
			_, err := cbor.Decode(b, &e)
			return e.Err, err
		}, "UnknownUtxowFailureError", []uint64{10, 23})
	direct("ledger.AlonzoUtxowFailure", "ledger/error.go:AlonzoUtxowFailure.UnmarshalCBOR", eAlonzo, utxowTable(eAlonzo),
		func(b []byte) (error, error) {
			var e ledger.AlonzoUtxowFailure
			_, err := cbor.Decode(b, &e)
			return e.Err, err
		}, "UnknownUtxowFailureError", []uint64{5, 23})
	direct("ledger.ConwayUtxowFailure", "ledger/error.go:ConwayUtxowFailure.UnmarshalCBOR", eConway, utxowTable(eConway),
		func(b []byte) (error, error) {
			var e ledger.ConwayUtxowFailure
			_, err := cbor.Decode(b, &e)
			return e.Err, err
		}, "UnknownUtxowFailureError", []uint64{19, 23})

	// BabbageUtxoFailure = [1, alonzo utxo failure] / [2, incorrect total collateral] / [3, output too small] / [4, non-disjoint ref inputs]
	bs := &site{name: "ledger.BabbageUtxoFailure", anchors: []string{"ledger/error.go:BabbageUtxoFailure.UnmarshalCBOR"},
		dec: func(b []byte) (string, error) {
			var e ledger.BabbageUtxoFailure
			if _, err := cbor.Decode(b, &e); err != nil {
				return "", err
			}
			return errLabel(e.Err), nil
		}}
	bs.insts = []inst{
		{tag: 1, desc: "AlonzoInBabbage UTXO failure", root: A(U(1), A(U(eAlonzo), utxoList(4, "FeeTooSmallUtxo"))), want: "UtxoFailure"},
		{tag: 2, desc: "IncorrectTotalCollateralField", root: A(U(2), A(U(2), U(5), U(7))), want: "IncorrectTotalCollateralField"},
		{tag: 3, desc: "BabbageOutputTooSmallUTxO", root: A(U(3), A(U(3), A(A(A(B(hN(29, 5)), U(1)), U(1000000))))), want: "BabbageOutputTooSmallUTxO"},
		{tag: 4, desc: "BabbageNonDisjointRefInputs", root: A(U(4), A(U(4), A(txIn()))), want: "BabbageNonDisjointRefInputs"},
		{tag: 0, desc: "failure 0 without a Go type", root: A(U(0), A(U(0), A(txIn()))), want: "UnknownUtxoFailureError/0"},
		{tag: 23, desc: "failure 23 without a Go type", root: A(U(23), A(U(23), A(txIn()))), want: "UnknownUtxoFailureError/23"},
	}
	addSite(bs)
}
