// C33: reward withdrawals are gated on DRep delegation only at PV10 and PV11.
//
// Space (complete product): parameter/era config {Conway tx + Conway pp, Dijkstra tx + Dijkstra pp,
// Dijkstra tx + Conway pp} x protocol major 0..20 x is_valid {true,false (Conway only)} x ledger
// state {answers DRepDelegation, lacks the DRepDelegationState capability} x withdrawal set
// (one or two reward accounts, each: amount {0,1} x {delegated, undelegated} x {registered,
// unregistered} x {key-hash, script-hash}).
// Oracle: the table of the property / ARCHITECTURE.md, written out in want().
package main

import (
	"encoding/json"
	"errors"
	"fmt"
	"os"

	"github.com/blinklabs-io/gouroboros/ledger/common"
	"github.com/blinklabs-io/gouroboros/ledger/conway"
	"verif/vlib"
)

// ledger state with the optional capability
type stubWithDRep struct {
	*StubState
	deleg map[[28]byte]bool
}

func (s *stubWithDRep) DRepDelegation(c common.Credential) (*common.Drep, error) {
	if s.deleg[[28]byte(c.Credential)] {
		return &common.Drep{Type: common.DrepTypeAbstain}, nil
	}
	return nil, nil
}

var _ common.DRepDelegationState = (*stubWithDRep)(nil)

// one withdrawal
type wd struct {
	Amount    uint64 `json:"amount"`
	Delegated bool   `json:"delegated"`
	Reg       bool   `json:"registered"`
	Script    bool   `json:"script_hash"`
}

type gcase struct {
	Cfg   int  `json:"cfg"` // 0 conway/conway-pp, 1 dijkstra/dijkstra-pp, 2 dijkstra/conway-pp
	PV    uint `json:"pv"`
	Valid bool `json:"is_valid"`
	Cap   bool `json:"state_has_capability"`
	W     []wd `json:"withdrawals"`
}

var cfgNames = []string{"conway-tx+conway-pp", "dijkstra-tx+dijkstra-pp", "dijkstra-tx+conway-pp"}

func (g gcase) era() int {
	if g.Cfg == 0 {
		return EraConway
	}
	return EraDijkstra
}

const (
	wNone     = "no-delegation-error"
	wNotDeleg = "not-delegated-error"
	wUnavail  = "state-unavailable-error"
	wAny      = "no-expectation"
)

// want is the oracle.
func want(g gcase) string {
	gatePV := g.PV == 10 || g.PV == 11
	if !gatePV {
		return wNone // "versions up to 9 and from 12 on impose no delegation requirement"
	}
	if !g.Valid {
		return wNone // ARCHITECTURE.md: validation of withdrawals is skipped for phase-2-invalid transactions
	}
	// PV10/11, phase-1/2 valid
	relevantUndeleg, relevantAny, outside := false, false, false
	for _, w := range g.W {
		if !w.Reg {
			// a withdrawal from an unregistered account is rejected by the registration check,
			// whatever the delegation state: no expectation about which error is reported
			return wAny
		}
		if w.Script {
			outside = true // script-hash accounts: the statement does not speak about them
			continue
		}
		if w.Amount == 0 {
			outside = true // the statement speaks about non-zero withdrawals only
			continue
		}
		relevantAny = true
		if !w.Delegated {
			relevantUndeleg = true
		}
	}
	switch {
	case g.Cap && relevantUndeleg:
		return wNotDeleg
	case !g.Cap && relevantAny:
		return wUnavail
	case outside:
		return wAny
	}
	return wNone
}

// classify looks for the two error types of the gate in an error chain.
func classify(errs []error) string {
	got := wNone
	for _, e := range errs {
		var nd conway.WithdrawalNotDelegatedToDRepError
		var un conway.DRepDelegationStateUnavailableError
		if errors.As(e, &un) {
			return wUnavail
		}
		if errors.As(e, &nd) {
			got = wNotDeleg
		}
	}
	return got
}

func pvBand(pv uint) string {
	switch {
	case pv <= 9:
		return "pv<=9"
	case pv <= 11:
		return "pv=10..11"
	}
	return "pv>=12"
}

func wdClass(ws []wd) string {
	s := ""
	for i, w := range ws {
		if i > 0 {
			s += "+"
		}
		a := "amt0"
		if w.Amount > 0 {
			a = "amt>0"
		}
		d := "undelegated"
		if w.Delegated {
			d = "delegated"
		}
		r := "registered"
		if !w.Reg {
			r = "unregistered"
		}
		k := "key"
		if w.Script {
			k = "script"
		}
		s += fmt.Sprintf("(%s,%s,%s,%s)", a, d, r, k)
	}
	return s
}

func main() {
	c := vlib.New("C33", "exploration")
	payKey := NewKey(c.Seed, 1)
	stake := []Key{NewKey(c.Seed, 2), NewKey(c.Seed, 3)}
	scriptHash := [][28]byte{h224([]byte("verif-script-a")), h224([]byte("verif-script-b"))}

	// alphabet of single withdrawals
	var single []wd
	for _, amt := range []uint64{0, 1} {
		for _, d := range []bool{true, false} {
			single = append(single, wd{amt, d, true, false})
		}
	}
	extra := []wd{{1, false, false, false}, {1, true, false, false}, {0, false, false, false}, {1, false, true, true}, {1, true, true, true}, {0, false, true, true}}
	if c.Thorough() {
		var more []wd
		for _, w := range single {
			w.Amount *= 1_000_000
			if w.Amount > 0 {
				more = append(more, w)
			}
		}
		single = append(single, more...)
	}
	var sets [][]wd
	for _, a := range append(append([]wd{}, single...), extra...) {
		sets = append(sets, []wd{a})
	}
	for _, a := range single {
		for _, b := range single {
			sets = append(sets, []wd{a, b})
		}
	}
	if c.Thorough() {
		for _, a := range single {
			for _, b := range extra {
				sets = append(sets, []wd{a, b})
			}
		}
	}
	var cases []gcase
	for cfg := 0; cfg < 3; cfg++ {
		for pv := uint(0); pv <= 20; pv++ {
			for _, valid := range []bool{true, false} {
				if !valid && cfg != 0 {
					continue // Dijkstra cannot encode is_valid=false
				}
				for _, cp := range []bool{true, false} {
					for _, ws := range sets {
						cases = append(cases, gcase{cfg, pv, valid, cp, ws})
					}
				}
			}
		}
	}
	if c.Replay != "" {
		var f struct{ Replay struct{ Case gcase } }
		b, err := os.ReadFile(c.Replay)
		if err == nil {
			err = json.Unmarshal(b, &f)
		}
		if err != nil {
			c.Internal("replay: %v", err)
		}
		cases = []gcase{f.Replay.Case}
	}

	in := MkIn(int(c.Seed)+1, 0)
	build := func(g gcase) (*TxRec, common.LedgerState, common.ProtocolParameters) {
		base := NewStub()
		dl := map[[28]byte]bool{}
		var total uint64
		valid := g.Valid
		r := &TxRec{Era: g.era(), Inputs: []In{in}, Fee: 1000, Signers: []Key{payKey}, IsValid: &valid}
		if !valid {
			r.Redeemers = 1 // is_valid=false is only meaningful for a script-running transaction
			cin := MkIn(int(c.Seed)+2, 0)
			_ = base.AddUtxo(g.era(), cin, Out{Addr: EnterpriseAddr(payKey), Coin: 5_000_000})
			r.Collateral = []In{cin}
		}
		for i, w := range g.W {
			var cred [28]byte
			var addr []byte
			if w.Script {
				cred = scriptHash[i]
				addr = RewardAddrScript(cred)
			} else {
				cred = stake[i].Hash
				addr = RewardAddr(stake[i])
				r.Signers = append(r.Signers, stake[i])
			}
			if w.Reg {
				base.RegStake[cred] = true
				base.Rewards[cred] = w.Amount
			}
			if w.Delegated {
				dl[cred] = true
			}
			r.Withdrawals = append(r.Withdrawals, Wdrl{addr, w.Amount})
			total += w.Amount
		}
		_ = base.AddUtxo(g.era(), in, Out{Addr: EnterpriseAddr(payKey), Coin: 2_000_000})
		r.Outputs = []Out{{Addr: EnterpriseAddr(payKey), Coin: 2_000_000 - 1000 + total}}
		p := NeutralPP()
		p.ProtocolMajor = uint64(g.PV)
		p.UseConwayType = g.Cfg == 2
		var pp common.ProtocolParameters
		if g.PV == 0 {
			// MakePP treats 0 as "era default"; build explicitly
			p.ProtocolMajor = 1
			pp = MakePP(g.era(), p)
			setMajor(pp, 0)
		} else {
			pp = MakePP(g.era(), p)
		}
		var ls common.LedgerState = base
		if g.Cap {
			ls = &stubWithDRep{base, dl}
		}
		return r, ls, pp
	}

	type result struct {
		raw          []byte
		err          error
		direct, list string
		directErr    error
		listErrs     []RuleResult
		full         error
	}
	res := make([]result, len(cases))
	vlib.Parallel(len(cases), func(i int) {
		g := cases[i]
		rec, ls, pp := build(g)
		tx, raw, err := rec.Build()
		r := &res[i]
		r.raw, r.err = raw, err
		if err != nil {
			return
		}
		func() {
			defer func() {
				if p := recover(); p != nil {
					r.directErr = fmt.Errorf("panic: %v", p)
				}
			}()
			r.directErr = conway.UtxoValidateWithdrawals(tx, 100, ls, pp)
		}()
		r.direct = classify([]error{r.directErr})
		r.listErrs = RunList(Rules(g.era()), tx, 100, ls, pp)
		var es []error
		for _, x := range r.listErrs {
			es = append(es, x.Err)
		}
		r.list = classify(es)
		r.full = Verify(g.era(), tx, 100, ls, pp)
	})
	for i, g := range cases {
		r := res[i]
		replay := map[string]any{"case": g, "config": cfgNames[g.Cfg], "tx_cbor": fmt.Sprintf("%x", r.raw),
			"direct_rule_error": errStr(r.directErr), "list_errors": names(r.listErrs), "VerifyTransaction": errStr(r.full)}
		if r.err != nil {
			c.Violation("decode|"+cfgNames[g.Cfg], fmt.Sprintf("well-formed transaction rejected by the decoder: %v", r.err), replay)
			continue
		}
		w := want(g)
		replay["oracle"] = w
		st := "state=with-capability"
		if !g.Cap {
			st = "state=no-capability"
		}
		cls := fmt.Sprintf("%s|%s|is_valid=%v|%s|%s", cfgNames[g.Cfg], pvBand(g.PV), g.Valid, st, wdClass(g.W))
		c.Eval(cls, fmt.Sprintf("oracle=%s/direct=%s/list=%s", w, r.direct, r.list))
		if r.full == nil {
			c.Add("full_VerifyTransaction_accepts", 1)
		}
		if (g.PV == 9 || g.PV == 10 || g.PV == 12) && g.Cfg == 0 && g.Valid && len(g.W) == 1 && g.W[0].Amount == 1 && g.W[0].Reg && !g.W[0].Script && !g.W[0].Delegated {
			c.Sample(replay)
		}
		if w == wAny {
			c.Add("no_expectation_cases", 1)
			continue
		}
		// one key per (config, PV band, validity, state, expected, observed); the withdrawal-set class is
		// in the message and the replay data only, so that one wrong branch of the gate is one key
		type ob struct{ where, got string }
		var obs []ob
		switch {
		case r.direct == r.list && r.direct != w:
			obs = []ob{{"rule+list", r.direct}}
		default:
			if r.direct != w {
				obs = append(obs, ob{"conway.UtxoValidateWithdrawals-only", r.direct})
			}
			if r.list != w {
				obs = append(obs, ob{"rule-list-only", r.list})
			}
		}
		for _, o := range obs {
			c.Violation(fmt.Sprintf("withdrawal-gate|%s|%s|%s|is_valid=%v|%s|want=%s|got=%s", o.where, cfgNames[g.Cfg], pvBand(g.PV), g.Valid, st, w, o.got),
				fmt.Sprintf("pv %d, withdrawals %s: expected %s, observed %s (direct rule error: %q)", g.PV, wdClass(g.W), w, o.got, errStr(r.directErr)), replay)
		}
	}
	c.Set("rule", "complete product config x PV 0..20 x is_valid x capability x withdrawal set (1 or 2 accounts over amount x delegated x registered x key/script); distinct = config x PV band x is_valid x capability x withdrawal-set class; observation = error type (WithdrawalNotDelegatedToDRepError / DRepDelegationStateUnavailableError, found with errors.As) returned by conway.UtxoValidateWithdrawals called directly and by any rule of the era's list called separately; unrelated rule errors are ignored by type")
	c.Assume("ed25519/blake2b trusted; DRep delegation to 'always abstain' counts as delegated")
	c.Assume("is_valid=false: expectation 'gate skipped' is taken from ARCHITECTURE.md; zero-amount, unregistered and script-hash accounts at PV10/11 have no expectation (the statement is about non-zero withdrawals from registered key-hash accounts)")
	// free-running -race pass: concurrent callers on their own inputs (state the library shares between calls)
	c.RaceAudit("c33")
	c.Finish()
}

// setMajor forces the protocol major version (used for PV 0, which MakePP reserves for "default").
func setMajor(pp common.ProtocolParameters, v uint) {
	switch p := pp.(type) {
	case *conway.ConwayProtocolParameters:
		p.ProtocolVersion.Major = v
	default:
		setDijkstraMajor(pp, v)
	}
}
