package main

import (
	"github.com/blinklabs-io/gouroboros/ledger/common"
	"github.com/blinklabs-io/gouroboros/ledger/dijkstra"
)

func setDijkstraMajor(pp common.ProtocolParameters, v uint) {
	if p, ok := pp.(*dijkstra.DijkstraProtocolParameters); ok {
		p.ProtocolVersion.Major = v
	}
}
