#!/bin/bash
here="$(cd "$(dirname "$0")/../.." && pwd)"
exec "$here/bin/e1check" C19 c19 TestC19 . ./muxer ./protocol/... -- "$@"
