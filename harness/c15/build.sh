#!/bin/bash
here="$(cd "$(dirname "$0")/../.." && pwd)"
[ -n "${VERIF_REPO_OVERRIDE:-}" ] && export REPO_ROOT="$VERIF_REPO_OVERRIDE"
exec "$here/bin/e1check" C15 c15 "${VERIF_C15_TEST:-TestC15}" . ./muxer ./protocol/... -- "$@"
