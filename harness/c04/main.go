// C04: mini-protocol message codecs round-trip and reject malformed shapes.
//
// Part A (round trip): every exported NewMsg* constructor of every protocol under
// /repo/protocol/* (table in table.go, cross-checked at run time against go/ast of
// protocol/*/messages.go: a constructor missing from the table is reported as
// "uncovered") is called with every combination of small per-field alphabets; the message
// is encoded with the library's encoder, decoded with the protocol's NewMsgFromCbor and
// must come back with the same Go type, the same Type() and field-for-field equal values
// (stored CBOR ignored, nil == empty container).
//
// Part B (shape mutations): the library's encoding of each instance is parsed with the
// harness's own CBOR reader and mutated with its own writer:
//   - arity +1 (an extra trailing element) and arity -1 (last element dropped);
//   - every field (the message-type field included) replaced by a fixed representative of
//     every CBOR major type other than the one(s) the field's kind admits (the kind of each
//     field is the harness's own transcription of the network-spec CDDL; fields of kind
//     "any" are not mutated);
//   - every chain point replaced by 1- and 3-element lists and by pairs that are not
//     (slot, hash).
// Each mutant must be rejected (error) by NewMsgFromCbor; acceptance is the violation.
package main

import (
	"encoding/hex"
	"encoding/json"
	"fmt"
	"go/ast"
	"go/parser"
	"go/token"
	"os"
	"path/filepath"
	"reflect"
	"sort"
	"strings"
	"sync"

	"github.com/blinklabs-io/gouroboros/cbor"
	"github.com/blinklabs-io/gouroboros/protocol"
	"verif/space"
	"verif/vlib"
)

// ---- field kinds (the harness's own shape model) ----

type kind int

const (
	kUint   kind = iota // unsigned integer
	kBool               // simple true/false
	kBytes              // byte string
	kText               // text string
	kList               // array (contents not modelled further)
	kMap                // map
	kPoint              // [] / [slot, hash]
	kTip                // [point, blockNo]
	kPoints             // [* point]
	kTag24              // #6.24(bytes)
	kAny                // any CBOR item: never mutated
)

var kindNames = []string{"uint", "bool", "bytes", "text", "list", "map", "point", "tip", "points", "tag24", "any"}

// admitted major types per kind
func admits(k kind, major byte) bool {
	switch k {
	case kUint:
		return major == 0
	case kBool:
		return major == 7
	case kBytes:
		return major == 2
	case kText:
		return major == 3
	case kList, kPoint, kTip, kPoints:
		return major == 4
	case kMap:
		return major == 5
	case kTag24:
		return major == 6
	}
	return true
}

type build struct {
	desc   string
	mk     func() (protocol.Message, error)
	fields []kind // overrides ctor.fields when this instance has another (valid) shape
	own    bool
	kclass string // optional class of the instance, appended to round-trip keys (e.g. "nil-arg")
}

type decodeFn struct {
	name string
	fn   func(uint, []byte) (protocol.Message, error)
}

type ctor struct {
	proto    string
	name     string // constructor name, e.g. NewMsgRollBackward
	msg      string // message type name, e.g. MsgRollBackward
	decoders []decodeFn
	fields   []kind // kinds of the elements after the message-type element
	altArity []int  // other total arities that are valid shapes of the same message type
	builds   []build
}

var ctors []*ctor

// ---- structural equality modulo stored CBOR ----

var (
	storeT  = reflect.TypeOf(cbor.DecodeStoreCbor{})
	asArray = reflect.TypeOf(cbor.StructAsArray{})
)

func isEmptyContainer(v reflect.Value) bool {
	switch v.Kind() {
	case reflect.Slice, reflect.Map:
		return v.Len() == 0
	}
	return false
}

// diff returns "" when a and b are equal, else a short description of the first difference.
func diff(a, b reflect.Value, path string, depth int) string {
	if depth > 60 {
		return path + ": too deep"
	}
	if !a.IsValid() || !b.IsValid() {
		if a.IsValid() != b.IsValid() {
			return path + ": one side invalid"
		}
		return ""
	}
	if a.Type() != b.Type() {
		return fmt.Sprintf("%s: type %s vs %s", path, a.Type(), b.Type())
	}
	switch a.Kind() {
	case reflect.Struct:
		if a.Type() == storeT || a.Type() == asArray {
			return ""
		}
		for i := 0; i < a.NumField(); i++ {
			if d := diff(a.Field(i), b.Field(i), path+"."+a.Type().Field(i).Name, depth+1); d != "" {
				return d
			}
		}
		return ""
	case reflect.Pointer:
		if a.IsNil() || b.IsNil() {
			if a.IsNil() != b.IsNil() {
				return path + ": nil vs non-nil pointer"
			}
			return ""
		}
		return diff(a.Elem(), b.Elem(), path, depth+1)
	case reflect.Interface:
		if a.IsNil() || b.IsNil() {
			if a.IsNil() != b.IsNil() {
				// a nil interface and an empty container are the same "nothing"
				x := a
				if a.IsNil() {
					x = b
				}
				if isEmptyContainer(x.Elem()) {
					return ""
				}
				return path + ": nil vs non-nil interface"
			}
			return ""
		}
		return diff(a.Elem(), b.Elem(), path, depth+1)
	case reflect.Slice:
		if a.Len() != b.Len() {
			return fmt.Sprintf("%s: len %d vs %d", path, a.Len(), b.Len())
		}
		if a.Type().Elem().Kind() == reflect.Uint8 {
			if string(a.Bytes()) != string(b.Bytes()) {
				return fmt.Sprintf("%s: bytes %x vs %x", path, a.Bytes(), b.Bytes())
			}
			return ""
		}
		for i := 0; i < a.Len(); i++ {
			if d := diff(a.Index(i), b.Index(i), fmt.Sprintf("%s[%d]", path, i), depth+1); d != "" {
				return d
			}
		}
		return ""
	case reflect.Array:
		for i := 0; i < a.Len(); i++ {
			if d := diff(a.Index(i), b.Index(i), fmt.Sprintf("%s[%d]", path, i), depth+1); d != "" {
				return d
			}
		}
		return ""
	case reflect.Map:
		if a.Len() != b.Len() {
			return fmt.Sprintf("%s: map len %d vs %d", path, a.Len(), b.Len())
		}
		it := a.MapRange()
		for it.Next() {
			bv := b.MapIndex(it.Key())
			if !bv.IsValid() {
				return fmt.Sprintf("%s: key %v missing", path, it.Key())
			}
			if d := diff(it.Value(), bv, fmt.Sprintf("%s[%v]", path, it.Key()), depth+1); d != "" {
				return d
			}
		}
		return ""
	case reflect.Bool:
		if a.Bool() != b.Bool() {
			return fmt.Sprintf("%s: %v vs %v", path, a.Bool(), b.Bool())
		}
	case reflect.Int, reflect.Int8, reflect.Int16, reflect.Int32, reflect.Int64:
		if a.Int() != b.Int() {
			return fmt.Sprintf("%s: %d vs %d", path, a.Int(), b.Int())
		}
	case reflect.Uint, reflect.Uint8, reflect.Uint16, reflect.Uint32, reflect.Uint64, reflect.Uintptr:
		if a.Uint() != b.Uint() {
			return fmt.Sprintf("%s: %d vs %d", path, a.Uint(), b.Uint())
		}
	case reflect.Float32, reflect.Float64:
		if a.Float() != b.Float() {
			return fmt.Sprintf("%s: %v vs %v", path, a.Float(), b.Float())
		}
	case reflect.String:
		if a.String() != b.String() {
			return fmt.Sprintf("%s: %q vs %q", path, a.String(), b.String())
		}
	default:
		return fmt.Sprintf("%s: unsupported kind %s", path, a.Kind())
	}
	return ""
}

// ---- reporting (collected, then flushed in a fixed order) ----

type caseRec struct {
	Proto    string `json:"protocol"`
	Ctor     string `json:"constructor"`
	Decoder  string `json:"decoder"`
	Instance string `json:"instance"`
	MsgType  uint   `json:"msg_type"`
	Mutation string `json:"mutation,omitempty"`
	Hex      string `json:"hex"`
	Detail   string `json:"detail,omitempty"`
}

type pending struct {
	what string
	rec  caseRec
}

var (
	pendMu sync.Mutex
	pend   = map[string]pending{}
	hits   = map[string]map[string]int{} // key -> "proto.Ctor" -> count
)

func report(key, what string, rec caseRec) {
	pendMu.Lock()
	defer pendMu.Unlock()
	m := hits[key]
	if m == nil {
		m = map[string]int{}
		hits[key] = m
	}
	m[rec.Proto+"."+rec.Ctor]++
	old, ok := pend[key]
	if !ok || len(rec.Hex) < len(old.rec.Hex) || len(rec.Hex) == len(old.rec.Hex) && (rec.Hex < old.rec.Hex || rec.Hex == old.rec.Hex && what < old.what) {
		pend[key] = pending{what, rec}
	}
}

func flush(c *vlib.Check) {
	var keys []string
	for k := range pend {
		keys = append(keys, k)
	}
	sort.Strings(keys)
	for _, k := range keys {
		c.Violation(k, pend[k].what, pend[k].rec)
	}
}

func safeDecode(d decodeFn, t uint, b []byte) (m protocol.Message, err error) {
	defer func() {
		if r := recover(); r != nil {
			err = fmt.Errorf("panic: %v", r)
		}
	}()
	return d.fn(t, b)
}

// ---- part A ----

func roundTrip(c *vlib.Check, ct *ctor, b build) (enc []byte, t uint, ok bool) {
	m, err := b.mk()
	if err != nil {
		c.Eval("", "constructor-error")
		c.Note(fmt.Sprintf("%s.%s %s: constructor returned error: %v", ct.proto, ct.name, b.desc, err))
		return nil, 0, false
	}
	enc, err = cbor.Encode(m)
	if err != nil {
		c.Eval(fmt.Sprintf("rt|%s.%s|%s", ct.proto, ct.name, b.desc), "encode-error")
		report(fmt.Sprintf("roundtrip|%s.%s|encode-error", ct.proto, ct.name),
			fmt.Sprintf("%s.%s(%s): library encoder fails: %v", ct.proto, ct.name, b.desc, err),
			caseRec{Proto: ct.proto, Ctor: ct.name, Instance: b.desc, Detail: err.Error()})
		return nil, 0, false
	}
	t = uint(m.Type())
	kc := ""
	if b.kclass != "" {
		kc = "|" + b.kclass
	}
	for _, d := range ct.decoders {
		rec := caseRec{Proto: ct.proto, Ctor: ct.name, Decoder: d.name, Instance: b.desc, MsgType: t, Hex: hex.EncodeToString(enc)}
		class := fmt.Sprintf("rt|%s.%s|%s|%s", ct.proto, ct.name, d.name, b.desc)
		got, derr := safeDecode(d, t, enc)
		switch {
		case derr != nil:
			c.Eval(class, "roundtrip-DECODE-ERROR")
			rec.Detail = derr.Error()
			report(fmt.Sprintf("roundtrip|%s.%s|decode-error%s", ct.proto, ct.name, kc),
				fmt.Sprintf("%s.%s(%s): own encoding %x is rejected by %s: %v", ct.proto, ct.name, b.desc, clip(enc), d.name, derr), rec)
		case reflect.TypeOf(got) != reflect.TypeOf(m):
			c.Eval(class, "roundtrip-WRONG-TYPE")
			rec.Detail = fmt.Sprintf("%T vs %T", got, m)
			report(fmt.Sprintf("roundtrip|%s.%s|type", ct.proto, ct.name),
				fmt.Sprintf("%s.%s(%s): decodes as %T, built %T", ct.proto, ct.name, b.desc, got, m), rec)
		case got.Type() != m.Type():
			c.Eval(class, "roundtrip-WRONG-MSGTYPE")
			report(fmt.Sprintf("roundtrip|%s.%s|msg-type", ct.proto, ct.name),
				fmt.Sprintf("%s.%s(%s): Type() %d after decoding, %d before", ct.proto, ct.name, b.desc, got.Type(), m.Type()), rec)
		default:
			if d := diff(reflect.ValueOf(m), reflect.ValueOf(got), "msg", 0); d != "" {
				c.Eval(class, "roundtrip-MISMATCH")
				rec.Detail = d
				report(fmt.Sprintf("roundtrip|%s.%s|fields%s", ct.proto, ct.name, kc),
					fmt.Sprintf("%s.%s(%s): decoded message differs from the built one at %s (encoding %x)", ct.proto, ct.name, b.desc, d, clip(enc)), rec)
			} else {
				c.Eval(class, "roundtrip-equal")
			}
		}
	}
	return enc, t, true
}

// ---- part B ----

type mutant struct {
	class string // key class, e.g. field-type|expected=uint|got=null
	desc  string
	bytes []byte
}

func representatives(orig *space.Node) []struct {
	name  string
	major byte
	node  *space.Node
} {
	return []struct {
		name  string
		major byte
		node  *space.Node
	}{
		{"uint", 0, space.U(1)},
		{"nint", 1, space.NInt(-1)},
		{"bytes", 2, space.B([]byte{0x01})},
		{"text", 3, space.T("a")},
		{"array", 4, space.A()},
		{"map", 5, space.M()},
		{"tag24(bytes)", 6, space.Tag(24, space.B([]byte{0x01}))},
		{"tag99(original)", 6, space.Tag(99, orig.Clone())},
		{"null", 7, space.Null()},
		{"true", 7, space.Bool(true)},
	}
}

// fieldKey groups accepted field-type mutants by the mechanism that lets them through, so
// that one root cause is one key whatever message it shows up in.
func fieldKey(k kind, rep string) string {
	switch {
	case rep == "null":
		return "field-type|null-accepted"
	case strings.HasPrefix(rep, "tag"):
		return "field-type|tag-ignored"
	case rep == "array" && (k == kBytes || k == kTag24):
		return "field-type|array-as-bytes"
	case rep == "bytes" && k == kTag24:
		return "field-type|untagged-bytes-for-tag24"
	}
	return fmt.Sprintf("field-type|expected=%s|got=%s", kindNames[k], rep)
}

func pointMutants() []struct {
	name  string
	class string
	node  *space.Node
} {
	h := space.B(make([]byte, 32))
	const l, p = "point|len-not-0-or-2", "point|pair-not-slot-and-hash"
	return []struct {
		name  string
		class string
		node  *space.Node
	}{
		{"1-element list [slot]", l, space.A(space.U(5))},
		{"1-element list [hash]", l, space.A(h)},
		{"3-element list [slot,hash,0]", l, space.A(space.U(5), h, space.U(0))},
		{"4-element list", l, space.A(space.U(5), h, space.U(0), space.U(0))},
		{"pair [hash,slot]", p, space.A(h, space.U(5))},
		{"pair [slot,text]", p, space.A(space.U(5), space.T("abc"))},
		{"pair [nint,hash]", p, space.A(space.NInt(-1), h)},
	}
}

func pointPaths(k kind, fieldPath []int, n *space.Node) [][]int {
	switch k {
	case kPoint:
		return [][]int{fieldPath}
	case kTip:
		if n.IsArray() && len(n.Items) == 2 {
			return [][]int{append(append([]int{}, fieldPath...), 0)}
		}
	case kPoints:
		var out [][]int
		if n.IsArray() {
			for i := range n.Items {
				out = append(out, append(append([]int{}, fieldPath...), i))
			}
		}
		return out
	}
	return nil
}

func mutants(c *vlib.Check, ct *ctor, fields []kind, root *space.Node) []mutant {
	var out []mutant
	arity := len(root.Items)
	validArity := func(n int) bool {
		for _, a := range ct.altArity {
			if a == n {
				return true
			}
		}
		return false
	}
	// arity +1 / -1
	if !validArity(arity + 1) {
		m := root.Clone()
		m.Items = append(m.Items, space.U(0))
		out = append(out, mutant{"arity+1|" + ct.proto + "." + ct.msg, "extra trailing element", m.Encode()})
	}
	if !validArity(arity - 1) {
		m := root.Clone()
		m.Items = m.Items[:arity-1]
		out = append(out, mutant{"arity-1|" + ct.proto + "." + ct.msg, "last element dropped", m.Encode()})
	}
	// field types
	for i, it := range root.Items {
		k := kUint
		if i > 0 {
			k = fields[i-1]
		}
		if k == kAny {
			continue
		}
		for _, r := range representatives(it) {
			if admits(k, r.major) {
				continue
			}
			m := root.Clone()
			m.Items[i] = r.node
			fname := fmt.Sprintf("field %d", i)
			if i == 0 {
				fname = "message-type field"
			}
			out = append(out, mutant{fieldKey(k, r.name),
				fmt.Sprintf("%s (%s) replaced by %s", fname, kindNames[k], r.name), m.Encode()})
		}
		// tip = [point, blockNo]: nested arity and the block number's type
		if i > 0 && k == kTip && it.IsArray() && len(it.Items) == 2 {
			for _, d := range []int{+1, -1} {
				m := root.Clone()
				t := m.Items[i]
				if d > 0 {
					t.Items = append(t.Items, space.U(0))
				} else {
					t.Items = t.Items[:1]
				}
				out = append(out, mutant{fmt.Sprintf("arity%+d|tip", d), fmt.Sprintf("tip in field %d with %d elements", i, 2+d), m.Encode()})
			}
			for _, r := range representatives(it.Items[1]) {
				if admits(kUint, r.major) {
					continue
				}
				m := root.Clone()
				m.Items[i].Items[1] = r.node
				out = append(out, mutant{fieldKey(kUint, r.name), fmt.Sprintf("tip block number in field %d replaced by %s", i, r.name), m.Encode()})
			}
		}
		// chain points
		if i > 0 {
			for _, pp := range pointPaths(k, []int{i}, it) {
				for _, pm := range pointMutants() {
					m := root.Clone()
					parent := m.At(pp[:len(pp)-1])
					parent.Items[pp[len(pp)-1]] = pm.node
					out = append(out, mutant{pm.class, fmt.Sprintf("point at %v replaced by %s", pp, pm.name), m.Encode()})
				}
			}
		}
	}
	return out
}

func clip(b []byte) []byte {
	if len(b) > 72 {
		return b[:72]
	}
	return b
}

var (
	accMu    sync.Mutex
	accepted = map[string]map[string]int{} // class -> proto.ctor -> n
)

var (
	shapeMu    sync.Mutex
	shapeNotes = map[string]string{}
)

// unexpectedShape records (once per constructor) that an encoding did not have the tabled arity.
func unexpectedShape(c *vlib.Check, ct *ctor, b build, enc []byte, alt bool) {
	c.Eval(fmt.Sprintf("shape-of-encoding|%s.%s|%s", ct.proto, ct.name, b.desc), "encoding-in-other-shape")
	shapeMu.Lock()
	defer shapeMu.Unlock()
	k := ct.proto + "." + ct.name
	how := "mutated with the field kinds of the message's other tabled shape"
	if !alt {
		how = "no tabled shape of that arity: shape mutations skipped for such instances"
	}
	if _, ok := shapeNotes[k]; !ok {
		shapeNotes[k] = fmt.Sprintf("%s(%s) is encoded as %x, not in the %d-field shape tabled for this constructor; %s (equality of the round trip decides the verdict)",
			k, b.desc, clip(enc), len(ct.fields), how)
	}
	if !alt {
		skippedShapes = true
	}
}

var skippedShapes bool

func runMutants(c *vlib.Check, ct *ctor, b build, enc []byte, t uint) {
	root, err := space.Parse(enc)
	if err != nil {
		// not well-formed for the harness's reader: the round-trip half has already judged it
		c.Eval(fmt.Sprintf("shape-of-encoding|%s.%s|%s", ct.proto, ct.name, b.desc), "encoding-unreadable")
		shapeMu.Lock()
		shapeNotes[ct.proto+"."+ct.name+"|unreadable"] = fmt.Sprintf("%s.%s(%s): library encoding %x is not readable by the harness's CBOR reader (%v); shape mutations skipped", ct.proto, ct.name, b.desc, clip(enc), err)
		skippedShapes = true
		shapeMu.Unlock()
		return
	}
	fields := ct.fields
	if b.own {
		fields = b.fields
	}
	if !root.IsArray() || len(root.Items) != len(fields)+1 {
		// The library chose another wire shape for this instance than the table expects. Whether that
		// loses information is decided by the round-trip comparison above, never by aborting. For the
		// shape mutations use the field kinds of another constructor of the same message type whose
		// arity matches (the message's other valid shape); otherwise skip the mutations of this instance.
		fields = nil
		found := false
		if root.IsArray() {
			for _, o := range ctors {
				if o.proto == ct.proto && o.msg == ct.msg && len(o.fields)+1 == len(root.Items) {
					fields, found = o.fields, true
					break
				}
			}
		}
		unexpectedShape(c, ct, b, enc, found)
		if !found {
			return
		}
	}
	for _, mu := range mutants(c, ct, fields, root) {
		for _, d := range ct.decoders {
			class := fmt.Sprintf("mut|%s.%s|%s|%s|%s", ct.proto, ct.name, d.name, b.desc, mu.desc)
			got, derr := safeDecode(d, t, mu.bytes)
			if derr != nil {
				c.Eval(class, "mutant-rejected")
				continue
			}
			c.Eval(class, "mutant-ACCEPTED")
			rec := caseRec{Proto: ct.proto, Ctor: ct.name, Decoder: d.name, Instance: b.desc, MsgType: t, Mutation: mu.desc,
				Hex: hex.EncodeToString(mu.bytes), Detail: fmt.Sprintf("decoded as %T", got)}
			report("shape|"+mu.class,
				fmt.Sprintf("%s %s: %s accepted without error (valid encoding %x, mutant %x)", ct.proto, ct.msg, mu.desc, clip(enc), clip(mu.bytes)), rec)
		}
	}
}

// ---- constructor cross-check against go/ast ----

func findConstructors(repo string) (map[string]bool, error) {
	out := map[string]bool{}
	files, err := filepath.Glob(filepath.Join(repo, "protocol", "*", "messages.go"))
	if err != nil {
		return nil, err
	}
	if len(files) == 0 {
		return nil, fmt.Errorf("no protocol/*/messages.go below %s", repo)
	}
	fset := token.NewFileSet()
	for _, f := range files {
		af, err := parser.ParseFile(fset, f, nil, parser.SkipObjectResolution)
		if err != nil {
			return nil, err
		}
		proto := filepath.Base(filepath.Dir(f))
		for _, d := range af.Decls {
			fd, ok := d.(*ast.FuncDecl)
			if !ok || fd.Recv != nil || !fd.Name.IsExported() {
				continue
			}
			n := fd.Name.Name
			if strings.HasPrefix(n, "NewMsg") && !strings.HasPrefix(n, "NewMsgFromCbor") {
				out[proto+"."+n] = true
			}
		}
	}
	return out, nil
}

type replayFile struct {
	Replay caseRec `json:"replay"`
}

func main() {
	c := vlib.New("C04", "exploration")
	buildTable(c)

	if c.Replay != "" {
		b, err := os.ReadFile(c.Replay)
		if err != nil {
			c.Internal("replay: %v", err)
		}
		var rf replayFile
		if err := json.Unmarshal(b, &rf); err != nil {
			c.Internal("replay: %v", err)
		}
		raw, _ := hex.DecodeString(rf.Replay.Hex)
		for _, ct := range ctors {
			if ct.proto != rf.Replay.Proto || ct.name != rf.Replay.Ctor {
				continue
			}
			for _, d := range ct.decoders {
				if d.name != rf.Replay.Decoder {
					continue
				}
				got, err := safeDecode(d, rf.Replay.MsgType, raw)
				fmt.Printf("replay %s.%s via %s on %x: message=%T err=%v\n", ct.proto, ct.name, d.name, raw, got, err)
				if rf.Replay.Mutation != "" {
					c.Eval("replay", "")
					if err == nil {
						c.Violation("replayed|"+rf.Replay.Mutation, "mutant still accepted", rf.Replay)
					}
				}
				c.Distinct("replay-a")
				c.Distinct("replay-b")
				c.Sample(rf.Replay)
				c.Set("rule", "replay of one recorded case")
				c.Finish()
			}
		}
		c.Internal("replay: constructor %s.%s / decoder %s not in table", rf.Replay.Proto, rf.Replay.Ctor, rf.Replay.Decoder)
	}

	type job struct {
		ct *ctor
		b  build
	}
	var jobs []job
	for _, ct := range ctors {
		for _, b := range ct.builds {
			jobs = append(jobs, job{ct, b})
		}
	}
	vlib.Parallel(len(jobs), func(i int) {
		j := jobs[i]
		enc, t, ok := roundTrip(c, j.ct, j.b)
		if ok {
			runMutants(c, j.ct, j.b, enc, t)
		}
	})
	flush(c)
	{
		var ks []string
		for k := range shapeNotes {
			ks = append(ks, k)
		}
		sort.Strings(ks)
		for _, k := range ks {
			c.Note(shapeNotes[k])
		}
		if skippedShapes {
			c.NotExhaustive("some instances were encoded in a shape the table has no field kinds for; their shape mutations were skipped (see notes)")
		}
	}

	// samples
	for i, ct := range ctors {
		if i%9 != 0 || len(ct.builds) == 0 {
			continue
		}
		b := ct.builds[len(ct.builds)-1]
		if m, err := b.mk(); err == nil {
			if enc, err := cbor.Encode(m); err == nil {
				c.Sample(map[string]any{"constructor": ct.proto + "." + ct.name, "instance": b.desc, "encoding": vlib.Hex(enc), "fields": kindList(ct.fields)})
			}
		}
	}

	// coverage of constructors
	found, ferr := findConstructors(vlib.Repo())
	if ferr != nil {
		c.Note("constructor scan failed: " + ferr.Error())
		c.NotExhaustive("could not scan protocol/*/messages.go")
	}
	have := map[string]bool{}
	for _, ct := range ctors {
		have[ct.proto+"."+ct.name] = true
	}
	uncovered, covered := []string{}, []string{}
	for f := range found {
		if have[f] {
			covered = append(covered, f)
		} else {
			uncovered = append(uncovered, f)
		}
	}
	sort.Strings(uncovered)
	sort.Strings(covered)
	c.Set("constructors_found", len(found))
	c.Set("constructors_covered", len(covered))
	c.Set("uncovered", uncovered)
	if len(uncovered) > 0 {
		c.NotExhaustive("uncovered constructors: " + strings.Join(uncovered, ", "))
	}
	acc := map[string]any{}
	for k, v := range hits {
		acc[k] = v
	}
	if len(acc) > 0 {
		c.Set("violations_by_key_and_constructor", acc)
	}
	c.Set("instances", len(jobs))
	c.Set("rule", "alphabet: every NewMsg* constructor x product of small per-field alphabets (points origin/(0,h)/(2^64-1,h); counters 0/1/max; lists empty/1/2; both booleans; byte strings empty/short/32 B); every instance is round-tripped through each applicable NewMsgFromCbor and then mutated: arity +-1, each field replaced by one representative of every major type its kind does not admit (uint 1, nint -1, bytes, text, [], {}, #6.24(bytes), #6.99(original), null, true), each chain point replaced by 7 non-point lists, each tip with arity +-1 and non-uint block number; distinct = (constructor, decoder, instance, mutation); oracle: round trip equal modulo stored CBOR / every mutant rejected")
	c.Assume("the field kinds in table.go transcribe the network-spec CDDL of each message (uint, bool, bytes, point, tip, list, map, #6.24, any); fields of kind any are never mutated")
	// free-running -race pass: concurrent callers on their own inputs (state the library shares between calls)
	c.RaceAudit("c04")
	c.Finish()
}

func kindList(ks []kind) []string {
	out := []string{"uint(message type)"}
	for _, k := range ks {
		out = append(out, kindNames[k])
	}
	return out
}
