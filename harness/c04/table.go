package main

import (
	"fmt"
	"math"
	"net"

	"github.com/blinklabs-io/gouroboros/cbor"
	lcommon "github.com/blinklabs-io/gouroboros/ledger/common"
	"github.com/blinklabs-io/gouroboros/protocol"
	"github.com/blinklabs-io/gouroboros/protocol/blockfetch"
	"github.com/blinklabs-io/gouroboros/protocol/chainsync"
	pcommon "github.com/blinklabs-io/gouroboros/protocol/common"
	"github.com/blinklabs-io/gouroboros/protocol/handshake"
	"github.com/blinklabs-io/gouroboros/protocol/keepalive"
	"github.com/blinklabs-io/gouroboros/protocol/leiosfetch"
	"github.com/blinklabs-io/gouroboros/protocol/leiosnotify"
	"github.com/blinklabs-io/gouroboros/protocol/leiosvotes"
	lmn "github.com/blinklabs-io/gouroboros/protocol/localmessagenotification"
	lms "github.com/blinklabs-io/gouroboros/protocol/localmessagesubmission"
	lsq "github.com/blinklabs-io/gouroboros/protocol/localstatequery"
	ltm "github.com/blinklabs-io/gouroboros/protocol/localtxmonitor"
	lts "github.com/blinklabs-io/gouroboros/protocol/localtxsubmission"
	"github.com/blinklabs-io/gouroboros/protocol/messagesubmission"
	"github.com/blinklabs-io/gouroboros/protocol/peersharing"
	"github.com/blinklabs-io/gouroboros/protocol/txsubmission"
	"verif/space"
	"verif/vlib"
)

var (
	A   = space.A
	U   = space.U
	B   = space.B
	T   = space.T
	M   = space.M
	Raw = space.Raw
)

type msg = protocol.Message

var seed int64

func bytesN(n int, k byte) []byte {
	b := make([]byte, n)
	for i := range b {
		b[i] = byte(int64(i)*5+int64(k)*17+seed*29) ^ k
	}
	return b
}

func ok(m msg) (msg, error) { return m, nil }

// add registers a constructor.
func add(proto, name, msgName string, decs []decodeFn, fields []kind, builds ...build) *ctor {
	ct := &ctor{proto: proto, name: name, msg: msgName, decoders: decs, fields: fields, builds: builds}
	ctors = append(ctors, ct)
	return ct
}

// plain registers a parameterless constructor.
func plain(proto, name, msgName string, decs []decodeFn, mk func() msg) {
	add(proto, name, msgName, decs, nil, build{desc: "()", mk: func() (msg, error) { return mk(), nil }})
}

type pt struct {
	d string
	p pcommon.Point
}
type tp struct {
	d string
	t pcommon.Tip
}

func buildTable(c *vlib.Check) {
	seed = c.Seed
	h32 := bytesN(32, 1)
	points := []pt{
		{"origin", pcommon.NewPointOrigin()},
		{"(0,h)", pcommon.NewPoint(0, h32)},
		{"(2^64-1,h)", pcommon.NewPoint(math.MaxUint64, bytesN(32, 2))},
	}
	if c.Thorough() {
		points = append(points, pt{"(1,h)", pcommon.NewPoint(1, h32)}, pt{"(2^32,h)", pcommon.NewPoint(1<<32, h32)},
			pt{"(23,short hash)", pcommon.NewPoint(23, []byte{0xaa})}, pt{"(24,h)", pcommon.NewPoint(24, h32)})
	}
	var tips []tp
	for _, p := range points {
		for _, n := range []uint64{0, 1, math.MaxUint64} {
			tips = append(tips, tp{fmt.Sprintf("tip(%s,%d)", p.d, n), pcommon.Tip{Point: p.p, BlockNumber: n}})
		}
	}
	u16s := []uint16{0, 1, math.MaxUint16}
	u8s := []uint8{0, 1, math.MaxUint8}
	u32s := []uint32{0, 1, math.MaxUint32}
	u64s := []uint64{0, 1, 23, 24, math.MaxUint64}
	bools := []bool{false, true}
	byteStrings := []struct {
		d string
		b []byte
	}{{"empty", []byte{}}, {"1B", []byte{0x42}}, {"32B", h32}}
	// well-formed CBOR payloads for "any"/wrapped fields (own writer)
	payloads := []struct {
		d string
		b []byte
	}{
		{"uint", U(7).Encode()},
		{"array", A(U(1), B([]byte{1, 2, 3})).Encode()},
		{"map", M(U(0), T("x")).Encode()},
	}

	// ================= handshake =================
	hs := []decodeFn{{"handshake.NewMsgFromCbor", handshake.NewMsgFromCbor}}
	vmaps := []struct {
		d string
		m protocol.ProtocolVersionMap
	}{
		{"empty", protocol.ProtocolVersionMap{}},
		{"ntc-all", protocol.GetProtocolVersionMap(protocol.ProtocolModeNodeToClient, 764824073, false, false, false)},
		{"ntn-all", protocol.GetProtocolVersionMap(protocol.ProtocolModeNodeToNode, 2, true, true, true)},
		{"one", protocol.ProtocolVersionMap{13: protocol.VersionDataNtN13andUp{VersionDataNtN11to12: protocol.VersionDataNtN11to12{CborNetworkMagic: math.MaxUint32, CborInitiatorAndResponderDiffusionMode: true, CborPeerSharing: 1, CborQuery: true}}}},
	}
	var b1, b2 []build
	for _, v := range vmaps {
		v := v
		b1 = append(b1, build{desc: v.d, mk: func() (msg, error) { return ok(handshake.NewMsgProposeVersions(v.m)) }})
		b2 = append(b2, build{desc: v.d, mk: func() (msg, error) { return ok(handshake.NewMsgQueryReply(v.m)) }})
	}
	add("handshake", "NewMsgProposeVersions", "MsgProposeVersions", hs, []kind{kMap}, b1...)
	add("handshake", "NewMsgQueryReply", "MsgQueryReply", hs, []kind{kMap}, b2...)
	var b3 []build
	for _, ver := range u16s {
		ver := ver
		for _, vd := range []struct {
			d string
			v protocol.VersionData
		}{
			{"ntc9", protocol.VersionDataNtC9to14(764824073)},
			{"ntc15", protocol.VersionDataNtC15andUp{CborNetworkMagic: 1, CborQuery: true}},
			{"ntn7", protocol.VersionDataNtN7to10{CborNetworkMagic: 2, CborInitiatorAndResponderDiffusionMode: true}},
			{"ntn11", protocol.VersionDataNtN11to12{CborNetworkMagic: 0, CborPeerSharing: 2}},
		} {
			vd := vd
			b3 = append(b3, build{desc: fmt.Sprintf("v=%d,%s", ver, vd.d), mk: func() (msg, error) { return ok(handshake.NewMsgAcceptVersion(ver, vd.v)) }})
		}
	}
	add("handshake", "NewMsgAcceptVersion", "MsgAcceptVersion", hs, []kind{kUint, kAny}, b3...)
	add("handshake", "NewMsgRefuse", "MsgRefuse", hs, []kind{kList},
		build{desc: "version-mismatch", mk: func() (msg, error) {
			return ok(handshake.NewMsgRefuse([]any{uint64(0), []any{uint64(13), uint64(14)}}))
		}},
		build{desc: "version-mismatch-empty", mk: func() (msg, error) { return ok(handshake.NewMsgRefuse([]any{uint64(0), []any{}})) }},
		build{desc: "decode-error", mk: func() (msg, error) { return ok(handshake.NewMsgRefuse([]any{uint64(1), uint64(13), "bad"})) }},
		build{desc: "refused", mk: func() (msg, error) { return ok(handshake.NewMsgRefuse([]any{uint64(2), uint64(65535), ""})) }},
	)

	// ================= chain-sync =================
	csN := decodeFn{"chainsync.NewMsgFromCborNtN", chainsync.NewMsgFromCborNtN}
	csC := decodeFn{"chainsync.NewMsgFromCborNtC", chainsync.NewMsgFromCborNtC}
	csBoth := []decodeFn{csN, csC}
	plain("chainsync", "NewMsgRequestNext", "MsgRequestNext", csBoth, func() msg { return chainsync.NewMsgRequestNext() })
	plain("chainsync", "NewMsgAwaitReply", "MsgAwaitReply", csBoth, func() msg { return chainsync.NewMsgAwaitReply() })
	plain("chainsync", "NewMsgDone", "MsgDone", csBoth, func() msg { return chainsync.NewMsgDone() })
	var rb, isf, inf, rfc, rfn []build
	for _, p := range points {
		for _, t := range tips {
			p, t := p, t
			rb = append(rb, build{desc: p.d + "," + t.d, mk: func() (msg, error) { return ok(chainsync.NewMsgRollBackward(p.p, t.t)) }})
			isf = append(isf, build{desc: p.d + "," + t.d, mk: func() (msg, error) { return ok(chainsync.NewMsgIntersectFound(p.p, t.t)) }})
		}
	}
	for _, t := range tips {
		t := t
		inf = append(inf, build{desc: t.d, mk: func() (msg, error) { return ok(chainsync.NewMsgIntersectNotFound(t.t)) }})
		for _, bt := range []uint{0, 1, 7} {
			for _, pl := range payloads {
				bt, pl := bt, pl
				rfc = append(rfc, build{desc: fmt.Sprintf("blockType=%d,block=%s,%s", bt, pl.d, t.d), mk: func() (msg, error) {
					return chainsync.NewMsgRollForwardNtC(bt, pl.b, t.t)
				}})
			}
		}
		// NtN: the constructor takes a block ([header, …]) and wraps its first element
		blk := A(A(U(1), B(h32)), A()).Encode()
		for _, e := range []struct {
			era, byronType uint
		}{{0, 0}, {0, 1}, {1, 0}, {6, 0}} {
			e := e
			rfn = append(rfn, build{desc: fmt.Sprintf("era=%d,byronType=%d,%s", e.era, e.byronType, t.d), mk: func() (msg, error) {
				return chainsync.NewMsgRollForwardNtN(e.era, e.byronType, blk, t.t)
			}})
		}
	}
	add("chainsync", "NewMsgRollBackward", "MsgRollBackward", csBoth, []kind{kPoint, kTip}, rb...)
	add("chainsync", "NewMsgIntersectFound", "MsgIntersectFound", csBoth, []kind{kPoint, kTip}, isf...)
	add("chainsync", "NewMsgIntersectNotFound", "MsgIntersectNotFound", csBoth, []kind{kTip}, inf...)
	add("chainsync", "NewMsgRollForwardNtC", "MsgRollForwardNtC", []decodeFn{csC}, []kind{kTag24, kTip}, rfc...)
	add("chainsync", "NewMsgRollForwardNtN", "MsgRollForwardNtN", []decodeFn{csN}, []kind{kList, kTip}, rfn...)
	var fi []build
	fi = append(fi, build{desc: "no points", mk: func() (msg, error) { return ok(chainsync.NewMsgFindIntersect([]pcommon.Point{})) }})
	for _, p := range points {
		p := p
		fi = append(fi, build{desc: "[" + p.d + "]", mk: func() (msg, error) { return ok(chainsync.NewMsgFindIntersect([]pcommon.Point{p.p})) }})
		for _, q := range points {
			q := q
			fi = append(fi, build{desc: "[" + p.d + "," + q.d + "]", mk: func() (msg, error) { return ok(chainsync.NewMsgFindIntersect([]pcommon.Point{p.p, q.p})) }})
		}
	}
	add("chainsync", "NewMsgFindIntersect", "MsgFindIntersect", csBoth, []kind{kPoints}, fi...)

	// ================= block-fetch =================
	bf := []decodeFn{{"blockfetch.NewMsgFromCbor", blockfetch.NewMsgFromCbor}}
	plain("blockfetch", "NewMsgClientDone", "MsgClientDone", bf, func() msg { return blockfetch.NewMsgClientDone() })
	plain("blockfetch", "NewMsgStartBatch", "MsgStartBatch", bf, func() msg { return blockfetch.NewMsgStartBatch() })
	plain("blockfetch", "NewMsgNoBlocks", "MsgNoBlocks", bf, func() msg { return blockfetch.NewMsgNoBlocks() })
	plain("blockfetch", "NewMsgBatchDone", "MsgBatchDone", bf, func() msg { return blockfetch.NewMsgBatchDone() })
	var rr, lrr []build
	for _, p := range points {
		for _, q := range points {
			p, q := p, q
			rr = append(rr, build{desc: p.d + ".." + q.d, mk: func() (msg, error) { return ok(blockfetch.NewMsgRequestRange(p.p, q.p)) }})
			lrr = append(lrr, build{desc: p.d + ".." + q.d, mk: func() (msg, error) { return ok(leiosfetch.NewMsgBlockRangeRequest(p.p, q.p)) }})
		}
	}
	add("blockfetch", "NewMsgRequestRange", "MsgRequestRange", bf, []kind{kPoint, kPoint}, rr...)
	var bb []build
	for _, pl := range payloads {
		pl := pl
		wrapped := A(U(6), Raw(pl.b)).Encode()
		bb = append(bb, build{desc: "wrapped " + pl.d, mk: func() (msg, error) { return ok(blockfetch.NewMsgBlock(wrapped)) }})
	}
	bb = append(bb, build{desc: "empty bytes", mk: func() (msg, error) { return ok(blockfetch.NewMsgBlock([]byte{})) }})
	add("blockfetch", "NewMsgBlock", "MsgBlock", bf, []kind{kTag24}, bb...)

	// ================= tx-submission =================
	ts := []decodeFn{{"txsubmission.NewMsgFromCbor", txsubmission.NewMsgFromCbor}}
	plain("txsubmission", "NewMsgDone", "MsgDone", ts, func() msg { return txsubmission.NewMsgDone() })
	plain("txsubmission", "NewMsgInit", "MsgInit", ts, func() msg { return txsubmission.NewMsgInit() })
	var rti, rmi []build
	for _, bl := range bools {
		for _, a := range u16s {
			for _, r := range u16s {
				bl, a, r := bl, a, r
				rti = append(rti, build{desc: fmt.Sprintf("%v,%d,%d", bl, a, r), mk: func() (msg, error) { return ok(txsubmission.NewMsgRequestTxIds(bl, a, r)) }})
				rmi = append(rmi, build{desc: fmt.Sprintf("%v,%d,%d", bl, a, r), mk: func() (msg, error) { return ok(messagesubmission.NewMsgRequestMessageIds(bl, a, r)) }})
			}
		}
	}
	add("txsubmission", "NewMsgRequestTxIds", "MsgRequestTxIds", ts, []kind{kBool, kUint, kUint}, rti...)
	mkTxId := func(era uint16, k byte) txsubmission.TxId {
		var t txsubmission.TxId
		t.EraId = era
		copy(t.TxId[:], bytesN(32, k))
		return t
	}
	txidLists := []struct {
		d string
		l []txsubmission.TxId
	}{{"none", []txsubmission.TxId{}}, {"one", []txsubmission.TxId{mkTxId(0, 1)}}, {"two", []txsubmission.TxId{mkTxId(6, 1), mkTxId(math.MaxUint16, 2)}}}
	var rpi, rqt, rpt []build
	for _, l := range txidLists {
		l := l
		rqt = append(rqt, build{desc: l.d, mk: func() (msg, error) { return ok(txsubmission.NewMsgRequestTxs(l.l)) }})
		for _, sz := range u32s {
			sz := sz
			var ids []txsubmission.TxIdAndSize
			for _, id := range l.l {
				ids = append(ids, txsubmission.TxIdAndSize{TxId: id, Size: sz})
			}
			if ids == nil {
				ids = []txsubmission.TxIdAndSize{}
			}
			rpi = append(rpi, build{desc: fmt.Sprintf("%s,size=%d", l.d, sz), mk: func() (msg, error) { return ok(txsubmission.NewMsgReplyTxIds(ids)) }})
		}
		var bodies []txsubmission.TxBody
		for i, id := range l.l {
			bodies = append(bodies, txsubmission.TxBody{EraId: id.EraId, TxBody: payloads[i%len(payloads)].b})
		}
		if bodies == nil {
			bodies = []txsubmission.TxBody{}
		}
		rpt = append(rpt, build{desc: l.d, mk: func() (msg, error) { return ok(txsubmission.NewMsgReplyTxs(bodies)) }})
	}
	add("txsubmission", "NewMsgReplyTxIds", "MsgReplyTxIds", ts, []kind{kList}, rpi...)
	add("txsubmission", "NewMsgRequestTxs", "MsgRequestTxs", ts, []kind{kList}, rqt...)
	add("txsubmission", "NewMsgReplyTxs", "MsgReplyTxs", ts, []kind{kList}, rpt...)

	// ================= keep-alive =================
	ka := []decodeFn{{"keepalive.NewMsgFromCbor", keepalive.NewMsgFromCbor}}
	plain("keepalive", "NewMsgDone", "MsgDone", ka, func() msg { return keepalive.NewMsgDone() })
	var k1, k2 []build
	for _, ck := range append(u16s, 23, 24, 255, 256) {
		ck := ck
		k1 = append(k1, build{desc: fmt.Sprint(ck), mk: func() (msg, error) { return ok(keepalive.NewMsgKeepAlive(ck)) }})
		k2 = append(k2, build{desc: fmt.Sprint(ck), mk: func() (msg, error) { return ok(keepalive.NewMsgKeepAliveResponse(ck)) }})
	}
	add("keepalive", "NewMsgKeepAlive", "MsgKeepAlive", ka, []kind{kUint}, k1...)
	add("keepalive", "NewMsgKeepAliveResponse", "MsgKeepAliveResponse", ka, []kind{kUint}, k2...)

	// ================= peer-sharing =================
	psd := []decodeFn{{"peersharing.NewMsgFromCbor", peersharing.NewMsgFromCbor}}
	plain("peersharing", "NewMsgDone", "MsgDone", psd, func() msg { return peersharing.NewMsgDone() })
	var sr []build
	for _, a := range u8s {
		a := a
		sr = append(sr, build{desc: fmt.Sprint(a), mk: func() (msg, error) { return ok(peersharing.NewMsgShareRequest(a)) }})
	}
	add("peersharing", "NewMsgShareRequest", "MsgShareRequest", psd, []kind{kUint}, sr...)
	v4 := peersharing.PeerAddress{IP: net.IP{1, 2, 3, 4}, Port: 3001}
	v4b := peersharing.PeerAddress{IP: net.IP{255, 0, 0, 255}, Port: math.MaxUint16}
	v6 := peersharing.PeerAddress{IP: net.ParseIP("2001:db8::1"), Port: 0}
	add("peersharing", "NewMsgSharePeers", "MsgSharePeers", psd, []kind{kList},
		build{desc: "none", mk: func() (msg, error) { return ok(peersharing.NewMsgSharePeers([]peersharing.PeerAddress{})) }},
		build{desc: "v4", mk: func() (msg, error) { return ok(peersharing.NewMsgSharePeers([]peersharing.PeerAddress{v4})) }},
		build{desc: "v6", mk: func() (msg, error) { return ok(peersharing.NewMsgSharePeers([]peersharing.PeerAddress{v6})) }},
		build{desc: "v4,v6,v4", mk: func() (msg, error) { return ok(peersharing.NewMsgSharePeers([]peersharing.PeerAddress{v4, v6, v4b})) }},
	)

	// ================= local-tx-submission =================
	ltsd := []decodeFn{{"localtxsubmission.NewMsgFromCbor", lts.NewMsgFromCbor}}
	plain("localtxsubmission", "NewMsgAcceptTx", "MsgAcceptTx", ltsd, func() msg { return lts.NewMsgAcceptTx() })
	plain("localtxsubmission", "NewMsgDone", "MsgDone", ltsd, func() msg { return lts.NewMsgDone() })
	var st, rj []build
	for _, era := range u16s {
		for _, pl := range payloads {
			era, pl := era, pl
			st = append(st, build{desc: fmt.Sprintf("era=%d,tx=%s", era, pl.d), mk: func() (msg, error) { return ok(lts.NewMsgSubmitTx(era, pl.b)) }})
		}
	}
	for _, pl := range payloads {
		pl := pl
		rj = append(rj, build{desc: pl.d, mk: func() (msg, error) { return ok(lts.NewMsgRejectTx(pl.b)) }})
	}
	add("localtxsubmission", "NewMsgSubmitTx", "MsgSubmitTx", ltsd, []kind{kList}, st...)
	add("localtxsubmission", "NewMsgRejectTx", "MsgRejectTx", ltsd, []kind{kAny}, rj...)

	// ================= local-tx-monitor =================
	ltmd := []decodeFn{{"localtxmonitor.NewMsgFromCbor", ltm.NewMsgFromCbor}}
	plain("localtxmonitor", "NewMsgDone", "MsgDone", ltmd, func() msg { return ltm.NewMsgDone() })
	plain("localtxmonitor", "NewMsgAcquire", "MsgAcquire", ltmd, func() msg { return ltm.NewMsgAcquire() })
	plain("localtxmonitor", "NewMsgRelease", "MsgRelease", ltmd, func() msg { return ltm.NewMsgRelease() })
	plain("localtxmonitor", "NewMsgNextTx", "MsgNextTx", ltmd, func() msg { return ltm.NewMsgNextTx() })
	plain("localtxmonitor", "NewMsgGetSizes", "MsgGetSizes", ltmd, func() msg { return ltm.NewMsgGetSizes() })
	var aq, nt, ht, rh, gs []build
	for _, s := range u64s {
		s := s
		aq = append(aq, build{desc: fmt.Sprint(s), mk: func() (msg, error) { return ok(ltm.NewMsgAcquired(s)) }})
	}
	add("localtxmonitor", "NewMsgAcquired", "MsgAcquired", ltmd, []kind{kUint}, aq...)
	nt = append(nt, build{desc: "no tx", mk: func() (msg, error) { return ok(ltm.NewMsgReplyNextTx(0, nil)) }, fields: nil, own: true})
	for _, era := range u8s {
		for _, pl := range payloads {
			era, pl := era, pl
			nt = append(nt, build{desc: fmt.Sprintf("era=%d,tx=%s", era, pl.d), mk: func() (msg, error) { return ok(ltm.NewMsgReplyNextTx(era, pl.b)) }})
		}
	}
	ct := add("localtxmonitor", "NewMsgReplyNextTx", "MsgReplyNextTx", ltmd, []kind{kList}, nt...)
	ct.altArity = []int{1, 2}
	for _, bs := range byteStrings {
		bs := bs
		ht = append(ht, build{desc: bs.d, mk: func() (msg, error) { return ok(ltm.NewMsgHasTx(bs.b)) }})
	}
	add("localtxmonitor", "NewMsgHasTx", "MsgHasTx", ltmd, []kind{kBytes}, ht...)
	for _, bl := range bools {
		bl := bl
		rh = append(rh, build{desc: fmt.Sprint(bl), mk: func() (msg, error) { return ok(ltm.NewMsgReplyHasTx(bl)) }})
	}
	add("localtxmonitor", "NewMsgReplyHasTx", "MsgReplyHasTx", ltmd, []kind{kBool}, rh...)
	for _, a := range u32s {
		for _, b := range u32s {
			for _, n := range u32s {
				a, b, n := a, b, n
				gs = append(gs, build{desc: fmt.Sprintf("%d,%d,%d", a, b, n), mk: func() (msg, error) { return ok(ltm.NewMsgReplyGetSizes(a, b, n)) }})
			}
		}
	}
	add("localtxmonitor", "NewMsgReplyGetSizes", "MsgReplyGetSizes", ltmd, []kind{kList}, gs...)

	// ================= local-state-query =================
	lsqd := []decodeFn{{"localstatequery.NewMsgFromCbor", lsq.NewMsgFromCbor}}
	plain("localstatequery", "NewMsgAcquireVolatileTip", "MsgAcquireVolatileTip", lsqd, func() msg { return lsq.NewMsgAcquireVolatileTip() })
	plain("localstatequery", "NewMsgAcquireImmutableTip", "MsgAcquireImmutableTip", lsqd, func() msg { return lsq.NewMsgAcquireImmutableTip() })
	plain("localstatequery", "NewMsgAcquired", "MsgAcquired", lsqd, func() msg { return lsq.NewMsgAcquired() })
	plain("localstatequery", "NewMsgRelease", "MsgRelease", lsqd, func() msg { return lsq.NewMsgRelease() })
	plain("localstatequery", "NewMsgReAcquireVolatileTip", "MsgReAcquireVolatileTip", lsqd, func() msg { return lsq.NewMsgReAcquireVolatileTip() })
	plain("localstatequery", "NewMsgReAcquireImmutableTip", "MsgReAcquireImmutableTip", lsqd, func() msg { return lsq.NewMsgReAcquireImmutableTip() })
	plain("localstatequery", "NewMsgDone", "MsgDone", lsqd, func() msg { return lsq.NewMsgDone() })
	var la, lr, lf, lres, lq []build
	for _, p := range points {
		p := p
		la = append(la, build{desc: p.d, mk: func() (msg, error) { return ok(lsq.NewMsgAcquire(p.p)) }})
		lr = append(lr, build{desc: p.d, mk: func() (msg, error) { return ok(lsq.NewMsgReAcquire(p.p)) }})
	}
	add("localstatequery", "NewMsgAcquire", "MsgAcquire", lsqd, []kind{kPoint}, la...)
	add("localstatequery", "NewMsgReAcquire", "MsgReAcquire", lsqd, []kind{kPoint}, lr...)
	for _, f := range u8s {
		f := f
		lf = append(lf, build{desc: fmt.Sprint(f), mk: func() (msg, error) { return ok(lsq.NewMsgFailure(f)) }})
	}
	add("localstatequery", "NewMsgFailure", "MsgFailure", lsqd, []kind{kUint}, lf...)
	for _, pl := range payloads {
		pl := pl
		lres = append(lres, build{desc: pl.d, mk: func() (msg, error) { return ok(lsq.NewMsgResult(pl.b)) }})
	}
	add("localstatequery", "NewMsgResult", "MsgResult", lsqd, []kind{kAny}, lres...)
	lq = append(lq,
		build{desc: "system-start", mk: func() (msg, error) {
			q := &lsq.SystemStartQuery{}
			q.Type = lsq.QueryTypeSystemStart
			return ok(lsq.NewMsgQuery(q))
		}},
		build{desc: "chain-point", mk: func() (msg, error) {
			q := &lsq.ChainPointQuery{}
			q.Type = lsq.QueryTypeChainPoint
			return ok(lsq.NewMsgQuery(q))
		}},
		build{desc: "hard-fork current era", mk: func() (msg, error) {
			q := &lsq.HardForkCurrentEraQuery{}
			q.Type = lsq.QueryTypeHardForkCurrentEra
			return ok(lsq.NewMsgQuery(&lsq.BlockQuery{Query: &lsq.HardForkQuery{Query: q}}))
		}},
		build{desc: "shelley epoch-no (conway)", mk: func() (msg, error) {
			q := &lsq.ShelleyEpochNoQuery{}
			q.Type = lsq.QueryTypeShelleyEpochNo
			return ok(lsq.NewMsgQuery(&lsq.BlockQuery{Query: &lsq.ShelleyQuery{Era: 6, Query: q}}))
		}},
	)
	add("localstatequery", "NewMsgQuery", "MsgQuery", lsqd, []kind{kList}, lq...)

	// ================= DMQ: shared values =================
	mkDmq := func(body []byte, kes uint64, exp uint32, computed bool) pcommon.DmqMessage {
		m := pcommon.DmqMessage{
			Payload:      pcommon.DmqMessagePayload{MessageBody: body, KESPeriod: kes, ExpiresAt: exp},
			KESSignature: bytesN(448, 3),
			OperationalCertificate: pcommon.OperationalCertificate{
				KESVerificationKey: bytesN(32, 4), IssueNumber: kes, KESPeriod: kes, ColdSignature: bytesN(64, 5),
			},
			ColdVerificationKey: bytesN(32, 6),
		}
		if computed {
			if err := m.SetComputedMessageID(); err != nil {
				panic(err)
			}
		} else {
			m.SetMessageID(bytesN(32, 7))
		}
		return m
	}
	dmqs := []struct {
		d string
		m pcommon.DmqMessage
	}{
		{"computed-id,empty-body", mkDmq([]byte{}, 0, 0, true)},
		{"computed-id", mkDmq([]byte("hello"), 1, 1, true)},
		{"explicit-id,max", mkDmq(bytesN(40, 9), math.MaxUint64, math.MaxUint32, false)},
	}
	dmqLists := []struct {
		d string
		l []pcommon.DmqMessage
	}{{"none", []pcommon.DmqMessage{}}, {"one", []pcommon.DmqMessage{dmqs[1].m}}, {"three", []pcommon.DmqMessage{dmqs[0].m, dmqs[1].m, dmqs[2].m}}}

	// ================= local-message-notification =================
	lmnd := []decodeFn{{"localmessagenotification.NewMsgFromCbor", lmn.NewMsgFromCbor}}
	plain("localmessagenotification", "NewMsgClientDone", "MsgClientDone", lmnd, func() msg { return lmn.NewMsgClientDone() })
	var n1, n2, n3 []build
	for _, bl := range bools {
		bl := bl
		n1 = append(n1, build{desc: fmt.Sprint(bl), mk: func() (msg, error) { return ok(lmn.NewMsgRequestMessages(bl)) }})
		for _, l := range dmqLists {
			l := l
			n2 = append(n2, build{desc: fmt.Sprintf("%s,%v", l.d, bl), mk: func() (msg, error) { return ok(lmn.NewMsgReplyMessagesNonBlocking(l.l, bl)) }})
		}
	}
	for _, l := range dmqLists {
		l := l
		n3 = append(n3, build{desc: l.d, mk: func() (msg, error) { return ok(lmn.NewMsgReplyMessagesBlocking(l.l)) }})
	}
	add("localmessagenotification", "NewMsgRequestMessages", "MsgRequestMessages", lmnd, []kind{kBool}, n1...)
	add("localmessagenotification", "NewMsgReplyMessagesNonBlocking", "MsgReplyMessagesNonBlocking", lmnd, []kind{kList, kBool}, n2...)
	add("localmessagenotification", "NewMsgReplyMessagesBlocking", "MsgReplyMessagesBlocking", lmnd, []kind{kList}, n3...)

	// ================= local-message-submission =================
	lmsd := []decodeFn{{"localmessagesubmission.NewMsgFromCbor", lms.NewMsgFromCbor}}
	plain("localmessagesubmission", "NewMsgAcceptMessage", "MsgAcceptMessage", lmsd, func() msg { return lms.NewMsgAcceptMessage() })
	plain("localmessagesubmission", "NewMsgDone", "MsgDone", lmsd, func() msg { return lms.NewMsgDone() })
	var s1, s2 []build
	for _, d := range dmqs {
		d := d
		s1 = append(s1, build{desc: d.d, mk: func() (msg, error) { return ok(lms.NewMsgSubmitMessage(d.m)) }})
	}
	add("localmessagesubmission", "NewMsgSubmitMessage", "MsgSubmitMessage", lmsd, []kind{kList}, s1...)
	for _, r := range []struct {
		d string
		r pcommon.RejectReason
	}{
		{"invalid(msg)", pcommon.InvalidReason{Message: "bad signature"}},
		{"invalid(empty)", pcommon.InvalidReason{}},
		{"already-received", pcommon.AlreadyReceivedReason{}},
		{"expired", pcommon.ExpiredReason{}},
		{"other(msg)", pcommon.OtherReason{Message: "x"}},
	} {
		r := r
		s2 = append(s2, build{desc: r.d, mk: func() (msg, error) {
			m, err := lms.NewMsgRejectMessage(r.r)
			if err != nil {
				return nil, err
			}
			return m, nil
		}})
	}
	add("localmessagesubmission", "NewMsgRejectMessage", "MsgRejectMessage", lmsd, []kind{kList}, s2...)

	// ================= message-submission =================
	msd := []decodeFn{{"messagesubmission.NewMsgFromCbor", messagesubmission.NewMsgFromCbor}}
	plain("messagesubmission", "NewMsgInit", "MsgInit", msd, func() msg { return messagesubmission.NewMsgInit() })
	plain("messagesubmission", "NewMsgDone", "MsgDone", msd, func() msg { return messagesubmission.NewMsgDone() })
	add("messagesubmission", "NewMsgRequestMessageIds", "MsgRequestMessageIds", msd, []kind{kBool, kUint, kUint}, rmi...)
	var m1, m2, m3 []build
	for _, sz := range u32s {
		sz := sz
		for _, l := range []struct {
			d string
			l []pcommon.MessageIDAndSize
		}{
			{"none", []pcommon.MessageIDAndSize{}},
			{"one", []pcommon.MessageIDAndSize{{MessageID: bytesN(32, 1), SizeInBytes: sz}}},
			{"two", []pcommon.MessageIDAndSize{{MessageID: bytesN(32, 1), SizeInBytes: sz}, {MessageID: []byte{}, SizeInBytes: 0}}},
		} {
			l := l
			m1 = append(m1, build{desc: fmt.Sprintf("%s,size=%d", l.d, sz), mk: func() (msg, error) { return ok(messagesubmission.NewMsgReplyMessageIds(l.l)) }})
		}
	}
	add("messagesubmission", "NewMsgReplyMessageIds", "MsgReplyMessageIds", msd, []kind{kList}, m1...)
	for _, l := range []struct {
		d string
		l [][]byte
	}{{"none", [][]byte{}}, {"one", [][]byte{bytesN(32, 1)}}, {"two", [][]byte{bytesN(32, 1), {}}}} {
		l := l
		m2 = append(m2, build{desc: l.d, mk: func() (msg, error) { return ok(messagesubmission.NewMsgRequestMessages(l.l)) }})
	}
	add("messagesubmission", "NewMsgRequestMessages", "MsgRequestMessages", msd, []kind{kList}, m2...)
	for _, l := range dmqLists {
		l := l
		m3 = append(m3, build{desc: l.d, mk: func() (msg, error) { return ok(messagesubmission.NewMsgReplyMessages(l.l)) }})
	}
	add("messagesubmission", "NewMsgReplyMessages", "MsgReplyMessages", msd, []kind{kList}, m3...)

	// ================= leios-fetch =================
	lfd := []decodeFn{{"leiosfetch.NewMsgFromCbor", leiosfetch.NewMsgFromCbor}}
	plain("leiosfetch", "NewMsgDone", "MsgDone", lfd, func() msg { return leiosfetch.NewMsgDone() })
	plain("leiosfetch", "NewMsgNoBlock", "MsgNoBlock", lfd, func() msg { return leiosfetch.NewMsgNoBlock() })
	plain("leiosfetch", "NewMsgNoBlockTxs", "MsgNoBlockTxs", lfd, func() msg { return leiosfetch.NewMsgNoBlockTxs() })
	add("leiosfetch", "NewMsgBlockRangeRequest", "MsgBlockRangeRequest", lfd, []kind{kPoint, kPoint}, lrr...)
	rawLists := []struct {
		d string
		l []cbor.RawMessage
	}{{"none", []cbor.RawMessage{}}, {"one", []cbor.RawMessage{payloads[0].b}}, {"three", []cbor.RawMessage{payloads[0].b, payloads[1].b, payloads[2].b}}}
	bitmaps := []struct {
		d string
		m map[uint16]uint64
	}{{"empty", map[uint16]uint64{}}, {"one", map[uint16]uint64{0: 1}}, {"two", map[uint16]uint64{0: math.MaxUint64, math.MaxUint16: 0}}}
	var f1, f2, f3, f4, f5, f6, f7, f8, f9 []build
	for _, p := range points {
		p := p
		f1 = append(f1, build{desc: p.d, mk: func() (msg, error) { return ok(leiosfetch.NewMsgBlockRequest(p.p)) }})
		for _, bm := range bitmaps {
			bm := bm
			f3 = append(f3, build{desc: p.d + "," + bm.d, mk: func() (msg, error) { return ok(leiosfetch.NewMsgBlockTxsRequest(p.p, bm.m)) }})
			for _, l := range rawLists {
				l := l
				f5 = append(f5, build{desc: p.d + "," + bm.d + "," + l.d, mk: func() (msg, error) { return ok(leiosfetch.NewMsgBlockTxsFull(p.p, bm.m, l.l)) }})
			}
		}
	}
	for _, pl := range payloads {
		pl := pl
		f2 = append(f2, build{desc: pl.d, mk: func() (msg, error) { return ok(leiosfetch.NewMsgBlock(pl.b)) }})
		for _, l := range rawLists {
			l := l
			f8 = append(f8, build{desc: pl.d + "," + l.d, mk: func() (msg, error) { return ok(leiosfetch.NewMsgNextBlockAndTxsInRange(pl.b, l.l)) }})
			f9 = append(f9, build{desc: pl.d + "," + l.d, mk: func() (msg, error) { return ok(leiosfetch.NewMsgLastBlockAndTxsInRange(pl.b, l.l)) }})
		}
	}
	for _, l := range rawLists {
		l := l
		f4 = append(f4, build{desc: l.d, mk: func() (msg, error) { return ok(leiosfetch.NewMsgBlockTxs(l.l)) }})
		f7 = append(f7, build{desc: l.d, mk: func() (msg, error) { return ok(leiosfetch.NewMsgVotes(l.l)) }})
	}
	add("leiosfetch", "NewMsgBlockRequest", "MsgBlockRequest", lfd, []kind{kPoint}, f1...)
	add("leiosfetch", "NewMsgBlock", "MsgBlock", lfd, []kind{kAny}, f2...)
	add("leiosfetch", "NewMsgBlockTxsRequest", "MsgBlockTxsRequest", lfd, []kind{kPoint, kMap}, f3...)
	c4 := add("leiosfetch", "NewMsgBlockTxs", "MsgBlockTxs", lfd, []kind{kList}, f4...)
	c4.altArity = []int{2, 4}
	c5 := add("leiosfetch", "NewMsgBlockTxsFull", "MsgBlockTxs", lfd, []kind{kPoint, kMap, kList}, f5...)
	c5.altArity = []int{2, 4}
	voteIds := []struct {
		d string
		l []lcommon.LeiosVoteId
	}{{"none", []lcommon.LeiosVoteId{}}, {"one", []lcommon.LeiosVoteId{{SlotNo: 0, VoterId: 0}}}, {"two", []lcommon.LeiosVoteId{{SlotNo: math.MaxUint64, VoterId: 1}, {SlotNo: 1, VoterId: math.MaxUint64}}}}
	for _, v := range voteIds {
		v := v
		f6 = append(f6, build{desc: v.d, mk: func() (msg, error) { return ok(leiosfetch.NewMsgVotesRequest(v.l)) }})
	}
	add("leiosfetch", "NewMsgVotesRequest", "MsgVotesRequest", lfd, []kind{kList}, f6...)
	add("leiosfetch", "NewMsgVotes", "MsgVotes", lfd, []kind{kList}, f7...)
	mkVote := func(slot, voter uint64, k byte) lcommon.LeiosVote {
		var v lcommon.LeiosVote
		v.SlotNo, v.VoterId = slot, voter
		copy(v.EndorserBlockHash[:], bytesN(32, k))
		v.VoteSignature = bytesN(lcommon.LeiosBlsSignatureSize, k+1)
		return v
	}
	voteLists := []struct {
		d string
		l []lcommon.LeiosVote
	}{{"none", []lcommon.LeiosVote{}}, {"one", []lcommon.LeiosVote{mkVote(0, 0, 1)}}, {"two", []lcommon.LeiosVote{mkVote(math.MaxUint64, 1, 2), mkVote(1, math.MaxUint64, 3)}}}
	var fv []build
	for _, l := range voteLists {
		l := l
		fv = append(fv, build{desc: l.d, mk: func() (msg, error) {
			m, err := leiosfetch.NewMsgVotesFromVotes(l.l)
			if err != nil {
				return nil, err
			}
			return m, nil
		}})
	}
	add("leiosfetch", "NewMsgVotesFromVotes", "MsgVotes", lfd, []kind{kList}, fv...)
	add("leiosfetch", "NewMsgNextBlockAndTxsInRange", "MsgNextBlockAndTxsInRange", lfd, []kind{kAny, kList}, f8...)
	add("leiosfetch", "NewMsgLastBlockAndTxsInRange", "MsgLastBlockAndTxsInRange", lfd, []kind{kAny, kList}, f9...)

	// ================= leios-notify =================
	lnd := []decodeFn{{"leiosnotify.NewMsgFromCbor", leiosnotify.NewMsgFromCbor}}
	plain("leiosnotify", "NewMsgNotificationRequestNext", "MsgNotificationRequestNext", lnd, func() msg { return leiosnotify.NewMsgNotificationRequestNext() })
	plain("leiosnotify", "NewMsgDone", "MsgDone", lnd, func() msg { return leiosnotify.NewMsgDone() })
	var g1, g2, g3, g4, g5, g6 []build
	for _, pl := range payloads {
		pl := pl
		g1 = append(g1, build{desc: pl.d, mk: func() (msg, error) { return ok(leiosnotify.NewMsgBlockAnnouncement(pl.b)) }})
	}
	for _, p := range points {
		p := p
		g3 = append(g3, build{desc: p.d, mk: func() (msg, error) { return ok(leiosnotify.NewMsgBlockTxsOffer(p.p)) }})
		for _, sz := range u64s {
			sz := sz
			g2 = append(g2, build{desc: fmt.Sprintf("%s,%d", p.d, sz), mk: func() (msg, error) { return ok(leiosnotify.NewMsgBlockOffer(p.p, sz)) }})
		}
	}
	for _, v := range voteIds {
		v := v
		g4 = append(g4, build{desc: v.d, mk: func() (msg, error) { return ok(leiosnotify.NewMsgVotesOffer(v.l)) }})
	}
	for _, l := range voteLists[1:] {
		l := l
		g5 = append(g5, build{desc: l.d, mk: func() (msg, error) { return ok(leiosnotify.NewMsgVotesOfferFull(l.l)) }})
	}
	mkProto := func(voter uint64, k byte) lcommon.LeiosPrototypeVote {
		var v lcommon.LeiosPrototypeVote
		copy(v.AnnouncingRbHash[:], bytesN(32, k))
		v.VoterId = voter
		v.VoteSignature = bytesN(lcommon.LeiosBlsSignatureSize, k+1)
		return v
	}
	for _, l := range []struct {
		d string
		l []lcommon.LeiosPrototypeVote
	}{{"one", []lcommon.LeiosPrototypeVote{mkProto(0, 1)}}, {"two", []lcommon.LeiosPrototypeVote{mkProto(1, 2), mkProto(math.MaxUint64, 3)}}} {
		l := l
		g6 = append(g6, build{desc: l.d, mk: func() (msg, error) { return ok(leiosnotify.NewMsgVotesOfferPrototype(l.l)) }})
	}
	add("leiosnotify", "NewMsgBlockAnnouncement", "MsgBlockAnnouncement", lnd, []kind{kAny}, g1...)
	add("leiosnotify", "NewMsgBlockOffer", "MsgBlockOffer", lnd, []kind{kPoint, kUint}, g2...)
	add("leiosnotify", "NewMsgBlockTxsOffer", "MsgBlockTxsOffer", lnd, []kind{kPoint}, g3...)
	add("leiosnotify", "NewMsgVotesOffer", "MsgVotesOffer", lnd, []kind{kList}, g4...)
	add("leiosnotify", "NewMsgVotesOfferFull", "MsgVotesOffer", lnd, []kind{kList}, g5...)
	add("leiosnotify", "NewMsgVotesOfferPrototype", "MsgVotesOffer", lnd, []kind{kList}, g6...)

	// ================= leios-votes =================
	lvd := []decodeFn{{"leiosvotes.NewMsgFromCbor", leiosvotes.NewMsgFromCbor}}
	plain("leiosvotes", "NewMsgDone", "MsgDone", lvd, func() msg { return leiosvotes.NewMsgDone() })
	var v1, v2 []build
	for _, n := range u64s {
		n := n
		v1 = append(v1, build{desc: fmt.Sprint(n), mk: func() (msg, error) { return ok(leiosvotes.NewMsgVotesRequestNext(n)) }})
	}
	add("leiosvotes", "NewMsgVotesRequestNext", "MsgVotesRequestNext", lvd, []kind{kUint}, v1...)
	for i, v := range []lcommon.LeiosVote{mkVote(0, 0, 1), mkVote(math.MaxUint64, math.MaxUint64, 2)} {
		v := v
		v2 = append(v2, build{desc: fmt.Sprintf("vote%d", i), mk: func() (msg, error) { return ok(leiosvotes.NewMsgVote(v)) }})
	}
	add("leiosvotes", "NewMsgVote", "MsgVote", lvd, []kind{kList}, v2...)

	// ================= nil (as opposed to empty) slice / map arguments =================
	// A nil argument is a different Go value from an empty one and some constructors/encoders
	// branch on it; these instances carry the key class "nil-arg".
	p0 := points[1].p // (0,h): non-origin
	nilArg := func(proto, name string, desc string, mk func() (msg, error)) {
		for _, ct := range ctors {
			if ct.proto == proto && ct.name == name {
				ct.builds = append(ct.builds, build{desc: desc, mk: mk, kclass: "nil-arg"})
				return
			}
		}
		panic("nilArg: unknown constructor " + proto + "." + name)
	}
	nilArg("chainsync", "NewMsgFindIntersect", "nil points", func() (msg, error) { return ok(chainsync.NewMsgFindIntersect(nil)) })
	nilArg("handshake", "NewMsgProposeVersions", "nil map", func() (msg, error) { return ok(handshake.NewMsgProposeVersions(nil)) })
	nilArg("handshake", "NewMsgQueryReply", "nil map", func() (msg, error) { return ok(handshake.NewMsgQueryReply(nil)) })
	nilArg("handshake", "NewMsgRefuse", "nil reason", func() (msg, error) { return ok(handshake.NewMsgRefuse(nil)) })
	nilArg("blockfetch", "NewMsgBlock", "nil bytes", func() (msg, error) { return ok(blockfetch.NewMsgBlock(nil)) })
	nilArg("txsubmission", "NewMsgReplyTxIds", "nil", func() (msg, error) { return ok(txsubmission.NewMsgReplyTxIds(nil)) })
	nilArg("txsubmission", "NewMsgRequestTxs", "nil", func() (msg, error) { return ok(txsubmission.NewMsgRequestTxs(nil)) })
	nilArg("txsubmission", "NewMsgReplyTxs", "nil", func() (msg, error) { return ok(txsubmission.NewMsgReplyTxs(nil)) })
	nilArg("peersharing", "NewMsgSharePeers", "nil", func() (msg, error) { return ok(peersharing.NewMsgSharePeers(nil)) })
	nilArg("localtxmonitor", "NewMsgHasTx", "nil", func() (msg, error) { return ok(ltm.NewMsgHasTx(nil)) })
	nilArg("localtxsubmission", "NewMsgSubmitTx", "era=1,nil tx", func() (msg, error) { return ok(lts.NewMsgSubmitTx(1, nil)) })
	nilArg("localmessagenotification", "NewMsgReplyMessagesNonBlocking", "nil,true", func() (msg, error) { return ok(lmn.NewMsgReplyMessagesNonBlocking(nil, true)) })
	nilArg("localmessagenotification", "NewMsgReplyMessagesBlocking", "nil", func() (msg, error) { return ok(lmn.NewMsgReplyMessagesBlocking(nil)) })
	nilArg("messagesubmission", "NewMsgReplyMessageIds", "nil", func() (msg, error) { return ok(messagesubmission.NewMsgReplyMessageIds(nil)) })
	nilArg("messagesubmission", "NewMsgRequestMessages", "nil", func() (msg, error) { return ok(messagesubmission.NewMsgRequestMessages(nil)) })
	nilArg("messagesubmission", "NewMsgReplyMessages", "nil", func() (msg, error) { return ok(messagesubmission.NewMsgReplyMessages(nil)) })
	nilArg("leiosfetch", "NewMsgBlockTxsRequest", "(0,h),nil bitmaps", func() (msg, error) { return ok(leiosfetch.NewMsgBlockTxsRequest(p0, nil)) })
	nilArg("leiosfetch", "NewMsgBlockTxs", "nil", func() (msg, error) { return ok(leiosfetch.NewMsgBlockTxs(nil)) })
	nilArg("leiosfetch", "NewMsgBlockTxsFull", "origin,nil bitmaps,one", func() (msg, error) {
		return ok(leiosfetch.NewMsgBlockTxsFull(pcommon.NewPointOrigin(), nil, rawLists[1].l))
	})
	nilArg("leiosfetch", "NewMsgBlockTxsFull", "(0,h),nil bitmaps,one", func() (msg, error) { return ok(leiosfetch.NewMsgBlockTxsFull(p0, nil, rawLists[1].l)) })
	nilArg("leiosfetch", "NewMsgBlockTxsFull", "(0,h),one,nil txs", func() (msg, error) { return ok(leiosfetch.NewMsgBlockTxsFull(p0, bitmaps[1].m, nil)) })
	nilArg("leiosfetch", "NewMsgVotesRequest", "nil", func() (msg, error) { return ok(leiosfetch.NewMsgVotesRequest(nil)) })
	nilArg("leiosfetch", "NewMsgVotes", "nil", func() (msg, error) { return ok(leiosfetch.NewMsgVotes(nil)) })
	nilArg("leiosfetch", "NewMsgVotesFromVotes", "nil", func() (msg, error) {
		m, err := leiosfetch.NewMsgVotesFromVotes(nil)
		if err != nil {
			return nil, err
		}
		return m, nil
	})
	nilArg("leiosfetch", "NewMsgNextBlockAndTxsInRange", "uint,nil txs", func() (msg, error) { return ok(leiosfetch.NewMsgNextBlockAndTxsInRange(payloads[0].b, nil)) })
	nilArg("leiosfetch", "NewMsgLastBlockAndTxsInRange", "uint,nil txs", func() (msg, error) { return ok(leiosfetch.NewMsgLastBlockAndTxsInRange(payloads[0].b, nil)) })
	nilArg("leiosnotify", "NewMsgVotesOffer", "nil", func() (msg, error) { return ok(leiosnotify.NewMsgVotesOffer(nil)) })
	nilArg("leiosnotify", "NewMsgVotesOfferFull", "nil", func() (msg, error) { return ok(leiosnotify.NewMsgVotesOfferFull(nil)) })
	nilArg("leiosnotify", "NewMsgVotesOfferPrototype", "nil", func() (msg, error) { return ok(leiosnotify.NewMsgVotesOfferPrototype(nil)) })
	// empty but non-nil transaction in the local-tx-monitor reply (the encoder branches on Tx != nil)
	for _, ct := range ctors {
		if ct.proto == "localtxmonitor" && ct.name == "NewMsgReplyNextTx" {
			ct.builds = append(ct.builds, build{desc: "era=1,empty non-nil tx", mk: func() (msg, error) { return ok(ltm.NewMsgReplyNextTx(1, []byte{})) }})
		}
	}
}
