#!/bin/bash
here="$(cd "$(dirname "$0")/../.." && pwd)"
exec "$here/bin/e1check" C11 c11 TestC11 ./muxer ./protocol/... -- "$@"
