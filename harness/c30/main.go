// C30: the minimum fee and the size limit use the transaction's real (original) size.
//
// Space: config (7 eras; Dijkstra with 3- and 4-element envelope) x original encoding (canonical;
// fee forced to the 8-byte integer form; every single header-form change at every header of the
// transaction - space.Sites/AltForms, d=1; thorough: also every pair of changes among container
// headers, d=2) x (a,b) in {(0,0),(44,155381),(2^32,2^32),(2^63,1),(2^64-1,2^64-1)} x fee in
// {min-1,min,min+1} (overflowing minimum: {0, 2^64-1, wrapped, wrapped+-1}); and for the size
// limit maxTxSize in {L-2,L-1,L,L+1} around the original length L.
// Oracle: min = a*size+b in big integers, size = len(original bytes) - 1 for a 4-element envelope;
// the fee rule may accept only if fee >= min; MinFeeTx must not under-state min and must return an
// error when min does not fit 64 bits; the size rule accepts iff L <= maxTxSize (L-1 = maxTxSize is
// left open for the 4-element envelope).
package main

import (
	"crypto/ed25519"
	"encoding/json"
	"fmt"
	"math/big"
	"os"
	"sync/atomic"
	"time"

	"github.com/blinklabs-io/gouroboros/ledger/allegra"
	"github.com/blinklabs-io/gouroboros/ledger/alonzo"
	"github.com/blinklabs-io/gouroboros/ledger/babbage"
	"github.com/blinklabs-io/gouroboros/ledger/common"
	"github.com/blinklabs-io/gouroboros/ledger/conway"
	"github.com/blinklabs-io/gouroboros/ledger/dijkstra"
	"github.com/blinklabs-io/gouroboros/ledger/mary"
	"github.com/blinklabs-io/gouroboros/ledger/shelley"
	"verif/space"
	"verif/vlib"
)

type cfg struct {
	Era  int  `json:"era"`
	Env3 bool `json:"envelope3"` // Dijkstra 3-element envelope
}

func (g cfg) name() string {
	n := 3
	if g.Era >= EraAlonzo && !g.Env3 {
		n = 4
	}
	return fmt.Sprintf("era=%s,envelope=%d", EraNames[g.Era], n)
}
func (g cfg) four() bool { return g.Era >= EraAlonzo && !g.Env3 }

type fns struct {
	fee, max common.UtxoValidationRuleFunc
	minFee   func(common.Transaction, common.ProtocolParameters) (uint64, error)
}

func eraFns(era int) fns {
	switch era {
	case EraShelley:
		return fns{shelley.UtxoValidateFeeTooSmallUtxo, shelley.UtxoValidateMaxTxSizeUtxo, shelley.MinFeeTx}
	case EraAllegra:
		return fns{allegra.UtxoValidateFeeTooSmallUtxo, allegra.UtxoValidateMaxTxSizeUtxo, shelley.MinFeeTx}
	case EraMary:
		return fns{mary.UtxoValidateFeeTooSmallUtxo, mary.UtxoValidateMaxTxSizeUtxo, mary.MinFeeTx}
	case EraAlonzo:
		return fns{alonzo.UtxoValidateFeeTooSmallUtxo, alonzo.UtxoValidateMaxTxSizeUtxo, alonzo.MinFeeTx}
	case EraBabbage:
		return fns{babbage.UtxoValidateFeeTooSmallUtxo, babbage.UtxoValidateMaxTxSizeUtxo, babbage.MinFeeTx}
	case EraConway:
		return fns{conway.UtxoValidateFeeTooSmallUtxo, conway.UtxoValidateMaxTxSizeUtxo, conway.MinFeeTx}
	}
	return fns{dijkstra.UtxoValidateFeeTooSmallUtxo, dijkstra.UtxoValidateMaxTxSizeUtxo, dijkstra.MinFeeTx}
}

// one re-encoding: up to two (site index, form) changes; site index -1 = none
type reenc struct {
	S1, F1, S2, F2 int
}

type fcase struct {
	G     cfg    `json:"cfg"`
	R     reenc  `json:"reenc"`
	Canon bool   `json:"canonical_fee"` // fee in its shortest form (only with R = none)
	A     uint64 `json:"a"`
	B     uint64 `json:"b"`
	Kind  string `json:"kind"` // "fee" or "maxsize"
}

var two64 = new(big.Int).Lsh(big.NewInt(1), 64)

func bu(v uint64) *big.Int { return new(big.Int).SetUint64(v) }

type world struct {
	key  Key
	seed int64
}

// tree builds the transaction tree of a config with fee placeholder in 8-byte form and returns
// the fee node and the re-encoding sites (fee node excluded).
func (w world) tree(g cfg) (*space.Node, *space.Node, []space.Site) {
	in := MkIn(int(w.seed)+1, 0)
	r := &TxRec{Era: g.Era, Inputs: []In{in}, Outputs: []Out{{Addr: EnterpriseAddr(w.key), Coin: 0}, {Addr: EnterpriseAddr(w.key), Coin: 0}},
		Fee: 0, TTL: U64(1 << 40), Signers: []Key{w.key}, Envelope3: g.Env3}
	tx := r.TxNode()
	fee := tx.Items[0].MapGetUint(2)
	fee.Form = space.Form8
	sites := space.Sites(tx, func(n *space.Node, _ []int) bool { return n != fee })
	return tx, fee, sites
}

func resign(tx *space.Node, k Key) {
	bh := h256(tx.Items[0].Encode())
	ws := tx.Items[1].MapGetUint(0)
	for _, wn := range ws.Items {
		wn.Items[1].Bytes = ed25519.Sign(k.Priv, bh[:])
	}
}

func widthOf(v uint64) int {
	switch {
	case v < 24:
		return 0
	case v <= 0xff:
		return 1
	case v <= 0xffff:
		return 2
	case v <= 0xffffffff:
		return 4
	}
	return 8
}

type obs struct {
	Fee       string   `json:"fee"`
	L         int      `json:"original_length"`
	Min       string   `json:"exact_min"`
	DecodeErr string   `json:"decode_error,omitempty"`
	DirectAcc bool     `json:"fee_rule_accepts"`
	DirectErr string   `json:"fee_rule_error,omitempty"`
	ListAcc   bool     `json:"list_accepts"`
	ListRej   []string `json:"list_rejections,omitempty"`
	FullAcc   bool     `json:"VerifyTransaction_accepts"`
	MinFeeVal uint64   `json:"MinFeeTx_value"`
	MinFeeErr string   `json:"MinFeeTx_error,omitempty"`
	Cbor      string   `json:"tx_cbor"`
	MaxTxSize uint64   `json:"max_tx_size,omitempty"`
	feeBig    *big.Int
	minBig    *big.Int
	desc, cls string
	overflow  string
	envHdr    string // form of the outer (envelope) array header
}

func applyReenc(sites []space.Site, r reenc) (string, string) {
	desc, cls := "none", "none"
	ap := func(si, f int) (string, string) {
		s := sites[si]
		s.Node.Form = f
		return fmt.Sprintf("%v:%d->%s", s.Path, s.Node.Major, space.FormNames[f]), fmt.Sprintf("m%d->%s@d%d", s.Node.Major, space.FormNames[f], len(s.Path))
	}
	if r.S1 >= 0 {
		desc, cls = ap(r.S1, r.F1)
	}
	if r.S2 >= 0 {
		d, c := ap(r.S2, r.F2)
		desc, cls = desc+"+"+d, cls+"+"+c
	}
	return desc, cls
}

func main() {
	c := vlib.New("C30", "exploration")
	w := world{NewKey(c.Seed, 1), c.Seed}
	cfgs := []cfg{{EraShelley, false}, {EraAllegra, false}, {EraMary, false}, {EraAlonzo, false}, {EraBabbage, false}, {EraConway, false}, {EraDijkstra, false}, {EraDijkstra, true}}
	// (1, 2^63) and (2^56, 0) put a*size+b into [2^63, 2^64) without overflow (sizes here are 225..260 bytes)
	abs := [][2]uint64{{0, 0}, {44, 155381}, {1 << 32, 1 << 32}, {1, 1 << 63}, {1 << 56, 0}, {1 << 63, 1}, {^uint64(0), ^uint64(0)}}
	if c.Thorough() {
		abs = append(abs, [2]uint64{1, ^uint64(0)}, [2]uint64{0, 1 << 63}, [2]uint64{44, 1<<63 + 12345}, [2]uint64{0, ^uint64(0)}, [2]uint64{1<<64/400 + 1, 5})
	}
	var cases []fcase
	none := reenc{-1, 0, -1, 0}
	for _, g := range cfgs {
		_, _, sites := w.tree(g)
		var res []reenc
		res = append(res, none)
		for si, s := range sites {
			for _, f := range s.Alts {
				res = append(res, reenc{si, f, -1, 0})
			}
		}
		if c.Thorough() {
			// d=2 over container headers (arrays, maps, tags)
			for i, a := range sites {
				if a.Node.Major < 4 || a.Node.Major > 6 {
					continue
				}
				for j := i + 1; j < len(sites); j++ {
					b := sites[j]
					if b.Node.Major < 4 || b.Node.Major > 6 {
						continue
					}
					for _, fa := range a.Alts {
						for _, fb := range b.Alts {
							res = append(res, reenc{i, fa, j, fb})
						}
					}
				}
			}
		}
		for _, r := range res {
			for _, ab := range abs {
				cases = append(cases, fcase{g, r, false, ab[0], ab[1], "fee"})
				if r == none {
					cases = append(cases, fcase{g, r, true, ab[0], ab[1], "fee"})
				}
			}
			cases = append(cases, fcase{g, r, false, 0, 0, "maxsize"})
			if r == none {
				cases = append(cases, fcase{g, r, true, 0, 0, "maxsize"})
			}
		}
	}
	if c.Replay != "" {
		var f struct{ Replay struct{ Case fcase } }
		b, err := os.ReadFile(c.Replay)
		if err == nil {
			err = json.Unmarshal(b, &f)
		}
		if err != nil {
			c.Internal("replay: %v", err)
		}
		cases = []fcase{f.Replay.Case}
	}

	run := func(tc fcase) []obs {
		g := tc.G
		tx, feeNode, sites := w.tree(g)
		desc, cls := applyReenc(sites, tc.R)
		envHdr := "minimal"
		switch tx.Form {
		case space.Form1, space.Form2, space.Form4, space.Form8:
			envHdr = "non-minimal-definite"
		case space.FormIndef:
			envHdr = "indefinite"
		}
		fn := eraFns(g.Era)
		in := MkIn(int(w.seed)+1, 0)
		// evaluate one fully specified transaction
		eval := func(fee uint64, form int, a, b, maxSize uint64) obs {
			feeNode.Arg, feeNode.Form = fee, form
			resign(tx, w.key)
			raw := tx.Encode()
			o := obs{Fee: fmt.Sprint(fee), L: len(raw), Cbor: fmt.Sprintf("%x", raw), feeBig: bu(fee), desc: desc, cls: cls, MaxTxSize: maxSize, envHdr: envHdr}
			dtx, err := decode(g.Era, raw)
			if err != nil {
				o.DecodeErr = err.Error()
				return o
			}
			ls := NewStub()
			if err := ls.AddUtxo(g.Era, in, Out{Addr: EnterpriseAddr(w.key), Coin: fee}); err != nil {
				o.DecodeErr = "utxo: " + err.Error()
				return o
			}
			p := NeutralPP()
			p.MinFeeA, p.MinFeeB = a, b
			if maxSize != 0 {
				p.MaxTxSize = maxSize
			}
			pp := MakePP(g.Era, p)
			ppBase := MakePP(g.Era, NeutralPP())
			rule := fn.fee
			if tc.Kind == "maxsize" {
				rule = fn.max
			}
			func() {
				defer func() {
					if p := recover(); p != nil {
						o.DirectErr = fmt.Sprintf("panic: %v", p)
					}
				}()
				if e := rule(dtx, 100, ls, pp); e != nil {
					o.DirectErr = errStr(e)
				}
			}()
			o.DirectAcc = o.DirectErr == ""
			func() {
				defer func() {
					if p := recover(); p != nil {
						o.MinFeeErr = fmt.Sprintf("panic: %v", p)
					}
				}()
				v, e := fn.minFee(dtx, pp)
				o.MinFeeVal = v
				if e != nil {
					o.MinFeeErr = errStr(e)
				}
			}()
			attr := Attributable(RunList(Rules(g.Era), dtx, 100, ls, pp), RunList(Rules(g.Era), dtx, 100, ls, ppBase))
			o.ListAcc = len(attr) == 0
			o.ListRej = names(attr)
			o.FullAcc = Verify(g.Era, dtx, 100, ls, pp) == nil
			return o
		}
		sizeOf := func(form int, fee uint64) int {
			feeNode.Arg, feeNode.Form = fee, form
			return len(tx.Encode())
		}
		var out []obs
		if tc.Kind == "maxsize" {
			form := space.Form8
			if tc.Canon {
				form = space.FormMin
			}
			L := sizeOf(form, 0)
			for _, m := range []int{L - 2, L - 1, L, L + 1} {
				o := eval(0, form, 0, 0, uint64(m))
				out = append(out, o)
			}
			return out
		}
		minFor := func(L int) *big.Int {
			size := L
			if g.four() {
				size--
			}
			m := new(big.Int).Mul(bu(tc.A), big.NewInt(int64(size)))
			return m.Add(m, bu(tc.B))
		}
		ovf := func(L int) string {
			size := L
			if g.four() {
				size--
			}
			if new(big.Int).Mul(bu(tc.A), big.NewInt(int64(size))).Cmp(two64) >= 0 {
				return "a*size-overflows"
			}
			if minFor(L).Cmp(two64) >= 0 {
				return "+b-overflows"
			}
			return "no-overflow"
		}
		if !tc.Canon {
			L := sizeOf(space.Form8, 0)
			min := minFor(L)
			var fees []uint64
			if min.Cmp(two64) < 0 {
				m := min.Uint64()
				if m >= 1<<63 {
					// minimum in [2^63, 2^64): also the fees a sign-wrapped minimum would let through
					fees = append(fees, 0, 1)
				}
				if m > 0 {
					fees = append(fees, m-1)
				}
				fees = append(fees, m)
				if m < ^uint64(0) {
					fees = append(fees, m+1)
				}
			} else {
				wr := new(big.Int).Mod(min, two64).Uint64()
				seen := map[uint64]bool{}
				for _, f := range []uint64{0, wr - 1, wr, wr + 1, ^uint64(0)} {
					if !seen[f] {
						seen[f] = true
						fees = append(fees, f)
					}
				}
			}
			for _, f := range fees {
				o := eval(f, space.Form8, tc.A, tc.B, 0)
				o.minBig, o.Min, o.overflow = min, min.String(), ovf(L)
				out = append(out, o)
			}
			return out
		}
		// canonical fee: the fee's own width changes the size, look for consistent (width, delta)
		for _, delta := range []int64{-1, 0, 1} {
			for _, wd := range []int{0, 1, 2, 4, 8} {
				probe := map[int]uint64{0: 0, 1: 24, 2: 256, 4: 65536, 8: 1 << 32}[wd]
				L := sizeOf(space.FormMin, probe)
				min := minFor(L)
				f := new(big.Int).Add(min, big.NewInt(delta))
				if f.Sign() < 0 || f.Cmp(two64) >= 0 || widthOf(f.Uint64()) != wd {
					continue
				}
				o := eval(f.Uint64(), space.FormMin, tc.A, tc.B, 0)
				o.minBig, o.Min, o.overflow = min, min.String(), ovf(L)
				if o.L != L {
					c.Internal("size bookkeeping")
				}
				out = append(out, o)
			}
		}
		return out
	}

	results := make([][]obs, len(cases))
	deadline := c.Deadline(8*time.Minute, 9*time.Minute)
	var skipped atomic.Int64
	vlib.Parallel(len(cases), func(i int) {
		if time.Now().After(deadline) {
			skipped.Add(1)
			return
		}
		results[i] = run(cases[i])
	})
	if n := skipped.Load(); n > 0 {
		c.NotExhaustive(fmt.Sprintf("internal deadline reached (machine load): %d of %d cases were not evaluated", n, len(cases)))
	}

	decRej := int64(0)
	for i, tc := range cases {
		// key class: base transaction (canonical, or only the fee in 8-byte form) vs a re-encoded one
		origClass := "reencoded"
		if tc.R.S1 < 0 {
			origClass = "base"
		}
		for _, o := range results[i] {
			replay := map[string]any{"case": tc, "config": tc.G.name(), "reenc": o.desc, "observation": o}
			if o.DecodeErr != "" {
				if tc.R.S1 < 0 {
					c.Internal("base transaction of %s does not decode: %s", tc.G.name(), o.DecodeErr)
				}
				decRej++
				c.Eval("", "decoder-rejects-reencoding")
				continue
			}
			if tc.Kind == "maxsize" {
				L, m := o.L, int(o.MaxTxSize)
				wantAcc, open := L <= m, tc.G.four() && L-1 == m
				pos := map[int]string{L - 2: "max=L-2", L - 1: "max=L-1", L: "max=L", L + 1: "max=L+1"}[m]
				outc := fmt.Sprintf("maxsize:%s/rule-accepts=%v/list-accepts=%v", pos, o.DirectAcc, o.ListAcc)
				c.Eval(fmt.Sprintf("maxsize|%s|%s|%s", tc.G.name(), o.cls, pos), outc)
				if open {
					continue
				}
				where := ""
				switch {
				case o.DirectAcc != wantAcc && o.ListAcc != wantAcc:
					where = "rule+list"
				case o.DirectAcc != wantAcc:
					where = "rule-only"
				case o.ListAcc != wantAcc:
					where = "list-only"
				}
				if where != "" {
					c.Violation(fmt.Sprintf("maxsize|%s|%s|orig=%s|%s|accepts=%v", where, tc.G.name(), origClass, pos, !wantAcc),
						fmt.Sprintf("%s: original length %d, maxTxSize %d: expected accept=%v, rule accepts=%v, list accepts=%v (%s)", o.desc, L, m, wantAcc, o.DirectAcc, o.ListAcc, o.DirectErr), replay)
				}
				continue
			}
			below := o.feeBig.Cmp(o.minBig) < 0
			pos := "fee=min"
			switch d := new(big.Int).Sub(o.feeBig, o.minBig); {
			case d.Sign() < 0 && d.Cmp(big.NewInt(-1)) == 0:
				pos = "fee=min-1"
			case d.Sign() < 0:
				pos = "fee<<min"
			case d.Sign() > 0:
				pos = "fee=min+1"
			}
			abc := fmt.Sprintf("a=%d,b=%d", tc.A, tc.B)
			c.Eval(fmt.Sprintf("fee|%s|%s|%s|%s|%s", tc.G.name(), o.cls, origClass, abc, pos),
				fmt.Sprintf("fee:%s/%s/rule-accepts=%v/list-accepts=%v", o.overflow, pos, o.DirectAcc, o.ListAcc))
			if o.FullAcc {
				c.Add("full_VerifyTransaction_accepts", 1)
			}
			if tc.G.Era == EraConway && tc.A == 44 && tc.R.S1 >= 0 && tc.R.S2 < 0 && (tc.R.S1 == 0 || tc.R.S1 == 3) && tc.R.F1 == space.FormIndef || tc.Canon && tc.A == 44 && tc.G.Era == EraShelley || tc.A == 1<<63 && tc.R.S1 < 0 && !tc.Canon && tc.G.Era == EraBabbage && pos == "fee<<min" {
				c.Sample(replay)
			}
			k := fmt.Sprintf("%s|orig=%s|envelope-header=%s|%s", tc.G.name(), origClass, o.envHdr, o.overflow)
			fits := o.minBig.Cmp(two64) < 0
			// the minimum the library computes must equal the reference (the property defines size and minimum)
			minWrong := ""
			switch {
			case !fits && o.MinFeeErr == "":
				minWrong = "overflow-not-reported"
				c.Violation("MinFeeTx|"+k+"|overflow-not-reported", fmt.Sprintf("%s: a*size+b = %s exceeds 64 bits but MinFeeTx returned %d without error", o.desc, o.Min, o.MinFeeVal), replay)
			case !fits:
			case o.MinFeeErr != "":
				minWrong = "error-without-overflow"
				c.Violation("MinFeeTx|"+k+"|error-without-overflow", fmt.Sprintf("%s: a*size+b = %s fits 64 bits but MinFeeTx failed: %s", o.desc, o.Min, o.MinFeeErr), replay)
			case bu(o.MinFeeVal).Cmp(o.minBig) < 0:
				minWrong = "understated"
				c.Violation("MinFeeTx|"+k+"|understated", fmt.Sprintf("%s: MinFeeTx = %d < a*size+b = %s (a=%d b=%d, original length %d)", o.desc, o.MinFeeVal, o.Min, tc.A, tc.B, o.L), replay)
			case bu(o.MinFeeVal).Cmp(o.minBig) > 0:
				minWrong = "overstated"
				c.Violation("MinFeeTx|"+k+"|overstated", fmt.Sprintf("%s: MinFeeTx = %d > a*size+b = %s (a=%d b=%d, original length %d)", o.desc, o.MinFeeVal, o.Min, tc.A, tc.B, o.L), replay)
			}
			where := func(ruleBad, listBad bool) string {
				switch {
				case ruleBad && listBad:
					return "rule+list"
				case ruleBad:
					return "rule-only"
				}
				return "list-only"
			}
			// acceptance: fee < min must be rejected, fee >= min must be accepted (boundary included).
			// A wrong acceptance that merely follows a wrong MinFeeTx value is the same root cause and is
			// not keyed a second time, except when the minimum is right and the comparison is wrong.
			if below && (o.DirectAcc || o.ListAcc) && minWrong != "understated" && minWrong != "overflow-not-reported" {
				c.Violation("minfee|"+where(o.DirectAcc, o.ListAcc)+"|"+k+"|accepted-below-min", fmt.Sprintf("%s: fee %s < a*size+b = %s (a=%d b=%d, original length %d) accepted although MinFeeTx does not under-state the minimum (MinFeeTx=%d; fee rule accepts=%v, rule list accepts=%v)", o.desc, o.Fee, o.Min, tc.A, tc.B, o.L, o.MinFeeVal, o.DirectAcc, o.ListAcc), replay)
			} else if below && (o.DirectAcc || o.ListAcc) {
				c.Add("accepted_below_min_following_a_wrong_MinFeeTx(keyed_once)", 1)
			}
			if !below && (!o.DirectAcc || !o.ListAcc) && minWrong != "overstated" && minWrong != "error-without-overflow" {
				c.Violation("minfee|"+where(!o.DirectAcc, !o.ListAcc)+"|"+k+"|rejected-at-or-above-min", fmt.Sprintf("%s: fee %s >= a*size+b = %s (a=%d b=%d, original length %d) rejected (fee rule: %q; list: %v)", o.desc, o.Fee, o.Min, tc.A, tc.B, o.L, o.DirectErr, o.ListRej), replay)
			} else if !below && (!o.DirectAcc || !o.ListAcc) {
				c.Add("rejected_at_or_above_min_following_a_wrong_MinFeeTx(keyed_once)", 1)
			}
		}
	}
	c.Set("reencodings_rejected_by_decoder(skipped)", decRej)
	c.Set("rule", "config x original encoding (canonical / fee in 8-byte form / every d=1 header-form change; thorough: d=2 over container headers) x (a,b) x fee around the exact minimum, plus maxTxSize around the original length; distinct = config x re-encoding class (major type -> form @ depth) x (a,b) x fee position; a rule's rejection counts iff the same rule accepts the same bytes under a=b=0 and a huge maxTxSize (every rule of the era list is called separately)")
	c.Assume("ed25519/blake2b trusted; the body is re-signed after every re-encoding so the whole list can accept")
	c.Assume("re-encodings the real decoder rejects are skipped (whether a decoder takes a non-canonical form is not this property)")
	// free-running -race pass: concurrent callers on their own inputs (state the library shares between calls)
	c.RaceAudit("c30")
	c.Finish()
}

func decode(era int, raw []byte) (tx common.Transaction, err error) {
	defer func() {
		if p := recover(); p != nil {
			err = fmt.Errorf("panic: %v", p)
		}
	}()
	return ledgerDecode(era, raw)
}
