package main

import (
	"github.com/blinklabs-io/gouroboros/ledger"
	"github.com/blinklabs-io/gouroboros/ledger/common"
)

func ledgerDecode(era int, raw []byte) (common.Transaction, error) {
	return ledger.NewTransactionFromCbor(TxType(era), raw)
}
