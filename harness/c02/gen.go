// Input generation for C02: every family is a finite, index-addressable list of byte
// strings, built deterministically from (decoder, seed) so that the supervisor and the
// worker subprocesses compute the same input for the same (decoder, family, index).
package main

import (
	"encoding/binary"
	"fmt"
	"sync"

	"verif/space"
)

// family is one finite list of inputs. get may return nil (= identity / skipped index).
type family struct {
	name string // family label (bytes<=2, trunc, subst, inflate, nest, tag, emb/...)
	seed string // seed name ("" for seedless families)
	slen int    // length of the seed (0 for seedless)
	n    int
	get  func(i int) []byte
}

// the 16 type-confusing byte values of DESIGN §5 C02
var confusing = []byte{0x00, 0x17, 0x18, 0x19, 0x1a, 0x1b, 0x1f, 0x3b, 0x5b, 0x5f, 0x7b, 0x9b, 0x9f, 0xbb, 0xbf, 0xff}

var nestDepths = []int{16, 64, 255, 256, 257, 1024, 10000} // thorough tier
var nestDepthsQuick = []int{16, 256, 257, 10000}           // quick tier: both sides of the 256 cap and the extremes

const nestKinds = 9

var nestKindNames = []string{"arr", "arr-indef", "map-val", "map-key", "constr121", "tag6", "arr-open", "indef-open", "tag24-bytes"}

var nestCache = map[[2]int][]byte{}
var nestMu sync.Mutex

// nestBytes returns a self-contained nested structure of the given kind and depth.
func nestBytes(kind, k int) []byte {
	key := [2]int{kind, k}
	nestMu.Lock()
	defer nestMu.Unlock()
	if b, ok := nestCache[key]; ok {
		return b
	}
	var out []byte
	rep := func(p []byte, n int) {
		for i := 0; i < n; i++ {
			out = append(out, p...)
		}
	}
	switch kind {
	case 0: // [[[…0…]]]
		rep([]byte{0x81}, k)
		out = append(out, 0x00)
	case 1: // indefinite arrays, properly closed
		rep([]byte{0x9f}, k)
		out = append(out, 0x00)
		rep([]byte{0xff}, k)
	case 2: // {0:{0:{…}}}
		rep([]byte{0xa1, 0x00}, k)
		out = append(out, 0x00)
	case 3: // map whose key is a map whose key is a map …
		rep([]byte{0xa1}, k)
		out = append(out, 0x00)
		rep([]byte{0x00}, k)
	case 4: // Plutus-style constructor nest 121([121([…])])
		rep([]byte{0xd8, 0x79, 0x81}, k)
		out = append(out, 0x00)
	case 5: // tag 6 (unassigned) nest
		rep([]byte{0xc6}, k)
		out = append(out, 0x00)
	case 6: // openers only: truncated inside the deepest array
		rep([]byte{0x81}, k)
	case 7: // indefinite openers only
		rep([]byte{0x9f}, k)
	case 8: // embedded CBOR: 24(h'…24(h'…')…')
		cur := []byte{0x00}
		for i := 0; i < k; i++ {
			n := make([]byte, 0, len(cur)+11)
			n = append(n, 0xd8, 0x18)
			n = appendHead(n, 2, uint64(len(cur)), -1)
			n = append(n, cur...)
			cur = n
		}
		out = cur
	}
	nestCache[key] = out
	return out
}

// appendHead writes a CBOR head; form -1 = shortest, 1/2/4/8 = that many argument bytes.
func appendHead(out []byte, major byte, arg uint64, form int) []byte {
	m := major << 5
	if form < 0 {
		switch {
		case arg < 24:
			return append(out, m|byte(arg))
		case arg <= 0xff:
			form = 1
		case arg <= 0xffff:
			form = 2
		case arg <= 0xffffffff:
			form = 4
		default:
			form = 8
		}
	}
	switch form {
	case 1:
		return append(out, m|24, byte(arg))
	case 2:
		return append(out, m|25, byte(arg>>8), byte(arg))
	case 4:
		return append(out, m|26, byte(arg>>24), byte(arg>>16), byte(arg>>8), byte(arg))
	default:
		var t [8]byte
		binary.BigEndian.PutUint64(t[:], arg)
		return append(append(out, m|27), t[:]...)
	}
}

func splice(seed []byte, start, end int, repl []byte) []byte {
	out := make([]byte, 0, len(seed)-(end-start)+len(repl))
	out = append(out, seed[:start]...)
	out = append(out, repl...)
	out = append(out, seed[end:]...)
	return out
}

// bytesUpTo: all byte strings of length exactly L (one family per length so that units
// are homogeneous).
func bytesOfLen(L int) family {
	n := 1
	for i := 0; i < L; i++ {
		n *= 256
	}
	return family{name: fmt.Sprintf("bytes=%d", L), n: n, get: func(i int) []byte {
		b := make([]byte, L)
		for p := L - 1; p >= 0; p-- {
			b[p] = byte(i)
			i >>= 8
		}
		return b
	}}
}

type edit struct {
	start, end int
	kind       uint8 // 0 inflate, 1 nest, 2 tag-renumber, 3 tag-wrap
	a, b       uint64
}

var inflateVals = func(arg uint64) []uint64 { return []uint64{arg + 1, 1 << 16, 1<<32 - 1, 1 << 63} }
var tagSubst = []uint64{0, 1, 2, 3, 4, 5, 24, 30, 101, 102, 121, 258, 259, 1280, 1 << 32, 1<<64 - 1}
var tagWrap = []uint64{2, 4, 24, 30, 121, 258}

type embedded struct {
	start, hdrEnd, end int
	form               int
}

// seedFamilies builds all mutation families of one valid encoding. maxPos bounds the number
// of node positions used by the nest / tag-wrap families (stride selection, deterministic);
// substAll forces all 255 substitution values. level is the embedding depth.
func seedFamilies(seedName string, sd []byte, isCbor bool, maxPos int, level int, headsOnly bool, headsOnlyDepths bool) []family {
	var fams []family
	L := len(sd)
	mk := func(name string, n int, get func(i int) []byte) {
		if n > 0 {
			fams = append(fams, family{name: name, seed: seedName, slen: L, n: n, get: get})
		}
	}
	// (1) truncation at every offset: prefixes of length 0..L-1
	mk("trunc", L, func(i int) []byte { return append([]byte(nil), sd[:i]...) })
	if level == 0 {
		// (2) single-byte substitution. Inner (embedded) substitutions are the same inputs as
		// outer ones, so only level 0 enumerates them.
		if L <= 256 {
			mk("subst255", L*255, func(i int) []byte {
				off, v := i/255, byte(i%255)
				if v >= sd[off] {
					v++
				}
				o := append([]byte(nil), sd...)
				o[off] = v
				return o
			})
		} else if headsOnly && isCbor {
			// quick tier, large seed: the 16 values at every byte of every item head (initial
			// byte and argument bytes) as located by the harness's own reader
			var offs []int
			if root, err := space.Parse(sd); err == nil && root != nil {
				root.Walk(func(n *space.Node, _ []int) {
					for o := n.Start; o < n.HdrEnd; o++ {
						offs = append(offs, o)
					}
				})
			}
			mk("subst16@heads", len(offs)*len(confusing), func(i int) []byte {
				off, v := offs[i/len(confusing)], confusing[i%len(confusing)]
				if v == sd[off] {
					return nil
				}
				o := append([]byte(nil), sd...)
				o[off] = v
				return o
			})
		} else {
			mk("subst16", L*len(confusing), func(i int) []byte {
				off, v := i/len(confusing), confusing[i%len(confusing)]
				if v == sd[off] {
					return nil
				}
				o := append([]byte(nil), sd...)
				o[off] = v
				return o
			})
		}
	}
	if !isCbor {
		return fams
	}
	root, err := space.Parse(sd)
	if err != nil || root == nil {
		return fams
	}
	var nodes []*space.Node
	root.Walk(func(n *space.Node, _ []int) { nodes = append(nodes, n) })
	// (3) length-field inflation
	var edits []edit
	for _, n := range nodes {
		if n.Major >= 2 && n.Major <= 5 && n.Form != space.FormIndef {
			for _, v := range inflateVals(n.Arg) {
				edits = append(edits, edit{start: n.Start, end: n.HdrEnd, kind: 0, a: uint64(n.Major), b: v})
			}
		}
	}
	repl := func(e edit) (start, end int, r []byte) {
		switch e.kind {
		case 0:
			form := -1
			if e.b == 1<<63 {
				form = 8
			}
			return e.start, e.end, appendHead(nil, byte(e.a), e.b, form)
		case 1:
			return e.start, e.end, nestBytes(int(e.a), int(e.b))
		case 2:
			return e.start, e.end, appendHead(nil, 6, e.a, -1)
		default:
			return e.start, e.start, appendHead(nil, 6, e.a, -1)
		}
	}
	apply := func(e edit) []byte {
		st, en, r := repl(e)
		return splice(sd, st, en, r)
	}
	// coveredBySubst: the edit yields the seed itself or a single-byte substitution that the
	// subst family above already enumerates (decided on the replaced range only)
	coveredBySubst := func(e edit) bool {
		st, en, r := repl(e)
		if len(r) != en-st {
			return false
		}
		diff, at := 0, -1
		for i := range r {
			if r[i] != sd[st+i] {
				diff++
				at = i
			}
		}
		if diff == 0 {
			return true
		}
		if diff != 1 || level != 0 {
			return false
		}
		if L <= 256 {
			return true
		}
		for _, c := range confusing {
			if c == r[at] {
				return true // at a head byte: enumerated by subst16 and by subst16@heads alike
			}
		}
		return false
	}
	family1 := func(name string, es []edit) {
		es2 := es[:0:0]
		for _, e := range es {
			if !coveredBySubst(e) {
				es2 = append(es2, e)
			}
		}
		mk(name, len(es2), func(i int) []byte { return apply(es2[i]) })
	}
	family1("inflate", edits)
	// positions for nest / tag-wrap
	pos := nodes
	if maxPos > 0 && len(pos) > maxPos {
		stride := (len(pos) + maxPos - 1) / maxPos
		var p2 []*space.Node
		for i := 0; i < len(pos); i += stride {
			p2 = append(p2, pos[i])
		}
		pos = p2
	}
	// (4) nesting: every selected node replaced by a nest of every kind and depth. The
	// replacement does not depend on the position, so it is cached.
	np := len(pos)
	nestDepths := nestDepths
	if headsOnlyDepths {
		nestDepths = nestDepthsQuick
	}
	mk("nest", np*nestKinds*len(nestDepths), func(i int) []byte {
		d := i % len(nestDepths)
		i /= len(nestDepths)
		k := i % nestKinds
		p := pos[i/nestKinds]
		return splice(sd, p.Start, p.End, nestBytes(k, nestDepths[d]))
	})
	// (5) tag substitution and tag wrapping (type confusion at the item level)
	edits = nil
	for _, n := range nodes {
		if n.Major == 6 {
			for _, t := range tagSubst {
				if t != n.Arg {
					edits = append(edits, edit{start: n.Start, end: n.HdrEnd, kind: 2, a: t})
				}
			}
		}
	}
	for _, n := range pos {
		for _, t := range tagWrap {
			edits = append(edits, edit{start: n.Start, kind: 3, a: t})
		}
	}
	family1("tag", edits)
	// (5b) integer re-encoding: every integer item (and every tag-2/3 bignum) replaced by its
	// other integer encodings and by the zero / extreme values of each encoding: bignum zero
	// (c240, c24100), the same value as a bignum, negative bignums (c340, c34100, same
	// argument), the 8-byte uint / nint forms, uint 0 and the largest uint / nint.
	var ints []*space.Node
	for _, n := range nodes {
		if n.Major <= 1 || (n.Major == 6 && (n.Arg == 2 || n.Arg == 3)) {
			ints = append(ints, n)
		}
	}
	if headsOnly && maxPos > 0 && len(ints) > maxPos {
		stride := (len(ints) + maxPos - 1) / maxPos
		var i2 []*space.Node
		for i := 0; i < len(ints); i += stride {
			i2 = append(i2, ints[i])
		}
		ints = i2
	}
	var intRepl [][]byte
	var intAt []*space.Node
	for _, n := range ints {
		var mag []byte // big-endian magnitude bytes of the argument, no leading zeros
		arg := n.Arg
		if n.Major == 6 {
			arg = 1
		}
		for v := arg; v > 0; v >>= 8 {
			mag = append([]byte{byte(v)}, mag...)
		}
		big := func(tag byte, m []byte) []byte { return append(appendHead([]byte{tag}, 2, uint64(len(m)), -1), m...) }
		vars := [][]byte{
			{0xc2, 0x40}, {0xc2, 0x41, 0x00}, big(0xc2, mag), big(0xc2, append([]byte{0}, mag...)),
			{0xc3, 0x40}, {0xc3, 0x41, 0x00}, big(0xc3, mag),
			appendHead(nil, 0, arg, 8), appendHead(nil, 1, arg, 8),
			{0x00}, {0x20}, appendHead(nil, 0, 1<<64-1, 8), appendHead(nil, 1, 1<<64-1, 8),
		}
		orig := sd[n.Start:n.End]
		for _, v := range vars {
			if string(v) == string(orig) {
				continue
			}
			if len(v) == len(orig) && level == 0 {
				// a same-length single-byte difference may already be a substitution input
				d := 0
				for i := range v {
					if v[i] != orig[i] {
						d++
					}
				}
				if d == 1 && L <= 256 {
					continue
				}
			}
			intRepl = append(intRepl, v)
			intAt = append(intAt, n)
		}
	}
	mk("intenc", len(intRepl), func(i int) []byte { return splice(sd, intAt[i].Start, intAt[i].End, intRepl[i]) })
	// (6) embedded CBOR (byte strings whose content is itself one array/map/tag item): the
	// tree families of the inner item, re-wrapped with a corrected outer length so the inner
	// decoder is reached.
	if level < 3 {
		for _, n := range nodes {
			if n.Major != 2 || n.Form == space.FormIndef || len(n.Bytes) < 2 {
				continue
			}
			in, err := space.Parse(n.Bytes)
			if err != nil || in == nil || in.Major < 4 || in.Major > 6 {
				continue
			}
			inner := append([]byte(nil), n.Bytes...)
			e := embedded{start: n.Start, hdrEnd: n.HdrEnd, end: n.End}
			form := []int{-1, 1, 2, 4, 8}[n.Form]
			sub := seedFamilies(seedName, inner, true, maxPos, level+1, headsOnly, headsOnlyDepths)
			for _, f := range sub {
				f := f
				mk("emb/"+f.name, f.n, func(i int) []byte {
					iv := f.get(i)
					if iv == nil {
						return nil
					}
					fm := form
					if fm > 0 && uint64(len(iv)) >= 1<<(8*uint(fm)) && fm < 8 {
						fm = -1
					}
					out := make([]byte, 0, L+len(iv)-len(inner)+9)
					out = append(out, sd[:e.start]...)
					out = appendHead(out, 2, uint64(len(iv)), fm)
					out = append(out, iv...)
					out = append(out, sd[e.end:]...)
					return out
				})
			}
		}
	}
	return fams
}

// standaloneNests: the nested structures as whole inputs.
func standaloneNests(quick bool) family {
	nestDepths := nestDepths
	if quick {
		nestDepths = nestDepthsQuick
	}
	return family{name: "nest-alone", n: nestKinds * len(nestDepths), get: func(i int) []byte {
		return append([]byte(nil), nestBytes(i/len(nestDepths), nestDepths[i%len(nestDepths)])...)
	}}
}

// scanDepth returns the deepest container/tag nesting a reader reaches in b before the first
// malformation (lenient structural scan of the first data item, explicit stack, own code).
// Used only to scale the memory bound: re-decoding a
// nested item once per enclosing level is the designed cost of the decoders (depth is capped
// at 256 by the decoder configuration), allocation driven by a claimed length is not.
func scanDepth(b []byte) int { return scanDepthEmb(b, 2) }

// scanDepthEmb: as above; the content of a definite byte string is scanned as embedded CBOR
// for up to emb levels (decoders that open tag-24 / address payloads pay the inner depth too).
func scanDepthEmb(b []byte, emb int) int {
	type frame struct {
		rem   int64 // remaining items; -1 = indefinite
		isStr bool  // indefinite string: only definite chunks allowed
	}
	var st []frame
	max := 0
	p := 0
	for {
		if p >= len(b) {
			return max
		}
		ib := b[p]
		if ib == 0xff {
			if len(st) == 0 || st[len(st)-1].rem != -1 {
				return max
			}
			p++
			st = st[:len(st)-1]
		} else {
			major, ai := ib>>5, ib&0x1f
			p++
			var arg uint64
			switch {
			case ai < 24:
				arg = uint64(ai)
			case ai <= 27:
				n := 1 << (ai - 24)
				if p+n > len(b) {
					return max
				}
				for i := 0; i < n; i++ {
					arg = arg<<8 | uint64(b[p+i])
				}
				p += n
			case ai == 31:
				if major == 0 || major == 1 || major == 6 || major == 7 {
					return max
				}
			default:
				return max
			}
			push := func(f frame) {
				st = append(st, f)
				if len(st) > max {
					max = len(st)
				}
			}
			switch major {
			case 2, 3:
				if ai == 31 {
					push(frame{rem: -1, isStr: true})
					continue
				}
				if arg > uint64(len(b)-p) {
					return max
				}
				if major == 2 && emb > 0 && arg >= 2 {
					if d := len(st) + scanDepthEmb(b[p:p+int(arg)], emb-1); d > max {
						max = d
					}
				}
				p += int(arg)
			case 4:
				if ai == 31 {
					push(frame{rem: -1})
					continue
				}
				if arg > 0 {
					if arg > 1<<40 {
						arg = 1 << 40
					}
					push(frame{rem: int64(arg)})
					continue
				}
			case 5:
				if ai == 31 {
					push(frame{rem: -1})
					continue
				}
				if arg > 0 {
					if arg > 1<<40 {
						arg = 1 << 40
					}
					push(frame{rem: 2 * int64(arg)})
					continue
				}
			case 6:
				push(frame{rem: 1})
				continue
			}
		}
		// one item completed: pop finished definite containers
		for len(st) > 0 {
			t := &st[len(st)-1]
			if t.rem == -1 {
				break
			}
			t.rem--
			if t.rem > 0 {
				break
			}
			st = st[:len(st)-1]
		}
		if len(st) == 0 {
			return max
		}
	}
}
