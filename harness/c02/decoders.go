// Decoder table of C02: every public decoding entry point with (a) the function to call
// and (b) at least one valid encoding ("seed") built by the harness's own CBOR writer
// (verif/space) or cut out of the repository's block fixtures with the harness's own reader.
package main

import (
	"bytes"
	"encoding/hex"
	"encoding/json"
	"fmt"
	"hash/crc32"
	"os"
	"sort"

	"github.com/blinklabs-io/gouroboros/cbor"
	"github.com/blinklabs-io/gouroboros/ledger"
	lcommon "github.com/blinklabs-io/gouroboros/ledger/common"
	"github.com/blinklabs-io/gouroboros/protocol"
	"github.com/blinklabs-io/gouroboros/protocol/blockfetch"
	"github.com/blinklabs-io/gouroboros/protocol/chainsync"
	pcommon "github.com/blinklabs-io/gouroboros/protocol/common"
	"github.com/blinklabs-io/gouroboros/protocol/handshake"
	"github.com/blinklabs-io/gouroboros/protocol/keepalive"
	"github.com/blinklabs-io/gouroboros/protocol/leiosfetch"
	"github.com/blinklabs-io/gouroboros/protocol/leiosnotify"
	"github.com/blinklabs-io/gouroboros/protocol/leiosvotes"
	"github.com/blinklabs-io/gouroboros/protocol/localmessagenotification"
	"github.com/blinklabs-io/gouroboros/protocol/localmessagesubmission"
	"github.com/blinklabs-io/gouroboros/protocol/localstatequery"
	"github.com/blinklabs-io/gouroboros/protocol/localtxmonitor"
	"github.com/blinklabs-io/gouroboros/protocol/localtxsubmission"
	"github.com/blinklabs-io/gouroboros/protocol/messagesubmission"
	"github.com/blinklabs-io/gouroboros/protocol/peersharing"
	"github.com/blinklabs-io/gouroboros/protocol/txsubmission"

	"golang.org/x/crypto/blake2b"

	"verif/space"
)

type seed struct {
	name string
	b    []byte
}

type decoder struct {
	name      string
	fn        func([]byte) error
	cheap     bool // small inputs, fast
	sweep3    bool // gets the all-3-byte-strings sweep in the thorough tier
	heavy     bool // variant of another decoder: large seeds only in the thorough tier
	smallOnly bool // variant of another decoder: seeds above quickFullSeed are never used
	notCbor   bool // seeds are not CBOR (address strings / raw Shelley address bytes)
	seeds     []seed
	post      func([]byte) []byte // optional structure-aware fix-up applied to emb/* variants (Byron CRC)
}

var (
	A   = space.A
	U   = space.U
	B   = space.B
	T   = space.T
	M   = space.M
	Tag = space.Tag
)

func pat(n int, start byte) []byte {
	b := make([]byte, n)
	for i := range b {
		b[i] = start + byte(i)*7
	}
	return b
}

func enc(n *space.Node) []byte { return n.Encode() }

// ---- fixtures cut out of the repository's block test data with the harness's own reader ----

type eraFix struct {
	name    string
	blkType uint
	txType  uint
	block   []byte // smallest valid block of the era
	big     []byte // larger block (may be nil)
	header  []byte
	txs     [][]byte
	bodies  [][]byte
	outs    [][]byte
	aux     [][]byte
	addrs   [][]byte
}

var fixturesCache []*eraFix

type eraFixJSON struct {
	Name                          string
	BlkType, TxType               uint
	Block, Big, Header            []byte
	Txs, Bodies, Outs, Aux, Addrs [][]byte
}

// fixtures cuts the seeds out of the repository's block fixtures. The supervisor does the
// work once and passes the result to the workers through a file (C02_FIXTURES).
func fixtures() []*eraFix {
	if fixturesCache != nil {
		return fixturesCache
	}
	cachePath := os.Getenv("C02_FIXTURES")
	if cachePath != "" {
		if b, err := os.ReadFile(cachePath); err == nil {
			var js []eraFixJSON
			if json.Unmarshal(b, &js) == nil && len(js) > 0 {
				for _, j := range js {
					fixturesCache = append(fixturesCache, &eraFix{name: j.Name, blkType: j.BlkType, txType: j.TxType, block: j.Block, big: j.Big,
						header: j.Header, txs: j.Txs, bodies: j.Bodies, outs: j.Outs, aux: j.Aux, addrs: j.Addrs})
				}
				return fixturesCache
			}
		}
	}
	defer func() {
		if cachePath != "" && os.Getenv("C02_FIXTURES_WRITE") == "1" {
			var js []eraFixJSON
			for _, e := range fixturesCache {
				js = append(js, eraFixJSON{e.name, e.blkType, e.txType, e.block, e.big, e.header, e.txs, e.bodies, e.outs, e.aux, e.addrs})
			}
			if b, err := json.Marshal(js); err == nil {
				_ = os.WriteFile(cachePath, b, 0o644)
			}
		}
	}()
	byName := map[string][]byte{}
	for _, f := range space.Blocks(true) {
		byName[f.Name] = f.Cbor
	}
	mkEra := func(name string, bt, tt uint, small, big string) *eraFix {
		e := &eraFix{name: name, blkType: bt, txType: tt}
		e.block = byName[small]
		if big != "" {
			e.big = byName[big]
		}
		if e.block == nil {
			e.block, e.big = e.big, nil
		}
		return e
	}
	list := []*eraFix{
		mkEra("byron-ebb", 0, 0, "byron-ebb", ""),
		mkEra("byron", 1, 0, "byron-main-small", "byron-main"),
		mkEra("shelley", 2, 1, "shelley-small", "shelley"),
		mkEra("allegra", 3, 2, "allegra", ""),
		mkEra("mary", 4, 3, "mary", ""),
		mkEra("alonzo", 5, 4, "alonzo", ""),
		mkEra("babbage", 6, 5, "babbage", ""),
		mkEra("conway", 7, 6, "conway", ""),
		mkEra("dijkstra", 8, 7, "dijkstra", ""),
	}
	for _, e := range list {
		if e.block == nil {
			continue
		}
		if e.name == "byron-ebb" {
			e.block = shrinkEBB(e.block)
		}
		for _, blk := range [][]byte{e.block, e.big} {
			if blk == nil {
				continue
			}
			root, err := space.Parse(blk)
			if err != nil || !root.IsArray() || root.Len() < 2 {
				continue
			}
			if e.header == nil {
				e.header = blk[root.Items[0].Start:root.Items[0].End]
			}
			switch {
			case e.blkType == 0:
			case e.blkType == 1:
				cutByron(e, blk, root)
			default:
				cutShelley(e, blk, root)
			}
		}
	}
	for _, e := range list {
		if e.name == "dijkstra" && len(e.txs) == 0 {
			// the Dijkstra block fixture carries no transaction: use the stand-alone one
			if b, err := space.ReadHexFixture("ledger/dijkstra/testdata/cardano_ledger_dijkstra_w30_tx.hex"); err == nil {
				if r, err := space.Parse(b); err == nil && r.IsArray() && r.Len() >= 2 {
					e.txs = append(e.txs, b)
					e.bodies = append(e.bodies, sub(b, r.Items[0]))
				}
			}
		}
		addParamUpdateTx(e)
	}
	fixturesCache = list
	return list
}

// addParamUpdateTx appends a transaction (and body) carrying tag-30 rationals in typed
// protocol-parameter positions: a Shelley-style update (body key 6) for Shelley..Babbage, a
// parameter-change governance proposal (body key 20) for Conway / Dijkstra.
func addParamUpdateTx(e *eraFix) {
	if e.blkType < 2 || len(e.bodies) == 0 {
		return
	}
	root, err := space.Parse(e.bodies[0])
	if err != nil || !root.IsMap() || root.Form == space.FormIndef {
		return
	}
	half := func() *space.Node { return Tag(30, A(U(1), U(2))) }
	params := M(U(9), half(), U(10), Tag(30, A(U(3), U(1000))), U(11), Tag(30, A(U(1), U(5))))
	c := root.Clone()
	if e.blkType <= 6 {
		if c.MapGetUint(6) != nil {
			return
		}
		c.Items = append(c.Items, U(6), A(M(B(hash28), params), U(300)))
	} else {
		if c.MapGetUint(20) != nil {
			return
		}
		reward := append([]byte{0xe1}, hash28...)
		prop := A(U(1000000), B(reward), A(U(0), space.Null(), params, space.Null()), A(T("https://example.invalid/a"), B(hash32)))
		c.Items = append(c.Items, U(20), A(prop))
	}
	body := c.Encode()
	var tx []byte
	if e.blkType >= 5 {
		tx = append(tx, 0x84)
	} else {
		tx = append(tx, 0x83)
	}
	tx = append(tx, body...)
	tx = append(tx, 0xa0)
	if e.blkType >= 5 {
		tx = append(tx, 0xf5)
	}
	tx = append(tx, 0xf6)
	e.txs = append(e.txs, tx)
	e.bodies = append(e.bodies, body)
}

// shrinkEBB keeps the first two entries of the 648 kB epoch boundary block's key list so that
// byte-level mutation of the whole artefact is affordable. The result is still a
// structurally valid EBB (its body proof no longer matches; see the decoder seeds note).
func shrinkEBB(b []byte) []byte {
	root, err := space.Parse(b)
	if err != nil || !root.IsArray() || root.Len() < 2 {
		return b
	}
	body := root.Items[1]
	if !body.IsArray() || body.Len() <= 2 {
		return b
	}
	c := root.Clone()
	c.Items[1].Items = c.Items[1].Items[:2]
	// re-bind the header's body proof (blake2b-256 of the encoded body) to the shortened body
	if hd := c.Items[0]; hd.IsArray() && hd.Len() >= 3 && hd.Items[2].Major == 2 && len(hd.Items[2].Bytes) == 32 {
		sum := blake2b.Sum256(c.Items[1].Encode())
		hd.Items[2].Bytes = sum[:]
	}
	return c.Encode()
}

func sub(blk []byte, n *space.Node) []byte { return append([]byte(nil), blk[n.Start:n.End]...) }

func cutByron(e *eraFix, blk []byte, root *space.Node) {
	// [header, [txPayload, ssc, dlg, upd], extra]; txPayload = [[tx, [witness…]]…]
	if root.Len() < 2 || !root.Items[1].IsArray() || root.Items[1].Len() < 1 {
		return
	}
	txp := root.Items[1].Items[0]
	for _, pair := range txp.Items {
		if !pair.IsArray() || pair.Len() < 2 {
			continue
		}
		tx := pair.Items[0]
		if len(e.txs) < 2 {
			// NewByronTransactionFromCbor takes the [tx, witnesses] pair
			e.txs = append(e.txs, sub(blk, pair))
			e.bodies = append(e.bodies, sub(blk, tx))
		}
		if tx.IsArray() && tx.Len() >= 2 {
			for _, o := range tx.Items[1].Items {
				if len(e.outs) < 2 {
					e.outs = append(e.outs, sub(blk, o))
					if o.IsArray() && o.Len() >= 1 {
						e.addrs = append(e.addrs, sub(blk, o.Items[0]))
					}
				}
			}
		}
	}
}

func cutShelley(e *eraFix, blk []byte, root *space.Node) {
	// [header, [body…], [witness…], {idx: aux}, ([invalid…])]
	if root.Len() < 4 {
		return
	}
	bodies, wits, auxm := root.Items[1], root.Items[2], root.Items[3]
	if !bodies.IsArray() || !wits.IsArray() || bodies.Len() != wits.Len() {
		return
	}
	withValid := e.blkType >= 5
	haveAux, havePlain := false, false
	for i := 0; i < bodies.Len(); i++ {
		var aux *space.Node
		if auxm.IsMap() {
			aux = auxm.MapGetUint(uint64(i))
		}
		if (aux != nil && haveAux) || (aux == nil && havePlain) {
			continue
		}
		if aux != nil {
			haveAux = true
			e.aux = append(e.aux, sub(blk, aux))
		} else {
			havePlain = true
		}
		var tx []byte
		if withValid {
			tx = append(tx, 0x84)
		} else {
			tx = append(tx, 0x83)
		}
		tx = append(tx, blk[bodies.Items[i].Start:bodies.Items[i].End]...)
		tx = append(tx, blk[wits.Items[i].Start:wits.Items[i].End]...)
		if withValid {
			tx = append(tx, 0xf5)
		}
		if aux != nil {
			tx = append(tx, blk[aux.Start:aux.End]...)
		} else {
			tx = append(tx, 0xf6)
		}
		e.txs = append(e.txs, tx)
		e.bodies = append(e.bodies, sub(blk, bodies.Items[i]))
		if outs := bodies.Items[i].MapGetUint(1); outs != nil && outs.IsArray() {
			for _, o := range outs.Items {
				// one output per distinct shape (array/map, element count)
				shape := fmt.Sprintf("%d/%d", o.Major, o.Len())
				dup := false
				for _, prev := range e.outs {
					p, _ := space.Parse(prev)
					if p != nil && fmt.Sprintf("%d/%d", p.Major, p.Len()) == shape {
						dup = true
					}
				}
				if dup {
					continue
				}
				e.outs = append(e.outs, sub(blk, o))
				var a *space.Node
				if o.IsArray() && o.Len() > 0 {
					a = o.Items[0]
				} else if o.IsMap() {
					a = o.MapGetUint(0)
				}
				if a != nil && a.Major == 2 {
					e.addrs = append(e.addrs, append([]byte(nil), a.Bytes...))
				}
			}
		}
	}
}

// ---- own bech32 / base58 (only to build valid address strings) ----

const b32chars = "qpzry9x8gf2tvdw0s3jn54khce6mua7l"

func b32polymod(v []byte) uint32 {
	gen := []uint32{0x3b6a57b2, 0x26508e6d, 0x1ea119fa, 0x3d4233dd, 0x2a1462b3}
	chk := uint32(1)
	for _, x := range v {
		top := chk >> 25
		chk = (chk&0x1ffffff)<<5 ^ uint32(x)
		for i := 0; i < 5; i++ {
			if (top>>uint(i))&1 == 1 {
				chk ^= gen[i]
			}
		}
	}
	return chk
}

func bech32Encode(hrp string, data []byte) string {
	var d5 []byte
	acc, bits := uint32(0), uint(0)
	for _, b := range data {
		acc = acc<<8 | uint32(b)
		bits += 8
		for bits >= 5 {
			bits -= 5
			d5 = append(d5, byte(acc>>bits)&31)
		}
	}
	if bits > 0 {
		d5 = append(d5, byte(acc<<(5-bits))&31)
	}
	var exp []byte
	for _, c := range hrp {
		exp = append(exp, byte(c)>>5)
	}
	exp = append(exp, 0)
	for _, c := range hrp {
		exp = append(exp, byte(c)&31)
	}
	vals := append(append(exp, d5...), 0, 0, 0, 0, 0, 0)
	pm := b32polymod(vals) ^ 1
	out := hrp + "1"
	for _, v := range d5 {
		out += string(b32chars[v])
	}
	for i := 0; i < 6; i++ {
		out += string(b32chars[(pm>>uint(5*(5-i)))&31])
	}
	return out
}

func base58Encode(in []byte) string {
	const al = "123456789ABCDEFGHJKLMNPQRSTUVWXYZabcdefghijkmnopqrstuvwxyz"
	zeros := 0
	for zeros < len(in) && in[zeros] == 0 {
		zeros++
	}
	num := append([]byte(nil), in...)
	var out []byte
	for len(num) > 0 {
		rem := 0
		var q []byte
		for _, b := range num {
			acc := rem*256 + int(b)
			d := acc / 58
			rem = acc % 58
			if len(q) > 0 || d > 0 {
				q = append(q, byte(d))
			}
		}
		out = append(out, al[rem])
		num = q
	}
	for i := 0; i < zeros; i++ {
		out = append(out, '1')
	}
	for i, j := 0, len(out)-1; i < j; i, j = i+1, j-1 {
		out[i], out[j] = out[j], out[i]
	}
	return string(out)
}

// fixByronCRC: if v is [24(h'payload'), crc] recompute crc over the payload.
func fixByronCRC(v []byte) []byte {
	n, _, err := space.ParsePrefix(v)
	if err != nil || n == nil || !n.IsArray() || n.Len() != 2 {
		return v
	}
	t := n.Items[0]
	if t.Major != 6 || len(t.Items) != 1 || t.Items[0].Major != 2 || n.Items[1].Major != 0 {
		return v
	}
	crc := crc32.ChecksumIEEE(t.Items[0].Bytes)
	out := append([]byte(nil), v[:n.Items[1].Start]...)
	out = appendHead(out, 0, uint64(crc), -1)
	out = append(out, v[n.Items[1].End:]...)
	return out
}

// ---- seeds written by hand ----

var (
	hash32 = pat(32, 0x11)
	hash28 = pat(28, 0x21)
)

func point() *space.Node  { return A(U(1234567), B(hash32)) }
func origin() *space.Node { return A() }
func tip() *space.Node    { return A(point(), U(4242)) }

func richValue(arrayKey bool) []byte {
	last := M(B([]byte{1}), U(2))
	if arrayKey {
		last = M(A(U(1)), U(2))
	}
	return enc(A(
		U(0), U(23), U(24), U(1<<32), space.NInt(-1), space.NInt(-1000),
		B([]byte{1, 2, 3}), T("héllo"),
		A(U(1), A(U(2), A())),
		M(U(1), U(2), T("a"), A(U(3)), B([]byte{9}), M()),
		Tag(24, B([]byte{0x81, 0x01})),
		Tag(121, A(U(1), B([]byte{7}))),
		Tag(101, A(U(200), A(U(1)))),
		Tag(1280, A(U(1))),
		Tag(2, B([]byte{1, 0, 0, 0, 0, 0, 0, 0, 0})),
		Tag(3, B([]byte{1, 0})),
		Tag(30, A(U(1), U(3))),
		Tag(258, A(U(1), U(2))),
		space.F64(1.5), space.Bool(true), space.Null(), space.Simple(23),
		space.AIndef(U(1), U(2)),
		&space.Node{Major: 2, Form: space.FormIndef, Items: []*space.Node{B([]byte{1}), B([]byte{2, 3})}, Bytes: []byte{1, 2, 3}},
		last,
	))
}

func dmqMessage() *space.Node {
	return A(B(hash32), A(B([]byte("body-bytes")), U(12), U(1700000000)), B(pat(448, 3)),
		A(B(pat(32, 5)), U(1), U(12), B(pat(64, 9))), B(pat(32, 13)))
}

func leiosVote() *space.Node { return A(U(100), B(hash32), U(7), B(pat(48, 1))) }

type msgSeed struct {
	typ uint
	n   *space.Node
}

func wrapBlock(t uint, blk []byte) *space.Node {
	inner := append(appendHead(append([]byte{0x82}, nil...), 0, uint64(t), -1), blk...)
	return Tag(24, B(inner))
}

// protocolDecoders builds one decoder per protocol × message type 0..max+1.
func protocolDecoders(fx []*eraFix) []*decoder {
	var byron, shelley *eraFix
	for _, e := range fx {
		if e.name == "byron" {
			byron = e
		}
		if e.name == "shelley" {
			shelley = e
		}
	}
	ntnVD := A(U(764824073), space.Bool(true), U(1), space.Bool(false))
	ntcVD := A(U(764824073), space.Bool(false))
	vmap := M(U(13), ntnVD, U(14), ntnVD)
	vmapC := M(U(32784), ntcVD, U(32783), U(764824073))
	type proto struct {
		name string
		fn   func(uint, []byte) (protocol.Message, error)
		max  uint
		m    []msgSeed
	}
	txid := A(U(6), B(hash32))
	var rollNtN, rollNtC, bfBlock []msgSeed
	if shelley != nil && shelley.block != nil {
		rollNtN = append(rollNtN, msgSeed{2, A(U(2), A(U(1), Tag(24, B(shelley.header))), tip())})
		rollNtC = append(rollNtC, msgSeed{2, A(U(2), wrapBlock(2, shelley.block), tip())})
		bfBlock = append(bfBlock, msgSeed{4, A(U(4), wrapBlock(2, shelley.block))})
	}
	if byron != nil && byron.block != nil {
		rollNtN = append(rollNtN, msgSeed{2, A(U(2), A(U(0), A(A(U(1), U(669)), Tag(24, B(byron.header)))), tip())})
		rollNtC = append(rollNtC, msgSeed{2, A(U(2), wrapBlock(1, byron.block), tip())})
	}
	csCommon := []msgSeed{
		{0, A(U(0))}, {1, A(U(1))},
		{3, A(U(3), point(), tip())}, {3, A(U(3), origin(), A(origin(), U(0)))},
		{4, A(U(4), A(point(), origin(), point()))},
		{5, A(U(5), point(), tip())}, {6, A(U(6), tip())}, {7, A(U(7))},
	}
	bitmaps := &space.Node{Major: 5, Form: space.FormIndef, Items: []*space.Node{U(0), U(0xff00ff00ff00ff00), U(3), U(1)}}
	var tinyTx []byte = enc(A(M(U(0), A(), U(1), A(), U(2), U(0)), M(), space.Bool(true), space.Null()))
	protos := []proto{
		{"chainsync.NewMsgFromCborNtN", chainsync.NewMsgFromCborNtN, 7, append(append([]msgSeed{}, csCommon...), rollNtN...)},
		{"chainsync.NewMsgFromCborNtC", chainsync.NewMsgFromCborNtC, 7, append(append([]msgSeed{}, csCommon...), rollNtC...)},
		{"blockfetch.NewMsgFromCbor", blockfetch.NewMsgFromCbor, 5, append([]msgSeed{
			{0, A(U(0), point(), point())}, {1, A(U(1))}, {2, A(U(2))}, {3, A(U(3))}, {5, A(U(5))},
		}, bfBlock...)},
		{"handshake.NewMsgFromCbor", handshake.NewMsgFromCbor, 3, []msgSeed{
			{0, A(U(0), vmap)}, {0, A(U(0), vmapC)},
			{1, A(U(1), U(13), ntnVD)}, {1, A(U(1), U(32784), ntcVD)},
			{2, A(U(2), A(U(0), A(U(11), U(12), U(13))))}, {2, A(U(2), A(U(1), U(13), T("decode")))}, {2, A(U(2), A(U(2), U(13), T("refused")))},
			{3, A(U(3), vmap)},
		}},
		{"keepalive.NewMsgFromCbor", keepalive.NewMsgFromCbor, 2, []msgSeed{{0, A(U(0), U(0xbeef))}, {1, A(U(1), U(0xbeef))}, {2, A(U(2))}}},
		{"peersharing.NewMsgFromCbor", peersharing.NewMsgFromCbor, 2, []msgSeed{
			{0, A(U(0), U(10))},
			{1, A(U(1), A(A(U(0), U(0x0100007f), U(3001)), A(U(1), U(1), U(2), U(3), U(4), U(3001)), A(U(1), U(1), U(2), U(3), U(4), U(0), U(0), U(3001))))},
			{2, A(U(2))},
		}},
		{"txsubmission.NewMsgFromCbor", txsubmission.NewMsgFromCbor, 6, []msgSeed{
			{0, A(U(0), space.Bool(true), U(3), U(10))},
			{1, A(U(1), space.AIndef(A(txid, U(1234)), A(txid, U(77))))},
			{2, A(U(2), space.AIndef(txid, txid))},
			{3, A(U(3), space.AIndef(A(U(6), Tag(24, B(tinyTx)))))},
			{4, A(U(4))}, {6, A(U(6))},
		}},
		{"localtxsubmission.NewMsgFromCbor", localtxsubmission.NewMsgFromCbor, 3, []msgSeed{
			{0, A(U(0), A(U(6), Tag(24, B(tinyTx))))}, {1, A(U(1))},
			{2, A(U(2), A(A(U(6), A(A(U(0), A(U(5), U(1)))))))}, {3, A(U(3))},
		}},
		{"localtxmonitor.NewMsgFromCbor", localtxmonitor.NewMsgFromCbor, 10, []msgSeed{
			{0, A(U(0))}, {1, A(U(1))}, {2, A(U(2), U(123456))}, {3, A(U(3))}, {5, A(U(5))},
			{6, A(U(6))}, {6, A(U(6), A(U(6), Tag(24, B(tinyTx))))},
			{7, A(U(7), B(hash32))}, {8, A(U(8), space.Bool(true))}, {9, A(U(9))},
			{10, A(U(10), A(U(178176), U(2345), U(3)))},
		}},
		{"localstatequery.NewMsgFromCbor", localstatequery.NewMsgFromCbor, 11, []msgSeed{
			{0, A(U(0), point())}, {1, A(U(1))}, {2, A(U(2), U(1))},
			{3, A(U(3), A(U(0), A(U(0), A(U(6), A(U(1))))))}, {3, A(U(3), A(U(1)))}, {3, A(U(3), A(U(0), A(U(2), A(U(1)))))},

			{4, A(U(4), A(U(5), M(U(1), B(hash28))))}, {5, A(U(5))}, {6, A(U(6), point())}, {7, A(U(7))},
			{8, A(U(8))}, {9, A(U(9))}, {10, A(U(10))}, {11, A(U(11))},
		}},
		{"messagesubmission.NewMsgFromCbor", messagesubmission.NewMsgFromCbor, 5, []msgSeed{
			{0, A(U(0))}, {1, A(U(1), space.Bool(true), U(2), U(5))},
			{2, A(U(2), A(A(B(hash32), U(500)), A(B(pat(32, 2)), U(9))))},
			{3, A(U(3), A(B(hash32), B(pat(32, 2))))},
			{4, A(U(4), A(dmqMessage()))}, {5, A(U(5))},
		}},
		{"localmessagesubmission.NewMsgFromCbor", localmessagesubmission.NewMsgFromCbor, 3, []msgSeed{
			{0, A(U(0), dmqMessage())}, {1, A(U(1))}, {2, A(U(2), A(U(0), T("invalid")))}, {2, A(U(2), A(U(1)))}, {3, A(U(3))},
		}},
		{"localmessagenotification.NewMsgFromCbor", localmessagenotification.NewMsgFromCbor, 3, []msgSeed{
			{0, A(U(0), space.Bool(true))}, {1, A(U(1), A(dmqMessage()), space.Bool(false))}, {2, A(U(2), A(dmqMessage()))}, {3, A(U(3))},
		}},
		{"leiosvotes.NewMsgFromCbor", leiosvotes.NewMsgFromCbor, 2, []msgSeed{{0, A(U(0), U(5))}, {1, A(U(1), leiosVote())}, {2, A(U(2))}}},
		{"leiosnotify.NewMsgFromCbor", leiosnotify.NewMsgFromCbor, 5, []msgSeed{
			{0, A(U(0))}, {1, A(U(1), A(A(U(1), B(hash32)), B(pat(64, 1))))}, {2, A(U(2), point(), U(90000))}, {3, A(U(3), point())},
			{4, A(U(4), A(A(U(100), U(7)), A(U(100), U(8))))}, {4, A(U(4), A(leiosVote()))},
			{4, A(U(4), A(A(B(hash32), U(7), B(pat(48, 1)))))}, {5, A(U(5))},
		}},
		{"leiosfetch.NewMsgFromCbor", leiosfetch.NewMsgFromCbor, 11, []msgSeed{
			{0, A(U(0), point())}, {1, A(U(1), A(M(B(hash32), U(300), B(pat(32, 4)), U(20))))},
			{2, A(U(2), point(), bitmaps)}, {3, A(U(3), A(space.Raw(tinyTx)))}, {3, A(U(3), point(), bitmaps, A(space.Raw(tinyTx)))},
			{4, A(U(4), A(A(U(100), U(7))))}, {5, A(U(5), A(leiosVote()))}, {6, A(U(6), point(), point())},
			{7, A(U(7), A(M(B(hash32), U(300))), A(space.Raw(tinyTx)))}, {8, A(U(8), A(M(B(hash32), U(300))), A(space.Raw(tinyTx)))},
			{9, A(U(9))}, {10, A(U(10))}, {11, A(U(11))},
		}},
	}
	var out []*decoder
	for _, p := range protos {
		p := p
		for t := uint(0); t <= p.max+1; t++ {
			t := t
			d := &decoder{name: fmt.Sprintf("%s:%d", p.name, t), cheap: true, fn: func(b []byte) error {
				_, err := p.fn(t, b)
				return err
			}}
			for i, s := range p.m {
				if s.typ == t {
					d.seeds = append(d.seeds, seed{fmt.Sprintf("msg%d.%d", t, i), enc(s.n)})
				}
			}
			if len(d.seeds) == 0 {
				// unknown type number: any well-formed message is a fair seed (must be rejected)
				d.seeds = append(d.seeds, seed{"x-msg-unknown", enc(A(U(uint64(t))))})
			}
			out = append(out, d)
		}
	}
	return out
}

func dec[Tp any](name string, cheap bool, seeds ...seed) *decoder {
	return &decoder{name: name, cheap: cheap, seeds: seeds, fn: func(b []byte) error {
		var v Tp
		_, err := cbor.Decode(b, &v)
		return err
	}}
}

var diagOpts = cbor.DiagnosticOptions{ShowOffsets: true, ShowHex: true, CardanoAware: true}

// allDecoders returns the full table, sorted by name.
func allDecoders() []*decoder {
	fx := fixtures()
	var ds []*decoder
	add := func(d *decoder) { ds = append(ds, d) }

	// ---- ledger: blocks, headers, transactions, bodies, outputs ----
	var allBlocks, smallBlocks, allTxs, allOuts, allAux, allHeaders []seed
	for _, e := range fx {
		e := e
		if e.block == nil {
			continue
		}
		bs := []seed{{e.name + "-block", e.block}}
		if len(e.block) <= 1100 && e.blkType != 0 {
			smallBlocks = append(smallBlocks, bs[0])
		}
		allBlocks = append(allBlocks, bs[0])
		add(&decoder{name: "ledger.NewBlockFromCbor:" + e.name, seeds: bs, fn: func(b []byte) error {
			_, err := ledger.NewBlockFromCbor(e.blkType, b)
			return err
		}})
		add(&decoder{name: "ledger.NewBlockFromCbor(skip-body-hash):" + e.name, smallOnly: true, seeds: bs, fn: func(b []byte) error {
			_, err := ledger.NewBlockFromCbor(e.blkType, b, lcommon.VerifyConfig{SkipBodyHashValidation: true})
			return err
		}})
		obs := bs
		if e.blkType == 0 {
			obs = []seed{{"x-" + bs[0].name, bs[0].b}} // the offset extractor has no EBB layout
		}
		add(&decoder{name: "ledger.NewBlockFromCborWithOffsets:" + e.name, heavy: true, seeds: obs, fn: func(b []byte) error {
			_, err := ledger.NewBlockFromCborWithOffsets(e.blkType, b, lcommon.VerifyConfig{SkipBodyHashValidation: true})
			return err
		}})
		if e.header != nil {
			hs := seed{e.name + "-header", e.header}
			if e.blkType <= 1 {
				allHeaders = append(allHeaders, seed{"x-" + hs.name, hs.b}) // Byron headers: outside DetermineBlockType's domain
			} else {
				allHeaders = append(allHeaders, hs)
			}
			add(&decoder{name: "ledger.NewBlockHeaderFromCbor:" + e.name, seeds: []seed{hs}, fn: func(b []byte) error {
				_, err := ledger.NewBlockHeaderFromCbor(e.blkType, b)
				return err
			}})
		}
		if e.blkType == 0 {
			continue
		}
		var ts, bds []seed
		tOnly := func(b []byte) string {
			if len(b) > 8000 {
				return "t-" // thorough tier only (see decoderFamilies)
			}
			return ""
		}
		for i, t := range e.txs {
			ts = append(ts, seed{fmt.Sprintf("%s%s-tx%d", tOnly(t), e.name, i), t})
		}
		for i, t := range e.bodies {
			bds = append(bds, seed{fmt.Sprintf("%s%s-txbody%d", tOnly(t), e.name, i), t})
		}
		for i, t := range e.outs {
			allOuts = append(allOuts, seed{fmt.Sprintf("%s-out%d", e.name, i), t})
		}
		for i, t := range e.aux {
			if len(t) <= 2048 {
				allAux = append(allAux, seed{fmt.Sprintf("%s-aux%d", e.name, i), t})
			}
		}
		if len(ts) > 0 && len(ts[0].b) <= 8000 {
			allTxs = append(allTxs, ts[0])
			add(&decoder{name: "ledger.NewTransactionFromCbor:" + e.name, seeds: ts, fn: func(b []byte) error {
				_, err := ledger.NewTransactionFromCbor(e.txType, b)
				return err
			}})
		}
		if len(bds) > 0 && e.txType > 0 {
			add(&decoder{name: "ledger.NewTransactionBodyFromCbor:" + e.name, seeds: bds, fn: func(b []byte) error {
				_, err := ledger.NewTransactionBodyFromCbor(e.txType, b)
				return err
			}})
		}
	}
	add(&decoder{name: "ledger.NewTransactionOutputFromCbor", cheap: true, seeds: allOuts, fn: func(b []byte) error {
		_, err := ledger.NewTransactionOutputFromCbor(b)
		return err
	}})
	add(&decoder{name: "ledger.ExtractTransactionOffsets", seeds: smallBlocks, fn: func(b []byte) error {
		_, err := ledger.ExtractTransactionOffsets(b)
		return err
	}})
	add(&decoder{name: "ledger.DetermineTransactionType", seeds: allTxs, fn: func(b []byte) error {
		_, err := ledger.DetermineTransactionType(b)
		return err
	}})
	add(&decoder{name: "ledger.DetermineBlockType", seeds: allHeaders, fn: func(b []byte) error {
		_, err := ledger.DetermineBlockType(b)
		return err
	}})
	add(&decoder{name: "lcommon.BlockBodySizeFromCbor", seeds: smallBlocks, fn: func(b []byte) error {
		_, err := lcommon.BlockBodySizeFromCbor(b)
		return err
	}})
	// ---- ledger: metadata / auxiliary data ----
	meta := seed{"metadatum", enc(M(U(674), M(T("msg"), A(T("hello"), T("world")), T("n"), space.NInt(-5), T("b"), B([]byte{1, 2})), U(1), A(U(1), M(T("k"), T("v"), T("k2"), T("v2")))))}
	metaTT := seed{"metadatum-text-map", enc(M(T("k"), T("v"), T("k2"), T("v2")))}
	auxSeeds := append([]seed{{"aux-shelley", enc(M(U(1), T("x")))}, {"aux-alonzo", enc(Tag(259, M(U(0), M(U(1), T("x")), U(1), A())))}}, allAux...)
	add(&decoder{name: "lcommon.DecodeMetadatumRaw", cheap: true, seeds: []seed{meta, metaTT}, fn: func(b []byte) error {
		_, err := lcommon.DecodeMetadatumRaw(b)
		return err
	}})
	add(&decoder{name: "lcommon.DecodeAuxiliaryData", cheap: true, seeds: auxSeeds, fn: func(b []byte) error {
		_, err := lcommon.DecodeAuxiliaryData(b)
		return err
	}})
	add(&decoder{name: "lcommon.DecodeAuxiliaryDataToMetadata", cheap: true, seeds: auxSeeds, fn: func(b []byte) error {
		_, err := lcommon.DecodeAuxiliaryDataToMetadata(b)
		return err
	}})
	// ---- ledger: node error decoders ----
	errSeeds := []seed{
		{"era-mismatch", enc(A(A(U(1), T("Shelley")), A(U(6), T("Conway"))))},
		{"tx-validation-conway", enc(A(A(U(6), A(A(U(0), A(U(0), A(U(6), A(U(0), A(A(B(hash32), U(1)))))))))))},
		{"tx-validation-unknown-era", enc(A(A(U(0), A(A(U(0), A(U(5), U(1)))))))},
		{"tx-validation-conway-meta", enc(A(A(U(6), A(A(U(0), A(U(5), A(U(5), B(hash32)))), A(U(0), A(U(8)))))))},
		{"generic", enc(A(U(2), A(T("anything"), M(U(1), U(2)))))},
	}
	for _, e := range []struct {
		n string
		f func([]byte) (error, error)
		s []seed
	}{
		{"ledger.NewGenericErrorFromCbor", ledger.NewGenericErrorFromCbor, errSeeds},
		{"ledger.NewEraMismatchErrorFromCbor", ledger.NewEraMismatchErrorFromCbor, errSeeds[:1]},
		{"ledger.NewTxSubmitErrorFromCbor", ledger.NewTxSubmitErrorFromCbor, errSeeds},
		{"ledger.NewShelleyTxValidationErrorFromCbor", ledger.NewShelleyTxValidationErrorFromCbor, errSeeds[1:4]},
	} {
		e := e
		add(&decoder{name: e.n, cheap: true, seeds: e.s, fn: func(b []byte) error {
			_, err := e.f(b)
			return err
		}})
	}
	// ---- addresses ----
	var addrBytes []seed
	hdr := func(h byte, parts ...[]byte) []byte {
		o := []byte{h}
		for _, p := range parts {
			o = append(o, p...)
		}
		return o
	}
	addrBytes = append(addrBytes,
		seed{"addr-type0", hdr(0x01, hash28, pat(28, 0x40))},
		seed{"addr-type1", hdr(0x11, hash28, pat(28, 0x40))},
		seed{"addr-type2", hdr(0x21, hash28, pat(28, 0x40))},
		seed{"addr-type3", hdr(0x31, hash28, pat(28, 0x40))},
		seed{"addr-type4-pointer", hdr(0x41, hash28, []byte{0x81, 0x80, 0x01, 0x02, 0x03})},
		seed{"addr-type5-pointer", hdr(0x50, hash28, []byte{0x01, 0x02, 0x03})},
		seed{"addr-type6", hdr(0x61, hash28)},
		seed{"addr-type7", hdr(0x70, hash28)},
		seed{"addr-type14-stake", hdr(0xe1, hash28)},
		seed{"addr-type15-stake", hdr(0xf0, hash28)},
	)
	var byronAddrs []seed
	for _, e := range fx {
		if e.name == "byron" {
			for i, a := range e.addrs {
				byronAddrs = append(byronAddrs, seed{fmt.Sprintf("addr-byron%d", i), a})
			}
		}
	}
	// a Byron address with derivation-path and network-magic attributes, written by hand
	{
		payload := enc(A(B(hash28), M(U(1), B(enc(B(pat(28, 3)))), U(2), B(enc(U(1097911063)))), U(0)))
		byronAddrs = append(byronAddrs, seed{"addr-byron-attrs", enc(A(Tag(24, B(payload)), U(uint64(crc32.ChecksumIEEE(payload)))))})
	}
	add(&decoder{name: "lcommon.NewAddressFromBytes", cheap: true, notCbor: true, seeds: addrBytes, fn: func(b []byte) error {
		_, err := lcommon.NewAddressFromBytes(b)
		return err
	}})
	add(&decoder{name: "lcommon.NewAddressFromBytes(byron)", seeds: byronAddrs, post: fixByronCRC, fn: func(b []byte) error {
		_, err := lcommon.NewAddressFromBytes(b)
		return err
	}})
	var addrStr []seed
	for _, s := range addrBytes {
		hrp := "addr"
		if s.b[0]>>4 >= 14 {
			hrp = "stake"
		}
		if s.b[0]&0x0f == 0 {
			hrp += "_test"
		}
		addrStr = append(addrStr, seed{s.name + "-bech32", []byte(bech32Encode(hrp, s.b))})
	}
	for _, s := range byronAddrs {
		addrStr = append(addrStr, seed{s.name + "-base58", []byte(base58Encode(s.b))})
	}
	add(&decoder{name: "lcommon.NewAddress(string)", cheap: true, notCbor: true, seeds: addrStr, fn: func(b []byte) error {
		_, err := lcommon.NewAddress(string(b))
		return err
	}})
	var addrCbor []seed
	for _, s := range addrBytes {
		addrCbor = append(addrCbor, seed{s.name + "-cbor", enc(B(s.b))})
	}
	for _, s := range byronAddrs {
		addrCbor = append(addrCbor, seed{s.name + "-cbor", s.b})
	}
	add(dec[lcommon.Address]("cbor.Decode(*lcommon.Address)", true, addrCbor...))
	// ---- Leios ledger types ----
	add(dec[lcommon.LeiosEndorserBlock]("cbor.Decode(*lcommon.LeiosEndorserBlock)", true,
		seed{"eb-array", enc(A(M(B(hash32), U(300), B(pat(32, 4)), U(20))))}, seed{"eb-map", enc(M(B(hash32), U(300), B(pat(32, 4)), U(20)))}))
	add(&decoder{name: "lcommon.(*LeiosEndorserBlock).UnmarshalCBOR(direct)", cheap: true,
		seeds: []seed{{"eb-array", enc(A(M(B(hash32), U(300), B(pat(32, 4)), U(20))))}, {"eb-map", enc(M(B(hash32), U(300), B(pat(32, 4)), U(20)))}},
		fn: func(b []byte) error {
			var v lcommon.LeiosEndorserBlock
			return v.UnmarshalCBOR(b)
		}})
	add(dec[lcommon.LeiosVote]("cbor.Decode(*lcommon.LeiosVote)", true, seed{"vote", enc(leiosVote())}))
	add(dec[lcommon.LeiosEbCertificate]("cbor.Decode(*lcommon.LeiosEbCertificate)", true,
		seed{"ebcert", enc(A(U(100), B(hash32), B([]byte{0xff, 0x01}), B(pat(48, 1))))}))
	// ---- protocol ----
	ds = append(ds, protocolDecoders(fx)...)
	vd := []struct {
		n string
		f func([]byte) (protocol.VersionData, error)
		s *space.Node
	}{
		{"protocol.NewVersionDataNtC9to14FromCbor", protocol.NewVersionDataNtC9to14FromCbor, U(764824073)},
		{"protocol.NewVersionDataNtC15andUpFromCbor", protocol.NewVersionDataNtC15andUpFromCbor, A(U(764824073), space.Bool(true))},
		{"protocol.NewVersionDataNtN7to10FromCbor", protocol.NewVersionDataNtN7to10FromCbor, A(U(764824073), space.Bool(true))},
		{"protocol.NewVersionDataNtN11to12FromCbor", protocol.NewVersionDataNtN11to12FromCbor, A(U(764824073), space.Bool(true), U(1), space.Bool(false))},
		{"protocol.NewVersionDataNtN13andUpFromCbor", protocol.NewVersionDataNtN13andUpFromCbor, A(U(764824073), space.Bool(false), U(1), space.Bool(true))},
	}
	for _, v := range vd {
		v := v
		add(&decoder{name: v.n, cheap: true, seeds: []seed{{"vd", enc(v.s)}}, fn: func(b []byte) error {
			_, err := v.f(b)
			return err
		}})
	}
	add(dec[pcommon.Point]("cbor.Decode(*pcommon.Point)", true, seed{"point", enc(point())}, seed{"origin", enc(origin())}))
	add(dec[pcommon.Tip]("cbor.Decode(*pcommon.Tip)", true, seed{"tip", enc(tip())}, seed{"tip-origin", enc(A(origin(), U(0)))}))
	add(dec[pcommon.DmqMessage]("cbor.Decode(*pcommon.DmqMessage)", true, seed{"dmq", enc(dmqMessage())}))
	add(dec[pcommon.RejectReasonData]("cbor.Decode(*pcommon.RejectReasonData)", true, seed{"reject", enc(A(U(0), T("bad")))}))
	add(dec[peersharing.PeerAddress]("cbor.Decode(*peersharing.PeerAddress)", true,
		seed{"peer4", enc(A(U(0), U(0x0100007f), U(3001)))}, seed{"peer6", enc(A(U(1), U(1), U(2), U(3), U(4), U(3001)))}))
	add(dec[chainsync.WrappedHeader]("cbor.Decode(*chainsync.WrappedHeader)", true, seed{"wh", enc(A(U(1), Tag(24, B([]byte{0x82, 0x01, 0x02}))))}))
	add(dec[blockfetch.WrappedBlock]("cbor.Decode(*blockfetch.WrappedBlock)", true, seed{"wb", enc(A(U(2), A(U(1), U(2))))}))
	// ---- generic cbor ----
	rich := seed{"rich", richValue(false)}
	generic := []seed{rich}
	if len(allTxs) > 0 {
		generic = append(generic, allTxs[len(allTxs)-1])
	}
	genericV := append([]seed{{"rich-array-key", richValue(true)}}, generic...)
	add(dec[cbor.Value]("cbor.Decode(*cbor.Value)", true, genericV...))
	add(&decoder{name: "cbor.Decode(*cbor.LazyValue)+Decode", cheap: true, seeds: genericV, fn: func(b []byte) error {
		var v cbor.LazyValue
		if _, err := cbor.Decode(b, &v); err != nil {
			return err
		}
		_, err := v.Decode()
		return err
	}})
	add(dec[any]("cbor.Decode(*any)", true, generic...))
	add(&decoder{name: "cbor.DecodeStrict(*any)", cheap: true, seeds: generic, fn: func(b []byte) error {
		var v any
		_, err := cbor.DecodeStrict(b, &v)
		return err
	}})
	add(&decoder{name: "cbor.DecodeLenient(*any)", cheap: true, seeds: generic, fn: func(b []byte) error {
		var v any
		_, err := cbor.DecodeLenient(b, &v)
		return err
	}})
	add(dec[cbor.RawMessage]("cbor.Decode(*cbor.RawMessage)", true, rich))
	add(dec[[]cbor.RawMessage]("cbor.Decode(*[]cbor.RawMessage)", true, rich))
	add(dec[cbor.RawTag]("cbor.Decode(*cbor.RawTag)", true, seed{"tag24", enc(Tag(24, B([]byte{0x81, 0x01})))}))
	add(dec[cbor.Tag]("cbor.Decode(*cbor.Tag)", true, seed{"tag24", enc(Tag(24, B([]byte{0x81, 0x01})))}))
	add(dec[cbor.ByteString]("cbor.Decode(*cbor.ByteString)", true, seed{"bytes", enc(B([]byte{1, 2, 3}))}))
	add(dec[cbor.ConstructorDecoder]("cbor.Decode(*cbor.ConstructorDecoder)", true,
		seed{"constr121", enc(Tag(121, A(U(1), B([]byte{7}))))}, seed{"constr101", enc(Tag(101, A(U(200), A(U(1)))))}, seed{"constr1280", enc(Tag(1280, A(U(1))))}))
	add(dec[cbor.Rat]("cbor.Decode(*cbor.Rat)", true, seed{"rat", enc(Tag(30, A(U(1), U(3))))}))
	add(dec[cbor.Set]("cbor.Decode(*cbor.Set)", true, seed{"set", enc(Tag(258, A(U(1), U(2))))}))
	add(dec[cbor.Map]("cbor.Decode(*cbor.Map)", true, seed{"map", enc(Tag(259, M(U(1), U(2), T("a"), A(U(3)))))}))
	add(dec[cbor.SetType[uint64]]("cbor.Decode(*cbor.SetType[uint64])", true, seed{"set", enc(Tag(258, A(U(1), U(2))))}, seed{"set-untagged", enc(A(U(1), U(2)))}))
	add(&decoder{name: "cbor.DecodeIdFromList", cheap: true, seeds: []seed{{"idlist", enc(A(U(3), T("x")))}, {"idlist-wide", enc(A(U(300), T("x")))}}, fn: func(b []byte) error {
		_, err := cbor.DecodeIdFromList(b)
		return err
	}})
	add(&decoder{name: "cbor.ListLength", cheap: true, seeds: []seed{{"list", enc(A(U(3), T("x")))}, rich}, fn: func(b []byte) error {
		_, err := cbor.ListLength(b)
		return err
	}})
	add(&decoder{name: "cbor.DecodeGeneric", cheap: true, seeds: []seed{{"tip", enc(tip())}}, fn: func(b []byte) error {
		var t pcommon.Tip
		return cbor.DecodeGeneric(b, &t)
	}})
	add(&decoder{name: "cbor.DecodeById", cheap: true, seeds: []seed{{"idlist", enc(A(U(0), U(7)))}}, fn: func(b []byte) error {
		type t0 struct {
			cbor.StructAsArray
			Id uint
			V  uint
		}
		_, err := cbor.DecodeById(b, map[int]any{0: &t0{}, 1: &[]any{}})
		return err
	}})
	add(&decoder{name: "cbor.ArrayInfo+MapInfo", cheap: true, seeds: []seed{rich, {"map", enc(M(U(1), U(2)))}}, fn: func(b []byte) error {
		n, _, _ := cbor.ArrayInfo(b)
		m, _, _ := cbor.MapInfo(b)
		if n < 0 && m < 0 {
			return fmt.Errorf("neither")
		}
		return nil
	}})
	add(&decoder{name: "cbor.StreamDecoder", cheap: true, seeds: []seed{rich}, fn: func(b []byte) error {
		var firstErr error
		note := func(err error) {
			if err != nil && firstErr == nil {
				firstErr = err
			}
		}
		if d, err := cbor.NewStreamDecoder(b); err == nil {
			if n, _, _, err := d.DecodeArrayHeader(); err == nil {
				_, _, err = d.SkipN(n)
				note(err)
				_ = d.EOF()
			} else if n, _, _, err := d.DecodeMapHeader(); err == nil {
				for i := 0; i < n; i++ {
					if _, _, err := d.Skip(); err != nil {
						note(err)
						break
					}
					var v any
					if _, _, err := d.DecodeRaw(&v); err != nil {
						note(err)
						break
					}
				}
			} else {
				note(err)
			}
		}
		if d, err := cbor.NewStreamDecoder(b); err == nil {
			_, _, err = d.DecodeArrayItems(func(i, off, l int, data []byte) error {
				_ = d.RawBytes(off, l)
				return nil
			})
			note(err)
		}
		return firstErr
	}})
	// ---- diagnostics ----
	diagSeeds := []seed{rich}
	var txSeeds, blkSeeds []seed
	if len(allTxs) > 0 {
		txSeeds = append(txSeeds, allTxs[len(allTxs)-1])
		for _, s := range allTxs {
			if len(s.b) < 600 && len(txSeeds) < 3 {
				txSeeds = append(txSeeds, s)
			}
		}
	}
	for _, s := range smallBlocks {
		blkSeeds = append(blkSeeds, s)
		r, _ := space.Parse(s.b)
		if r != nil && len(blkSeeds) < 5 {
			blkSeeds = append(blkSeeds, seed{s.name + "-wrapped", enc(Tag(24, B(enc(A(U(2), r)))))}, seed{s.name + "-era", enc(A(U(2), r))})
		}
	}
	add(&decoder{name: "cbor.ParseDiagnostic+Format", cheap: true, seeds: append(diagSeeds, txSeeds...), fn: func(b []byte) error {
		n, err := cbor.ParseDiagnostic(b)
		if err != nil {
			return err
		}
		_ = n.FormatDiagnostic(diagOpts)
		_ = n.FormatDiagnosticPretty(diagOpts)
		_ = n.FormatHexDump(diagOpts)
		_ = n.GetPathToOffset(len(b) / 2)
		_ = n.GetNodeAtOffset(len(b) - 1)
		return nil
	}})
	add(&decoder{name: "cbor.StreamDecoder.DecodeAllDiagnostic", cheap: true, seeds: diagSeeds, fn: func(b []byte) error {
		d, err := cbor.NewStreamDecoder(b)
		if err != nil {
			return err
		}
		_, err = d.DecodeAllDiagnostic()
		return err
	}})
	add(&decoder{name: "cbor.Diagnose", cheap: true, seeds: diagSeeds, fn: func(b []byte) error {
		_, err := cbor.Diagnose(b, diagOpts)
		return err
	}})
	add(&decoder{name: "cbor.DiagnoseTransaction", seeds: txSeeds, fn: func(b []byte) error {
		_, err := cbor.DiagnoseTransaction(b, diagOpts)
		return err
	}})
	add(&decoder{name: "cbor.DiagnoseBlock", seeds: blkSeeds, fn: func(b []byte) error {
		_, err := cbor.DiagnoseBlock(b, diagOpts)
		return err
	}})
	add(&decoder{name: "cbor.FormatTransactionDiagnostic", seeds: txSeeds, fn: func(b []byte) error {
		_, err := cbor.FormatTransactionDiagnostic(b, diagOpts)
		return err
	}})
	add(&decoder{name: "cbor.FormatBlockDiagnostic", seeds: blkSeeds, fn: func(b []byte) error {
		_, err := cbor.FormatBlockDiagnostic(b, diagOpts)
		return err
	}})
	pd := seed{"plutus-data", enc(Tag(121, space.AIndef(U(1), B([]byte{1, 2}), M(U(1), Tag(122, A())), space.AIndef(U(2), Tag(102, A(U(9), A(U(1))))), Tag(2, B(pat(9, 1))))))}
	add(&decoder{name: "cbor.FormatPlutusData", cheap: true, seeds: []seed{pd}, fn: func(b []byte) error {
		_, err := cbor.FormatPlutusData(b, diagOpts)
		return err
	}})
	ns := seed{"native-script", enc(A(U(1), A(A(U(0), B(hash28)), A(U(3), U(1), A(A(U(4), U(100)), A(U(5), U(200)), A(U(2), A(A(U(0), B(hash28)))))))))}
	add(&decoder{name: "cbor.FormatNativeScript", cheap: true, seeds: []seed{ns}, fn: func(b []byte) error {
		_, err := cbor.FormatNativeScript(b, diagOpts)
		return err
	}})
	add(&decoder{name: "cbor.Decode(*any)+DumpCborStructure", cheap: true, seeds: []seed{rich}, fn: func(b []byte) error {
		var v any
		if _, err := cbor.Decode(b, &v); err != nil {
			return err
		}
		_ = cbor.DumpCborStructure(v, "", 300)
		return nil
	}})
	sweep := map[string]bool{
		"cbor.Decode(*cbor.Value)": true, "cbor.Decode(*any)": true, "cbor.ParseDiagnostic+Format": true,
		"cbor.DecodeIdFromList": true, "cbor.Decode(*pcommon.Point)": true, "protocol.NewVersionDataNtN13andUpFromCbor": true,
		"lcommon.NewAddressFromBytes": true, "lcommon.NewAddress(string)": true, "ledger.NewTransactionOutputFromCbor": true,
		"lcommon.DecodeMetadatumRaw": true, "lcommon.(*LeiosEndorserBlock).UnmarshalCBOR(direct)": true,
	}
	for _, d := range ds {
		d.sweep3 = sweep[d.name]
	}
	sort.SliceStable(ds, func(i, j int) bool { return ds[i].name < ds[j].name })
	// de-duplicate seeds by content within a decoder
	for _, d := range ds {
		var out []seed
		for _, s := range d.seeds {
			dup := false
			for _, o := range out {
				if bytes.Equal(o.b, s.b) {
					dup = true
				}
			}
			if !dup && len(s.b) > 0 {
				out = append(out, s)
			}
		}
		d.seeds = out
	}
	return ds
}

func hx(b []byte) string { return hex.EncodeToString(b) }
