// C02: decoders are total on arbitrary bytes — never panic, never loop forever, memory
// proportional to the input size rather than to lengths claimed inside the input.
//
// Bounded exhaustive enumeration (no sampling): for every public decoder
//
//	(i)  ALL byte strings of length <=2 (<=3 for the cheap decoders in the thorough tier),
//	(ii) for every valid encoding ("seed") of that decoder: truncation at every offset, every
//	     single-byte substitution (all 255 values if the seed is <=256 B, else the 16
//	     type-confusing values), every length-field inflation to {len+1, 2^16, 2^32-1, 2^63},
//	     every tag renumbering / tag wrapping, every node replaced by nests of depth
//	     {16,64,255,256,257,1024,10000} in 9 shapes, and the same tree mutations inside
//	     embedded CBOR (byte strings holding CBOR) with the outer lengths corrected.
//
// Oracle (independent of the repository: it is the property statement itself): the call
// returns (value or error) without panicking; it does not take >=20 s of CPU (believed only
// after 5 reproductions); its runtime.MemStats.TotalAlloc delta is <= allocBase +
// allocPerByte*len(input); and the process does not die with a Go fatal error.
//
// Memory bound, as calibrated (see evidence keys calibration_* / closest_to_alloc_bound_*):
// allocBase + allocPerByte*len*D with D = nesting depth of the input (1..256, own scanner,
// embedded CBOR entered for two levels). A flat bound (no D) flagged cbor.Value / diagnostics /
// DumpCborStructure, whose cost is Theta(depth^2) with depth capped at 256 by MaxNestedLevels
// (80 MB for a 511-byte map-key nest): that is a constant factor of the designed per-level
// re-decoding, not allocation driven by a claimed length, so D was introduced and those cases
// are not violations (worst legitimate case: 0.18 of the bound).
//
// Findings on the unchanged tree are in known_candidates.jsonl (3 root causes, 5 keys).
//
// The decoder calls run in WORKER SUBPROCESSES (this binary re-executed with "-worker"),
// each with RLIMIT_AS = 4 GiB, GOMAXPROCS(1) and a memory-mapped journal holding the index of
// the input about to be tried, so that a fatal error / OOM / hang is attributed to one input.
package main

import (
	"bufio"
	"encoding/binary"
	"encoding/hex"
	"encoding/json"
	"fmt"
	"hash/fnv"
	"io"
	"os"
	"os/exec"
	"path/filepath"
	"runtime"
	"runtime/debug"
	"runtime/pprof"
	"sort"
	"strconv"
	"strings"
	"sync"
	"syscall"
	"time"

	"verif/vlib"
)

// ---- memory oracle constants (calibration: see evidence "calibration") ----
const (
	allocBase    = 4 * 64 << 10 // 64 KiB·k, k=4
	allocPerByte = 4096
	rlimitAS     = 4 << 30
	hangCPU      = 20 * time.Second
	hangRepeats  = 5
	// quick tier: seeds above this size get substitution at item-head bytes only and are
	// skipped by the "heavy" variant decoders; the thorough tier treats every seed in full
	quickFullSeed = 1100
	quickMaxSeeds = 3
)

// allocBoundOf: base + c * len * D, D = nesting depth of the input (1..256) as seen by the
// harness's own scanner.
func allocBoundOf(in []byte) uint64 {
	d := scanDepth(in)
	if d < 1 {
		d = 1
	}
	if d > 256 {
		d = 256
	}
	return allocBase + allocPerByte*uint64(len(in))*uint64(d)
}

func allocBound(n int) uint64 { return allocBase + allocPerByte*uint64(n) }

const repoPrefix = "github.com/blinklabs-io/gouroboros/"

// ---- families of a decoder (same in supervisor and worker) ----

func decoderFamilies(d *decoder, thorough bool) []family {
	var fams []family
	fams = append(fams, bytesOfLen(0), bytesOfLen(1), bytesOfLen(2))
	if thorough && d.sweep3 {
		fams = append(fams, bytesOfLen(3))
	}
	fams = append(fams, standaloneNests(!thorough))
	maxPos := 24
	if thorough {
		maxPos = 400
	}
	for si, s := range d.seeds {
		if !thorough && si >= quickMaxSeeds {
			break // quick tier: the first few seeds of a decoder; the thorough tier takes all
		}
		if !thorough && strings.HasPrefix(s.name, "t-") {
			continue // seed reserved for the thorough tier (very large artefact)
		}
		big := len(s.b) > quickFullSeed
		if big && (d.smallOnly || (!thorough && d.heavy)) {
			continue // variant decoders: with-offsets takes the large blocks in the thorough tier only, skip-body-hash never (same decode path as the default configuration)
		}
		sf := seedFamilies(s.name, s.b, !d.notCbor, maxPos, 0, !thorough && big, !thorough)
		fams = append(fams, sf...)
		if d.post != nil {
			for _, f := range sf {
				if strings.HasPrefix(f.name, "emb/") {
					f := f
					g := f
					g.name = "crcfix/" + f.name
					g.get = func(i int) []byte {
						v := f.get(i)
						if v == nil {
							return nil
						}
						return d.post(v)
					}
					fams = append(fams, g)
				}
			}
		}
	}
	return fams
}

// ---- worker protocol ----

type unitCmd struct {
	Unit     int    `json:"unit"`
	Dec      string `json:"dec"`
	Fam      int    `json:"fam"`
	Lo       int    `json:"lo"`
	Hi       int    `json:"hi"`
	Thorough bool   `json:"thorough"`
	NoWarm   bool   `json:"nowarm"`
	RawHex   string `json:"rawhex,omitempty"` // single explicit input (replay)
	est      float64
	slen     int
}

type violRec struct {
	Idx   int    `json:"idx"`
	Kind  string `json:"kind"` // panic | alloc
	Frame string `json:"frame,omitempty"`
	What  string `json:"what"`
	Alloc uint64 `json:"alloc,omitempty"`
	Len   int    `json:"len"`
	Hex   string `json:"hex"`
}

type calibRec struct {
	Seed  string `json:"seed"`
	Len   int    `json:"len"`
	Alloc uint64 `json:"alloc"`
	Ok    bool   `json:"accepted"`
}

type unitRes struct {
	Unit      int        `json:"unit"`
	N         int64      `json:"n"`
	Skipped   int64      `json:"skipped"`
	Distinct  int64      `json:"distinct"`
	Ok        int64      `json:"ok"`
	Err       int64      `json:"err"`
	Panic     int64      `json:"panic"`
	AllocV    int64      `json:"allocv"`
	Viol      []violRec  `json:"viol,omitempty"`
	Calib     []calibRec `json:"calib,omitempty"`
	MaxAlloc  uint64     `json:"maxalloc"` // largest single-call (or batch) TotalAlloc delta seen
	MaxLen    int        `json:"maxlen"`
	MaxFracIn string     `json:"maxfracin,omitempty"`
	MaxFrac   float64    `json:"maxfrac"` // largest alloc delta as a fraction of the bound (batch delta vs bound of the shortest input = upper bound)
	Sample    *violRec   `json:"sample,omitempty"`
	ErrText   string     `json:"errtext,omitempty"`
	CPUms     int64      `json:"cpums"`
}

// ---- worker ----

type callResult struct {
	err      error
	panicked bool
	pval     string
	frame    string
}

var curResult callResult

// call runs the decoder on one input with panic recovery. It must not allocate on the
// non-panicking path (it runs inside the TotalAlloc window).
func call(fn func([]byte) error, in []byte) {
	curResult = callResult{}
	defer func() {
		if r := recover(); r != nil {
			curResult.panicked = true
			curResult.pval = fmt.Sprint(r)
			curResult.frame = topRepoFrame()
		}
	}()
	curResult.err = fn(in)
}

func topRepoFrame() string {
	pcs := make([]uintptr, 128)
	n := runtime.Callers(3, pcs)
	fr := runtime.CallersFrames(pcs[:n])
	for {
		f, more := fr.Next()
		if strings.HasPrefix(f.Function, repoPrefix) {
			return strings.TrimPrefix(f.Function, repoPrefix)
		}
		if !more {
			break
		}
	}
	return "?"
}

func workerMain(args []string) {
	runtime.GOMAXPROCS(1)
	debug.SetTraceback("single")
	lim := syscall.Rlimit{Cur: rlimitAS, Max: rlimitAS}
	_ = syscall.Setrlimit(syscall.RLIMIT_AS, &lim)
	jf, err := os.OpenFile(args[0], os.O_RDWR, 0o644)
	if err != nil {
		fmt.Fprintln(os.Stderr, "worker: journal:", err)
		os.Exit(3)
	}
	jm, err := syscall.Mmap(int(jf.Fd()), 0, 64, syscall.PROT_READ|syscall.PROT_WRITE, syscall.MAP_SHARED)
	if err != nil {
		fmt.Fprintln(os.Stderr, "worker: mmap:", err)
		os.Exit(3)
	}
	var seq uint64
	journal := func(unit int, idx int) {
		seq++
		binary.LittleEndian.PutUint64(jm[0:], uint64(int64(unit)))
		binary.LittleEndian.PutUint64(jm[8:], uint64(int64(idx)))
		binary.LittleEndian.PutUint64(jm[16:], seq)
	}
	decs := map[string]*decoder{}
	for _, d := range allDecoders() {
		decs[d.name] = d
	}
	famCache := map[string][]family{}
	warmed := map[string]bool{}
	out := bufio.NewWriter(os.Stdout)
	sc := bufio.NewScanner(os.Stdin)
	sc.Buffer(make([]byte, 1<<20), 64<<20)
	var ms0, ms1 runtime.MemStats
	measure := func(fn func([]byte) error, in []byte) uint64 {
		runtime.ReadMemStats(&ms0)
		call(fn, in)
		runtime.ReadMemStats(&ms1)
		return ms1.TotalAlloc - ms0.TotalAlloc
	}
	for sc.Scan() {
		var u unitCmd
		if json.Unmarshal(sc.Bytes(), &u) != nil {
			continue
		}
		res := unitRes{Unit: u.Unit}
		cpu0 := selfCPU()
		d := decs[u.Dec]
		if d == nil {
			res.ErrText = "unknown decoder"
			b, _ := json.Marshal(res)
			out.Write(b)
			out.WriteByte('\n')
			out.Flush()
			continue
		}
		// warm-up: each seed once unmeasured (type caches, sync.Once decoder modes), then once
		// measured (calibration data). journal idx = -(1+seed index).
		if !warmed[d.name] && !u.NoWarm {
			for si, s := range d.seeds {
				journal(u.Unit, -(1 + si))
				call(d.fn, append([]byte(nil), s.b...))
				call(d.fn, []byte{})
				call(d.fn, []byte{0x80})
				a := measure(d.fn, append([]byte(nil), s.b...))
				res.Calib = append(res.Calib, calibRec{Seed: s.name, Len: len(s.b), Alloc: a, Ok: curResult.err == nil && !curResult.panicked})
			}
			warmed[d.name] = true
		}
		var get func(i int) []byte
		famName := "raw"
		if u.RawHex != "" || (u.Fam < 0) {
			raw, _ := hex.DecodeString(u.RawHex)
			get = func(int) []byte { return raw }
			u.Lo, u.Hi = 0, 1
		} else {
			fk := d.name + "|" + strconv.FormatBool(u.Thorough)
			fams, ok := famCache[fk]
			if !ok {
				journal(u.Unit, -1000000)
				fams = decoderFamilies(d, u.Thorough)
				famCache[fk] = fams
			}
			if u.Fam >= len(fams) {
				res.ErrText = "family index out of range"
				b, _ := json.Marshal(res)
				out.Write(b)
				out.WriteByte('\n')
				out.Flush()
				continue
			}
			get = fams[u.Fam].get
			famName = fams[u.Fam].name
		}
		hashing := !strings.HasPrefix(famName, "bytes=")
		seen := map[uint64]struct{}{}
		const maxBatch = 64
		var batch [maxBatch][]byte
		var bidx [maxBatch]int
		var bres [maxBatch]callResult
		record := func(idx int, in []byte, r callResult, alloc uint64, allocKnown bool) {
			res.N++
			switch {
			case r.panicked:
				res.Panic++
				if len(res.Viol) < 40 {
					res.Viol = append(res.Viol, violRec{Idx: idx, Kind: "panic", Frame: r.frame, What: r.pval, Len: len(in), Hex: hex.EncodeToString(in)})
				}
			case r.err == nil:
				res.Ok++
			default:
				res.Err++
			}
			if allocKnown && alloc > allocBoundOf(in) {
				res.AllocV++
				if len(res.Viol) < 40 {
					res.Viol = append(res.Viol, violRec{Idx: idx, Kind: "alloc", What: fmt.Sprintf("TotalAlloc delta %d B for a %d B input of nesting depth %d (bound %d)", alloc, len(in), scanDepth(in), allocBoundOf(in)), Alloc: alloc, Len: len(in), Hex: hex.EncodeToString(in)})
				}
			}
			if res.Sample == nil && len(in) > 0 && len(in) <= 64 && idx%7 == 3 {
				o := "err"
				if r.err == nil {
					o = "ok"
				}
				if r.panicked {
					o = "panic"
				}
				what := o
				if r.err != nil {
					what = o + ": " + firstN(r.err.Error(), 120)
				}
				res.Sample = &violRec{Idx: idx, Kind: o, What: what, Len: len(in), Hex: hex.EncodeToString(in)}
			}
		}
		i := u.Lo
		for i < u.Hi {
			nb := 0
			minBound := uint64(1) << 62
			budget := 65536
			for nb < maxBatch && i < u.Hi && budget > 0 {
				in := get(i)
				if in == nil {
					res.Skipped++
					i++
					continue
				}
				if hashing {
					h := fnv.New64a()
					h.Write(in)
					k := h.Sum64()
					if _, dup := seen[k]; !dup {
						seen[k] = struct{}{}
						res.Distinct++
					}
				} else {
					res.Distinct++
				}
				batch[nb], bidx[nb] = in, i
				if bd := allocBoundOf(in); bd < minBound {
					minBound = bd
				}
				if len(in) > res.MaxLen {
					res.MaxLen = len(in)
				}
				budget -= len(in) + 64
				nb++
				i++
			}
			if nb == 0 {
				continue
			}
			runtime.ReadMemStats(&ms0)
			for j := 0; j < nb; j++ {
				journal(u.Unit, bidx[j])
				call(d.fn, batch[j])
				bres[j] = curResult
			}
			runtime.ReadMemStats(&ms1)
			delta := ms1.TotalAlloc - ms0.TotalAlloc
			if delta <= minBound {
				// every call of the batch is within the bound of the shortest input
				if delta > res.MaxAlloc {
					res.MaxAlloc = delta
				}
				if nb == 1 {
					if f := float64(delta) / float64(minBound); f > res.MaxFrac {
						res.MaxFrac = f
						res.MaxFracIn = fmt.Sprintf("%s len=%d depth=%d alloc=%d idx=%d", vlib.Hex(batch[0]), len(batch[0]), scanDepth(batch[0]), delta, bidx[0])
					}
				}
				for j := 0; j < nb; j++ {
					record(bidx[j], batch[j], bres[j], 0, false)
				}
			} else {
				// measure each call on its own; an excess must reproduce on a second (warm)
				// measurement to count (lazy caches fill on first use)
				for j := 0; j < nb; j++ {
					journal(u.Unit, bidx[j])
					a := measure(d.fn, batch[j])
					r := curResult
					if a > allocBoundOf(batch[j]) {
						journal(u.Unit, bidx[j])
						a2 := measure(d.fn, batch[j])
						if a2 < a {
							a = a2
						}
					}
					if a > res.MaxAlloc {
						res.MaxAlloc = a
					}
					if f := float64(a) / float64(allocBoundOf(batch[j])); f > res.MaxFrac && f <= 1 {
						res.MaxFrac = f
						res.MaxFracIn = fmt.Sprintf("%s len=%d depth=%d alloc=%d idx=%d", vlib.Hex(batch[j]), len(batch[j]), scanDepth(batch[j]), a, bidx[j])
					}
					record(bidx[j], batch[j], r, a, true)
				}
			}
			for j := 0; j < nb; j++ {
				batch[j] = nil
			}
		}
		journal(u.Unit, -2000000)
		res.CPUms = int64((selfCPU() - cpu0) / time.Millisecond)
		b, _ := json.Marshal(res)
		out.Write(b)
		out.WriteByte('\n')
		out.Flush()
	}
}

func selfCPU() time.Duration {
	var ru syscall.Rusage
	if syscall.Getrusage(syscall.RUSAGE_SELF, &ru) != nil {
		return 0
	}
	return time.Duration(ru.Utime.Nano() + ru.Stime.Nano())
}

func firstN(s string, n int) string {
	if len(s) > n {
		return s[:n] + "…"
	}
	return s
}

// ---- supervisor ----

type worker struct {
	cmd     *exec.Cmd
	stdin   io.WriteCloser
	rd      *bufio.Reader
	stderr  *tailBuf
	jpath   string
	jfile   *os.File
	killed  string // reason set by the watchdog before killing
	mu      sync.Mutex
	stopWd  chan struct{}
	started time.Time
}

type tailBuf struct {
	mu  sync.Mutex
	buf []byte
}

func (t *tailBuf) Write(p []byte) (int, error) {
	t.mu.Lock()
	if len(t.buf) < 24<<10 {
		room := 24<<10 - len(t.buf)
		if room > len(p) {
			room = len(p)
		}
		t.buf = append(t.buf, p[:room]...)
	}
	t.mu.Unlock()
	return len(p), nil
}

func (t *tailBuf) String() string {
	t.mu.Lock()
	defer t.mu.Unlock()
	return string(t.buf)
}

var workDir string

func startWorker(id string) (*worker, error) {
	w := &worker{jpath: filepath.Join(workDir, "journal-"+id), stderr: &tailBuf{}, stopWd: make(chan struct{})}
	if err := os.WriteFile(w.jpath, make([]byte, 64), 0o644); err != nil {
		return nil, err
	}
	jf, err := os.Open(w.jpath)
	if err != nil {
		return nil, err
	}
	w.jfile = jf
	self, err := os.Executable()
	if err != nil {
		return nil, err
	}
	w.cmd = exec.Command(self, "-worker", w.jpath)
	w.cmd.Env = append(os.Environ(), "GOTRACEBACK=single", "GOGC=100", "C02_FIXTURES_WRITE=0")
	w.cmd.Stderr = w.stderr
	w.stdin, err = w.cmd.StdinPipe()
	if err != nil {
		return nil, err
	}
	so, err := w.cmd.StdoutPipe()
	if err != nil {
		return nil, err
	}
	w.rd = bufio.NewReaderSize(so, 1<<20)
	if err := w.cmd.Start(); err != nil {
		return nil, err
	}
	w.started = time.Now()
	go w.watchdog()
	return w, nil
}

func (w *worker) journal() (unit int, idx int, seq uint64) {
	var b [24]byte
	if _, err := w.jfile.ReadAt(b[:], 0); err != nil {
		return 0, 0, 0
	}
	return int(int64(binary.LittleEndian.Uint64(b[0:]))), int(int64(binary.LittleEndian.Uint64(b[8:]))), binary.LittleEndian.Uint64(b[16:])
}

// cpuTime returns utime+stime of the worker process.
func (w *worker) cpuTime() time.Duration {
	b, err := os.ReadFile(fmt.Sprintf("/proc/%d/stat", w.cmd.Process.Pid))
	if err != nil {
		return 0
	}
	s := string(b)
	if k := strings.LastIndexByte(s, ')'); k >= 0 {
		s = s[k+2:]
	}
	f := strings.Fields(s)
	if len(f) < 13 {
		return 0
	}
	ut, _ := strconv.ParseInt(f[11], 10, 64)
	st, _ := strconv.ParseInt(f[12], 10, 64)
	return time.Duration(ut+st) * (time.Second / 100)
}

func (w *worker) watchdog() {
	var lastSeq uint64
	mark := w.cpuTime()
	wallMark := time.Now()
	t := time.NewTicker(250 * time.Millisecond)
	defer t.Stop()
	for {
		select {
		case <-w.stopWd:
			return
		case <-t.C:
		}
		_, _, seq := w.journal()
		cpu := w.cpuTime()
		if seq != lastSeq {
			lastSeq, mark, wallMark = seq, cpu, time.Now()
			continue
		}
		if seq == 0 {
			continue // idle / starting
		}
		_, idx, _ := w.journal()
		if idx == -2000000 {
			mark, wallMark = cpu, time.Now()
			continue // between units
		}
		if cpu-mark >= hangCPU {
			w.mu.Lock()
			w.killed = "hang"
			w.mu.Unlock()
			_ = w.cmd.Process.Kill()
			return
		}
		if time.Since(wallMark) > 5*time.Minute {
			w.mu.Lock()
			w.killed = "stall"
			w.mu.Unlock()
			_ = w.cmd.Process.Kill()
			return
		}
	}
}

func (w *worker) stop() {
	select {
	case <-w.stopWd:
	default:
		close(w.stopWd)
	}
	_ = w.stdin.Close()
	_ = w.cmd.Process.Kill()
	_ = w.cmd.Wait()
	_ = w.jfile.Close()
	_ = os.Remove(w.jpath)
}

// run sends one unit and waits for the result; crashed=true when the worker died.
func (w *worker) run(u unitCmd) (res unitRes, crashed bool) {
	b, _ := json.Marshal(u)
	if _, err := w.stdin.Write(append(b, '\n')); err != nil {
		return res, true
	}
	line, err := w.rd.ReadBytes('\n')
	if err != nil {
		return res, true
	}
	if json.Unmarshal(line, &res) != nil {
		return res, true
	}
	return res, false
}

type decStats struct {
	n, ok, err, panics, allocv, skipped, distinct int64
	fatal, hang                                   int64
	maxAlloc                                      uint64
	maxFrac                                       float64
	maxFracIn                                     string
	cpums                                         int64
	famCPU                                        map[string]int64
	units, unitsDone                              int
	crashes                                       int
	abandoned                                     bool
	families                                      map[string]int64
}

type supervisor struct {
	c        *vlib.Check
	decs     []*decoder
	byName   map[string]*decoder
	fams     map[string][]family
	mu       sync.Mutex
	stats    map[string]*decStats
	calib    map[string][]calibRec
	seedRej  []string
	keyCount map[string]int
	queue    []unitCmd
	nextUnit int
	inflight int
	cond     *sync.Cond
	deadline time.Time
	expired  bool
	// budget: the work a quiet 16-core machine does inside the tier's wall budget, counted in
	// worker CPU time, plus a hard wall cap (deadline) for a loaded machine
	cpuSpentMs, cpuBudgetMs int64
	widSeq                  int
	samples                 int
	notes                   map[string]bool
}

func (s *supervisor) note(msg string) {
	s.mu.Lock()
	if !s.notes[msg] {
		s.notes[msg] = true
		s.c.Note(msg)
	}
	s.mu.Unlock()
}

func (s *supervisor) newWorker() *worker {
	s.mu.Lock()
	s.widSeq++
	id := strconv.Itoa(s.widSeq)
	s.mu.Unlock()
	w, err := startWorker(id)
	if err != nil {
		s.c.Internal("cannot start worker: %v", err)
	}
	return w
}

// inputOf regenerates the input of (decoder, family, idx) in the supervisor.
func (s *supervisor) inputOf(u unitCmd, idx int) []byte {
	d := s.byName[u.Dec]
	if idx < 0 && idx > -1000000 {
		si := -idx - 1
		if si < len(d.seeds) {
			return d.seeds[si].b
		}
		return nil
	}
	if u.RawHex != "" {
		b, _ := hex.DecodeString(u.RawHex)
		return b
	}
	s.mu.Lock()
	defer s.mu.Unlock()
	fams := s.fams[u.Dec]
	if u.Fam < 0 || u.Fam >= len(fams) || idx < 0 || idx >= fams[u.Fam].n {
		return nil
	}
	return fams[u.Fam].get(idx)
}

// single runs one explicit input in a fresh worker and classifies the outcome.
// returns kind: "ok" | "panic" | "alloc" | "fatal" | "hang" and details.
func (s *supervisor) single(dec string, in []byte) (kind string, detail string, vr *violRec) {
	w := s.newWorker()
	defer w.stop()
	res, crashed := w.run(unitCmd{Unit: 1, Dec: dec, Fam: -1, RawHex: hex.EncodeToString(in), Thorough: s.c.Thorough()})
	if crashed {
		_ = w.cmd.Wait()
		w.mu.Lock()
		k := w.killed
		w.mu.Unlock()
		_, idx, _ := w.journal()
		if idx < 0 && idx > -1000000 && len(in) > 0 {
			// died during warm-up on a seed, not on the input under test
			return "warmup-crash", fatalSummary(w.stderr.String()), nil
		}
		if k == "hang" {
			return "hang", "", nil
		}
		if k == "stall" {
			return "stall", "", nil
		}
		return "fatal", fatalSummary(w.stderr.String()), nil
	}
	for i := range res.Viol {
		v := res.Viol[i]
		return v.Kind, v.What, &v
	}
	return "ok", "", nil
}

func fatalSummary(stderr string) string {
	lines := strings.Split(stderr, "\n")
	var first, frame string
	for _, l := range lines {
		lt := strings.TrimSpace(l)
		if first == "" && (strings.HasPrefix(lt, "fatal error:") || strings.HasPrefix(lt, "runtime:") || strings.HasPrefix(lt, "panic:") || strings.HasPrefix(lt, "signal") || strings.HasPrefix(lt, "SIG")) {
			first = lt
		}
		if frame == "" && strings.HasPrefix(lt, repoPrefix) && !strings.Contains(lt, "/verif/") {
			if k := strings.IndexByte(lt, '('); k > 0 {
				// function name up to the argument list (keep receiver parentheses)
				name := lt
				if j := strings.LastIndex(lt, "("); j > 0 {
					name = lt[:j]
				}
				frame = strings.TrimPrefix(name, repoPrefix)
			}
		}
	}
	if first == "" {
		first = firstN(strings.TrimSpace(stderr), 200)
	}
	if first == "" {
		first = "worker died without output (killed by the kernel?)"
	}
	if frame != "" {
		return first + " @ " + frame
	}
	return first
}

func (s *supervisor) report(dec, kind, frame, what string, in []byte, extra map[string]any) {
	key := dec + "|" + kind
	if kind == "panic" {
		key = dec + "|panic:" + frame
	}
	rp := map[string]any{"decoder": dec, "input_hex": hex.EncodeToString(in), "input_len": len(in)}
	for k, v := range extra {
		rp[k] = v
	}
	s.mu.Lock()
	s.keyCount[key]++
	s.mu.Unlock()
	s.c.Violation(key, fmt.Sprintf("%s on a %d-byte input %s: %s", kind, len(in), vlib.Hex(in), firstN(what, 400)), rp)
}

func (s *supervisor) handleResult(u unitCmd, res unitRes) {
	s.mu.Lock()
	st := s.stats[u.Dec]
	st.n += res.N
	st.ok += res.Ok
	st.err += res.Err
	st.panics += res.Panic
	st.allocv += res.AllocV
	st.skipped += res.Skipped
	st.distinct += res.Distinct
	if res.MaxAlloc > st.maxAlloc {
		st.maxAlloc = res.MaxAlloc
	}
	if res.MaxFrac > st.maxFrac {
		st.maxFrac = res.MaxFrac
		st.maxFracIn = s.famNameLocked(u) + " " + res.MaxFracIn
	}
	st.cpums += res.CPUms
	s.cpuSpentMs += res.CPUms
	if fams := s.fams[u.Dec]; u.Fam >= 0 && u.Fam < len(fams) {
		st.families[fams[u.Fam].name] += res.N
		if st.famCPU == nil {
			st.famCPU = map[string]int64{}
		}
		st.famCPU[fams[u.Fam].name] += res.CPUms
	}
	if len(res.Calib) > 0 && s.calib[u.Dec] == nil {
		s.calib[u.Dec] = res.Calib
		for _, cr := range res.Calib {
			if !cr.Ok && !strings.HasPrefix(cr.Seed, "x-") {
				s.seedRej = append(s.seedRej, u.Dec+"/"+cr.Seed)
			}
		}
	}
	takeSample := res.Sample != nil && s.samples < 12 && (s.samples < 4 || res.Sample.Kind == "ok")
	if takeSample {
		s.samples++
	}
	s.mu.Unlock()
	if takeSample {
		s.c.Sample(map[string]any{"decoder": u.Dec, "input_hex": res.Sample.Hex, "outcome": res.Sample.What})
	}
	for _, v := range res.Viol {
		in, _ := hex.DecodeString(v.Hex)
		s.report(u.Dec, v.Kind, v.Frame, v.What, in, map[string]any{"family": s.famName(u), "index": v.Idx, "alloc": v.Alloc})
	}
}

func (s *supervisor) famName(u unitCmd) string {
	s.mu.Lock()
	defer s.mu.Unlock()
	return s.famNameLocked(u)
}

func (s *supervisor) famNameLocked(u unitCmd) string {
	if fams := s.fams[u.Dec]; u.Fam >= 0 && u.Fam < len(fams) {
		return fams[u.Fam].name + "/" + fams[u.Fam].seed
	}
	return "raw"
}

// take returns the next unit, or ok=false when everything is done.
func (s *supervisor) take() (unitCmd, bool) {
	s.mu.Lock()
	defer s.mu.Unlock()
	for {
		if !s.expired && (time.Now().After(s.deadline) || s.cpuSpentMs >= s.cpuBudgetMs) {
			s.expired = true
		}
		if s.expired {
			return unitCmd{}, false
		}
		for len(s.queue) > 0 {
			u := s.queue[0]
			s.queue = s.queue[1:]
			if s.stats[u.Dec].abandoned {
				continue
			}
			s.inflight++
			return u, true
		}
		if s.inflight == 0 {
			return unitCmd{}, false
		}
		s.cond.Wait()
	}
}

func (s *supervisor) done(u unitCmd, completed bool) {
	s.mu.Lock()
	s.inflight--
	if completed {
		s.stats[u.Dec].unitsDone++
	}
	s.cond.Broadcast()
	s.mu.Unlock()
}

func (s *supervisor) requeue(u unitCmd) {
	s.mu.Lock()
	s.queue = append([]unitCmd{u}, s.queue...)
	s.stats[u.Dec].units++
	s.cond.Broadcast()
	s.mu.Unlock()
}

func (s *supervisor) workerLoop() {
	w := s.newWorker()
	defer func() { w.stop() }()
	for {
		u, ok := s.take()
		if !ok {
			return
		}
		res, crashed := w.run(u)
		if !crashed {
			if res.ErrText != "" {
				s.c.Internal("worker: %s (unit %+v)", res.ErrText, u)
			}
			s.handleResult(u, res)
			s.done(u, true)
			continue
		}
		// the worker died: attribute to the journaled input
		_ = w.cmd.Wait()
		w.mu.Lock()
		reason := w.killed
		w.mu.Unlock()
		junit, idx, _ := w.journal()
		stderr := w.stderr.String()
		w.stop()
		w = s.newWorker()
		if junit != u.Unit || idx == -2000000 || idx == -1000000 {
			s.note(fmt.Sprintf("worker died outside a decoder call (unit %d, journal unit %d idx %d, reason %q): %s — unit re-queued once", u.Unit, junit, idx, reason, firstN(fatalSummary(stderr), 200)))
			s.c.NotExhaustive("a worker died outside a decoder call; see notes")
			s.done(u, false)
			continue
		}
		in := s.inputOf(u, idx)
		s.mu.Lock()
		st := s.stats[u.Dec]
		st.crashes++
		crashes := st.crashes
		s.mu.Unlock()
		if in == nil {
			s.note(fmt.Sprintf("cannot regenerate input %d of unit %+v after a worker crash", idx, u))
		} else {
			s.confirmCrash(u, idx, in, reason, stderr)
		}
		// continue the unit after the crashing input
		if idx < 0 {
			u2 := u
			u2.NoWarm = true
			s.requeue(u2)
		} else {
			// results of [lo, idx) died with the worker: run that part again, then the rest
			if idx+1 < u.Hi {
				u2 := u
				u2.Lo = idx + 1
				s.requeue(u2)
			}
			if idx > u.Lo {
				u3 := u
				u3.Hi = idx
				s.requeue(u3)
			}
		}
		if crashes >= 60 {
			s.mu.Lock()
			if !st.abandoned {
				st.abandoned = true
				s.mu.Unlock()
				s.c.NotExhaustive(fmt.Sprintf("decoder %s abandoned after %d worker crashes (all reported)", u.Dec, crashes))
			} else {
				s.mu.Unlock()
			}
		}
		s.done(u, true) // the unit is finished: its crashing input is handled, the rest re-queued as new units
	}
}

// confirmCrash re-runs the journaled input in fresh workers: once for a fatal error, five
// times for a hang; only a fully reproduced crash is a violation.
func (s *supervisor) confirmCrash(u unitCmd, idx int, in []byte, reason, stderr string) {
	kind := "fatal"
	if reason == "hang" {
		kind = "hang"
	}
	if reason == "stall" {
		s.note(fmt.Sprintf("worker stalled without using CPU on %s input %s — not a verdict", u.Dec, vlib.Hex(in)))
		s.c.NotExhaustive("a worker stalled without CPU use")
		return
	}
	s.mu.Lock()
	already := s.keyCount[u.Dec+"|"+kind]
	s.mu.Unlock()
	if already >= 3 {
		// same decoder, same kind, already reproduced three times: count, do not re-confirm
		s.mu.Lock()
		if kind == "hang" {
			s.stats[u.Dec].hang++
		} else {
			s.stats[u.Dec].fatal++
		}
		s.keyCount[u.Dec+"|"+kind]++
		s.mu.Unlock()
		return
	}
	reps := 1
	if kind == "hang" {
		reps = hangRepeats
	}
	var wg sync.WaitGroup
	kinds := make([]string, reps)
	details := make([]string, reps)
	for r := 0; r < reps; r++ {
		wg.Add(1)
		go func(r int) {
			defer wg.Done()
			kinds[r], details[r], _ = s.single(u.Dec, in)
		}(r)
	}
	wg.Wait()
	for r := 0; r < reps; r++ {
		if kinds[r] != kind {
			s.note(fmt.Sprintf("worker %s on %s input #%d (%s) did not reproduce in a fresh worker (got %q) — not reported", kind, u.Dec, idx, vlib.Hex(in), kinds[r]))
			return
		}
	}
	s.mu.Lock()
	if kind == "hang" {
		s.stats[u.Dec].hang++
	} else {
		s.stats[u.Dec].fatal++
	}
	s.mu.Unlock()
	what := details[0]
	if kind == "hang" {
		what = fmt.Sprintf("call still running after %v of CPU, reproduced %d/%d times in fresh workers", hangCPU, reps, reps)
	}
	if kind == "fatal" && what == "" {
		what = fatalSummary(stderr)
	}
	s.report(u.Dec, kind, "", what, in, map[string]any{"family": s.famName(u), "index": idx})
}

func main() {
	if len(os.Args) >= 3 && os.Args[1] == "-worker" {
		workerMain(os.Args[2:])
		return
	}
	if len(os.Args) >= 5 && os.Args[1] == "-memprof" {
		memprofMain(os.Args[2:])
		return
	}
	if len(os.Args) >= 5 && os.Args[1] == "-bench" {
		benchMain(os.Args[2:])
		return
	}
	if len(os.Args) >= 2 && os.Args[1] == "-seeds" {
		seedsMain()
		return
	}
	c := vlib.New("C02", "exploration")
	workDir = filepath.Join(vlib.Root(), ".work", fmt.Sprintf("c02-%d", os.Getpid()))
	if err := os.MkdirAll(workDir, 0o755); err != nil {
		c.Internal("mkdir: %v", err)
	}
	defer os.RemoveAll(workDir)
	s := &supervisor{c: c, byName: map[string]*decoder{}, fams: map[string][]family{}, stats: map[string]*decStats{},
		calib: map[string][]calibRec{}, keyCount: map[string]int{}, notes: map[string]bool{}}
	s.cond = sync.NewCond(&s.mu)
	os.Setenv("C02_FIXTURES", filepath.Join(workDir, "fixtures.json"))
	os.Setenv("C02_FIXTURES_WRITE", "1")
	s.decs = allDecoders()
	for _, d := range s.decs {
		s.byName[d.name] = d
	}
	if c.Replay != "" {
		replay(s)
		os.RemoveAll(workDir)
		c.Finish()
	}
	s.deadline = c.Deadline(85*time.Second, 840*time.Second)
	s.cpuBudgetMs = 16 * 50 * 1000
	if c.Thorough() {
		s.cpuBudgetMs = 16 * 540 * 1000
	}
	if v, err := strconv.Atoi(os.Getenv("C02_DEADLINE_S")); err == nil && v > 0 {
		s.deadline = time.Now().Add(time.Duration(v) * time.Second)
	}
	if len(fixtures()) == 0 {
		c.Internal("no fixtures")
	}
	// plan
	onlyDec := os.Getenv("C02_ONLY") // development aid: restrict to decoders containing this substring
	var totalInputs int64
	var sel []*decoder
	for _, d := range s.decs {
		if onlyDec == "" || strings.Contains(d.name, onlyDec) {
			sel = append(sel, d)
		}
	}
	built := make([][]family, len(sel))
	vlib.Parallel(len(sel), func(i int) { built[i] = decoderFamilies(sel[i], c.Thorough()) })
	unitID := 0
	for di, d := range sel {
		fams := built[di]
		s.fams[d.name] = fams
		st := &decStats{families: map[string]int64{}}
		s.stats[d.name] = st
		for fi, f := range fams {
			per := 2_000_000 / (f.slen + 40) // ~2 MB of input bytes per unit
			if strings.HasPrefix(f.name, "bytes=") {
				per = 65536
			}
			if per < 16 {
				per = 16
			}
			for lo := 0; lo < f.n; lo += per {
				hi := lo + per
				if hi > f.n {
					hi = f.n
				}
				unitID++
				sl := float64(f.slen + 30)
				s.queue = append(s.queue, unitCmd{Unit: unitID, Dec: d.name, Fam: fi, Lo: lo, Hi: hi, Thorough: c.Thorough(), est: float64(hi-lo) * sl * sl, slen: f.slen})
				st.units++
				totalInputs += int64(hi - lo)
			}
		}
	}
	// small seeds first (units are all ~2 MB of input, so packing is not an issue): if a budget
	// is hit on a loaded machine, what is dropped is the tail of the largest artefacts
	sort.SliceStable(s.queue, func(i, j int) bool { return s.queue[i].slen < s.queue[j].slen })
	nw := runtime.NumCPU()
	if v, err := strconv.Atoi(os.Getenv("C02_WORKERS")); err == nil && v > 0 {
		nw = v
	}
	var wg sync.WaitGroup
	for k := 0; k < nw; k++ {
		wg.Add(1)
		go func() {
			defer wg.Done()
			s.workerLoop()
		}()
	}
	wg.Wait()
	s.finish(totalInputs)
}

func (s *supervisor) finish(planned int64) {
	c := s.c
	var n, ok, er, pn, av, dist, fatal, hang, skipped int64
	unitsTotal, unitsDone := 0, 0
	perDec := map[string]any{}
	var names []string
	for name := range s.stats {
		names = append(names, name)
	}
	sort.Strings(names)
	type ratio struct {
		dec, seed string
		len       int
		alloc     uint64
		frac      float64
	}
	var ratios []ratio
	for _, name := range names {
		st := s.stats[name]
		n += st.n
		ok += st.ok
		er += st.err
		pn += st.panics
		av += st.allocv
		dist += st.distinct
		fatal += st.fatal
		hang += st.hang
		skipped += st.skipped
		unitsTotal += st.units
		unitsDone += st.unitsDone
		perDec[name] = map[string]any{"inputs": st.n, "ok": st.ok, "err": st.err, "panic": st.panics, "alloc_excess": st.allocv,
			"fatal": st.fatal, "hang": st.hang, "cpu_ms": st.cpums, "cpu_ms_by_family": st.famCPU, "max_alloc_delta": st.maxAlloc, "max_fraction_of_bound_within_bound": float64(int(st.maxFrac*1000)) / 1000, "by_family": st.families, "seeds": len(s.byName[name].seeds)}
		for _, cr := range s.calib[name] {
			ratios = append(ratios, ratio{name, cr.Seed, cr.Len, cr.Alloc, float64(cr.Alloc) / float64(allocBound(cr.Len))})
		}
	}
	sort.Slice(ratios, func(i, j int) bool { return ratios[i].frac > ratios[j].frac })
	var top []any
	for i, r := range ratios {
		if i >= 8 {
			break
		}
		top = append(top, map[string]any{"decoder": r.dec, "seed": r.seed, "len": r.len, "alloc": r.alloc, "fraction_of_bound": float64(int(r.frac*1000)) / 1000})
	}
	if s.expired || unitsDone < unitsTotal {
		c.NotExhaustive(fmt.Sprintf("budget (%d CPU-s of workers / wall cap) or abandon: %d of %d units completed, smallest seeds first; %d CPU-s used", s.cpuBudgetMs/1000, unitsDone, unitsTotal, s.cpuSpentMs/1000))
	}
	sort.Strings(s.seedRej)
	c.Set("evaluations", n)
	c.Set("distinct_nontrivial", dist)
	c.Set("outcomes", map[string]int64{"returned-value": ok, "returned-error": er, "panic": pn, "alloc-excess": av, "fatal": fatal, "hang": hang})
	c.Set("rule", "for every decoder: all byte strings of length 0..2 (0..3 for the cheap decoders, thorough tier) + standalone nests (9 shapes x depths) + for every valid seed: truncation at every offset, every single-byte substitution (255 values if seed<=256 B else the 16 type-confusing values), every definite length field inflated to {len+1,2^16,2^32-1,2^63}, every tag renumbered to 15 values / selected nodes wrapped in 6 tags, selected nodes (all when the seed has <=24 nodes (quick) / <=400 (thorough), else an even stride) replaced by 9 nest shapes x 7 depths (4 depths in the quick tier), every integer item (and tag-2/3 bignum) replaced by 13 other integer encodings (bignum zero c240/c24100, same value as bignum, negative bignums, 8-byte uint/nint forms, 0, -1, extremes), and the same tree mutations inside embedded CBOR with outer lengths corrected. A case = (decoder, input bytes); distinct = distinct input bytes per work unit (64-bit FNV, units never span families; same-length variants equal to an enumerated single-byte substitution are removed at generation); identity mutations are skipped and not counted; non-trivial = every counted case (each is a different byte string reaching the real decoder).")
	c.Set("decoders", len(names))
	c.Set("planned_inputs", planned)
	c.Set("skipped_identity", skipped)
	c.Set("units", map[string]int{"total": unitsTotal, "completed": unitsDone})
	c.Set("worker_cpu_s", s.cpuSpentMs/1000)
	c.Set("alloc_bound", fmt.Sprintf("TotalAlloc delta of one call <= %d + %d*len(input)*D bytes, D = nesting depth of the input (1..256, own scanner); RLIMIT_AS %d GiB; hang = %v CPU on one input, %d/%d reproductions", allocBase, allocPerByte, rlimitAS>>30, hangCPU, hangRepeats, hangRepeats))
	c.Set("calibration_top_seed_alloc_fraction_of_bound", top)
	if s.seedRej == nil {
		s.seedRej = []string{}
	}
	c.Set("seeds_rejected_by_their_decoder", s.seedRej)
	var fr []ratio
	for _, name := range names {
		fr = append(fr, ratio{dec: name, frac: s.stats[name].maxFrac, alloc: s.stats[name].maxAlloc, seed: s.stats[name].maxFracIn})
	}
	sort.Slice(fr, func(i, j int) bool { return fr[i].frac > fr[j].frac })
	var topf []any
	for i, r := range fr {
		if i >= 8 {
			break
		}
		topf = append(topf, map[string]any{"decoder": r.dec, "max_fraction_of_bound": float64(int(r.frac*1000)) / 1000, "case": r.seed})
	}
	c.Set("closest_to_alloc_bound_without_exceeding", topf)
	c.Set("per_decoder", perDec)
	c.Assume("the Go runtime's MemStats.TotalAlloc accounting and /proc/<pid>/stat CPU times are trusted")
	c.Assume("decoders are deterministic functions of their input (an alloc excess / crash must reproduce on a second run to count)")
	c.Assume("memory proportionality is measured against a fixed affine bound, not proved (DESIGN §7)")
	os.RemoveAll(workDir)
	// free-running -race pass: concurrent callers decoding their own copies (state shared between calls)
	c.RaceAudit("c02")
	c.Finish()
}

// replay re-runs the single case of a replay file.
func replay(s *supervisor) {
	b, err := os.ReadFile(s.c.Replay)
	if err != nil {
		s.c.Internal("replay: %v", err)
	}
	var r struct {
		Key    string `json:"key"`
		Replay struct {
			Decoder  string `json:"decoder"`
			InputHex string `json:"input_hex"`
		} `json:"replay"`
	}
	if json.Unmarshal(b, &r) != nil || s.byName[r.Replay.Decoder] == nil {
		s.c.Internal("replay: bad file or unknown decoder")
	}
	in, _ := hex.DecodeString(r.Replay.InputHex)
	s.stats[r.Replay.Decoder] = &decStats{families: map[string]int64{}}
	kind, detail, vr := s.single(r.Replay.Decoder, in)
	fmt.Printf("replay %s on %s: %s %s\n", r.Replay.Decoder, vlib.Hex(in), kind, firstN(detail, 300))
	s.c.Eval("replay", kind)
	s.c.Eval("replay-2", kind)
	s.c.Distinct("replay-b")
	s.c.Sample(map[string]any{"decoder": r.Replay.Decoder, "input_hex": r.Replay.InputHex, "outcome": kind})
	s.c.Set("rule", "replay of one recorded case")
	switch kind {
	case "panic":
		s.report(r.Replay.Decoder, "panic", vr.Frame, detail, in, nil)
	case "alloc", "fatal":
		s.report(r.Replay.Decoder, kind, "", detail, in, nil)
	case "hang":
		s.report(r.Replay.Decoder, "hang", "", "hang reproduced once in replay", in, nil)
	}
}

// seedsMain (development aid): prints every decoder with its seeds and whether they are accepted.
func seedsMain() {
	for _, d := range allDecoders() {
		fams := decoderFamilies(d, len(os.Args) > 2 && os.Args[2] == "thorough")
		tot := 0
		for _, f := range fams {
			tot += f.n
		}
		fmt.Printf("%-60s seeds=%d inputs=%d\n", d.name, len(d.seeds), tot)
		for _, s := range d.seeds {
			call(d.fn, append([]byte(nil), s.b...))
			st := "ACCEPT"
			if curResult.panicked {
				st = "PANIC " + curResult.pval
			} else if curResult.err != nil {
				st = "REJECT " + firstN(curResult.err.Error(), 150)
			}
			fmt.Printf("    %-28s %6d B  %s  %s\n", s.name, len(s.b), st, firstN(hx(s.b), 40))
		}
	}
}

// benchMain (development aid): raw decoder cost vs harness overhead.
func benchMain(args []string) {
	t0 := time.Now()
	ds := allDecoders()
	fmt.Println("allDecoders:", time.Since(t0))
	var d *decoder
	for _, x := range ds {
		if x.name == args[0] {
			d = x
		}
	}
	fi, _ := strconv.Atoi(args[1])
	n, _ := strconv.Atoi(args[2])
	t0 = time.Now()
	fams := decoderFamilies(d, false)
	fmt.Println("families:", time.Since(t0), fams[fi].name, fams[fi].n)
	if n > fams[fi].n {
		n = fams[fi].n
	}
	ins := make([][]byte, n)
	if pf := os.Getenv("C02_PROF"); pf != "" {
		f, _ := os.Create(pf)
		pprof.StartCPUProfile(f)
		defer pprof.StopCPUProfile()
	}
	t0 = time.Now()
	for i := range ins {
		ins[i] = fams[fi].get(i)
	}
	fmt.Println("get:", time.Since(t0)/time.Duration(n))
	t0 = time.Now()
	for _, in := range ins {
		if in != nil {
			call(d.fn, in)
		}
	}
	fmt.Println("call:", time.Since(t0)/time.Duration(n))
	var ms runtime.MemStats
	t0 = time.Now()
	for i := 0; i < 1000; i++ {
		runtime.ReadMemStats(&ms)
	}
	fmt.Println("ReadMemStats:", time.Since(t0)/1000)
}

// memprofMain (development aid): allocation profile of one call.
func memprofMain(args []string) {
	var d *decoder
	for _, x := range allDecoders() {
		if x.name == args[0] {
			d = x
		}
	}
	hb, _ := os.ReadFile(args[1])
	in, _ := hex.DecodeString(strings.TrimSpace(string(hb)))
	for _, s := range d.seeds {
		call(d.fn, s.b)
	}
	runtime.MemProfileRate = 1
	var m0, m1 runtime.MemStats
	runtime.ReadMemStats(&m0)
	call(d.fn, in)
	runtime.ReadMemStats(&m1)
	fmt.Printf("len=%d alloc=%d mallocs=%d err=%v panic=%v\n", len(in), m1.TotalAlloc-m0.TotalAlloc, m1.Mallocs-m0.Mallocs, curResult.err, curResult.pval)
	f, _ := os.Create(args[2])
	pprof.Lookup("allocs").WriteTo(f, 0)
	f.Close()
}
