// C46: DMQ messages are accepted only when fully authenticated.
//
// Part 1 (single messages): a correctly built message and every single-field corruption of
// it (id, payload fields, cold key, opcert fields, cold signature bits, KES signature bits,
// KES period / slot, foreign pool material, wrong lengths), for every authenticator
// configuration (KES verifier present / absent x insecure flag x pool registered or not x
// entry point and slot), each on a fresh real MessageAuthenticator.
//
// Part 2 (histories, model checking): explicit-state BFS over operation histories of the
// real MessageAuthenticator (the object cannot be cloned: successor = fresh instance +
// replay of the shortest history + one operation) with a reference authenticator advanced
// in lockstep; (a) closure of the state graph under 14 operations with canonical-state
// dedup, (b) every history of length <= L without dedup.
//
// The reference authenticator is written from the property statement:
//
//	accept <=> id = blake2b-256(cbor(payload))
//	         & cold signature verifies over the certificate fields under the message's cold key
//	         & KES signature verifies over bstr(cbor(payload)) under the certificate's hot key
//	           (no verifier: only if insecure mode was enabled)
//	         & blake2b-256(cold key) is a registered pool
//	         & counter >= highest counter accepted for that pool
//
// All byte strings it feeds to the trusted primitives are built with verif/space.
package main

import (
	"bytes"
	"crypto/ed25519"
	"crypto/sha256"
	"encoding/binary"
	"encoding/hex"
	"encoding/json"
	"fmt"
	"io"
	"log/slog"
	"os"
	"reflect"
	"sort"
	"strings"
	"sync"
	"sync/atomic"

	"golang.org/x/crypto/blake2b"

	"github.com/blinklabs-io/gouroboros/kes"
	"github.com/blinklabs-io/gouroboros/ledger"
	pcommon "github.com/blinklabs-io/gouroboros/protocol/common"
	"verif/space"
	"verif/vlib"
)

const spkp = 129600 // the authenticator's default slots per KES period

// ------------------------------------------------------------------ keys

type pool struct {
	name     string
	coldPriv ed25519.PrivateKey
	coldPub  []byte
	kesPub   []byte
	seed     []byte
	id       string // reference pool id
}

func seedBytes(label string, seed int64) []byte {
	h := sha256.Sum256([]byte(fmt.Sprintf("verif-c46|%s|%d", label, seed)))
	return h[:]
}

func newPool(name string, seed int64) *pool {
	p := &pool{name: name}
	p.coldPriv = ed25519.NewKeyFromSeed(seedBytes("cold-"+name, seed))
	p.coldPub = []byte(p.coldPriv.Public().(ed25519.PublicKey))
	p.seed = seedBytes("kes-"+name, seed)
	_, pub, err := kes.KeyGen(kes.CardanoKesDepth, p.seed)
	if err != nil {
		panic(err)
	}
	p.kesPub = pub
	h := blake2b.Sum256(p.coldPub)
	p.id = hex.EncodeToString(h[:])
	return p
}

// kesSign signs msg at the given evolution with a fresh copy of the pool's KES key
// (the repository's KES prover is trusted; C39 checks it).
func (p *pool) kesSign(evolution uint64, msg []byte) []byte {
	sk, _, err := kes.KeyGen(kes.CardanoKesDepth, p.seed)
	if err != nil {
		panic(err)
	}
	for i := uint64(0); i < evolution; i++ {
		if sk, err = kes.Update(sk); err != nil {
			panic(err)
		}
	}
	sig, err := kes.Sign(sk, evolution, msg)
	if err != nil {
		panic(err)
	}
	return sig
}

// ------------------------------------------------------------------ messages (plain data)

type msgData struct {
	Nil       bool   `json:"nil,omitempty"`
	ID        []byte `json:"id"`
	IDAlias   []byte `json:"id_alias"` // Payload.MessageID (legacy alias)
	Body      []byte `json:"body"`
	KESPeriod uint64 `json:"kes_period"`
	ExpiresAt uint32 `json:"expires_at"`
	KESSig    []byte `json:"kes_sig"`
	OcVkey    []byte `json:"opcert_kes_vkey"`
	OcIssue   uint64 `json:"opcert_issue"`
	OcPeriod  uint64 `json:"opcert_kes_period"`
	OcSig     []byte `json:"opcert_cold_sig"`
	ColdKey   []byte `json:"cold_key"`
}

func cp(b []byte) []byte {
	if b == nil {
		return nil
	}
	return append([]byte{}, b...)
}

func (m msgData) clone() msgData {
	m.ID, m.IDAlias, m.Body, m.KESSig = cp(m.ID), cp(m.IDAlias), cp(m.Body), cp(m.KESSig)
	m.OcVkey, m.OcSig, m.ColdKey = cp(m.OcVkey), cp(m.OcSig), cp(m.ColdKey)
	return m
}

// real builds a fresh repository message object (the authenticator writes into it).
func (m msgData) real() *pcommon.DmqMessage {
	if m.Nil {
		return nil
	}
	return &pcommon.DmqMessage{
		MessageID: cp(m.ID),
		Payload: pcommon.DmqMessagePayload{
			MessageID:   cp(m.IDAlias),
			MessageBody: cp(m.Body),
			KESPeriod:   m.KESPeriod,
			ExpiresAt:   m.ExpiresAt,
		},
		KESSignature: cp(m.KESSig),
		OperationalCertificate: pcommon.OperationalCertificate{
			KESVerificationKey: cp(m.OcVkey),
			IssueNumber:        m.OcIssue,
			KESPeriod:          m.OcPeriod,
			ColdSignature:      cp(m.OcSig),
		},
		ColdVerificationKey: cp(m.ColdKey),
	}
}

// reference encodings (verif/space writer, minimal forms = RFC 8949 preferred serialisation)
func refPayloadCbor(m msgData) []byte {
	return space.A(space.B(m.Body), space.U(m.KESPeriod), space.U(uint64(m.ExpiresAt))).Encode()
}
func refID(m msgData) []byte { h := blake2b.Sum256(refPayloadCbor(m)); return h[:] }
func refWrapped(m msgData) []byte {
	return space.B(refPayloadCbor(m)).Encode()
}
func refCertSignable(m msgData) []byte {
	return space.A(space.B(m.OcVkey), space.U(m.OcIssue), space.U(m.OcPeriod)).Encode()
}
func cardanoCertSignable(m msgData) []byte {
	out := append([]byte{}, m.OcVkey...)
	out = binary.BigEndian.AppendUint64(out, m.OcIssue)
	return binary.BigEndian.AppendUint64(out, m.OcPeriod)
}

// build makes a fully authentic message of pool p: counter n, payload KES period kp, KES
// signature made at the given evolution.
func build(p *pool, n uint64, kp uint64, evolution uint64, body []byte) msgData {
	m := msgData{Body: body, KESPeriod: kp, ExpiresAt: 1_900_000_000, OcVkey: cp(p.kesPub), OcIssue: n, OcPeriod: kp, ColdKey: cp(p.coldPub)}
	m.ID = refID(m)
	m.OcSig = ed25519.Sign(p.coldPriv, refCertSignable(m))
	m.KESSig = p.kesSign(evolution, refWrapped(m))
	return m
}

// ------------------------------------------------------------------ configurations

type cfg struct {
	Verifier   bool     `json:"kes_verifier"` // ledger.VerifyKesComponents injected
	Insecure   bool     `json:"insecure"`
	Registered []string `json:"registered"` // pool names registered initially
	Slot       *uint64  `json:"slot"`       // nil = VerifyMessage, else VerifyMessageWithSlot
}

func (c cfg) class() string {
	e := "VerifyMessage"
	if c.Slot != nil {
		e = "VerifyMessageWithSlot"
	}
	return fmt.Sprintf("%s,verifier=%v,insecure=%v", e, c.Verifier, c.Insecure)
}

func (c cfg) mode() string { return fmt.Sprintf("verifier=%v,insecure=%v", c.Verifier, c.Insecure) }

// ------------------------------------------------------------------ reference authenticator

type refAuth struct {
	verifier, insecure bool
	registered         map[string]bool
	cache              map[string]uint64
}

func newRef(c cfg, pools map[string]*pool) *refAuth {
	r := &refAuth{verifier: c.Verifier, insecure: c.Insecure, registered: map[string]bool{}, cache: map[string]uint64{}}
	for _, n := range c.Registered {
		r.registered[pools[n].id] = true
	}
	return r
}

type verdict struct {
	accept    bool
	specified bool   // false: the statement does not fix the outcome
	failed    string // first condition that does not hold
}

func (r *refAuth) verify(m msgData, slot *uint64) verdict {
	if m.Nil {
		return verdict{false, true, "nil"}
	}
	fail := ""
	set := func(s string) {
		if fail == "" {
			fail = s
		}
	}
	specified := true
	id := m.ID
	if len(id) == 0 {
		id = m.IDAlias
	}
	if !bytes.Equal(id, refID(m)) {
		set("id")
	}
	if len(m.ColdKey) != ed25519.PublicKeySize || len(m.OcSig) != ed25519.SignatureSize ||
		!ed25519.Verify(ed25519.PublicKey(m.ColdKey), refCertSignable(m), m.OcSig) {
		set("opcert-cold-signature")
	}
	if r.verifier {
		cur := m.KESPeriod // current KES period: from the slot if one is given
		if slot != nil {
			cur = *slot / spkp
		}
		ok := false
		if cur >= m.KESPeriod && len(m.OcVkey) == 32 {
			ok = kes.VerifySignedKES(m.OcVkey, cur-m.KESPeriod, refWrapped(m), m.KESSig)
		}
		if !ok {
			set("kes-signature")
		}
	} else if !r.insecure {
		set("no-kes-verifier")
	} else if len(m.KESSig) != kes.CardanoKesSignatureSize || len(m.OcVkey) != 32 {
		// insecure mode waives the KES check; whether malformed lengths are still refused is
		// not fixed by the statement
		specified = false
	}
	ph := blake2b.Sum256(m.ColdKey)
	pid := hex.EncodeToString(ph[:])
	if !r.registered[pid] {
		set("unregistered-pool")
	}
	if last, seen := r.cache[pid]; seen && m.OcIssue < last {
		set("counter-went-backwards")
	}
	if fail != "" {
		return verdict{false, true, fail}
	}
	if !specified {
		return verdict{false, false, "unspecified"}
	}
	r.cache[pid] = m.OcIssue
	return verdict{true, true, ""}
}

func (r *refAuth) state() string {
	var reg, ca []string
	for k, v := range r.registered {
		if v {
			reg = append(reg, k[:6])
		}
	}
	for k, v := range r.cache {
		ca = append(ca, fmt.Sprintf("%s=%d", k[:6], v))
	}
	sort.Strings(reg)
	sort.Strings(ca)
	return "reg{" + strings.Join(reg, ",") + "} cache{" + strings.Join(ca, ",") + "}"
}

// ------------------------------------------------------------------ real authenticator

var quiet = slog.New(slog.NewTextHandler(io.Discard, nil))

func newImpl(c cfg, pools map[string]*pool) *pcommon.MessageAuthenticator {
	a := pcommon.NewMessageAuthenticator(quiet)
	if c.Verifier {
		a.SetKESVerifier(ledger.VerifyKesComponents)
	}
	if c.Insecure {
		a.SetAllowInsecureKES(true)
	}
	for _, n := range c.Registered {
		a.RegisterSPOPool(pools[n].id)
	}
	return a
}

func implVerify(a *pcommon.MessageAuthenticator, m msgData, slot *uint64) (accept bool, errStr string, panicked any) {
	defer func() {
		if r := recover(); r != nil {
			panicked = r
		}
	}()
	var err error
	if slot == nil {
		err = a.VerifyMessage(m.real())
	} else {
		err = a.VerifyMessageWithSlot(m.real(), *slot)
	}
	if err != nil {
		return false, err.Error(), nil
	}
	return true, "", nil
}

// implState reads the authenticator's private maps (read-only, via reflect) so that the
// state projection used for dedup is compared with the reference after every operation.
// ok=false when the fields cannot be found (renamed): the caller then relies on behaviour only.
func implState(a *pcommon.MessageAuthenticator) (s string, ok bool) {
	defer func() {
		if recover() != nil {
			s, ok = "", false
		}
	}()
	v := reflect.ValueOf(a).Elem()
	regF, cacheF := v.FieldByName("spoPoolIDs"), v.FieldByName("kesOpCertCache")
	if !regF.IsValid() || !cacheF.IsValid() || regF.Kind() != reflect.Map || cacheF.Kind() != reflect.Map {
		return "", false
	}
	var reg, ca []string
	for it := regF.MapRange(); it.Next(); {
		if it.Value().Bool() {
			reg = append(reg, it.Key().String()[:6])
		}
	}
	for it := cacheF.MapRange(); it.Next(); {
		ca = append(ca, fmt.Sprintf("%s=%d", it.Key().String()[:6], it.Value().Uint()))
	}
	sort.Strings(reg)
	sort.Strings(ca)
	return "reg{" + strings.Join(reg, ",") + "} cache{" + strings.Join(ca, ",") + "}", true
}

// ------------------------------------------------------------------ part 1: single messages

type variant struct {
	name  string // unique
	class string // key class (coarser)
	m     msgData
}

func flipBit(b []byte, i int) []byte {
	o := cp(b)
	o[i/8] ^= 1 << (uint(i) % 8)
	return o
}

func variants(A, B, C *pool, seed int64, thorough bool, ctr uint64) []variant {
	body := []byte(fmt.Sprintf("msg-%d", seed))
	base := build(A, ctr, 7, 0, body)
	baseE1 := build(A, ctr, 7, 1, body) // KES signature made one evolution later
	other := build(A, ctr, 7, 0, []byte("another-body"))
	bMsg := build(B, ctr, 7, 0, body)
	cMsg := build(C, ctr, 7, 0, body) // pool C is never registered
	var out []variant
	add := func(name, class string, f func(m *msgData)) {
		m := base.clone()
		if f != nil {
			f(&m)
		}
		out = append(out, variant{name, class, m})
	}
	add("valid", "valid", nil)
	out = append(out, variant{"valid-signed-at-evolution-1", "valid-evolution-1", baseE1.clone()})
	out = append(out, variant{"valid-pool-B", "valid-other-registered-pool", bMsg.clone()})
	out = append(out, variant{"valid-unregistered-pool-C", "unregistered-pool", cMsg.clone()})
	out = append(out, variant{"nil-message", "nil-message", msgData{Nil: true}})
	add("valid-id-only-in-legacy-alias", "valid-legacy-alias", func(m *msgData) { m.IDAlias = m.ID; m.ID = nil })
	add("valid-alias-garbage-id-right", "valid-alias-ignored", func(m *msgData) { m.IDAlias = bytes.Repeat([]byte{9}, 32) })
	// --- id
	for i := 0; i < 256; i++ {
		i := i
		add(fmt.Sprintf("id-bit-%d", i), "id-bitflip", func(m *msgData) { m.ID = flipBit(m.ID, i) })
	}
	add("id-31-bytes", "id-length", func(m *msgData) { m.ID = m.ID[:31] })
	add("id-33-bytes", "id-length", func(m *msgData) { m.ID = append(m.ID, 0) })
	add("id-empty", "id-empty", func(m *msgData) { m.ID = nil })
	add("id-empty-alias-wrong", "id-empty", func(m *msgData) { m.ID = nil; m.IDAlias = bytes.Repeat([]byte{1}, 32) })
	add("id-wrong-alias-right", "id-wrong-alias-right", func(m *msgData) { m.IDAlias = m.ID; m.ID = flipBit(m.ID, 0) })
	add("id-of-other-payload", "id-of-other-payload", func(m *msgData) { m.ID = cp(other.ID) })
	add("id-is-hash-of-wrapped-payload", "id-of-other-preimage", func(m *msgData) { h := blake2b.Sum256(refWrapped(*m)); m.ID = h[:] })
	add("id-is-hash-of-body", "id-of-other-preimage", func(m *msgData) { h := blake2b.Sum256(m.Body); m.ID = h[:] })
	// --- payload (id left alone => id mismatch; id recomputed => KES signature mismatch)
	for _, fix := range []bool{false, true} {
		fix := fix
		suffix, cl := "", "payload-changed"
		if fix {
			suffix, cl = "+id-recomputed", "payload-changed-id-recomputed"
		}
		for i := 0; i < len(body)*8; i++ {
			i := i
			add(fmt.Sprintf("body-bit-%d%s", i, suffix), cl, func(m *msgData) {
				m.Body = flipBit(m.Body, i)
				if fix {
					m.ID = refID(*m)
				}
			})
		}
		for _, d := range []int64{-1, 1} {
			d := d
			add(fmt.Sprintf("payload-kes-period%+d%s", d, suffix), cl, func(m *msgData) {
				m.KESPeriod = uint64(int64(m.KESPeriod) + d)
				if fix {
					m.ID = refID(*m)
				}
			})
			add(fmt.Sprintf("payload-expires%+d%s", d, suffix), cl, func(m *msgData) {
				m.ExpiresAt = uint32(int64(m.ExpiresAt) + d)
				if fix {
					m.ID = refID(*m)
				}
			})
		}
		add("body-empty"+suffix, cl, func(m *msgData) {
			m.Body = []byte{}
			if fix {
				m.ID = refID(*m)
			}
		})
		add("body-other"+suffix, cl, func(m *msgData) {
			m.Body = cp(other.Body)
			if fix {
				m.ID = refID(*m)
			}
		})
	}
	// --- cold key
	for i := 0; i < 256; i++ {
		i := i
		add(fmt.Sprintf("cold-key-bit-%d", i), "cold-key-bitflip", func(m *msgData) { m.ColdKey = flipBit(m.ColdKey, i) })
	}
	add("cold-key-of-pool-B", "cold-key-foreign", func(m *msgData) { m.ColdKey = cp(B.coldPub) })
	add("cold-key-31", "cold-key-length", func(m *msgData) { m.ColdKey = m.ColdKey[:31] })
	add("cold-key-33", "cold-key-length", func(m *msgData) { m.ColdKey = append(m.ColdKey, 0) })
	add("cold-key-empty", "cold-key-length", func(m *msgData) { m.ColdKey = nil })
	// --- opcert fields
	for i := 0; i < 256; i++ {
		i := i
		add(fmt.Sprintf("opcert-vkey-bit-%d", i), "opcert-vkey-bitflip", func(m *msgData) { m.OcVkey = flipBit(m.OcVkey, i) })
	}
	add("opcert-vkey-31", "opcert-vkey-length", func(m *msgData) { m.OcVkey = m.OcVkey[:31] })
	add("opcert-vkey-33", "opcert-vkey-length", func(m *msgData) { m.OcVkey = append(m.OcVkey, 0) })
	add("opcert-vkey-of-pool-B", "opcert-vkey-foreign", func(m *msgData) { m.OcVkey = cp(B.kesPub) })
	for _, d := range []int64{-1, 1, 255} {
		d := d
		add(fmt.Sprintf("opcert-issue%+d", d), "opcert-issue-changed", func(m *msgData) { m.OcIssue = uint64(int64(m.OcIssue) + d) })
		add(fmt.Sprintf("opcert-period%+d", d), "opcert-period-changed", func(m *msgData) { m.OcPeriod = uint64(int64(m.OcPeriod) + d) })
	}
	add("opcert-issue-period-swapped", "opcert-fields-swapped", func(m *msgData) { m.OcIssue, m.OcPeriod = m.OcPeriod, m.OcIssue })
	for i := 0; i < 512; i++ {
		i := i
		add(fmt.Sprintf("cold-sig-bit-%d", i), "cold-sig-bitflip", func(m *msgData) { m.OcSig = flipBit(m.OcSig, i) })
	}
	add("cold-sig-63", "cold-sig-length", func(m *msgData) { m.OcSig = m.OcSig[:63] })
	add("cold-sig-65", "cold-sig-length", func(m *msgData) { m.OcSig = append(m.OcSig, 0) })
	add("cold-sig-zero", "cold-sig-zero", func(m *msgData) { m.OcSig = make([]byte, 64) })
	add("cold-sig-by-pool-B-key", "cold-sig-foreign", func(m *msgData) { m.OcSig = ed25519.Sign(B.coldPriv, refCertSignable(*m)) })
	add("cold-sig-over-payload", "cold-sig-other-message", func(m *msgData) { m.OcSig = ed25519.Sign(A.coldPriv, refPayloadCbor(*m)) })
	add("whole-opcert-of-pool-B", "opcert-foreign", func(m *msgData) {
		m.OcVkey, m.OcIssue, m.OcPeriod, m.OcSig = cp(bMsg.OcVkey), bMsg.OcIssue, bMsg.OcPeriod, cp(bMsg.OcSig)
	})
	add("opcert+cold-key-of-pool-B", "opcert-and-cold-key-foreign", func(m *msgData) {
		m.OcVkey, m.OcIssue, m.OcPeriod, m.OcSig, m.ColdKey = cp(bMsg.OcVkey), bMsg.OcIssue, bMsg.OcPeriod, cp(bMsg.OcSig), cp(bMsg.ColdKey)
	})
	add("attacker-selfsigned-opcert-for-A-hotkey", "opcert-selfsigned-unregistered", func(m *msgData) {
		// pool C (unregistered) certifies A's hot key and presents its own cold key
		m.ColdKey = cp(C.coldPub)
		m.OcSig = ed25519.Sign(C.coldPriv, refCertSignable(*m))
	})
	// --- KES signature
	step := 8 // quick: one bit of every byte, rotating position
	if thorough {
		step = 1
	}
	for i := 0; i < 448*8; i += step {
		j := i
		if !thorough {
			j = i + (i/8)%8
		}
		add(fmt.Sprintf("kes-sig-bit-%d", j), "kes-sig-bitflip", func(m *msgData) { m.KESSig = flipBit(m.KESSig, j) })
	}
	add("kes-sig-447", "kes-sig-length", func(m *msgData) { m.KESSig = m.KESSig[:447] })
	add("kes-sig-449", "kes-sig-length", func(m *msgData) { m.KESSig = append(m.KESSig, 0) })
	add("kes-sig-empty", "kes-sig-length", func(m *msgData) { m.KESSig = nil })
	add("kes-sig-zero", "kes-sig-zero", func(m *msgData) { m.KESSig = make([]byte, 448) })
	add("kes-sig-of-other-payload", "kes-sig-other-message", func(m *msgData) { m.KESSig = cp(other.KESSig) })
	add("kes-sig-by-pool-B", "kes-sig-foreign", func(m *msgData) { m.KESSig = cp(bMsg.KESSig) })
	add("kes-sig-over-unwrapped-payload", "kes-sig-other-message", func(m *msgData) { m.KESSig = A.kesSign(0, refPayloadCbor(*m)) })
	add("kes-sig-over-body", "kes-sig-other-message", func(m *msgData) { m.KESSig = A.kesSign(0, m.Body) })
	return out
}

type stats struct {
	evals                       atomic.Int64
	accept, reject, unspecified atomic.Int64
}

func runSingles(c *vlib.Check, A, B, C *pool, pools map[string]*pool, st *stats, only string) {
	vs := variants(A, B, C, c.Seed, c.Thorough(), 1)
	s0, s1, sPast := uint64(7*spkp+5), uint64(8*spkp+5), uint64(6*spkp+5)
	var cfgs []cfg
	for _, ver := range []bool{true, false} {
		for _, ins := range []bool{false, true} {
			for _, reg := range [][]string{{"A", "B"}, {}} {
				for _, sl := range []*uint64{nil, &s0, &s1, &sPast} {
					if !ver && sl != nil && sl != &s0 {
						continue // the slot only matters to the verifier
					}
					cfgs = append(cfgs, cfg{Verifier: ver, Insecure: ins, Registered: reg, Slot: sl})
				}
			}
		}
	}
	type job struct {
		ci, vi int
	}
	var jobs []job
	for ci := range cfgs {
		for vi := range vs {
			if only != "" && vs[vi].name != only {
				continue
			}
			jobs = append(jobs, job{ci, vi})
		}
	}
	type res struct {
		key, what string
		replay    any
	}
	results := make([]*res, len(jobs))
	outc := make([]string, len(jobs))
	vlib.Parallel(len(jobs), func(k int) {
		cf, v := cfgs[jobs[k].ci], vs[jobs[k].vi]
		ref := newRef(cf, pools)
		want := ref.verify(v.m, cf.Slot)
		a := newImpl(cf, pools)
		got, errStr, pan := implVerify(a, v.m, cf.Slot)
		st.evals.Add(1)
		rp := map[string]any{"kind": "single", "variant": v.name, "config": cf, "message": v.m}
		regd := "registered"
		if len(cf.Registered) == 0 {
			regd = "unregistered"
		}
		switch {
		case pan != nil:
			results[k] = &res{fmt.Sprintf("VerifyMessage|panic|%s", v.class), fmt.Sprintf("panic %v on variant %s, %s", pan, v.name, cf.class()), rp}
		case !want.specified:
			st.unspecified.Add(1)
			outc[k] = "unspecified"
		case got && !want.accept:
			results[k] = &res{fmt.Sprintf("VerifyMessage|accepted-unauthenticated|cond=%s|%s", want.failed, cf.mode()),
				fmt.Sprintf("variant %s accepted although condition %q does not hold (%s, pools %s)", v.name, want.failed, cf.class(), regd), rp}
		case !got && want.accept:
			results[k] = &res{fmt.Sprintf("VerifyMessage|rejected-authentic|%s|%s", v.class, cf.mode()),
				fmt.Sprintf("variant %s rejected (%s) although every stated condition holds (%s, pools %s)", v.name, errStr, cf.class(), regd), rp}
		}
		if want.specified {
			if got {
				outc[k] = "accept"
				st.accept.Add(1)
			} else {
				outc[k] = "reject:" + want.failed
				st.reject.Add(1)
			}
		}
		// a single verification must leave registration untouched and the cache equal to the model's
		if is, ok := implState(a); ok && want.specified && got == want.accept && is != ref.state() {
			kind := "state-changed-by-refused-message"
			if got {
				kind = "state-after-accepted-message"
			}
			results[k] = &res{"VerifyMessage|" + kind, fmt.Sprintf("state %s, model %s after variant %s (%s)", is, ref.state(), v.name, cf.class()), rp}
		}
	})
	for k, r := range results {
		c.Eval(vs[jobs[k].vi].class+"|"+cfgs[jobs[k].ci].class()+fmt.Sprintf("|reg=%d", len(cfgs[jobs[k].ci].Registered)), outc[k])
		if r != nil {
			c.Violation(r.key, r.what, r.replay)
		}
	}
	c.Set("single_message_variants", len(vs))
	c.Set("single_message_configs", len(cfgs))
	c.Sample(map[string]any{"kind": "single", "variant": "valid", "message": vs[0].m})
	for _, v := range vs {
		if v.name == "opcert-issue+1" {
			c.Sample(map[string]any{"kind": "single", "variant": v.name, "expected": "reject: opcert-cold-signature", "opcert_issue": v.m.OcIssue})
		}
	}

	// observation (outside the statement): opcert in the Cardano format / KES evolution convention
	m := vs[0].m.clone()
	m.OcSig = ed25519.Sign(A.coldPriv, cardanoCertSignable(m))
	cf := cfg{Verifier: true, Registered: []string{"A"}}
	got, errStr, _ := implVerify(newImpl(cf, pools), m, nil)
	led := ledger.VerifyOpCertSignature(&ledger.OpCert{KesVkey: m.OcVkey, IssueNumber: m.OcIssue, KesPeriod: m.OcPeriod, ColdSignature: m.OcSig}, m.ColdKey)
	c.Set("observation_cardano_format_opcert", fmt.Sprintf("message whose opcert cold signature is over the Cardano signable (hot key || counter BE64 || period BE64; ledger.VerifyOpCertSignature says %v): DMQ authenticator accept=%v (%s). Not a violation of the statement (over-rejection); the checks above use the CBOR-array signable the authenticator expects.", led == nil, got, errStr))
}

// runAfterAccepted: the same single-field corruptions, but presented to an authenticator that has
// just accepted a genuine message of the same pool with counter 1 — the corrupted message carries a
// lower (0), the same (1) and a higher (2) counter. Whatever the cache holds, every condition has
// to be re-established for every message.
func runAfterAccepted(c *vlib.Check, A, B, C *pool, pools map[string]*pool) {
	cf := cfg{Verifier: true, Registered: []string{"A", "B"}}
	prefix := build(A, 1, 7, 0, []byte(fmt.Sprintf("accepted-first-%d", c.Seed)))
	type job struct {
		ctr uint64
		v   variant
	}
	var jobs []job
	for _, ctr := range []uint64{0, 1, 2} {
		for _, v := range variants(A, B, C, c.Seed, c.Thorough(), ctr) {
			jobs = append(jobs, job{ctr, v})
		}
	}
	type res struct {
		key, what string
		replay    any
	}
	results := make([]*res, len(jobs))
	outc := make([]string, len(jobs))
	vlib.Parallel(len(jobs), func(k int) {
		j := jobs[k]
		ref := newRef(cf, pools)
		a := newImpl(cf, pools)
		w0 := ref.verify(prefix, nil)
		g0, e0, _ := implVerify(a, prefix, nil)
		if !w0.accept || !g0 {
			results[k] = &res{"after-accepted|genuine-first-message-rejected", fmt.Sprintf("prefix message: model accept=%v implementation accept=%v (%s)", w0.accept, g0, e0), nil}
			return
		}
		want := ref.verify(j.v.m, nil)
		got, errStr, pan := implVerify(a, j.v.m, nil)
		rp := map[string]any{"kind": "after-accepted", "variant": j.v.name, "counter": j.ctr, "message": j.v.m}
		rel := map[uint64]string{0: "lower", 1: "same", 2: "higher"}[j.ctr]
		switch {
		case pan != nil:
			results[k] = &res{"after-accepted|panic|" + j.v.class, fmt.Sprint(pan), rp}
		case !want.specified:
			outc[k] = "unspecified"
		case got && !want.accept:
			results[k] = &res{fmt.Sprintf("after-accepted|accepted-unauthenticated|cond=%s|counter=%s", want.failed, rel),
				fmt.Sprintf("after a genuine message of pool A with counter 1 was accepted, variant %s with counter %d was accepted although condition %q does not hold", j.v.name, j.ctr, want.failed), rp}
		case !got && want.accept:
			results[k] = &res{fmt.Sprintf("after-accepted|rejected-authentic|%s|counter=%s", j.v.class, rel),
				fmt.Sprintf("after a genuine message with counter 1, variant %s with counter %d rejected (%s) although every stated condition holds", j.v.name, j.ctr, errStr), rp}
		}
		if want.specified {
			if want.accept {
				outc[k] = "after-accepted:accept"
			} else {
				outc[k] = "after-accepted:reject:" + want.failed
			}
		}
		if is, ok := implState(a); ok && want.specified && got == want.accept && is != ref.state() {
			results[k] = &res{"after-accepted|state", fmt.Sprintf("state %s, model %s after variant %s counter %d", is, ref.state(), j.v.name, j.ctr), rp}
		}
	})
	for k, r := range results {
		c.Eval(fmt.Sprintf("after-accepted|%s|counter=%d", jobs[k].v.class, jobs[k].ctr), outc[k])
		if r != nil {
			c.Violation(r.key, r.what, r.replay)
		}
	}
	c.Set("after_accepted_cases", len(jobs))
}

// ------------------------------------------------------------------ part 2: histories

type op struct {
	// V genuine message; X message with corrupted KES signature (counter 2); Xc / Xp / Xk otherwise genuine
	// message with counter N whose opcert cold signature / opcert KES period / opcert hot key is corrupted;
	// U unregister, R register, D drop cache entry
	Kind string `json:"kind"`
	Pool string `json:"pool"`
	N    uint64 `json:"counter,omitempty"`
}

func (o op) String() string {
	switch o.Kind {
	case "V", "Xc", "Xp", "Xk":
		return fmt.Sprintf("%s(%s,%d)", o.Kind, o.Pool, o.N)
	}
	return fmt.Sprintf("%s(%s)", o.Kind, o.Pool)
}

func (o op) isMessage() bool { return o.Kind == "V" || o.Kind[0] == 'X' }

type world struct {
	pools map[string]*pool
	msgs  map[string]msgData // op string -> message
	ops   []op               // all operations
	core  []op               // the 14 operations of the first version (used for the longer undeduplicated histories)
	mu    sync.Mutex
	outc  map[string]int64 // verdicts of message operations inside histories
}

func newWorld(pools map[string]*pool, seed int64) *world {
	w := &world{pools: pools, msgs: map[string]msgData{}, outc: map[string]int64{}}
	for _, pn := range []string{"A", "B"} {
		for n := uint64(0); n <= 2; n++ {
			o := op{"V", pn, n}
			w.ops = append(w.ops, o)
			w.msgs[o.String()] = build(pools[pn], n, 7, 0, []byte(fmt.Sprintf("hist-%s-%d-%d", pn, n, seed)))
		}
		x := op{Kind: "X", Pool: pn}
		m := build(pools[pn], 2, 7, 0, []byte("bad-kes-"+pn))
		m.KESSig = flipBit(m.KESSig, 100)
		w.msgs[x.String()] = m
		w.ops = append(w.ops, x, op{Kind: "U", Pool: pn}, op{Kind: "R", Pool: pn}, op{Kind: "D", Pool: pn})
	}
	w.core = append([]op{}, w.ops...)
	// single-field corruptions of the operational certificate of an otherwise genuine message,
	// for every counter: applied in every reachable state, i.e. also right after a genuine
	// message with the same / a lower / a higher counter was accepted
	for _, pn := range []string{"A", "B"} {
		for n := uint64(0); n <= 2; n++ {
			g := build(pools[pn], n, 7, 0, []byte(fmt.Sprintf("hist-oc-%s-%d-%d", pn, n, seed)))
			mc, mp, mk := g.clone(), g.clone(), g.clone()
			mc.OcSig = flipBit(mc.OcSig, 9)
			mp.OcPeriod++
			mk.OcVkey = flipBit(mk.OcVkey, 5)
			for _, e := range []struct {
				k string
				m msgData
			}{{"Xc", mc}, {"Xp", mp}, {"Xk", mk}} {
				o := op{e.k, pn, n}
				w.ops = append(w.ops, o)
				w.msgs[o.String()] = e.m
			}
		}
	}
	return w
}

type divergence struct {
	key, what string
}

// run executes a history on a fresh real authenticator and the reference in lockstep.
// It returns the reference state key after the last operation and the first divergence.
func (w *world) run(c cfg, h []op, reflectOK *atomic.Bool) (string, *divergence) {
	a := newImpl(c, w.pools)
	r := newRef(c, w.pools)
	for i, o := range h {
		p := w.pools[o.Pool]
		pre := r.state()
		switch o.Kind {
		case "V", "X", "Xc", "Xp", "Xk":
			m := w.msgs[o.String()]
			want := r.verify(m, nil)
			got, errStr, pan := implVerify(a, m, nil)
			w.mu.Lock()
			if want.accept {
				w.outc["accept"]++
			} else {
				w.outc["reject:"+want.failed]++
			}
			w.mu.Unlock()
			if pan != nil {
				return "", &divergence{"history|panic|op=" + o.Kind, fmt.Sprintf("panic %v at step %d of %v", pan, i, h)}
			}
			if got != want.accept {
				kind := "rejected-by-impl-accepted-by-model"
				if got {
					kind = "accepted-by-impl-rejected-by-model|cond=" + want.failed
				}
				return "", &divergence{fmt.Sprintf("history|%s|op=%s", kind, o.Kind),
					fmt.Sprintf("step %d (%s) of history %v from state %s: implementation accept=%v (%s), model accept=%v (%s)", i, o, h, pre, got, errStr, want.accept, want.failed)}
			}
		case "U":
			a.UnregisterSPOPool(p.id)
			delete(r.registered, p.id)
		case "R":
			a.RegisterSPOPool(p.id)
			r.registered[p.id] = true
		case "D":
			a.RemoveKESOpCertCacheEntry(p.id)
			delete(r.cache, p.id)
		}
		for _, pn := range []string{"A", "B"} {
			if a.IsSPOPoolRegistered(w.pools[pn].id) != r.registered[w.pools[pn].id] {
				return "", &divergence{"history|registration-state|op=" + o.Kind, fmt.Sprintf("after step %d (%s) of %v: IsSPOPoolRegistered(%s) differs from the model", i, o, h, pn)}
			}
		}
		if is, ok := implState(a); ok {
			if is != r.state() {
				return "", &divergence{"history|cache-state|op=" + o.Kind, fmt.Sprintf("after step %d (%s) of %v: implementation state %s, model %s", i, o, h, is, r.state())}
			}
		} else {
			reflectOK.Store(false)
		}
	}
	return r.state(), nil
}

func runHistories(c *vlib.Check, pools map[string]*pool, only []op, onlyCfg *cfg) {
	w := newWorld(pools, c.Seed)
	var reflectOK atomic.Bool
	reflectOK.Store(true)
	report := func(cf cfg, h []op, d *divergence) {
		c.Violation(d.key, d.what, map[string]any{"kind": "history", "config": cf, "history": h})
	}
	if only != nil {
		if _, d := w.run(*onlyCfg, only, &reflectOK); d != nil {
			report(*onlyCfg, only, d)
		}
		c.EvalN(int64(len(only)))
		c.Distinct("replayed-history")
		c.Distinct("replayed-history-prefixes")
		c.Set("states", 1)
		c.Set("transitions", len(only))
		c.Set("traces_validated_against_impl", 1)
		return
	}
	inits := []cfg{
		{Verifier: true, Registered: []string{"A", "B"}},
		{Verifier: true, Registered: []string{}},
	}
	// (a) closure with canonical-state dedup (state = registered set + counter cache; the
	// projection is compared with the implementation's private maps after every operation)
	type node struct {
		h []op
	}
	var states, transitions, traces int64
	maxDepth := 0
	seen := map[string]bool{}
	for _, cf := range inits {
		s0, _ := w.run(cf, nil, &reflectOK)
		key0 := s0
		if seen[key0] {
			continue
		}
		seen[key0] = true
		queue := []node{{nil}}
		for len(queue) > 0 {
			level := queue
			queue = nil
			type succ struct {
				h   []op
				key string
				d   *divergence
			}
			out := make([]succ, len(level)*len(w.ops))
			vlib.Parallel(len(out), func(k int) {
				n, o := level[k/len(w.ops)], w.ops[k%len(w.ops)]
				h := append(append([]op{}, n.h...), o)
				key, d := w.run(cf, h, &reflectOK)
				out[k] = succ{h, key, d}
			})
			for _, s := range out {
				transitions++
				traces++
				if s.d != nil {
					report(cf, s.h, s.d)
					continue
				}
				if !seen[s.key] {
					seen[s.key] = true
					queue = append(queue, node{s.h})
					if len(s.h) > maxDepth {
						maxDepth = len(s.h)
					}
					if len(seen) == 9 || len(seen) == 40 {
						c.Sample(map[string]any{"kind": "history", "history": fmt.Sprint(s.h), "reaches_state": s.key})
					}
				}
			}
		}
	}
	states = int64(len(seen))
	// (b) every history of length L over the 14 core operations and every history of length L2
	// over all operations, no dedup (each covers all shorter ones as prefixes)
	L, L2 := 3, 2
	if c.Thorough() {
		L, L2 = 4, 3
	}
	var nh atomic.Int64
	for _, part := range []struct {
		ops []op
		l   int
	}{{w.core, L}, {w.ops, L2}} {
		for _, cf := range inits {
			total := 1
			for i := 0; i < part.l; i++ {
				total *= len(part.ops)
			}
			divs := make([]*divergence, total)
			hs := make([][]op, total)
			vlib.Parallel(total, func(code int) {
				h := make([]op, part.l)
				x := code
				for i := part.l - 1; i >= 0; i-- {
					h[i] = part.ops[x%len(part.ops)]
					x /= len(part.ops)
				}
				_, d := w.run(cf, h, &reflectOK)
				hs[code], divs[code] = h, d
				nh.Add(1)
			})
			for i, d := range divs {
				if d != nil {
					report(cf, hs[i], d)
				}
			}
			transitions += int64(total * part.l)
		}
	}
	traces += nh.Load()
	c.Set("states", states)
	c.Set("transitions", transitions)
	c.Set("traces_validated_against_impl", traces)
	c.Set("bfs_max_shortest_history", maxDepth)
	c.Set("history_length_without_dedup_core_operations", L)
	c.Set("history_length_without_dedup_all_operations", L2)
	c.Set("operations", len(w.ops))
	c.Set("core_operations", len(w.core))
	c.Set("private_state_compared", reflectOK.Load())
	if !reflectOK.Load() {
		c.Note("the authenticator's private maps could not be read by reflection; dedup relied on the model state only, behaviour was still compared on every operation")
	}
	// one written-out history of this run: a refusal must not poison the counter cache
	hx := []op{{Kind: "U", Pool: "A"}, {"V", "A", 2}, {Kind: "R", Pool: "A"}, {"V", "A", 1}, {"V", "A", 0}}
	endState, dx := w.run(inits[0], hx, &reflectOK)
	if dx != nil {
		report(inits[0], hx, dx)
	}
	c.Sample(map[string]any{"kind": "history", "history": fmt.Sprint(hx), "model_verdicts": "V(A,2) reject:unregistered-pool, V(A,1) accept, V(A,0) reject:counter-went-backwards", "end_state": endState, "implementation_agrees": dx == nil})
	c.Set("history_outcomes", w.outc)
}

// ------------------------------------------------------------------ main

func main() {
	c := vlib.New("C46", "model_checking")
	A, B, C := newPool("A", c.Seed), newPool("B", c.Seed), newPool("C", c.Seed)
	pools := map[string]*pool{"A": A, "B": B, "C": C}
	st := &stats{}

	if c.Replay != "" {
		b, err := os.ReadFile(c.Replay)
		if err != nil {
			c.Internal("replay: %v", err)
		}
		var f struct {
			Replay struct {
				Kind    string `json:"kind"`
				Variant string `json:"variant"`
				Config  cfg    `json:"config"`
				History []op   `json:"history"`
			} `json:"replay"`
		}
		if err := json.Unmarshal(b, &f); err != nil {
			c.Internal("replay: %v", err)
		}
		if f.Replay.Kind == "history" {
			runHistories(c, pools, f.Replay.History, &f.Replay.Config)
			c.Sample(f.Replay.History)
		} else if f.Replay.Kind == "after-accepted" {
			runAfterAccepted(c, A, B, C, pools)
		} else {
			runSingles(c, A, B, C, pools, st, f.Replay.Variant)
		}
		c.Set("rule", "replay of one recorded case")
		c.Finish()
	}

	runSingles(c, A, B, C, pools, st, "")
	runAfterAccepted(c, A, B, C, pools)
	runHistories(c, pools, nil, nil)

	c.Set("rule", "single messages: (valid message + every single-field corruption) x every authenticator configuration, each on a fresh authenticator; class = corruption class x configuration, non-trivial = not the nil message. after-accepted: the same corruptions with counter 0/1/2 presented right after a genuine message with counter 1 was accepted. histories: BFS closure of the real authenticator's state graph under 32 operations (6 genuine messages = 2 pools x counters 0..2, 2 messages with a corrupted KES signature, register/unregister/drop-cache-entry per pool, and 18 otherwise genuine messages whose opcert cold signature / opcert KES period / opcert hot key is corrupted, 2 pools x counters 0..2) from 2 initial registrations, dedup on (registered set, counter cache) which is compared with the implementation's private maps after every operation, plus every history of length L over the 14 core operations and of length L2 over all 32 without dedup; the reference authenticator runs in lockstep and every accept/reject is compared")
	c.Assume("ed25519 (crypto/ed25519), blake2b-256 and the repository's KES prover/verifier (kes.Sign, kes.VerifySignedKES; checked by C39) are trusted primitives")
	c.Assume("the KES verifier injected is ledger.VerifyKesComponents; its period convention (evolution = slot/slotsPerKESPeriod - payload KES period, VerifyMessage without slot => evolution 0) is taken as given, the statement only says 'the KES signature over the payload verifies'")
	c.Assume("the cold signature is checked over the CBOR array [hot key, counter, period] (the form this authenticator defines); Cardano-format opcerts are reported as an observation, see coverage.observation_cardano_format_opcert")
	c.Assume("key material and message bodies are representatives (VERIF_SEED rotates them)")
	// free-running -race pass: concurrent callers on their own inputs (state the library shares between calls)
	c.RaceAudit("c46")
	c.Finish()
}
