#!/bin/bash
# C46 has two parts under ONE verdict and ONE evidence file:
#   1. E2: harness/c46/main.go (single-message corruptions + operation histories, reference authenticator)
#   2. E1: e1/c46 TestC46Sched (concurrent VerifyMessage calls under the controlled scheduler)
# Usage: build.sh [--tier quick|thorough] [--replay file]; VERIF_BUILD_ONLY=1 only builds.
set -u
here="$(cd "$(dirname "$0")/../.." && pwd)"
. "$here/bin/env.sh"
export VERIF_ROOT="$here"
cd "$here"
mkdir -p "$here/.work/bin" "$here/evidence" "$here/findings/replay"
bin="$here/.work/bin/c46"
evdir="${VERIF_EVIDENCE_DIR:-$here/evidence}" # seeded-change runs redirect the evidence
modflag=""
if [ -n "${VERIF_REPO_OVERRIDE:-}" ]; then
  sed "s#=> /repo#=> ${VERIF_REPO_OVERRIDE}#" "$here/go.mod" > "$here/.work/go.override.c46e2.$$.mod"
  cp "$here/go.sum" "$here/.work/go.override.c46e2.$$.sum"
  modflag="-modfile=$here/.work/go.override.c46e2.$$.mod"
  export REPO_ROOT="$VERIF_REPO_OVERRIDE"
  export VERIF_MODFILE="$here/.work/go.override.c46e2.$$.mod" # the race audit (vlib.RaceAudit) must test the scratch copy too
  bin="$here/.work/bin/c46.override.$$"
  trap 'rm -f "$here/.work/go.override.c46e2.$$.mod" "$here/.work/go.override.c46e2.$$.sum" "$bin" "$here/.work/c46.e2.$$.json"' EXIT
else
  trap 'rm -f "$here/.work/c46.e2.$$.json"' EXIT
fi
if ! out="$($VGO build $modflag -o "$bin" ./harness/c46 2>&1)"; then
  echo "$out" >&2
  echo "INTERNAL-ERROR check=C46: harness does not build against the current tree" >&2
  exit 2
fi
if [ "${VERIF_BUILD_ONLY:-0}" = "1" ]; then
  VERIF_BUILD_ONLY=1 "$here/bin/e1check" C46 c46 TestC46Sched ./protocol/... -- "$@"
  exit $?
fi
# a replay file belongs to exactly one of the two parts
replay=""; prev=""
for a in "$@"; do [ "$prev" = "--replay" ] && replay="$a"; prev="$a"; done
if [ -n "$replay" ]; then
  if grep -q '"scenario"' "$replay" 2>/dev/null; then
    "$here/bin/e1check" C46 c46 TestC46Sched ./protocol/... -- "$@"; exit $?
  fi
  "$bin" "$@"; exit $?
fi
"$bin" "$@"; rc1=$?
[ $rc1 -ne 0 ] && [ $rc1 -ne 1 ] && { echo "INTERNAL-ERROR check=C46: E2 part exited with $rc1" >&2; exit 2; }
cp "$evdir/C46.json" "$here/.work/c46.e2.$$.json" || { echo "INTERNAL-ERROR check=C46: E2 part wrote no evidence" >&2; exit 2; }
VERIF_BUILD_ONLY= "$here/bin/e1check" C46 c46 TestC46Sched ./protocol/... -- "$@"; rc2=$?
[ $rc2 -ne 0 ] && [ $rc2 -ne 1 ] && { echo "INTERNAL-ERROR check=C46: E1 part exited with $rc2" >&2; exit 2; }
# one evidence file: the E2 evidence with the E1 run added as coverage.schedule_part
python3 - "$here/.work/c46.e2.$$.json" "$evdir/C46.json" <<'PY' || { echo "INTERNAL-ERROR check=C46: cannot merge the evidence of the two parts" >&2; exit 2; }
import json, sys
e2 = json.load(open(sys.argv[1])); e1 = json.load(open(sys.argv[2]))
if e1.get("property_id") != "C46" or "scenarios" not in e1.get("coverage", {}):
    raise SystemExit("second evidence file is not the E1 run")
c1 = e1["coverage"]
e2["coverage"]["schedule_part"] = {
    "engine": "E1 sched", "test": "e1/c46 TestC46Sched",
    "executions": c1.get("evaluations"), "states": c1.get("states"), "transitions": c1.get("transitions"),
    "distinct_outcomes": c1.get("distinct_nontrivial"), "min_bound_completed": c1.get("min_bound_completed"),
    "exhaustive": c1.get("exhaustive"), "scenarios": c1.get("scenarios"), "rule": c1.get("rule"),
    "samples": c1.get("samples", [])[:2], "notes": c1.get("notes", []), "violations": e1.get("violations", 0),
    "wall_s": e1.get("wall_s"),
    "known_findings_reproduced": c1.get("known_findings_reproduced", []),
}
e2["coverage"]["traces_validated_against_impl"] = int(e2["coverage"].get("traces_validated_against_impl", 0)) + int(c1.get("evaluations", 0))
e2["coverage"]["exhaustive"] = bool(e2["coverage"].get("exhaustive")) and bool(c1.get("exhaustive"))
e2["assumptions"] = list(e2.get("assumptions", [])) + ["schedule part: " + a for a in e1.get("assumptions", [])]
e2["violations"] = int(e2.get("violations", 0)) + int(e1.get("violations", 0))
e2["wall_s"] = float(e2.get("wall_s", 0)) + float(e1.get("wall_s", 0))
json.dump(e2, open(sys.argv[2], "w"), indent=1); open(sys.argv[2], "a").write("\n")
PY
if [ $rc1 -eq 1 ] || [ $rc2 -eq 1 ]; then exit 1; fi
exit 0
