// C29: native scripts evaluate as the ledger defines them; hash = blake2b-224(0x00 ‖ original bytes).
//
// Bounded-exhaustive. Alphabet: leaves {pubkey a, pubkey b, invalid_before n, invalid_hereafter n};
// combinators all / any / n_of_k(m), width <= 2, depth <= 2 (leaf = depth 0). Every script is
// BUILT AS CBOR with verif/space and DECODED by the real NativeScript decoder (layer E) or
// by the real era transaction decoder inside a complete transaction (layer R), then
//
//	layer E: NativeScript.Evaluate called with the argument convention its documentation
//	         states (absent start -> 0, absent end -> MaxUint64),
//	layer R: EVERY rule of the era's UtxoValidationRules list is called on the decoded
//	         transaction; only errors of type NativeScriptFailedError count (unrelated
//	         failures of the minimal transaction neither mask nor fake a result),
//
// for every key subset of {a,b} and every validity interval start,ttl in {absent,0,4,5,6,10,11[,2^64-1]}.
// Oracle: own evaluator working on the verif/space parse of the very bytes fed to the code,
// written from the ledger's timelock semantics (Allegra spec fig. "evalTimelock"):
//
//	RequireSignature h      = h in witness key hashes
//	RequireAllOf / AnyOf    = conjunction / disjunction
//	RequireMOf m            = m <= number of satisfied sub-scripts
//	RequireTimeStart  n     = start present AND n <= start        (absent start = -inf)
//	RequireTimeExpire n     = ttl   present AND ttl <= n          (absent ttl   = +inf)
//
// A composite failure that is fully explained by the OBSERVED results of its own leaves in
// the same context is reported under the leaf's key (one root cause = one key); any other
// disagreement is reported as a combinator failure.
package main

import (
	"bytes"
	"encoding/hex"
	"encoding/json"
	"errors"
	"fmt"
	"math"
	"os"
	"runtime/debug"
	"runtime/pprof"
	"time"
	"sort"
	"strings"
	"sync"
	"sync/atomic"

	"github.com/blinklabs-io/gouroboros/ledger/allegra"
	"github.com/blinklabs-io/gouroboros/ledger/common"
	"verif/space"
	"verif/vlib"
)

// ---------- contexts ----------

type optU struct {
	present bool
	v       uint64
}

func (o optU) String() string {
	if !o.present {
		return "absent"
	}
	if o.v == math.MaxUint64 {
		return "max"
	}
	return fmt.Sprint(o.v)
}

type ctxT struct {
	keys       int // bit0 = a, bit1 = b
	start, ttl optU
}

func (c ctxT) String() string {
	return fmt.Sprintf("keys=%s start=%s ttl=%s", []string{"{}", "{a}", "{b}", "{a,b}"}[c.keys], c.start, c.ttl)
}

// ---------- script universe ----------

type script struct {
	desc  string
	shape string // combinator skeleton with leaf kinds, for distinct counting
	node  *space.Node
	enc   []byte
	depth int
}

var keyA, keyB *Key

func mkLeafKey(k *Key) script {
	n := space.A(space.U(0), space.B(k.Hash))
	return script{desc: "sig(" + k.Name + ")", shape: "sig", node: n, enc: n.Encode()}
}
func nstr(n uint64) string {
	if n == math.MaxUint64 {
		return "max"
	}
	return fmt.Sprint(n)
}
func mkLeafTime(kind uint64, n uint64) script {
	nd := space.A(space.U(kind), space.U(n))
	name := "before"
	if kind == 5 {
		name = "hereafter"
	}
	return script{desc: fmt.Sprintf("%s(%s)", name, nstr(n)), shape: name, node: nd, enc: nd.Encode()}
}

var combNames = []string{"all", "any", "0of", "1of", "2of", "3of"}

func mkComb(c int, kids []script) script {
	ks := make([]*space.Node, len(kids))
	ds := make([]string, len(kids))
	ss := make([]string, len(kids))
	d := 0
	for i, k := range kids {
		ks[i], ds[i], ss[i] = k.node, k.desc, k.shape
		if k.depth+1 > d {
			d = k.depth + 1
		}
	}
	if d == 0 {
		d = 1
	}
	var n *space.Node
	switch {
	case c == 0:
		n = space.A(space.U(1), space.A(ks...))
	case c == 1:
		n = space.A(space.U(2), space.A(ks...))
	default:
		n = space.A(space.U(3), space.U(uint64(c-2)), space.A(ks...))
	}
	return script{desc: combNames[c] + "[" + strings.Join(ds, ",") + "]", shape: combNames[c] + "[" + strings.Join(ss, ",") + "]", node: n, enc: n.Encode(), depth: d}
}

// child lists of length 0,1,2 over pool, by code
func kidLists(pool int) int { return 1 + pool + pool*pool }
func kidsByCode(pool []script, code int) []script {
	p := len(pool)
	switch {
	case code == 0:
		return nil
	case code <= p:
		return []script{pool[code-1]}
	}
	code -= 1 + p
	return []script{pool[code/p], pool[code%p]}
}

// ---------- reference evaluator (works on the parsed bytes) ----------

type leafID struct {
	kind uint64
	val  string // key hash or bound
}

var errShape = errors.New("not a native script per CDDL")

// refEval evaluates per the ledger semantics. leafFn, if non-nil, overrides the value of
// leaves (used to attribute composite failures to observed leaf results).
func refEval(n *space.Node, c ctxT, leafFn func(id leafID) (bool, bool)) (bool, error) {
	if n.Major != 4 || len(n.Items) < 2 || n.Items[0].Major != 0 {
		return false, errShape
	}
	kind := n.Items[0].Arg
	sub := func(list *space.Node) ([]bool, error) {
		if list.Major != 4 {
			return nil, errShape
		}
		out := make([]bool, len(list.Items))
		for i, it := range list.Items {
			v, err := refEval(it, c, leafFn)
			if err != nil {
				return nil, err
			}
			out[i] = v
		}
		return out, nil
	}
	switch kind {
	case 0:
		if len(n.Items) != 2 || n.Items[1].Major != 2 || len(n.Items[1].Bytes) != 28 {
			return false, errShape
		}
		h := n.Items[1].Bytes
		if leafFn != nil {
			if v, ok := leafFn(leafID{0, string(h)}); ok {
				return v, nil
			}
		}
		return (c.keys&1 != 0 && bytes.Equal(h, keyA.Hash)) || (c.keys&2 != 0 && bytes.Equal(h, keyB.Hash)), nil
	case 1, 2:
		if len(n.Items) != 2 {
			return false, errShape
		}
		vs, err := sub(n.Items[1])
		if err != nil {
			return false, err
		}
		cnt := 0
		for _, v := range vs {
			if v {
				cnt++
			}
		}
		if kind == 1 {
			return cnt == len(vs), nil
		}
		return cnt >= 1, nil
	case 3:
		if len(n.Items) != 3 || n.Items[1].Major != 0 {
			return false, errShape
		}
		vs, err := sub(n.Items[2])
		if err != nil {
			return false, err
		}
		cnt := uint64(0)
		for _, v := range vs {
			if v {
				cnt++
			}
		}
		return n.Items[1].Arg <= cnt, nil
	case 4, 5:
		if len(n.Items) != 2 || n.Items[1].Major != 0 {
			return false, errShape
		}
		b := n.Items[1].Arg
		if leafFn != nil {
			if v, ok := leafFn(leafID{kind, fmt.Sprint(b)}); ok {
				return v, nil
			}
		}
		if kind == 4 {
			return c.start.present && b <= c.start.v, nil
		}
		return c.ttl.present && c.ttl.v <= b, nil
	}
	return false, errShape
}

func refHash(enc []byte) []byte { return b224(append([]byte{0}, enc...)) }

// leaves of a tree with their ids
func leavesOf(n *space.Node, out *[]leafID) {
	if n.Major != 4 || len(n.Items) < 2 {
		return
	}
	switch n.Items[0].Arg {
	case 0:
		*out = append(*out, leafID{0, string(n.Items[1].Bytes)})
	case 4, 5:
		*out = append(*out, leafID{n.Items[0].Arg, fmt.Sprint(n.Items[1].Arg)})
	case 1, 2:
		for _, it := range n.Items[1].Items {
			leavesOf(it, out)
		}
	case 3:
		if len(n.Items) == 3 {
			for _, it := range n.Items[2].Items {
				leavesOf(it, out)
			}
		}
	}
}

// ---------- key classes ----------

func cmpClass(present bool, v, bound uint64) string {
	switch {
	case !present:
		return "absent"
	case v == 0:
		return "present-0"
	case v < bound:
		return "<bound"
	case v == bound:
		return "=bound"
	}
	return ">bound"
}
func boundClass(b uint64) string {
	switch b {
	case 0:
		return "0"
	case math.MaxUint64:
		return "2^64-1"
	}
	return "mid"
}

// leafKey = canonical class of a leaf-level disagreement.
func leafKey(fn string, id leafID, c ctxT, got bool) string {
	switch id.kind {
	case 0:
		name := "other"
		if id.val == string(keyA.Hash) {
			name = "a"
		} else if id.val == string(keyB.Hash) {
			name = "b"
		}
		has := (name == "a" && c.keys&1 != 0) || (name == "b" && c.keys&2 != 0)
		return fmt.Sprintf("%s|leaf=pubkey|witness-present=%v|got=%v", fn, has, got)
	case 4:
		var b uint64
		fmt.Sscan(id.val, &b)
		if c.start.present && c.start.v == 0 {
			return fmt.Sprintf("%s|leaf=invalid_before|start=present-0|got=%v", fn, got)
		}
		return fmt.Sprintf("%s|leaf=invalid_before|bound=%s|start=%s|got=%v", fn, boundClass(b), cmpClass(c.start.present, c.start.v, b), got)
	default:
		var b uint64
		fmt.Sscan(id.val, &b)
		if c.ttl.present && c.ttl.v == 0 {
			return fmt.Sprintf("%s|leaf=invalid_hereafter|ttl=present-0|got=%v", fn, got)
		}
		return fmt.Sprintf("%s|leaf=invalid_hereafter|bound=%s|ttl=%s|got=%v", fn, boundClass(b), cmpClass(c.ttl.present, c.ttl.v, b), got)
	}
}

// ---------- layers ----------

// obsTable remembers the observed result of each leaf in each context for one layer.
type obsKey struct {
	id leafID
	c  ctxT
}
type obsTable struct {
	mu sync.RWMutex
	m  map[obsKey]bool
}

func (o *obsTable) put(id leafID, c ctxT, v bool) {
	o.mu.Lock()
	o.m[obsKey{id, c}] = v
	o.mu.Unlock()
}
func (o *obsTable) get(id leafID, c ctxT) (bool, bool) {
	o.mu.RLock()
	v, ok := o.m[obsKey{id, c}]
	o.mu.RUnlock()
	return v, ok
}

var chk *vlib.Check

// soft deadline (safety net for an oversubscribed machine): work items that start after it
// are skipped and the run is reported as not exhaustive, naming the first phase cut short.
var (
	deadline     time.Time
	deadlineOnce sync.Once
	deadlineAt   string
)

func over(phase string) bool {
	if deadline.IsZero() || time.Now().Before(deadline) {
		return false
	}
	deadlineOnce.Do(func() { deadlineAt = phase })
	return true
}

// judge compares got with the reference for (script bytes, ctx) on a layer and reports.
// tree = verif/space parse of the bytes that were fed to the code under test.
func judge(fn, layer string, era int, slot uint64, obs *obsTable, sc string, enc []byte, tree *space.Node, c ctxT, got bool, isLeaf bool, variant string, canon func() (bool, bool)) {
	want, err := refEval(tree, c, nil)
	if err != nil {
		chk.Internal("reference cannot read own script %s: %v", sc, err)
	}
	canonLeaf := isLeaf && variant == ""
	if canonLeaf {
		var ids []leafID
		leavesOf(tree, &ids)
		obs.put(ids[0], c, got)
	}
	if got == want {
		return
	}
	report := func(key, how string) {
		if _, dup := reportedAt.LoadOrStore(key+"\x00"+layer, true); !dup {
			layersMu.Lock()
			layersOf[key] = append(layersOf[key], layer)
			layersMu.Unlock()
		}
		if _, dup := reported.LoadOrStore(key, true); dup {
			return
		}
		if atomic.AddInt64(&nKeys, 1) > maxKeys {
			atomic.AddInt64(&overflowKeys, 1)
			return
		}
		replay := map[string]any{"layer": layer, "era": era, "slot": fmt.Sprint(slot), "script": sc, "script_cbor": fmt.Sprintf("%x", enc), "context": c.String(),
			"keys": c.keys, "start_present": c.start.present, "start": fmt.Sprint(c.start.v), "ttl_present": c.ttl.present, "ttl": fmt.Sprint(c.ttl.v),
			"got": got, "want": want, "variant": variant, "is_leaf": isLeaf}
		v := ""
		if variant != "" {
			v = " re-encoded (" + variant + ")"
		}
		chk.Violation(key, fmt.Sprintf("%s: %s%s under %s evaluates to %v, ledger semantics give %v%s", layer, sc, v, c, got, want, how), replay)
	}
	if canonLeaf {
		var ids []leafID
		leavesOf(tree, &ids)
		report(leafKey(fn, ids[0], c, got), "")
		return
	}
	// composite or re-encoded: fully explained by the observed results of its (canonical) leaves?
	composed, _ := refEval(tree, c, func(id leafID) (bool, bool) { return obs.get(id, c) })
	if composed == got {
		var ids []leafID
		leavesOf(tree, &ids)
		for _, id := range ids {
			lv, ok := obs.get(id, c)
			lw, _ := refEval(leafNode(id), c, nil)
			if ok && lv != lw {
				report(leafKey(fn, id, c, lv), " (explained by the observed result of leaf "+leafName(id)+")")
			}
		}
		return
	}
	if variant != "" {
		// only a re-encoding problem if the canonical encoding of the same script behaves
		if cg, ok := canon(); ok && cg == want {
			report(fmt.Sprintf("%s|re-encoded|%s", fn, siteClass(tree, variant)), " (same script in canonical encoding behaves)")
			return
		}
	}
	outer, _ := looksScript(tree)
	report(fmt.Sprintf("%s|combinator|outer=%s|got=%v", fn, outer, got), " (leaves behave, combination does not; shape "+shapeOf(tree)+")")
}

var reported, reportedAt sync.Map

// at most maxKeys distinct violation keys are written out (a mass failure, e.g. a rule
// dropped from an era list, would otherwise write thousands of replay files)
const maxKeys = 40

var nKeys, overflowKeys int64
var layersMu sync.Mutex
var layersOf = map[string][]string{}

var kindNames = []string{"sig", "all", "any", "nofk", "before", "hereafter"}

func leafName(id leafID) string {
	if id.kind == 0 {
		return fmt.Sprintf("sig(%x…)", id.val[:4])
	}
	return kindNames[id.kind] + "(" + id.val + ")"
}

func looksScript(n *space.Node) (string, bool) {
	if n != nil && n.Major == 4 && len(n.Items) >= 2 && n.Items[0].Major == 0 && n.Items[0].Arg < 6 {
		return kindNames[n.Items[0].Arg], true
	}
	return "", false
}

// siteClass: which header of which kind of script node a d=1 variant changed, e.g.
// "hdr-of(all):arr->1B" or "field1-of(nofk):uint->2B".
func siteClass(tree *space.Node, variant string) string {
	i := strings.Index(variant, ":")
	if i < 0 {
		return variant
	}
	var path []int
	for _, p := range strings.Split(variant[:i], "/") {
		if p == "" {
			continue
		}
		var x int
		fmt.Sscan(p, &x)
		path = append(path, x)
	}
	n := tree.At(path)
	ch := variant[i+1:]
	for _, f := range []string{"->1B", "->2B", "->4B", "->8B"} {
		if strings.HasSuffix(ch, f) {
			ch = strings.TrimSuffix(ch, f) + "->non-minimal"
		}
	}
	if k, ok := looksScript(n); ok {
		return fmt.Sprintf("hdr-of(%s):%s", k, ch)
	}
	if len(path) > 0 {
		if k, ok := looksScript(tree.At(path[:len(path)-1])); ok {
			return fmt.Sprintf("field%d-of(%s):%s", path[len(path)-1], k, ch)
		}
	}
	return "other:" + ch
}

func leafNode(id leafID) *space.Node {
	if id.kind == 0 {
		return space.A(space.U(0), space.B([]byte(id.val)))
	}
	var b uint64
	fmt.Sscan(id.val, &b)
	return space.A(space.U(id.kind), space.U(b))
}

func shapeOf(n *space.Node) string {
	if n.Major != 4 || len(n.Items) < 2 {
		return "?"
	}
	k := n.Items[0].Arg
	name := []string{"sig", "all", "any", "nofk", "before", "hereafter"}[k]
	var list *space.Node
	switch k {
	case 1, 2:
		list = n.Items[1]
	case 3:
		name = fmt.Sprintf("%dof", n.Items[1].Arg)
		list = n.Items[2]
	default:
		return name
	}
	parts := make([]string, len(list.Items))
	for i, it := range list.Items {
		parts[i] = shapeOf(it)
	}
	return name + "[" + strings.Join(parts, ",") + "]"
}

// variantClass strips the path from a reenc description: "/1/0:arr->1B" -> "arr->1B@depthN"
func variantClass(v string) string {
	i := strings.Index(v, ":")
	if i < 0 {
		return v
	}
	depth := strings.Count(v[:i], "/")
	if v[:i] == "/" {
		depth = 0
	}
	return fmt.Sprintf("%s@d%d", v[i+1:], depth)
}

// ---------- layer E: decode + Evaluate ----------

var keySets [4]map[common.Blake2b224]bool

func evalArgs(c ctxT) (uint64, uint64) {
	s, e := uint64(0), uint64(math.MaxUint64) // the convention documented on NativeScript.Evaluate
	if c.start.present {
		s = c.start.v
	}
	if c.ttl.present {
		e = c.ttl.v
	}
	return s, e
}

func decodeScript(enc []byte) (ns *common.NativeScript, err error) {
	defer func() {
		if r := recover(); r != nil {
			ns, err = nil, fmt.Errorf("panic: %v", r)
		}
	}()
	ns = &common.NativeScript{}
	err = ns.UnmarshalCBOR(enc)
	return
}

type localCount struct {
	evals          int64
	accept, reject int64
}

func (l *localCount) flush() {
	chk.EvalN(l.evals)
	atomic.AddInt64(&totAccept, l.accept)
	atomic.AddInt64(&totReject, l.reject)
	*l = localCount{}
}

// runE evaluates one script (bytes) over all contexts on layer E. Returns false if the
// decoder rejected the bytes.
func runE(obs *obsTable, sc script, enc []byte, ctxs []ctxT, slots []uint64, variant string, lc *localCount) bool {
	ns, err := decodeScript(enc)
	if err != nil {
		return false
	}
	tree, perr := space.Parse(enc)
	if perr != nil {
		chk.Internal("own parser rejects own bytes: %v", perr)
	}
	want := refHash(enc)
	h := ns.Hash()
	if !bytes.Equal(h[:], want) {
		vc := "canonical"
		if variant != "" {
			vc = "re-encoded"
		}
		chk.Violation("NativeScript.Hash|"+vc, fmt.Sprintf("script %s (%x): Hash()=%x, blake2b-224(00‖original bytes)=%x", sc.desc, enc, h[:], want),
			map[string]any{"script_cbor": fmt.Sprintf("%x", enc), "variant": variant})
	}
	for _, c := range ctxs {
		s, e := evalArgs(c)
		for _, slot := range slots {
			got := ns.Evaluate(slot, s, e, keySets[c.keys])
			lc.evals++
			if got {
				lc.accept++
			} else {
				lc.reject++
			}
			judge("NativeScript.Evaluate", "Evaluate", 0, slot, obs, sc.desc, enc, tree, c, got, sc.depth == 0, variant, func() (bool, bool) {
				cn, err := decodeScript(sc.enc)
				if err != nil {
					return false, false
				}
				return cn.Evaluate(slot, s, e, keySets[c.keys]), true
			})
		}
	}
	return true
}

// ---------- layer R: full transaction through the era rule list ----------

type eraFix struct {
	env  *EraEnv
	stub *Stub
	in   TxIn
	obs  *obsTable
	// per (start,ttl): body-dependent precomputed witnesses
	mu   sync.Mutex
	sigs map[string][2]VKeyWit
}

func newEraFix(era int, seed int64) *eraFix {
	f := &eraFix{env: NewEraEnv(era), stub: NewStub(), obs: &obsTable{m: map[obsKey]bool{}}, sigs: map[string][2]VKeyWit{}}
	f.in = TxIn{Id: FakeTxId("c29-in", seed), Idx: 0}
	if err := f.stub.AddUtxo(era, f.in, Out(era, EnterpriseKeyAddr(0, keyA.Hash), ValueCoin(3_000_000))); err != nil {
		chk.Internal("stub utxo for %s: %v", EraNames[era], err)
	}
	return f
}

func (f *eraFix) spec(c ctxT) *TxSpec {
	s := &TxSpec{Era: f.env.Era, Inputs: []TxIn{f.in}, Fee: 1_000_000,
		Outputs: []*space.Node{Out(f.env.Era, EnterpriseKeyAddr(0, keyB.Hash), ValueCoin(2_000_000))}}
	if c.start.present {
		s.Start = U64(c.start.v)
	}
	if c.ttl.present {
		s.TTL = U64(c.ttl.v)
	}
	return s
}

// runR builds the transaction carrying script bytes enc as its only native script witness,
// decodes it with the real era decoder and runs every rule of the era.
// result: 0 decode rejected, 1 evaluated.
func (f *eraFix) runR(sc script, enc []byte, c ctxT, slot uint64, variant string, lc *localCount) int {
	s := f.spec(c)
	k := fmt.Sprintf("%v/%v", c.start, c.ttl)
	f.mu.Lock()
	sg, ok := f.sigs[k]
	f.mu.Unlock()
	if !ok {
		t := *s
		t.SignWith(keyA)
		t.SignWith(keyB)
		sg = [2]VKeyWit{t.VKeys[0], t.VKeys[1]}
		f.mu.Lock()
		f.sigs[k] = sg
		f.mu.Unlock()
	}
	if c.keys&1 != 0 {
		s.VKeys = append(s.VKeys, sg[0])
	}
	if c.keys&2 != 0 {
		s.VKeys = append(s.VKeys, sg[1])
	}
	tree, perr := space.Parse(enc)
	if perr != nil {
		chk.Internal("own parser rejects own bytes: %v", perr)
	}
	s.Native = []*space.Node{tree}
	txb := s.Bytes()
	tx, err := DecodeTx(f.env.Era, txb)
	if err != nil {
		if variant == "" {
			chk.Internal("%s decoder rejects the canonical harness transaction (%s, %s): %v\n%x", EraNames[f.env.Era], sc.desc, c, err, txb)
		}
		return 0
	}
	era := EraNames[f.env.Era]
	fn := "UtxoValidateNativeScripts"
	want := refHash(enc)
	vc := "canonical"
	if variant != "" {
		vc = "re-encoded"
	}
	nss := tx.Witnesses().NativeScripts()
	if len(nss) != 1 {
		chk.Violation(fn+"|witness-scripts-lost|"+vc, fmt.Sprintf("%s: transaction with one native script witness decodes to %d scripts", era, len(nss)),
			map[string]any{"era": era, "tx_cbor": fmt.Sprintf("%x", txb)})
		return 1
	}
	h := nss[0].Hash()
	if !bytes.Equal(h[:], want) {
		chk.Violation("NativeScript.Hash|in-tx|"+vc, fmt.Sprintf("%s: witness script %s: Hash()=%x, blake2b-224(00‖original bytes)=%x", era, sc.desc, h[:], want),
			map[string]any{"era": era, "tx_cbor": fmt.Sprintf("%x", txb), "variant": variant})
	}
	res := f.env.RunAll(tx, slot, f.stub)
	got := true
	for _, r := range res {
		var nsf allegra.NativeScriptFailedError
		if r.Err != nil && errors.As(r.Err, &nsf) {
			got = false
			if !bytes.Equal(nsf.ScriptHash[:], want) {
				chk.Violation(fn+"|error-names-wrong-script|"+vc, fmt.Sprintf("%s: NativeScriptFailedError names %x, the failing script hashes to %x", era, nsf.ScriptHash[:], want),
					map[string]any{"era": era, "tx_cbor": fmt.Sprintf("%x", txb)})
			}
		}
	}
	lc.evals++
	if got {
		lc.accept++
	} else {
		lc.reject++
	}
	judge(fn, "rules("+era+")", f.env.Era, slot, f.obs, sc.desc, enc, tree, c, got, sc.depth == 0, variant, func() (bool, bool) { return f.gotOnly(sc.enc, c, slot) })
	return 1
}

// gotOnly: the bare observation (script bytes in a transaction -> any NativeScriptFailedError?).
func (f *eraFix) gotOnly(enc []byte, c ctxT, slot uint64) (bool, bool) {
	s := f.spec(c)
	if c.keys&1 != 0 {
		s.SignWith(keyA)
	}
	if c.keys&2 != 0 {
		s.SignWith(keyB)
	}
	s.Native = []*space.Node{space.Raw(enc)}
	tx, err := DecodeTx(f.env.Era, s.Bytes())
	if err != nil {
		return false, false
	}
	got := true
	for _, r := range f.env.RunAll(tx, slot, f.stub) {
		var nsf allegra.NativeScriptFailedError
		if r.Err != nil && errors.As(r.Err, &nsf) {
			got = false
		}
	}
	return got, true
}

// ---------- main ----------

func main() {
	c := vlib.New("C29", "exploration")
	chk = c
	keyA, keyB = NewKey("a", c.Seed), NewKey("b", c.Seed)
	for ks := 0; ks < 4; ks++ {
		m := map[common.Blake2b224]bool{}
		if ks&1 != 0 {
			m[common.Blake2b224(keyA.Hash)] = true
		}
		if ks&2 != 0 {
			m[common.Blake2b224(keyB.Hash)] = true
		}
		keySets[ks] = m
	}

	if c.Replay != "" {
		replayOne(c)
		return
	}
	// bounds n and interval values
	boundsSmall := []uint64{0, 5, 10}
	boundsLeaf := []uint64{0, 5, 10, math.MaxUint64}
	ivals := []optU{{}, {true, 0}, {true, 4}, {true, 5}, {true, 6}, {true, 10}, {true, 11}}
	ivalsLeaf := append(append([]optU{}, ivals...), optU{true, math.MaxUint64})
	mkCtxs := func(iv []optU) []ctxT {
		var out []ctxT
		for ks := 0; ks < 4; ks++ {
			for _, s := range iv {
				for _, t := range iv {
					out = append(out, ctxT{ks, s, t})
				}
			}
		}
		return out
	}
	ctxs, ctxsLeaf := mkCtxs(ivals), mkCtxs(ivalsLeaf)

	mkLeaves := func(bounds []uint64) []script {
		l := []script{mkLeafKey(keyA), mkLeafKey(keyB)}
		for _, n := range bounds {
			l = append(l, mkLeafTime(4, n))
		}
		for _, n := range bounds {
			l = append(l, mkLeafTime(5, n))
		}
		return l
	}
	leavesBig := mkLeaves(boundsLeaf) // 10 leaves incl. bound 2^64-1 (depth 0 and 1 only)
	mkDepth1 := func(leaves []script) []script {
		var out []script
		for cb := 0; cb < 6; cb++ {
			for code := 0; code < kidLists(len(leaves)); code++ {
				out = append(out, mkComb(cb, kidsByCode(leaves, code)))
			}
		}
		return out
	}
	depth1Big := mkDepth1(leavesBig)
	// depth-2 pool: quick = one bound (5), thorough = bounds {0,5,10}
	d2bounds := []uint64{5}
	if c.Thorough() {
		d2bounds = boundsSmall
	}
	leavesD2 := mkLeaves(d2bounds)
	poolD2 := append(append([]script{}, leavesD2...), mkDepth1(leavesD2)...)
	nD2 := 6 * kidLists(len(poolD2))

	slotsLeaf := []uint64{0, 7, math.MaxUint64}
	slots1 := []uint64{7}

	t0 := time.Now()
	deadline = c.Deadline(170*time.Second, 560*time.Second)
	debug.SetGCPercent(400)
	if p := os.Getenv("VERIF_PPROF"); p != "" {
		fh, _ := os.Create(p)
		pprof.StartCPUProfile(fh)
		defer pprof.StopCPUProfile()
		go func() { time.Sleep(40 * time.Second); pprof.StopCPUProfile(); fh.Close(); os.Exit(3) }()
	}
	phase := func(name string) {
		if os.Getenv("VERIF_DEBUG") != "" {
			fmt.Fprintf(os.Stderr, "[%6.1fs] %s\n", time.Since(t0).Seconds(), name)
		}
	}
	// ======== layer E ========
	obsE := &obsTable{m: map[obsKey]bool{}}
	var lcE localCount
	for _, s := range leavesBig {
		if !runE(obsE, s, s.enc, ctxsLeaf, slotsLeaf, "", &lcE) {
			c.Violation("NativeScript.UnmarshalCBOR|canonical|"+s.shape, "canonical script rejected: "+s.desc, map[string]any{"script_cbor": fmt.Sprintf("%x", s.enc)})
		}
		c.Distinct("E:" + s.desc)
	}
	lcE.flush()
	vlib.Parallel(len(depth1Big), func(i int) {
		if over("layer E depth 1") {
			return
		}
		var lc localCount
		s := depth1Big[i]
		if !runE(obsE, s, s.enc, ctxsLeaf, slotsLeaf, "", &lc) {
			c.Violation("NativeScript.UnmarshalCBOR|canonical|"+s.shape, "canonical script rejected: "+s.desc, map[string]any{"script_cbor": fmt.Sprintf("%x", s.enc)})
		}
		c.Distinct("E:" + s.shape)
		lc.flush()
	})
	phase("E depth<=1 done")
	// depth 2 (children drawn from leaves ∪ depth-1 scripts; includes again the depth<=1 scripts of the pool's bounds as children)
	const chunk = 512
	nChunks := (nD2 + chunk - 1) / chunk
	vlib.Parallel(nChunks, func(ci int) {
		if over("layer E depth 2") {
			return
		}
		var lc localCount
		shapes := map[string]struct{}{}
		for idx := ci * chunk; idx < (ci+1)*chunk && idx < nD2; idx++ {
			cb, code := idx/kidLists(len(poolD2)), idx%kidLists(len(poolD2))
			s := mkComb(cb, kidsByCode(poolD2, code))
			if !runE(obsE, s, s.enc, ctxs, slots1, "", &lc) {
				c.Violation("NativeScript.UnmarshalCBOR|canonical|depth2", "canonical script rejected: "+s.desc, map[string]any{"script_cbor": fmt.Sprintf("%x", s.enc)})
			}
			shapes[s.shape] = struct{}{}
		}
		for sh := range shapes {
			c.Distinct("E:" + sh)
		}
		lc.flush()
	})
	c.Set("layerE_scripts", int64(len(leavesBig)+len(depth1Big)+nD2))

	phase("E depth2 done")
	// re-encodings at d=1 (every header of the script): depth<=1 all; depth 2 over the d2 pool in thorough
	var reMu sync.Mutex
	reStats := map[string]int64{}
	reenc := func(s script, cx []ctxT, lc *localCount) {
		tree := space.Raw(s.enc) // private copy: EnumD1 mutates header forms
		space.EnumD1(tree, space.Sites(tree, nil), func(v space.Variant) bool {
			ok := runE(obsE, s, v.Bytes, cx, slots1, v.Desc, lc)
			reMu.Lock()
			if ok {
				reStats["decoded:"+v.Class]++
			} else {
				reStats["rejected:"+v.Class]++
			}
			reMu.Unlock()
			return true
		})
	}
	allD1 := append(append([]script{}, leavesBig...), depth1Big...)
	vlib.Parallel(len(allD1), func(i int) {
		if over("layer E re-encodings depth<=1") {
			return
		}
		var lc localCount
		reenc(allD1[i], ctxsLeaf, &lc)
		lc.flush()
	})
	var ctxRe16 []ctxT // key subsets x start in {absent,5} x ttl in {absent,5}
	for ks := 0; ks < 4; ks++ {
		for _, st := range []optU{{}, {true, 5}} {
			for _, tt := range []optU{{}, {true, 5}} {
				ctxRe16 = append(ctxRe16, ctxT{ks, st, tt})
			}
		}
	}
	if c.Thorough() {
		// depth 2 re-encodings: pool with the single bound 5, the 16-context grid
		pool := append(append([]script{}, mkLeaves([]uint64{5})...), mkDepth1(mkLeaves([]uint64{5}))...)
		n := 6 * kidLists(len(pool))
		nCh := (n + chunk - 1) / chunk
		vlib.Parallel(nCh, func(ci int) {
			if over("layer E re-encodings depth 2") {
				return
			}
			var lc localCount
			for idx := ci * chunk; idx < (ci+1)*chunk && idx < n; idx++ {
				cb, code := idx/kidLists(len(pool)), idx%kidLists(len(pool))
				reenc(mkComb(cb, kidsByCode(pool, code)), ctxRe16, &lc)
			}
			lc.flush()
		})
	}

	phase("E reenc done")
	// ======== layer R ========
	eras := []int{EraAllegra, EraMary, EraAlonzo, EraBabbage, EraConway, EraDijkstra}
	var rejR sync.Map
	fixes := map[int]*eraFix{}
	for _, era := range eras {
		f := newEraFix(era, c.Seed)
		// driver sanity: the decoded transaction exposes the interval we encoded (as far as the API can)
		{
			s := f.spec(ctxT{0, optU{true, 4}, optU{true, 11}})
			tx, err := DecodeTx(era, s.Bytes())
			if err != nil || tx.ValidityIntervalStart() != 4 || tx.TTL() != 11 {
				c.Internal("%s: harness transaction does not round-trip the validity interval: %v", EraNames[era], err)
			}
		}
		var lc0 localCount
		for _, s := range leavesBig {
			for _, cx := range ctxsLeaf {
				for _, slot := range slots1 {
					f.runR(s, s.enc, cx, slot, "", &lc0)
				}
			}
			c.Distinct("R:" + EraNames[era] + ":" + s.desc)
		}
		lc0.flush()
		// depth 1 in transactions. thorough: all 666 scripts over the 10 leaves x 256 contexts;
		// quick: the 258 scripts over the 6 leaves {sig a, sig b, before 0, before 5, hereafter 5, hereafter 2^64-1} x 196 contexts
		d1R, cxR := depth1Big, ctxsLeaf
		if !c.Thorough() {
			d1R = mkDepth1([]script{mkLeafKey(keyA), mkLeafKey(keyB), mkLeafTime(4, 0), mkLeafTime(4, 5), mkLeafTime(5, 5), mkLeafTime(5, math.MaxUint64)})
			cxR = ctxs
		}
		vlib.Parallel(len(d1R), func(i int) {
			if over("layer R depth 1") {
				return
			}
			var lc localCount
			s := d1R[i]
			for _, cx := range cxR {
				f.runR(s, s.enc, cx, 7, "", &lc)
			}
			c.Distinct("R:" + EraNames[era] + ":" + s.shape)
			lc.flush()
		})
		c.Set("layerR_depth1_scripts_per_era", len(d1R))
		c.Set("layerR_depth1_contexts", len(cxR))
		phase("R " + EraNames[era] + " depth<=1 done")
		// slot independence: the ledger semantics do not read the current slot
		vlib.Parallel(len(leavesBig), func(i int) {
			if over("layer R slot independence (leaves)") {
				return
			}
			var lc localCount
			for _, cx := range ctxsLeaf {
				f.runR(leavesBig[i], leavesBig[i].enc, cx, 0, "", &lc)
				f.runR(leavesBig[i], leavesBig[i].enc, cx, math.MaxUint64, "", &lc)
			}
			lc.flush()
		})
		fixes[era] = f
	}
	// second pass over the eras: the expensive extras (so that a soft deadline never starves a whole era of the basic cases)
	for _, era := range eras {
		f := fixes[era]
		if c.Thorough() {
			vlib.Parallel(len(depth1Big), func(i int) {
				if over("layer R slot independence (depth 1)") {
					return
				}
				var lc localCount
				for _, cx := range ctxs {
					f.runR(depth1Big[i], depth1Big[i].enc, cx, math.MaxUint64, "", &lc)
				}
				lc.flush()
			})
		}
		// depth 2 inside transactions: thorough only; every depth-2 script over the leaves {sig a, before 5, hereafter 5}
		// (39,858 scripts) x 8 contexts ({} / {a}) x start {absent,5} x ttl {absent,5}. The full depth-2 space is covered on layer E.
		if c.Thorough() {
			lv := []script{mkLeafKey(keyA), mkLeafTime(4, 5), mkLeafTime(5, 5)}
			pool := append(append([]script{}, lv...), mkDepth1(lv)...)
			var cx2 []ctxT
			for ks := 0; ks < 2; ks++ {
				for _, st := range []optU{{}, {true, 5}} {
					for _, tt := range []optU{{}, {true, 5}} {
						cx2 = append(cx2, ctxT{ks, st, tt})
					}
				}
			}
			n := 6 * kidLists(len(pool))
			nCh := (n + chunk - 1) / chunk
			vlib.Parallel(nCh, func(ci int) {
				if over("layer R depth 2") {
					return
				}
				var lc localCount
				for idx := ci * chunk; idx < (ci+1)*chunk && idx < n; idx++ {
					cb, code := idx/kidLists(len(pool)), idx%kidLists(len(pool))
					s := mkComb(cb, kidsByCode(pool, code))
					for _, cx := range cx2 {
						f.runR(s, s.enc, cx, 7, "", &lc)
					}
				}
				lc.flush()
			})
			c.Set("layerR_depth2_scripts_per_era", int64(n))
			c.Set("layerR_depth2_contexts", len(cx2))
		}
		phase("R " + EraNames[era] + " slots/depth2 done")
		// re-encoded scripts inside transactions (d=1 on every header of the script), 16 contexts:
		// key subsets x start in {absent,5} x ttl in {absent,5}. quick: depth<=1 scripts over the
		// leaves {sig a, before 5, hereafter 5}; thorough: every depth<=1 script.
		reSet := allD1
		if !c.Thorough() {
			lv := []script{mkLeafKey(keyA), mkLeafTime(4, 5), mkLeafTime(5, 5)}
			reSet = append(append([]script{}, lv...), mkDepth1(lv)...)
		}
		var cxRe []ctxT
		for ks := 0; ks < 4; ks++ {
			for _, st := range []optU{{}, {true, 5}} {
				for _, tt := range []optU{{}, {true, 5}} {
					cxRe = append(cxRe, ctxT{ks, st, tt})
				}
			}
		}
		vlib.Parallel(len(reSet), func(i int) {
			if over("layer R re-encodings") {
				return
			}
			var lc localCount
			s := reSet[i]
			tree := space.Raw(s.enc)
			space.EnumD1(tree, space.Sites(tree, nil), func(v space.Variant) bool {
				for _, cx := range cxRe {
					if f.runR(s, v.Bytes, cx, 7, v.Desc, &lc) == 0 {
						k := "R-rejected:" + v.Class
						n, _ := rejR.LoadOrStore(k, new(int64))
						reMu.Lock()
						*(n.(*int64))++
						reMu.Unlock()
						break // decoder verdict does not depend on the context
					}
				}
				return true
			})
			lc.flush()
		})
		c.Set("layerR_reenc_scripts_per_era", len(reSet))
	}

	phase("R done")
	if deadlineAt != "" {
		c.NotExhaustive("soft deadline reached in " + deadlineAt + "; later work items were skipped")
	}
	// ---- evidence ----
	c.Set("reenc_layerE_decoder_verdicts", reStats)
	var rk []string
	rejR.Range(func(k, v any) bool { rk = append(rk, fmt.Sprintf("%s=%d", k, *(v.(*int64)))); return true })
	sort.Strings(rk)
	c.Set("reenc_R_decoder_rejections", rk)
	c.Set("outcomes", map[string]int64{"script-satisfied": totAccept, "script-not-satisfied": totReject})
	for k := range layersOf {
		sort.Strings(layersOf[k])
	}
	if overflowKeys > 0 {
		c.Set("violation_keys_not_written_out", overflowKeys)
	}
	if len(layersOf) > 0 {
		c.Set("disagreements_by_key_and_layer", layersOf)
	}
	c.Sample(map[string]any{"script": depth1Big[40].desc, "cbor": fmt.Sprintf("%x", depth1Big[40].enc), "hash": fmt.Sprintf("%x", refHash(depth1Big[40].enc))})
	c.Sample(map[string]any{"script": mkComb(0, kidsByCode(poolD2, 300)).desc})
	c.Set("rule", "scripts: 10 leaves (sig a, sig b, before/hereafter n, n in {0,5,10,2^64-1}); all/any/m-of (m=0..3) over every child list of length 0..2: depth<=1 complete over the 10 leaves, depth 2 complete over children from leaves+depth-1 scripts with n in "+fmt.Sprint(d2bounds)+
		"; contexts: 4 key subsets x start x ttl over {absent,0,4,5,6,10,11} (+2^64-1 for depth<=1); layer E = real decoder + Evaluate with its documented argument convention; layer R = complete transaction per era (Allegra..Dijkstra) through the real tx decoder and every rule of the era list, filtered on NativeScriptFailedError; re-encodings: every single header-form change (d=1) of every depth<=1 script on both layers; distinct = script shape per layer/era; oracle = own evaluator on own parse of the same bytes + blake2b-224(00||bytes)")
	c.Set("contexts_small_grid", len(ctxs))
	c.Set("contexts_leaf_grid", len(ctxsLeaf))
	c.Assume("blake2b-224 and ed25519 (golang.org/x/crypto, crypto/ed25519) are trusted")
	c.Assume("key hashes and the input txid are representatives derived from VERIF_SEED; structure (scripts, key subsets, interval bounds) is what is enumerated")
	c.Assume("a re-encoded script that the decoder rejects is outside C29 (decoded scripts only); acceptance of non-minimal headers is C03's subject")
	// free-running -race pass: concurrent callers on their own inputs (state the library shares between calls)
	c.RaceAudit("c29")
	c.Finish()
}

var totAccept, totReject int64

// replayOne re-runs the single case stored in a replay file (leaf observations are
// re-established first for the same context so that attribution works the same way).
func replayOne(c *vlib.Check) {
	b, err := os.ReadFile(c.Replay)
	if err != nil {
		c.Internal("replay: %v", err)
	}
	var f struct {
		Replay struct {
			Era          int    `json:"era"`
			Slot         string `json:"slot"`
			Script       string `json:"script"`
			ScriptCbor   string `json:"script_cbor"`
			Keys         int    `json:"keys"`
			StartPresent bool   `json:"start_present"`
			Start        string `json:"start"`
			TtlPresent   bool   `json:"ttl_present"`
			Ttl          string `json:"ttl"`
			Variant      string `json:"variant"`
			IsLeaf       bool   `json:"is_leaf"`
		} `json:"replay"`
	}
	if err := json.Unmarshal(b, &f); err != nil {
		c.Internal("replay: %v", err)
	}
	r := f.Replay
	enc, err := hex.DecodeString(r.ScriptCbor)
	if err != nil {
		c.Internal("replay: %v", err)
	}
	var cx ctxT
	cx.keys = r.Keys
	cx.start.present, cx.ttl.present = r.StartPresent, r.TtlPresent
	fmt.Sscan(r.Start, &cx.start.v)
	fmt.Sscan(r.Ttl, &cx.ttl.v)
	var slot uint64
	fmt.Sscan(r.Slot, &slot)
	tree, err := space.Parse(enc)
	if err != nil {
		c.Internal("replay: %v", err)
	}
	var ids []leafID
	leavesOf(tree, &ids)
	var lc localCount
	depth := 1
	if r.IsLeaf {
		depth = 0
	}
	// canonical encoding of the same script = every header in its minimal definite form
	canonTree := tree.Clone()
	canonTree.Walk(func(n *space.Node, _ []int) { n.Form = space.FormMin })
	scEnc := enc
	if r.Variant != "" {
		scEnc = canonTree.Encode()
	}
	sc := script{desc: r.Script, enc: scEnc, depth: depth}
	if r.Era == 0 {
		obs := &obsTable{m: map[obsKey]bool{}}
		if !(r.IsLeaf && r.Variant == "") {
			for _, id := range ids {
				n := leafNode(id)
				runE(obs, script{desc: leafName(id), enc: n.Encode()}, n.Encode(), []ctxT{cx}, []uint64{slot}, "", &lc)
			}
		}
		runE(obs, sc, enc, []ctxT{cx}, []uint64{slot}, r.Variant, &lc)
	} else {
		fx := newEraFix(r.Era, c.Seed)
		if !(r.IsLeaf && r.Variant == "") {
			for _, id := range ids {
				n := leafNode(id)
				fx.runR(script{desc: leafName(id), enc: n.Encode()}, n.Encode(), cx, slot, "", &lc)
			}
		}
		fx.runR(sc, enc, cx, slot, r.Variant, &lc)
	}
	lc.flush()
	c.Set("rule", "replay of one stored case")
	c.Finish()
}
