// layout.go — independent locator of block components (shared verbatim by c07 and c01).
//
// Written from the era CDDL (byron.cddl, shelley…conway.cddl, the Dijkstra prototype
// layout [header, [invalid/nil, [* [body, wits, aux/nil]], leios/nil, peras/nil]]) on top of
// verif/space's own CBOR reader. It never calls the repository. Given the parsed tree of
// a block it returns the byte range of every component the properties talk about and a
// role label for every header of the tree (used to name the class of a re-encoding).
package main

import (
	"fmt"

	"verif/space"
)

// Rng is a half-open byte range [S,E) inside the block encoding.
type Rng struct{ S, E int }

func (r Rng) Len() int       { return r.E - r.S }
func (r Rng) String() string { return fmt.Sprintf("[%d,%d)", r.S, r.E) }

func rng(n *space.Node) Rng { return Rng{n.Start, n.End} }

// Rdm is one redeemer: key (tag,index) and the range of its plutus-data element.
type Rdm struct {
	Tag, Index uint64
	Data       Rng
	Entry      Rng // the whole array entry / map value
}

// Scr is one witness-set script element.
type Scr struct {
	Lang byte // 0 native, 1..4 plutus v1..v4
	R    Rng
	N    *space.Node
}

// TxLoc are the located components of one transaction.
type TxLoc struct {
	Tx        *Rng // range of the whole transaction item where the era has one (Byron pair's tx is Body; Dijkstra tx array)
	Body      Rng
	Witness   Rng
	Meta      *Rng // auxiliary data of this transaction (nil = none)
	BodyN     *space.Node
	WitN      *space.Node
	MetaN     *space.Node
	Outputs   []Rng
	OutputNs  []*space.Node
	Datums    []Rng
	Redeemers []Rdm
	Scripts   []Scr
	// whether some script list / the datum list of the witness set is wrapped in the #6.258 set tag
	ScriptsTagged, DatumsTagged bool
}

// Layout is everything located in one block encoding.
type Layout struct {
	Family  string // "ebb", "byron", "shelley" (Shelley…Conway), "dijkstra"
	Block   Rng
	Header  Rng
	HeaderN *space.Node
	Txs     []TxLoc
	AuxSet  *Rng // Shelley family: the auxiliary data map (block element 3)
	Invalid []uint64
	roles   map[*space.Node]string
}

// Pseudo block types used for stand-alone artefacts (c01): TxBase+txType is one
// transaction in the era's stand-alone wire form, HeaderBase+blockType one block header.
const (
	TxBase     = 100
	HeaderBase = 200
)

func familyOf(typ uint) string {
	switch {
	case typ >= HeaderBase:
		return "header:" + familyOf(typ-HeaderBase)
	case typ >= TxBase:
		return "tx:" + familyOf(typ-TxBase+1)
	case typ == 0:
		return "ebb"
	case typ == 1:
		return "byron"
	case typ >= 2 && typ <= 7:
		return "shelley"
	case typ == 8:
		return "dijkstra"
	}
	return "?"
}

// Locate walks the tree of one block of block type typ.
func Locate(root *space.Node, typ uint) (*Layout, error) {
	l := &Layout{Family: familyOf(typ), roles: map[*space.Node]string{}}
	if typ >= HeaderBase {
		l.Block, l.Header, l.HeaderN = rng(root), rng(root), root
		l.roles[root] = "header"
		return l, nil
	}
	if typ >= TxBase {
		l.Block = rng(root)
		if err := l.standaloneTx(root, typ-TxBase); err != nil {
			return nil, err
		}
		return l, nil
	}
	if root.Major != 4 {
		return nil, fmt.Errorf("block is not an array")
	}
	l.Block = rng(root)
	l.roles[root] = "block"
	if len(root.Items) < 2 {
		return nil, fmt.Errorf("block has %d elements", len(root.Items))
	}
	l.Header = rng(root.Items[0])
	l.HeaderN = root.Items[0]
	l.roles[root.Items[0]] = "header"
	var err error
	switch l.Family {
	case "ebb":
		l.roles[root.Items[1]] = "ebb-body"
		if len(root.Items) > 2 {
			l.roles[root.Items[2]] = "ebb-extra"
		}
	case "byron":
		err = l.byron(root)
	case "shelley":
		err = l.shelley(root)
	case "dijkstra":
		err = l.dijkstra(root)
	default:
		err = fmt.Errorf("unknown block type %d", typ)
	}
	if err != nil {
		return nil, err
	}
	return l, nil
}

func (l *Layout) byron(root *space.Node) error {
	if len(root.Items) != 3 {
		return fmt.Errorf("byron block with %d elements", len(root.Items))
	}
	body := root.Items[1]
	l.roles[root.Items[2]] = "byron-extra"
	if body.Major != 4 || len(body.Items) != 4 {
		return fmt.Errorf("byron body shape")
	}
	l.roles[body] = "byron-body"
	pay := body.Items[0]
	if pay.Major != 4 {
		return fmt.Errorf("byron tx payload is not an array")
	}
	l.roles[pay] = "txpayload-array"
	l.roles[body.Items[1]] = "byron-ssc"
	l.roles[body.Items[2]] = "byron-dlg"
	l.roles[body.Items[3]] = "byron-upd"
	for _, pair := range pay.Items {
		if pair.Major != 4 || len(pair.Items) != 2 {
			return fmt.Errorf("byron tx pair shape")
		}
		l.roles[pair] = "txpair-array"
		tx, wit := pair.Items[0], pair.Items[1]
		if tx.Major != 4 || len(tx.Items) != 3 {
			return fmt.Errorf("byron tx shape")
		}
		l.roles[tx] = "byron-tx"
		l.roles[wit] = "byron-witnesses"
		l.roles[tx.Items[0]] = "byron-inputs"
		l.roles[tx.Items[2]] = "byron-attributes"
		outs := tx.Items[1]
		if outs.Major != 4 {
			return fmt.Errorf("byron outputs shape")
		}
		l.roles[outs] = "byron-outputs-array"
		t := TxLoc{Body: rng(tx), Witness: rng(wit), BodyN: tx, WitN: wit}
		pr := rng(pair)
		t.Tx = &pr
		for _, o := range outs.Items {
			l.roles[o] = "byron-output"
			t.Outputs = append(t.Outputs, rng(o))
			t.OutputNs = append(t.OutputNs, o)
		}
		l.Txs = append(l.Txs, t)
	}
	return nil
}

// unwrapSet strips the optional #6.258 set tag (Conway+).
func (l *Layout) unwrapSet(n *space.Node, tagRole string) *space.Node {
	if n.Major == 6 && n.Arg == 258 && len(n.Items) == 1 {
		l.roles[n] = tagRole
		return n.Items[0]
	}
	return n
}

func (l *Layout) txBody(t *TxLoc, body *space.Node) error {
	if body.Major != 5 {
		return fmt.Errorf("tx body is not a map")
	}
	l.roles[body] = "txbody-map"
	t.Body, t.BodyN = rng(body), body
	for i := 0; i+1 < len(body.Items); i += 2 {
		k, v := body.Items[i], body.Items[i+1]
		l.roles[k] = "txbody-key"
		if k.Major == 0 && k.Arg == 1 && t.Outputs == nil {
			if v.Major != 4 {
				return fmt.Errorf("outputs is not an array")
			}
			l.roles[v] = "outputs-array"
			t.Outputs = []Rng{}
			for _, o := range v.Items {
				l.roles[o] = "output"
				t.Outputs = append(t.Outputs, rng(o))
				t.OutputNs = append(t.OutputNs, o)
			}
		}
	}
	return nil
}

func (l *Layout) witnessSet(t *TxLoc, w *space.Node) error {
	if w.Major != 5 {
		return fmt.Errorf("witness set is not a map")
	}
	l.roles[w] = "witness-map"
	t.Witness, t.WitN = rng(w), w
	for i := 0; i+1 < len(w.Items); i += 2 {
		k, v := w.Items[i], w.Items[i+1]
		l.roles[k] = "witness-key"
		if k.Major != 0 {
			continue
		}
		switch k.Arg {
		case 4: // [* plutus_data] / set
			arr := l.unwrapSet(v, "datums-set-tag")
			t.DatumsTagged = t.DatumsTagged || arr != v
			if arr.Major != 4 {
				return fmt.Errorf("plutus data is not an array")
			}
			l.roles[arr] = "datums-array"
			for _, d := range arr.Items {
				l.roles[d] = "datum"
				t.Datums = append(t.Datums, rng(d))
			}
		case 5: // redeemers: [* [tag, index, data, ex_units]] or {[tag,index] => [data, ex_units]}
			switch v.Major {
			case 4:
				l.roles[v] = "redeemers-array"
				for _, e := range v.Items {
					if e.Major != 4 || len(e.Items) != 4 || e.Items[0].Major != 0 || e.Items[1].Major != 0 {
						return fmt.Errorf("redeemer entry shape")
					}
					l.roles[e] = "redeemer-entry"
					l.roles[e.Items[2]] = "redeemer-data"
					t.Redeemers = append(t.Redeemers, Rdm{e.Items[0].Arg, e.Items[1].Arg, rng(e.Items[2]), rng(e)})
				}
			case 5:
				l.roles[v] = "redeemers-map"
				for j := 0; j+1 < len(v.Items); j += 2 {
					rk, rv := v.Items[j], v.Items[j+1]
					if rk.Major != 4 || len(rk.Items) != 2 || rk.Items[0].Major != 0 || rk.Items[1].Major != 0 ||
						rv.Major != 4 || len(rv.Items) != 2 {
						return fmt.Errorf("redeemer map entry shape")
					}
					l.roles[rk] = "redeemer-key"
					l.roles[rv] = "redeemer-value"
					l.roles[rv.Items[0]] = "redeemer-data"
					t.Redeemers = append(t.Redeemers, Rdm{rk.Items[0].Arg, rk.Items[1].Arg, rng(rv.Items[0]), rng(rv)})
				}
			default:
				return fmt.Errorf("redeemers shape")
			}
		case 1, 3, 6, 7, 8:
			lang := map[uint64]byte{1: 0, 3: 1, 6: 2, 7: 3, 8: 4}[k.Arg]
			arr := l.unwrapSet(v, "scripts-set-tag")
			t.ScriptsTagged = t.ScriptsTagged || arr != v
			if arr.Major != 4 {
				return fmt.Errorf("script list is not an array")
			}
			l.roles[arr] = "scripts-array"
			for _, s := range arr.Items {
				l.roles[s] = "script"
				t.Scripts = append(t.Scripts, Scr{lang, rng(s), s})
			}
		}
	}
	return nil
}

func (l *Layout) shelley(root *space.Node) error {
	if len(root.Items) < 4 {
		return fmt.Errorf("shelley-family block with %d elements", len(root.Items))
	}
	bodies, wits, aux := root.Items[1], root.Items[2], root.Items[3]
	if bodies.Major != 4 || wits.Major != 4 || aux.Major != 5 {
		return fmt.Errorf("shelley-family block shape")
	}
	if len(bodies.Items) != len(wits.Items) {
		return fmt.Errorf("bodies/witness count mismatch")
	}
	l.roles[bodies] = "txbodies-array"
	l.roles[wits] = "witnesses-array"
	l.roles[aux] = "aux-map"
	ar := rng(aux)
	l.AuxSet = &ar
	if len(root.Items) > 4 {
		inv := root.Items[4]
		l.roles[inv] = "invalid-array"
		for _, x := range inv.Items {
			if x.Major == 0 {
				l.Invalid = append(l.Invalid, x.Arg)
			}
		}
	}
	l.Txs = make([]TxLoc, len(bodies.Items))
	for i := range bodies.Items {
		if err := l.txBody(&l.Txs[i], bodies.Items[i]); err != nil {
			return fmt.Errorf("tx %d: %w", i, err)
		}
		if err := l.witnessSet(&l.Txs[i], wits.Items[i]); err != nil {
			return fmt.Errorf("tx %d: %w", i, err)
		}
	}
	for i := 0; i+1 < len(aux.Items); i += 2 {
		k, v := aux.Items[i], aux.Items[i+1]
		l.roles[k] = "aux-key"
		l.roles[v] = "aux-value"
		if k.Major == 0 && k.Arg < uint64(len(l.Txs)) {
			r := rng(v)
			l.Txs[k.Arg].Meta = &r
			l.Txs[k.Arg].MetaN = v
		}
	}
	return nil
}

func (l *Layout) dijkstra(root *space.Node) error {
	if len(root.Items) != 2 {
		return fmt.Errorf("dijkstra block with %d elements", len(root.Items))
	}
	bb := root.Items[1]
	if bb.Major != 4 || len(bb.Items) != 4 {
		return fmt.Errorf("dijkstra block body shape")
	}
	l.roles[bb] = "dijkstra-body"
	l.roles[bb.Items[0]] = "invalid-array"
	l.roles[bb.Items[2]] = "leios-cert"
	l.roles[bb.Items[3]] = "peras-cert"
	txs := bb.Items[1]
	if txs.Major != 4 {
		return fmt.Errorf("dijkstra transactions shape")
	}
	l.roles[txs] = "txs-array"
	l.Txs = make([]TxLoc, len(txs.Items))
	for i, tx := range txs.Items {
		if tx.Major != 4 || len(tx.Items) != 3 {
			return fmt.Errorf("dijkstra tx shape")
		}
		l.roles[tx] = "tx-array"
		r := rng(tx)
		l.Txs[i].Tx = &r
		if err := l.txBody(&l.Txs[i], tx.Items[0]); err != nil {
			return err
		}
		if err := l.witnessSet(&l.Txs[i], tx.Items[1]); err != nil {
			return err
		}
		a := tx.Items[2]
		l.roles[a] = "aux-value"
		if !(a.Major == 7 && a.Arg == 22) {
			ar := rng(a)
			l.Txs[i].Meta = &ar
			l.Txs[i].MetaN = a
		}
	}
	return nil
}

// standaloneTx: Byron [tx, witnesses]; Shelley…Mary [body, wits, aux/null]; Alonzo…Conway
// [body, wits, is_valid, aux/null]; Dijkstra [body, wits, aux/null] or with is_valid.
func (l *Layout) standaloneTx(root *space.Node, txType uint) error {
	if root.Major != 4 {
		return fmt.Errorf("transaction is not an array")
	}
	if txType == 0 {
		// reuse the Byron pair walk through a one-pair payload
		if len(root.Items) != 2 {
			return fmt.Errorf("byron tx pair shape")
		}
		pay := &space.Node{Major: 4, Items: []*space.Node{root}}
		fake := &space.Node{Major: 4, Items: []*space.Node{{Major: 4}, {Major: 4, Items: []*space.Node{pay, {Major: 4}, {Major: 4}, {Major: 4}}}, {Major: 4}}}
		if err := l.byron(fake); err != nil {
			return err
		}
		for _, n := range []*space.Node{fake, fake.Items[1], fake.Items[2], pay, fake.Items[1].Items[1], fake.Items[1].Items[2], fake.Items[1].Items[3]} {
			delete(l.roles, n)
		}
		return nil
	}
	if len(root.Items) < 3 || len(root.Items) > 4 {
		return fmt.Errorf("transaction with %d elements", len(root.Items))
	}
	l.roles[root] = "tx-array"
	l.Txs = make([]TxLoc, 1)
	r := rng(root)
	l.Txs[0].Tx = &r
	if err := l.txBody(&l.Txs[0], root.Items[0]); err != nil {
		return err
	}
	if err := l.witnessSet(&l.Txs[0], root.Items[1]); err != nil {
		return err
	}
	a := root.Items[len(root.Items)-1]
	l.roles[a] = "aux-value"
	if !(a.Major == 7 && a.Arg == 22) {
		ar := rng(a)
		l.Txs[0].Meta = &ar
		l.Txs[0].MetaN = a
	}
	return nil
}

// RoleAt returns the role of the node at path: its own label, or "in-<label of the
// nearest labelled ancestor>".
func (l *Layout) RoleAt(root *space.Node, path []int) string {
	cur := root
	last := l.roles[cur]
	own := true
	for _, i := range path {
		cur = cur.Items[i]
		if r, ok := l.roles[cur]; ok {
			last, own = r, true
		} else {
			own = false
		}
	}
	if own {
		return last
	}
	return "in-" + last
}

// TxIndexAt returns the index of the transaction the node at path belongs to (-1 = none).
func (l *Layout) TxIndexAt(root *space.Node, path []int) int {
	n := root.At(path)
	if n == nil {
		return -1
	}
	for i, t := range l.Txs {
		in := func(r Rng) bool { return n.Start >= r.S && n.End <= r.E }
		if in(t.Body) || in(t.Witness) || (t.Meta != nil && in(*t.Meta)) || (t.Tx != nil && in(*t.Tx)) {
			return i
		}
	}
	return -1
}
