// synth.go — blocks assembled by the harness' own CBOR writer from pieces of the real
// fixtures (shared verbatim by c07 and c01). They add the shapes the real fixtures lack:
// Dijkstra transactions, Conway witness sets with scripts/datums in both the plain and the
// #6.258 set encoding, and containers with >= 24 elements (where the shortest definite
// header is 2 bytes and differs in size from the indefinite one).
package main

import (
	"verif/space"
)

func fxByName(fx []space.Fixture, name string) *space.Node {
	for i := range fx {
		if fx[i].Name == name {
			n, err := space.Parse(fx[i].Cbor)
			if err != nil {
				return nil
			}
			return n
		}
	}
	return nil
}

// mapPut inserts key => v keeping unsigned keys in ascending (canonical) order.
func mapPut(m *space.Node, key uint64, v *space.Node) {
	at := len(m.Items)
	for i := 0; i+1 < len(m.Items); i += 2 {
		if m.Items[i].Major == 0 && m.Items[i].Arg > key {
			at = i
			break
		}
	}
	items := append([]*space.Node{}, m.Items[:at]...)
	items = append(items, space.U(key), v)
	m.Items = append(items, m.Items[at:]...)
}

// synthetic returns the harness-built blocks. A block whose ingredients are missing is
// left out (the caller reports how many fixtures it got).
func synthetic(fx []space.Fixture) []space.Fixture {
	var out []space.Fixture
	conway := fxByName(fx, "conway")
	mary := fxByName(fx, "mary")
	alonzo := fxByName(fx, "alonzo")
	dijkstra := fxByName(fx, "dijkstra")
	byron := fxByName(fx, "byron-main")

	// (1) Dijkstra block with transactions: the repository's Dijkstra transaction fixture
	// plus Conway transactions that carry no array-encoded redeemers.
	if dijkstra != nil && conway != nil {
		var txs []*space.Node
		if b, err := space.ReadHexFixture("ledger/dijkstra/testdata/cardano_ledger_dijkstra_w30_tx.hex"); err == nil {
			if tx, err := space.Parse(b); err == nil && tx.Major == 4 && len(tx.Items) == 3 {
				txs = append(txs, tx)
			}
		}
		l, err := Locate(conway, 7)
		if err == nil {
			added := 0
			for i, t := range l.Txs {
				arrayRdm := false
				if r := t.WitN.MapGetUint(5); r != nil && r.Major == 4 {
					arrayRdm = true
				}
				if arrayRdm || added >= 3 {
					continue
				}
				aux := space.Null()
				if t.MetaN != nil {
					aux = t.MetaN
				}
				txs = append(txs, space.A(conway.Items[1].Items[i], conway.Items[2].Items[i], aux))
				added++
			}
		}
		if len(txs) > 0 {
			blk := space.A(dijkstra.Items[0], space.A(space.Null(), space.A(txs...), space.Null(), space.Null()))
			out = append(out, space.Fixture{Name: "synth-dijkstra-txs", Type: 8, Cbor: blk.Encode()})
		}
	}

	// (2) Conway block whose witness sets carry native/Plutus scripts and datums, tx 0 in the
	// #6.258 set encoding, tx 1 as plain arrays.
	if conway != nil && mary != nil && alonzo != nil {
		lm, e1 := Locate(mary, 4)
		la, e2 := Locate(alonzo, 5)
		var native, plutus, datum *space.Node
		if e1 == nil {
			for _, t := range lm.Txs {
				for _, s := range t.Scripts {
					if s.Lang == 0 && native == nil {
						native = s.N
					}
				}
			}
		}
		if e2 == nil {
			for _, t := range la.Txs {
				for _, s := range t.Scripts {
					if s.Lang == 1 && plutus == nil {
						plutus = s.N
					}
				}
				if len(t.Datums) > 0 && datum == nil {
					datum = t.WitN.MapGetUint(4).Items[0]
				}
			}
		}
		if native != nil && plutus != nil && datum != nil && len(conway.Items[2].Items) >= 2 {
			blk := conway.Clone()
			second := space.B([]byte("second")) // a second, different datum
			for ti := 0; ti < 2; ti++ {
				w := blk.Items[2].Items[ti]
				wrap := func(items ...*space.Node) *space.Node {
					cl := make([]*space.Node, len(items))
					for i := range items {
						cl[i] = items[i].Clone()
					}
					if ti == 0 {
						return space.Tag(258, space.A(cl...))
					}
					return space.A(cl...)
				}
				native2 := space.A(space.U(1), space.A(native)) // all-of [native]
				mapPut(w, 1, wrap(native, native2))
				mapPut(w, 3, wrap(plutus))
				mapPut(w, 4, wrap(datum, second))
				mapPut(w, 6, wrap(plutus))
				mapPut(w, 7, wrap(plutus, space.B(append([]byte{0x46}, plutus.Bytes[:6]...))))
			}
			out = append(out, space.Fixture{Name: "synth-conway-scripts", Type: 7, Cbor: blk.Encode()})
		}
	}

	// (3) Conway block with 25 transactions, the first with 25 outputs.
	if conway != nil && len(conway.Items[1].Items) > 0 {
		blk := conway.Clone()
		nb := len(blk.Items[1].Items)
		for i := nb; i < 25; i++ {
			blk.Items[1].Items = append(blk.Items[1].Items, conway.Items[1].Items[i%nb].Clone())
			blk.Items[2].Items = append(blk.Items[2].Items, conway.Items[2].Items[i%nb].Clone())
		}
		if outs := blk.Items[1].Items[0].MapGetUint(1); outs != nil && len(outs.Items) > 0 {
			o0 := outs.Items[0]
			for len(outs.Items) < 25 {
				outs.Items = append(outs.Items, o0.Clone())
			}
		}
		out = append(out, space.Fixture{Name: "synth-conway-25", Type: 7, Cbor: blk.Encode()})
	}

	// (4) Byron main block with 25 transactions, the first with 25 outputs.
	if byron != nil && len(byron.Items) == 3 && len(byron.Items[1].Items) == 4 && len(byron.Items[1].Items[0].Items) > 0 {
		blk := byron.Clone()
		pay := blk.Items[1].Items[0]
		np := len(pay.Items)
		for i := np; i < 25; i++ {
			pay.Items = append(pay.Items, byron.Items[1].Items[0].Items[i%np].Clone())
		}
		outs := pay.Items[0].Items[0].Items[1]
		if len(outs.Items) > 0 {
			o0 := outs.Items[0]
			for len(outs.Items) < 25 {
				outs.Items = append(outs.Items, o0.Clone())
			}
		}
		out = append(out, space.Fixture{Name: "synth-byron-25", Type: 1, Cbor: blk.Encode()})
	}
	return out
}
