// C01: decoded blocks and transactions keep their exact wire bytes.
//
// Alphabet: the real block fixtures of every era plus four harness-built blocks
// (synth.go), every block header of those as a stand-alone header, and every transaction
// of those in the era's stand-alone wire form (built by the harness' own CBOR writer);
// every re-encoding with one changed header form (d=1, all headers) and, for blocks, two
// changed header forms on the block/tx spine (d=2).
// Oracle: verif/space's own reader re-parses each variant, layout.go locates the byte
// range of each component; for every variant the decoder accepts the stored encoding the
// library reports for a component (Cbor()), its re-serialisation (cbor.Encode) and its
// identifier (Hash()/Id()) must be the located wire bytes / their blake2b-256.
// History dimension (reuse.go): a second decode into the same receiver must leave what the
// first decode reported (kept Cbor() slice, by-value copy) intact and report the second.
package main

import (
	"bytes"
	"encoding/hex"
	"fmt"
	"os"
	"reflect"
	"runtime/debug"
	"sort"
	"strings"
	"sync"
	"time"

	"golang.org/x/crypto/blake2b"

	rcbor "github.com/blinklabs-io/gouroboros/cbor"
	"github.com/blinklabs-io/gouroboros/ledger"
	"github.com/blinklabs-io/gouroboros/ledger/common"
	"verif/space"
	"verif/vlib"
)

var (
	c *vlib.Check

	mu        sync.Mutex
	d1Failing = map[string]bool{}
	origFail  = map[string]bool{}
	counters  = map[string]int64{}
	pending   = map[string]*pendingViolation{}
	fxOrder   = map[string]int{}
)

type pendingViolation struct {
	obs     string // "<entry>.<component>.<observation>"
	v       *Variant
	what    string
	n       int64
	class   string
	classes []string
}

func (p *pendingViolation) less(q *pendingViolation) bool {
	if len(p.v.Sites) != len(q.v.Sites) {
		return len(p.v.Sites) < len(q.v.Sites)
	}
	if p.v.Fx.Name != q.v.Fx.Name {
		return fxOrder[p.v.Fx.Name] < fxOrder[q.v.Fx.Name]
	}
	a, b := p.v.Desc(), q.v.Desc()
	if len(a) != len(b) {
		return len(a) < len(b)
	}
	return a < b
}

func count(k string, n int64) {
	mu.Lock()
	counters[k] += n
	mu.Unlock()
}

func b256(b []byte) []byte { h := blake2b.Sum256(b); return h[:] }

var skipCfg = common.VerifyConfig{SkipBodyHashValidation: true}

type cborer interface{ Cbor() []byte }

// field returns the addressable struct field name of the value behind x as a Cbor()-er.
func field(x any, name string) (cborer, bool) {
	v := reflect.ValueOf(x)
	for v.Kind() == reflect.Pointer || v.Kind() == reflect.Interface {
		if v.IsNil() {
			return nil, false
		}
		v = v.Elem()
	}
	if v.Kind() != reflect.Struct {
		return nil, false
	}
	f := v.FieldByName(name)
	if !f.IsValid() || !f.CanAddr() || !f.CanInterface() {
		return nil, false
	}
	cb, ok := f.Addr().Interface().(cborer)
	return cb, ok
}

// checker accumulates the observations of one variant.
type checker struct {
	v      *Variant
	entry  string
	b      []byte
	root   *space.Node
	bad    map[string]badObs // "<component>.<observation>|<Go type>" -> first failure not already shown by the unchanged artefact
	order  []string
	fail   map[string]bool // every failing "<component>.<observation>|<Go type>" (dependency tracking)
	asOrig int             // failures of a component instance that fails in the same way on the unchanged artefact
	n      int
}

type badObs struct {
	obs, gotype, what string
	r                 Rng
}

func typeName(x any) string {
	if x == nil {
		return "nil"
	}
	return reflect.TypeOf(x).String()
}

func (k *checker) slice(r Rng) []byte { return k.b[r.S:r.E] }

func short(b []byte) string {
	if b == nil {
		return "nil"
	}
	return vlib.Hex(b)
}

// eq compares one reported byte string with the wire bytes at r. x is the decoded object
// the observation was made on (its Go type names the root cause in the key). dependsOn:
// observations on the same object whose failure already explains this one (Hash after
// Cbor, Encode after Cbor) — then it is skipped.
func (k *checker) eq(x any, comp, obs string, got []byte, r Rng, want []byte, where string, dependsOn ...string) bool {
	gt := typeName(x)
	for _, d := range dependsOn {
		if k.fail[d+"|"+gt] {
			return false
		}
	}
	k.n++
	if bytes.Equal(got, want) {
		return true
	}
	key := comp + "." + obs + "|" + gt
	k.fail[key] = true
	inst := key + "|" + k.v.Fx.Name + "|" + where
	if len(k.v.Sites) == 0 {
		mu.Lock()
		origFail[inst] = true
		mu.Unlock()
	} else {
		mu.Lock()
		o := origFail[inst]
		mu.Unlock()
		if o { // this very component already fails on the unchanged artefact: nothing new
			k.asOrig++
			return false
		}
	}
	if _, ok := k.bad[key]; !ok {
		k.bad[key] = badObs{comp + "." + obs, gt, fmt.Sprintf("%s (%s, via %s decoder): %s.%s reports %s (%d B), wire bytes %v are %s (%d B)", where, gt, k.entry, comp, obs, short(got), len(got), r, short(want), len(want)), r}
		k.order = append(k.order, key)
	}
	return false
}

func safe(f func()) (p any) {
	defer func() { p = recover() }()
	f()
	return nil
}

func encode(x any) []byte {
	b, err := rcbor.Encode(x)
	if err != nil {
		return []byte("encode error: " + err.Error())
	}
	return b
}

func headerHashPreimage(fam string, hdr []byte) []byte {
	switch fam {
	case "ebb":
		return append([]byte{0x82, 0x00}, hdr...)
	case "byron":
		return append([]byte{0x82, 0x01}, hdr...)
	}
	return hdr
}

// metadataRange: the transaction_metadata part of an auxiliary data item (Shelley: the
// map itself; Allegra/Mary: element 0 of the array form; Alonzo+: key 0 of the #6.259 map).
func metadataRange(a *space.Node) *Rng {
	switch {
	case a.Major == 5:
		r := rng(a)
		return &r
	case a.Major == 4 && len(a.Items) > 0:
		r := rng(a.Items[0])
		return &r
	case a.Major == 6 && a.Arg == 259 && len(a.Items) == 1:
		if m := a.Items[0].MapGetUint(0); m != nil {
			r := rng(m)
			return &r
		}
	}
	return nil
}

// checkTx evaluates everything observable on one decoded transaction.
// inBlock: the transaction came out of Block.Transactions() (its own Cbor() is then a
// re-assembly for the Shelley family, which has no contiguous transaction on the wire).
//
// full=false (block transactions that neither contain a changed header nor follow one, nor
// are the first/last of the block): only the stored encodings and identifiers are compared
// (Cbor(), Hash(), Id() of transaction, body, witness set, auxiliary data, outputs); the
// re-serialisations (cbor.Encode, re-assembled Transaction.Cbor()) and the witness-set items
// are evaluated for the full ones.
func (k *checker) checkTx(fam string, i int, tx common.Transaction, t TxLoc, inBlock, full bool) {
	w := fmt.Sprintf("tx %d", i)
	if !full {
		if body, ok := field(tx, "Body"); ok {
			if k.eq(body, "txbody", "Cbor", body.Cbor(), t.Body, k.slice(t.Body), w) {
				h := tx.Hash()
				k.eq(tx, "tx", "Hash", h.Bytes(), t.Body, b256(k.slice(t.Body)), w)
			}
		}
		if ws, ok := field(tx, "WitnessSet"); ok && !strings.HasSuffix(fam, "byron") {
			k.eq(ws, "witness", "Cbor", ws.Cbor(), t.Witness, k.slice(t.Witness), w)
		}
		if t.Meta != nil {
			if aux := tx.AuxiliaryData(); aux != nil {
				k.eq(aux, "aux", "Cbor", aux.Cbor(), *t.Meta, k.slice(*t.Meta), w)
			}
		}
		if t.Tx != nil && (strings.HasSuffix(fam, "byron") || strings.HasSuffix(fam, "dijkstra")) {
			k.eq(tx, "tx", "Cbor", tx.Cbor(), *t.Tx, k.slice(*t.Tx), w)
		}
		if tx.IsValid() {
			if outs := tx.Outputs(); len(outs) == len(t.Outputs) {
				for j, o := range outs {
					k.eq(o, "output", "Cbor", o.Cbor(), t.Outputs[j], k.slice(t.Outputs[j]), fmt.Sprintf("%s output %d", w, j))
				}
			}
		}
		return
	}
	bodyWire := k.slice(t.Body)
	var bodyObj any = tx
	if body, ok := field(tx, "Body"); ok {
		bodyObj = body
		k.eq(body, "txbody", "Cbor", body.Cbor(), t.Body, bodyWire, w)
		k.eq(body, "txbody", "Encode", encode(body), t.Body, bodyWire, w, "txbody.Cbor")
	} else {
		count("no_Body_field", 1)
	}
	bodyBad := k.fail["txbody.Cbor|"+typeName(bodyObj)]
	if !bodyBad {
		h := tx.Hash()
		k.eq(tx, "tx", "Hash", h.Bytes(), t.Body, b256(bodyWire), w)
		id := tx.Id()
		k.eq(tx, "tx", "Id", id.Bytes(), t.Body, b256(bodyWire), w)
	}
	byronLike := strings.HasSuffix(fam, "byron")
	witBad := false
	if !byronLike {
		if ws, ok := field(tx, "WitnessSet"); ok {
			witBad = !k.eq(ws, "witness", "Cbor", ws.Cbor(), t.Witness, k.slice(t.Witness), w)
			k.eq(ws, "witness", "Encode", encode(ws), t.Witness, k.slice(t.Witness), w, "witness.Cbor")
		} else {
			count("no_WitnessSet_field", 1)
		}
	}
	// auxiliary data / metadata
	auxBad := false
	if t.Meta != nil {
		if aux := tx.AuxiliaryData(); aux != nil {
			auxBad = !k.eq(aux, "aux", "Cbor", aux.Cbor(), *t.Meta, k.slice(*t.Meta), w)
			k.eq(aux, "aux", "Encode", encode(aux), *t.Meta, k.slice(*t.Meta), w, "aux.Cbor")
		} else {
			count("aux_present_on_wire_but_AuxiliaryData_nil", 1)
		}
		if md := tx.Metadata(); md != nil {
			if mr := metadataRange(t.MetaN); mr != nil {
				k.eq(md, "metadata", "Cbor", md.Cbor(), *mr, k.slice(*mr), w)
			}
		}
	}
	// the transaction itself
	txc := tx.Cbor()
	switch {
	case t.Tx != nil && (byronLike || strings.HasSuffix(fam, "dijkstra") || !inBlock):
		k.eq(tx, "tx", "Cbor", txc, *t.Tx, k.slice(*t.Tx), w)
		k.eq(tx, "tx", "Encode", encode(tx), *t.Tx, k.slice(*t.Tx), w, "tx.Cbor")
	default:
		// Shelley-family transaction taken from a block: [body, wits, (is_valid,) aux/null]
		n, err := space.Parse(txc)
		if err != nil || n.Major != 4 || len(n.Items) < 3 {
			k.eq(tx, "tx", "Cbor(shape)", txc, t.Body, nil, w+": re-assembled transaction is not a CBOR array of >=3 items")
			break
		}
		if !bodyBad {
			k.eq(tx, "tx", "Cbor[body]", txc[n.Items[0].Start:n.Items[0].End], t.Body, bodyWire, w)
		}
		if !witBad {
			k.eq(tx, "tx", "Cbor[witness]", txc[n.Items[1].Start:n.Items[1].End], t.Witness, k.slice(t.Witness), w)
		}
		last := n.Items[len(n.Items)-1]
		if t.Meta != nil {
			if !auxBad {
				k.eq(tx, "tx", "Cbor[aux]", txc[last.Start:last.End], *t.Meta, k.slice(*t.Meta), w)
			}
		} else {
			k.eq(tx, "tx", "Cbor[aux]", txc[last.Start:last.End], t.Body, []byte{0xf6}, w)
		}
	}
	// outputs
	if tx.IsValid() {
		outs := tx.Outputs()
		if len(outs) == len(t.Outputs) {
			for j, o := range outs {
				k.eq(o, "output", "Cbor", o.Cbor(), t.Outputs[j], k.slice(t.Outputs[j]), fmt.Sprintf("%s output %d", w, j))
				k.eq(o, "output", "Encode", encode(o), t.Outputs[j], k.slice(t.Outputs[j]), fmt.Sprintf("%s output %d", w, j), "output.Cbor")
			}
		} else {
			count("output_count_differs_from_wire", 1)
		}
	}
	// witness set components
	ws := tx.Witnesses()
	if ws == nil || byronLike {
		return
	}
	if ds := ws.PlutusData(); len(ds) == len(t.Datums) {
		for j := range ds {
			k.eq(&ds[j], "datum", "Cbor", ds[j].Cbor(), t.Datums[j], k.slice(t.Datums[j]), fmt.Sprintf("%s datum %d", w, j))
			k.eq(&ds[j], "datum", "Encode", encode(&ds[j]), t.Datums[j], k.slice(t.Datums[j]), fmt.Sprintf("%s datum %d", w, j), "datum.Cbor")
		}
	} else {
		count("datum_count_differs_from_wire", 1)
	}
	var natives []Rng
	for _, s := range t.Scripts {
		if s.Lang == 0 {
			natives = append(natives, s.R)
		}
	}
	if ns := ws.NativeScripts(); len(ns) == len(natives) {
		for j := range ns {
			k.eq(&ns[j], "native-script", "Cbor", ns[j].Cbor(), natives[j], k.slice(natives[j]), fmt.Sprintf("%s native script %d", w, j))
			k.eq(&ns[j], "native-script", "Encode", encode(&ns[j]), natives[j], k.slice(natives[j]), fmt.Sprintf("%s native script %d", w, j), "native-script.Cbor")
		}
	} else {
		count("native_script_count_differs_from_wire", 1)
	}
	if rs := ws.Redeemers(); rs != nil {
		seen := map[[2]uint64]int{}
		for _, r := range t.Redeemers {
			seen[[2]uint64{r.Tag, r.Index}]++
		}
		for _, r := range t.Redeemers {
			if seen[[2]uint64{r.Tag, r.Index}] != 1 || r.Tag > 255 || r.Index > 0xffffffff {
				continue
			}
			val := rs.Value(uint(r.Index), common.RedeemerTag(r.Tag))
			if val.Data.Data == nil && val.Data.Cbor() == nil {
				count("redeemer_not_found_by_Value", 1)
				continue
			}
			k.eq(&val.Data, "redeemer-data", "Cbor", val.Data.Cbor(), r.Data, k.slice(r.Data), fmt.Sprintf("%s redeemer (%d,%d)", w, r.Tag, r.Index))
		}
	}
}

var sampleOnce sync.Map

func handle(v *Variant) {
	typ := v.Fx.Type
	evalClass := v.Fx.Name + "|" + v.ClassKey()
	fam := familyOf(typ)
	k := &checker{v: v, b: v.Bytes, bad: map[string]badObs{}, fail: map[string]bool{}}
	var lay *Layout
	locate := func() {
		root, err := space.Parse(v.Bytes)
		if err != nil {
			c.Internal("own reader rejects variant %s of %s: %v", v.Desc(), v.Fx.Name, err)
		}
		lay, err = Locate(root, typ)
		if err != nil {
			c.Internal("own locator rejects variant %s of %s: %v", v.Desc(), v.Fx.Name, err)
		}
		k.root = root
	}
	var panicked any
	switch {
	case typ >= HeaderBase:
		k.entry = "header"
		var hdr ledger.BlockHeader
		var err error
		if p := safe(func() { hdr, err = ledger.NewBlockHeaderFromCbor(typ-HeaderBase, v.Bytes) }); p != nil || err != nil {
			c.Eval(evalClass, "rejected")
			return
		}
		locate()
		panicked = safe(func() {
			k.eq(hdr, "header", "Cbor", hdr.Cbor(), lay.Header, v.Bytes, "header")
			k.eq(hdr, "header", "Encode", encode(hdr), lay.Header, v.Bytes, "header", "header.Cbor")
			h := hdr.Hash()
			k.eq(hdr, "header", "Hash", h.Bytes(), lay.Header, b256(headerHashPreimage(familyOf(typ-HeaderBase), v.Bytes)), "header", "header.Cbor")
		})
	case typ >= TxBase:
		k.entry = "tx"
		var tx ledger.Transaction
		var err error
		if p := safe(func() { tx, err = ledger.NewTransactionFromCbor(typ-TxBase, v.Bytes) }); p != nil || err != nil {
			c.Eval(evalClass, "rejected")
			return
		}
		locate()
		panicked = safe(func() { k.checkTx(fam, 0, tx, lay.Txs[0], false, true) })
	default:
		k.entry = "block"
		var blk ledger.Block
		var err error
		if p := safe(func() { blk, err = ledger.NewBlockFromCbor(typ, v.Bytes, skipCfg) }); p != nil || err != nil {
			c.Eval(evalClass, "rejected")
			return
		}
		locate()
		txs := blk.Transactions()
		if len(txs) != len(lay.Txs) {
			c.Internal("locator finds %d transactions, decoder %d (%s of %s)", len(lay.Txs), len(txs), v.Desc(), v.Fx.Name)
		}
		panicked = safe(func() {
			k.eq(blk, "block", "Cbor", blk.Cbor(), lay.Block, v.Bytes, "block")
			k.eq(blk, "block", "Encode", encode(blk), lay.Block, v.Bytes, "block", "block.Cbor")
			hw := k.slice(lay.Header)
			hdr := blk.Header()
			hdrOK := k.eq(hdr, "header", "Cbor", hdr.Cbor(), lay.Header, hw, "block header")
			k.eq(hdr, "header", "Encode", encode(hdr), lay.Header, hw, "block header", "header.Cbor")
			want := b256(headerHashPreimage(fam, hw))
			h := hdr.Hash()
			k.eq(hdr, "header", "Hash", h.Bytes(), lay.Header, want, "block header", "header.Cbor")
			if hdrOK {
				bh := blk.Hash()
				k.eq(blk, "block", "Hash", bh.Bytes(), lay.Header, want, "block")
			}
			// fully observed: first and last transaction, every transaction that contains a
			// changed header and the one after it; all of them for an unchanged block
			fullSet := map[int]bool{0: true, len(txs) - 1: true}
			for _, s := range v.Sites {
				if s.Tx >= 0 {
					fullSet[s.Tx], fullSet[s.Tx+1] = true, true
				}
			}
			for i, tx := range txs {
				k.checkTx(fam, i, tx, lay.Txs[i], true, len(v.Sites) == 0 || fullSet[i])
			}
		})
	}
	if panicked != nil {
		k.bad["panic"] = badObs{"panic", k.entry, fmt.Sprintf("observing the decoded object panicked: %v", panicked), lay.Block}
		k.order = append(k.order, "panic")
	}
	count("observations", int64(k.n))
	outcome := "accepted/bytes-exact"
	if k.asOrig > 0 {
		outcome = "accepted/only-the-mismatches-of-the-unchanged-artefact"
		count("variant_failures_explained_by_the_failing_original", int64(k.asOrig))
	}
	if len(k.bad) > 0 {
		outcome = "accepted/mismatch"
		for _, key := range k.order {
			b := k.bad[key]
			report(k, b)
		}
	}
	c.Eval(evalClass, outcome)
	if len(v.Sites) > 0 {
		if _, loaded := sampleOnce.LoadOrStore(v.Fx.Name, true); !loaded {
			c.Sample(map[string]any{"artefact": v.Fx.Name, "variant": v.Desc(), "outcome": outcome, "observations": k.n, "bytes": vlib.Hex(v.Bytes)})
		}
	}
}

// siteClasses: the class of each changed header relative to the failing component:
// "within=<form>" when the header belongs to the component's own encoding, otherwise
// "<role>=<form>" (a header outside the component).
func (k *checker) siteClasses(r Rng) []string {
	var out []string
	for _, s := range k.v.Sites {
		n := k.root.At(s.Path)
		if n != nil && r.S <= n.Start && n.End <= r.E {
			out = append(out, "within="+s.FormClass())
		} else {
			out = append(out, s.Class())
		}
	}
	sort.Strings(out)
	return out
}

// report: key = <component>.<observation>|<Go type of the decoded object>|<class>.
func report(k *checker, b badObs) {
	v := k.v
	classes := k.siteClasses(b.r)
	class := "original"
	if len(classes) > 0 {
		class = strings.Join(classes, "+")
	}
	base := b.obs + "|" + b.gotype
	kk := base + "|" + class
	cand := &pendingViolation{obs: base, v: v, what: b.what, n: 1, class: class, classes: classes}
	mu.Lock()
	defer mu.Unlock()
	if len(v.Sites) == 1 {
		d1Failing[kk] = true
	}
	if old, ok := pending[kk]; ok {
		cand.n = old.n + 1
		if old.less(cand) {
			old.n = cand.n
			cand = old
		}
	}
	pending[kk] = cand
}

func resolvePending(all bool) {
	var keys []string
	for k := range pending {
		keys = append(keys, k)
	}
	sort.Slice(keys, func(i, j int) bool {
		a, b := pending[keys[i]], pending[keys[j]]
		if a.less(b) != b.less(a) {
			return a.less(b)
		}
		return keys[i] < keys[j]
	})
	for _, k := range keys {
		p := pending[k]
		if len(p.v.Sites) == 2 && !all {
			explained := false
			for _, cl := range p.classes {
				if d1Failing[p.obs+"|"+cl] {
					explained = true
				}
			}
			if explained {
				counters["d2_failing_classes_explained_by_a_d1_failure"]++
				continue
			}
		}
		key := fmt.Sprintf("%s|%s", p.obs, p.class)
		c.Violation(key, fmt.Sprintf("%s re-encoded at %s: %s", p.v.Fx.Name, p.v.Desc(), p.what),
			p.v.Replay(map[string]any{"observation": p.obs, "failing_variants_in_class": p.n}))
	}
}

// standalone derives the stand-alone headers and transactions from the block fixtures.
func standalone(blocks []space.Fixture, maxTx int) []space.Fixture {
	var out []space.Fixture
	seenHdr := map[string]bool{}
	for _, fx := range blocks {
		root, err := space.Parse(fx.Cbor)
		if err != nil {
			continue
		}
		lay, err := Locate(root, fx.Type)
		if err != nil {
			continue
		}
		if hb := fx.Cbor[lay.Header.S:lay.Header.E]; !seenHdr[string(hb)] {
			seenHdr[string(hb)] = true
			out = append(out, space.Fixture{Name: "header:" + fx.Name, Type: HeaderBase + fx.Type, Cbor: hb})
		}
		if fx.Type == 0 {
			continue
		}
		// transactions: the first maxTx plus the first with each optional component
		want := map[int]bool{}
		for i := 0; i < len(lay.Txs) && i < maxTx; i++ {
			want[i] = true
		}
		var fm, fd, fr, fs bool
		for i, t := range lay.Txs {
			if !fm && t.Meta != nil {
				fm, want[i] = true, true
			}
			if !fd && len(t.Datums) > 0 {
				fd, want[i] = true, true
			}
			if !fr && len(t.Redeemers) > 0 {
				fr, want[i] = true, true
			}
			if !fs && len(t.Scripts) > 0 {
				fs, want[i] = true, true
			}
		}
		for i, t := range lay.Txs {
			if !want[i] {
				continue
			}
			var tx *space.Node
			switch {
			case fx.Type == 1 || fx.Type == 8:
				tx = root.At(pathOf(root, t.Tx.S, t.Tx.E))
			default:
				aux := space.Null()
				if t.MetaN != nil {
					aux = t.MetaN
				}
				if fx.Type >= 5 {
					tx = space.A(t.BodyN, t.WitN, space.Bool(true), aux)
				} else {
					tx = space.A(t.BodyN, t.WitN, aux)
				}
			}
			if tx == nil {
				continue
			}
			out = append(out, space.Fixture{Name: fmt.Sprintf("tx:%s#%d", fx.Name, i), Type: TxBase + fx.Type - 1, Cbor: tx.Encode()})
		}
	}
	return out
}

// pathOf finds the node with the given range.
func pathOf(root *space.Node, s, e int) []int {
	var found []int
	root.Walk(func(n *space.Node, p []int) {
		if found == nil && n.Start == s && n.End == e && n.Major == 4 {
			found = append([]int{}, p...)
			if len(p) == 0 {
				found = []int{}
			}
		}
	})
	return found
}

func accepts(fx *space.Fixture) (ok bool, err error) {
	defer func() {
		if r := recover(); r != nil {
			ok, err = false, fmt.Errorf("panic: %v", r)
		}
	}()
	switch {
	case fx.Type >= HeaderBase:
		_, err = ledger.NewBlockHeaderFromCbor(fx.Type-HeaderBase, fx.Cbor)
	case fx.Type >= TxBase:
		_, err = ledger.NewTransactionFromCbor(fx.Type-TxBase, fx.Cbor)
	default:
		_, err = ledger.NewBlockFromCbor(fx.Type, fx.Cbor, skipCfg)
	}
	return err == nil, err
}

func main() {
	c = vlib.New("C01", "exploration")
	debug.SetGCPercent(200)
	blocks := space.Blocks(true)
	blocks = append(blocks, synthetic(blocks)...)
	maxTx := 1
	if c.Thorough() || c.Replay != "" {
		maxTx = 1000
	}
	fixtures := append(append([]space.Fixture{}, blocks...), standalone(blocks, maxTx)...)
	if c.Replay != "" {
		if r, err := loadReplay(c.Replay); err == nil && strings.HasPrefix(r.Fixture, "reuse:") {
			replayReuse(blocks, r)
		}
		replay(fixtures)
		return
	}
	spineTx, repeatMax := 1, 1
	if c.Thorough() {
		spineTx, repeatMax = 2, 2
	} else {
		d1Shallow = map[string]bool{"allegra": true, "mary": true, "babbage": true}
	}
	var plans []*fxPlan
	nBlocks, nHdr, nTx := 0, 0, 0
	for i := range fixtures {
		fx := &fixtures[i]
		fxOrder[fx.Name] = i
		if only := os.Getenv("VERIF_ONLY"); only != "" && !strings.Contains(fx.Name, only) { // debugging aid
			continue
		}
		if ok, err := accepts(fx); !ok {
			if !strings.HasPrefix(fx.Name, "synth-") && fx.Type < TxBase {
				c.Note(fmt.Sprintf("real fixture %s is rejected by its decoder: %v", fx.Name, err))
			} else {
				c.Note(fmt.Sprintf("harness-built artefact %s is not accepted by its decoder and was left out: %v", fx.Name, err))
			}
			continue
		}
		p, err := newPlan(fx, spineTx, repeatMax, !c.Thorough() && strings.HasPrefix(fx.Name, "synth-"))
		if err != nil {
			c.Internal("%v", err)
		}
		if !c.Thorough() && (strings.HasPrefix(fx.Name, "synth-") || d1Shallow[fx.Name]) {
			p.nSpine = 0 // quick tier: pairs only on the smaller real blocks
		}
		plans = append(plans, p)
		switch {
		case fx.Type >= HeaderBase:
			nHdr++
		case fx.Type >= TxBase:
			nTx++
		default:
			nBlocks++
		}
	}
	d2mode := 1
	if c.Thorough() {
		d2mode = 2
	}
	deadline := c.Deadline(4*time.Minute, 20*time.Minute) // safety only: the quick plan needs ~30 s, the thorough plan ~6 min on an idle 16-core machine
	if d, err := time.ParseDuration(os.Getenv("VERIF_DEADLINE")); err == nil && d > 0 { // debugging aid (overloaded machine)
		deadline = time.Now().Add(d)
	}
	h := handle
	if os.Getenv("VERIF_DRY") != "" {
		h = func(v *Variant) {}
	}
	// history dimension first (cheap): second decode into a receiver that holds a decoded artefact
	if os.Getenv("VERIF_DRY") == "" && os.Getenv("VERIF_ONLY") == "" {
		maxItems := 4
		if c.Thorough() {
			maxItems = 7
		}
		runReuse(blocks, maxItems)
	}
	st := enumerate(c, plans, d2mode, deadline, h)
	resolvePending(false)
	if st.DeadlineHit {
		c.NotExhaustive(fmt.Sprintf("deadline: %d of %d site shards not explored", st.SkippedShards, st.ShardsTotal))
	}
	c.Set("rule", "every block fixture (all eras; EBB filtered; 4 harness-built blocks), every distinct block header stand-alone and the selected transactions stand-alone, re-encoded with every alternative header form at one header (d=1) and, for blocks, at two spine headers (d=2); a case is one (artefact, changed-header role(s), form class), non-trivial when the decoder accepts it; distinct = distinct (artefact, role=formclass[+role=formclass]); oracle = own CBOR reader + CDDL-derived locator + own blake2b-256 call")
	c.Set("d1_variants", st.D1)
	c.Set("d2_variants", st.D2)
	c.Set("artefacts", map[string]int{"blocks": nBlocks, "headers": nHdr, "transactions": nTx})
	c.Set("sites_per_artefact_[d1,d2spine]", st.PerFixtureSite)
	c.Set("d2_spine_transactions", spineTx)
	c.Set("d2_pairs", map[int]string{1: "pairs with at least one top-level container", 2: "all spine pairs"}[d2mode])
	mu.Lock()
	c.Set("counters", counters)
	mu.Unlock()
	c.Assume("blake2b-256 (golang.org/x/crypto) is trusted")
	c.Assume("receiver reuse: decoding into an existing value with cbor.Decode is a supported use (the era transaction decoders reset their cached fields for it), and decoded objects may be copied by value")
	c.Assume("blocks are decoded with the documented SkipBodyHashValidation option (re-encoding a body segment necessarily changes the body hash the header commits to); headers and transactions with their plain constructors")
	c.Assume("a Shelley…Conway transaction has no contiguous encoding inside a block; for those Transaction.Cbor() is required to be an array whose body, witness-set and auxiliary-data items are the exact wire bytes of those components")
	// free-running -race pass: concurrent callers decoding their own copies (state shared between calls)
	c.RaceAudit("c01")
	c.Finish()
}

func replay(fixtures []space.Fixture) {
	r, err := loadReplay(c.Replay)
	if err != nil {
		c.Internal("replay: %v", err)
	}
	for i := range fixtures {
		if fixtures[i].Name != r.Fixture {
			continue
		}
		b, err := rebuild(&fixtures[i], r.Sites)
		if err != nil {
			c.Internal("replay: %v", err)
		}
		if r.Hex != "" {
			if h, _ := hex.DecodeString(r.Hex); !bytes.Equal(h, b) {
				fmt.Println("note: rebuilt variant differs from the recorded bytes (fixture changed?)")
			}
		}
		if len(r.Sites) > 0 {
			// the unchanged artefact first: its failures are not attributed to the variant
			handle(&Variant{Fx: &fixtures[i], Bytes: fixtures[i].Cbor})
			mu.Lock()
			pending = map[string]*pendingViolation{}
			mu.Unlock()
		}
		v := &Variant{Fx: &fixtures[i], Sites: r.Sites, Bytes: b}
		fmt.Printf("replaying %s of %s (%d bytes)\n", v.Desc(), v.Fx.Name, len(b))
		handle(v)
		resolvePending(true)
		c.Set("rule", "replay of one recorded variant")
		c.Finish()
	}
	fmt.Fprintln(os.Stderr, "replay: unknown artefact", r.Fixture)
	os.Exit(2)
}
