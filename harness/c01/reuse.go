// reuse.go — history dimension of C01: decoding a SECOND artefact into a receiver that
// already holds a decoded one must not disturb what the first decode reported.
//
// Alphabet: for every concrete Go type the decoders produce for a block, header,
// transaction, transaction body, witness set or output (found by decoding the fixtures), a
// small set of real wire items of that type (shortest, longest, a middle one and, where the
// fixtures have one, two different items of equal length); all ORDERED pairs (A, B) of
// different items, so len(B) <, = and > len(A) all occur.
// History: recv := new(T); Decode(A, recv); keep the slice recv.Cbor() returned and a
// by-value copy of *recv (taken before any hash is computed, so no cached hash is shared);
// Decode(B, recv).
// Oracle (own bytes, own blake2b): (i) the kept slice and the copy still report exactly A,
// the copy's components (Body, WitnessSet) still report A's located component bytes and its
// Hash()/Id() are still the blake2b-256 the property prescribes for A; (ii) recv reports
// exactly B (and B's hash).
package main

import (
	"bytes"
	"encoding/hex"
	"fmt"
	"reflect"
	"sort"
	"strings"

	rcbor "github.com/blinklabs-io/gouroboros/cbor"
	"github.com/blinklabs-io/gouroboros/ledger"
	"github.com/blinklabs-io/gouroboros/ledger/common"
	"verif/space"
)

type hasher interface{ Hash() common.Blake2b256 }
type ider interface{ Id() common.Blake2b256 }

// reuseItem is one wire item together with what the property prescribes for it.
type reuseItem struct {
	b       []byte
	hash    []byte // expected Hash()/Id() (nil = the type has no identifier in the property)
	body    []byte // transactions: located body bytes (nil otherwise)
	witness []byte // transactions: located witness-set bytes (nil otherwise)
	from    string
}

type reuseType struct {
	t     reflect.Type // struct type
	kind  string       // block, header, tx, txbody, witness, output
	items []reuseItem
}

// collect decodes the fixtures once and files every wire item under the Go type its decoder produced.
func collectReuse(blocks []space.Fixture) []*reuseType {
	reg := map[reflect.Type]*reuseType{}
	add := func(x any, kind string, it reuseItem) {
		if x == nil || len(it.b) == 0 {
			return
		}
		t := reflect.TypeOf(x)
		if t.Kind() != reflect.Pointer || t.Elem().Kind() != reflect.Struct {
			return
		}
		rt := reg[t.Elem()]
		if rt == nil {
			rt = &reuseType{t: t.Elem(), kind: kind}
			reg[t.Elem()] = rt
		}
		for _, o := range rt.items {
			if bytes.Equal(o.b, it.b) {
				return
			}
		}
		rt.items = append(rt.items, it)
	}
	for _, fx := range blocks {
		if fx.Name == "byron-ebb" || strings.HasPrefix(fx.Name, "synth-conway-25") || strings.HasPrefix(fx.Name, "synth-byron-25") {
			// the 648 kB EBB is the only artefact of its types (no pair); the 25-fold blocks repeat items
			continue
		}
		root, err := space.Parse(fx.Cbor)
		if err != nil {
			continue
		}
		lay, err := Locate(root, fx.Type)
		if err != nil {
			continue
		}
		var blk ledger.Block
		if p := safe(func() { blk, err = ledger.NewBlockFromCbor(fx.Type, fx.Cbor, skipCfg) }); p != nil || err != nil {
			continue
		}
		fam := familyOf(fx.Type)
		hw := fx.Cbor[lay.Header.S:lay.Header.E]
		hh := b256(headerHashPreimage(fam, hw))
		add(blk, "block", reuseItem{b: fx.Cbor, hash: hh, from: fx.Name})
		add(blk.Header(), "header", reuseItem{b: hw, hash: hh, from: fx.Name})
		txs := blk.Transactions()
		if len(txs) != len(lay.Txs) {
			continue
		}
		for i, tx := range txs {
			t := lay.Txs[i]
			bodyW := fx.Cbor[t.Body.S:t.Body.E]
			witW := fx.Cbor[t.Witness.S:t.Witness.E]
			from := fmt.Sprintf("%s tx %d", fx.Name, i)
			if body, ok := field(tx, "Body"); ok {
				add(body, "txbody", reuseItem{b: bodyW, hash: b256(bodyW), from: from})
			}
			if ws, ok := field(tx, "WitnessSet"); ok && fam != "byron" {
				add(ws, "witness", reuseItem{b: witW, from: from})
			}
			if tx.IsValid() {
				if outs := tx.Outputs(); len(outs) == len(t.Outputs) {
					for j, o := range outs {
						add(o, "output", reuseItem{b: fx.Cbor[t.Outputs[j].S:t.Outputs[j].E], from: fmt.Sprintf("%s output %d", from, j)})
					}
				}
			}
		}
	}
	// stand-alone transactions (all of them), filed under the type NewTransactionFromCbor returns
	for _, fx := range standalone(blocks, 1000) {
		if fx.Type < TxBase || fx.Type >= HeaderBase {
			continue
		}
		root, err := space.Parse(fx.Cbor)
		if err != nil {
			continue
		}
		lay, err := Locate(root, fx.Type)
		if err != nil || len(lay.Txs) != 1 {
			continue
		}
		var tx ledger.Transaction
		if p := safe(func() { tx, err = ledger.NewTransactionFromCbor(fx.Type-TxBase, fx.Cbor) }); p != nil || err != nil {
			continue
		}
		t := lay.Txs[0]
		it := reuseItem{b: fx.Cbor, hash: b256(fx.Cbor[t.Body.S:t.Body.E]), body: fx.Cbor[t.Body.S:t.Body.E], from: fx.Name}
		if !strings.HasSuffix(lay.Family, "byron") {
			it.witness = fx.Cbor[t.Witness.S:t.Witness.E]
		}
		add(tx, "tx", it)
	}
	var out []*reuseType
	for _, rt := range reg {
		out = append(out, rt)
	}
	sort.Slice(out, func(i, j int) bool { return out[i].t.String() < out[j].t.String() })
	return out
}

// pick reduces the items of one type to a small set: shortest, longest, middle and one pair of
// different items of equal length (if any).
func (rt *reuseType) pick(max int) []reuseItem {
	items := append([]reuseItem{}, rt.items...)
	sort.SliceStable(items, func(i, j int) bool {
		if len(items[i].b) != len(items[j].b) {
			return len(items[i].b) < len(items[j].b)
		}
		return bytes.Compare(items[i].b, items[j].b) < 0
	})
	if len(items) <= max {
		return items
	}
	chosen := map[int]bool{0: true, len(items) - 1: true, len(items) / 2: true}
	for i := 0; i+1 < len(items); i++ {
		if len(items[i].b) == len(items[i+1].b) {
			chosen[i], chosen[i+1] = true, true
			break
		}
	}
	for i := 1; len(chosen) < max && i < len(items); i++ {
		chosen[i*len(items)/max] = true
	}
	var out []reuseItem
	for i := range items {
		if chosen[i] {
			out = append(out, items[i])
		}
	}
	return out
}

type reuseFailure struct{ kind, what string }

func decodeInto(b []byte, recv any) (err error) {
	defer func() {
		if r := recover(); r != nil {
			err = fmt.Errorf("panic: %v", r)
		}
	}()
	n, err := rcbor.Decode(b, recv)
	if err == nil && n != len(b) {
		err = fmt.Errorf("decoded %d of %d bytes", n, len(b))
	}
	return err
}

// fresh decodes it into a new T and says whether a single-shot decode reports the wire bytes
// (a type that does not, or cannot be decoded this way, has no reuse case).
func fresh(t reflect.Type, it reuseItem) (reflect.Value, bool) {
	v := reflect.New(t)
	if decodeInto(it.b, v.Interface()) != nil {
		return v, false
	}
	cb, ok := v.Interface().(cborer)
	if !ok || !bytes.Equal(cb.Cbor(), it.b) {
		return v, false
	}
	return v, true
}

// reuseCase runs one history (A then B into the same receiver) and returns its failures.
func reuseCase(t reflect.Type, a, b reuseItem) (fails []reuseFailure, ok bool) {
	if _, okA := fresh(t, a); !okA {
		return nil, false
	}
	if _, okB := fresh(t, b); !okB {
		return nil, false
	}
	recv := reflect.New(t)
	if decodeInto(a.b, recv.Interface()) != nil {
		return nil, false
	}
	kept := recv.Interface().(cborer).Cbor() // what a caller holds after decode #1
	cp := reflect.New(t)
	cp.Elem().Set(recv.Elem()) // by-value copy of the decoded object
	if err := decodeInto(b.b, recv.Interface()); err != nil {
		return []reuseFailure{{"second-decode-rejected", fmt.Sprintf("a fresh receiver accepts B, the reused one returns %v", err)}}, true
	}
	bad := func(kind, format string, x ...any) {
		fails = append(fails, reuseFailure{kind, fmt.Sprintf(format, x...)})
	}
	var p any
	p = safe(func() {
		// (i) everything kept from A
		copyOK := true
		if !bytes.Equal(kept, a.b) {
			copyOK = false
			bad("earlier-bytes-overwritten", "the slice Cbor() returned after decoding A (%d B, %s) now reads %s", len(a.b), short(a.b), short(kept))
		}
		if got := cp.Interface().(cborer).Cbor(); !bytes.Equal(got, a.b) {
			if copyOK {
				bad("earlier-bytes-overwritten", "the by-value copy of A (%d B, %s) now reports %s", len(a.b), short(a.b), short(got))
			}
			copyOK = false
		}
		if a.body != nil {
			if body, ok := field(cp.Interface(), "Body"); ok && !bytes.Equal(body.Cbor(), a.body) {
				bad("earlier-component-bytes-overwritten", "Body of the by-value copy of A now reports %s, A's body is %s", short(body.Cbor()), short(a.body))
				copyOK = false
			}
		}
		if a.witness != nil {
			if ws, ok := field(cp.Interface(), "WitnessSet"); ok && !bytes.Equal(ws.Cbor(), a.witness) {
				bad("earlier-component-bytes-overwritten", "WitnessSet of the by-value copy of A now reports %s, A's witness set is %s", short(ws.Cbor()), short(a.witness))
				copyOK = false
			}
		}
		if a.hash != nil && copyOK {
			if h, ok := cp.Interface().(hasher); ok {
				if got := h.Hash(); !bytes.Equal(got.Bytes(), a.hash) {
					bad("earlier-hash-changed", "Hash() of the by-value copy of A is %x, prescribed %x", got.Bytes(), a.hash)
				}
			} else if h, ok := cp.Interface().(ider); ok {
				if got := h.Id(); !bytes.Equal(got.Bytes(), a.hash) {
					bad("earlier-hash-changed", "Id() of the by-value copy of A is %x, prescribed %x", got.Bytes(), a.hash)
				}
			}
		}
		// (ii) the receiver is B
		recvOK := true
		if got := recv.Interface().(cborer).Cbor(); !bytes.Equal(got, b.b) {
			recvOK = false
			bad("receiver-does-not-report-second", "after decoding B (%d B, %s) into the receiver it reports %s", len(b.b), short(b.b), short(got))
		}
		if b.body != nil {
			if body, ok := field(recv.Interface(), "Body"); ok && !bytes.Equal(body.Cbor(), b.body) {
				recvOK = false
				bad("receiver-does-not-report-second", "Body of the reused receiver reports %s, B's body is %s", short(body.Cbor()), short(b.body))
			}
		}
		if b.hash != nil && recvOK {
			if h, ok := recv.Interface().(hasher); ok {
				if got := h.Hash(); !bytes.Equal(got.Bytes(), b.hash) {
					bad("receiver-hash-not-of-second", "Hash() of the reused receiver is %x, prescribed for B %x", got.Bytes(), b.hash)
				}
			} else if h, ok := recv.Interface().(ider); ok {
				if got := h.Id(); !bytes.Equal(got.Bytes(), b.hash) {
					bad("receiver-hash-not-of-second", "Id() of the reused receiver is %x, prescribed for B %x", got.Bytes(), b.hash)
				}
			}
		}
	})
	if p != nil {
		bad("panic", "observing the objects panicked: %v", p)
	}
	return fails, true
}

func lenRel(a, b reuseItem) string {
	switch {
	case len(b.b) < len(a.b):
		return "len(B)<len(A)"
	case len(b.b) == len(a.b):
		return "len(B)=len(A)"
	}
	return "len(B)>len(A)"
}

// runReuse enumerates all ordered pairs per type. Key = reuse|<Go type>|<failure kind>.
func runReuse(blocks []space.Fixture, maxItems int) {
	types := collectReuse(blocks)
	var nTypes, nPairs, nSkipped int
	perType := map[string]int{}
	sampled := false
	for _, rt := range types {
		items := rt.pick(maxItems)
		if len(items) < 2 {
			continue
		}
		nTypes++
		reported := map[string]bool{}
		for i, a := range items {
			for j, b := range items {
				if i == j {
					continue
				}
				fails, ok := reuseCase(rt.t, a, b)
				if !ok {
					nSkipped++
					continue
				}
				nPairs++
				perType["*"+rt.t.String()]++
				outcome := "reuse/first-intact,receiver-is-second"
				if len(fails) > 0 {
					outcome = "reuse/mismatch"
				}
				c.Eval("reuse|*"+rt.t.String()+"|"+lenRel(a, b), outcome)
				if !sampled && len(a.b) < 400 && len(b.b) < 400 {
					sampled = true
					c.Sample(map[string]any{"history": "decode A, copy, decode B into the same *" + rt.t.String(), "A": a.from, "B": b.from, "lenA": len(a.b), "lenB": len(b.b), "outcome": outcome})
				}
				for _, f := range fails {
					key := "reuse|*" + rt.t.String() + "|" + f.kind
					if reported[key] {
						continue
					}
					reported[key] = true
					rep := Replay{Fixture: "reuse:" + rt.t.String(), Extra: map[string]any{"A": hex.EncodeToString(a.b), "B": hex.EncodeToString(b.b), "A_from": a.from, "B_from": b.from, "kind": rt.kind}}
					c.Violation(key, fmt.Sprintf("decode A (%s, %d B) into a new *%s, keep Cbor() and a by-value copy, decode B (%s, %d B) into the same receiver: %s", a.from, len(a.b), rt.t.String(), b.from, len(b.b), f.what), rep)
				}
			}
		}
	}
	c.Set("reuse_types", nTypes)
	c.Set("reuse_ordered_pairs", nPairs)
	c.Set("reuse_pairs_per_type", perType)
	c.Set("reuse_pairs_not_decodable_stand_alone", nSkipped)
}

// replayReuse re-runs one recorded pair.
func replayReuse(blocks []space.Fixture, r *Replay) {
	name := strings.TrimPrefix(r.Fixture, "reuse:")
	ex, _ := r.Extra.(map[string]any)
	ah, _ := ex["A"].(string)
	bh, _ := ex["B"].(string)
	A, _ := hex.DecodeString(ah)
	B, _ := hex.DecodeString(bh)
	for _, rt := range collectReuse(blocks) {
		if rt.t.String() != name {
			continue
		}
		var a, b *reuseItem
		for i := range rt.items {
			if bytes.Equal(rt.items[i].b, A) {
				a = &rt.items[i]
			}
			if bytes.Equal(rt.items[i].b, B) {
				b = &rt.items[i]
			}
		}
		if a == nil || b == nil {
			c.Internal("replay: the recorded items are not among the fixtures' items of %s", name)
		}
		fails, ok := reuseCase(rt.t, *a, *b)
		fmt.Printf("replaying reuse history on *%s: A=%s (%d B), B=%s (%d B), decodable=%v\n", name, a.from, len(a.b), b.from, len(b.b), ok)
		c.Eval("reuse|*"+name, fmt.Sprintf("failures=%d", len(fails)))
		for _, f := range fails {
			c.Violation("reuse|*"+name+"|"+f.kind, f.what, r)
		}
		c.Set("rule", "replay of one recorded reuse history")
		c.Finish()
	}
	c.Internal("replay: unknown type %s", name)
}
