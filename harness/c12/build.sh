#!/bin/bash
here="$(cd "$(dirname "$0")/../.." && pwd)"
exec "$here/bin/e1check" C12 c12 TestC12 ./muxer ./protocol/... -- "$@"
