#!/bin/bash
here="$(cd "$(dirname "$0")/../.." && pwd)"
exec "$here/bin/e1check" C13 c13 TestC13 ./muxer ./protocol/... -- "$@"
