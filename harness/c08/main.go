// C08: transaction output values stay within [0, 2^64-1] for Mary..Dijkstra.
//
// Bounded-exhaustive ("scope"): era x output form x quantity q x CBOR encoding of q x
// transaction shape, every transaction written with verif/space, decoded by the REAL era
// decoder and run through EVERY rule of the era's UtxoValidationRules with a stub ledger
// state / protocol parameters under which the in-range baseline transaction is fully valid.
//
//	q        in {-2^64, -2^63-1, -1, 0, 1, 2^63, 2^64-1, 2^64, 2^65}
//	encoding in {plain int (uint / nint) where representable, bignum tag 2/3 minimal, bignum with a leading zero byte}
//	shape    in {single output funded by inputs, single output funded by mint/burn (native policy script),
//	             pair "+|q| / -|q|" of the same asset in two outputs with nothing funding it}
//	form     era's customary output form; Babbage+ both the legacy array and the map form
//
// Oracle (property as stated): decode ok AND every rule ok  =>  every output quantity, as
// written on the wire and as exposed by the decoded output's Assets(), lies in [0, 2^64-1].
// Nothing else is demanded (an in-range transaction being rejected is not a C08 matter; it
// is recorded as an outcome, and the plain q=1 baseline MUST be accepted or the run aborts
// as an internal error because the harness would be vacuous).
package main

import (
	"encoding/hex"
	"encoding/json"
	"fmt"
	"math/big"
	"os"
	"sort"
	"sync"
	"strings"

	"github.com/blinklabs-io/gouroboros/ledger/alonzo"
	"github.com/blinklabs-io/gouroboros/ledger/babbage"
	"github.com/blinklabs-io/gouroboros/ledger/common"
	"github.com/blinklabs-io/gouroboros/ledger/conway"
	"github.com/blinklabs-io/gouroboros/ledger/dijkstra"
	"github.com/blinklabs-io/gouroboros/ledger/mary"
	"verif/space"
	"verif/vlib"
)

var (
	two64   = new(big.Int).Lsh(big.NewInt(1), 64)
	maxU64  = new(big.Int).Sub(two64, big.NewInt(1))
	two63   = new(big.Int).Lsh(big.NewInt(1), 63)
	two65   = new(big.Int).Lsh(big.NewInt(1), 65)
	bigZero = new(big.Int)
)

func inRange(q *big.Int) bool { return q.Sign() >= 0 && q.Cmp(maxU64) <= 0 }

func qName(q *big.Int) string {
	names := map[string]string{
		new(big.Int).Neg(two64).String():                                "-2^64",
		new(big.Int).Neg(new(big.Int).Add(two63, big.NewInt(1))).String(): "-2^63-1",
		new(big.Int).Add(two63, big.NewInt(1)).String():                 "2^63+1",
		two63.String(): "2^63", maxU64.String(): "2^64-1", two64.String(): "2^64", two65.String(): "2^65",
	}
	if n, ok := names[q.String()]; ok {
		return n
	}
	return q.String()
}

// encodings of an integer
const (
	encInt = iota
	encBig
	encBigLZ
)

var encNames = []string{"int", "bignum", "bignum-leading-zero"}

// qNode returns the CBOR item for q in the requested encoding, or nil if not representable.
func qNode(q *big.Int, enc int) *space.Node {
	switch enc {
	case encInt:
		if q.Sign() >= 0 {
			if q.Cmp(maxU64) > 0 {
				return nil
			}
			return space.U(q.Uint64())
		}
		arg := new(big.Int).Sub(new(big.Int).Neg(q), big.NewInt(1)) // -1-q
		if arg.Cmp(maxU64) > 0 {
			return nil
		}
		return space.Neg(arg.Uint64())
	default:
		var mag []byte
		tag := uint64(2)
		if q.Sign() >= 0 {
			mag = q.Bytes()
		} else {
			tag = 3
			mag = new(big.Int).Sub(new(big.Int).Neg(q), big.NewInt(1)).Bytes()
		}
		if enc == encBigLZ {
			mag = append([]byte{0}, mag...)
		}
		return space.Tag(tag, space.B(mag))
	}
}

// shapes
const (
	shapeInputs = iota // one output with q, funded by inputs carrying the asset (q > 0), or nothing (q == 0)
	shapeMint          // one output with q, funded by mint q (burn if negative)
	shapePair          // outputs +|q| and -|q|, nothing funds them
	shapeUnfunded      // control: one output with q and nothing funding it (must be rejected by conservation for q != 0)
)

var shapeNames = []string{"single/funded-by-inputs", "single/funded-by-mint", "pair(+|q|,-|q|)/unfunded", "single/unfunded(control)"}

// output forms
const (
	formLegacy = iota
	formMap
)

var formNames = []string{"array", "map"}

type caseT struct {
	era, form, shape, enc int
	q                     *big.Int
}

func (k caseT) String() string {
	return fmt.Sprintf("%s/%s-output/%s/q=%s/%s", EraNames[k.era], formNames[k.form], shapeNames[k.shape], qName(k.q), encNames[k.enc])
}

type world struct {
	keyA, keyB *Key
	policy     []byte      // hash of the native policy script
	polScript  *space.Node // [0, keyhash a]
	asset      []byte
	seed       int64
}

func outNode(form int, addr []byte, value *space.Node) *space.Node {
	if form == formMap {
		return OutMap(addr, value)
	}
	return OutLegacy(addr, value)
}

// build assembles transaction + stub for a case. ok=false: the shape is not expressible
// for this q (e.g. input funding of a negative amount) — not a case.
func (w *world) build(k caseT) (spec *TxSpec, stub *Stub, wireQs []*big.Int, ok bool) {
	stub = NewStub()
	spec = &TxSpec{Era: k.era, Fee: 1_000_000}
	if k.era == EraDijkstra {
		spec.ThreeElem = true
	}
	addrA, addrB := EnterpriseKeyAddr(0, w.keyA.Hash), EnterpriseKeyAddr(0, w.keyB.Hash)
	const adaIn, adaOut = 10_000_000, 4_000_000
	utxoForm := k.form
	addIn := func(i int, tok *big.Int) bool {
		in := TxIn{Id: FakeTxId(fmt.Sprintf("c08-in-%d", i), w.seed), Idx: uint64(i)}
		var v *space.Node
		if tok != nil && tok.Sign() > 0 {
			v = ValueMA(adaIn, w.policy, w.asset, space.U(tok.Uint64()))
		} else {
			v = ValueCoin(adaIn)
		}
		if err := stub.AddUtxo(k.era, in, outNode(utxoForm, addrA, v)); err != nil {
			chk.Internal("stub utxo (%s): %v", k, err)
		}
		spec.Inputs = append(spec.Inputs, in)
		return true
	}
	mkQ := func(q *big.Int) *space.Node { return qNode(q, k.enc) }
	switch k.shape {
	case shapeInputs:
		if k.q.Sign() < 0 || k.q.Cmp(two65) > 0 {
			return nil, nil, nil, false // negative: no UTxO can fund it; > 2^65: would need more than 4 UTxOs of a valid ledger state
		}
		qn := mkQ(k.q)
		if qn == nil {
			return nil, nil, nil, false
		}
		// split q into in-range chunks of at most 2^63 (a valid ledger state cannot hold more than 2^64-1 per entry)
		rest := new(big.Int).Set(k.q)
		i := 0
		if rest.Sign() == 0 {
			addIn(0, nil)
			i = 1
		}
		for rest.Sign() > 0 {
			c := new(big.Int).Set(rest)
			if c.Cmp(maxU64) > 0 {
				c.Set(two63)
			}
			addIn(i, c)
			rest.Sub(rest, c)
			i++
		}
		spec.Outputs = []*space.Node{
			outNode(k.form, addrB, ValueMA(adaOut, w.policy, w.asset, qn)),
			outNode(k.form, addrA, ValueCoin(uint64(i)*adaIn-adaOut-spec.Fee)),
		}
		wireQs = []*big.Int{k.q}
	case shapeMint:
		if k.q.Sign() == 0 {
			return nil, nil, nil, false
		}
		qn := mkQ(k.q)
		if qn == nil {
			return nil, nil, nil, false
		}
		addIn(0, nil)
		// mint entry: plain int when it fits the CDDL's int64, else bignum
		mq := qNode(k.q, encBig)
		if k.q.IsInt64() {
			mq = qNode(k.q, encInt)
		}
		spec.Mint = space.M(space.B(w.policy), space.M(space.B(w.asset), mq))
		spec.Native = []*space.Node{w.polScript}
		spec.Outputs = []*space.Node{
			outNode(k.form, addrB, ValueMA(adaOut, w.policy, w.asset, qn)),
			outNode(k.form, addrA, ValueCoin(adaIn-adaOut-spec.Fee)),
		}
		wireQs = []*big.Int{k.q}
	case shapeUnfunded:
		if k.q.Sign() == 0 {
			return nil, nil, nil, false
		}
		qn := mkQ(k.q)
		if qn == nil {
			return nil, nil, nil, false
		}
		addIn(0, nil)
		spec.Outputs = []*space.Node{
			outNode(k.form, addrB, ValueMA(adaOut, w.policy, w.asset, qn)),
			outNode(k.form, addrA, ValueCoin(adaIn-adaOut-spec.Fee)),
		}
		wireQs = []*big.Int{k.q}
	case shapePair:
		if k.q.Sign() <= 0 {
			return nil, nil, nil, false // pairs are enumerated by |q| on the positive side
		}
		pos, neg := mkQ(k.q), mkQ(new(big.Int).Neg(k.q))
		if pos == nil || neg == nil {
			return nil, nil, nil, false
		}
		addIn(0, nil)
		spec.Outputs = []*space.Node{
			outNode(k.form, addrB, ValueMA(adaOut, w.policy, w.asset, pos)),
			outNode(k.form, addrA, ValueMA(adaIn-adaOut-spec.Fee, w.policy, w.asset, neg)),
		}
		wireQs = []*big.Int{k.q, new(big.Int).Neg(k.q)}
	}
	return spec, stub, wireQs, true
}

var chk *vlib.Check

type result struct {
	decoded  bool
	decErr   string
	ruleErrs []string
	panics   []string
	decQs    []string // quantities as exposed by the decoded outputs
	accepted bool
	viol     bool
}

func (w *world) run(env *EraEnv, k caseT) (res result, txb []byte, ok bool) {
	spec, stub, wireQs, ok := w.build(k)
	if !ok {
		return res, nil, false
	}
	res, txb = w.runSpec(env, k, spec, stub, wireQs)
	return res, txb, true
}

// runSpec signs the (possibly re-encoded) spec, decodes it with the real decoder and runs every rule.
func (w *world) runSpec(env *EraEnv, k caseT, spec *TxSpec, stub *Stub, wireQs []*big.Int) (res result, txb []byte) {
	spec.VKeys = nil
	spec.SignWith(w.keyA)
	txb = spec.Bytes()
	tx, err := DecodeTx(k.era, txb)
	if err != nil {
		res.decErr = err.Error()
		return res, txb
	}
	res.decoded = true
	outOfRange := false
	for _, q := range wireQs {
		if !inRange(q) {
			outOfRange = true
		}
	}
	var pol common.Blake2b224
	copy(pol[:], w.policy)
	for _, o := range tx.Outputs() {
		as := o.Assets()
		if as == nil {
			continue
		}
		for _, p := range as.Policies() {
			for _, n := range as.Assets(p) {
				q := as.Asset(p, n)
				if q == nil {
					continue
				}
				res.decQs = append(res.decQs, q.String())
				if !inRange(q) {
					outOfRange = true
				}
			}
		}
	}
	for _, r := range env.RunAll(tx, 100, stub) {
		if r.Panic != nil {
			res.panics = append(res.panics, fmt.Sprintf("rule#%d panic: %v", r.Index, r.Panic))
		} else {
			res.ruleErrs = append(res.ruleErrs, fmt.Sprintf("rule#%d %T", r.Index, unwrap(r.Err)))
		}
	}
	res.accepted = len(res.ruleErrs) == 0 && len(res.panics) == 0
	res.viol = res.accepted && outOfRange
	return res, txb
}

func rangeClass(k caseT) string {
	rangeCls := "in-range"
	if k.q.Sign() < 0 || (k.shape == shapePair && k.q.Sign() != 0) {
		rangeCls = "negative"
	}
	if k.q.Cmp(maxU64) > 0 {
		rangeCls = "above-2^64-1"
		if k.shape == shapePair {
			rangeCls = "above-2^64-1-and-negative"
		}
	}
	return rangeCls
}

func violKey(k caseT) string {
	return fmt.Sprintf("decode+UtxoValidationRules|accepted|quantity=%s|shape=%s", rangeClass(k), shapeNames[k.shape])
}

func unwrap(e error) error {
	for {
		u, ok := e.(interface{ Unwrap() error })
		if !ok || u.Unwrap() == nil {
			return e
		}
		e = u.Unwrap()
	}
}

func realisticPP(env *EraEnv) {
	switch p := env.PP.(type) {
	case *mary.MaryProtocolParameters:
		p.MinFeeA, p.MinFeeB, p.MinUtxoValue = 44, 155381, 1000000
	case *alonzo.AlonzoProtocolParameters:
		p.MinFeeA, p.MinFeeB, p.AdaPerUtxoByte = 44, 155381, 34482
	case *babbage.BabbageProtocolParameters:
		p.MinFeeA, p.MinFeeB, p.AdaPerUtxoByte = 44, 155381, 4310
	case *conway.ConwayProtocolParameters:
		p.MinFeeA, p.MinFeeB, p.AdaPerUtxoByte = 44, 155381, 4310
	case *dijkstra.DijkstraProtocolParameters:
		p.MinFeeA, p.MinFeeB, p.AdaPerUtxoByte = 44, 155381, 4310
	}
}

func main() {
	c := vlib.New("C08", "exploration")
	chk = c
	w := &world{keyA: NewKey("a", c.Seed), keyB: NewKey("b", c.Seed), asset: []byte("tok"), seed: c.Seed}
	w.polScript = space.A(space.U(0), space.B(w.keyA.Hash))
	w.policy = b224(append([]byte{0}, w.polScript.Encode()...))

	if c.Replay != "" {
		replayOne(c, w)
		return
	}

	add1 := func(x *big.Int, d int64) *big.Int { return new(big.Int).Add(x, big.NewInt(d)) }
	neg := func(x *big.Int) *big.Int { return new(big.Int).Neg(x) }
	// simplest first
	qs := []*big.Int{big.NewInt(0), big.NewInt(1), big.NewInt(-1), two63, add1(two63, 1), maxU64, neg(add1(two63, 1)), two64, neg(two64), two65}
	if c.Thorough() {
		qs = append(qs, big.NewInt(2), big.NewInt(-2), add1(two63, -1), neg(two63), add1(two64, 1), neg(add1(two64, 1)), new(big.Int).Lsh(big.NewInt(1), 128), neg(new(big.Int).Lsh(big.NewInt(1), 128)))
	}
	eras := []int{EraMary, EraAlonzo, EraBabbage, EraConway, EraDijkstra}
	perKey := map[string]map[string]bool{}
	table := map[string]map[string]int{} // era -> outcome -> count
	var recMu sync.Mutex
	record := func(env *EraEnv, k caseT, variant string, res result, txb []byte) {
		recMu.Lock()
		defer recMu.Unlock()
		outcome := "rejected-by-decoder"
		if res.decoded {
			outcome = "rejected-by-rules"
			if res.accepted {
				outcome = "accepted"
			}
		}
		rangeCls := rangeClass(k)
		cls := k.String()
		if variant != "" {
			cls = "" // re-encodings of a counted case are not new classes
		}
		c.Eval(cls, rangeCls+":"+outcome)
		table[EraNames[k.era]][rangeCls+":"+outcome]++
		if len(res.panics) > 0 {
			c.Note(fmt.Sprintf("%s %s: %v", k, variant, res.panics))
		}
		if res.viol {
			key := violKey(k)
			if perKey[key] == nil {
				perKey[key] = map[string]bool{}
			}
			perKey[key][EraNames[k.era]+"/"+formNames[k.form]+"/"+encNames[k.enc]+"/q="+qName(k.q)] = true
			v := ""
			if variant != "" {
				v = " [outputs re-encoded " + variant + "]"
			}
			c.Violation(key, fmt.Sprintf("%s%s: decoded and passed all %d rules of %s.UtxoValidationRules; decoded output quantities %v", k, v, len(env.Rules), EraNames[k.era], res.decQs),
				map[string]any{"era": k.era, "form": k.form, "shape": k.shape, "enc": k.enc, "q": k.q.String(), "variant": variant, "tx_cbor": hex.EncodeToString(txb)})
		}
	}
	type job struct {
		env *EraEnv
		k   caseT
	}
	var jobs []job
	for _, era := range eras {
		env := NewEraEnv(era)
		realisticPP(env)
		forms := []int{formLegacy}
		if era >= EraBabbage {
			forms = []int{formLegacy, formMap}
		}
		table[EraNames[era]] = map[string]int{}
		for _, form := range forms {
			// baseline: q = 1, plain int, funded by inputs and by mint -> must be fully valid
			baseOK := true
			for _, sh := range []int{shapeInputs, shapeMint} {
				k := caseT{era, form, sh, encInt, big.NewInt(1)}
				res, txb, _ := w.run(env, k)
				if !res.accepted {
					baseOK = false
					if form == formLegacy && era == EraDijkstra && !res.decoded {
						c.Note("dijkstra: legacy array output form not accepted by the decoder (" + res.decErr + "); form skipped")
						break
					}
					c.Internal("baseline %s is not accepted, harness would be vacuous: decoded=%v err=%s rules=%v panics=%v\n%x", k, res.decoded, res.decErr, res.ruleErrs, res.panics, txb)
				}
			}
			if !baseOK {
				continue
			}
			for _, q := range qs {
				for sh := shapeInputs; sh <= shapeUnfunded; sh++ {
					for enc := encInt; enc <= encBigLZ; enc++ {
						k := caseT{era, form, sh, enc, q}
						res, txb, ok := w.run(env, k)
						if !ok {
							continue
						}
						record(env, k, "", res, txb)
						if (q.Cmp(big.NewInt(-1)) == 0 && sh == shapeMint && enc == encInt && form == formLegacy) || (q.Cmp(big.NewInt(1)) == 0 && sh == shapePair && enc == encInt && era == EraConway) ||
							(q.Cmp(big.NewInt(1)) == 0 && sh == shapeUnfunded && enc == encInt && era == EraMary) || (q.Cmp(two64) == 0 && sh == shapeInputs && enc == encBig && era == EraConway && form == formMap) {
							c.Sample(map[string]any{"case": k.String(), "tx_cbor": hex.EncodeToString(txb), "decoded": res.decoded, "decode_error": res.decErr, "rule_errors": res.ruleErrs, "decoded_quantities": res.decQs, "accepted": res.accepted})
						}
						if c.Thorough() {
							jobs = append(jobs, job{env, k})
						}
					}
				}
			}
		}
	}
	// thorough: every single header-form change (d=1) inside the outputs array of every case, re-signed
	vlib.Parallel(len(jobs), func(i int) {
		env, k := jobs[i].env, jobs[i].k
		spec, stub, wireQs, _ := w.build(k)
		outs := space.A(spec.Outputs...)
		space.EnumD1(outs, space.Sites(outs, nil), func(v space.Variant) bool {
			// forms are changed in place on the nodes shared with spec.Outputs; the outer array's own form is carried over
			sp := *spec
			sp.OutputsForm = outs.Form
			r2, b2 := w.runSpec(env, k, &sp, stub, wireQs)
			record(env, k, v.Desc, r2, b2)
			return true
		})
	})
	c.Set("outcomes_by_era", table)
	if len(perKey) > 0 {
		m := map[string][]string{}
		for k, set := range perKey {
			for e := range set {
				m[k] = append(m[k], e)
			}
			sort.Strings(m[k])
		}
		c.Set("accepted_out_of_range_cases_by_key", m)
	}
	c.Set("rule", "eras Mary..Dijkstra x output form (array; Babbage+ also map) x q in {-2^64,-2^63-1,-1,0,1,2^63,2^63+1,2^64-1,2^64,2^65} x encoding {int,bignum,bignum with leading zero} x shape {single funded by inputs (q>=0, chunks <=2^63 per UTxO), single funded by mint/burn with a witnessed native policy script, unfunded pair +|q|/-|q|}; real era decoder, then EVERY rule of the era's UtxoValidationRules (accepted = no rule error and no panic); distinct = the case tuple; oracle = accepted => all output quantities (wire and decoded) in [0,2^64-1]; the q=1 baseline must be accepted in every era/form/funding or the run aborts")
	c.Assume("blake2b and ed25519 trusted; key seeds / txids are representatives derived from VERIF_SEED")
	c.Assume("protocol parameters: mainnet-like fee and min-UTxO coefficients; stub ledger state holds exactly the consumed UTxOs, network id 0")
	// free-running -race pass: concurrent callers on their own inputs (state the library shares between calls)
	c.RaceAudit("c08")
	c.Finish()
}

func replayOne(c *vlib.Check, w *world) {
	b, err := os.ReadFile(c.Replay)
	if err != nil {
		c.Internal("replay: %v", err)
	}
	var f struct {
		Replay struct {
			Era, Form, Shape, Enc int
			Q                     string
		} `json:"replay"`
	}
	if err := json.Unmarshal(b, &f); err != nil {
		c.Internal("replay: %v", err)
	}
	q, _ := new(big.Int).SetString(f.Replay.Q, 10)
	k := caseT{f.Replay.Era, f.Replay.Form, f.Replay.Shape, f.Replay.Enc, q}
	env := NewEraEnv(k.era)
	realisticPP(env)
	res, txb, ok := w.run(env, k)
	if !ok {
		c.Internal("replay: case not expressible")
	}
	c.Eval(k.String(), "")
	fmt.Printf("%s: decoded=%v (%s) rule errors=%v accepted=%v decoded quantities=%v\n", k, res.decoded, res.decErr, strings.Join(res.ruleErrs, ","), res.accepted, res.decQs)
	if res.viol {
		c.Violation(violKey(k), k.String()+": accepted with out-of-range quantity", map[string]any{"era": k.era, "form": k.form, "shape": k.shape, "enc": k.enc, "q": k.q.String(), "tx_cbor": hex.EncodeToString(txb)})
	}
	c.Set("rule", "replay of one stored case")
	c.Finish()
}
