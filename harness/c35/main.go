// C35: Byron merkle roots follow the reference construction.
// Bounded-exhaustive: every list length 0..N with index-derived contents, and every
// list of length <=L over a small item alphabet (items of different lengths, the empty
// item, items that look like an encoded leaf/branch), compared with an independent
// recursive construction written from the property statement.
package main

import (
	"bytes"
	"fmt"

	"golang.org/x/crypto/blake2b"

	"github.com/blinklabs-io/gouroboros/ledger/byron"
	"verif/vlib"
)

func h(b []byte) [32]byte { return blake2b.Sum256(b) }

// reference: leaves tagged 0, branches tagged 1, split at the largest power of two
// strictly below the count; empty list = hash of the empty string.
func ref(items [][]byte) [32]byte {
	n := len(items)
	if n == 0 {
		return h(nil)
	}
	if n == 1 {
		return h(append([]byte{0}, items[0]...))
	}
	// largest power of two strictly below n, computed differently from the repo
	// (highest set bit of n-1)
	s := 1
	for m := (n - 1) >> 1; m > 0; m >>= 1 {
		s <<= 1
	}
	l, r := ref(items[:s]), ref(items[s:])
	buf := make([]byte, 0, 65)
	buf = append(buf, 1)
	buf = append(buf, l[:]...)
	buf = append(buf, r[:]...)
	return h(buf)
}

func main() {
	c := vlib.New("C35", "exploration")
	maxLen, alphaLen := 300, 6
	if c.Thorough() {
		maxLen, alphaLen = 2100, 9
	}
	// (a) every length 0..maxLen with index-derived contents
	for n := 0; n <= maxLen; n++ {
		items := make([][]byte, n)
		for i := range items {
			items[i] = []byte(fmt.Sprintf("item-%d-%d", c.Seed, i))
			if i%7 == 3 {
				items[i] = bytes.Repeat([]byte{byte(i)}, i%40)
			}
		}
		got := byron.MerkleRoot(items)
		want := ref(items)
		c.Eval(fmt.Sprintf("len=%d", n), "")
		if !bytes.Equal(got[:], want[:]) {
			c.Violation(fmt.Sprintf("MerkleRoot|len=%d", n), fmt.Sprintf("got %x want %x", got[:], want[:]), map[string]any{"len": n})
		}
		if n == 5 {
			c.Sample(map[string]any{"len": n, "root": fmt.Sprintf("%x", got[:])})
		}
	}
	// (b) all lists of length <= alphaLen over a 3-item alphabet chosen to collide:
	// the empty item, an item that equals a tagged leaf preimage, a 65-byte item that looks
	// like a branch preimage.
	l0 := h([]byte{0})
	branchLike := append([]byte{1}, append(l0[:], l0[:]...)...)
	alpha := [][]byte{{}, {0}, branchLike}
	seen := map[[32]byte]string{}
	for n := 0; n <= alphaLen; n++ {
		total := 1
		for i := 0; i < n; i++ {
			total *= len(alpha)
		}
		for code := 0; code < total; code++ {
			items := make([][]byte, n)
			x := code
			desc := make([]byte, n)
			for i := 0; i < n; i++ {
				items[i] = alpha[x%len(alpha)]
				desc[i] = byte('a' + x%len(alpha))
				x /= len(alpha)
			}
			got := byron.MerkleRoot(items)
			want := ref(items)
			c.Eval("alpha:"+string(desc), "")
			if !bytes.Equal(got[:], want[:]) {
				c.Violation("MerkleRoot|alphabet-list", fmt.Sprintf("list %s: got %x want %x", desc, got[:], want[:]), map[string]any{"list": string(desc)})
			}
			// second-preimage resistance of the construction itself over this universe:
			// two different lists must not share a root (domain separation works)
			if prev, ok := seen[got]; ok && prev != string(desc) {
				c.Violation("MerkleRoot|collision", fmt.Sprintf("lists %s and %s share root", prev, desc), map[string]any{"a": prev, "b": string(desc)})
			}
			seen[got] = string(desc)
			if n == 3 && code == 5 {
				c.Sample(map[string]any{"list": string(desc), "root": fmt.Sprintf("%x", got[:])})
			}
		}
	}
	c.Set("rule", "every list length 0..N (index-derived contents) plus every list of length <=L over a 3-item colliding alphabet; distinct = distinct list; oracle = independent recursive construction + no two lists share a root")
	c.Set("max_len", maxLen)
	c.Set("alphabet_max_len", alphaLen)
	c.Assume("blake2b-256 (golang.org/x/crypto) is trusted")
	// free-running -race pass: concurrent callers on their own lists (state shared between calls)
	c.RaceAudit("c35")
	c.Finish()
}
