// C38: VRF proofs verify exactly when they are genuine.
//
// Bounded-exhaustive over mutations of genuine (public key, proof, message) triples made by the
// repository's own prover (trusted): S key seeds x messages {empty, 1 B, 32 B (+200 B)}:
//   - the untouched triple verifies and yields the output Prove returned,
//   - ALL 640 single-bit flips of the proof, ALL 256 of the public key, ALL bits of the message
//     (+ extend / truncate), ALL 512 single-bit flips of the expected output (vrf.Verify),
//     proof / key length +-1,
//   - the response scalar s replaced by every s+kL that still fits in 32 bytes (k=1..15),
//   - all 14 encodings (8 canonical + 6 non-canonical) of the 8 small-order points as public key,
//     each with (a) the genuine proof of another key and (b) 8 FORGED proofs that satisfy the
//     ECVRF verification equation for that key (so that the small-order test is what rejects them),
//   - long messages (lengths around 64/128/256-byte buffers and SHA-512 block / padding limits): every
//     message bit, extend, truncate; every length 0..300 once with first/last bit, extend, truncate,
//   - thorough: all 204 480 two-bit flips of the proof for one triple per seed.
// Oracle: only the untouched triple verifies (the property's truth table). The forged proofs are
// built with an own hash-to-curve (Elligator2 over math/big, written from draft-irtf-cfrg-vrf-03
// section 5.4.1.2) and an own statement of the verification equation; they are self-checked by that
// reference (without the small-order rule) so the case is not vacuous.
package main

import (
	"bytes"
	"crypto/sha512"
	"encoding/hex"
	"encoding/json"
	"errors"
	"fmt"
	"math/big"
	"os"
	"strings"

	"filippo.io/edwards25519"
	"golang.org/x/crypto/blake2b"

	"github.com/blinklabs-io/gouroboros/vrf"
	"verif/vlib"
)

// ---------- independent reference pieces (spec: draft-irtf-cfrg-vrf-03) ----------

var (
	fp   = new(big.Int).Sub(new(big.Int).Lsh(big.NewInt(1), 255), big.NewInt(19))
	ordL = func() *big.Int {
		l, _ := new(big.Int).SetString("27742317777372353535851937790883648493", 10)
		return l.Add(l, new(big.Int).Lsh(big.NewInt(1), 252))
	}()
	montA = big.NewInt(486662)
)

func leToInt(b []byte) *big.Int {
	r := make([]byte, len(b))
	for i := range b {
		r[len(b)-1-i] = b[i]
	}
	return new(big.Int).SetBytes(r)
}

func intToLE(x *big.Int, n int) []byte {
	be := x.Bytes()
	out := make([]byte, n)
	for i := range be {
		if i < n {
			out[i] = be[len(be)-1-i]
		}
	}
	return out
}

// hashToCurve is ECVRF_hash_to_curve_elligator2_25519 (5.4.1.2), field arithmetic over math/big;
// only point decoding and the cofactor multiplication use the trusted curve library.
func hashToCurve(pkString, alpha []byte) (*edwards25519.Point, error) {
	h := sha512.New()
	h.Write([]byte{0x04, 0x01})
	h.Write(pkString)
	h.Write(alpha)
	hs := h.Sum(nil)[:32]
	hs[31] &= 0x7f
	r := leToInt(hs)
	mod := func(x *big.Int) *big.Int { return x.Mod(x, fp) }
	// u = -A / (1 + 2 r^2)
	den := mod(new(big.Int).Add(big.NewInt(1), new(big.Int).Mul(big.NewInt(2), new(big.Int).Mul(r, r))))
	u := mod(new(big.Int).Mul(new(big.Int).Neg(montA), new(big.Int).ModInverse(den, fp)))
	// w = u (u^2 + A u + 1)
	w := mod(new(big.Int).Mul(u, mod(new(big.Int).Add(new(big.Int).Add(new(big.Int).Mul(u, u), new(big.Int).Mul(montA, u)), big.NewInt(1)))))
	e := new(big.Int).Exp(w, new(big.Int).Rsh(new(big.Int).Sub(fp, big.NewInt(1)), 1), fp)
	fu := u
	if e.Cmp(big.NewInt(1)) != 0 {
		fu = mod(new(big.Int).Sub(new(big.Int).Neg(montA), u))
	}
	// y = (fu - 1) / (fu + 1)
	y := mod(new(big.Int).Mul(mod(new(big.Int).Sub(fu, big.NewInt(1))), new(big.Int).ModInverse(mod(new(big.Int).Add(fu, big.NewInt(1))), fp)))
	p, err := new(edwards25519.Point).SetBytes(intToLE(y, 32))
	if err != nil {
		return nil, err
	}
	return p.MultByCofactor(p), nil
}

func challenge(H, Gamma, U, V *edwards25519.Point) []byte {
	h := sha512.New()
	h.Write([]byte{0x04, 0x02})
	h.Write(H.Bytes())
	h.Write(Gamma.Bytes())
	h.Write(U.Bytes())
	h.Write(V.Bytes())
	return h.Sum(nil)[:16]
}

func scalar16(c []byte) *edwards25519.Scalar {
	var b [32]byte
	copy(b[:], c)
	s, err := edwards25519.NewScalar().SetCanonicalBytes(b[:])
	if err != nil {
		panic(err)
	}
	return s
}

// refVerify: the ECVRF verification equation (5.3) WITHOUT any public key validation.
func refVerify(pk, proof, alpha []byte) bool {
	if len(proof) != 80 || len(pk) != 32 {
		return false
	}
	Y, err := new(edwards25519.Point).SetBytes(pk)
	if err != nil {
		return false
	}
	G, err := new(edwards25519.Point).SetBytes(proof[:32])
	if err != nil {
		return false
	}
	if leToInt(proof[48:80]).Cmp(ordL) >= 0 {
		return false
	}
	s, err := edwards25519.NewScalar().SetCanonicalBytes(proof[48:80])
	if err != nil {
		return false
	}
	c := scalar16(proof[32:48])
	H, err := hashToCurve(Y.Bytes(), alpha)
	if err != nil {
		return false
	}
	U := new(edwards25519.Point).Subtract(new(edwards25519.Point).ScalarBaseMult(s), new(edwards25519.Point).ScalarMult(c, Y))
	V := new(edwards25519.Point).Subtract(new(edwards25519.Point).ScalarMult(s, H), new(edwards25519.Point).ScalarMult(c, G))
	return bytes.Equal(challenge(H, G, U, V), proof[32:48])
}

func refBeta(proof []byte) []byte {
	G, err := new(edwards25519.Point).SetBytes(proof[:32])
	if err != nil {
		return nil
	}
	G.MultByCofactor(G)
	h := sha512.Sum512(append([]byte{0x04, 0x03}, G.Bytes()...))
	return h[:]
}

// smallOrderEncodings returns every 32-byte string that decodes (under the permissive rules of the
// curve library) to one of the 8 points of order dividing 8: 8 canonical + the non-canonical ones
// (y+p where it fits in 255 bits, sign bit set although x = 0).
type soEnc struct {
	enc   []byte
	order int
	canon bool
}

func smallOrderEncodings() []soEnc {
	t8, _ := hex.DecodeString("26e8958fc2b227b045c3f489f2ef98f0d5dfac05d3c63339b13802886d53fc05")
	T, err := new(edwards25519.Point).SetBytes(t8)
	if err != nil {
		panic(err)
	}
	id := edwards25519.NewIdentityPoint()
	var out []soEnc
	P := edwards25519.NewIdentityPoint()
	for i := 0; i < 8; i++ {
		order := 1
		Q := new(edwards25519.Point).Set(P)
		for Q.Equal(id) != 1 {
			Q.Add(Q, P)
			order++
			if order > 8 {
				panic("torsion generator is not of order 8")
			}
		}
		enc := P.Bytes()
		sign := enc[31] & 0x80
		yb := append([]byte{}, enc...)
		yb[31] &= 0x7f
		y := leToInt(yb)
		// x == 0 exactly for y = +-1
		xZero := y.Cmp(big.NewInt(1)) == 0 || y.Cmp(new(big.Int).Sub(fp, big.NewInt(1))) == 0
		ys := []*big.Int{y}
		if yp := new(big.Int).Add(y, fp); yp.BitLen() <= 255 {
			ys = append(ys, yp)
		}
		for _, yy := range ys {
			signs := []byte{sign}
			if xZero {
				signs = []byte{0, 0x80}
			}
			for _, sg := range signs {
				e := intToLE(yy, 32)
				e[31] |= sg
				out = append(out, soEnc{e, order, bytes.Equal(e, enc)})
			}
		}
		P.Add(P, T)
	}
	if P.Equal(id) != 1 {
		panic("8*T != identity")
	}
	return out
}

// forge builds proofs that satisfy the verification equation for a small-order key Y:
// Gamma = any small-order point, U = kB, V = kH, c = challenge, s = k, with k chosen (k=1,2,3,...)
// such that c is a multiple of 8 (then cY = cGamma = identity).
func forge(Y *edwards25519.Point, pkString, alpha []byte, gammas [][]byte) [][]byte {
	H, err := hashToCurve(pkString, alpha)
	if err != nil {
		return nil
	}
	var out [][]byte
	for _, g := range gammas {
		G, err := new(edwards25519.Point).SetBytes(g)
		if err != nil {
			continue
		}
		for k := int64(1); k < 4096; k++ {
			kb := intToLE(big.NewInt(k), 32)
			ks, _ := edwards25519.NewScalar().SetCanonicalBytes(kb)
			U := new(edwards25519.Point).ScalarBaseMult(ks)
			V := new(edwards25519.Point).ScalarMult(ks, H)
			c := challenge(H, G, U, V)
			if c[0]&7 != 0 {
				continue
			}
			p := append(append(append([]byte{}, g...), c...), kb...)
			out = append(out, p)
			break
		}
	}
	return out
}

// ---------- cases ----------

type vcase struct {
	Class string `json:"class"`
	Key   string `json:"key"`
	PK    string `json:"pk"`
	Proof string `json:"proof"`
	Msg   string `json:"msg"`
	Out   string `json:"expected_output"`
	Want  bool   `json:"want"`
	pk, proof, msg, out []byte
}

func mk(class, key string, pk, proof, msg, out []byte, want bool) vcase {
	return vcase{Class: class, Key: key, pk: pk, proof: proof, msg: msg, out: out, Want: want}
}

func outcome(err error) string {
	switch {
	case err == nil:
		return "accept"
	case errors.Is(err, vrf.ErrProofVerificationFailed):
		return "reject:equation"
	case strings.Contains(err.Error(), "small order"):
		return "reject:small-order-key"
	case strings.Contains(err.Error(), "non-canonical"):
		return "reject:non-canonical-s"
	case strings.Contains(err.Error(), "gamma"):
		return "reject:gamma-decoding"
	case strings.Contains(err.Error(), "length"):
		return "reject:length"
	default:
		return "reject:key-decoding-or-other"
	}
}

func run(c *vlib.Check, v vcase) {
	rp := func() any {
		v.PK, v.Proof, v.Msg, v.Out = hex.EncodeToString(v.pk), hex.EncodeToString(v.proof), hex.EncodeToString(v.msg), hex.EncodeToString(v.out)
		return v
	}
	beta, err := vrf.VerifyAndHash(v.pk, v.proof, v.msg)
	okVH := err == nil
	okV, errV := vrf.Verify(v.pk, v.proof, v.out, v.msg)
	okV = okV && errV == nil
	if strings.HasPrefix(v.Key, "wrong-expected-output") {
		c.Eval(v.Class, map[bool]string{true: "accept", false: "reject:output-mismatch"}[okV])
	} else {
		c.Eval(v.Class, outcome(err))
	}
	if v.Want {
		if !okVH {
			c.Violation("VerifyAndHash|"+v.Key, fmt.Sprintf("%s: genuine triple rejected: %v", v.Class, err), rp())
		} else if !bytes.Equal(beta, v.out) {
			c.Violation("VerifyAndHash|output-differs-from-Prove", fmt.Sprintf("%s: %x != %x", v.Class, beta, v.out), rp())
		}
		if !okV {
			c.Violation("Verify|"+v.Key, fmt.Sprintf("%s: genuine triple rejected: %v", v.Class, errV), rp())
		}
		return
	}
	if strings.HasPrefix(v.Key, "wrong-expected-output") {
		// the triple itself is genuine; only vrf.Verify's output comparison is exercised
		if okV {
			c.Violation("Verify|"+v.Key, v.Class+": accepted with a different expected output", rp())
		}
		return
	}
	if okVH {
		c.Violation("VerifyAndHash|"+v.Key, v.Class+": accepted", rp())
	}
	if okV {
		c.Violation("Verify|"+v.Key, v.Class+": accepted", rp())
	}
}

func flip(b []byte, bits ...int) []byte {
	o := append([]byte{}, b...)
	for _, bit := range bits {
		o[bit/8] ^= 1 << (bit % 8)
	}
	return o
}

func region(bit int) string {
	switch {
	case bit < 256:
		return "gamma"
	case bit < 384:
		return "c"
	default:
		return "s"
	}
}

func derive(tag string, seed int64, i, n int) []byte {
	var out []byte
	for ctr := 0; len(out) < n; ctr++ {
		s := blake2b.Sum256([]byte(fmt.Sprintf("verif-C38|%s|%d|%d|%d", tag, seed, i, ctr)))
		out = append(out, s[:]...)
	}
	return out[:n]
}

// longLens: message lengths around 64/128/256-byte buffers and around the SHA-512 block (128) and padding
// (111) limits of the 34-byte-prefixed hash-to-curve input (77/78, 94/95, 221/222).
var longLens = []int{63, 64, 65, 77, 78, 93, 94, 95, 96, 127, 128, 129, 200, 221, 222, 223, 255, 256, 257}

const sweepMax = 300

func main() {
	c := vlib.New("C38", "exploration")
	if c.Replay != "" {
		b, err := os.ReadFile(c.Replay)
		if err != nil {
			c.Internal("replay: %v", err)
		}
		var f struct {
			Replay vcase `json:"replay"`
		}
		if err := json.Unmarshal(b, &f); err != nil {
			c.Internal("replay: %v", err)
		}
		v := f.Replay
		v.pk, _ = hex.DecodeString(v.PK)
		v.proof, _ = hex.DecodeString(v.Proof)
		v.msg, _ = hex.DecodeString(v.Msg)
		v.out, _ = hex.DecodeString(v.Out)
		run(c, v)
		c.Finish()
	}
	nSeeds := 4
	if c.Thorough() {
		nSeeds = 24
	}
	so := smallOrderEncodings()
	c.Set("small_order_encodings", len(so))
	var canonSO [][]byte
	for _, e := range so {
		if e.canon {
			canonSO = append(canonSO, e.enc)
		}
	}

	var cases []vcase
	type triple struct{ pk, proof, msg, out []byte }
	var firstOfSeed []triple
	for si := 0; si < nSeeds; si++ {
		seed := derive("seed", c.Seed, si, 32)
		pk, sk, err := vrf.KeyGen(seed)
		if err != nil {
			c.Internal("KeyGen: %v", err)
		}
		otherPk, otherSk, _ := vrf.KeyGen(derive("other", c.Seed, si, 32))
		msgs := [][]byte{{}, derive("m1", c.Seed, si, 1), derive("m32", c.Seed, si, 32)}
		if c.Thorough() {
			msgs = append(msgs, derive("m200", c.Seed, si, 200))
		}
		// long messages: lengths around every buffer / hash-block boundary of the hash-to-curve input
		// (suite || 0x01 || key || message = 34 + len; SHA-512 block 128, padding limit 111): only the
		// message is mutated for these (every bit, extend, truncate); proof/key/output flips stay on the short ones
		nFull := len(msgs)
		for _, n := range longLens {
			msgs = append(msgs, derive(fmt.Sprintf("long%d", n), c.Seed, si, n))
		}
		if si == 0 {
			// every length 0..sweepMax once: genuine, first/last bit, extend, truncate
			for n := 0; n <= sweepMax; n++ {
				msg := derive("sweep", c.Seed, n, n)
				proof, out, err := vrf.Prove(sk, msg)
				if err != nil {
					c.Violation("Prove|error", fmt.Sprintf("sweep len %d: %v", n, err), map[string]any{"seed": hex.EncodeToString(seed), "msg": hex.EncodeToString(msg)})
					continue
				}
				tg := fmt.Sprintf("sweep:msglen=%d", n)
				cases = append(cases, mk("genuine:"+tg, "genuine-rejected", pk, proof, msg, out, true))
				cases = append(cases, mk("msgext0:"+tg, "accepts-message-change", pk, proof, append(append([]byte{}, msg...), 0), out, false))
				if n > 0 {
					cases = append(cases, mk("msgbit-first:"+tg, "accepts-message-change", pk, proof, flip(msg, 0), out, false))
					cases = append(cases, mk("msgbit-last:"+tg, "accepts-message-change", pk, proof, flip(msg, n*8-1), out, false))
					cases = append(cases, mk("msgtrunc:"+tg, "accepts-message-change", pk, proof, msg[:n-1], out, false))
				}
			}
		}
		for mi, msg := range msgs {
			full := mi < nFull
			proof, out, err := vrf.Prove(sk, msg)
			if err != nil {
				c.Violation("Prove|error", fmt.Sprintf("seed %d msg %d: %v", si, mi, err), map[string]any{"seed": hex.EncodeToString(seed), "msg": hex.EncodeToString(msg)})
				continue
			}
			tg := fmt.Sprintf("msglen=%d", len(msg))
			if si == 0 && full {
				c.Sample(map[string]any{"pk": hex.EncodeToString(pk), "msg": vlib.Hex(msg), "proof": hex.EncodeToString(proof), "output": hex.EncodeToString(out)})
			}
			if mi == 2 {
				firstOfSeed = append(firstOfSeed, triple{pk, proof, msg, out})
			}
			// reference cross-checks (informational: they validate the harness's own model)
			if refVerify(pk, proof, msg) {
				c.Add("reference_accepts_genuine", 1)
			} else {
				c.Note(fmt.Sprintf("reference verifier rejects the genuine proof seed %d msg %d: own hash-to-curve disagrees with the prover (forgeries would be vacuous)", si, mi))
			}
			if bytes.Equal(refBeta(proof), out) {
				c.Add("reference_output_equal", 1)
			} else {
				c.Note(fmt.Sprintf("reference output differs from Prove output seed %d msg %d", si, mi))
			}

			cases = append(cases, mk("genuine:"+tg, "genuine-rejected", pk, proof, msg, out, true))
			for b := 0; full && b < 640; b++ {
				cases = append(cases, mk(fmt.Sprintf("proofbit:%s:b=%d", tg, b), "accepts-proof-bit-flip|"+region(b), pk, flip(proof, b), msg, out, false))
			}
			for b := 0; full && b < 256; b++ {
				cases = append(cases, mk(fmt.Sprintf("pkbit:%s:b=%d", tg, b), "accepts-public-key-bit-flip", flip(pk, b), proof, msg, out, false))
			}
			for b := 0; b < len(msg)*8; b++ {
				cases = append(cases, mk(fmt.Sprintf("msgbit:%s:b=%d", tg, b), "accepts-message-change", pk, proof, flip(msg, b), out, false))
			}
			cases = append(cases, mk("msgext0:"+tg, "accepts-message-change", pk, proof, append(append([]byte{}, msg...), 0), out, false))
			cases = append(cases, mk("msgextff:"+tg, "accepts-message-change", pk, proof, append(append([]byte{}, msg...), 0xff), out, false))
			if len(msg) > 0 {
				cases = append(cases, mk("msgtrunc:"+tg, "accepts-message-change", pk, proof, msg[:len(msg)-1], out, false))
				cases = append(cases, mk("msgtrunc-front:"+tg, "accepts-message-change", pk, proof, msg[1:], out, false))
			}
			if !full {
				continue
			}
			for b := 0; b < 512; b++ {
				cases = append(cases, mk(fmt.Sprintf("outbit:%s:b=%d", tg, b), "wrong-expected-output", pk, proof, msg, flip(out, b), false))
			}
			cases = append(cases, mk("outtrunc:"+tg, "wrong-expected-output", pk, proof, msg, out[:63], false))
			cases = append(cases, mk("outempty:"+tg, "wrong-expected-output", pk, proof, msg, nil, false))
			// lengths
			cases = append(cases, mk("prooflen-1:"+tg, "accepts-malformed-length", pk, proof[:79], msg, out, false))
			cases = append(cases, mk("prooflen+1:"+tg, "accepts-malformed-length", pk, append(append([]byte{}, proof...), 0), msg, out, false))
			cases = append(cases, mk("pklen-1:"+tg, "accepts-malformed-length", pk[:31], proof, msg, out, false))
			cases = append(cases, mk("pklen+1:"+tg, "accepts-malformed-length", append(append([]byte{}, pk...), 0), proof, msg, out, false))
			// other key / other proof
			cases = append(cases, mk("otherkey:"+tg, "accepts-other-public-key", otherPk, proof, msg, out, false))
			if op, _, err := vrf.Prove(otherSk, msg); err == nil {
				cases = append(cases, mk("otherproof:"+tg, "accepts-other-keys-proof", pk, op, msg, out, false))
			}
			// non-canonical response scalar: s + kL
			s := leToInt(proof[48:80])
			for k := int64(1); k <= 16; k++ {
				sk2 := new(big.Int).Add(s, new(big.Int).Mul(big.NewInt(k), ordL))
				if sk2.BitLen() > 256 {
					break
				}
				p2 := append(append([]byte{}, proof[:48]...), intToLE(sk2, 32)...)
				cases = append(cases, mk(fmt.Sprintf("s+%dL:%s", k, tg), "accepts-non-canonical-s", pk, p2, msg, out, false))
			}
			// small-order public keys
			for ei, e := range so {
				et := fmt.Sprintf("so-enc=%d:order=%d:canonical=%v", ei, e.order, e.canon)
				key := fmt.Sprintf("accepts-small-order-public-key|order=%d|canonical-encoding=%v", e.order, e.canon)
				cases = append(cases, mk("smallorder-genuineproof:"+et+":"+tg, key, e.enc, proof, msg, out, false))
				Y, err := new(edwards25519.Point).SetBytes(e.enc)
				if err != nil {
					c.Add("small_order_encodings_rejected_by_curve_library", 1)
					continue
				}
				strs := [][]byte{Y.Bytes()}
				if !e.canon {
					strs = append(strs, e.enc)
				}
				for hi, pkString := range strs {
					fs := forge(Y, pkString, msg, canonSO)
					for fi, fpf := range fs {
						// self-check: with the canonical key string the forgery must satisfy the reference equation
						if hi == 0 {
							if refVerify(e.enc, fpf, msg) {
								c.Add("forgeries_satisfying_reference_equation", 1)
							} else {
								c.Add("forgeries_not_satisfying_reference_equation", 1)
							}
						}
						cases = append(cases, mk(fmt.Sprintf("smallorder-forged:%s:h=%d:gamma=%d:%s", et, hi, fi, tg), key, e.enc, fpf, msg, refBeta(fpf), false))
					}
				}
			}
		}
	}
	vlib.Parallel(len(cases), func(i int) { run(c, cases[i]) })

	if c.Thorough() {
		// all two-bit flips of the proof, one triple (32-byte message) per seed, first 4 seeds
		n := len(firstOfSeed)
		if n > 4 {
			n = 4
		}
		for ti := 0; ti < n; ti++ {
			t := firstOfSeed[ti]
			vlib.Parallel(640, func(i int) {
				for j := i + 1; j < 640; j++ {
					run(c, mk(fmt.Sprintf("proof2bit:b=%d,%d", i, j), "accepts-proof-two-bit-flip|"+region(i)+"+"+region(j), t.pk, flip(t.proof, i, j), t.msg, t.out, false))
				}
			})
		}
		c.Set("two_bit_flip_triples", n)
	}
	c.Set("rule", "genuine (key, proof, message) triples from vrf.KeyGen/Prove for S seeds x messages {0,1,32(,200)} bytes; each mutated by: every single-bit flip of proof (640), key (256), message (all bits, extend, truncate), expected output (512); lengths +-1; another key; another key's proof; s+kL for every k that fits; every one of the 14 encodings of the 8 small-order points as key with the genuine proof and with forged proofs (8 small-order Gamma each, key string canonical and raw) that satisfy the verification equation; thorough adds all C(640,2) two-bit flips of the proof for 4 triples. distinct = (mutation kind, bit index / encoding, message length); seeds are representatives. Both vrf.VerifyAndHash and vrf.Verify are called on every case")
	c.Set("seeds", nSeeds)
	c.Assume("vrf.KeyGen/vrf.Prove are the trusted prover (DESIGN 3); filippo.io/edwards25519 point/scalar arithmetic, sha512, blake2b trusted")
	c.Assume("key seeds and message contents are representatives (VERIF_SEED rotates them); bit positions, scalar multiples and small-order encodings are enumerated completely")
	// free-running -race pass: concurrent callers on their own inputs (state the library shares between calls)
	c.RaceAudit("c38")
	c.Finish()
}
