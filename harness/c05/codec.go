// Own text/binary codecs for the C05 oracle: bech32 (BIP-173), base58 (Bitcoin alphabet),
// the Shelley pointer variable-length integer, CRC-32 (IEEE 802.3). Written from the
// specifications; nothing here calls the repository or the libraries it uses.
package main

import (
	"math/big"
	"strings"
)

// ---------------------------------------------------------------- bech32 (BIP-173)

const b32chars = "qpzry9x8gf2tvdw0s3jn54khce6mua7l"

const (
	bech32Const  = 1          // BIP-173
	bech32mConst = 0x2bc830a3 // BIP-350 (NOT what CIP-19 prescribes; used to build negative cases)
)

func b32polymod(values []byte) uint32 {
	gen := [5]uint32{0x3b6a57b2, 0x26508e6d, 0x1ea119fa, 0x3d4233dd, 0x2a1462b3}
	chk := uint32(1)
	for _, v := range values {
		top := chk >> 25
		chk = (chk&0x1ffffff)<<5 ^ uint32(v)
		for i := 0; i < 5; i++ {
			if (top>>uint(i))&1 == 1 {
				chk ^= gen[i]
			}
		}
	}
	return chk
}

func b32hrpExpand(hrp string) []byte {
	out := make([]byte, 0, 2*len(hrp)+1)
	for i := 0; i < len(hrp); i++ {
		out = append(out, hrp[i]>>5)
	}
	out = append(out, 0)
	for i := 0; i < len(hrp); i++ {
		out = append(out, hrp[i]&31)
	}
	return out
}

// b32encode builds hrp "1" data checksum with the given checksum constant.
// hrp must be lower case; data are 5-bit groups.
func b32encode(hrp string, data5 []byte, konst uint32) string {
	v := append(b32hrpExpand(hrp), data5...)
	v = append(v, 0, 0, 0, 0, 0, 0)
	pm := b32polymod(v) ^ konst
	var sb strings.Builder
	sb.WriteString(hrp)
	sb.WriteByte('1')
	for _, d := range data5 {
		sb.WriteByte(b32chars[d])
	}
	for i := 0; i < 6; i++ {
		sb.WriteByte(b32chars[(pm>>uint(5*(5-i)))&31])
	}
	return sb.String()
}

// b32decode is a BIP-173 decoder without the 90 character limit (CIP-19 addresses are
// longer). It returns the lower-cased hrp, the 5-bit data without checksum, and the
// checksum constant that the string satisfies (ok only if it is the BIP-173 constant).
func b32decode(s string) (hrp string, data5 []byte, ok bool) {
	lower, upper := false, false
	for i := 0; i < len(s); i++ {
		ch := s[i]
		if ch < 33 || ch > 126 {
			return "", nil, false
		}
		if ch >= 'a' && ch <= 'z' {
			lower = true
		}
		if ch >= 'A' && ch <= 'Z' {
			upper = true
		}
	}
	if lower && upper {
		return "", nil, false
	}
	s = strings.ToLower(s)
	pos := strings.LastIndexByte(s, '1')
	if pos < 1 || pos+7 > len(s) {
		return "", nil, false
	}
	hrp = s[:pos]
	vals := make([]byte, 0, len(s)-pos-1)
	for i := pos + 1; i < len(s); i++ {
		k := strings.IndexByte(b32chars, s[i])
		if k < 0 {
			return "", nil, false
		}
		vals = append(vals, byte(k))
	}
	if b32polymod(append(b32hrpExpand(hrp), vals...)) != bech32Const {
		return "", nil, false
	}
	return hrp, vals[:len(vals)-6], true
}

// to5 regroups bytes into 5-bit groups, zero padded (encoding direction).
func to5(b []byte) []byte {
	var out []byte
	acc, bits := uint32(0), uint(0)
	for _, x := range b {
		acc = acc<<8 | uint32(x)
		bits += 8
		for bits >= 5 {
			bits -= 5
			out = append(out, byte(acc>>bits)&31)
		}
	}
	if bits > 0 {
		out = append(out, byte(acc<<(5-bits))&31)
	}
	return out
}

// from5 regroups 5-bit groups into bytes; strict: fewer than 5 padding bits, all zero.
func from5(d []byte) ([]byte, bool) {
	var out []byte
	acc, bits := uint32(0), uint(0)
	for _, x := range d {
		acc = (acc<<5 | uint32(x)) & 0xfff
		bits += 5
		if bits >= 8 {
			bits -= 8
			out = append(out, byte(acc>>bits))
		}
	}
	if bits >= 5 || acc&(1<<bits-1) != 0 {
		return nil, false
	}
	return out, true
}

// ---------------------------------------------------------------- base58

const b58chars = "123456789ABCDEFGHJKLMNPQRSTUVWXYZabcdefghijkmnopqrstuvwxyz"

func b58encode(b []byte) string {
	zeros := 0
	for zeros < len(b) && b[zeros] == 0 {
		zeros++
	}
	n := new(big.Int).SetBytes(b)
	base := big.NewInt(58)
	mod := new(big.Int)
	var rev []byte
	for n.Sign() > 0 {
		n.DivMod(n, base, mod)
		rev = append(rev, b58chars[mod.Int64()])
	}
	out := make([]byte, 0, zeros+len(rev))
	for i := 0; i < zeros; i++ {
		out = append(out, '1')
	}
	for i := len(rev) - 1; i >= 0; i-- {
		out = append(out, rev[i])
	}
	return string(out)
}

func b58decode(s string) ([]byte, bool) {
	zeros := 0
	for zeros < len(s) && s[zeros] == '1' {
		zeros++
	}
	n := new(big.Int)
	base := big.NewInt(58)
	for i := 0; i < len(s); i++ {
		k := strings.IndexByte(b58chars, s[i])
		if k < 0 {
			return nil, false
		}
		n.Mul(n, base)
		n.Add(n, big.NewInt(int64(k)))
	}
	body := n.Bytes()
	out := make([]byte, zeros+len(body))
	copy(out[zeros:], body)
	return out, true
}

// ---------------------------------------------------------------- pointer varint

// varintEnc: big-endian base-128 groups, every byte except the last has the top bit set,
// no leading zero group (minimal).
func varintEnc(v uint64) []byte {
	groups := []byte{byte(v & 0x7f)}
	for v >>= 7; v > 0; v >>= 7 {
		groups = append(groups, byte(v&0x7f)|0x80)
	}
	for i, j := 0, len(groups)-1; i < j; i, j = i+1, j-1 {
		groups[i], groups[j] = groups[j], groups[i]
	}
	return groups
}

const (
	viOK         = iota // minimal, fits 64 bits
	viNonMinimal        // leading 0x80 group(s)
	viOverflow          // more than 64 significant bits
	viTruncated         // input ended inside the number
)

// varintDec reads one number; value is exact (big) so that overflow can be told apart.
func varintDec(b []byte) (val *big.Int, n int, status int) {
	val = new(big.Int)
	for n < len(b) {
		x := b[n]
		n++
		val.Lsh(val, 7)
		val.Or(val, big.NewInt(int64(x&0x7f)))
		if x&0x80 == 0 {
			status = viOK
			if n > 1 && b[0] == 0x80 {
				status = viNonMinimal
			}
			if val.BitLen() > 64 {
				status = viOverflow
			}
			return val, n, status
		}
	}
	return nil, n, viTruncated
}

// ---------------------------------------------------------------- CRC-32 (IEEE, reflected 0xEDB88320)

func crc32ieee(b []byte) uint32 {
	crc := ^uint32(0)
	for _, x := range b {
		crc ^= uint32(x)
		for k := 0; k < 8; k++ {
			if crc&1 == 1 {
				crc = crc>>1 ^ 0xEDB88320
			} else {
				crc >>= 1
			}
		}
	}
	return ^crc
}
