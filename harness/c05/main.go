// C05: address encodings are mutually consistent.
//
// Bounded-exhaustive enumeration of address byte strings and address texts, each judged
// by an independent reference model (ref.go, codec.go: own CIP-19 layout decoder, own
// Byron CBOR codec on verif/space, own bech32 / base58 / varint / CRC-32).
//
// Input classes (all fully enumerated, nothing sampled):
//
//	S1 valid Shelley-family addresses: types {0..7,14,15} x net {0,1} x hashes {A,B}^k,
//	   pointer triples from {0,1,127,128,16383,16384,2^32-1,2^64-1}^3 (own minimal varints)
//	S2 every header byte 0..255 x payload length {0,27,28,29,56,57,58} x 2 fillers
//	S3 every proper prefix of every representative; every representative + each of the 256
//	   one-byte trailers; + each of the 8 historical mainnet trailers (cardano-ledger #2729)
//	S4 every single-byte substitution (255 values) at every position of every representative
//	   (thorough: the pointer area of all 512 triples)
//	S5 bech32 text of every S1/S2 byte string under each of the 4 CIP-19 prefixes (+ "pool",
//	   upper case, BIP-350 checksum constant, non-zero / excess padding); for every S1/S6 address and
//	   each of the 4 prefixes h the 13 derived prefixes h1x, h1, hx, h_, h_test, xh, 1h, x1h, h11h,
//	   h1<each of the 4> with a checksum valid for that prefix, lower and upper case; every single
//	   character substitution / deletion of representative texts
//	S6 Byron addresses from the own encoder: type {0,1,2} x hash {A,B} x attributes
//	   {none, derivation 12B/30B, magic 0/42/1097911063/2^32-1, derivation+magic} and invalid
//	   ones (bad CRC, hash length 27/29, magic 2^32)
//	S7 every single-byte substitution at every position (frame, payload, CRC) of each S6 address
//	S8 S6 address + one trailing byte (256 values) outside / inside the tag-24 payload (CRC fixed up)
//	S9 base58 text of S6: every single character substitution (58 alphabet + 4 excluded chars)
package main

import (
	"bytes"
	"encoding/hex"
	"encoding/json"
	"fmt"
	"os"
	"sort"
	"strings"
	"sync"

	"github.com/blinklabs-io/gouroboros/ledger/common"
	"verif/vlib"
)

var c *vlib.Check

// W is one work item. Violations are buffered and reported after the parallel phase in
// work-item order, so that the example recorded for a key does not depend on scheduling.
type W struct{ idx, seq int }

type pend struct {
	idx, seq  int
	key, what string
	replay    any
}

var (
	pendMu  sync.Mutex
	pending = map[string]pend{}
)

func (w *W) violation(key, what string, replay any) {
	w.seq++
	pendMu.Lock()
	if p, ok := pending[key]; !ok || w.idx < p.idx || (w.idx == p.idx && w.seq < p.seq) {
		pending[key] = pend{w.idx, w.seq, key, what, replay}
	}
	pendMu.Unlock()
}

func flushViolations() {
	var l []pend
	for _, p := range pending {
		l = append(l, p)
	}
	sort.Slice(l, func(i, j int) bool {
		if l[i].idx != l[j].idx {
			return l[i].idx < l[j].idx
		}
		return l[i].seq < l[j].seq
	})
	for _, p := range l {
		c.Violation(p.key, p.what, p.replay)
	}
}

// historical mainnet trailers (cardano-ledger issue 2729; the TRAILING_WHITELIST of
// cardano-multiplatform-lib). Only used to give this input class its own violation key.
var historicalTrailers = [][]byte{
	{203, 87, 175, 176, 179, 95, 200, 156, 99, 6, 28, 153, 20, 224, 85, 0, 26, 81, 140, 117, 22},
	{19, 213, 244, 163, 254, 4, 120, 178, 36, 30, 1, 104, 227, 203, 165, 0, 26, 34, 193, 90, 17},
	{0},
	{106, 51, 48, 102, 53, 97, 109, 107, 119, 104, 119, 113, 97, 52, 119, 118, 102, 121, 106, 100, 101, 122, 121, 97, 101, 108, 109, 110, 110, 103, 100, 54, 100, 52, 101},
	{53, 97, 99, 121, 50, 114, 48, 101, 107, 114, 112, 113, 122, 113, 106, 108, 113, 100, 107, 56, 108, 122, 113, 110, 53, 114, 52, 53, 110},
	{6, 29, 7, 12, 13, 4, 27, 7, 2, 15, 11, 13, 11, 15, 2, 9, 18, 5, 29, 28, 16, 9, 17, 4, 14, 31, 7, 19, 17, 3, 1, 0, 11, 16, 22, 0},
	{18, 110, 119, 53, 51, 53, 103, 54, 118, 115, 112, 55, 120, 55, 102, 104, 120, 112, 113, 50, 112, 116, 115, 104, 57, 103, 107, 114},
	{44},
}

func isHistoricalTrailer(t []byte) bool {
	for _, h := range historicalTrailers {
		if bytes.Equal(h, t) {
			return true
		}
	}
	return false
}

// ---------------------------------------------------------------- calling the code under test

type got struct {
	addr  common.Address
	err   error
	panic any
}

func callBytes(b []byte) (g got) {
	defer func() {
		if r := recover(); r != nil {
			g.panic = r
		}
	}()
	g.addr, g.err = common.NewAddressFromBytes(b)
	return
}

func callText(s string) (g got) {
	defer func() {
		if r := recover(); r != nil {
			g.panic = r
		}
	}()
	g.addr, g.err = common.NewAddress(s)
	return
}

// safely evaluates an accessor group that may panic
func safely(f func()) (p any) {
	defer func() { p = recover() }()
	f()
	return nil
}

func hx(b []byte) string { return hex.EncodeToString(b) }

// ---------------------------------------------------------------- comparators

// checkAccepted compares an accepted address with the reference fields; raw are the
// address bytes the reference decoded. Returns the outcome label.
func (w *W) checkAccepted(a common.Address, r refAddr, raw []byte, replay map[string]any) string {
	bad := func(key, what string) string {
		w.violation(key, what, replay)
		return "mismatch"
	}
	tcls := fmt.Sprintf("type=%d", r.typ)
	var out string
	if p := safely(func() {
		if a.Type() != r.typ {
			out = bad("bytes|field:Type|"+tcls, fmt.Sprintf("%x: Type()=%d, header nibble says %d", raw, a.Type(), r.typ))
			return
		}
		gotBytes, err := a.Bytes()
		if err != nil || !bytes.Equal(gotBytes, raw) {
			out = bad("bytes|Bytes-not-lossless|"+tcls, fmt.Sprintf("decoded from %x but Bytes()=%x err=%v", raw, gotBytes, err))
			return
		}
		if r.byron {
			want := b58encode(raw)
			if s := a.String(); s != want {
				out = bad("text|String≠base58(bytes)|"+tcls, fmt.Sprintf("%x: String()=%q, own base58 gives %q", raw, s, want))
				return
			}
			g := callText(want)
			if g.panic != nil || g.err != nil {
				out = bad("text|rejects-own-String|"+tcls, fmt.Sprintf("NewAddress(%q) fails: %v %v", want, g.err, g.panic))
				return
			}
			if b2, _ := g.addr.Bytes(); !bytes.Equal(b2, raw) {
				out = bad("text|roundtrip-bytes|"+tcls, fmt.Sprintf("%x -> %q -> %x", raw, want, b2))
			}
			return
		}
		if a.NetworkId() != uint(r.net) {
			out = bad("bytes|field:NetworkId|"+tcls, fmt.Sprintf("%x: NetworkId()=%d, header nibble says %d", raw, a.NetworkId(), r.net))
			return
		}
		// payment part
		var zero common.Blake2b224
		wantPay, wantStake := zero, zero
		if r.pay != nil {
			copy(wantPay[:], r.pay)
		}
		if r.stake != nil {
			copy(wantStake[:], r.stake)
		}
		if h := a.PaymentKeyHash(); h != wantPay {
			out = bad("bytes|field:PaymentKeyHash|"+tcls, fmt.Sprintf("%x: PaymentKeyHash()=%x want %x", raw, h[:], wantPay[:]))
			return
		}
		if h := a.StakeKeyHash(); h != wantStake {
			out = bad("bytes|field:StakeKeyHash|"+tcls, fmt.Sprintf("%x: StakeKeyHash()=%x want %x", raw, h[:], wantStake[:]))
			return
		}
		var wantPP, wantSP common.AddressPayload
		switch {
		case r.pay == nil:
		case r.payScript:
			wantPP = common.AddressPayloadScriptHash{Hash: wantPay}
		default:
			wantPP = common.AddressPayloadKeyHash{Hash: wantPay}
		}
		switch {
		case r.ptr != nil:
			wantSP = common.AddressPayloadPointer{Slot: r.ptr[0], TxIndex: r.ptr[1], CertIndex: r.ptr[2]}
		case r.stake == nil:
		case r.stakeScript:
			wantSP = common.AddressPayloadScriptHash{Hash: wantStake}
		default:
			wantSP = common.AddressPayloadKeyHash{Hash: wantStake}
		}
		if pp := a.PayloadPayload(); pp != wantPP {
			out = bad("bytes|field:PaymentPayload|"+tcls, fmt.Sprintf("%x: payment payload %#v want %#v", raw, pp, wantPP))
			return
		}
		if sp := a.StakingPayload(); sp != wantSP {
			out = bad("bytes|field:StakingPayload|"+tcls, fmt.Sprintf("%x: staking payload %#v want %#v", raw, sp, wantSP))
			return
		}
		cred, has := a.StakeCredential()
		wantHas := r.stake != nil
		wantCT := uint(0)
		if r.stakeScript {
			wantCT = 1
		}
		if has != wantHas || (has && (cred.CredType != wantCT || cred.Credential != wantStake)) {
			out = bad("bytes|field:StakeCredential|"+tcls, fmt.Sprintf("%x: StakeCredential()=(%v,%v) want type %d hash %x present=%v", raw, cred, has, wantCT, wantStake[:], wantHas))
			return
		}
		// text
		want := b32encode(expectedHRP(r.typ, r.net), to5(raw), bech32Const)
		if s := a.String(); s != want {
			out = bad("text|String≠bech32(bytes)|"+tcls, fmt.Sprintf("%x: String()=%q, own bech32 gives %q", raw, s, want))
			return
		}
		g := callText(want)
		if g.panic != nil || g.err != nil {
			out = bad("text|rejects-own-String|"+tcls, fmt.Sprintf("NewAddress(%q) fails: %v %v", want, g.err, g.panic))
			return
		}
		if b2, _ := g.addr.Bytes(); !bytes.Equal(b2, raw) {
			out = bad("text|roundtrip-bytes|"+tcls, fmt.Sprintf("%x -> %q -> %x", raw, want, b2))
		}
	}); p != nil {
		return bad("bytes|accessor-panic|"+tcls, fmt.Sprintf("%x: accessor panicked: %v", raw, p))
	}
	if out != "" {
		return out
	}
	return "accept-consistent"
}

func acceptsKey(r refAddr) string {
	if r.why == "trailing-bytes" && r.net == 1 && isHistoricalTrailer(r.trailer) {
		return "bytes|accepts|historical-mainnet-trailer"
	}
	return "bytes|accepts|" + r.why
}

// checkBytes runs one raw byte string through NewAddressFromBytes. class = evidence class.
func (w *W) checkBytes(class string, raw []byte) {
	r := refDecode(raw)
	g := callBytes(raw)
	replay := map[string]any{"kind": "bytes", "hex": hx(raw), "reference": r.String()}
	accepted := g.panic == nil && g.err == nil
	var outcome string
	switch {
	case g.panic != nil && r.verdict != vOutside:
		w.violation("bytes|panic|"+r.why, fmt.Sprintf("NewAddressFromBytes(%x) panics: %v", raw, g.panic), replay)
		outcome = "panic"
	case g.panic != nil:
		outcome = "outside:" + r.why + ":panic"
	case r.verdict == vOutside:
		outcome = fmt.Sprintf("outside:%s:accepted=%v", r.why, accepted)
	case r.verdict == vReject && accepted:
		gb, _ := g.addr.Bytes()
		w.violation(acceptsKey(r), fmt.Sprintf("NewAddressFromBytes(%x) is accepted (reference: %s); Bytes() of the result = %x", raw, r, gb), replay)
		outcome = "wrongly-accepted:" + r.why
	case r.verdict == vReject:
		outcome = "reject:" + r.why
	case !accepted:
		w.violation(fmt.Sprintf("bytes|rejects-valid|type=%d", r.typ), fmt.Sprintf("NewAddressFromBytes(%x) fails with %v (reference: %s)", raw, g.err, r), replay)
		outcome = "wrongly-rejected"
	default:
		outcome = w.checkAccepted(g.addr, r, raw, replay)
	}
	c.Eval(class, outcome)
}

// checkText runs one string through NewAddress. mut names the generator (used in the key
// only for strings that are no address text at all).
func (w *W) checkText(class, mut, s string) {
	r := refParseText(s)
	g := callText(s)
	replay := map[string]any{"kind": "text", "text": s, "mut": mut, "reference": r.refAddr.String()}
	accepted := g.panic == nil && g.err == nil
	var outcome string
	switch {
	case g.panic != nil && r.verdict != vOutside:
		w.violation("text|panic|"+r.why, fmt.Sprintf("NewAddress(%q) panics: %v", s, g.panic), replay)
		outcome = "panic"
	case g.panic != nil:
		outcome = "outside:" + r.why + ":panic"
	case r.verdict == vOutside:
		outcome = fmt.Sprintf("outside:%s:accepted=%v", r.why, accepted)
	case r.verdict == vReject && accepted:
		gb, _ := g.addr.Bytes()
		key := "text|accepts|" + r.why
		switch {
		case strings.HasPrefix(r.why, "bech32:") || strings.HasPrefix(r.why, "base58:"):
			// a proper text wrapping of bytes that are not an address: same root as the byte level
			rr := r.refAddr
			rr.why = r.why[7:]
			key = acceptsKey(rr)
		case r.why == "neither-bech32-nor-base58" && mut == "bech32m-constant":
			key = "text|accepts|bad-checksum:bech32m-constant"
		case r.why == "neither-bech32-nor-base58":
			key = "text|accepts|not-an-address-text|" + mut
		}
		w.violation(key, fmt.Sprintf("NewAddress(%q) is accepted (reference: %s); result Bytes()=%x String()=%q", s, r.refAddr, gb, g.addr.String()), replay)
		outcome = "wrongly-accepted:" + r.why
	case r.verdict == vReject:
		outcome = "reject:" + r.why
	case !accepted:
		if s != strings.ToLower(s) && r.bech32 {
			// all-upper-case bech32: BIP-173 allows it, the property does not demand it
			outcome = "uppercase-valid-rejected"
			break
		}
		w.violation(fmt.Sprintf("text|rejects-valid|type=%d", r.typ), fmt.Sprintf("NewAddress(%q) fails with %v (reference: %s)", s, g.err, r.refAddr), replay)
		outcome = "wrongly-rejected"
	default:
		gb, _ := g.addr.Bytes()
		if !bytes.Equal(gb, r.bytes) {
			w.violation(fmt.Sprintf("text|bytes≠text-payload|type=%d", r.typ), fmt.Sprintf("NewAddress(%q).Bytes()=%x, the text carries %x", s, gb, r.bytes), replay)
			outcome = "mismatch"
			break
		}
		if st := g.addr.String(); st != r.canon {
			w.violation(fmt.Sprintf("text|String≠canonical-text|type=%d", r.typ), fmt.Sprintf("NewAddress(%q).String()=%q, canonical %q", s, st, r.canon), replay)
			outcome = "mismatch"
			break
		}
		outcome = w.checkAccepted(g.addr, r.refAddr, r.bytes, replay)
	}
	c.Eval(class, outcome)
}

// ---------------------------------------------------------------- universe

var hrps = []string{"addr", "addr_test", "stake", "stake_test"}

var ptrVals = []uint64{0, 1, 127, 128, 16383, 16384, 1<<32 - 1, 1<<64 - 1}

var shelleyTypes = []uint8{0, 1, 2, 3, 4, 5, 6, 7, 14, 15}

func mkHashes(seed int64) (a, b []byte) {
	a, b = make([]byte, 28), make([]byte, 28)
	for i := range a {
		a[i] = byte(0x10 + 3*i + int(seed%7))        // all below 0x80
		b[i] = byte(0x80 | (5*i + 1 + int(seed%11))) // all with the top bit
	}
	b[27] = 0x2d // ends a varint
	return
}

func shelley(t, n uint8, pay, stake []byte, ptr *[3]uint64) []byte {
	out := []byte{t<<4 | n}
	if t <= 7 {
		out = append(out, pay...)
	}
	switch {
	case t <= 3 || t >= 14:
		out = append(out, stake...)
	case t == 4 || t == 5:
		for _, v := range ptr {
			out = append(out, varintEnc(v)...)
		}
	}
	return out
}

type rep struct {
	name string
	raw  []byte
	ptr0 int // offset of the pointer area (0 = none)
}

// textChecks: the byte string under every prefix and text variant.
func (w *W) textChecks(class string, raw []byte) {
	d5 := to5(raw)
	for _, h := range append(hrps, "pool") {
		s := b32encode(h, d5, bech32Const)
		w.checkText(class+"|hrp="+h, "hrp-sweep", s)
		w.checkText(class+"|HRP="+h, "hrp-sweep-upper", strings.ToUpper(s))
		w.checkText(class+"|bech32m|hrp="+h, "bech32m-constant", b32encode(h, d5, bech32mConst))
	}
	w.checkText(class+"|base58", "base58-of-bytes", b58encode(raw))
	// prefixes that merely contain / start with / end with a CIP-19 prefix. bech32 splits at the LAST
	// '1', so a prefix may itself contain '1' ("addr1x"): the text then begins with "addr1" although
	// its prefix is not "addr". Checksums are valid for the prefix actually used.
	for _, h := range hrps {
		vars := []string{h + "1x", h + "1", h + "x", h + "_", h + "_test", "x" + h, "1" + h, "x1" + h, h + "11" + h}
		for _, o := range hrps {
			vars = append(vars, h+"1"+o)
		}
		for _, v := range vars {
			t := b32encode(v, d5, bech32Const)
			w.checkText(class+"|hrp-variant="+v, "hrp-variant", t)
			w.checkText(class+"|HRP-variant="+v, "hrp-variant-upper", strings.ToUpper(t))
		}
	}
}

func selfTest() {
	fail := func(f string, a ...any) { c.Internal("own codec self-test: "+f, a...) }
	if crc32ieee([]byte("123456789")) != 0xCBF43926 {
		fail("crc32")
	}
	if b58encode([]byte("Hello World!")) != "2NEpo7TZRRrLZSi2U" {
		fail("base58 encode")
	}
	if b, ok := b58decode("11233QC4"); !ok || hx(b) != "0000287fb4cd" {
		fail("base58 decode %x", b)
	}
	for _, s := range []string{"A12UEL5L", "a12uel5l", "abcdef1qpzry9x8gf2tvdw0s3jn54khce6mua7lmqqqxw", "split1checkupstagehandshakeupstreamerranterredcaperred2y9e3w"} {
		if _, _, ok := b32decode(s); !ok {
			fail("bech32 valid vector %q rejected", s)
		}
	}
	for _, s := range []string{"A1G7SGD8", "a12UEL5L", "1pzry9x8gf2tvdw0s3jn54khce6mua7lmqqqxw", "x1b4n0q5v", "li1dgmt3", "A1LQFN3A" /* bech32m */} {
		if _, _, ok := b32decode(s); ok {
			fail("bech32 invalid vector %q accepted", s)
		}
	}
	// real mainnet addresses (public chain data) through the own codecs
	for s, hdr := range map[string]byte{
		"addr1v887yfpftg5z660dmf063hj0zv0zh8xjrfkfyd2e07j076cecha5k":  0x61,
		"stake1u9usfr6nz6d5qaz63kr5yszdwd0dcgnlngh4und7n6cjx6qh02h9m": 0xe1,
	} {
		r := refParseText(s)
		if r.verdict != vAccept || r.bytes[0] != hdr || r.canon != s {
			fail("real address %q: %s", s, r.refAddr)
		}
	}
	for _, s := range []string{
		"Ae2tdPwUPEYwFx4dmJheyNPPYXtvHbJLeCaA96o6Y2iiUL18cAt7AizN2zG",
		"DdzFFzCqrht2ii4Vc7KRchSkVvQtCqdGkQt4nF4Yxg1NpsubFBity2Tpt2eSEGrxBH1eva8qCFKM2Y5QkwM1SFBizRwZgz1N452WYvgG",
	} {
		r := refParseText(s)
		if r.verdict != vAccept || !r.byron || r.canon != s {
			fail("real Byron address %q: %s", s, r.refAddr)
		}
	}
	for _, v := range ptrVals {
		e := varintEnc(v)
		d, n, st := varintDec(e)
		if st != viOK || n != len(e) || d.Uint64() != v {
			fail("varint %d", v)
		}
	}
	if hx(varintEnc(128)) != "8100" || hx(varintEnc(16383)) != "ff7f" || hx(varintEnc(16384)) != "818000" {
		fail("varint vectors")
	}
}

func replayOne(path string) {
	b, err := os.ReadFile(path)
	if err != nil {
		c.Internal("replay: %v", err)
	}
	var f struct {
		Replay struct {
			Kind, Hex, Text, Mut string
		} `json:"replay"`
	}
	if err := json.Unmarshal(b, &f); err != nil {
		c.Internal("replay: %v", err)
	}
	w := &W{}
	switch f.Replay.Kind {
	case "bytes":
		raw, _ := hex.DecodeString(f.Replay.Hex)
		w.checkBytes("replay", raw)
	case "text":
		w.checkText("replay", f.Replay.Mut, f.Replay.Text)
	default:
		c.Internal("replay: unknown kind %q", f.Replay.Kind)
	}
	flushViolations()
	c.NotExhaustive("replay of a single case")
	c.Finish()
}

func main() {
	c = vlib.New("C05", "exploration")
	selfTest()
	if c.Replay != "" {
		replayOne(c.Replay)
	}
	hA, hB := mkHashes(c.Seed)
	hashes := [][]byte{hA, hB}
	hname := []string{"A", "B"}

	var work []func(w *W)
	add := func(f func(w *W)) { work = append(work, f) }

	// ---- S1: valid Shelley-family addresses + their texts
	var reps []rep
	for _, t := range shelleyTypes {
		for n := uint8(0); n <= 1; n++ {
			t, n := t, n
			switch {
			case t <= 3:
				for pi, p := range hashes {
					for si, s := range hashes {
						raw := shelley(t, n, p, s, nil)
						cls := fmt.Sprintf("S1|type=%d|net=%d|pay=%s|stake=%s", t, n, hname[pi], hname[si])
						add(func(w *W) { w.checkBytes(cls, raw); w.textChecks(cls, raw) })
						if pi == 0 && si == 1 {
							reps = append(reps, rep{fmt.Sprintf("type=%d|net=%d", t, n), raw, 0})
						}
					}
				}
			case t == 4 || t == 5:
				for pi, p := range hashes {
					pi, p := pi, p
					add(func(w *W) {
						for _, a := range ptrVals {
							for _, b := range ptrVals {
								for _, cc := range ptrVals {
									raw := shelley(t, n, p, nil, &[3]uint64{a, b, cc})
									cls := fmt.Sprintf("S1|type=%d|net=%d|pay=%s|ptr=%d,%d,%d", t, n, hname[pi], a, b, cc)
									w.checkBytes(cls, raw)
									w.textChecks(cls, raw)
								}
							}
						}
					})
				}
				for i, tr := range [][3]uint64{{0, 0, 0}, {1, 128, 16384}, {127, 16383, 1<<32 - 1}, {1<<64 - 1, 1, 128}, {16384, 1<<64 - 1, 1<<64 - 1}} {
					tr := tr
					reps = append(reps, rep{fmt.Sprintf("type=%d|net=%d|ptr#%d", t, n, i), shelley(t, n, hA, nil, &tr), 29})
				}
			default:
				for hi, h := range hashes {
					raw := shelley(t, n, h, h, nil)
					cls := fmt.Sprintf("S1|type=%d|net=%d|hash=%s", t, n, hname[hi])
					add(func(w *W) { w.checkBytes(cls, raw); w.textChecks(cls, raw) })
					if hi == 0 {
						reps = append(reps, rep{fmt.Sprintf("type=%d|net=%d", t, n), raw, 0})
					}
				}
			}
		}
	}

	// ---- S2: header byte x payload length x filler
	fillers := [][]byte{
		append(append(append([]byte{}, hA...), hB...), 0x07, 0x09),
		append(append(append([]byte{}, hB...), hA...), 0x85, 0x03),
	}
	for hdr := 0; hdr < 256; hdr++ {
		hdr := hdr
		add(func(w *W) {
			for _, L := range []int{0, 27, 28, 29, 56, 57, 58} {
				for fi, f := range fillers {
					raw := append([]byte{byte(hdr)}, f[:L]...)
					cls := fmt.Sprintf("S2|hdr=%02x|len=%d|filler=%d", hdr, L, fi)
					w.checkBytes(cls, raw)
					d5 := to5(raw)
					for _, h := range hrps {
						w.checkText(cls+"|hrp="+h, "hrp-sweep", b32encode(h, d5, bech32Const))
					}
				}
			}
		})
	}

	// ---- S3: prefixes and trailers of the representatives
	for _, r := range reps {
		r := r
		add(func(w *W) {
			for k := 0; k < len(r.raw); k++ {
				w.checkBytes(fmt.Sprintf("S3|%s|prefix=%d", r.name, k), r.raw[:k])
			}
			for v := 0; v < 256; v++ {
				raw := append(append([]byte{}, r.raw...), byte(v))
				cls := fmt.Sprintf("S3|%s|trailer=%02x", r.name, v)
				w.checkBytes(cls, raw)
				w.checkText(cls+"|text", "hrp-sweep", b32encode(expectedHRP(r.raw[0]>>4, r.raw[0]&15), to5(raw), bech32Const))
			}
			for i, tr := range historicalTrailers {
				raw := append(append([]byte{}, r.raw...), tr...)
				w.checkBytes(fmt.Sprintf("S3|%s|historical-trailer#%d", r.name, i), raw)
			}
		})
	}

	// ---- S4: single-byte substitutions of the representatives
	subst := func(w *W, class string, raw []byte, from, to int) {
		m := make([]byte, len(raw))
		for pos := from; pos < to; pos++ {
			for v := 1; v < 256; v++ {
				copy(m, raw)
				m[pos] ^= byte(v)
				w.checkBytes(fmt.Sprintf("%s|pos=%d", class, pos), m)
			}
		}
	}
	for _, r := range reps {
		r := r
		add(func(w *W) { subst(w, "S4|"+r.name, r.raw, 0, len(r.raw)) })
	}
	if c.Thorough() {
		for _, t := range []uint8{4, 5} {
			for n := uint8(0); n <= 1; n++ {
				for _, a := range ptrVals {
					t, n, a := t, n, a
					add(func(w *W) {
						for _, b := range ptrVals {
							for _, cc := range ptrVals {
								raw := shelley(t, n, hA, nil, &[3]uint64{a, b, cc})
								subst(w, fmt.Sprintf("S4|type=%d|net=%d|ptr=%d,%d,%d", t, n, a, b, cc), raw, 29, len(raw))
							}
						}
					})
				}
			}
		}
	}

	// ---- S5: text mutations of the representatives
	textMut := func(w *W, name, s, alphabet string) {
		for pos := 0; pos < len(s); pos++ {
			for i := 0; i < len(alphabet); i++ {
				if alphabet[i] == s[pos] {
					continue
				}
				w.checkText(fmt.Sprintf("S5|%s|subst@%d", name, pos), "single-char-substitution", s[:pos]+string(alphabet[i])+s[pos+1:])
			}
			if up := strings.ToUpper(s[pos : pos+1]); up != s[pos:pos+1] {
				w.checkText(fmt.Sprintf("S5|%s|upper@%d", name, pos), "single-char-case-flip", s[:pos]+up+s[pos+1:])
			}
			w.checkText(fmt.Sprintf("S5|%s|delete@%d", name, pos), "single-char-deletion", s[:pos]+s[pos+1:])
		}
	}
	for i, r := range reps {
		if !c.Thorough() && r.ptr0 != 0 && i%5 != 1 {
			continue // quick: one pointer representative per (type, net)
		}
		r := r
		add(func(w *W) {
			hrp := expectedHRP(r.raw[0]>>4, r.raw[0]&15)
			d5 := to5(r.raw)
			textMut(w, r.name, b32encode(hrp, d5, bech32Const), b32chars+"1bio")
			// padding: bits beyond the last full byte set to every non-zero value; one excess group
			padBits := uint(len(d5)*5 - len(r.raw)*8)
			for v := byte(1); v < 1<<padBits; v++ {
				d := append([]byte{}, d5...)
				d[len(d)-1] |= v
				w.checkText(fmt.Sprintf("S5|%s|padding=%d", r.name, v), "nonzero-padding", b32encode(hrp, d, bech32Const))
			}
			w.checkText(fmt.Sprintf("S5|%s|excess-group", r.name), "excess-padding-group", b32encode(hrp, append(append([]byte{}, d5...), 0), bech32Const))
			w.checkText(fmt.Sprintf("S5|%s|empty-hrp", r.name), "empty-hrp", b32encode("", d5, bech32Const))
		})
	}

	// ---- S6..S9: Byron
	u := func(v uint64) *uint64 { return &v }
	d12, d30 := bytes.Repeat([]byte{0xa5}, 12), append([]byte{0x58, 0x1c}, hB...)
	d12[0] = 0x4b // looks like bytes(11) — what a real derivation path attribute starts with
	type battr struct {
		name  string
		deriv []byte
		magic *uint64
	}
	attrs := []battr{
		{"none", nil, nil}, {"deriv12", d12, nil}, {"deriv30", d30, nil},
		{"magic0", nil, u(0)}, {"magic42", nil, u(42)}, {"magic1097911063", nil, u(1097911063)}, {"magicMax", nil, u(1<<32 - 1)},
		{"deriv12+magic42", d12, u(42)}, {"deriv30+magic1097911063", d30, u(1097911063)},
	}
	var byrons []rep
	for _, bt := range []uint64{0, 1, 2} {
		for hi, h := range hashes {
			for _, at := range attrs {
				spec := byronSpec{hash: h, deriv: at.deriv, magic: at.magic, typ: bt}
				raw := byronEncode(spec)
				name := fmt.Sprintf("byron|type=%d|hash=%s|attr=%s", bt, hname[hi], at.name)
				byrons = append(byrons, rep{name, raw, 0})
				add(func(w *W) {
					w.checkBytes("S6|"+name, raw)
					w.textChecks("S6|"+name, raw)
					// invalid by construction
					bad := spec
					bad.crcXor = 1
					w.checkBytes("S6|"+name+"|crc^1", byronEncode(bad))
					bad = spec
					bad.crcXor = 0x80000000
					w.checkBytes("S6|"+name+"|crc^msb", byronEncode(bad))
					for _, hl := range []int{0, 27, 29, 32} {
						bad = spec
						bad.hash = append(append([]byte{}, h...), 1, 2, 3, 4)[:hl]
						w.checkBytes(fmt.Sprintf("S6|%s|hashlen=%d", name, hl), byronEncode(bad))
					}
					if at.magic != nil {
						bad = spec
						bad.magic = u(1 << 32)
						w.checkBytes("S6|"+name+"|magic=2^32", byronEncode(bad))
					}
					// S8 trailing byte outside and inside the payload
					p := byronPayload(spec)
					for v := 0; v < 256; v++ {
						w.checkBytes(fmt.Sprintf("S8|%s|outer-trailer", name), append(append([]byte{}, raw...), byte(v)))
						p2 := append(append([]byte{}, p...), byte(v))
						w.checkBytes(fmt.Sprintf("S8|%s|inner-trailer", name), byronFrame(p2, crc32ieee(p2)))
					}
					for k := 0; k < len(raw); k++ {
						w.checkBytes(fmt.Sprintf("S8|%s|prefix=%d", name, k), raw[:k])
					}
				})
			}
		}
	}
	for i, r := range byrons {
		if !c.Thorough() && i%2 == 1 {
			continue // quick: every second Byron address (all attribute shapes still occur for each type)
		}
		r := r
		add(func(w *W) { subst(w, "S7|"+r.name, r.raw, 0, len(r.raw)) })
		if !c.Thorough() && i%6 != 0 {
			continue
		}
		add(func(w *W) {
			s := b58encode(r.raw)
			for pos := 0; pos < len(s); pos++ {
				for _, ch := range b58chars + "0OIl" {
					if byte(ch) == s[pos] {
						continue
					}
					w.checkText(fmt.Sprintf("S9|%s|subst@%d", r.name, pos), "single-char-substitution", s[:pos]+string(ch)+s[pos+1:])
				}
				w.checkText(fmt.Sprintf("S9|%s|delete@%d", r.name, pos), "single-char-deletion", s[:pos]+s[pos+1:])
			}
			w.checkText(fmt.Sprintf("S9|%s|leading-1", r.name), "leading-one", "1"+s)
		})
	}

	vlib.Parallel(len(work), func(i int) { work[i](&W{idx: i}) })
	flushViolations()

	c.Sample(map[string]any{"hashA": hx(hA), "hashB": hx(hB)})
	ex := shelley(4, 1, hA, nil, &[3]uint64{128, 16383, 1<<64 - 1})
	c.Sample(map[string]any{"class": "S1 pointer", "bytes": hx(ex), "bech32": b32encode("addr", to5(ex), bech32Const), "reference": refDecode(ex).String()})
	bx := byronEncode(byronSpec{hash: hA, magic: u(42), typ: 0})
	c.Sample(map[string]any{"class": "S6 byron", "bytes": hx(bx), "base58": b58encode(bx), "reference": refDecode(bx).String()})
	c.Set("work_items", len(work))
	c.Set("representatives", len(reps))
	c.Set("byron_addresses", len(byrons))
	c.Set("rule", "classes S1..S9 of the header comment, each fully enumerated; every input goes through the own reference decoder (accept with fields / reject with reason / outside the quantifier) and through NewAddressFromBytes or NewAddress; accept => Type/NetworkId/PaymentKeyHash/StakeKeyHash/payloads/StakeCredential equal the nibble+payload fields, Bytes()==input, String()==own bech32|base58 of the bytes, NewAddress(String()).Bytes()==input; reject => error. distinct = (class, structural position), byte/char values are folded into one class")
	c.Assume("CIP-19 layout, BIP-173 bech32 and the Byron address CDDL as transcribed in ref.go/codec.go; own codecs are self-tested against BIP-173 vectors, CRC-32 check value and four real mainnet addresses")
	c.Assume("inputs whose only irregularity is a non-minimal or >64-bit pointer varint, non-canonical Byron CBOR, or a Shelley address in base58 are outside the property's quantifier: recorded as outcomes, never as violations")
	// free-running -race pass: concurrent callers on their own inputs (state the library shares between calls)
	c.RaceAudit("c05")
	c.Finish()
}
