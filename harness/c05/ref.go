// Reference model of Cardano addresses for the C05 oracle, written from CIP-19 (Shelley
// family: header nibbles, fixed payload layout, pointer = three variable-length naturals,
// bech32 prefixes addr/addr_test/stake/stake_test) and from the Byron address CDDL
// ([#6.24(bytes .cbor [hash28, {?1: bytes, ?2: bytes .cbor u32}, u64]), u32 crc]).
package main

import (
	"bytes"
	"fmt"
	"strings"

	"verif/space"
)

const (
	vAccept  = iota // a well-formed address: must be accepted, fields as below
	vReject         // not an address: must be rejected
	vOutside        // outside the property's quantifier (non-minimal pointer, non-canonical Byron CBOR, …): no demand
)

type refAddr struct {
	verdict int
	why     string // class of the rejection / of being outside
	byron   bool

	typ, net    uint8
	pay, stake  []byte // nil = not carried
	payScript   bool
	stakeScript bool
	ptr         *[3]uint64
	trailer     []byte // bytes after a complete Shelley address (verdict is vReject then)

	// Byron only
	byronType uint64
}

func reject(why string) refAddr  { return refAddr{verdict: vReject, why: why} }
func outside(why string) refAddr { return refAddr{verdict: vOutside, why: why} }

// refDecode classifies raw address bytes.
func refDecode(b []byte) refAddr {
	if len(b) == 0 {
		return reject("empty")
	}
	t, n := b[0]>>4, b[0]&0x0f
	if t == 8 {
		return refByron(b)
	}
	if t >= 9 && t <= 13 {
		return reject("unknown-type")
	}
	if n > 1 {
		return reject("wrong-network")
	}
	r := refAddr{verdict: vAccept, typ: t, net: n}
	body := b[1:]
	take := func() ([]byte, bool) {
		if len(body) < 28 {
			return nil, false
		}
		h := body[:28]
		body = body[28:]
		return h, true
	}
	var ok bool
	switch {
	case t <= 7:
		if r.pay, ok = take(); !ok {
			return reject("too-short")
		}
		r.payScript = t&1 == 1
	}
	switch {
	case t <= 3:
		if r.stake, ok = take(); !ok {
			return reject("too-short")
		}
		r.stakeScript = t&2 == 2
	case t == 14 || t == 15:
		if r.stake, ok = take(); !ok {
			return reject("too-short")
		}
		r.stakeScript = t == 15
	case t == 4 || t == 5:
		var p [3]uint64
		odd := ""
		for i := 0; i < 3; i++ {
			v, used, st := varintDec(body)
			switch st {
			case viTruncated:
				return reject("truncated-pointer")
			case viNonMinimal:
				odd = "nonminimal-pointer"
			case viOverflow:
				odd = "overflowing-pointer"
			}
			if st != viOverflow {
				p[i] = v.Uint64()
			}
			body = body[used:]
		}
		if len(body) > 0 {
			r.verdict, r.why, r.trailer = vReject, "trailing-bytes", body
			return r
		}
		if odd != "" {
			o := outside(odd)
			o.typ, o.net = t, n // the prefix rule still applies to such an address
			return o
		}
		r.ptr = &p
	}
	if len(body) > 0 {
		r.verdict, r.why, r.trailer = vReject, "trailing-bytes", body
		return r
	}
	return r
}

// expectedHRP per CIP-19.
func expectedHRP(typ, net uint8) string {
	h := "addr"
	if typ == 14 || typ == 15 {
		h = "stake"
	}
	if net != 1 {
		h += "_test"
	}
	return h
}

// ---- Byron

type byronSpec struct {
	hash    []byte
	deriv   []byte  // content of attribute 1 (nil = absent)
	magic   *uint64 // attribute 2 (nil = absent); >2^32-1 makes an invalid address
	typ     uint64
	crcXor  uint32 // 0 = correct checksum
	hashLen int    // 0 = 28
}

func byronPayload(s byronSpec) []byte {
	var attrs []*space.Node
	if s.deriv != nil {
		attrs = append(attrs, space.U(1), space.B(s.deriv))
	}
	if s.magic != nil {
		attrs = append(attrs, space.U(2), space.B(space.U(*s.magic).Encode()))
	}
	return space.A(space.B(s.hash), space.M(attrs...), space.U(s.typ)).Encode()
}

func byronFrame(payload []byte, crc uint32) []byte {
	return space.A(space.Tag(24, space.B(payload)), space.U(uint64(crc))).Encode()
}

func byronEncode(s byronSpec) []byte {
	p := byronPayload(s)
	return byronFrame(p, crc32ieee(p)^s.crcXor)
}

// canonical: definite lengths and shortest headers everywhere.
func canonical(n *space.Node, raw []byte) bool {
	c := n.Clone()
	c.Walk(func(x *space.Node, _ []int) {
		if !x.Float {
			x.Form = space.FormMin
		}
		if (x.Major == 2 || x.Major == 3) && x.Items != nil {
			x.Items = nil
		}
	})
	return bytes.Equal(c.Encode(), raw)
}

func refByron(b []byte) refAddr {
	n, used, err := space.ParsePrefix(b)
	if err != nil {
		return reject("byron-malformed")
	}
	if used != len(b) {
		return reject("byron-trailing-bytes")
	}
	if n.Major != 4 || len(n.Items) != 2 {
		return reject("byron-shape")
	}
	tag, crc := n.Items[0], n.Items[1]
	if tag.Major != 6 || tag.Arg != 24 || tag.Items[0].Major != 2 {
		return reject("byron-shape")
	}
	if crc.Major != 0 || crc.Arg > 0xffffffff {
		return reject("byron-shape")
	}
	payload := tag.Items[0].Bytes
	if crc32ieee(payload) != uint32(crc.Arg) {
		return reject("byron-bad-crc")
	}
	in, iused, err := space.ParsePrefix(payload)
	if err != nil {
		return reject("byron-payload-malformed")
	}
	if iused != len(payload) {
		return reject("byron-payload-trailing-bytes")
	}
	if in.Major != 4 || len(in.Items) != 3 || in.Items[0].Major != 2 || in.Items[1].Major != 5 || in.Items[2].Major != 0 {
		return reject("byron-payload-shape")
	}
	if len(in.Items[0].Bytes) != 28 {
		return reject("byron-hash-length")
	}
	r := refAddr{verdict: vAccept, byron: true, typ: 8, net: b[0] & 0x0f, pay: in.Items[0].Bytes, byronType: in.Items[2].Arg}
	attrs := in.Items[1]
	last := int64(-1)
	for i := 0; i+1 < len(attrs.Items); i += 2 {
		k, v := attrs.Items[i], attrs.Items[i+1]
		if k.Major != 0 {
			return reject("byron-attr-key")
		}
		if int64(k.Arg) <= last {
			return outside("byron-attr-order")
		}
		last = int64(k.Arg)
		if k.Arg != 1 && k.Arg != 2 {
			return outside("byron-unknown-attr")
		}
		if v.Major != 2 {
			return reject("byron-attr-value")
		}
		if len(v.Bytes) == 0 {
			return outside("byron-empty-attr")
		}
		if k.Arg == 2 {
			m, err := space.Parse(v.Bytes)
			if err != nil || m.Major != 0 || m.Arg > 0xffffffff {
				return reject("byron-magic-not-u32")
			}
			if !canonical(m, v.Bytes) {
				return outside("byron-noncanonical")
			}
		}
	}
	if !canonical(n, b) || !canonical(in, payload) {
		return outside("byron-noncanonical")
	}
	return r
}

// ---- text

type refText struct {
	refAddr
	bytes  []byte
	bech32 bool
	canon  string // the canonical text of the address when verdict == vAccept
}

// refParseText classifies an address string.
func refParseText(s string) refText {
	if hrp, d5, ok := b32decode(s); ok {
		raw, ok := from5(d5)
		if !ok {
			return refText{refAddr: reject("bech32-padding"), bech32: true}
		}
		r := refDecode(raw)
		out := refText{refAddr: r, bytes: raw, bech32: true}
		if r.verdict == vOutside && !r.byron && (r.why == "nonminimal-pointer" || r.why == "overflowing-pointer") && hrp != expectedHRP(r.typ, r.net) {
			out.refAddr = reject("hrp-mismatch")
			return out
		}
		if r.verdict != vAccept {
			if r.verdict == vReject {
				out.why = "bech32:" + r.why
			}
			return out
		}
		if r.byron {
			out.refAddr = reject("byron-in-bech32")
			return out
		}
		if hrp != expectedHRP(r.typ, r.net) {
			out.refAddr = reject("hrp-mismatch")
			return out
		}
		out.canon = b32encode(hrp, to5(raw), bech32Const)
		return out
	}
	raw, ok := b58decode(s)
	if !ok || len(raw) == 0 {
		return refText{refAddr: reject("neither-bech32-nor-base58")}
	}
	r := refDecode(raw)
	out := refText{refAddr: r, bytes: raw}
	switch {
	case r.verdict == vReject:
		out.why = "base58:" + r.why
	case r.verdict == vAccept && !r.byron:
		out.refAddr = outside("shelley-in-base58")
	case r.verdict == vAccept:
		out.canon = b58encode(raw)
		if out.canon != s {
			// leading '1's etc. cannot happen for 0x82… but keep the model honest
			out.refAddr = outside("base58-noncanonical-text")
		}
	}
	return out
}

func (r refAddr) String() string {
	v := []string{"accept", "reject", "outside"}[r.verdict]
	if r.verdict != vAccept {
		return v + "(" + r.why + ")"
	}
	s := fmt.Sprintf("accept type=%d net=%d pay=%x stake=%x", r.typ, r.net, r.pay, r.stake)
	if r.ptr != nil {
		s += fmt.Sprintf(" ptr=%v", *r.ptr)
	}
	return strings.TrimSpace(s)
}
