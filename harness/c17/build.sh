#!/bin/bash
here="$(cd "$(dirname "$0")/../.." && pwd)"
exec "$here/bin/e1check" C17 c17 TestC17 . ./muxer ./protocol/... -- "$@"
