// C36: era dispatch is consistent across every entry point.
//
// Three exhaustively enumerated spaces, each judged by a reference written from the
// property statement and the Cardano hard-fork-combinator numbering (not from the
// repository's switch statements):
//
//	(A) protocol major p in 0..64 (plus 65..300 and four huge values) x both Shelley-family
//	    header layouts (15-field body with the major at index 13, 10-field body with a
//	    [major,minor] pair at index 9) built with verif/space, in every integer header form
//	    that can carry p, two minors, and every single-header re-encoding (space.EnumD1) of
//	    the canonical header; plus the same sweep of p written into the real header of every
//	    Shelley..Dijkstra fixture block (header alone and inside the whole block)
//	    -> ledger.DetermineBlockType.
//	(B) every entry of BlockHeaderToBlockTypeMap / BlockToBlockHeaderTypeMap.
//	(C) every fixture block x every block type id 0..12 x every decode entry point
//	    (NewBlockFromCbor with validation on/off, NewBlockFromCborWithOffsets, the era
//	    package constructor, NewBlockHeaderFromCbor, the era header constructor).
//
// Oracle: the era table below (block type id, NtN era id, era name, native header layout;
// the declared major range is read from the era package constants because the property
// makes the era packages' declaration the authority):
//
//	R1 declared ranges are well-formed and pairwise disjoint (=> "exactly one era");
//	R2 if DetermineBlockType classifies a header with major p as T, then T is a known
//	   post-Byron type and p lies in the declared range of T's era (and of no other);
//	R3 a canonical header in era E's native layout whose major lies in E's declared range
//	   is classified as E's block type;
//	(observation only, not judged: how real fixture headers are classified; a real header
//	   carries the major its producer is ready for, which may be the next era's, and the
//	   property only speaks about the type inferred from the major)
//	R5 the two maps are inverse bijections, and the header era id a block type maps to is
//	   the id of the era that blocks of this type report;
//	R6 whatever decodes as type T reports Type()==T, Era()==era(T), Header().Era()==era(T).
//
// Observations on the unchanged tree that are NOT violations of the property as stated
// (kept as evidence notes): real allegra header carries major 4 -> classified Mary; real
// mary header carries major 5 -> classified Alonzo; real alonzo header (15-field) carries
// major 7 -> "unknown proto major 7 for Shelley-like"; the real dijkstra fixture has the
// 12-field Leios-extended header body -> "unknown header body length 12". A first draft
// demanded "real header => true era"; that asks for more than the property states and was
// removed. NewBlockFromCborWithOffsets(0, EBB) fails while NewBlockFromCbor(0, EBB) works
// (noted, C07/C34 territory).
//
// Detection (scratch copy /tmp/c36agent-repo, VERIF_REPO_OVERRIDE, deleted afterwards), each alone:
//  1. MaxProtocolVersionBabbage = 9            -> declared-range|overlap|Babbage,Conway (+ major-in-several-eras)
//  2. MaryBlockHeader.Era() returns EraShelley  -> <entry>|Era()-mismatch|T=4|reports=1/Shelley on all six entry points
//  3. BlockHeaderTypeMary: BlockTypeAlonzo      -> maps|not-inverse|header-era=3, maps|header-era-is-not-era-of-type|..., maps|not-inverse|block-type=4
//  4. Conway arm compares with Max-1            -> DetermineBlockType|declared-major-rejected|era=Conway|layout=10
//  5. NewBlockFromCbor: Mary -> Allegra ctor    -> NewBlockFromCbor|Type()-mismatch|T=4|reports=3 (+ Era keys, also via WithOffsets)
package main

import (
	"encoding/hex"
	"encoding/json"
	"fmt"
	"os"
	"sort"

	"github.com/blinklabs-io/gouroboros/ledger"
	"github.com/blinklabs-io/gouroboros/ledger/allegra"
	"github.com/blinklabs-io/gouroboros/ledger/alonzo"
	"github.com/blinklabs-io/gouroboros/ledger/babbage"
	"github.com/blinklabs-io/gouroboros/ledger/byron"
	"github.com/blinklabs-io/gouroboros/ledger/common"
	"github.com/blinklabs-io/gouroboros/ledger/conway"
	"github.com/blinklabs-io/gouroboros/ledger/dijkstra"
	"github.com/blinklabs-io/gouroboros/ledger/mary"
	"github.com/blinklabs-io/gouroboros/ledger/shelley"
	"verif/space"
	"verif/vlib"
)

// ---- reference table (Cardano HFC numbering: era index 0..7; NtC block type = era
// index + 1 because Byron owns two block types, EBB=0 and main=1; NtN header era tag =
// era index) ----

type eraRef struct {
	name      string
	eraId     uint8
	blockType uint // NtC id
	layout    int  // native header-body length: 15 or 10 (0 for Byron)
	min, max  uint64
}

var eras = []eraRef{
	{"Shelley", 1, 2, 15, shelley.MinProtocolVersionShelley, shelley.MaxProtocolVersionShelley},
	{"Allegra", 2, 3, 15, allegra.MinProtocolVersionAllegra, allegra.MaxProtocolVersionAllegra},
	{"Mary", 3, 4, 15, mary.MinProtocolVersionMary, mary.MaxProtocolVersionMary},
	{"Alonzo", 4, 5, 15, alonzo.MinProtocolVersionAlonzo, alonzo.MaxProtocolVersionAlonzo},
	{"Babbage", 5, 6, 10, babbage.MinProtocolVersionBabbage, babbage.MaxProtocolVersionBabbage},
	{"Conway", 6, 7, 10, conway.MinProtocolVersionConway, conway.MaxProtocolVersionConway},
	{"Dijkstra", 7, 8, 10, dijkstra.MinProtocolVersionDijkstra, dijkstra.MaxProtocolVersionDijkstra},
}

// eraOfType: block type id -> (era id, era name); types 0 and 1 are Byron.
func eraOfType(t uint) (uint8, string, bool) {
	if t == 0 || t == 1 {
		return 0, "Byron", true
	}
	for _, e := range eras {
		if e.blockType == t {
			return e.eraId, e.name, true
		}
	}
	return 0, "", false
}

func erasContaining(p uint64) []eraRef {
	var out []eraRef
	for _, e := range eras {
		if p >= e.min && p <= e.max {
			out = append(out, e)
		}
	}
	return out
}

var c *vlib.Check

func seedBytes(n int, salt byte) []byte {
	b := make([]byte, n)
	for i := range b {
		b[i] = byte(int64(i)*7+int64(salt)*31+c.Seed) ^ salt
	}
	return b
}

// buildHeader builds a Shelley-family header with my own writer. pv is the node used for
// the protocol major.
func buildHeader(layout int, pv *space.Node, minor uint64) *space.Node {
	vrfCert := func(s byte) *space.Node { return space.A(space.B(seedBytes(64, s)), space.B(seedBytes(80, s+1))) }
	var body *space.Node
	if layout == 15 {
		body = space.A(
			space.U(4490511), space.U(4492800),
			space.B(seedBytes(32, 1)), space.B(seedBytes(32, 2)), space.B(seedBytes(32, 3)),
			vrfCert(4), vrfCert(6),
			space.U(3), space.B(seedBytes(32, 8)),
			space.B(seedBytes(32, 9)), space.U(0), space.U(0), space.B(seedBytes(64, 10)),
			pv, space.U(minor),
		)
	} else {
		body = space.A(
			space.U(7791698), space.U(72316896),
			space.B(seedBytes(32, 1)), space.B(seedBytes(32, 2)), space.B(seedBytes(32, 3)),
			vrfCert(4),
			space.U(3), space.B(seedBytes(32, 8)),
			space.A(space.B(seedBytes(32, 9)), space.U(5), space.U(2), space.B(seedBytes(64, 10))),
			space.A(pv, space.U(minor)),
		)
		if layout == 12 {
			body.Items = append(body.Items, space.Bool(false), space.Null())
			body.Arg = 12
		}
	}
	return space.A(body, space.B(seedBytes(448, 11)))
}

func determine(hdr []byte) (t uint, err error, panicked any) {
	defer func() {
		if r := recover(); r != nil {
			panicked = r
		}
	}()
	t, err = ledger.DetermineBlockType(hdr)
	return
}

// judgeDetermine applies R2 (always) and R3 (canonical only) to one classification.
// src names the generator ("synthetic", "fixture:<name>").
func judgeDetermine(src string, layout int, p uint64, canonical bool, hdr []byte, desc string) (uint, bool) {
	t, err, pn := determine(hdr)
	replay := map[string]any{"kind": "determine", "src": src, "layout": layout, "major": p, "canonical": canonical, "variant": desc, "header_hex": hex.EncodeToString(hdr)}
	in := erasContaining(p)
	pclass := "undeclared"
	if len(in) == 1 {
		pclass = "declared:" + in[0].name
	} else if len(in) > 1 {
		pclass = "ambiguous"
	}
	if pn != nil {
		c.Eval("", "determine:panic")
		return 0, false
	}
	if err != nil {
		c.Eval(fmt.Sprintf("det|L%d|p=%d|%s|reject", layout, p, desc), "determine:reject")
		// R3
		if canonical && len(in) == 1 && in[0].layout == layout {
			c.Violation(fmt.Sprintf("DetermineBlockType|declared-major-rejected|era=%s|layout=%d", in[0].name, layout),
				fmt.Sprintf("%s header, %d-field body, major %d lies in %s's declared range [%d,%d] but was rejected: %v", src, layout, p, in[0].name, in[0].min, in[0].max, err), replay)
		}
		return 0, false
	}
	c.Eval(fmt.Sprintf("det|L%d|p=%d|%s|T=%d", layout, p, desc, t), "determine:classified")
	_, ename, known := eraOfType(t)
	switch {
	case !known || t < 2:
		c.Violation(fmt.Sprintf("DetermineBlockType|not-a-shelley-family-type|layout=%d|T=%d", layout, t),
			fmt.Sprintf("%s header, %d-field body, major %d classified as block type %d which is no Shelley-family era", src, layout, p, t), replay)
	case len(in) == 0:
		c.Violation(fmt.Sprintf("DetermineBlockType|undeclared-major-classified|layout=%d|as=%s", layout, ename),
			fmt.Sprintf("%s header, %d-field body, major %d is in no era's declared range but was classified as %s (type %d)", src, layout, p, ename, t), replay)
	case len(in) > 1:
		// reported once by R1 as overlap; still record
		c.Violation(fmt.Sprintf("DetermineBlockType|major-in-several-eras|%s", pclass),
			fmt.Sprintf("major %d lies in %d declared ranges", p, len(in)), replay)
	case in[0].blockType != t:
		c.Violation(fmt.Sprintf("DetermineBlockType|wrong-era|layout=%d|major-of=%s|as=%s", layout, in[0].name, ename),
			fmt.Sprintf("%s header, %d-field body, major %d belongs to %s [%d,%d] but was classified as %s (type %d)", src, layout, p, in[0].name, in[0].min, in[0].max, ename, t), replay)
	}
	return t, true
}

// ---- entry points (C) ----

type blockCtor func(data []byte, cfg common.VerifyConfig) (common.Block, error)
type headerCtor func(data []byte) (common.BlockHeader, error)

// Era package constructors per block type, wrapped so a nil pointer never hides in the interface.
var eraBlockCtors = map[uint]blockCtor{
	0: func(d []byte, cfg common.VerifyConfig) (common.Block, error) {
		b, err := byron.NewByronEpochBoundaryBlockFromCbor(d, cfg)
		if err != nil || b == nil {
			return nil, orNil(err)
		}
		return b, nil
	},
	1: func(d []byte, cfg common.VerifyConfig) (common.Block, error) {
		b, err := byron.NewByronMainBlockFromCbor(d, cfg)
		if err != nil || b == nil {
			return nil, orNil(err)
		}
		return b, nil
	},
	2: func(d []byte, cfg common.VerifyConfig) (common.Block, error) {
		b, err := shelley.NewShelleyBlockFromCbor(d, cfg)
		if err != nil || b == nil {
			return nil, orNil(err)
		}
		return b, nil
	},
	3: func(d []byte, cfg common.VerifyConfig) (common.Block, error) {
		b, err := allegra.NewAllegraBlockFromCbor(d, cfg)
		if err != nil || b == nil {
			return nil, orNil(err)
		}
		return b, nil
	},
	4: func(d []byte, cfg common.VerifyConfig) (common.Block, error) {
		b, err := mary.NewMaryBlockFromCbor(d, cfg)
		if err != nil || b == nil {
			return nil, orNil(err)
		}
		return b, nil
	},
	5: func(d []byte, cfg common.VerifyConfig) (common.Block, error) {
		b, err := alonzo.NewAlonzoBlockFromCbor(d, cfg)
		if err != nil || b == nil {
			return nil, orNil(err)
		}
		return b, nil
	},
	6: func(d []byte, cfg common.VerifyConfig) (common.Block, error) {
		b, err := babbage.NewBabbageBlockFromCbor(d, cfg)
		if err != nil || b == nil {
			return nil, orNil(err)
		}
		return b, nil
	},
	7: func(d []byte, cfg common.VerifyConfig) (common.Block, error) {
		b, err := conway.NewConwayBlockFromCbor(d, cfg)
		if err != nil || b == nil {
			return nil, orNil(err)
		}
		return b, nil
	},
	8: func(d []byte, cfg common.VerifyConfig) (common.Block, error) {
		b, err := dijkstra.NewDijkstraBlockFromCbor(d, cfg)
		if err != nil || b == nil {
			return nil, orNil(err)
		}
		return b, nil
	},
}

var eraHeaderCtors = map[uint]headerCtor{
	0: func(d []byte) (common.BlockHeader, error) {
		h, err := byron.NewByronEpochBoundaryBlockHeaderFromCbor(d)
		if err != nil || h == nil {
			return nil, orNil(err)
		}
		return h, nil
	},
	1: func(d []byte) (common.BlockHeader, error) {
		h, err := byron.NewByronMainBlockHeaderFromCbor(d)
		if err != nil || h == nil {
			return nil, orNil(err)
		}
		return h, nil
	},
	2: func(d []byte) (common.BlockHeader, error) {
		h, err := shelley.NewShelleyBlockHeaderFromCbor(d)
		if err != nil || h == nil {
			return nil, orNil(err)
		}
		return h, nil
	},
	3: func(d []byte) (common.BlockHeader, error) {
		h, err := allegra.NewAllegraBlockHeaderFromCbor(d)
		if err != nil || h == nil {
			return nil, orNil(err)
		}
		return h, nil
	},
	4: func(d []byte) (common.BlockHeader, error) {
		h, err := mary.NewMaryBlockHeaderFromCbor(d)
		if err != nil || h == nil {
			return nil, orNil(err)
		}
		return h, nil
	},
	5: func(d []byte) (common.BlockHeader, error) {
		h, err := alonzo.NewAlonzoBlockHeaderFromCbor(d)
		if err != nil || h == nil {
			return nil, orNil(err)
		}
		return h, nil
	},
	6: func(d []byte) (common.BlockHeader, error) {
		h, err := babbage.NewBabbageBlockHeaderFromCbor(d)
		if err != nil || h == nil {
			return nil, orNil(err)
		}
		return h, nil
	},
	7: func(d []byte) (common.BlockHeader, error) {
		h, err := conway.NewConwayBlockHeaderFromCbor(d)
		if err != nil || h == nil {
			return nil, orNil(err)
		}
		return h, nil
	},
	8: func(d []byte) (common.BlockHeader, error) {
		h, err := dijkstra.NewDijkstraBlockHeaderFromCbor(d)
		if err != nil || h == nil {
			return nil, orNil(err)
		}
		return h, nil
	},
}

type nilResult struct{}

func (nilResult) Error() string { return "constructor returned nil without an error" }

func orNil(err error) error {
	if err != nil {
		return err
	}
	return nilResult{}
}

var entryNames = []string{
	"NewBlockFromCbor", "NewBlockFromCbor(skip-body-hash)", "NewBlockFromCborWithOffsets",
	"era.New<Era>BlockFromCbor", "NewBlockHeaderFromCbor", "era.New<Era>BlockHeaderFromCbor",
}

// runEntry decodes through entry point e as type t. Returns (reportedType or -1 for
// headers, block era, header era, ok, error text).
type entryResult struct {
	isBlock   bool
	typ       int
	era       common.Era
	hdrEra    common.Era
	hasHdrEra bool
	err       error
	panicked  any
}

func runEntry(e int, t uint, blockCbor, hdrCbor []byte) (r entryResult) {
	defer func() {
		if p := recover(); p != nil {
			r.panicked = p
		}
	}()
	skip := common.VerifyConfig{SkipBodyHashValidation: true}
	var blk common.Block
	var hdr common.BlockHeader
	var err error
	switch e {
	case 0:
		blk, err = ledger.NewBlockFromCbor(t, blockCbor)
	case 1:
		blk, err = ledger.NewBlockFromCbor(t, blockCbor, skip)
	case 2:
		var bo *ledger.BlockWithOffsets
		bo, err = ledger.NewBlockFromCborWithOffsets(t, blockCbor, skip)
		if err == nil {
			if bo == nil || bo.Block == nil {
				err = nilResult{}
			} else {
				blk = bo.Block
			}
		}
	case 3:
		f, ok := eraBlockCtors[t]
		if !ok {
			r.err = fmt.Errorf("no era constructor for type %d", t)
			return
		}
		blk, err = f(blockCbor, skip)
	case 4:
		hdr, err = ledger.NewBlockHeaderFromCbor(t, hdrCbor)
	case 5:
		f, ok := eraHeaderCtors[t]
		if !ok {
			r.err = fmt.Errorf("no era header constructor for type %d", t)
			return
		}
		hdr, err = f(hdrCbor)
	}
	if err != nil {
		r.err = err
		return
	}
	if e <= 3 {
		if blk == nil {
			r.err = nilResult{}
			return
		}
		r.isBlock = true
		r.typ = blk.Type()
		r.era = blk.Era()
		if h := blk.Header(); h != nil {
			r.hdrEra, r.hasHdrEra = h.Era(), true
		}
		return
	}
	if hdr == nil {
		r.err = nilResult{}
		return
	}
	r.era = hdr.Era()
	return
}

// judgeEntry applies R6 to one (entry point, type, bytes) case.
func judgeEntry(src string, fixtureType uint, e int, t uint, blockCbor, hdrCbor []byte, variant string) bool {
	r := runEntry(e, t, blockCbor, hdrCbor)
	rel := "other-type"
	if t == fixtureType {
		rel = "own-type"
	}
	class := fmt.Sprintf("entry=%d|T=%d|fixtureT=%d|%s", e, t, fixtureType, variant)
	if r.panicked != nil {
		c.Eval("", "decode:panic")
		return false
	}
	if r.err != nil {
		c.Eval(class+"|reject", "decode:"+rel+":reject")
		return false
	}
	c.Eval(class+"|ok", "decode:"+rel+":ok")
	payload := blockCbor
	if e >= 4 {
		payload = hdrCbor
	}
	replay := map[string]any{"kind": "decode", "src": src, "entry": e, "entry_name": entryNames[e], "type": t, "variant": variant, "input_sha": fmt.Sprintf("%d bytes", len(payload))}
	if len(payload) <= 40000 {
		replay["input_hex"] = hex.EncodeToString(payload)
	} else {
		replay["fixture"] = src
	}
	wantId, wantName, known := eraOfType(t)
	if !known {
		c.Violation(fmt.Sprintf("%s|unknown-type-decoded|T=%d", entryNames[e], t),
			fmt.Sprintf("%s decoded as block type %d, which belongs to no era (reports type %d era %q)", src, t, r.typ, r.era.Name), replay)
		return true
	}
	if r.isBlock && r.typ != int(t) {
		c.Violation(fmt.Sprintf("%s|Type()-mismatch|T=%d|reports=%d", entryNames[e], t, r.typ),
			fmt.Sprintf("%s decoded as block type %d reports Type()=%d", src, t, r.typ), replay)
	}
	if r.era.Id != wantId || r.era.Name != wantName {
		c.Violation(fmt.Sprintf("%s|Era()-mismatch|T=%d|reports=%d/%s", entryNames[e], t, r.era.Id, r.era.Name),
			fmt.Sprintf("%s decoded as block type %d reports era %d %q; type %d belongs to era %d %q", src, t, r.era.Id, r.era.Name, t, wantId, wantName), replay)
	}
	if r.hasHdrEra && (r.hdrEra.Id != wantId || r.hdrEra.Name != wantName) {
		c.Violation(fmt.Sprintf("%s|Header().Era()-mismatch|T=%d|reports=%d/%s", entryNames[e], t, r.hdrEra.Id, r.hdrEra.Name),
			fmt.Sprintf("%s decoded as block type %d: Header().Era() = %d %q, want %d %q", src, t, r.hdrEra.Id, r.hdrEra.Name, wantId, wantName), replay)
	}
	return true
}

// pvNodeOf locates the protocol-major node inside a parsed Shelley-family header.
func pvNodeOf(hdr *space.Node) (*space.Node, int) {
	if hdr == nil || !hdr.IsArray() || len(hdr.Items) != 2 || !hdr.Items[0].IsArray() {
		return nil, 0
	}
	body := hdr.Items[0]
	switch len(body.Items) {
	case 15:
		if body.Items[13].Major == 0 {
			return body.Items[13], 15
		}
	case 10, 11, 12, 13:
		// 10 = Babbage layout; longer bodies are the Leios-extended Dijkstra header, which
		// keeps the [major,minor] pair at index 9
		pv := body.Items[9]
		if pv.IsArray() && len(pv.Items) == 2 && pv.Items[0].Major == 0 {
			return pv.Items[0], len(body.Items)
		}
	}
	return nil, 0
}

func majorsToTry(thorough bool) []uint64 {
	var out []uint64
	top := uint64(300)
	if thorough {
		top = 70000 // crosses the 1-byte and 2-byte argument boundaries
	}
	for p := uint64(0); p <= top; p++ {
		out = append(out, p)
	}
	return append(out, 1<<32-1, 1<<32, 1<<63, 1<<64-1)
}

func main() {
	c = vlib.New("C36", "exploration")
	if c.Replay != "" {
		replay(c.Replay)
		return
	}

	// ---------- R1: declared ranges ----------
	for i, a := range eras {
		c.Eval("range:"+a.name, "range:checked")
		if a.min > a.max {
			c.Violation("declared-range|empty|era="+a.name, fmt.Sprintf("%s declares [%d,%d]", a.name, a.min, a.max), map[string]any{"kind": "range", "era": a.name})
		}
		for _, b := range eras[i+1:] {
			if a.min <= b.max && b.min <= a.max {
				c.Violation(fmt.Sprintf("declared-range|overlap|%s,%s", a.name, b.name),
					fmt.Sprintf("%s [%d,%d] and %s [%d,%d] overlap: a major in both belongs to two eras", a.name, a.min, a.max, b.name, b.min, b.max), map[string]any{"kind": "range", "a": a.name, "b": b.name})
			}
		}
	}

	// ---------- (A1) synthetic headers ----------
	majors := majorsToTry(c.Thorough())
	var nSynth int64
	for _, layout := range []int{15, 10, 12} { // 12 = Leios-extended Dijkstra body (extra; judged by R2 only)
		for _, p := range majors {
			for _, minor := range []uint64{0, 1} {
				// every integer header form able to carry p
				minLen := len(space.U(p).Encode())
				for _, form := range []int{space.FormMin, space.Form1, space.Form2, space.Form4, space.Form8} {
					pv := space.U(p) // FormMin = shortest
					if form != space.FormMin {
						// wider-than-necessary forms only (a narrower one cannot carry p)
						if map[int]int{space.Form1: 2, space.Form2: 3, space.Form4: 5, space.Form8: 9}[form] <= minLen {
							continue
						}
						pv.Form = form
					}
					hdr := buildHeader(layout, pv, minor).Encode()
					judgeDetermine("synthetic", layout, p, form == space.FormMin, hdr, fmt.Sprintf("minor=%d|pvform=%s", minor, space.FormNames[form]))
					nSynth++
				}
			}
			// every single-header re-encoding of the canonical header, for the 0..64 core
			if p <= 64 {
				root := buildHeader(layout, space.U(p), 0)
				sites := space.Sites(root, nil)
				space.EnumD1(root, sites, func(v space.Variant) bool {
					judgeDetermine("synthetic", layout, p, false, v.Bytes, "reenc:"+v.Class)
					nSynth++
					return true
				})
			}
		}
	}
	c.Set("synthetic_headers", nSynth)
	{
		h := buildHeader(10, space.U(9), 0).Encode()
		t, err, _ := determine(h)
		c.Sample(map[string]any{"case": "synthetic 10-field header, major 9", "header": vlib.Hex(h), "type": t, "err": fmt.Sprint(err)})
		h = buildHeader(15, space.U(7), 0).Encode()
		t, err, _ = determine(h)
		c.Sample(map[string]any{"case": "synthetic 15-field header, major 7 (Babbage major in the old layout)", "type": t, "err": fmt.Sprint(err)})
	}

	// ---------- fixtures ----------
	fixtures := space.Blocks(true)
	if len(fixtures) < 8 {
		c.Internal("only %d fixture blocks found under %s", len(fixtures), vlib.Repo())
	}
	seenType := map[uint]bool{}
	type fx struct {
		space.Fixture
		tree *space.Node
		hdr  []byte
	}
	var fxs []fx
	for _, f := range fixtures {
		tree, err := space.Parse(f.Cbor)
		if err != nil || !tree.IsArray() || len(tree.Items) < 2 {
			c.Internal("fixture %s does not parse as a block array: %v", f.Name, err)
		}
		h := tree.Items[0]
		fxs = append(fxs, fx{f, tree, f.Cbor[h.Start:h.End]})
		seenType[f.Type] = true
	}
	for t := uint(0); t <= 8; t++ {
		if !seenType[t] {
			c.Note(fmt.Sprintf("no fixture block of type %d", t))
		}
	}
	c.Set("fixtures", len(fxs))

	// ---------- R4 + (A2): real headers, and the major sweep written into real headers ----------
	var nFix int64
	realTable := map[string]string{}
	for _, f := range fxs {
		t, err, _ := determine(f.hdr)
		if f.Type < 2 {
			c.Eval("real-header|"+f.Name, "determine:byron-header")
			if err == nil {
				c.Violation("DetermineBlockType|byron-header-classified", fmt.Sprintf("Byron header of %s classified as type %d", f.Name, t), map[string]any{"kind": "determine", "src": "fixture:" + f.Name, "header_hex": hex.EncodeToString(f.hdr)})
			}
			continue
		}
		// Observation only (NOT judged): the property speaks about the type inferred from the
		// major, not about whether that is the era the block was really minted in. Real
		// headers carry the major the producer is ready for, which can be the next era's.
		switch {
		case err != nil:
			c.Eval("real-header|"+f.Name, "determine:real-header:rejected")
			c.Note(fmt.Sprintf("observation (outside the property): real %s header (block type %d) is not classified: %v", f.Name, f.Type, err))
		case t != f.Type:
			c.Eval("real-header|"+f.Name, "determine:real-header:other-era")
			c.Note(fmt.Sprintf("observation (outside the property): real %s header (block type %d) carries a later era's major and is classified as type %d", f.Name, f.Type, t))
		default:
			c.Eval("real-header|"+f.Name, "determine:real-header:own-era")
		}
		realTable[f.Name] = fmt.Sprintf("true type %d, classified %d, err=%v", f.Type, t, err)

		// sweep the major inside the real header
		htree, err2 := space.Parse(f.hdr)
		if err2 != nil {
			c.Internal("header of %s does not parse: %v", f.Name, err2)
		}
		pvn, layout := pvNodeOf(htree)
		if pvn == nil {
			c.Internal("cannot locate protocol major in header of %s", f.Name)
		}
		orig := pvn.Arg
		sweep := append(append([]uint64{}, majors[:301]...), majors[len(majors)-4:]...) // 0..300 + the four huge values
		for _, p := range sweep {
			pvn.Arg = p
			pvn.Form = space.FormMin
			mh := htree.Encode()
			tt, ok := judgeDetermine("fixture:"+f.Name, layout, p, true, mh, "real-header")
			nFix++
			if !ok || p > 64 {
				continue
			}
			// the classified type through the header and block entry points: the body is
			// untouched, so the body hash inside the (edited) header still matches.
			mb := append(append(append([]byte{}, f.Cbor[:f.tree.Items[0].Start]...), mh...), f.Cbor[f.tree.Items[0].End:]...)
			for e := 0; e < len(entryNames); e++ {
				judgeEntry("fixture:"+f.Name, f.Type, e, tt, mb, mh, fmt.Sprintf("major=%d", p))
			}
		}
		pvn.Arg = orig
	}
	c.Set("fixture_header_major_sweeps", nFix)
	c.Set("real_header_classification_observed", realTable)

	// ---------- (B) R5: the two maps ----------
	h2b, b2h := ledger.BlockHeaderToBlockTypeMap, ledger.BlockToBlockHeaderTypeMap
	{
		keys := func(m map[uint]uint) []uint {
			var k []uint
			for x := range m {
				k = append(k, x)
			}
			sort.Slice(k, func(i, j int) bool { return k[i] < k[j] })
			return k
		}
		for _, he := range keys(h2b) {
			bt := h2b[he]
			c.Eval(fmt.Sprintf("h2b|%d->%d", he, bt), "map:entry")
			back, ok := b2h[bt]
			if !ok || back != he {
				c.Violation(fmt.Sprintf("maps|not-inverse|header-era=%d", he),
					fmt.Sprintf("BlockHeaderToBlockTypeMap[%d]=%d but BlockToBlockHeaderTypeMap[%d]=%d (present=%v)", he, bt, bt, back, ok), map[string]any{"kind": "map", "header_era": he})
			}
			// the era id that blocks of type bt report must be this header era id
			if id, name, known := eraOfType(bt); !known || uint(id) != he {
				c.Violation(fmt.Sprintf("maps|header-era-is-not-era-of-type|header-era=%d|type=%d", he, bt),
					fmt.Sprintf("header era %d maps to block type %d, whose era is %d %q (known=%v)", he, bt, id, name, known), map[string]any{"kind": "map", "header_era": he})
			}
			if got := ledger.GetEraById(uint8(he)); uint(got.Id) != he || got.Name == "invalid" {
				c.Violation(fmt.Sprintf("maps|header-era-unregistered|header-era=%d", he),
					fmt.Sprintf("GetEraById(%d) = %d %q", he, got.Id, got.Name), map[string]any{"kind": "map", "header_era": he})
			}
		}
		for _, bt := range keys(b2h) {
			he := b2h[bt]
			c.Eval(fmt.Sprintf("b2h|%d->%d", bt, he), "map:entry")
			back, ok := h2b[he]
			if !ok || back != bt {
				c.Violation(fmt.Sprintf("maps|not-inverse|block-type=%d", bt),
					fmt.Sprintf("BlockToBlockHeaderTypeMap[%d]=%d but BlockHeaderToBlockTypeMap[%d]=%d (present=%v)", bt, he, he, back, ok), map[string]any{"kind": "map", "block_type": bt})
			}
		}
		// every type DetermineBlockType can produce must be mappable both ways
		for _, e := range eras {
			c.Eval("map-covers|"+e.name, "map:entry")
			if he, ok := b2h[e.blockType]; !ok || he != uint(e.eraId) {
				c.Violation("maps|era-missing-or-wrong|era="+e.name,
					fmt.Sprintf("BlockToBlockHeaderTypeMap[%d] = %d (present=%v), the %s era id is %d", e.blockType, he, ok, e.name, e.eraId), map[string]any{"kind": "map", "era": e.name})
			}
		}
		c.Sample(map[string]any{"case": "maps", "header_to_block": fmt.Sprint(h2b), "block_to_header": fmt.Sprint(b2h)})
	}

	// ---------- (C) R6: fixture x type x entry point ----------
	ownOk := 0
	for _, f := range fxs {
		for t := uint(0); t <= 12; t++ {
			for e := 0; e < len(entryNames); e++ {
				ok := judgeEntry("fixture:"+f.Name, f.Type, e, t, f.Cbor, f.hdr, "real")
				if ok && t == f.Type {
					ownOk++
				}
				if t == f.Type && !ok {
					c.Note(fmt.Sprintf("fixture %s does not decode as its own type %d through %s (not a C36 matter; see C34)", f.Name, t, entryNames[e]))
				}
			}
		}
	}
	if ownOk == 0 {
		c.Internal("no fixture decoded as its own type through any entry point: the R6 part would be vacuous")
	}
	c.Set("own_type_decodes_ok", ownOk)

	c.Set("rule", "A: majors 0..300 (0..70000 thorough) + 2^32-1,2^32,2^63,2^64-1 x layouts {15,10} x minors {0,1} x every integer header form that can carry the major, + every single-header re-encoding (space.EnumD1) of the canonical header for majors 0..64; the same majors written into the real header of every Shelley..Dijkstra fixture, and for 0..64 the resulting header/block through all six entry points as the classified type. B: every entry of both maps. C: every fixture x type id 0..12 x six entry points. distinct = (layout, major, encoding variant, verdict) resp. (entry, type, fixture type, variant, verdict)")
	c.Set("declared_ranges", func() map[string]string {
		m := map[string]string{}
		for _, e := range eras {
			m[e.name] = fmt.Sprintf("[%d,%d] type=%d era=%d layout=%d", e.min, e.max, e.blockType, e.eraId, e.layout)
		}
		return m
	}())
	c.Assume("the declared major ranges are read from the era packages' Min/MaxProtocolVersion constants (the property names them as the authority); block-type / era-id / era-name / layout table is the harness's own (Cardano HFC numbering)")
	c.Assume("verif/space CBOR writer produces the headers; header layouts follow the Shelley and Babbage CDDL")
	// free-running -race pass: concurrent callers on their own inputs (state the library shares between calls)
	c.RaceAudit("c36")
	c.Finish()
}

// replay re-runs one recorded case.
func replay(path string) {
	b, err := os.ReadFile(path)
	if err != nil {
		c.Internal("replay: %v", err)
	}
	var doc struct {
		Replay map[string]any `json:"replay"`
	}
	if err := json.Unmarshal(b, &doc); err != nil {
		c.Internal("replay: %v", err)
	}
	r := doc.Replay
	num := func(k string) uint64 {
		f, _ := r[k].(float64)
		return uint64(f)
	}
	str := func(k string) string { s, _ := r[k].(string); return s }
	switch str("kind") {
	case "determine":
		hdr, _ := hex.DecodeString(str("header_hex"))
		canon, _ := r["canonical"].(bool)
		if _, has := r["major"]; !has {
			t, err, _ := determine(hdr)
			fmt.Printf("DetermineBlockType -> %d, %v\n", t, err)
			break
		}
		t, ok := judgeDetermine(str("src"), int(num("layout")), num("major"), canon, hdr, str("variant"))
		fmt.Printf("DetermineBlockType -> type %d classified=%v\n", t, ok)
	case "decode":
		var data []byte
		if h := str("input_hex"); h != "" {
			data, _ = hex.DecodeString(h)
		} else {
			for _, f := range space.Blocks(true) {
				if "fixture:"+f.Name == str("src") {
					data = f.Cbor
				}
			}
		}
		hdr := data
		blk := data
		ok := judgeEntry(str("src"), ^uint(0), int(num("entry")), uint(num("type")), blk, hdr, str("variant"))
		fmt.Printf("%s as type %d decoded=%v\n", entryNames[int(num("entry"))], num("type"), ok)
	default:
		fmt.Println("this case kind is re-checked by a normal run (no input to replay)")
	}
	// a replay never overwrites the evidence of the last full run
	if c.Violations() > 0 {
		os.Exit(1)
	}
	os.Exit(0)
}
