// C27: value is conserved by every accepted transaction.
//
// Space (complete product within the bounds below): era x inputs {u1 | u1+u2 (u2 carries a token
// from Mary on)} x outputs {1,2} x fee x withdrawal x certificate set (every deposit-moving kind of
// the era, alone and in a few pairs; also the kinds that move nothing) x proposal x donation x
// mint/burn variant x coin imbalance (0, +-1, +- every value-moving term of the transaction) x
// asset imbalance (balanced, +1, -1, missing, renamed, phantom).
// Oracle: ref() recomputes consumed and produced from the record with the ledger formula
// (consumed = inputs + withdrawals + refunds + mint; produced = outputs + fee + deposits + donation;
// coin and every (policy, name) separately). An unbalanced transaction must not be accepted.
package main

import (
	"encoding/json"
	"fmt"
	"math/big"
	"os"
	"runtime/debug"
	"sort"
	"sync/atomic"
	"time"

	"github.com/blinklabs-io/gouroboros/ledger/allegra"
	"github.com/blinklabs-io/gouroboros/ledger/alonzo"
	"github.com/blinklabs-io/gouroboros/ledger/babbage"
	"github.com/blinklabs-io/gouroboros/ledger/common"
	"github.com/blinklabs-io/gouroboros/ledger/conway"
	"github.com/blinklabs-io/gouroboros/ledger/dijkstra"
	"github.com/blinklabs-io/gouroboros/ledger/mary"
	"github.com/blinklabs-io/gouroboros/ledger/shelley"
	"verif/space"
	"verif/vlib"
)

// protocol parameters: pairwise different so that every term of the formula is identifiable
const (
	keyDep  = 2_000_000
	poolDep = 500_000_000
	drepDep = 3_000_000
	govDep  = 7_000_000
	donAmt  = 13
	u1Coin  = 1_000_000_000
	u2Coin  = 4_000_000
	out2Amt = 1_500_000
)

func directRule(era int) common.UtxoValidationRuleFunc {
	switch era {
	case EraShelley:
		return shelley.UtxoValidateValueNotConservedUtxo
	case EraAllegra:
		return allegra.UtxoValidateValueNotConservedUtxo
	case EraMary:
		return mary.UtxoValidateValueNotConservedUtxo
	case EraAlonzo:
		return alonzo.UtxoValidateValueNotConservedUtxo
	case EraBabbage:
		return babbage.UtxoValidateValueNotConservedUtxo
	case EraConway:
		return conway.UtxoValidateValueNotConservedUtxo
	}
	return dijkstra.UtxoValidateValueNotConservedUtxo
}

// ---- certificates ----

type certKind struct {
	name    string
	minEra  int
	deposit uint64 // produced
	refund  uint64 // consumed
	mk      func(u *universe) *space.Node
}

type universe struct {
	pay, stakeR, stakeN Key // R: registered stake key, N: new one
	poolOld, poolNew    [28]byte
	drepOld, drepNew    [28]byte
	cold, hot           [28]byte
}

func cred(h [28]byte) *space.Node { return space.A(space.U(0), space.B(h[:])) }
func drepAbstain() *space.Node    { return space.A(space.U(2)) }

func poolReg(u *universe, op [28]byte) *space.Node {
	vrf := h256([]byte("verif-vrf"))
	return space.A(space.U(3), space.B(op[:]), space.B(vrf[:]), space.U(1000), space.U(340_000_000),
		space.Tag(30, space.A(space.U(1), space.U(100))), space.B(RewardAddr(u.stakeR)),
		space.A(space.B(u.stakeR.Hash[:])), space.A(), space.Null())
}

var certKinds = []certKind{
	{"stake_reg(0)", EraShelley, keyDep, 0, func(u *universe) *space.Node { return space.A(space.U(0), cred(u.stakeN.Hash)) }},
	{"stake_dereg(1)", EraShelley, 0, keyDep, func(u *universe) *space.Node { return space.A(space.U(1), cred(u.stakeR.Hash)) }},
	{"stake_deleg(2)", EraShelley, 0, 0, func(u *universe) *space.Node {
		return space.A(space.U(2), cred(u.stakeR.Hash), space.B(u.poolOld[:]))
	}},
	{"pool_reg_new(3)", EraShelley, poolDep, 0, func(u *universe) *space.Node { return poolReg(u, u.poolNew) }},
	{"pool_rereg(3)", EraShelley, 0, 0, func(u *universe) *space.Node { return poolReg(u, u.poolOld) }},
	{"pool_retire(4)", EraShelley, 0, 0, func(u *universe) *space.Node { return space.A(space.U(4), space.B(u.poolOld[:]), space.U(500)) }},
	{"reg(7)", EraConway, keyDep, 0, func(u *universe) *space.Node { return space.A(space.U(7), cred(u.stakeN.Hash), space.U(keyDep)) }},
	{"unreg(8)", EraConway, 0, keyDep, func(u *universe) *space.Node { return space.A(space.U(8), cred(u.stakeR.Hash), space.U(keyDep)) }},
	{"vote_deleg(9)", EraConway, 0, 0, func(u *universe) *space.Node { return space.A(space.U(9), cred(u.stakeR.Hash), drepAbstain()) }},
	{"stake_vote_deleg(10)", EraConway, 0, 0, func(u *universe) *space.Node {
		return space.A(space.U(10), cred(u.stakeR.Hash), space.B(u.poolOld[:]), drepAbstain())
	}},
	{"stake_reg_deleg(11)", EraConway, keyDep, 0, func(u *universe) *space.Node {
		return space.A(space.U(11), cred(u.stakeN.Hash), space.B(u.poolOld[:]), space.U(keyDep))
	}},
	{"vote_reg_deleg(12)", EraConway, keyDep, 0, func(u *universe) *space.Node {
		return space.A(space.U(12), cred(u.stakeN.Hash), drepAbstain(), space.U(keyDep))
	}},
	{"stake_vote_reg_deleg(13)", EraConway, keyDep, 0, func(u *universe) *space.Node {
		return space.A(space.U(13), cred(u.stakeN.Hash), space.B(u.poolOld[:]), drepAbstain(), space.U(keyDep))
	}},
	{"auth_hot(14)", EraConway, 0, 0, func(u *universe) *space.Node { return space.A(space.U(14), cred(u.cold), cred(u.hot)) }},
	{"resign_cold(15)", EraConway, 0, 0, func(u *universe) *space.Node { return space.A(space.U(15), cred(u.cold), space.Null()) }},
	{"reg_drep(16)", EraConway, drepDep, 0, func(u *universe) *space.Node {
		return space.A(space.U(16), cred(u.drepNew), space.U(drepDep), space.Null())
	}},
	{"unreg_drep(17)", EraConway, 0, drepDep, func(u *universe) *space.Node { return space.A(space.U(17), cred(u.drepOld), space.U(drepDep)) }},
	{"update_drep(18)", EraConway, 0, 0, func(u *universe) *space.Node { return space.A(space.U(18), cred(u.drepOld), space.Null()) }},
}

func kindIdx(name string) int {
	for i, k := range certKinds {
		if k.name == name {
			return i
		}
	}
	panic(name)
}

// certificate sets: none, every single kind, and a few pairs
func certSets(era int, thorough bool) [][]int {
	sets := [][]int{{}}
	for i, k := range certKinds {
		if era >= k.minEra {
			sets = append(sets, []int{i})
		}
	}
	pairs := [][2]string{{"stake_reg(0)", "stake_dereg(1)"}, {"stake_reg(0)", "pool_reg_new(3)"}}
	if era >= EraConway {
		pairs = append(pairs, [2]string{"reg(7)", "unreg_drep(17)"}, [2]string{"reg_drep(16)", "unreg(8)"}, [2]string{"stake_reg(0)", "reg_drep(16)"})
	}
	if thorough && era >= EraConway {
		pairs = append(pairs, [2]string{"stake_vote_reg_deleg(13)", "pool_reg_new(3)"}, [2]string{"stake_dereg(1)", "unreg_drep(17)"}, [2]string{"vote_reg_deleg(12)", "pool_rereg(3)"})
	}
	for _, p := range pairs {
		sets = append(sets, []int{kindIdx(p[0]), kindIdx(p[1])})
	}
	return sets
}

// ---- assets ----

var (
	polP1   = [28]byte{0xa1, 0xb2, 0xc3, 1}
	polZero = [28]byte{}
)

type aid struct {
	pol  [28]byte
	name string
}

func (a aid) String() string {
	p := "P1"
	if a.pol == polZero {
		p = "ZERO"
	}
	return fmt.Sprintf("(%s,%q)", p, a.name)
}

type mintVariant struct {
	name  string
	asset aid
	qty   int64
}

var mints = []mintVariant{
	{"none", aid{}, 0},
	{"mint+5(P1,A)", aid{polP1, "A"}, 5},
	{"burn-3(P1,A)", aid{polP1, "A"}, -3},
	{"mint+5(P1,empty-name)", aid{polP1, ""}, 5},
	{"mint+5(ZERO,empty-name)", aid{polZero, ""}, 5},
	{"mint+5(ZERO,A)", aid{polZero, "A"}, 5},
}

var assetDeltas = []string{"balanced", "out+1", "out-1", "missing", "renamed", "phantom"}

// ---- case ----

type scase struct {
	Era    int    `json:"era"`
	TwoIn  bool   `json:"two_inputs"`
	TwoOut bool   `json:"two_outputs"`
	Tok1   bool   `json:"u1_carries_token"` // u1 carries 2 of (P1,A): with two inputs the same asset is consumed twice
	Fee    uint64 `json:"fee"`
	Wd     int64  `json:"withdrawal"` // -1 absent
	Certs  []int  `json:"cert_kinds"`
	Prop   bool   `json:"proposal"`
	Don    bool   `json:"donation"`
	Mint   int    `json:"mint_variant"`
}

type vcase struct {
	S      scase  `json:"structure"`
	Term   string `json:"coin_delta_term"` // "" = 0
	Delta  int64  `json:"coin_delta"`
	ADelta int    `json:"asset_delta"`
}

type term struct {
	name string
	v    int64
}

// terms lists the value-moving terms of a structure (for the coin imbalance alphabet).
func (s scase) terms() []term {
	ts := []term{{"one", 1}}
	if s.Fee > 1 {
		ts = append(ts, term{"fee", int64(s.Fee)})
	}
	if s.Wd > 1 {
		ts = append(ts, term{"withdrawal", s.Wd})
	}
	for _, ci := range s.Certs {
		k := certKinds[ci]
		if k.deposit > 0 {
			ts = append(ts, term{"deposit:" + k.name, int64(k.deposit)})
		}
		if k.refund > 0 {
			ts = append(ts, term{"refund:" + k.name, int64(k.refund)})
		}
		// amounts a wrong formula could attach to a certificate that moves nothing
		switch k.name {
		case "pool_rereg(3)", "pool_retire(4)":
			ts = append(ts, term{"pool-deposit-that-does-not-apply:" + k.name, poolDep})
		case "stake_deleg(2)", "vote_deleg(9)", "stake_vote_deleg(10)":
			ts = append(ts, term{"key-deposit-that-does-not-apply:" + k.name, keyDep})
		case "update_drep(18)":
			ts = append(ts, term{"drep-deposit-that-does-not-apply:" + k.name, drepDep})
		}
	}
	if s.Prop {
		ts = append(ts, term{"proposal-deposit", govDep})
	}
	if s.Don {
		ts = append(ts, term{"donation", donAmt})
	}
	if m := mints[s.Mint]; m.qty != 0 {
		q := m.qty
		if q < 0 {
			q = -q
		}
		ts = append(ts, term{"mint-qty", q})
	}
	if s.TwoOut {
		ts = append(ts, term{"second-output", out2Amt})
	}
	return ts
}

// built is a generated transaction with everything the oracle needs.
type built struct {
	rec *TxRec
	ls  *StubState
	pp  common.ProtocolParameters
	ok  bool // false: the variant is not constructible (negative amount, nothing to vary)
	// what the oracle sums up
	inCoins   []uint64
	inAssets  map[aid]int64
	deposits  uint64
	refunds   uint64
	wd        uint64
	donation  uint64
	mint      map[aid]int64
	focus     aid
	hasTokens bool
}

func newUniverse(seed int64) *universe {
	return &universe{
		pay: NewKey(seed, 1), stakeR: NewKey(seed, 2), stakeN: NewKey(seed, 3),
		poolOld: h224([]byte("verif-pool-old")), poolNew: h224([]byte("verif-pool-new")),
		drepOld: h224([]byte("verif-drep-old")), drepNew: h224([]byte("verif-drep-new")),
		cold: h224([]byte("verif-cold")), hot: h224([]byte("verif-hot")),
	}
}

func build(v vcase, u *universe, seed int64, signed bool) built {
	s := v.S
	var b built
	b.inAssets, b.mint = map[aid]int64{}, map[aid]int64{}
	ls := NewStub()
	ls.RegStake[u.stakeR.Hash] = true
	ls.Rewards[u.stakeR.Hash] = 1 << 40
	ls.Pools[u.poolOld] = true
	ls.DReps[u.drepOld] = drepDep
	in1, in2 := MkIn(int(seed)+1, 0), MkIn(int(seed)+2, 1)
	rec := &TxRec{Era: s.Era, Inputs: []In{in1}, Fee: s.Fee}
	if signed {
		rec.Signers = []Key{u.pay, u.stakeR}
	}
	if s.Era == EraShelley {
		rec.TTL = U64(1 << 40)
	}
	uo1 := Out{Addr: EnterpriseAddr(u.pay), Coin: u1Coin}
	if s.Tok1 && s.Era >= EraMary {
		uo1.Assets = []Asset{{polP1, []byte("A"), 2}}
		b.inAssets[aid{polP1, "A"}] += 2
	}
	if err := ls.AddUtxo(s.Era, in1, uo1); err != nil {
		panic(err)
	}
	b.inCoins = append(b.inCoins, u1Coin)
	if s.TwoIn {
		o2 := Out{Addr: EnterpriseAddr(u.pay), Coin: u2Coin}
		if s.Era >= EraMary {
			o2.Assets = []Asset{{polP1, []byte("A"), 7}}
			b.inAssets[aid{polP1, "A"}] += 7
		}
		if err := ls.AddUtxo(s.Era, in2, o2); err != nil {
			panic(err)
		}
		rec.Inputs = append(rec.Inputs, in2)
		b.inCoins = append(b.inCoins, u2Coin)
	}
	if s.Wd >= 0 {
		rec.Withdrawals = []Wdrl{{RewardAddr(u.stakeR), uint64(s.Wd)}}
		b.wd = uint64(s.Wd)
	}
	for _, ci := range s.Certs {
		k := certKinds[ci]
		rec.Certs = append(rec.Certs, k.mk(u))
		b.deposits += k.deposit
		b.refunds += k.refund
	}
	if s.Prop {
		ah := h256([]byte("verif-anchor"))
		rec.Proposals = []*space.Node{space.A(space.U(govDep), space.B(RewardAddr(u.stakeR)), space.A(space.U(6)),
			space.A(space.T("https://example.invalid/p"), space.B(ah[:])))}
		b.deposits += govDep
	}
	if s.Don {
		rec.Donation = U64(donAmt)
		b.donation = donAmt
	}
	m := mints[s.Mint]
	if m.qty != 0 {
		if m.qty < 0 && b.inAssets[m.asset] < -m.qty {
			return b // cannot burn what is not there
		}
		rec.Mint = []Asset{{m.asset.pol, []byte(m.asset.name), m.qty}}
		b.mint[m.asset] = m.qty
	}
	// tokens available to the outputs when balanced
	avail := map[aid]int64{}
	for a, q := range b.inAssets {
		avail[a] += q
	}
	for a, q := range b.mint {
		avail[a] += q
	}
	var ids []aid
	for a, q := range avail {
		if q != 0 {
			ids = append(ids, a)
		}
	}
	sort.Slice(ids, func(i, j int) bool { return ids[i].String() < ids[j].String() })
	b.hasTokens = len(ids) > 0
	if m.qty != 0 {
		b.focus = m.asset
	} else if b.hasTokens {
		b.focus = ids[0]
	}
	outAssets := map[aid]int64{}
	for _, a := range ids {
		outAssets[a] = avail[a]
	}
	switch assetDeltas[v.ADelta] {
	case "balanced":
	case "out+1":
		if !b.hasTokens {
			return b
		}
		outAssets[b.focus]++
	case "out-1":
		if !b.hasTokens || outAssets[b.focus] < 1 {
			return b
		}
		outAssets[b.focus]--
	case "missing":
		if !b.hasTokens || outAssets[b.focus] == 0 {
			return b
		}
		delete(outAssets, b.focus)
	case "renamed":
		if !b.hasTokens || outAssets[b.focus] == 0 {
			return b
		}
		q := outAssets[b.focus]
		delete(outAssets, b.focus)
		outAssets[aid{b.focus.pol, b.focus.name + "x"}] += q
	case "phantom":
		if b.hasTokens || s.Era < EraMary {
			return b
		}
		outAssets[aid{polP1, "A"}] = 1
	}
	// balanced coin of the first output
	cons := new(big.Int)
	for _, c := range b.inCoins {
		cons.Add(cons, bu(c))
	}
	cons.Add(cons, bu(b.wd))
	cons.Add(cons, bu(b.refunds))
	prod := new(big.Int).Add(bu(s.Fee), bu(b.deposits))
	prod.Add(prod, bu(b.donation))
	if s.TwoOut {
		prod.Add(prod, bu(out2Amt))
	}
	o1 := new(big.Int).Sub(cons, prod)
	o1.Add(o1, big.NewInt(v.Delta))
	if o1.Sign() < 0 || !o1.IsUint64() {
		return b
	}
	out1 := Out{Addr: EnterpriseAddr(u.pay), Coin: o1.Uint64()}
	var oa []aid
	for a := range outAssets {
		oa = append(oa, a)
	}
	sort.Slice(oa, func(i, j int) bool { return oa[i].String() < oa[j].String() })
	for _, a := range oa {
		if outAssets[a] != 0 {
			out1.Assets = append(out1.Assets, Asset{a.pol, []byte(a.name), outAssets[a]})
		}
	}
	rec.Outputs = []Out{out1}
	if s.TwoOut {
		rec.Outputs = append(rec.Outputs, Out{Addr: EnterpriseAddr(u.pay), Coin: out2Amt})
	}
	p := NeutralPP()
	p.KeyDeposit, p.PoolDeposit, p.DRepDeposit, p.GovActionDeposit = keyDep, poolDep, drepDep, govDep
	b.rec, b.ls, b.pp, b.ok = rec, ls, MakePP(s.Era, p), true
	return b
}

func bu(v uint64) *big.Int { return new(big.Int).SetUint64(v) }

// ref is the oracle: consumed and produced per the ledger formula, from the record only.
func ref(b built) (coinOK bool, assetsOK bool, detail string) {
	cons, prod := new(big.Int), new(big.Int)
	for _, c := range b.inCoins {
		cons.Add(cons, bu(c))
	}
	cons.Add(cons, bu(b.wd))
	cons.Add(cons, bu(b.refunds))
	for _, o := range b.rec.Outputs {
		prod.Add(prod, bu(o.Coin))
	}
	prod.Add(prod, bu(b.rec.Fee))
	prod.Add(prod, bu(b.deposits))
	prod.Add(prod, bu(b.donation))
	ca, pa := map[aid]int64{}, map[aid]int64{}
	for a, q := range b.inAssets {
		ca[a] += q
	}
	for a, q := range b.mint { // mint is multi-asset only: it never adds coin
		ca[a] += q
	}
	for _, o := range b.rec.Outputs {
		for _, as := range o.Assets {
			pa[aid{as.Policy, string(as.Name)}] += as.Qty
		}
	}
	assetsOK = true
	for a, q := range ca {
		if pa[a] != q {
			assetsOK = false
		}
	}
	for a, q := range pa {
		if ca[a] != q {
			assetsOK = false
		}
	}
	return cons.Cmp(prod) == 0, assetsOK, fmt.Sprintf("consumed coin %s produced coin %s; consumed assets %v produced assets %v", cons, prod, ca, pa)
}

func certNames(ix []int) string {
	if len(ix) == 0 {
		return "none"
	}
	s := ""
	for i, c := range ix {
		if i > 0 {
			s += "+"
		}
		s += certKinds[c].name
	}
	return s
}

func main() {
	debug.SetGCPercent(800) // allocation-heavy decoders; the live heap is tiny
	c := vlib.New("C27", "exploration")
	u := newUniverse(c.Seed)
	fees := []uint64{1}
	wds := []int64{-1, 11}
	if c.Thorough() {
		fees = []uint64{1, keyDep}
		wds = []int64{-1, 0, keyDep}
	}
	var structs []scase
	for _, era := range AllEras {
		for _, twoIn := range []bool{false, true} {
			for _, twoOut := range []bool{false, true} {
				if !c.Thorough() && twoOut != twoIn {
					continue
				}
				for _, fee := range fees {
					for _, wd := range wds {
						for _, cs := range certSets(era, c.Thorough()) {
							for _, prop := range []bool{false, true} {
								for _, don := range []bool{false, true} {
									if (prop || don) && era < EraConway {
										continue
									}
									if !c.Thorough() && prop != don && len(cs) > 0 {
										continue // quick: proposal and donation alone only without certificates
									}
									for mi := range mints {
										if mi > 0 && era < EraMary {
											continue
										}
										if len(cs) > 0 && (mi > 2 || !c.Thorough() && mi > 1) {
											continue // the exotic mint variants are crossed with certificate-free structures only
										}
										structs = append(structs, scase{era, twoIn, twoOut, false, fee, wd, cs, prop, don, mi})
										if era >= EraMary && len(cs) == 0 {
											// the same asset on two inputs / on an input and in the mint
											structs = append(structs, scase{era, twoIn, twoOut, true, fee, wd, cs, prop, don, mi})
										}
									}
								}
							}
						}
					}
				}
			}
		}
	}
	var cases []vcase
	for _, s := range structs {
		ts := s.terms()
		for ad := range assetDeltas {
			if ad > 0 && s.Era < EraMary {
				continue
			}
			cases = append(cases, vcase{s, "", 0, ad})
			for _, t := range ts {
				// coin and asset imbalances are crossed only for the minted quantity (the term an
				// implementation could confuse between coin and assets); thorough adds the full cross
				// product for certificate-free structures
				if ad > 0 && t.name != "mint-qty" && !(c.Thorough() && len(s.Certs) == 0) {
					continue
				}
				cases = append(cases, vcase{s, "+" + t.name, t.v, ad}, vcase{s, "-" + t.name, -t.v, ad})
			}
		}
	}
	if c.Replay != "" {
		var f struct{ Replay struct{ Case vcase } }
		b, err := os.ReadFile(c.Replay)
		if err == nil {
			err = json.Unmarshal(b, &f)
		}
		if err != nil {
			c.Internal("replay: %v", err)
		}
		cases = []vcase{f.Replay.Case}
	}

	// baselines: the balanced variant of each structure (rules rejecting it are unrelated to the balance)
	type baseRes struct {
		fails   []RuleResult
		ok      bool
		full    bool
		dirErr  string
		decoded bool
	}
	skey := func(s scase) string { b, _ := json.Marshal(s); return string(b) }
	bases := map[string]*baseRes{}
	var order []scase
	for _, v := range cases {
		k := skey(v.S)
		if _, ok := bases[k]; !ok {
			bases[k] = &baseRes{}
			order = append(order, v.S)
		}
	}
	vlib.Parallel(len(order), func(i int) {
		s := order[i]
		br := bases[skey(s)]
		b := build(vcase{s, "", 0, 0}, u, c.Seed, false)
		if !b.ok {
			return
		}
		br.ok = true
		tx, _, err := b.rec.Build()
		if err != nil {
			br.dirErr = "decode: " + err.Error()
			return
		}
		br.decoded = true
		br.fails = RunList(Rules(s.Era), tx, 100, b.ls, b.pp)
		// the signed twin of the balanced variant shows whether the structure is valid as a whole
		if sb := build(vcase{s, "", 0, 0}, u, c.Seed, true); sb.ok {
			if stx, _, err := sb.rec.Build(); err == nil {
				br.full = Verify(s.Era, stx, 100, sb.ls, sb.pp) == nil
			}
		}
		func() {
			defer func() {
				if p := recover(); p != nil {
					br.dirErr = fmt.Sprintf("panic: %v", p)
				}
			}()
			if e := directRule(s.Era)(tx, 100, b.ls, b.pp); e != nil {
				br.dirErr = errStr(e)
			}
		}()
	})

	type result struct {
		ok               bool
		raw              []byte
		decErr           error
		dirAcc, listAcc  bool
		dirErr           string
		attr             []RuleResult
		coinOK, assetsOK bool
		detail           string
		mutated          bool   // the state dump differs after validation
		reeval           string // non-empty: repeated evaluations on the same state give different verdicts
		dumpBefore       string
		dumpAfter        string
	}
	res := make([]result, len(cases))
	deadline := c.Deadline(8*time.Minute, 9*time.Minute)
	var skipped atomic.Int64
	vlib.Parallel(len(cases), func(i int) {
		v := cases[i]
		r := &res[i]
		if time.Now().After(deadline) {
			skipped.Add(1)
			return
		}
		br := bases[skey(v.S)]
		if !br.ok || !br.decoded {
			return
		}
		b := build(v, u, c.Seed, false)
		if !b.ok {
			return
		}
		r.ok = true
		r.coinOK, r.assetsOK, r.detail = ref(b)
		tx, raw, err := b.rec.Build()
		r.raw, r.decErr = raw, err
		if err != nil {
			return
		}
		// validation must be a pure function of (tx, state): the conservation rule is evaluated
		// three times on the SAME state object (directly, inside the era list, directly again) and
		// the state is dumped before and after
		direct := func() (es string) {
			defer func() {
				if p := recover(); p != nil {
					es = fmt.Sprintf("panic: %v", p)
				}
			}()
			if e := directRule(v.S.Era)(tx, 100, b.ls, b.pp); e != nil {
				return errStr(e)
			}
			return ""
		}
		dump0 := b.ls.Dump()
		r.dirErr = direct()
		r.dirAcc = r.dirErr == ""
		// rejections by rules that also reject the balanced variant are unrelated to the balance -
		// except the conservation rule itself, whose verdict on this variant always counts
		consName := RuleName(directRule(v.S.Era))
		bf := FailSet(br.fails)
		inList, listCons := false, ""
		for _, f := range Rules(v.S.Era) {
			if RuleName(f) == consName {
				inList = true
			}
		}
		for _, x := range RunList(Rules(v.S.Era), tx, 100, b.ls, b.pp) {
			if x.Name == consName {
				listCons = errStr(x.Err)
			}
			if _, inBase := bf[x.Name]; !inBase || x.Name == consName {
				r.attr = append(r.attr, x)
			}
		}
		again := direct()
		dump1 := b.ls.Dump()
		if dump0 != dump1 {
			r.mutated, r.dumpBefore, r.dumpAfter = true, dump0, dump1
		}
		if again != r.dirErr || inList && listCons != r.dirErr {
			r.reeval = fmt.Sprintf("1st direct call: %q; inside the era list: %q; 3rd (direct) call: %q", r.dirErr, listCons, again)
		}
		r.listAcc = len(r.attr) == 0
	})

	if n := skipped.Load(); n > 0 {
		c.NotExhaustive(fmt.Sprintf("internal deadline reached (machine load): %d of %d cases were not evaluated", n, len(cases)))
	}
	// report baselines first
	undecodable := map[string]int{}
	for _, s := range order {
		br := bases[skey(s)]
		if !br.ok {
			continue
		}
		en := EraNames[s.Era]
		if !br.decoded {
			undecodable[fmt.Sprintf("%s|certs=%s|prop=%v|don=%v|mint=%s: %s", en, certNames(s.Certs), s.Prop, s.Don, mints[s.Mint].name, br.dirErr)]++
			continue
		}
		if br.full {
			c.Add("balanced_structures_accepted_by_VerifyTransaction", 1)
		}
		c.Add("balanced_structures", 1)
		if br.dirErr != "" {
			// converse direction: a balanced transaction is rejected by the conservation rule
			c.Add("balanced_but_rejected_by_conservation_rule(converse,not_a_violation)", 1)
			c.Add(fmt.Sprintf("converse:%s|certs=%s|mint=%s", en, certNames(s.Certs), mints[s.Mint].name), 1)
		}
	}
	if len(undecodable) > 0 {
		c.Set("structures_the_decoder_rejects(skipped)", undecodable)
	}
	for i, v := range cases {
		r := res[i]
		if !r.ok {
			continue
		}
		s := v.S
		en := EraNames[s.Era]
		mv := mints[s.Mint]
		replay := map[string]any{"case": v, "era": en, "certs": certNames(s.Certs), "mint": mv.name, "asset_delta": assetDeltas[v.ADelta],
			"tx_cbor": fmt.Sprintf("%x", r.raw), "oracle": r.detail, "conservation_rule_error": r.dirErr, "list_rejections": names(r.attr)}
		if r.decErr != nil {
			c.Eval("", "decoder-rejects-variant")
			continue
		}
		if r.mutated || r.reeval != "" {
			replay["state_before"], replay["state_after"], replay["verdicts"] = r.dumpBefore, r.dumpAfter, r.reeval
			twice := "no"
			if s.TwoIn && s.Tok1 && s.Era >= EraMary || s.TwoIn && mv.qty != 0 && mv.asset == (aid{polP1, "A"}) || s.Tok1 && mv.qty != 0 && mv.asset == (aid{polP1, "A"}) {
				twice = "yes"
			}
			c.Eval("purity|"+en+"|same-asset-twice-on-consumed-side="+twice, fmt.Sprintf("state-mutated=%v/verdict-changes=%v", r.mutated, r.reeval != ""))
			if r.mutated {
				c.Violation(fmt.Sprintf("conservation|era=%s|state-mutated-by-validation", en),
					fmt.Sprintf("validating the transaction changed the ledger state (certs %s, mint %s, same asset twice on the consumed side: %s): before %q after %q", certNames(s.Certs), mv.name, twice, r.dumpBefore, r.dumpAfter), replay)
			}
			if r.reeval != "" {
				c.Violation(fmt.Sprintf("conservation|era=%s|verdict-changes-on-re-evaluation", en),
					fmt.Sprintf("the same transaction on the same state object gets different verdicts (certs %s, mint %s, same asset twice on the consumed side: %s): %s", certNames(s.Certs), mv.name, twice, r.reeval), replay)
			}
			continue
		}
		balanced := r.coinOK && r.assetsOK
		if balanced != (v.Delta == 0 && v.ADelta == 0) {
			c.Internal("generator and oracle disagree on %+v: %s", v, r.detail)
		}
		cls := fmt.Sprintf("%s|in2=%v|out2=%v|tok1=%v|wd=%v|certs=%s|prop=%v|don=%v|mint=%s|coin%s|asset:%s", en, s.TwoIn, s.TwoOut, s.Tok1, s.Wd >= 0, certNames(s.Certs), s.Prop, s.Don, mv.name, v.Term, assetDeltas[v.ADelta])
		c.Eval(cls, fmt.Sprintf("oracle-balanced=%v/rule-accepts=%v/list-accepts=%v", balanced, r.dirAcc, r.listAcc))
		if i < 2 || s.Era == EraConway && len(s.Certs) == 1 && s.Certs[0] == kindIdx("reg_drep(16)") && s.Mint == 1 && s.TwoIn && s.TwoOut && s.Prop && s.Don && s.Wd >= 0 && s.Fee == 1 && (v.Delta == 0 || v.Term == "+deposit:reg_drep(16)") && v.ADelta <= 1 {
			c.Sample(replay)
		}
		if balanced {
			continue
		}
		if !(r.dirAcc || r.listAcc) {
			continue
		}
		where := "rule+list"
		if !r.dirAcc {
			where = "list-only"
		} else if !r.listAcc {
			where = "rule-only"
		}
		// class of the accepted unbalanced input: which term the coin is off by, how the assets are off
		coinC := "coin=balanced"
		if v.Delta != 0 {
			coinC = "coin" + v.Term
		}
		k := fmt.Sprintf("conservation|%s|era=%s|%s|assets=%s", where, en, coinC, assetDeltas[v.ADelta])
		if v.ADelta != 0 || v.Term == "+mint-qty" || v.Term == "-mint-qty" {
			pol := "none"
			if mv.qty != 0 {
				pol = "P1"
				if mv.asset.pol == polZero {
					pol = "all-zero"
				}
			}
			k += "|mint-policy=" + pol
		}
		c.Violation(k, fmt.Sprintf("unbalanced transaction accepted (certs %s, mint %s, coin delta %d, assets %s): %s", certNames(s.Certs), mv.name, v.Delta, assetDeltas[v.ADelta], r.detail), replay)
	}
	c.Set("rule", "complete product era x inputs x outputs x fee x withdrawal x certificate set x proposal x donation x mint variant x coin imbalance (0, +-1, +- each value-moving term of the structure) x asset imbalance; distinct = all of these as a class; a rule's rejection counts iff the same rule accepts the balanced variant of the same structure (every rule of the era list is called separately), the era's UtxoValidateValueNotConservedUtxo is also called directly")
	c.Set("parameters", map[string]any{"keyDeposit": keyDep, "poolDeposit": poolDep, "dRepDeposit": drepDep, "govActionDeposit": govDep, "donation": donAmt})
	c.Assume("variants are unsigned (the signature rules then reject variant and balanced baseline alike and are ignored); the signed twin of every balanced structure is run through VerifyTransaction for the evidence. ed25519/blake2b trusted; deposits recorded in the stub state equal the protocol parameters and the amounts written in the certificates, so every reading of 'refund' gives the same number")
	// free-running -race pass: concurrent callers on their own inputs (state the library shares between calls)
	c.RaceAudit("c27")
	c.Finish()
}
