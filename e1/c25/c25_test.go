// C25: local request/response calls get their own answers.
//
// Seam S3: the REAL client object and the REAL server object of local-state-query,
// local-tx-monitor, local-tx-submission and peer-sharing, each on its own real muxer, the
// two muxers joined by a scheduler-owned connection. The server callbacks (the only part of
// the server the harness supplies) tag every reply with the request they saw. One or two
// caller goroutines issue enumerated call sequences through the client API and log every
// return value. Two "connection owner" goroutines do what ouroboros.Connection does on each
// side (first protocol/muxer error or Close() => muxer.Stop()).
//
// Oracle: a sequential reference model of each protocol (written from the protocol
// description: acquire / auto-acquire / re-acquire / release, snapshot cursor, stateless
// submit and share requests) and a linearizability check: there must be an order of the
// calls, consistent with each caller's program order and with "returned before the other
// was issued" in the log, in which every call returns exactly what the model says that
// request returns. A value that no request of that kind can ever produce in the scenario is
// reported as a foreign reply.
package c25

import (
	"encoding/hex"
	"errors"
	"fmt"
	"net"
	"os"
	"sort"
	"strings"
	"testing"
	"time"

	"golang.org/x/crypto/blake2b"

	"github.com/blinklabs-io/gouroboros/connection"
	"github.com/blinklabs-io/gouroboros/ledger"
	"github.com/blinklabs-io/gouroboros/muxer"
	"github.com/blinklabs-io/gouroboros/protocol"
	"github.com/blinklabs-io/gouroboros/protocol/localstatequery"
	"github.com/blinklabs-io/gouroboros/protocol/localtxmonitor"
	"github.com/blinklabs-io/gouroboros/protocol/localtxsubmission"
	"github.com/blinklabs-io/gouroboros/protocol/peersharing"
	rt "github.com/blinklabs-io/gouroboros/verifrt"
	vtime "github.com/blinklabs-io/gouroboros/verifrt/vtime"
	"verif/e1/e1lib"
	"verif/e1/s2lib"
	"verif/space"
)

// ---- fixtures ------------------------------------------------------------------------------

// two minimal Shelley-era transactions [body, witness set, null] differing in the fee
func shelleyTx(fee uint64) (tx []byte, id []byte) {
	in := make([]byte, 32)
	for i := range in {
		in[i] = byte(i + 1)
	}
	addr := append([]byte{0x61}, make([]byte, 28)...)
	for i := 1; i < len(addr); i++ {
		addr[i] = byte(0xa0 + i)
	}
	body := space.M(
		space.U(0), space.A(space.A(space.B(in), space.U(0))),
		space.U(1), space.A(space.A(space.B(addr), space.U(2000000))),
		space.U(2), space.U(fee),
		space.U(3), space.U(500000),
	).Encode()
	tx = space.A(space.Raw(body), space.M(), space.Null()).Encode()
	h := blake2b.Sum256(body)
	return tx, h[:]
}

var (
	tx1, tx1id = shelleyTx(170000)
	tx2, _     = shelleyTx(180001)
	idY        = func() []byte { b := make([]byte, 32); b[0] = 0x99; return b }()
	txA        = []byte{0x81, 0x0a}
	txB        = []byte{0x81, 0x0b}
	txC        = []byte{0x81, 0x0c}
)

const shelleyEra = 1

func init() {
	for _, tx := range [][]byte{tx1, tx2} {
		t, err := ledger.NewTransactionFromCbor(shelleyEra, tx)
		if err != nil {
			panic("c25: fixture transaction does not parse: " + err.Error())
		}
		_ = t
	}
	t, _ := ledger.NewTransactionFromCbor(shelleyEra, tx1)
	if t.Hash().String() != hex.EncodeToString(tx1id) {
		panic("c25: fixture transaction id differs from blake2b-256 of its body")
	}
}

// mempool snapshot handed out by the n-th acquire
func mempool(n int) [][]byte {
	if n%2 == 1 {
		return [][]byte{tx1, tx2}
	}
	return [][]byte{tx2, tx1}
}

func errStr(err error) string { return "err:" + err.Error() }

func isErr(s string) bool { return strings.HasPrefix(s, "err:") }

// ---- the four protocols: real client + real server, tagging callbacks ----------------------

type endpoints struct {
	do         func(op string) string
	clientDone <-chan struct{}
	serverDone func() <-chan struct{}
}

type setupFunc func(co, so protocol.ProtocolOptions) endpoints

func setupLSQ(reacqWorkaround bool) setupFunc {
	return func(co, so protocol.ProtocolOptions) endpoints {
		n := 0 // acquisitions seen by the server callbacks (only the server's receive loop touches it)
		scfg := localstatequery.NewConfig(
			localstatequery.WithAcquireFunc(func(ctx localstatequery.CallbackContext, _ localstatequery.AcquireTarget, re bool) error {
				n++
				rt.Log("srv acquire %d re=%v", n, re)
				if re && reacqWorkaround {
					// the server object does not answer a re-acquire; an application can only
					// work around that by sending the reply from its callback
					return ctx.Server.SendMessage(localstatequery.NewMsgAcquired())
				}
				return nil
			}),
			localstatequery.WithQueryFunc(func(_ localstatequery.CallbackContext, q localstatequery.QueryWrapper) (any, error) {
				switch bq := q.Query.(type) {
				case *localstatequery.BlockQuery:
					switch sq := bq.Query.(type) {
					case *localstatequery.HardForkQuery:
						// current era: depends on the acquired point
						rt.Log("srv query era n=%d", n)
						return 10*n + 1, nil
					case *localstatequery.ShelleyQuery:
						// era-dependent query (epoch number): the answer names the era the query was built for
						rt.Log("srv query epoch era=%d n=%d", sq.Era, n)
						return []int{1000*int(sq.Era) + n}, nil
					}
				case *localstatequery.ChainBlockNoQuery:
					rt.Log("srv query blockno n=%d", n)
					return []int64{1, int64(10*n + 2)}, nil
				}
				return nil, fmt.Errorf("unexpected query %T", q.Query)
			}),
			localstatequery.WithReleaseFunc(func(localstatequery.CallbackContext) error {
				rt.Log("srv release")
				return nil
			}),
		)
		ccfg := localstatequery.NewConfig()
		server := localstatequery.NewServer(so, &scfg)
		client := localstatequery.NewClient(co, &ccfg)
		server.Start()
		client.Start()
		do := func(op string) string {
			switch op {
			case "acq":
				if err := client.AcquireVolatileTip(); err != nil {
					return errStr(err)
				}
				return "ok"
			case "rel":
				if err := client.Release(); err != nil {
					return errStr(err)
				}
				return "ok"
			case "qa":
				v, err := client.GetCurrentEra()
				if err != nil {
					return errStr(err)
				}
				return fmt.Sprintf("qa=%d", v)
			case "qb":
				v, err := client.GetChainBlockNo()
				if err != nil {
					return errStr(err)
				}
				return fmt.Sprintf("qb=%d", v)
			case "qe":
				v, err := client.GetEpochNo()
				if err != nil {
					return errStr(err)
				}
				return fmt.Sprintf("qe=%d", v)
			}
			panic(op)
		}
		return endpoints{do: do, clientDone: client.DoneChan(), serverDone: func() <-chan struct{} { return server.DoneChan() }}
	}
}

func setupTxMonitor() setupFunc {
	return func(co, so protocol.ProtocolOptions) endpoints {
		n := 0
		scfg := localtxmonitor.NewConfig(
			localtxmonitor.WithGetMempoolFunc(func(localtxmonitor.CallbackContext) (uint64, uint32, []localtxmonitor.TxAndEraId, error) {
				n++
				rt.Log("srv acquire %d", n)
				var txs []localtxmonitor.TxAndEraId
				for _, t := range mempool(n) {
					txs = append(txs, localtxmonitor.TxAndEraId{EraId: shelleyEra, Tx: t})
				}
				return uint64(n), uint32(1000 + n), txs, nil
			}),
		)
		ccfg := localtxmonitor.NewConfig()
		server := localtxmonitor.NewServer(so, &scfg)
		client := localtxmonitor.NewClient(co, &ccfg)
		server.Start()
		client.Start()
		do := func(op string) string {
			switch op {
			case "acq":
				if err := client.Acquire(); err != nil {
					return errStr(err)
				}
				return "ok"
			case "rel":
				if err := client.Release(); err != nil {
					return errStr(err)
				}
				return "ok"
			case "hasx", "hasy":
				id := tx1id
				if op == "hasy" {
					id = idY
				}
				v, err := client.HasTx(id)
				if err != nil {
					return errStr(err)
				}
				return fmt.Sprintf("has=%v", v)
			case "next":
				tx, err := client.NextTx()
				if err != nil {
					return errStr(err)
				}
				if len(tx) == 0 {
					return "next=empty"
				}
				return "next=" + s2lib.Sum(tx)
			case "sizes":
				c, s, k, err := client.GetSizes()
				if err != nil {
					return errStr(err)
				}
				return fmt.Sprintf("sizes=%d/%d/%d", c, s, k)
			}
			panic(op)
		}
		return endpoints{do: do, clientDone: client.DoneChan(), serverDone: func() <-chan struct{} { return server.DoneChan() }}
	}
}

func setupTxSubmission() setupFunc {
	return func(co, so protocol.ProtocolOptions) endpoints {
		scfg := localtxsubmission.NewConfig(
			localtxsubmission.WithSubmitTxFunc(func(_ localtxsubmission.CallbackContext, tx localtxsubmission.MsgSubmitTxTransaction) error {
				raw := []byte(tx.Raw.Content.([]byte))
				rt.Log("srv submit %x", raw)
				if len(raw) == 2 && raw[1] == 0x0a {
					return nil
				}
				return fmt.Errorf("rejected-%x", raw)
			}),
		)
		ccfg := localtxsubmission.NewConfig()
		server := localtxsubmission.NewServer(so, &scfg)
		client := localtxsubmission.NewClient(co, &ccfg)
		server.Start()
		client.Start()
		do := func(op string) string {
			tx := map[string][]byte{"suba": txA, "subb": txB, "subc": txC}[op]
			err := client.SubmitTx(shelleyEra, tx)
			if err == nil {
				return "accepted"
			}
			var rej localtxsubmission.TransactionRejectedError
			if errors.As(err, &rej) {
				if nd, perr := space.Parse(rej.ReasonCbor); perr == nil && nd.Major == 3 {
					return "rejected:" + string(nd.Bytes)
				}
				return fmt.Sprintf("rejected:%x", rej.ReasonCbor)
			}
			return errStr(err)
		}
		return endpoints{do: do, clientDone: client.DoneChan(), serverDone: func() <-chan struct{} { return server.DoneChan() }}
	}
}

func setupPeerSharing() setupFunc {
	return func(co, so protocol.ProtocolOptions) endpoints {
		scfg := peersharing.NewConfig(
			peersharing.WithShareRequestFunc(func(_ peersharing.CallbackContext, amount int) ([]peersharing.PeerAddress, error) {
				rt.Log("srv share %d", amount)
				var out []peersharing.PeerAddress
				for i := 1; i <= amount; i++ {
					out = append(out, peersharing.PeerAddress{IP: net.IPv4(10, 0, byte(amount), byte(i)), Port: uint16(1000*amount + i)})
				}
				return out, nil
			}),
		)
		ccfg := peersharing.NewConfig()
		server := peersharing.NewServer(so, &scfg)
		client := peersharing.NewClient(co, &ccfg)
		server.Start()
		client.Start()
		do := func(op string) string {
			amount := uint8(1)
			if op == "peers2" {
				amount = 2
			}
			peers, err := client.GetPeers(amount)
			if err != nil {
				return errStr(err)
			}
			var ports []string
			for _, p := range peers {
				ports = append(ports, fmt.Sprint(p.Port))
			}
			return "peers=" + strings.Join(ports, "+")
		}
		return endpoints{do: do, clientDone: client.DoneChan(), serverDone: func() <-chan struct{} { return server.ProtocolInstance().DoneChan() }}
	}
}

// ---- sequential reference model ------------------------------------------------------------

type model struct {
	proto    string
	reacqOK  bool // lsq: the harness callback answers re-acquires itself
	acquired bool
	n        int // acquisitions so far
	cursor   int
	dead     bool // the connection is known to be gone: every later call fails
	misuse   bool // a call the protocol does not allow in this state (release without acquire)
}

func sizesOf(n int) string {
	total := 0
	for _, t := range mempool(n) {
		total += len(t)
	}
	return fmt.Sprintf("sizes=%d/%d/%d", 1000+n, total, len(mempool(n)))
}

// expected applies op to the model and returns what that request returns.
func (m *model) expected(op string) string {
	autoAcquire := func() {
		if !m.acquired {
			m.n++
			m.acquired = true
			m.cursor = 0
		}
	}
	switch m.proto {
	case "lsq":
		switch op {
		case "acq":
			m.n++
			m.acquired = true
			return "ok"
		case "rel":
			if !m.acquired {
				m.misuse = true
			}
			m.acquired = false
			return "ok"
		case "qa":
			autoAcquire()
			return fmt.Sprintf("qa=%d", 10*m.n+1)
		case "qb":
			autoAcquire()
			return fmt.Sprintf("qb=%d", 10*m.n+2)
		case "qe":
			// era-dependent: built for the era of the currently acquired point (10n+1), answered in acquisition n
			autoAcquire()
			return fmt.Sprintf("qe=%d", 1000*(10*m.n+1)+m.n)
		}
	case "txmon":
		switch op {
		case "acq":
			m.n++
			m.acquired = true
			m.cursor = 0
			return "ok"
		case "rel":
			if !m.acquired {
				m.misuse = true
			}
			m.acquired = false
			return "ok"
		case "hasx":
			autoAcquire()
			return "has=true"
		case "hasy":
			autoAcquire()
			return "has=false"
		case "next":
			autoAcquire()
			pool := mempool(m.n)
			m.cursor++
			if m.cursor-1 < len(pool) {
				return "next=" + s2lib.Sum(pool[m.cursor-1])
			}
			return "next=empty"
		case "sizes":
			autoAcquire()
			return sizesOf(m.n)
		}
	case "txsub":
		switch op {
		case "suba":
			return "accepted"
		case "subb":
			return "rejected:rejected-810b"
		case "subc":
			return "rejected:rejected-810c"
		}
	case "peers":
		switch op {
		case "peers1":
			return "peers=1001"
		case "peers2":
			return "peers=2001+2002"
		}
	}
	panic("model: " + m.proto + " " + op)
}

// accept reports whether obs is what op may return in the current state, and advances the state.
func (m *model) accept(op, obs string) bool {
	if m.dead {
		return isErr(obs)
	}
	if m.proto == "lsq" && op == "acq" && m.acquired && !m.reacqOK && isErr(obs) {
		// the repository's server object never answers a re-acquire: the call fails when the
		// acquire timeout shuts the connection down (a server that does answer is accepted too)
		m.dead = true
		return true
	}
	return m.expected(op) == obs
}

// ---- scenarios -----------------------------------------------------------------------------

type params struct {
	proto string
	reacq bool // lsq only: re-acquire workaround in the server callback
	seqs  [][]string
}

func (p params) name() string {
	var parts []string
	for _, s := range p.seqs {
		parts = append(parts, strings.Join(s, ","))
	}
	n := p.proto
	if p.reacq {
		n += "+reacq"
	}
	return n + "|" + strings.Join(parts, " || ")
}

func (p params) newModel() *model { return &model{proto: p.proto, reacqOK: p.reacq} }

// interleavings calls f with every merge of the callers' sequences (as (caller, index) pairs).
func interleavings(seqs [][]string, f func(order [][2]int)) {
	pos := make([]int, len(seqs))
	var cur [][2]int
	var rec func()
	rec = func() {
		done := true
		for c := range seqs {
			if pos[c] < len(seqs[c]) {
				done = false
				cur = append(cur, [2]int{c, pos[c]})
				pos[c]++
				rec()
				pos[c]--
				cur = cur[:len(cur)-1]
			}
		}
		if done {
			f(cur)
		}
	}
	rec()
}

// analyse: does some interleaving misuse the protocol; which results can each op produce at all
func (p params) analyse() (misuse bool, possible map[string]map[string]bool) {
	possible = map[string]map[string]bool{}
	interleavings(p.seqs, func(order [][2]int) {
		m := p.newModel()
		for _, o := range order {
			op := p.seqs[o[0]][o[1]]
			res := m.expected(op)
			if possible[op] == nil {
				possible[op] = map[string]bool{}
			}
			possible[op][res] = true
		}
		if m.misuse {
			misuse = true
		}
	})
	return
}

var setups = map[string]func(p params) setupFunc{
	"lsq":   func(p params) setupFunc { return setupLSQ(p.reacq) },
	"txmon": func(params) setupFunc { return setupTxMonitor() },
	"txsub": func(params) setupFunc { return setupTxSubmission() },
	"peers": func(params) setupFunc { return setupPeerSharing() },
}

func scenario(p params) e1lib.Scenario {
	_, possible := p.analyse()
	mode := protocol.ProtocolModeNodeToClient
	if p.proto == "peers" {
		mode = protocol.ProtocolModeNodeToNode
	}
	total := 0
	for _, s := range p.seqs {
		total += len(s)
	}
	body := func() {
		a, b := rt.ConnPair("client", "server")
		mc, ms := muxer.New(a), muxer.New(b)
		errsC, errsS := make(chan error, 10), make(chan error, 10)
		co := protocol.ProtocolOptions{
			ConnectionId: connection.ConnectionId{LocalAddr: a.LocalAddr(), RemoteAddr: a.RemoteAddr()},
			Muxer:        mc, ErrorChan: errsC, Mode: mode, Role: protocol.ProtocolRoleClient,
			Version: protocol.ProtocolVersionNtCOffset + 16,
		}
		so := protocol.ProtocolOptions{
			ConnectionId: connection.ConnectionId{LocalAddr: b.LocalAddr(), RemoteAddr: b.RemoteAddr()},
			Muxer:        ms, ErrorChan: errsS, Mode: mode, Role: protocol.ProtocolRoleServer,
			Version: protocol.ProtocolVersionNtCOffset + 16,
		}
		ep := setups[p.proto](p)(co, so)
		mc.SetDiffusionMode(muxer.DiffusionModeInitiator)
		ms.SetDiffusionMode(muxer.DiffusionModeResponder)
		mc.Start()
		ms.Start()

		// one connection owner per side (connection.go: error forwarding goroutines + Close/shutdown)
		connClose := make(chan struct{})
		owner := func(side string, closeReq <-chan struct{}, errs chan error, m *muxer.Muxer, closed chan struct{}) {
			s := rt.NewSel("owner:"+side, false)
			rt.SelRecvCase(s, closeReq)
			rt.SelRecvCase(s, errs)
			rt.SelRecvCase(s, m.ErrorChan())
			switch s.Choose() {
			case 0:
				rt.Log("%s conn closed by application", side)
			case 1:
				rt.Log("%s conn error protocol: %v", side, rt.SelVal(s, errs))
			case 2:
				if e, ok := rt.SelVal2(s, m.ErrorChan()); ok {
					rt.Log("%s conn error muxer: %v", side, e)
				}
			}
			m.Stop()
			for range rt.Range("owner:drain:"+side, m.ErrorChan()) {
			}
			rt.Close("owner:closed:"+side, closed)
		}
		closedC, closedS := make(chan struct{}), make(chan struct{})
		rt.Go("ownerC", func() { owner("client", connClose, errsC, mc, closedC) })
		rt.Go("ownerS", func() { owner("server", nil, errsS, ms, closedS) })

		allDone := make(chan struct{}, len(p.seqs))
		for ci, seq := range p.seqs {
			ci, seq := ci, seq
			rt.Go(fmt.Sprintf("caller%c", 'A'+ci), func() {
				for k, op := range seq {
					rt.Log("%c%d call %s", 'A'+ci, k, op)
					res := ep.do(op)
					rt.Log("%c%d ret %s", 'A'+ci, k, res)
				}
				rt.Send("h:callerDone", allDone, struct{}{})
			})
		}
		// every timeout involved is <= 180 s (lsq query), the muxer's idle read timeout 120 s
		deadline := vtime.After(600 * time.Second)
		finished := 0
		for finished < len(p.seqs) {
			s := rt.NewSel("main:wait", false)
			rt.SelRecvCase(s, allDone)
			rt.SelRecvCase(s, deadline)
			if s.Choose() == 1 {
				rt.Log("hang")
				break
			}
			finished++
		}
		rt.Close("main:connClose", connClose) // the application closes the connection
		rt.Recv("main:closedC", closedC)
		rt.Recv("main:closedS", closedS)
		if finished < len(p.seqs) {
			return
		}
		rt.Recv("main:clientDone", ep.clientDone)
		rt.Recv("main:serverDone", ep.serverDone())
		rt.Log("end")
	}
	check := func(r *rt.Result) []rt.Finding {
		return oracle(p, possible, total, r)
	}
	return e1lib.Scenario{Name: p.name(), Body: body, Check: check, Cfg: rt.Config{Horizon: time.Hour}}
}

type callRec struct {
	caller, idx    int
	op, res        string
	callAt, retAt  int
	returned, seen bool
}

func oracle(p params, possible map[string]map[string]bool, total int, r *rt.Result) []rt.Finding {
	logs := strings.Join(r.Logs, " | ")
	fail := func(key, what string) []rt.Finding {
		return []rt.Finding{{Key: key, What: what + " :: " + logs}}
	}
	recs := make([][]callRec, len(p.seqs))
	for c := range p.seqs {
		recs[c] = make([]callRec, len(p.seqs[c]))
	}
	hang, ended := false, false
	for i, l := range r.Logs {
		if l == "hang" {
			hang = true
		}
		if l == "end" {
			ended = true
		}
		if len(l) < 4 || l[0] < 'A' || l[0] > 'D' || l[1] < '0' || l[1] > '9' || l[2] != ' ' {
			continue
		}
		c, k := int(l[0]-'A'), int(l[1]-'0')
		if c >= len(recs) || k >= len(recs[c]) {
			continue
		}
		rec := &recs[c][k]
		rest := l[3:]
		switch {
		case strings.HasPrefix(rest, "call "):
			rec.caller, rec.idx, rec.op, rec.callAt, rec.seen = c, k, rest[5:], i, true
		case strings.HasPrefix(rest, "ret "):
			rec.res, rec.retAt, rec.returned = rest[4:], i, true
		}
	}
	if r.Verdict.Kind == "panic" {
		return fail("panic:"+strings.SplitN(r.Verdict.Detail, "\n", 2)[0], r.Verdict.Detail)
	}
	// 1. a value that no request of that kind can produce anywhere in this scenario
	for c := range recs {
		for _, rec := range recs[c] {
			if rec.returned && !isErr(rec.res) && !possible[rec.op][rec.res] {
				var can []string
				for k := range possible[rec.op] {
					can = append(can, k)
				}
				sort.Strings(can)
				return fail("foreign-reply:"+rec.op, fmt.Sprintf("call %c%d %s returned %q; that request can only return one of %v", 'A'+c, rec.idx, rec.op, rec.res, can))
			}
		}
	}
	// 2. linearizability of the returned calls against the sequential model
	pos := make([]int, len(recs))
	var search func(m *model) bool
	search = func(m *model) bool {
		progressed := false
		for c := range recs {
			if pos[c] >= len(recs[c]) || !recs[c][pos[c]].returned {
				continue
			}
			x := recs[c][pos[c]]
			// x may come next only if no other pending call returned before x was issued
			ok := true
			for d := range recs {
				if d != c && pos[d] < len(recs[d]) && recs[d][pos[d]].returned && recs[d][pos[d]].retAt < x.callAt {
					ok = false
				}
			}
			if !ok {
				continue
			}
			progressed = true
			m2 := *m
			if m2.accept(x.op, x.res) {
				pos[c]++
				if search(&m2) {
					pos[c]--
					return true
				}
				pos[c]--
			}
		}
		if progressed {
			return false
		}
		// nothing left that returned
		for c := range recs {
			if pos[c] < len(recs[c]) && recs[c][pos[c]].returned {
				return false
			}
		}
		return true
	}
	if !search(p.newModel()) {
		var vals []string
		hasErr := false
		for c := range recs {
			for _, rec := range recs[c] {
				if rec.returned {
					vals = append(vals, fmt.Sprintf("%c%d %s=>%s", 'A'+c, rec.idx, rec.op, rec.res))
					hasErr = hasErr || isErr(rec.res)
				}
			}
		}
		// no reply mixed up, but a call failed for no modelled reason: own key
		if hasErr && searchIgnoringErrors(p, recs) {
			return fail("unexpected-error", "the successful replies are consistent, but a call failed although nothing went wrong on the connection: "+strings.Join(vals, "; "))
		}
		return fail("replies-not-own", "no order of the calls gives every call the reply to its own request: "+strings.Join(vals, "; "))
	}
	if hang {
		// "each call returns the reply to the request it sent": a call that never returns does not
		// (the replies that did arrive were checked above)
		return fail("no-reply:hang", "a call did not return within 600 s although every timeout involved is <= 180 s: "+strings.Join(r.Verdict.Stuck, "; "))
	}
	if r.Verdict.Kind != "ok" || !ended {
		return fail("verdict:"+r.Verdict.Kind, r.Verdict.Detail+" "+strings.Join(r.Verdict.Stuck, "; "))
	}
	return nil
}

// searchIgnoringErrors: linearizability where a failed call is allowed anywhere (it still
// occupies its place in program order but does not change the model).
func searchIgnoringErrors(p params, recs [][]callRec) bool {
	pos := make([]int, len(recs))
	var search func(m *model) bool
	search = func(m *model) bool {
		progressed := false
		for c := range recs {
			if pos[c] >= len(recs[c]) || !recs[c][pos[c]].returned {
				continue
			}
			x := recs[c][pos[c]]
			ok := true
			for d := range recs {
				if d != c && pos[d] < len(recs[d]) && recs[d][pos[d]].returned && recs[d][pos[d]].retAt < x.callAt {
					ok = false
				}
			}
			if !ok {
				continue
			}
			progressed = true
			m2 := *m
			if isErr(x.res) || m2.accept(x.op, x.res) {
				pos[c]++
				if search(&m2) {
					pos[c]--
					return true
				}
				pos[c]--
			}
		}
		if progressed {
			return false
		}
		for c := range recs {
			if pos[c] < len(recs[c]) && recs[c][pos[c]].returned {
				return false
			}
		}
		return true
	}
	return search(p.newModel())
}

// ---- enumeration ---------------------------------------------------------------------------

var alphabets = map[string][]string{
	"lsq":   {"acq", "qa", "qb", "rel"},
	"txmon": {"acq", "hasx", "hasy", "next", "sizes", "rel"},
	"txsub": {"suba", "subb", "subc"},
	"peers": {"peers1", "peers2"},
}

func seqsOf(alpha []string, n int) [][]string {
	if n == 0 {
		return [][]string{nil}
	}
	var out [][]string
	for _, s := range seqsOf(alpha, n-1) {
		for _, a := range alpha {
			out = append(out, append(append([]string(nil), s...), a))
		}
	}
	return out
}

// shapes returns all scenarios of a protocol with caller A issuing la calls and caller B lb
// calls (unordered when la == lb), without protocol misuse in any interleaving.
func shapes(proto string, reacq bool, la, lb int) []params {
	var out []params
	sa, sb := seqsOf(alphabets[proto], la), seqsOf(alphabets[proto], lb)
	for i, x := range sa {
		for j, y := range sb {
			if la == lb && j < i {
				continue
			}
			p := params{proto: proto, reacq: reacq, seqs: [][]string{x}}
			if lb > 0 {
				p.seqs = append(p.seqs, y)
			}
			if mis, _ := p.analyse(); mis {
				continue
			}
			out = append(out, p)
		}
	}
	return out
}

// hasReacquire: some interleaving issues an explicit acquire while already acquired
func (p params) hasReacquire() bool {
	found := false
	interleavings(p.seqs, func(order [][2]int) {
		m := p.newModel()
		for _, o := range order {
			op := p.seqs[o[0]][o[1]]
			if op == "acq" && m.acquired {
				found = true
			}
			m.expected(op)
		}
	})
	return found
}

func only(ps []params, alpha ...string) []params {
	ok := map[string]bool{}
	for _, a := range alpha {
		ok[a] = true
	}
	var out []params
	for _, p := range ps {
		keep := true
		for _, s := range p.seqs {
			for _, op := range s {
				if !ok[op] {
					keep = false
				}
			}
		}
		if keep {
			out = append(out, p)
		}
	}
	return out
}

func TestC25(t *testing.T) {
	e1lib.Main(t, "C25", func(thorough bool) []e1lib.Scenario {
		var scs []e1lib.Scenario
		seen := map[string]bool{}
		add := func(ps []params, minB, maxB int, budget time.Duration) {
			for _, p := range ps {
				s := scenario(p)
				if seen[s.Name] {
					continue
				}
				seen[s.Name] = true
				s.MinB, s.MaxB, s.Budget = minB, maxB, budget
				scs = append(scs, s)
			}
		}
		// local-state-query scenarios with an explicit re-acquire exist twice: against the server
		// object as it is (it never answers a re-acquire: the call fails), and with the
		// callback-level workaround (name suffix +reacq) so that the client's re-acquire path is exercised
		withReacq := func(ps []params) []params {
			out := append([]params(nil), ps...)
			for _, p := range ps {
				if p.proto == "lsq" && p.hasReacquire() {
					q := p
					q.reacq = true
					out = append(out, q)
				}
			}
			return out
		}
		// budgets are ceilings for a heavily loaded machine (bound 1 needs ~1300 executions, 2-4 s unloaded)
		if thorough {
			// <=2 deviations: two concurrent callers, one call each, on a structurally distinct subset
			pair := func(proto, x, y string) params { return params{proto: proto, seqs: [][]string{{x}, {y}}} }
			add([]params{
				pair("peers", "peers1", "peers2"), pair("peers", "peers2", "peers2"),
				pair("txsub", "suba", "subb"), pair("txsub", "subb", "subc"),
				pair("lsq", "acq", "qa"), pair("lsq", "qa", "qb"),
				pair("txmon", "hasx", "next"), pair("txmon", "next", "sizes"),
			}, 1, 2, 12*time.Minute)
		}
		// local-state-query history family: acquire / query / re-acquire / query / release / acquire / query,
		// the era (and every tag) changing with the acquired point; qe = an era-dependent query (GetEpochNo)
		hist := func(reacq bool, seqs ...string) params {
			p := params{proto: "lsq", reacq: reacq}
			for _, s := range seqs {
				p.seqs = append(p.seqs, strings.Split(s, ","))
			}
			return p
		}
		add([]params{
			hist(true, "acq,qa,acq,qa"),
			hist(true, "acq,qe,acq,qe"),
			hist(false, "acq,qa,rel,acq,qa"),
			hist(false, "qe,rel,qe"),
			hist(true, "acq,qa,acq,qa,rel,acq,qa"),
			hist(true, "acq,qe,acq,qb,rel,acq,qe"),
			hist(true, "acq,qa", "acq,qa"),
			hist(true, "acq,qe", "acq,qe"),
		}, 1, 1, 5*time.Minute)
		for _, proto := range []string{"lsq", "txmon", "txsub", "peers"} {
			// two callers x one call each; one caller x two successive calls: <=1 deviation
			add(withReacq(shapes(proto, false, 1, 1)), 1, 1, 5*time.Minute)
			add(withReacq(shapes(proto, false, 2, 0)), 1, 1, 5*time.Minute)
		}
		if thorough {
			// 2 x 1 calls, <=1 deviation: complete except that local-tx-monitor leaves out has-tx y
			// (same path as has-tx x) and get-sizes in the two-call sequence; those run on the canonical schedule only
			add(shapes("peers", false, 2, 1), 1, 1, 5*time.Minute)
			add(shapes("txsub", false, 2, 1), 1, 1, 5*time.Minute)
			add(withReacq(shapes("lsq", false, 2, 1)), 1, 1, 5*time.Minute)
			add(only(shapes("txmon", false, 2, 1), "acq", "hasx", "next", "rel"), 1, 1, 5*time.Minute)
			add(shapes("txmon", false, 2, 1), 0, 0, time.Minute)
			// 2 x 2 calls, <=1 deviation over {get-peers 1/2}, {submit a/b}, {acquire, query_a, release},
			// {acquire, next-tx, release}; every other 2 x 2 scenario on the canonical schedule only
			add(shapes("peers", false, 2, 2), 1, 1, 5*time.Minute)
			add(only(shapes("txsub", false, 2, 2), "suba", "subb"), 1, 1, 5*time.Minute)
			add(withReacq(only(shapes("lsq", false, 2, 2), "acq", "qa", "rel")), 1, 1, 5*time.Minute)
			add(only(shapes("txmon", false, 2, 2), "acq", "next", "rel"), 1, 1, 5*time.Minute)
			add(shapes("txsub", false, 2, 2), 0, 0, time.Minute)
			add(withReacq(shapes("lsq", false, 2, 2)), 0, 0, time.Minute)
			add(shapes("txmon", false, 2, 2), 0, 0, time.Minute)
		}
		// the expensive (bound 2) scenarios are spread over the list so that the worker batches
		// (consecutive scenarios) get at most one of them each
		var heavy, light []e1lib.Scenario
		for _, s := range scs {
			if s.MaxB >= 2 {
				heavy = append(heavy, s)
			} else {
				light = append(light, s)
			}
		}
		if len(heavy) > 0 {
			stride := len(scs) / len(heavy)
			scs = scs[:0]
			for i := 0; len(heavy)+len(light) > 0; i++ {
				if len(heavy) > 0 && (i%stride == 0 || len(light) == 0) {
					scs = append(scs, heavy[0])
					heavy = heavy[1:]
				} else {
					scs = append(scs, light[0])
					light = light[1:]
				}
			}
		}
		if os.Getenv("C25_COUNT") != "" && os.Getenv("VERIF_SHARD") == "" {
			byB := map[int]int{}
			for _, s := range scs {
				byB[s.MaxB]++
			}
			fmt.Fprintf(os.Stderr, "C25: %d scenarios, by max bound %v\n", len(scs), byB)
		}
		return scs
	})
}
