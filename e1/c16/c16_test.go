// C16: mini-protocol state machines match the network specification.
//
// Engine E3: explicit-state product search over (implementation state, specification
// state) pairs. Every implementation transition is taken by the REAL Protocol.nextState
// (through the overlay probe VerifNextState) on the REAL ProtocolConfig that the package's
// NewClient/NewServer built; the specification automata are the independent tables of
// verif/e1/protos (DESIGN.md Appendix A). The comparison is on the LANGUAGE (accept/reject,
// agency, termination in every reachable pair), never on state names or numbers.
package c16

import (
	"encoding/json"
	"fmt"
	"os"
	"sort"
	"strings"
	"testing"

	"github.com/blinklabs-io/gouroboros/protocol"
	"verif/e1/protos"
	"verif/vlib"
)

const stateCap = 200000 // safety cap per search; the real products have < 1100 states

// letter is an alphabet message plus its decoded twin (what the receive path would hand to
// nextState after encode -> MessageFromCborFunc).
type letter struct {
	protos.Msg
	dec    protocol.Message // nil if the round trip failed or the message is the unknown one
	rtErr  error
	wire   []byte
	rtDone bool
}

type finding struct {
	key, what string
	replay    map[string]any
}

type report struct {
	findings []finding
	seen     map[string]bool
}

func (r *report) add(key, what string, replay map[string]any) {
	if r.seen == nil {
		r.seen = map[string]bool{}
	}
	if r.seen[key] {
		return
	}
	r.seen[key] = true
	r.findings = append(r.findings, finding{key, what, replay})
}

func letters(p *protos.Proto) []*letter {
	var out []*letter
	for _, m := range p.Alphabet {
		out = append(out, &letter{Msg: m})
	}
	return out
}

// roundtrip lazily encodes/decodes a letter with the configuration's codec.
func (l *letter) roundtrip(p *protos.Proto) {
	if l.rtDone || l.Unknown {
		return
	}
	l.rtDone = true
	dec, wire, err := p.Roundtrip(l.Msg.Msg)
	l.wire = wire
	if err != nil {
		l.rtErr = err
		return
	}
	l.dec = dec
}

// ---------------------------------------------------------------------------------------
// implementation-only exploration: spec-independent obligations
// ---------------------------------------------------------------------------------------

type implNode struct {
	st     protos.ImplState
	parent int
	via    string
}

type implResult struct {
	nodes    []implNode
	edges    int64
	accepted int64
	reached  map[protocol.State]bool
	rtOK     int
	capped   bool
}

func traceOf(nodes []implNode, i int) []string {
	var rev []string
	for i > 0 {
		rev = append(rev, nodes[i].via)
		i = nodes[i].parent
	}
	out := make([]string, len(rev))
	for k := range rev {
		out[k] = rev[len(rev)-1-k]
	}
	return out
}

func exploreImpl(c *vlib.Check, p *protos.Proto, ls []*letter, rep *report) implResult {
	id := p.ID()
	res := implResult{reached: map[protocol.State]bool{}}
	sm := p.Config.StateMap

	// static well-formedness of the state map the constructor produced
	if _, ok := sm[p.Config.InitialState]; !ok {
		rep.add(fmt.Sprintf("%s|%s|-|initial-state-not-in-state-map", id, p.Config.InitialState.Name),
			"the configured initial state is not a key of the state map", map[string]any{"proto": id})
	}
	known := map[uint8]bool{}
	for _, l := range ls {
		if !l.Unknown {
			known[l.Msg.Msg.Type()] = true
		}
	}
	for _, s := range p.States() {
		e := sm[s]
		if e.Agency == protocol.AgencyNone && len(e.Transitions) > 0 {
			rep.add(fmt.Sprintf("%s|%s|-|terminal-state-has-transitions", id, s.Name),
				"a state in which nobody has agency lists transitions", map[string]any{"proto": id})
		}
		if e.Agency != protocol.AgencyNone && len(e.Transitions) == 0 {
			rep.add(fmt.Sprintf("%s|%s|-|non-terminal-state-without-transitions", id, s.Name),
				"a state with agency has no way out", map[string]any{"proto": id})
		}
		for _, tr := range e.Transitions {
			if tr.MsgType == protos.UnknownType {
				c.Internal("%s uses message type %#x which the harness reserves for the unknown message", id, tr.MsgType)
			}
			if !known[tr.MsgType] {
				c.Internal("%s: state %s accepts message type %d for which the catalogue verif/e1/protos has no letter; "+
					"extend the alphabet (and the specification table if the specification defines it)", id, s.Name, tr.MsgType)
			}
		}
	}

	init := p.Initial()
	index := map[protos.ImplState]int{init: 0}
	res.nodes = append(res.nodes, implNode{st: init, parent: -1})
	res.reached[init.State] = true
	// message type -> agencies of the states that accept it
	typeAgency := map[uint8]map[protos.Agency]string{}
	acceptedSomewhere := map[string]bool{}

	for qi := 0; qi < len(res.nodes); qi++ {
		cur := res.nodes[qi].st
		ag, _ := p.AgencyOf(cur.State)
		for _, l := range ls {
			res.edges++
			next, ctxAfter, err := p.Step(cur, l.Msg.Msg)
			key := func(kind string) string { return fmt.Sprintf("%s|%s|%s|%s", id, cur, l.Spec, kind) }
			rp := func() map[string]any {
				return map[string]any{"proto": id, "trace": traceOf(res.nodes, qi), "message": l.Label}
			}
			// determinism: evaluate every transition, not only the first match
			succ := p.Matching(cur, l.Msg.Msg)
			distinct := map[protos.ImplState]bool{}
			for _, s := range succ {
				distinct[s] = true
			}
			if len(distinct) > 1 {
				var names []string
				for s := range distinct {
					names = append(names, s.String())
				}
				sort.Strings(names)
				rep.add(key("nondeterministic"), fmt.Sprintf("after %v the message %s matches %d transitions with different successors %v; nextState silently takes the first",
					traceOf(res.nodes, qi), l.Label, len(succ), names), rp())
			}
			if (err == nil) != (len(succ) > 0) {
				c.Internal("%s: harness re-evaluation of the transitions disagrees with nextState in %s on %s", id, cur, l.Label)
			}
			if err != nil {
				if ctxAfter != cur.Ctx {
					rep.add(key("reject-mutates-context"), fmt.Sprintf("after %v the message %s is rejected but the StateContext changed", traceOf(res.nodes, qi), l.Label), rp())
				}
				c.Eval("", "impl:reject")
				continue
			}
			res.accepted++
			c.Eval(id+"|"+cur.State.Name+"|"+l.Label, "impl:accept")
			acceptedSomewhere[l.Label] = true
			if typeAgency[l.Msg.Msg.Type()] == nil {
				typeAgency[l.Msg.Msg.Type()] = map[protos.Agency]string{}
			}
			typeAgency[l.Msg.Msg.Type()][ag] = cur.State.Name
			if _, ok := sm[next.State]; !ok {
				rep.add(key("successor-not-in-state-map"), fmt.Sprintf("after %v the message %s leads to state %s which is not a key of the state map (it would be treated as terminal)",
					traceOf(res.nodes, qi), l.Label, next.State.Name), rp())
			}
			// the decoded twin must take the same transition: the engine only ever sees decoded messages on receive
			l.roundtrip(p)
			if l.dec != nil {
				n2, _, err2 := p.Step(cur, l.dec)
				if err2 != nil || n2 != next {
					rep.add(key("codec-changes-transition"), fmt.Sprintf("after %v the constructed %s leads to %s but the same message after encode/decode leads to %v (err=%v)",
						traceOf(res.nodes, qi), l.Label, next, n2, err2), rp())
				}
			}
			if _, ok := index[next]; !ok {
				if len(res.nodes) >= stateCap {
					res.capped = true
					continue
				}
				index[next] = len(res.nodes)
				res.nodes = append(res.nodes, implNode{st: next, parent: qi, via: l.Label})
				res.reached[next.State] = true
			}
		}
	}
	p.Restore(init.Ctx)

	// every message the machine accepts somewhere must survive the codec
	for _, l := range ls {
		if !acceptedSomewhere[l.Label] {
			continue
		}
		l.roundtrip(p)
		if l.rtErr != nil {
			rep.add(fmt.Sprintf("%s|-|%s|codec-roundtrip", id, l.Spec),
				fmt.Sprintf("message %s is accepted by the state machine but does not round-trip through the protocol's codec: %v (wire %s)", l.Label, l.rtErr, vlib.Hex(l.wire)),
				map[string]any{"proto": id, "message": l.Label, "wire": vlib.Hex(l.wire)})
		} else {
			res.rtOK++
		}
	}
	// agency consistency: one message type is sent by one side only
	for typ, m := range typeAgency {
		if len(m) > 1 {
			var parts []string
			for a, s := range m {
				parts = append(parts, fmt.Sprintf("%s in %s", a, s))
			}
			sort.Strings(parts)
			if p.Name == "handshake" && typ == 0 {
				continue // ProposeVersions/ReplyVersions share a wire tag by specification
			}
			rep.add(fmt.Sprintf("%s|-|type=%d|message-accepted-under-both-agencies", id, typ),
				"one message type is accepted in states of different agency: "+strings.Join(parts, ", "), map[string]any{"proto": id})
		}
	}
	// all implementation states reachable
	if !res.capped {
		for _, s := range p.States() {
			if !res.reached[s] {
				rep.add(fmt.Sprintf("%s|%s|-|unreachable-state", id, s.Name),
					"state "+s.Name+" of the state map cannot be reached from the initial state by any message sequence", map[string]any{"proto": id})
			}
		}
	}
	return res
}

// ---------------------------------------------------------------------------------------
// product search implementation x specification
// ---------------------------------------------------------------------------------------

type pair struct {
	impl protos.ImplState
	spec string
}

type prodNode struct {
	pr     pair
	parent int
	via    string
}

type prodResult struct {
	spec     *protos.SpecAutomaton
	nodes    []prodNode
	edges    int64
	outcomes map[string]int64
	rep      report
	capped   bool
}

func (r *prodResult) trace(i int) []string {
	var rev []string
	for i > 0 {
		rev = append(rev, r.nodes[i].via)
		i = r.nodes[i].parent
	}
	out := make([]string, len(rev))
	for k := range rev {
		out[k] = rev[len(rev)-1-k]
	}
	return out
}

func product(p *protos.Proto, sp *protos.SpecAutomaton, ls []*letter) *prodResult {
	id := p.ID()
	res := &prodResult{spec: sp, outcomes: map[string]int64{}}
	init := pair{p.Initial(), sp.Initial}
	index := map[pair]int{init: 0}
	res.nodes = append(res.nodes, prodNode{pr: init, parent: -1})
	for qi := 0; qi < len(res.nodes); qi++ {
		cur := res.nodes[qi].pr
		var trc []string
		trf := func() []string {
			if trc == nil {
				trc = res.trace(qi)
			}
			return trc
		}
		pairName := cur.impl.String() + "×" + cur.spec
		rp := func(l string) map[string]any {
			return map[string]any{"proto": id, "spec": sp.Name, "reading": sp.Reading, "trace": trf(), "message": l}
		}
		// agency and termination of the pair
		ia, _ := p.AgencyOf(cur.impl.State)
		sa := sp.AgencyOf(cur.spec)
		if ia != sa {
			kind := "agency"
			if ia == protos.Nobody || sa == protos.Nobody {
				kind = "terminal"
			}
			res.rep.add(fmt.Sprintf("%s|%s|-|%s", id, pairName, kind),
				fmt.Sprintf("after %v the implementation is in %s (agency %s) while the specification is in %s (agency %s)", trf(), cur.impl, ia, cur.spec, sa), rp("-"))
		}
		for _, l := range ls {
			res.edges++
			inext, _, ierr := p.Step(cur.impl, l.Msg.Msg)
			snext, sok, sopt := "", false, false
			if !l.Unknown {
				snext, sok, sopt = sp.Step(cur.spec, l.Spec)
			}
			switch {
			case ierr == nil && sok:
				res.outcomes["both-accept"]++
				np := pair{inext, snext}
				if _, ok := index[np]; !ok {
					if len(res.nodes) >= stateCap {
						res.capped = true
						continue
					}
					index[np] = len(res.nodes)
					res.nodes = append(res.nodes, prodNode{pr: np, parent: qi, via: l.Label})
				}
			case ierr != nil && !sok:
				res.outcomes["both-reject"]++
			case ierr != nil && sok && sopt:
				res.outcomes["impl-rejects-optional-message"]++
			case ierr != nil && sok:
				res.outcomes["impl-rejects-spec-accepts"]++
				res.rep.add(fmt.Sprintf("%s|%s|%s|impl-rejects-spec-accepts", id, pairName, l.Spec),
					fmt.Sprintf("after %v (implementation in %s, specification %s in %s) the specification permits %s -> %s but the implementation rejects it: %v",
						trf(), cur.impl, sp.Name, cur.spec, l.Label, snext, ierr), rp(l.Label))
			default: // implementation accepts, specification does not
				res.outcomes["impl-accepts-spec-rejects"]++
				res.rep.add(fmt.Sprintf("%s|%s|%s|impl-accepts-spec-rejects", id, pairName, l.Spec),
					fmt.Sprintf("after %v (implementation in %s, specification %s in %s) the implementation accepts %s -> %s but the specification does not permit that message in %s",
						trf(), cur.impl, sp.Name, cur.spec, l.Label, inext, cur.spec), rp(l.Label))
			}
		}
	}
	p.Restore(res.nodes[0].pr.impl.Ctx)
	return res
}

// ---------------------------------------------------------------------------------------
// client vs server of one protocol: same transition relation
// ---------------------------------------------------------------------------------------

type csPair struct{ c, s protos.ImplState }

func clientServer(cl, sv *protos.Proto, rep *report) (pairs int, edges int64) {
	fam := cl.Family()
	type node struct {
		pr     csPair
		parent int
		via    string
	}
	init := csPair{cl.Initial(), sv.Initial()}
	nodes := []node{{pr: init, parent: -1}}
	index := map[csPair]int{init: 0}
	trace := func(i int) []string {
		var rev []string
		for i > 0 {
			rev = append(rev, nodes[i].via)
			i = nodes[i].parent
		}
		out := make([]string, len(rev))
		for k := range rev {
			out[k] = rev[len(rev)-1-k]
		}
		return out
	}
	// the two alphabets are built by the same function; letters are paired by position
	if len(cl.Alphabet) != len(sv.Alphabet) {
		return 0, 0
	}
	for qi := 0; qi < len(nodes) && len(nodes) < stateCap; qi++ {
		cur := nodes[qi].pr
		ca, _ := cl.AgencyOf(cur.c.State)
		sa, _ := sv.AgencyOf(cur.s.State)
		name := cur.c.String() + "×" + cur.s.String()
		if ca != sa {
			rep.add(fmt.Sprintf("%s/client~server|%s|-|agency", fam, name),
				fmt.Sprintf("after %v the client's state map gives agency %s, the server's %s", trace(qi), ca, sa), map[string]any{"family": fam, "trace": trace(qi)})
		}
		for i := range cl.Alphabet {
			edges++
			cn, _, cerr := cl.Step(cur.c, cl.Alphabet[i].Msg)
			sn, _, serr := sv.Step(cur.s, sv.Alphabet[i].Msg)
			if (cerr == nil) != (serr == nil) {
				rep.add(fmt.Sprintf("%s/client~server|%s|%s|accept-differs", fam, name, cl.Alphabet[i].Spec),
					fmt.Sprintf("after %v message %s: client object says %v, server object says %v", trace(qi), cl.Alphabet[i].Label, errStr(cerr), errStr(serr)),
					map[string]any{"family": fam, "trace": trace(qi), "message": cl.Alphabet[i].Label})
				continue
			}
			if cerr != nil {
				continue
			}
			np := csPair{cn, sn}
			if _, ok := index[np]; !ok {
				index[np] = len(nodes)
				nodes = append(nodes, node{pr: np, parent: qi, via: cl.Alphabet[i].Label})
			}
		}
	}
	cl.Restore(init.c.Ctx)
	sv.Restore(init.s.Ctx)
	return len(nodes), edges
}

func errStr(e error) string {
	if e == nil {
		return "accept"
	}
	return "reject"
}

// ---------------------------------------------------------------------------------------

func TestC16(t *testing.T) {
	c := vlib.New("C16", "model_checking")
	if c.Replay != "" {
		replay(c)
		return
	}
	all := protos.All()
	byFamily := map[string][]*protos.Proto{}
	var famOrder []string
	var table []map[string]any
	var states, transitions, leiosStates, leiosEdges, implStates, implEdges int64
	sampleEvery := 0

	for _, p := range all {
		if err := p.CheckSnapshottable(); err != nil {
			c.Internal("%v", err)
		}
		if _, ok := byFamily[p.Family()]; !ok {
			famOrder = append(famOrder, p.Family())
		}
		byFamily[p.Family()] = append(byFamily[p.Family()], p)
		ls := letters(p)
		var rep report
		ir := exploreImpl(c, p, ls, &rep)
		if ir.capped {
			c.NotExhaustive(p.ID() + ": implementation state cap reached")
		}
		row := map[string]any{
			"configuration": p.ID(), "impl_states_in_map": len(p.Config.StateMap), "impl_states_reached": len(ir.nodes),
			"impl_edges": ir.edges, "impl_accepting_edges": ir.accepted, "letters": len(ls), "codec_roundtrips_ok": ir.rtOK,
		}
		implStates += int64(len(ir.nodes))
		implEdges += ir.edges
		if p.SpecNote != "" {
			row["note"] = p.SpecNote
		}
		if p.Spec == nil {
			row["specification"] = "none (spec-independent obligations only)"
			leiosStates += int64(len(ir.nodes))
			leiosEdges += ir.edges
		} else {
			readings := append([]*protos.SpecAutomaton{p.Spec}, p.AltSpecs...)
			var results []*prodResult
			best := -1
			for i, sp := range readings {
				r := product(p, sp, ls)
				if r.capped {
					c.NotExhaustive(p.ID() + ": product state cap reached")
				}
				results = append(results, r)
				if best < 0 || len(r.rep.findings) < len(results[best].rep.findings) {
					best = i
				}
			}
			r := results[best]
			states += int64(len(r.nodes))
			transitions += r.edges
			for o, n := range r.outcomes {
				for k := int64(0); k < n; k++ {
					c.Outcome("product:" + o)
				}
			}
			row["specification"] = r.spec.Name
			row["spec_states"] = len(r.spec.States)
			row["product_pairs"] = len(r.nodes)
			row["product_edges"] = r.edges
			row["outcomes"] = r.outcomes
			row["disagreements"] = len(r.rep.findings)
			if len(readings) > 1 {
				var rd []map[string]any
				for i, rr := range results {
					var ds []string
					for _, f := range rr.rep.findings {
						ds = append(ds, f.key)
					}
					rd = append(rd, map[string]any{"reading": rr.spec.Reading, "source": rr.spec.Source, "product_pairs": len(rr.nodes),
						"disagreements": ds, "compared_as_gating": i == best})
				}
				row["readings"] = rd
				row["reading_matched"] = r.spec.Reading
			}
			for _, f := range r.rep.findings {
				rep.add(f.key, f.what, f.replay)
			}
			// a few written-out traces (one deep pair of every 5th configuration)
			if sampleEvery%3 == 0 && len(r.nodes) > 1 {
				i := len(r.nodes) - 1
				c.Sample(map[string]any{"configuration": p.ID(), "pair": r.nodes[i].pr.impl.String() + "×" + r.nodes[i].pr.spec,
					"trace_executed_on_implementation": r.trace(i)})
			}
			sampleEvery++
		}
		row["findings"] = len(rep.findings)
		table = append(table, row)
		for _, f := range rep.findings {
			c.Violation(f.key, f.what, f.replay)
		}
	}

	// client and server of one protocol must have the same transition relation
	var csPairs, csEdges int64
	for _, fam := range famOrder {
		ps := byFamily[fam]
		if len(ps) != 2 {
			c.Internal("family %s has %d configurations, expected client and server", fam, len(ps))
		}
		var rep report
		n, e := clientServer(ps[0], ps[1], &rep)
		csPairs += int64(n)
		csEdges += e
		for _, f := range rep.findings {
			c.Violation(f.key, f.what, f.replay)
		}
	}

	c.Set("states", states)
	c.Set("transitions", transitions)
	c.Set("traces_validated_against_impl", states)
	c.Set("evaluations", transitions+implEdges+csEdges)
	c.Set("configurations", len(all))
	c.Set("configurations_with_specification", countSpec(all))
	c.Set("impl_only_states", implStates)
	c.Set("impl_only_edges", implEdges)
	c.Set("leios_impl_states", leiosStates)
	c.Set("leios_impl_edges", leiosEdges)
	c.Set("client_server_pairs", csPairs)
	c.Set("client_server_edges", csEdges)
	c.Set("per_configuration", table)
	c.Set("rule", "for every mini-protocol x mode x role the real NewClient/NewServer object is built and its ProtocolConfig read through the probe; "+
		"BFS to a fixed point (no depth bound, finite product) over (implementation state incl. StateContext, specification state) pairs; in every pair every letter of the alphabet "+
		"(one instance per message type and per variant a MatchFunc or the specification distinguishes, plus one unknown type; constructed and encode/decoded twin) is applied: "+
		"implementation successor = the real Protocol.nextState; pair must agree on accept/reject, agency and termination. states = product pairs, transitions = (pair,letter) edges, "+
		"every pair is reached by a shortest trace executed on the implementation. Additionally per configuration: all state-map states reachable, every transition target in the map, "+
		"nextState deterministic (all matching transitions evaluated), rejected messages leave the context unchanged, every accepted letter round-trips through MessageFromCborFunc to the same Go type and transition, "+
		"one message type is accepted under one agency only; per protocol: client and server objects have the same transition relation (second product search).")
	c.Assume("specification tables are those of DESIGN.md Appendix A (transcribed from the network specification, CIP-0137 from memory: not available offline)")
	c.Assume("Leios protocols (leios-fetch, leios-notify, leios-votes): no authoritative specification offline; only the spec-independent obligations are checked")
	c.Assume("message-submission V2: two readings of CIP-0137 V2 are kept, the implementation has to match one; see harness/c16/FINDINGS.md")
	c.Assume("data values inside messages are representatives; only variants a MatchFunc or the specification distinguishes are enumerated (leios-votes: RequestNext counts 0,1,3,max,max+1)")
	c.Finish()
}

func countSpec(all []*protos.Proto) int {
	n := 0
	for _, p := range all {
		if p.Spec != nil {
			n++
		}
	}
	return n
}

// replay re-executes the trace of a replay file on the implementation and the specification
// and prints every step; the violation is re-reported if it still occurs.
func replay(c *vlib.Check) {
	b, err := os.ReadFile(c.Replay)
	if err != nil {
		c.Internal("cannot read replay file: %v", err)
	}
	var f struct {
		Key    string `json:"key"`
		What   string `json:"what"`
		Replay struct {
			Proto   string   `json:"proto"`
			Reading string   `json:"reading"`
			Trace   []string `json:"trace"`
			Message string   `json:"message"`
		} `json:"replay"`
	}
	if err := json.Unmarshal(b, &f); err != nil {
		c.Internal("bad replay file: %v", err)
	}
	p := protos.Find(f.Replay.Proto)
	if p == nil {
		c.Internal("replay: no configuration %q (family-level findings are re-run by a normal run)", f.Replay.Proto)
	}
	var sp *protos.SpecAutomaton
	for _, s := range append([]*protos.SpecAutomaton{p.Spec}, p.AltSpecs...) {
		if s != nil && (sp == nil || s.Reading == f.Replay.Reading) {
			sp = s
		}
	}
	byLabel := map[string]protos.Msg{}
	for _, m := range p.Alphabet {
		byLabel[m.Label] = m
	}
	cur := p.Initial()
	ss := ""
	if sp != nil {
		ss = sp.Initial
	}
	fmt.Printf("replay %s on %s\n  start: implementation %s, specification %s\n", f.Key, p.ID(), cur, ss)
	steps := append(append([]string{}, f.Replay.Trace...), f.Replay.Message)
	for i, lab := range steps {
		m, ok := byLabel[lab]
		if !ok {
			if lab == "-" || lab == "" {
				break
			}
			c.Internal("replay: unknown letter %q", lab)
		}
		next, _, ierr := p.Step(cur, m.Msg)
		sn, sok := "", false
		if sp != nil && !m.Unknown {
			sn, sok, _ = sp.Step(ss, m.Spec)
		}
		fmt.Printf("  %d. %-34s implementation: %-28s specification: %s\n", i+1, lab, implStr(next, ierr), specStr(sn, sok))
		if (ierr == nil) != sok && sp != nil {
			if i == len(steps)-1 {
				c.Violation(f.Key, f.What, map[string]any{"proto": f.Replay.Proto, "reading": f.Replay.Reading,
					"trace": f.Replay.Trace, "message": f.Replay.Message})
			}
			break
		}
		if ierr != nil {
			break
		}
		cur, ss = next, sn
	}
	c.Set("states", len(steps)+1) // pairs visited along the replayed trace
	c.Set("transitions", len(steps))
	c.Set("traces_validated_against_impl", 1)
	c.Set("replay_of", f.Key)
	c.Assume("replay of one recorded trace; specification tables as in a normal run (DESIGN.md Appendix A)")
	c.Sample(map[string]any{"configuration": p.ID(), "trace_executed_on_implementation": steps})
	c.Finish()
}

func implStr(s protos.ImplState, err error) string {
	if err != nil {
		return "REJECT"
	}
	return "-> " + s.String()
}

func specStr(s string, ok bool) string {
	if !ok {
		return "REJECT"
	}
	return "-> " + s
}
