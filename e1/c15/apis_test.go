package c15

import (
	"fmt"
	"net"
	"time"

	ouroboros "github.com/blinklabs-io/gouroboros"
	"github.com/blinklabs-io/gouroboros/ledger"
	"github.com/blinklabs-io/gouroboros/protocol"
	"github.com/blinklabs-io/gouroboros/protocol/blockfetch"
	"github.com/blinklabs-io/gouroboros/protocol/chainsync"
	pcommon "github.com/blinklabs-io/gouroboros/protocol/common"
	"github.com/blinklabs-io/gouroboros/protocol/keepalive"
	"github.com/blinklabs-io/gouroboros/protocol/localstatequery"
	"github.com/blinklabs-io/gouroboros/protocol/localtxmonitor"
	"github.com/blinklabs-io/gouroboros/protocol/localtxsubmission"
	"github.com/blinklabs-io/gouroboros/protocol/peersharing"
	"github.com/blinklabs-io/gouroboros/protocol/txsubmission"
	rt "github.com/blinklabs-io/gouroboros/verifrt"
	vtime "github.com/blinklabs-io/gouroboros/verifrt/vtime"
	"verif/space"
)

// hooks is the per-execution state shared between callbacks and harness goroutines.
type hooks struct {
	initSeen   chan struct{}
	initClosed bool
}

func newHooks() *hooks { return &hooks{initSeen: make(chan struct{})} }

type conn = ouroboros.Connection

// call is one blocking API call made by its own harness goroutine.
type call struct {
	name    string
	pre     []func(c *conn, h *hooks) error // conforming calls made first by the same goroutine
	run     func(c *conn, h *hooks) string
	isClose bool
	delay   time.Duration // virtual time the caller lets pass between the prelude and the call
}

// api is one (protocol, API call) configuration: how the connection is set up, the
// conforming prelude on both sides, and the reply alphabet of the adversarial script.
type api struct {
	proto, label string
	ntn, server  bool
	duplex       bool // full-duplex NtN connection (client role, the peer advertises initiator-and-responder)
	pid          uint16
	opts         func(h *hooks) []ouroboros.ConnectionOptionFunc
	start        func(c *conn)
	calls        []call
	peerPre      []peerStep
	reqs         int           // request messages of the call under test the peer waits for before the script starts
	delay        time.Duration // extra virtual time the peer lets pass before the script
	letters      []letter
	maxTimeout   time.Duration // largest timeout configured for the protocol(s) involved
	maxLen       int           // cap on the script length (0 = tier default)
	lite         bool          // fewer scripts get the perturbed schedules (see reduced)
	extra        []extraScript // scripts run in addition to the enumerated ones (both tiers)
	bound        int           // deviation bound for scripts of length <= boundLen (0 = tier default)
	boundLen     int
}

// extraScript names a script by its letter labels; split != 0 re-segments its first two
// adjacent messages (see scenarioSplit).
type extraScript struct {
	labels []string
	split  int
}

func (sp *api) pick(labels []string) []letter {
	var out []letter
	for _, lab := range labels {
		found := false
		for _, l := range sp.letters {
			if l.label == lab {
				out = append(out, l)
				found = true
			}
		}
		if !found {
			panic("c15: no letter " + lab + " in " + sp.id())
		}
	}
	return out
}

// resegmented lists a script with its first message pair cut after 1 byte and in the middle
// of the second message.
func resegmented(labels ...string) []extraScript {
	return []extraScript{{labels: labels, split: 1}, {labels: labels, split: -1}}
}

func (sp *api) id() string {
	mode := "NtC"
	if sp.ntn {
		mode = "NtN"
	}
	return fmt.Sprintf("%s.%s/%s", sp.proto, sp.label, mode)
}

// ---- representative data ----------------------------------------------------------------

func hash32(seed byte) []byte {
	b := make([]byte, 32)
	for i := range b {
		b[i] = seed + byte(i)
	}
	return b
}

var (
	pointLo = pcommon.NewPoint(10, hash32(0x10))
	pointHi = pcommon.NewPoint(4242, hash32(0x40))
	tipHi   = pcommon.Tip{Point: pointHi, BlockNumber: 77}
)

var (
	fxRollForwardNtN = mustFixture("protocol/chainsync/testdata/rollforward_ntn_shelley_block_testnet_02b1c561715da9e540411123a6135ee319b02f60b9a11a603d3305556c04329f.hex")
	fxRollForwardNtC = mustFixture("protocol/chainsync/testdata/rollforward_ntc_shelley_block_testnet_02b1c561715da9e540411123a6135ee319b02f60b9a11a603d3305556c04329f.hex")
	fxShelleyBlock   = mustFixture("protocol/chainsync/testdata/shelley_block_testnet_02b1c561715da9e540411123a6135ee319b02f60b9a11a603d3305556c04329f.hex")
)

func mustFixture(rel string) []byte {
	b, err := space.ReadHexFixture(rel)
	if err != nil {
		panic("c15: fixture " + rel + ": " + err.Error())
	}
	return b
}

func msg(pid uint16, label string, m protocol.Message) letter {
	return letter{label: label, kind: kMsg, pid: pid, data: enc(m)}
}

func rawMsg(pid uint16, label string, b []byte) letter {
	return letter{label: label, kind: kMsg, pid: pid, data: b}
}

// adversarial completes an alphabet of well-formed replies with the three non-message
// letters. The malformed body carries the type number of the first reply; the truncated
// segment is the first reply cut in half.
func adversarial(pid uint16, replies []letter, firstType byte) []letter {
	out := append([]letter(nil), replies...)
	out = append(out,
		letter{label: "Malformed", kind: kMalformed, pid: pid, data: []byte{0x89, firstType, 1, 2, 3, 4, 5, 6, 7, 8}},
		letter{label: "Truncated", kind: kTruncated, pid: pid, data: replies[0].data},
		letter{label: "Silence", kind: kSilence, pid: pid},
	)
	return out
}

func res(err error) string { return errStr(err) }

// ---- chain-sync -------------------------------------------------------------------------

func csPid(ntn bool) uint16 {
	if ntn {
		return chainsync.ProtocolIdNtN
	}
	return chainsync.ProtocolIdNtC
}

func csLetters(ntn bool) []letter {
	pid := csPid(ntn)
	rf := fxRollForwardNtC
	if ntn {
		rf = fxRollForwardNtN
	}
	return adversarial(pid, []letter{
		msg(pid, "IntersectFound", chainsync.NewMsgIntersectFound(pointLo, tipHi)),
		msg(pid, "IntersectNotFound", chainsync.NewMsgIntersectNotFound(tipHi)),
		msg(pid, "AwaitReply", chainsync.NewMsgAwaitReply()),
		rawMsg(pid, "RollForward", rf),
		msg(pid, "RollBackward", chainsync.NewMsgRollBackward(pointLo, tipHi)),
	}, chainsync.MessageTypeIntersectFound)
}

func csOpts(h *hooks) []ouroboros.ConnectionOptionFunc {
	return []ouroboros.ConnectionOptionFunc{ouroboros.WithChainSyncConfig(chainsync.NewConfig(
		chainsync.WithRollForwardFunc(func(chainsync.CallbackContext, uint, any, chainsync.Tip) error { return nil }),
		chainsync.WithRollBackwardFunc(func(chainsync.CallbackContext, pcommon.Point, chainsync.Tip) error { return nil }),
	))}
}

func csTimeout(ntn bool) time.Duration {
	if ntn {
		return chainsync.IdleTimeout // 3673 s, the largest of the NtN table
	}
	return 0 // NtC: no timeouts
}

func csAPIs(ntn bool) []*api {
	pid := csPid(ntn)
	base := func(label string) *api {
		return &api{proto: "chain-sync", label: label, ntn: ntn, pid: pid, opts: csOpts,
			start:   func(c *conn) { c.ChainSync().Client.Start() },
			letters: csLetters(ntn), maxTimeout: csTimeout(ntn), reqs: 1}
	}
	syncCall := func(c *conn, h *hooks) error { return c.ChainSync().Client.Sync([]pcommon.Point{pointLo}) }
	intersectFound := enc(chainsync.NewMsgIntersectFound(pointLo, tipHi))

	sync := base("Sync")
	sync.calls = []call{{name: "Sync", run: func(c *conn, h *hooks) string { return res(syncCall(c, h)) }}}
	// a server that answers the pipelined RequestNext in the same TCP segment as the intersection
	sync.extra = append(resegmented("IntersectFound", "RollForward"), resegmented("IntersectFound", "RollBackward")...)

	tip := base("GetCurrentTip")
	tip.calls = []call{{name: "GetCurrentTip", run: func(c *conn, h *hooks) string {
		t, err := c.ChainSync().Client.GetCurrentTip()
		if err == nil && t != nil {
			return fmt.Sprintf("ok tip=%d", t.Point.Slot)
		}
		return res(err)
	}}}

	rng := base("GetAvailableBlockRange")
	rng.calls = []call{{name: "GetAvailableBlockRange", run: func(c *conn, h *hooks) string {
		s, e, err := c.ChainSync().Client.GetAvailableBlockRange([]pcommon.Point{pointLo})
		if err == nil {
			return fmt.Sprintf("ok %d..%d", s.Slot, e.Slot)
		}
		return res(err)
	}}}

	// Stop while a Sync is in progress (RequestNext outstanding, the server has agency)
	stop := base("Stop")
	stop.calls = []call{{name: "Stop", pre: []func(*conn, *hooks) error{syncCall},
		run: func(c *conn, h *hooks) string { return res(c.ChainSync().Client.Stop()) }}}
	stop.peerPre = []peerStep{{pid: pid, wait: 1, send: [][]byte{intersectFound}}}
	stop.reqs = 1 // the RequestNext that Sync sends after the intersection

	// Stop of an idle client (Done goes out at once, the protocol is unregistered)
	stopIdle := base("StopIdle")
	stopIdle.calls = []call{{name: "Stop", run: func(c *conn, h *hooks) string { return res(c.ChainSync().Client.Stop()) }}}

	// Connection.Close as the API call, with an idle chain-sync client started
	cl := base("Close")
	cl.proto = "connection"
	cl.reqs = 0
	cl.calls = []call{{name: "Close", isClose: true, run: func(c *conn, h *hooks) string { return res(c.Close()) }}}

	// Connection.Close while another call is waiting for its reply
	clBusy := base("CloseDuringGetCurrentTip")
	clBusy.proto = "connection"
	clBusy.calls = []call{
		tip.calls[0],
		{name: "Close", isClose: true, run: func(c *conn, h *hooks) string { return res(c.Close()) }},
	}
	all := []*api{sync, tip, rng, stop, stopIdle, cl, clBusy}
	for _, sp := range all {
		sp.lite = !ntn
	}
	clBusy.lite = true
	return all
}

// ---- block-fetch ------------------------------------------------------------------------

func bfAPIs() []*api {
	pid := blockfetch.ProtocolId
	wrapped := space.A(space.U(2), space.Raw(fxShelleyBlock)).Encode()
	letters := adversarial(pid, []letter{
		msg(pid, "StartBatch", blockfetch.NewMsgStartBatch()),
		msg(pid, "NoBlocks", blockfetch.NewMsgNoBlocks()),
		msg(pid, "Block", blockfetch.NewMsgBlock(wrapped)),
		msg(pid, "BatchDone", blockfetch.NewMsgBatchDone()),
	}, blockfetch.MessageTypeStartBatch)
	opts := func(h *hooks) []ouroboros.ConnectionOptionFunc {
		cfg, _ := blockfetch.NewConfig(
			blockfetch.WithBlockFunc(func(blockfetch.CallbackContext, uint, ledger.Block) error { return nil }),
			blockfetch.WithBatchDoneFunc(func(blockfetch.CallbackContext) error { return nil }),
		)
		return []ouroboros.ConnectionOptionFunc{ouroboros.WithBlockFetchConfig(cfg)}
	}
	base := func(label string) *api {
		return &api{proto: "block-fetch", label: label, ntn: true, pid: pid, opts: opts,
			start:   func(c *conn) { c.BlockFetch().Client.Start() },
			letters: letters, maxTimeout: 60 * time.Second, reqs: 1}
	}
	gb := base("GetBlock")
	gb.calls = []call{{name: "GetBlock", run: func(c *conn, h *hooks) string {
		b, err := c.BlockFetch().Client.GetBlock(pointLo)
		if err == nil && b != nil {
			return fmt.Sprintf("ok slot=%d", b.SlotNumber())
		}
		return res(err)
	}}}
	// the conforming single-block batch (the served block is a valid Shelley block whose hash is
	// not the requested one), whole and with the block cut across two segments
	gb.extra = append([]extraScript{{labels: []string{"StartBatch", "Block", "BatchDone"}}},
		resegmented("StartBatch", "Block", "BatchDone")...)
	gr := base("GetBlockRange")
	gr.calls = []call{{name: "GetBlockRange", run: func(c *conn, h *hooks) string {
		return res(c.BlockFetch().Client.GetBlockRange(pointLo, pointHi))
	}}}
	gr.extra = append([]extraScript{{labels: []string{"StartBatch", "Block", "BatchDone"}}},
		resegmented("StartBatch", "Block", "BatchDone")...)
	return []*api{gb, gr}
}

// ---- local-state-query ------------------------------------------------------------------

func lsqAPIs() []*api {
	pid := localstatequery.ProtocolId
	acquired := enc(localstatequery.NewMsgAcquired())
	letters := adversarial(pid, []letter{
		msg(pid, "Acquired", localstatequery.NewMsgAcquired()),
		msg(pid, "Failure", localstatequery.NewMsgFailure(localstatequery.AcquireFailurePointTooOld)),
		msg(pid, "Result", localstatequery.NewMsgResult([]byte{0x05})),
	}, localstatequery.MessageTypeAcquired)
	base := func(label string) *api {
		return &api{proto: "local-state-query", label: label, pid: pid,
			start:   func(c *conn) { c.LocalStateQuery().Client.Start() },
			letters: letters, maxTimeout: 180 * time.Second, reqs: 1}
	}
	acquire := func(c *conn, h *hooks) error { return c.LocalStateQuery().Client.Acquire(nil) }
	withAcquire := []peerStep{{pid: pid, wait: 1, send: [][]byte{acquired}}}

	acq := base("Acquire")
	acq.calls = []call{{name: "Acquire", run: func(c *conn, h *hooks) string { return res(acquire(c, h)) }}}

	rel := base("Release")
	rel.peerPre = withAcquire
	rel.calls = []call{{name: "Release", pre: []func(*conn, *hooks) error{acquire},
		run: func(c *conn, h *hooks) string { return res(c.LocalStateQuery().Client.Release()) }}}

	q := base("GetCurrentEra")
	q.peerPre = withAcquire
	q.calls = []call{{name: "GetCurrentEra", pre: []func(*conn, *hooks) error{acquire},
		run: func(c *conn, h *hooks) string {
			era, err := c.LocalStateQuery().Client.GetCurrentEra()
			if err == nil {
				return fmt.Sprintf("ok era=%d", era)
			}
			return res(err)
		}}}
	return []*api{acq, rel, q}
}

// ---- local-tx-monitor -------------------------------------------------------------------

func ltmAPIs() []*api {
	pid := localtxmonitor.ProtocolId
	acquired := enc(localtxmonitor.NewMsgAcquired(4242))
	letters := adversarial(pid, []letter{
		msg(pid, "Acquired", localtxmonitor.NewMsgAcquired(4242)),
		msg(pid, "ReplyHasTx", localtxmonitor.NewMsgReplyHasTx(true)),
		msg(pid, "ReplyNextTx", localtxmonitor.NewMsgReplyNextTx(6, []byte{0x80})),
		msg(pid, "ReplyGetSizes", localtxmonitor.NewMsgReplyGetSizes(1000, 100, 1)),
	}, localtxmonitor.MessageTypeAcquired)
	base := func(label string) *api {
		return &api{proto: "local-tx-monitor", label: label, pid: pid,
			start:   func(c *conn) { c.LocalTxMonitor().Client.Start() },
			letters: letters, maxTimeout: 30 * time.Second, reqs: 1}
	}
	acquire := func(c *conn, h *hooks) error { return c.LocalTxMonitor().Client.Acquire() }
	withAcquire := []peerStep{{pid: pid, wait: 1, send: [][]byte{acquired}}}
	pre := []func(*conn, *hooks) error{acquire}

	acq := base("Acquire")
	acq.calls = []call{{name: "Acquire", run: func(c *conn, h *hooks) string { return res(acquire(c, h)) }}}
	has := base("HasTx")
	has.peerPre = withAcquire
	has.calls = []call{{name: "HasTx", pre: pre, run: func(c *conn, h *hooks) string {
		v, err := c.LocalTxMonitor().Client.HasTx(hash32(0x12))
		if err == nil {
			return fmt.Sprintf("ok %v", v)
		}
		return res(err)
	}}}
	next := base("NextTx")
	next.peerPre = withAcquire
	next.calls = []call{{name: "NextTx", pre: pre, run: func(c *conn, h *hooks) string {
		tx, err := c.LocalTxMonitor().Client.NextTx()
		if err == nil {
			return fmt.Sprintf("ok %d bytes", len(tx))
		}
		return res(err)
	}}}
	sizes := base("GetSizes")
	sizes.peerPre = withAcquire
	sizes.calls = []call{{name: "GetSizes", pre: pre, run: func(c *conn, h *hooks) string {
		a, b, n, err := c.LocalTxMonitor().Client.GetSizes()
		if err == nil {
			return fmt.Sprintf("ok %d/%d/%d", a, b, n)
		}
		return res(err)
	}}}
	rel := base("Release")
	rel.peerPre = withAcquire
	rel.calls = []call{{name: "Release", pre: pre, run: func(c *conn, h *hooks) string {
		return res(c.LocalTxMonitor().Client.Release())
	}}}
	return []*api{acq, has, next, sizes, rel}
}

// ---- local-tx-submission ----------------------------------------------------------------

func ltsAPIs() []*api {
	pid := localtxsubmission.ProtocolId
	letters := adversarial(pid, []letter{
		msg(pid, "AcceptTx", localtxsubmission.NewMsgAcceptTx()),
		msg(pid, "RejectTx", localtxsubmission.NewMsgRejectTx([]byte{0x81, 0x01})),
	}, localtxsubmission.MessageTypeAcceptTx)
	sub := &api{proto: "local-tx-submission", label: "SubmitTx", pid: pid,
		start:   func(c *conn) { c.LocalTxSubmission().Client.Start() },
		letters: letters, maxTimeout: 30 * time.Second, reqs: 1}
	sub.calls = []call{{name: "SubmitTx", run: func(c *conn, h *hooks) string {
		return res(c.LocalTxSubmission().Client.SubmitTx(6, []byte{0x80}))
	}}}
	return []*api{sub}
}

// ---- peer-sharing -----------------------------------------------------------------------

func psAPIs() []*api {
	pid := uint16(peersharing.ProtocolId)
	letters := adversarial(pid, []letter{
		msg(pid, "SharePeers", peersharing.NewMsgSharePeers([]peersharing.PeerAddress{{IP: net.ParseIP("192.0.2.7"), Port: 3001}})),
	}, peersharing.MessageTypeSharePeers)
	gp := &api{proto: "peer-sharing", label: "GetPeers", ntn: true, pid: pid,
		opts: func(h *hooks) []ouroboros.ConnectionOptionFunc {
			return []ouroboros.ConnectionOptionFunc{ouroboros.WithPeerSharing(true)}
		},
		start:   func(c *conn) { c.PeerSharing().Client.Start() },
		letters: letters, maxTimeout: 60 * time.Second, reqs: 1}
	gp.calls = []call{{name: "GetPeers", run: func(c *conn, h *hooks) string {
		ps, err := c.PeerSharing().Client.GetPeers(4)
		if err == nil {
			return fmt.Sprintf("ok %d peers", len(ps))
		}
		return res(err)
	}}}
	return []*api{gp}
}

// ---- keep-alive -------------------------------------------------------------------------

func kaAPIs() []*api {
	pid := keepalive.ProtocolId
	letters := adversarial(pid, []letter{
		msg(pid, "KeepAliveResponse", keepalive.NewMsgKeepAliveResponse(0)),
		msg(pid, "KeepAliveResponse{wrong cookie}", keepalive.NewMsgKeepAliveResponse(4711)),
	}, keepalive.MessageTypeKeepAliveResponse)
	ka := &api{proto: "keep-alive", label: "Start", ntn: true, pid: pid,
		start:   func(c *conn) {},
		letters: letters, maxTimeout: 97 * time.Second, reqs: 1}
	ka.calls = []call{{name: "Start", run: func(c *conn, h *hooks) string {
		c.KeepAlive().Client.Start()
		return "ok"
	}}}
	return []*api{ka}
}

// ---- tx-submission server (server-role connection) --------------------------------------

func txsAPIs() []*api {
	pid := txsubmission.ProtocolId
	var id txsubmission.TxId
	id.EraId = 6
	copy(id.TxId[:], hash32(0x11))
	replyIds := txsubmission.NewMsgReplyTxIds([]txsubmission.TxIdAndSize{{TxId: id, Size: 300}})
	letters := adversarial(pid, []letter{
		msg(pid, "ReplyTxIds", replyIds),
		msg(pid, "ReplyTxs", txsubmission.NewMsgReplyTxs([]txsubmission.TxBody{{EraId: 6, TxBody: []byte{0x80}}})),
		msg(pid, "Done", txsubmission.NewMsgDone()),
		msg(pid, "Init", txsubmission.NewMsgInit()),
	}, txsubmission.MessageTypeReplyTxIds)
	opts := func(h *hooks) []ouroboros.ConnectionOptionFunc {
		return []ouroboros.ConnectionOptionFunc{ouroboros.WithTxSubmissionConfig(txsubmission.NewConfig(
			txsubmission.WithInitFunc(func(txsubmission.CallbackContext) error {
				if !h.initClosed {
					h.initClosed = true
					rt.Close("h:initSeen", h.initSeen)
				}
				return nil
			}),
		))}
	}
	// the server may only request once the client's Init has arrived
	waitInit := func(c *conn, h *hooks) error {
		s := rt.NewSel("h:waitInit", false)
		rt.SelRecvCase(s, h.initSeen)
		t := vtime.After(reqWait)
		rt.SelRecvCase(s, t)
		if s.Choose() != 0 {
			return fmt.Errorf("the peer's Init did not arrive")
		}
		return nil
	}
	base := func(label string) *api {
		return &api{proto: "tx-submission", label: label, ntn: true, server: true, lite: true, pid: pid, opts: opts,
			start:   func(c *conn) { c.TxSubmission().Server.Start() },
			letters: letters, maxTimeout: 10 * time.Second, reqs: 1,
			peerPre: []peerStep{{pid: pid, send: [][]byte{enc(txsubmission.NewMsgInit())}}}}
	}
	ids := base("RequestTxIds")
	ids.calls = []call{{name: "RequestTxIds", pre: []func(*conn, *hooks) error{waitInit},
		run: func(c *conn, h *hooks) string {
			r, err := c.TxSubmission().Server.RequestTxIds(true, 3)
			if err == nil {
				return fmt.Sprintf("ok %d ids", len(r))
			}
			return res(err)
		}}}
	txs := base("RequestTxs")
	txs.peerPre = append(txs.peerPre, peerStep{pid: pid, wait: 1, send: [][]byte{enc(replyIds)}})
	txs.calls = []call{{name: "RequestTxs", pre: []func(*conn, *hooks) error{waitInit,
		func(c *conn, h *hooks) error { _, err := c.TxSubmission().Server.RequestTxIds(true, 3); return err }},
		run: func(c *conn, h *hooks) string {
			r, err := c.TxSubmission().Server.RequestTxs([]txsubmission.TxId{id})
			if err == nil {
				return fmt.Sprintf("ok %d txs", len(r))
			}
			return res(err)
		}}}
	return []*api{ids, txs}
}

// ---- dedicated scenarios ----------------------------------------------------------------

// leadAPIs examines muxer.readLoop's silent return (`if recvChan.ch == nil { ...; return }`):
// a full-duplex NtN connection with a tx-submission server whose blocking RequestTxIds is
// pending (that state has no timeout) while the chain-sync client is stopped; a conforming
// server's next chain-sync message (AwaitReply / RollForward) is on the wire at the moment the
// protocol is unregistered.
func leadAPIs() []*api {
	cs, tx := chainsync.ProtocolIdNtN, txsubmission.ProtocolId
	txOpts := txsAPIs()[0].opts
	waitInit := txsAPIs()[0].calls[0].pre[0]
	var out []*api
	for _, d := range []time.Duration{2 * time.Millisecond} {
		sp := &api{proto: "muxer", label: fmt.Sprintf("RequestTxIdsWhileChainSyncStops@%dms", d.Milliseconds()), ntn: true, duplex: true, pid: cs,
			opts: func(h *hooks) []ouroboros.ConnectionOptionFunc { return append(csOpts(h), txOpts(h)...) },
			start: func(c *conn) {
				c.ChainSync().Client.Start()
				c.TxSubmission().Server.Start()
			},
			peerPre: []peerStep{
				{pid: tx, send: [][]byte{enc(txsubmission.NewMsgInit())}, init: true},
				{pid: tx, wait: 1},
				{pid: cs, wait: 1, send: [][]byte{enc(chainsync.NewMsgIntersectFound(pointLo, tipHi))}},
			},
			reqs: 1, delay: d, maxLen: 1, bound: 1, boundLen: 1,
			letters: []letter{
				msg(cs, "AwaitReply", chainsync.NewMsgAwaitReply()),
				rawMsg(cs, "RollForward", fxRollForwardNtN),
			},
			maxTimeout: chainsync.IdleTimeout,
		}
		sp.calls = []call{
			{name: "RequestTxIds", pre: []func(*conn, *hooks) error{waitInit}, run: func(c *conn, h *hooks) string {
				r, err := c.TxSubmission().Server.RequestTxIds(true, 3)
				if err == nil {
					return fmt.Sprintf("ok %d ids", len(r))
				}
				return res(err)
			}},
			{name: "Stop", pre: []func(*conn, *hooks) error{func(c *conn, h *hooks) error {
				return c.ChainSync().Client.Sync([]pcommon.Point{pointLo})
			}}, run: func(c *conn, h *hooks) string { return res(c.ChainSync().Client.Stop()) }},
		}
		out = append(out, sp)
	}
	return out
}

// floodAPIs: chain-sync Stop while the server keeps streaming blocks to a client whose
// RollForward callback is slow (surplus replies pile up in the muxer's 10-slot channel).
func floodAPIs() []*api {
	var out []*api
	for _, ntn := range []bool{false, true} {
		pid := csPid(ntn)
		rf := fxRollForwardNtC
		if ntn {
			rf = fxRollForwardNtN
		}
		sp := &api{proto: "chain-sync", label: "StopWhileServerStreams", ntn: ntn, pid: pid,
			opts: func(h *hooks) []ouroboros.ConnectionOptionFunc {
				return []ouroboros.ConnectionOptionFunc{ouroboros.WithChainSyncConfig(chainsync.NewConfig(
					chainsync.WithRollForwardFunc(func(chainsync.CallbackContext, uint, any, chainsync.Tip) error {
						vtime.Sleep(10 * time.Second) // a slow application
						return nil
					}),
					chainsync.WithRollBackwardFunc(func(chainsync.CallbackContext, pcommon.Point, chainsync.Tip) error { return nil }),
				))}
			},
			start:   func(c *conn) { c.ChainSync().Client.Start() },
			peerPre: []peerStep{{pid: pid, wait: 1, send: [][]byte{enc(chainsync.NewMsgIntersectFound(pointLo, tipHi))}}},
			reqs:    1, maxLen: 2, bound: 1, boundLen: 0,
			letters: []letter{{label: "RollForward*100", kind: kMsg, pid: pid, data: rf, rep: 100}, {label: "Silence", kind: kSilence, pid: pid}},
			maxTimeout: csTimeout(ntn),
		}
		sp.calls = []call{{name: "Stop", delay: 5 * time.Millisecond,
			pre: []func(*conn, *hooks) error{func(c *conn, h *hooks) error {
				return c.ChainSync().Client.Sync([]pcommon.Point{pointLo})
			}},
			run: func(c *conn, h *hooks) string { return res(c.ChainSync().Client.Stop()) }}}
		out = append(out, sp)
	}
	return out
}

func apis() []*api {
	var out []*api
	out = append(out, csAPIs(true)...)
	out = append(out, csAPIs(false)...)
	out = append(out, bfAPIs()...)
	out = append(out, lsqAPIs()...)
	out = append(out, ltmAPIs()...)
	out = append(out, ltsAPIs()...)
	out = append(out, psAPIs()...)
	out = append(out, kaAPIs()...)
	out = append(out, txsAPIs()...)
	out = append(out, leadAPIs()...)
	out = append(out, floodAPIs()...)
	return out
}
