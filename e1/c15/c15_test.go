// C15: no call hangs and nothing leaks, whatever the peer does.
//
// Seam S3: the REAL ouroboros.Connection (NtN and NtC, client role; server role for the
// tx-submission server) on a scheduler-owned connection. The other end is a scripted raw
// peer: a harness goroutine that completes the handshake itself, answers the conforming
// prelude of the API call under test and then plays an adversarial script over
// {every message type of the protocol in the reply direction, malformed body, truncated
// segment, silence}, always ending with a close. The API call runs in its own goroutine,
// the main goroutine is the application: it waits for the peer's final close, lets
// virtual time run past the largest timeout, calls Connection.Close and drains ErrorChan.
package c15

import (
	"fmt"
	"os"
	"strings"
	"testing"
	"time"

	ouroboros "github.com/blinklabs-io/gouroboros"
	rt "github.com/blinklabs-io/gouroboros/verifrt"
	vtime "github.com/blinklabs-io/gouroboros/verifrt/vtime"
	"verif/e1/e1lib"
)

// ---- the closed harness -----------------------------------------------------------------

const (
	silence      = 121 * time.Second // longer than the muxer's 120 s segment read deadline
	pace         = time.Millisecond  // network latency between two letters of a script
	reqWait      = time.Second       // how long the peer waits for a request before it goes on anyway
	horizon      = 3 * time.Hour
	minFinalWait = 121 * time.Second
)

func scriptName(script []letter) string {
	names := make([]string, len(script))
	for i, l := range script {
		names[i] = l.label
	}
	return strings.Join(names, ",")
}

// joinAt is the index of the first letter that is followed by another message letter (both
// single messages), or -1.
func joinAt(script []letter) int {
	for i := 0; i+1 < len(script); i++ {
		if script[i].kind == kMsg && script[i+1].kind == kMsg && script[i].rep <= 1 && script[i+1].rep <= 1 && script[i].pid == script[i+1].pid {
			return i
		}
	}
	return -1
}

// scriptNameSplit writes the re-segmented pair as "A+B@n".
func scriptNameSplit(script []letter, split int) string {
	j := joinAt(script)
	if split == 0 || j < 0 {
		return scriptName(script)
	}
	at := fmt.Sprintf("@%d", split)
	if split < 0 {
		at = "@half"
	}
	var names []string
	for i := 0; i < len(script); i++ {
		if i == j {
			names = append(names, script[i].label+"+"+script[i+1].label+at)
			i++
			continue
		}
		names = append(names, script[i].label)
	}
	return strings.Join(names, ",")
}

func errStr(err error) string {
	if err == nil {
		return "ok"
	}
	s := err.Error()
	if len(s) > 90 {
		s = s[:90]
	}
	return "err: " + s
}

// finalWait is how long the application waits after the peer's final close before it closes
// the Connection itself: longer than every timeout configured for the protocols involved
// and longer than the muxer's segment read deadline.
func finalWait(sp *api) time.Duration {
	w := sp.maxTimeout + time.Second
	if w < minFinalWait {
		w = minFinalWait
	}
	return w
}

// scenario builds the closed harness for one API call and one peer script.
func scenario(sp *api, script []letter) e1lib.Scenario { return scenarioSplit(sp, script, 0) }

// scenarioSplit: split != 0 re-segments the first two adjacent messages of the script: the
// first one complete plus the first n bytes of the second in one segment, the rest of the
// second in the next segment (n = split, or half of the message for split < 0).
func scenarioSplit(sp *api, script []letter, split int) e1lib.Scenario {
	name := fmt.Sprintf("%s|script=%s", sp.id(), scriptNameSplit(script, split))
	body := func() {
		h := newHooks()
		a, b := rt.ConnPair("local", "peer")
		peerDone := make(chan struct{})
		rt.Go("peer", func() {
			runPeer(b, sp, script, split)
			rt.Close("h:peerDone", peerDone)
		})
		opts := []ouroboros.ConnectionOptionFunc{
			ouroboros.WithConnection(a),
			ouroboros.WithNetworkMagic(magic),
			ouroboros.WithNodeToNode(sp.ntn),
			ouroboros.WithServer(sp.server),
			ouroboros.WithDelayProtocolStart(true),
		}
		if sp.duplex {
			opts = append(opts, ouroboros.WithFullDuplex(true))
		}
		if sp.opts != nil {
			opts = append(opts, sp.opts(h)...)
		}
		conn, err := ouroboros.NewConnection(opts...)
		if err != nil {
			// the scripted peer's handshake is conforming: this is a harness problem, not a finding
			rt.Log("harness: NewConnection failed: %v", err)
			rt.Recv("h:peerDone?", peerDone)
			return
		}
		sp.start(conn)
		for i, call := range sp.calls {
			i, call := i, call
			rt.Go(fmt.Sprintf("api%d", i), func() {
				for _, p := range call.pre {
					if err := p(conn, h); err != nil {
						rt.Log("api%d prelude failed: %v", i, err)
					}
				}
				if call.delay > 0 {
					vtime.Sleep(call.delay)
				}
				rt.Log("api%d-call %s", i, call.name)
				res := call.run(conn, h)
				rt.Log("api%d-returned %s", i, res)
			})
		}
		// the application: once the peer is gone and every timeout has had its chance,
		// close the connection and wait for the error channel to be closed
		rt.Recv("h:peerDone?", peerDone)
		rt.Log("peer-closed")
		vtime.Sleep(finalWait(sp))
		rt.Log("app-close")
		conn.Close()
		rt.Log("close-returned")
		for e := range rt.Range("h:errchan", conn.ErrorChan()) {
			rt.Log("errorchan %s", errStr(e))
		}
		rt.Log("errchan-closed")
	}
	check := func(r *rt.Result) []rt.Finding { return oracle(sp, r) }
	return e1lib.Scenario{Name: name, Body: body, Check: check, Cfg: rt.Config{Horizon: horizon}}
}

// oracle: the property, read off the observation log and the scheduler's verdict.
func oracle(sp *api, r *rt.Result) []rt.Finding {
	stuck := strings.Join(r.Verdict.Stuck, "; ")
	if r.Verdict.Kind == "panic" {
		first := strings.SplitN(r.Verdict.Detail, "\n", 2)[0]
		return []rt.Finding{{Key: "panic", What: "panic: " + first + "\n" + r.Verdict.Detail}}
	}
	idx := func(prefix string) int {
		for i, l := range r.Logs {
			if strings.HasPrefix(l, prefix) {
				return i
			}
		}
		return -1
	}
	for _, l := range r.Logs {
		if strings.HasPrefix(l, "harness:") || strings.Contains(l, "prelude failed") {
			return []rt.Finding{{Key: "harness-problem", What: l + " (the conforming part of the conversation failed: fix the harness)"}}
		}
	}
	appClose := idx("app-close")
	if appClose < 0 {
		// the application never got as far as Close: the peer goroutine is a harness goroutine and
		// must always finish
		return []rt.Finding{{Key: "harness-problem", What: "the application never reached Close: verdict " + r.Verdict.Kind + " " + r.Verdict.Detail + " " + stuck}}
	}
	if idx("close-returned") < 0 {
		return []rt.Finding{{Key: "close-hangs", What: "Connection.Close() did not return; verdict " + r.Verdict.Kind + ": " + stuck}}
	}
	if idx("errchan-closed") < 0 {
		return []rt.Finding{{Key: "errchan-open", What: "Connection.ErrorChan() was not closed after Close(); verdict " + r.Verdict.Kind + ": " + stuck}}
	}
	for i, call := range sp.calls {
		called := idx(fmt.Sprintf("api%d-call", i))
		ret := idx(fmt.Sprintf("api%d-returned", i))
		if called >= 0 && ret < 0 {
			return []rt.Finding{{Key: "hang", What: fmt.Sprintf("%s.%s never returned although the peer closed the connection, virtual time ran past every timeout and the application closed the Connection; verdict %s: %s", sp.proto, call.name, r.Verdict.Kind, stuck)}}
		}
		if called < 0 {
			return []rt.Finding{{Key: "hang", What: fmt.Sprintf("the conforming prelude of %s.%s never returned; verdict %s: %s", sp.proto, call.name, r.Verdict.Kind, stuck)}}
		}
		if ret > appClose && !call.isClose {
			return []rt.Finding{{Key: "hang-until-close", What: fmt.Sprintf("%s.%s was still blocked %v after the peer had closed the connection (past every configured timeout) and returned only when the application called Connection.Close()", sp.proto, call.name, sp.maxTimeout+time.Second)}}
		}
	}
	if r.Verdict.Kind != "ok" {
		return []rt.Finding{{Key: "leak", What: "everything returned but goroutines of the connection remain; verdict " + r.Verdict.Kind + " " + r.Verdict.Detail + ": " + stuck}}
	}
	return nil
}

// scripts enumerates all letter sequences up to maxLen (the final close is implicit).
func scripts(alpha []letter, maxLen int) [][]letter {
	var out [][]letter
	var rec func(cur []letter)
	rec = func(cur []letter) {
		out = append(out, append([]letter(nil), cur...))
		if len(cur) == maxLen {
			return
		}
		for _, a := range alpha {
			rec(append(cur, a))
		}
	}
	rec(nil)
	return out
}

// reduced says whether a script is left at the canonical schedule for the "lite" API
// configurations (the NtC twins of the chain-sync calls, whose client code is the NtN one, and
// the server-role / two-call configurations, whose executions are 2-4 times larger): among
// the scripts of the longest perturbed length only those made of messages alone are perturbed.
func reduced(sc []letter, devLen int) bool {
	if len(sc) < devLen || len(sc) == 0 {
		return false
	}
	for _, l := range sc {
		if l.kind != kMsg {
			return true
		}
	}
	return false
}

func TestC15(t *testing.T) {
	e1lib.Main(t, "C15", func(thorough bool) []e1lib.Scenario {
		var scs []e1lib.Scenario
		maxLen, devLen := 2, 1
		if thorough {
			maxLen, devLen = 3, 2
		}
		for _, sp := range apis() {
			ml := maxLen
			if sp.maxLen > 0 && sp.maxLen < ml {
				ml = sp.maxLen
			}
			for _, sc := range scripts(sp.letters, ml) {
				s := scenario(sp, sc)
				// budgets are wall-clock caps per scenario; they are generous because the machine is
				// shared (a bound-1 scenario costs 3-6 s of CPU)
				s.MinB, s.MaxB, s.Budget = 0, 0, 3*time.Minute
				if len(sc) <= devLen && !(sp.lite && reduced(sc, devLen)) {
					s.MaxB, s.MinB = 1, 1
					s.Budget = 15 * time.Minute
				}
				if sp.bound > 0 {
					s.MaxB, s.MinB = 0, 0
					if len(sc) <= sp.boundLen {
						s.MaxB, s.MinB = sp.bound, sp.bound
					}
				}
				scs = append(scs, s)
			}
			// extra scripts: longer than the tier's enumeration bound and/or re-segmented
			for _, ex := range sp.extra {
				sc := sp.pick(ex.labels)
				if ex.split == 0 && len(sc) <= ml {
					continue // already enumerated
				}
				s := scenarioSplit(sp, sc, ex.split)
				s.MinB, s.MaxB, s.Budget = 0, 0, 3*time.Minute
				if thorough {
					s.MinB, s.MaxB, s.Budget = 1, 1, 15*time.Minute
				}
				scs = append(scs, s)
			}
		}
		return scs
	})
}

// TestSpike runs one scenario (VERIF_ONLY substring, default: the first) on the canonical
// schedule with tracing: development aid, not part of the check.
func TestSpike(t *testing.T) {
	want := os.Getenv("VERIF_ONLY")
	for _, sp := range apis() {
		ml := 2
		if sp.maxLen > 0 {
			ml = sp.maxLen
		}
		var all []e1lib.Scenario
		for _, sc := range scripts(sp.letters, ml) {
			all = append(all, scenario(sp, sc))
		}
		for _, ex := range sp.extra {
			all = append(all, scenarioSplit(sp, sp.pick(ex.labels), ex.split))
		}
		for _, s := range all {
			if want != "" && s.Name != want {
				continue
			}
			st := time.Now()
			r := rt.Replay(t, s.Cfg, s.Body, nil)
			if os.Getenv("VERIF_TRACE") != "" {
				for _, l := range r.Trace {
					fmt.Println("   ", l)
				}
			}
			fmt.Println(s.Name, "verdict", r.Verdict.Kind, r.Verdict.Detail, "steps", r.Steps, "decisions", len(r.Decisions), "unmod", r.Unmodelled, "div", r.Divergences, "end", r.End, time.Since(st))
			for _, x := range r.Verdict.Stuck {
				fmt.Println("  stuck", x)
			}
			for _, l := range r.Logs {
				fmt.Println("  log", l)
			}
			for _, f := range s.Check(r) {
				fmt.Println("  FINDING", f.Key, f.What)
			}
			if want != "" {
				return
			}
		}
	}
}

