package c15

import (
	"encoding/binary"
	"fmt"
	"io"
	"sort"
	"time"

	"github.com/blinklabs-io/gouroboros/protocol"
	"github.com/blinklabs-io/gouroboros/protocol/handshake"
	rt "github.com/blinklabs-io/gouroboros/verifrt"
	vtime "github.com/blinklabs-io/gouroboros/verifrt/vtime"
	"verif/e1/protos"
	"verif/e1/s2lib"
	"verif/space"
)

const magic = 42

// letter kinds of a peer script
const (
	kMsg       = iota // one well-formed message of the protocol (reply direction), in its own segment
	kMalformed        // a known reply type whose body cannot be that message
	kTruncated        // a segment header promising more bytes than follow
	kSilence          // the peer says nothing for longer than the muxer's read deadline
)

type letter struct {
	label string
	kind  int
	pid   uint16 // protocol id of the segment
	data  []byte // kMsg/kMalformed: the segment payload; kTruncated: the full payload of which only half is sent
	rep   int    // kMsg: number of back-to-back copies (0 = 1): a burst of surplus replies
	init  bool   // the segment travels in the initiator direction even though the peer is the responder (full duplex)
}

// peerIO is the raw peer's view of the connection: it reads whole segments and counts the
// complete CBOR items received per protocol id (own CBOR reader, not the repository's).
type peerIO struct {
	c        *rt.Conn
	fromResp bool // direction bit of what the peer sends
	streams  map[uint16][]byte
	msgs     map[uint16][][]byte
	dead     bool
}

// await reads until n complete messages of protocol id have arrived, the local side
// closed the connection, or d of virtual time has passed without a complete segment.
func (p *peerIO) await(id uint16, n int, d time.Duration) bool {
	for len(p.msgs[id]) < n {
		if p.dead {
			return false
		}
		p.c.SetReadDeadline(vtime.Now().Add(d))
		hdr := make([]byte, 8)
		if _, err := io.ReadFull(p.c, hdr); err != nil {
			if err == io.EOF || err == io.ErrUnexpectedEOF || err == io.ErrClosedPipe {
				p.dead = true
			}
			return false
		}
		sid := binary.BigEndian.Uint16(hdr[4:]) & 0x7fff
		pl := make([]byte, int(binary.BigEndian.Uint16(hdr[6:])))
		if _, err := io.ReadFull(p.c, pl); err != nil {
			p.dead = true
			return false
		}
		buf := append(p.streams[sid], pl...)
		for len(buf) > 0 {
			_, used, err := space.ParsePrefix(buf)
			if err != nil {
				break
			}
			p.msgs[sid] = append(p.msgs[sid], append([]byte(nil), buf[:used]...))
			buf = buf[used:]
		}
		p.streams[sid] = buf
	}
	return true
}

func (p *peerIO) send(id uint16, payload []byte) { p.sendDir(id, payload, p.fromResp) }

func (p *peerIO) sendDir(id uint16, payload []byte, fromResp bool) {
	// a write to a connection the local side has already closed fails: the peer does not care
	_, _ = p.c.Write(s2lib.Segment(id, fromResp, payload))
}

func enc(m protocol.Message) []byte {
	b, err := protos.Encode(m)
	if err != nil {
		panic(fmt.Sprintf("c15: cannot encode %T: %v", m, err))
	}
	return b
}

func versionMap(ntn, duplex bool) protocol.ProtocolVersionMap {
	mode := protocol.ProtocolModeNodeToClient
	if ntn {
		mode = protocol.ProtocolModeNodeToNode
	}
	// peer sharing is advertised so that the peer-sharing client is usable
	// the diffusion-mode flag is "initiator only": false advertises initiator-and-responder
	return protocol.GetProtocolVersionMap(mode, magic, !duplex, true, false)
}

// handshakeAsResponder reads ProposeVersions and accepts the highest proposed version.
func (p *peerIO) handshakeAsResponder(ntn, duplex bool) bool {
	if !p.await(handshake.ProtocolId, 1, 5*time.Second) {
		return false
	}
	n, err := space.Parse(p.msgs[handshake.ProtocolId][0])
	if err != nil || !n.IsArray() || len(n.Items) != 2 || !n.Items[1].IsMap() {
		return false
	}
	var vs []int
	m := n.Items[1]
	for i := 0; i+1 < len(m.Items); i += 2 {
		if v, ok := m.Items[i].Uint(); ok {
			vs = append(vs, int(v))
		}
	}
	if len(vs) == 0 {
		return false
	}
	sort.Ints(vs)
	top := uint16(vs[len(vs)-1])
	vm := versionMap(ntn, duplex)
	vd, ok := vm[top]
	if !ok {
		return false
	}
	p.send(handshake.ProtocolId, enc(handshake.NewMsgAcceptVersion(top, vd)))
	return true
}

// handshakeAsInitiator proposes the full version table and waits for the answer.
func (p *peerIO) handshakeAsInitiator(ntn bool) bool {
	p.send(handshake.ProtocolId, enc(handshake.NewMsgProposeVersions(versionMap(ntn, false))))
	return p.await(handshake.ProtocolId, 1, 5*time.Second)
}

// peerStep is one conforming step of the prelude on the peer's side.
type peerStep struct {
	pid  uint16
	wait int      // request messages of protocol pid to wait for first (cumulative count is kept by the peer)
	send [][]byte // payloads sent afterwards, one segment each
	init bool     // sent in the initiator direction (full duplex)
}

func runPeer(b *rt.Conn, sp *api, script []letter, split int) {
	p := &peerIO{c: b, fromResp: !sp.server, streams: map[uint16][]byte{}, msgs: map[uint16][][]byte{}}
	ok := false
	if sp.server {
		ok = p.handshakeAsInitiator(sp.ntn)
	} else {
		ok = p.handshakeAsResponder(sp.ntn, sp.duplex)
	}
	if !ok {
		rt.Log("harness: peer could not complete the handshake")
		b.Close()
		return
	}
	need := map[uint16]int{}
	for _, st := range sp.peerPre {
		if st.wait > 0 {
			need[st.pid] += st.wait
			if !p.await(st.pid, need[st.pid], reqWait) {
				rt.Log("harness: peer did not see the prelude request")
			}
		}
		for _, pl := range st.send {
			p.sendDir(st.pid, pl, p.fromResp && !st.init)
		}
	}
	if sp.reqs > 0 {
		need[sp.pid] += sp.reqs
		p.await(sp.pid, need[sp.pid], reqWait)
	}
	if sp.delay > 0 {
		vtime.Sleep(sp.delay)
	}
	join := -1
	if split != 0 {
		join = joinAt(script)
	}
	for i := 0; i < len(script); i++ {
		l := script[i]
		if i > 0 {
			vtime.Sleep(pace)
		}
		if i == join {
			// message i complete + the first n bytes of message i+1 in one segment, the rest in the next
			nx := script[i+1].data
			n := split
			if n < 0 || n >= len(nx) {
				n = len(nx) / 2
			}
			p.sendDir(l.pid, append(append([]byte(nil), l.data...), nx[:n]...), p.fromResp && !l.init)
			p.sendDir(l.pid, nx[n:], p.fromResp && !l.init)
			i++
			continue
		}
		switch l.kind {
		case kMsg, kMalformed:
			for k := 0; k < max(l.rep, 1); k++ {
				p.sendDir(l.pid, l.data, p.fromResp && !l.init)
			}
		case kTruncated:
			seg := s2lib.Segment(l.pid, p.fromResp, l.data)
			_, _ = b.Write(seg[:8+len(l.data)/2])
		case kSilence:
			vtime.Sleep(silence)
		}
	}
	if len(script) > 0 {
		vtime.Sleep(pace)
	}
	b.Close()
}
