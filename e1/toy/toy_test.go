package toy

import (
	"fmt"
	"testing"
	"time"

	rt "github.com/blinklabs-io/gouroboros/verifrt"
	vsync "github.com/blinklabs-io/gouroboros/verifrt/vsync"
)

// lost update: two goroutines do a non-atomic increment under separate lock sections.
func bodyLostUpdate() {
	var mu vsync.Mutex
	x := 0
	done := make(chan struct{})
	for i := 0; i < 2; i++ {
		rt.Go("inc", func() {
			mu.Lock()
			v := x
			mu.Unlock()
			mu.Lock()
			x = v + 1
			mu.Unlock()
			rt.Send("done", done, struct{}{})
		})
	}
	rt.Recv("r1", done)
	rt.Recv("r2", done)
	rt.Log("x=%d", x)
}

func TestLostUpdate(t *testing.T) {
	for bound := 0; bound <= 3; bound++ {
		x := &rt.Explorer{T: t, Body: bodyLostUpdate, Bound: bound, Check: func(r *rt.Result) []rt.Finding {
			if r.Verdict.Kind != "ok" {
				return []rt.Finding{{Key: "verdict:" + r.Verdict.Kind, What: r.Verdict.Detail}}
			}
			if r.Logs[0] != "x=2" {
				return []rt.Finding{{Key: "lost", What: r.Logs[0]}}
			}
			return nil
		}}
		st := time.Now()
		x.Run()
		fmt.Printf("bound=%d execs=%d states=%d hits=%d outcomes=%d findings=%d internal=%v unmod=%d %v\n", bound, x.Execs, x.States, x.CacheHits, len(x.Outcomes), len(x.Findings), x.Internal, x.Unmodelled, time.Since(st))
		for _, f := range x.Findings {
			fmt.Println("  ", f.Key, f.What, f.Choices)
		}
	}
}

// select + timer + deadlock detection
func bodySelect() {
	a := make(chan int)
	b := make(chan int, 1)
	stop := make(chan struct{})
	rt.Go("prod", func() {
		rt.Send("a<-", a, 1)
		rt.Send("b<-", b, 2)
		rt.Close("close", stop)
	})
	got := 0
	for got < 3 {
		s := rt.NewSel("sel", false)
		rt.SelRecvCase(s, a)
		rt.SelRecvCase(s, b)
		rt.SelRecvCase(s, stop)
		switch s.Choose() {
		case 0:
			rt.Log("a=%d", rt.SelVal(s, a))
			got++
		case 1:
			rt.Log("b=%d", rt.SelVal(s, b))
			got++
		case 2:
			rt.Log("stop")
			got++
			stop = nil
		}
	}
}

func TestSelect(t *testing.T) {
	x := &rt.Explorer{T: t, Body: bodySelect, Bound: 3}
	x.Run()
	fmt.Printf("select: execs=%d states=%d outcomes=%d internal=%v div=%d\n", x.Execs, x.States, len(x.Outcomes), x.Internal, x.Divergences)
	if len(x.Outcomes) < 2 {
		t.Fatal("expected several outcomes")
	}
}

func TestDeadlock(t *testing.T) {
	body := func() {
		c := make(chan int)
		rt.Go("stuck", func() { rt.Send("s", c, 1) })
		var mu vsync.Mutex
		mu.Lock()
		rt.Go("stuck2", func() { mu.Lock() })
	}
	r := rt.RunOnce(t, nil2{}, rt.Config{}, body)
	fmt.Println("deadlock verdict:", r.Verdict.Kind, r.Verdict.Stuck, r.Verdict.Detail)
	if r.Verdict.Kind != "deadlock" {
		t.Fatal("want deadlock")
	}
}

type nil2 struct{}

func (nil2) Next(i, n int) int { return 0 }
