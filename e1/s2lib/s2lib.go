// Package s2lib holds what the protocol-engine harnesses (seam S2/S3) share: raw
// messages of exact sizes, segment framing, a wire reader for the peer side, and a
// two-endpoint setup (real muxer + real protocol.Protocol on both ends of a
// scheduler-owned connection).
package s2lib

import (
	"encoding/binary"
	"fmt"
	"hash/fnv"
	"io"

	"github.com/blinklabs-io/gouroboros/muxer"
	"github.com/blinklabs-io/gouroboros/protocol"
	rt "github.com/blinklabs-io/gouroboros/verifrt"
	"verif/space"
)

// RawMsg is a protocol.Message with fixed bytes.
type RawMsg struct {
	T uint8
	B []byte
}

func (m *RawMsg) SetCbor(b []byte) { m.B = b }
func (m *RawMsg) Cbor() []byte     { return m.B }
func (m *RawMsg) Type() uint8      { return m.T }

// SizedMsg returns a well-formed CBOR message [typ, (pad,) h'…'] whose encoding is exactly
// n bytes long (n >= 2; n == 2 gives [typ] alone in 2 bytes). tag varies the content.
func SizedMsg(typ uint8, n int, tag byte) *RawMsg {
	if typ >= 24 {
		panic("typ")
	}
	if n < 2 {
		panic("size")
	}
	if n == 2 {
		return &RawMsg{T: typ, B: []byte{0x81, typ}}
	}
	hdr := func(p int) int {
		switch {
		case p < 24:
			return 1
		case p < 256:
			return 2
		case p < 65536:
			return 3
		}
		return 5
	}
	for pad := 0; pad <= 1; pad++ {
		for _, h := range []int{1, 2, 3, 5} {
			p := n - 2 - pad - h
			if p >= 0 && hdr(p) == h {
				items := []*space.Node{space.U(uint64(typ))}
				if pad == 1 {
					items = append(items, space.U(0))
				}
				pl := make([]byte, p)
				for i := range pl {
					pl[i] = tag + byte(i*7)
				}
				items = append(items, space.B(pl))
				b := space.A(items...).Encode()
				if len(b) != n {
					panic(fmt.Sprintf("size %d got %d", n, len(b)))
				}
				return &RawMsg{T: typ, B: b}
			}
		}
	}
	panic(fmt.Sprintf("no encoding of size %d", n))
}

// Sum is a short fingerprint for logs.
func Sum(b []byte) string {
	h := fnv.New64a()
	h.Write(b)
	return fmt.Sprintf("%d:%x", len(b), h.Sum64()&0xffffff)
}

// Segment frames payload as one muxer segment.
func Segment(proto uint16, fromResponder bool, payload []byte) []byte {
	if len(payload) > 65535 {
		panic("segment too large")
	}
	out := make([]byte, 8+len(payload))
	binary.BigEndian.PutUint32(out, 1)
	id := proto
	if fromResponder {
		id |= 0x8000
	}
	binary.BigEndian.PutUint16(out[4:], id)
	binary.BigEndian.PutUint16(out[6:], uint16(len(payload)))
	copy(out[8:], payload)
	return out
}

// Segments cuts a byte stream into segments of at most max payload bytes.
func Segments(proto uint16, fromResponder bool, stream []byte, max int) []byte {
	var out []byte
	for len(stream) > 0 {
		n := max
		if n > len(stream) {
			n = len(stream)
		}
		out = append(out, Segment(proto, fromResponder, stream[:n])...)
		stream = stream[n:]
	}
	return out
}

// WireReader reads segments from c until EOF/error and calls onMsg for every complete
// CBOR item of every protocol's reassembled stream (own reader, not the repository's).
func WireReader(c io.Reader, onSeg func(id uint16, payload []byte), onMsg func(id uint16, msg []byte)) error {
	streams := map[uint16][]byte{}
	hdr := make([]byte, 8)
	for {
		if _, err := io.ReadFull(c, hdr); err != nil {
			return err
		}
		id := binary.BigEndian.Uint16(hdr[4:])
		n := int(binary.BigEndian.Uint16(hdr[6:]))
		pl := make([]byte, n)
		if _, err := io.ReadFull(c, pl); err != nil {
			return err
		}
		if onSeg != nil {
			onSeg(id, pl)
		}
		buf := append(streams[id], pl...)
		for len(buf) > 0 {
			_, used, err := space.ParsePrefix(buf)
			if err != nil {
				break // incomplete item: wait for more segments
			}
			if onMsg != nil {
				onMsg(id, buf[:used])
			}
			buf = buf[used:]
		}
		streams[id] = buf
	}
}

// Endpoint is one side: muxer + protocol.
type Endpoint struct {
	Conn  *rt.Conn
	Mux   *muxer.Muxer
	Proto *protocol.Protocol
	Errs  chan error
}

// NewEndpoint creates a started muxer on conn and a protocol (not yet started) with cfg
// (ErrorChan and Muxer are filled in).
func NewEndpoint(conn *rt.Conn, cfg protocol.ProtocolConfig) *Endpoint {
	m := muxer.New(conn)
	ep := &Endpoint{Conn: conn, Mux: m, Errs: make(chan error, 10)}
	cfg.Muxer = m
	cfg.ErrorChan = ep.Errs
	ep.Proto = protocol.New(cfg)
	return ep
}

// Start starts the protocol and the muxer.
func (e *Endpoint) Start() {
	e.Proto.Start()
	e.Mux.Start()
}

// Shutdown stops protocol and muxer and waits for both.
func (e *Endpoint) Shutdown() {
	e.Proto.Stop()
	e.Mux.Stop()
	rt.Recv("s2:protoDone", e.Proto.DoneChan())
	for range rt.Range("s2:muxErrs", e.Mux.ErrorChan()) {
	}
}
